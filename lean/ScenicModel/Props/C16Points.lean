import ScenicModel.Props.C16Sem
import Mathlib.Tactic.FieldSimp

/-!
# C16 (part 2): point predicates and `intersects`

All statements are about the code model of `Model/RegionAlgebra.lean` / `Model/Dispatch.lean`, for every
region / point / flag value, and say under which values of the flags read off the source the library's
answers agree with 3-coordinate membership (`Reg.mem`).  Each is followed by a concrete witness showing
what goes wrong for the other flag value (these are the defects repaired in round 0, kept as regression
statements, and the defects still present at the pinned commit).
-/
namespace Scenic.Region

/-! ## membership predicates of the classes -/

/-- the height tests the property needs in `_trueContainsPoint` / `containsPoint` -/
def Flags.pointsOK (F : Flags) : Prop :=
  F.polyTrueChecksZ = true ∧ F.discContainsChecksZ = true ∧ F.lineContainsChecksZ = true

/-- for every primitive region `_trueContainsPoint` is 3-coordinate membership -/
theorem trueContains_eq_mem (F : Flags) (hF : F.pointsOK) :
    ∀ (R : Reg), R.kind ≠ .comp → ∀ p, trueContains F R p = R.mem p := by
  obtain ⟨h1, h2, h3⟩ := hF
  intro R
  induction R with
  | lzy r ih => intro hk p; exact ih (by simpa [Reg.kind] using hk) p
  | inter a b _ _ => intro hk; simp [Reg.kind] at hk
  | union a b _ _ => intro hk; simp [Reg.kind] at hk
  | diff a b _ _ => intro hk; simp [Reg.kind] at hk
  | _ => intro _ p; simp [trueContains, containsPoint, containsPrim, Reg.mem, Shape2.mem, h1, h2, h3]

example : (⟨true, .selfZ, .selfZ, false, true, .selfZ, .selfZ, true, true, true, false⟩ : Flags).pointsOK :=
  ⟨rfl, rfl, rfl⟩

/-- when the composite regions define `_trueContainsPoint` structurally, it is 3-coordinate membership for
    **every** region, nested composites included -/
theorem trueContains_eq_mem_all (F : Flags) (hF : F.pointsOK) (hs : F.compTrueStructural = true) :
    ∀ (R : Reg) p, trueContains F R p = R.mem p := by
  intro R
  induction R with
  | lzy r ih => intro p; simpa [trueContains, Reg.mem] using ih p
  | inter a b iha ihb => intro p; simp [trueContains, hs, Reg.mem, iha p, ihb p]
  | union a b iha ihb => intro p; simp [trueContains, hs, Reg.mem, iha p, ihb p]
  | diff a b iha ihb => intro p; simp [trueContains, hs, Reg.mem, iha p, ihb p]
  | all => intro p; exact trueContains_eq_mem F hF .all (by simp [Reg.kind]) p
  | empty => intro p; exact trueContains_eq_mem F hF .empty (by simp [Reg.kind]) p
  | planar z s => intro p; exact trueContains_eq_mem F hF (.planar z s) (by simp [Reg.kind]) p
  | disc z c r => intro p; exact trueContains_eq_mem F hF (.disc z c r) (by simp [Reg.kind]) p
  | foot s => intro p; exact trueContains_eq_mem F hF (.foot s) (by simp [Reg.kind]) p
  | line c => intro p; exact trueContains_eq_mem F hF (.line c) (by simp [Reg.kind]) p
  | path c => intro p; exact trueContains_eq_mem F hF (.path c) (by simp [Reg.kind]) p
  | pts ps => intro p; exact trueContains_eq_mem F hF (.pts ps) (by simp [Reg.kind]) p
  | vol b => intro p; exact trueContains_eq_mem F hF (.vol b) (by simp [Reg.kind]) p
  | surf b => intro p; exact trueContains_eq_mem F hF (.surf b) (by simp [Reg.kind]) p

/-- the operands of a composite are primitive (what `A.op(B)` builds from two primitive regions) -/
def flatComp : Reg → Prop
  | .lzy r => flatComp r
  | .inter a b => a.kind ≠ .comp ∧ b.kind ≠ .comp
  | .union a b => a.kind ≠ .comp ∧ b.kind ≠ .comp
  | .diff a b => a.kind ≠ .comp ∧ b.kind ≠ .comp
  | _ => True

/-- the membership realised by the generic samplers (`_trueContainsPoint` of the immediate parts) is
    3-coordinate membership for primitives and for composites of primitives -/
theorem memCode_eq_mem (F : Flags) (hF : F.pointsOK) : ∀ (R : Reg), flatComp R → ∀ p, memCode F R p = R.mem p := by
  intro R
  induction R with
  | lzy r ih => intro hf p; simpa [memCode, Reg.mem] using ih hf p
  | inter a b _ _ =>
    intro hf p
    simp [memCode, Reg.mem, trueContains_eq_mem F hF a hf.1 p, trueContains_eq_mem F hF b hf.2 p]
  | union a b _ _ =>
    intro hf p
    simp [memCode, Reg.mem, trueContains_eq_mem F hF a hf.1 p, trueContains_eq_mem F hF b hf.2 p]
  | diff a b _ _ =>
    intro hf p
    simp [memCode, Reg.mem, trueContains_eq_mem F hF a hf.1 p, trueContains_eq_mem F hF b hf.2 p]
  | all => intro _ p; exact trueContains_eq_mem F hF .all (by simp [Reg.kind]) p
  | empty => intro _ p; exact trueContains_eq_mem F hF .empty (by simp [Reg.kind]) p
  | planar z s => intro _ p; exact trueContains_eq_mem F hF (.planar z s) (by simp [Reg.kind]) p
  | disc z c r => intro _ p; exact trueContains_eq_mem F hF (.disc z c r) (by simp [Reg.kind]) p
  | foot s => intro _ p; exact trueContains_eq_mem F hF (.foot s) (by simp [Reg.kind]) p
  | line c => intro _ p; exact trueContains_eq_mem F hF (.line c) (by simp [Reg.kind]) p
  | path c => intro _ p; exact trueContains_eq_mem F hF (.path c) (by simp [Reg.kind]) p
  | pts ps => intro _ p; exact trueContains_eq_mem F hF (.pts ps) (by simp [Reg.kind]) p
  | vol b => intro _ p; exact trueContains_eq_mem F hF (.vol b) (by simp [Reg.kind]) p
  | surf b => intro _ p; exact trueContains_eq_mem F hF (.surf b) (by simp [Reg.kind]) p

example : flatComp (.inter (.planar 5 unitDisc) (.vol (Box.aligned ⟨0, 0, 5⟩ ⟨1, 1, 1⟩))) := by
  simp [flatComp, Reg.kind]

/-- … and for every region, nested composites included, once the composites define `_trueContainsPoint`
    structurally -/
theorem memCode_eq_mem_all (F : Flags) (hF : F.pointsOK) (hs : F.compTrueStructural = true) :
    ∀ (R : Reg) p, memCode F R p = R.mem p := by
  intro R
  induction R with
  | lzy r ih => intro p; simpa [memCode, Reg.mem] using ih p
  | inter a b _ _ => intro p; simp [memCode, Reg.mem, trueContains_eq_mem_all F hF hs]
  | union a b _ _ => intro p; simp [memCode, Reg.mem, trueContains_eq_mem_all F hF hs]
  | diff a b _ _ => intro p; simp [memCode, Reg.mem, trueContains_eq_mem_all F hF hs]
  | all => intro p; exact trueContains_eq_mem_all F hF hs .all p
  | empty => intro p; exact trueContains_eq_mem_all F hF hs .empty p
  | planar z s => intro p; exact trueContains_eq_mem_all F hF hs (.planar z s) p
  | disc z c r => intro p; exact trueContains_eq_mem_all F hF hs (.disc z c r) p
  | foot s => intro p; exact trueContains_eq_mem_all F hF hs (.foot s) p
  | line c => intro p; exact trueContains_eq_mem_all F hF hs (.line c) p
  | path c => intro p; exact trueContains_eq_mem_all F hF hs (.path c) p
  | pts ps => intro p; exact trueContains_eq_mem_all F hF hs (.pts ps) p
  | vol b => intro p; exact trueContains_eq_mem_all F hF hs (.vol b) p
  | surf b => intro p; exact trueContains_eq_mem_all F hF hs (.surf b) p

/-- **defect of the current code** (finding `intersects:pts-comp:*`, `sample:*-comp:*`): a composite region inherits
    `Region._trueContainsPoint = containsPoint`, which evaluates the *footprint* of intersections and differences:
    the box minus a disc at height 1 contains the point (0,0,0), `_trueContainsPoint` says it does not -/
theorem trueContains_composite_witness (F : Flags) (hs : F.compTrueStructural = false) :
    trueContains F (.diff (.vol (Box.aligned ⟨0, 0, 0⟩ ⟨2, 2, 2⟩)) (.planar 1 unitDisc)) ⟨0, 0, 0⟩ = false ∧
    (Reg.diff (.vol (Box.aligned ⟨0, 0, 0⟩ ⟨2, 2, 2⟩)) (.planar 1 unitDisc)).mem ⟨0, 0, 0⟩ = true := by
  constructor
  · simp [trueContains, hs, containsPoint, containsFoot, containsPrim, unitDisc, Shape2.mem, V2.dsq, sq, Pt.xy]
  · simp [Reg.mem, Box.mem, Box.local, Box.aligned, Pt.dot, Pt.sub, absR]

/-- the specialised sampler of `PointSetRegion.intersect(other)` chooses among exactly the points of the set that
    belong to `other` in three coordinates (repair 1511e557 made it ask `_trueContainsPoint`) -/
theorem ptsSampler_support (F : Flags) (hF : F.pointsOK) (A B : Reg) (ha : A.kind = .pts)
    (hb : B.kind ≠ .comp ∨ F.compTrueStructural = true) (p : Pt) :
    p ∈ ptsSamplerSupport F A B ↔ (A.mem p = true ∧ B.mem p = true) := by
  have hB : ∀ q, trueContains F B q = B.mem q := by
    rcases hb with hb | hs
    · exact trueContains_eq_mem F hF B hb
    · exact trueContains_eq_mem_all F hF hs B
  simp only [ptsSamplerSupport, List.mem_filter, hB, (kind_pts_cases F A ha p).1, List.contains_eq_mem,
    decide_eq_true_eq]

example : (⟨0, 0, 5⟩ : Pt) ∈ ptsSamplerSupport ⟨true, .selfZ, .selfZ, true, true, .selfZ, .selfZ, true, true, true, false⟩
    (.pts [⟨0, 0, 5⟩, ⟨0, 0, 0⟩]) (.planar 5 unitDisc) := by
  simp [ptsSamplerSupport, Reg.points, trueContains, unitDisc, Shape2.mem, V2.dsq, sq, Pt.xy]

/-- `containsPoint` itself is *not* 3-coordinate membership (footprint semantics, by design): a composite
    region containing a polygon at height 5 "contains" a point at height 0 -/
theorem containsPoint_footprint_witness (F : Flags) :
    containsPoint F (.inter (.planar 5 unitDisc) .all) ⟨0, 0, 0⟩ = true ∧
    (Reg.inter (.planar 5 unitDisc) .all).mem ⟨0, 0, 0⟩ = false := by
  constructor
  · simp [containsPoint, containsFoot, containsPrim, unitDisc, Shape2.mem, V2.dsq, sq, Pt.xy]
  · simp [Reg.mem]

/-- kinds whose `containsPoint` is 3-coordinate membership -/
def exactContains (F : Flags) (k : Kind) : Bool :=
  k == .all || k == .empty || k == .foot || k == .path || k == .pts || k == .vol || k == .surf
    || (k == .line && F.lineContainsChecksZ) || (k == .disc && F.discContainsChecksZ)

theorem containsPoint_eq_mem (F : Flags) : ∀ (R : Reg), exactContains F R.kind = true →
    ∀ p, containsPoint F R p = R.mem p := by
  intro R
  induction R with
  | lzy r ih => intro hk p; rw [containsPoint]; exact ih (by simpa [Reg.kind] using hk) p
  | inter a b _ _ => intro hk; simp [Reg.kind, exactContains] at hk
  | union a b _ _ => intro hk; simp [Reg.kind, exactContains] at hk
  | diff a b _ _ => intro hk; simp [Reg.kind, exactContains] at hk
  | planar z s => intro hk; simp [Reg.kind, exactContains] at hk
  | line c =>
    intro hk p
    have : F.lineContainsChecksZ = true := by simpa [Reg.kind, exactContains] using hk
    simp [containsPoint, containsPrim, Reg.mem, this]
  | disc z c r =>
    intro hk p
    have : F.discContainsChecksZ = true := by simpa [Reg.kind, exactContains] using hk
    simp [containsPoint, containsPrim, Reg.mem, this]
  | _ => intro _ p; simp [containsPoint, containsPrim, Reg.mem]

/-! ## `intersects` -/

/-- `intersects` handler `h`, reached for operands that look like `c`, decides "share a point" -/
def isectHandlerOK (F : Flags) (c : Ctl) : Handler → Bool
  | .retFalse => c.ka == .empty || disjointK c
  | .otherNotEmpty => c.ka == .all
  | .polyIntersects => planarK c.ka && ((planarK c.kb && !c.zne) || c.kb == .foot || (c.kb == .line && !c.ea))
  | .lineIntersects => c.ka == .line && (c.kb == .foot || c.kb == .line || (planarK c.kb && !c.eb))
  | .discIntersects => c.ka == .disc && c.kb == .disc && !c.zne
  | .ptsAny => c.ka == .pts && exactContains F c.kb
  | .ptsAnyTrue => c.ka == .pts && (c.kb != .comp || F.compTrueStructural) && F.polyTrueChecksZ && F.discContainsChecksZ
      && F.lineContainsChecksZ
  | .volVolIntersects => c.ka == .vol && c.kb == .vol
  | .volSurfIntersects => c.ka == .vol && c.kb == .surf
  | .volFootIntersects => c.ka == .vol && c.kb == .foot
  | .surfSurfIntersects => c.ka == .surf && c.kb == .surf
  | .surfFootIntersects => c.ka == .surf && c.kb == .foot
  | _ => false

def isectRouteOK (F : Flags) : Ctl → Route → Bool
  | c, .run h => isectHandlerOK F c h
  | c, .swap r => isectRouteOK F c.swap r
  | _, _ => false

theorem cauchy (ax ay bx by' ra rb : Rat) (hra : 0 ≤ ra) (hrb : 0 ≤ rb)
    (ha : ax * ax + ay * ay ≤ ra * ra) (hb : bx * bx + by' * by' ≤ rb * rb) :
    (bx - ax) * (bx - ax) + (by' - ay) * (by' - ay) ≤ (ra + rb) * (ra + rb) := by
  have hcs : (ax * bx + ay * by') * (ax * bx + ay * by') ≤ (ax * ax + ay * ay) * (bx * bx + by' * by') := by
    nlinarith [mul_self_nonneg (ax * by' - ay * bx)]
  have h1 : (ax * ax + ay * ay) * (bx * bx + by' * by') ≤ (ra * ra) * (rb * rb) :=
    mul_le_mul ha hb (add_nonneg (mul_self_nonneg _) (mul_self_nonneg _)) (mul_self_nonneg _)
  have h2 : -(ax * bx + ay * by') ≤ ra * rb := by
    by_contra hc
    push Not at hc
    have : 0 ≤ ra * rb := mul_nonneg hra hrb
    nlinarith
  nlinarith

/-- two discs **in the same plane** share a point exactly when the centre-distance test of
    `CircularRegion.intersects` says so -/
theorem disc_intersects_iff (z : Rat) (c1 c2 : V2) (r1 r2 : Rat) (h1 : 0 ≤ r1) (h2 : 0 ≤ r2) :
    (decide (0 ≤ r1 + r2) && decide (Pt.dsq (c1.at z) (c2.at z) ≤ sq (r1 + r2))) = true ↔
      ∃ p, (Reg.disc z c1 r1).mem p = true ∧ (Reg.disc z c2 r2).mem p = true := by
  have hd : Pt.dsq (c1.at z) (c2.at z) = V2.dsq c1 c2 := by simp [Pt.dsq, V2.dsq, V2.at, sq]
  rw [hd]
  simp only [Bool.and_eq_true, decide_eq_true_eq, Reg.mem]
  constructor
  · rintro ⟨_, hle⟩
    by_cases hs : r1 + r2 = 0
    · have e1 : r1 = 0 := by linarith
      have e2 : r2 = 0 := by linarith
      refine ⟨c1.at z, ?_, ?_⟩
      · simp [V2.at, Pt.xy, V2.dsq, sq, e1]
      · have : V2.dsq c1 c2 ≤ 0 := by simpa [hs, sq] using hle
        simp [V2.at, Pt.xy, e2, sq]
        exact this
    · have hpos : 0 < r1 + r2 := lt_of_le_of_ne (by linarith) (Ne.symm hs)
      let t := r1 / (r1 + r2)
      have ht : t * (r1 + r2) = r1 := by simp only [t]; field_simp
      have ht0 : 0 ≤ t := div_nonneg h1 (le_of_lt hpos)
      have ht1 : (1 - t) * (r1 + r2) = r2 := by linarith
      have ht1' : 0 ≤ 1 - t := by
        by_contra hc
        push Not at hc
        nlinarith
      refine ⟨⟨c1.x + t * (c2.x - c1.x), c1.y + t * (c2.y - c1.y), z⟩, ?_, ?_⟩
      · refine ⟨rfl, ?_⟩
        simp only [Pt.xy, V2.dsq, sq]
        unfold V2.dsq sq at hle
        have : (t * (c2.x - c1.x)) * (t * (c2.x - c1.x)) + (t * (c2.y - c1.y)) * (t * (c2.y - c1.y))
            ≤ (t * (r1 + r2)) * (t * (r1 + r2)) := by
          have := mul_le_mul_of_nonneg_left hle (mul_nonneg ht0 ht0)
          nlinarith
        rw [ht] at this
        ring_nf at this ⊢
        linarith
      · refine ⟨rfl, ?_⟩
        simp only [Pt.xy, V2.dsq, sq]
        unfold V2.dsq sq at hle
        have : ((1 - t) * (c1.x - c2.x)) * ((1 - t) * (c1.x - c2.x)) + ((1 - t) * (c1.y - c2.y)) * ((1 - t) * (c1.y - c2.y))
            ≤ ((1 - t) * (r1 + r2)) * ((1 - t) * (r1 + r2)) := by
          have := mul_le_mul_of_nonneg_left hle (mul_nonneg ht1' ht1')
          nlinarith
        rw [ht1] at this
        ring_nf at this ⊢
        linarith
  · rintro ⟨p, hp1, hp2⟩
    refine ⟨by linarith, ?_⟩
    have := cauchy (p.x - c1.x) (p.y - c1.y) (p.x - c2.x) (p.y - c2.y) r1 r2 h1 h2
      (by simpa [V2.dsq, sq, Pt.xy] using hp1.2) (by simpa [V2.dsq, sq, Pt.xy] using hp2.2)
    simp only [V2.dsq, sq]
    nlinarith

example : ∃ p, (Reg.disc 5 ⟨0, 0⟩ 1).mem p = true ∧ (Reg.disc 5 ⟨1, 0⟩ 1).mem p = true :=
  (disc_intersects_iff 5 ⟨0, 0⟩ ⟨1, 0⟩ 1 1 (by norm_num) (by norm_num)).mp (by simp [Pt.dsq, V2.at, sq]; norm_num)

/-- why the height guard added to `CircularRegion.intersects` by 617805a9 is needed: the centre-distance test alone
    makes two unit discs one above the other "intersect" although they share no point (`isectHandlerOK` accepts
    `discIntersects` only for equal heights, so a table without the guard fails `gen_routes_intersects_sound`) -/
theorem disc_intersects_height_witness (O : Oracle) (F : Flags) :
    runH O F .discIntersects (.disc 0 ⟨0, 0⟩ 1) (.disc 1 ⟨0, 0⟩ 1) = .bool true ∧
    ¬ ∃ p, (Reg.disc 0 ⟨0, 0⟩ 1).mem p = true ∧ (Reg.disc 1 ⟨0, 0⟩ 1).mem p = true := by
  constructor
  · simp [runH, Reg.radius, Reg.center, V2.at, Pt.dsq, sq]; norm_num
  · rintro ⟨p, h1, h2⟩
    simp only [Reg.mem, Bool.and_eq_true, decide_eq_true_eq] at h1 h2
    linarith [h1.1, h2.1]

/-- why `PointSetRegion.intersects` must ask `_trueContainsPoint` (repair 1511e557): `other.containsPoint` ignores
    the height of a polygon -/
theorem ptsAny_footprint_witness (O : Oracle) (F : Flags) :
    runH O F .ptsAny (.pts [⟨0, 0, 0⟩]) (.planar 5 unitDisc) = .bool true ∧
    ¬ ∃ p, (Reg.pts [⟨0, 0, 0⟩]).mem p = true ∧ (Reg.planar 5 unitDisc).mem p = true := by
  constructor
  · simp [runH, Reg.points, containsPoint, containsPrim, unitDisc, Shape2.mem, V2.dsq, sq, Pt.xy]
  · rintro ⟨p, h1, h2⟩
    simp only [Reg.mem, Bool.and_eq_true, decide_eq_true_eq, List.contains_eq_mem, List.mem_singleton] at h1 h2
    rw [h1] at h2
    norm_num at h2

section isect
variable (O : Oracle) (hO : OracleOK O) (F : Flags)
include hO

theorem isectHandler_sound (h : Handler) (A B : Reg) (hrA : 0 ≤ A.radius) (hrB : 0 ≤ B.radius)
    (hiB : B.kind ≠ .empty → ∃ p, B.mem p = true)
    (hok : isectHandlerOK F (ctlOf A B) h = true) :
    ∃ b, runH O F h A B = .bool b ∧ (b = true ↔ ∃ p, A.mem p = true ∧ B.mem p = true) := by
  obtain ⟨_, hne2, hne3⟩ := hO
  cases h with
  | retFalse =>
    refine ⟨false, rfl, ?_⟩
    simp only [isectHandlerOK, ctl_ka, Bool.or_eq_true, beq_iff_eq] at hok
    simp only [Bool.false_eq_true, false_iff, not_exists, not_and]
    intro p hpa
    rcases hok with ha | hd
    · rw [kind_empty_mem A ha p] at hpa; exact absurd hpa (by simp)
    · have := disjoint_sound A B hd p
      rw [hpa] at this; simpa using this
  | otherNotEmpty =>
    refine ⟨_, rfl, ?_⟩
    simp only [isectHandlerOK, ctl_ka, beq_iff_eq] at hok
    by_cases hb : B.kind = .empty
    · simp only [hb, bne_self_eq_false, Bool.false_eq_true, false_iff, not_exists, not_and]
      intro p _; rw [kind_empty_mem B hb p]; simp
    · have : (B.kind != Kind.empty) = true := by simpa using hb
      simp only [this, true_iff]
      obtain ⟨p, hp⟩ := hiB hb
      exact ⟨p, kind_all_mem A hok p, hp⟩
  | polyIntersects =>
    refine ⟨_, rfl, ?_⟩
    simp only [isectHandlerOK, ctl_ka, ctl_kb, Bool.or_eq_true, Bool.and_eq_true, beq_iff_eq] at hok
    obtain ⟨ha, hcase⟩ := hok
    have hA := kind_planar_cases A ha
    rw [hne2]
    rcases hcase with (⟨hb, hz⟩ | hb) | ⟨hb, he⟩
    · have hB := kind_planar_cases B hb
      rw [ctl_zne ha hb] at hz
      have hzz : A.zz = B.zz := by simpa using hz
      constructor
      · rintro ⟨q, hq⟩
        refine ⟨q.at A.zz, ?_, ?_⟩
        · rw [hA.2.2]; simp only [Bool.and_eq_true] at hq; simp [V2.at, Pt.xy, hq.1]
        · rw [hB.2.2, ← hzz]; simp only [Bool.and_eq_true] at hq; simp [V2.at, Pt.xy, hq.2]
      · rintro ⟨p, h1, h2⟩
        rw [hA.2.2] at h1; rw [hB.2.2] at h2
        exact ⟨p.xy, by grind⟩
    · have hB := kind_foot_cases B hb
      constructor
      · rintro ⟨q, hq⟩
        refine ⟨q.at A.zz, ?_, ?_⟩
        · rw [hA.2.2]; simp only [Bool.and_eq_true] at hq; simp [V2.at, Pt.xy, hq.1]
        · rw [hB.2]; simp only [Bool.and_eq_true] at hq; simp [V2.at, Pt.xy, hq.2]
      · rintro ⟨p, h1, h2⟩
        rw [hA.2.2] at h1; rw [hB.2] at h2
        exact ⟨p.xy, by grind⟩
    · have hB := kind_line_cases B hb
      rw [ctl_ea ha] at he
      have hz0 : A.zz = 0 := by simpa using he
      constructor
      · rintro ⟨q, hq⟩
        refine ⟨q.at 0, ?_, ?_⟩
        · rw [hA.2.2, hz0]; simp only [Bool.and_eq_true] at hq; simp [V2.at, Pt.xy, hq.1]
        · rw [hB.2.2]; simp only [Bool.and_eq_true] at hq; simp [V2.at, Pt.xy, hq.2]
      · rintro ⟨p, h1, h2⟩
        rw [hA.2.2] at h1; rw [hB.2.2] at h2
        exact ⟨p.xy, by grind⟩
  | lineIntersects =>
    refine ⟨_, rfl, ?_⟩
    simp only [isectHandlerOK, ctl_ka, ctl_kb, Bool.or_eq_true, Bool.and_eq_true, beq_iff_eq] at hok
    obtain ⟨ha, hcase⟩ := hok
    have hA := kind_line_cases A ha
    rw [hne2]
    rcases hcase with (hb | hb) | ⟨hb, he⟩
    · have hB := kind_foot_cases B hb
      constructor
      · rintro ⟨q, hq⟩
        refine ⟨q.at 0, ?_, ?_⟩
        · rw [hA.2.2]; simp only [Bool.and_eq_true] at hq; simp [V2.at, Pt.xy, hq.1]
        · rw [hB.2]; simp only [Bool.and_eq_true] at hq; simp [V2.at, Pt.xy, hq.2]
      · rintro ⟨p, h1, h2⟩
        rw [hA.2.2] at h1; rw [hB.2] at h2
        exact ⟨p.xy, by grind⟩
    · have hB := kind_line_cases B hb
      constructor
      · rintro ⟨q, hq⟩
        refine ⟨q.at 0, ?_, ?_⟩
        · rw [hA.2.2]; simp only [Bool.and_eq_true] at hq; simp [V2.at, Pt.xy, hq.1]
        · rw [hB.2.2]; simp only [Bool.and_eq_true] at hq; simp [V2.at, Pt.xy, hq.2]
      · rintro ⟨p, h1, h2⟩
        rw [hA.2.2] at h1; rw [hB.2.2] at h2
        exact ⟨p.xy, by grind⟩
    · have hB := kind_planar_cases B hb
      rw [ctl_eb hb] at he
      have hz0 : B.zz = 0 := by simpa using he
      constructor
      · rintro ⟨q, hq⟩
        refine ⟨q.at 0, ?_, ?_⟩
        · rw [hA.2.2]; simp only [Bool.and_eq_true] at hq; simp [V2.at, Pt.xy, hq.1]
        · rw [hB.2.2, hz0]; simp only [Bool.and_eq_true] at hq; simp [V2.at, Pt.xy, hq.2]
      · rintro ⟨p, h1, h2⟩
        rw [hA.2.2] at h1; rw [hB.2.2] at h2
        exact ⟨p.xy, by grind⟩
  | discIntersects =>
    simp only [isectHandlerOK, ctl_ka, ctl_kb, Bool.and_eq_true, beq_iff_eq] at hok
    obtain ⟨⟨ha, hb⟩, hz⟩ := hok
    -- both operands are discs (possibly under `lzy`)
    have key : ∀ (R : Reg), R.kind = .disc → ∀ p, R.mem p = (Reg.disc R.zz ⟨R.center.x, R.center.y⟩ R.radius).mem p ∧
        R.center = (⟨R.center.x, R.center.y⟩ : V2).at R.zz := by
      intro R
      induction R with
      | disc z c r => intro _ p; exact ⟨rfl, rfl⟩
      | lzy r ih => intro hk p; exact ih (by simpa [Reg.kind] using hk) p
      | _ => intro hk; simp [Reg.kind] at hk
    have hpa : planarK A.kind = true := by rw [ha]; rfl
    have hpb : planarK B.kind = true := by rw [hb]; rfl
    rw [ctl_zne hpa hpb] at hz
    have hzz : A.zz = B.zz := by simpa using hz
    refine ⟨_, rfl, ?_⟩
    have hcA := (key A ha ⟨0, 0, 0⟩).2
    have hcB := (key B hb ⟨0, 0, 0⟩).2
    rw [hcA, hcB, ← hzz, disc_intersects_iff A.zz _ _ _ _ hrA hrB]
    constructor
    · rintro ⟨p, h1, h2⟩
      exact ⟨p, by rw [(key A ha p).1]; exact h1, by rw [(key B hb p).1, ← hzz]; exact h2⟩
    · rintro ⟨p, h1, h2⟩
      exact ⟨p, by rw [← (key A ha p).1]; exact h1, by rw [hzz, ← (key B hb p).1]; exact h2⟩
  | ptsAny =>
    refine ⟨_, rfl, ?_⟩
    simp only [isectHandlerOK, ctl_ka, ctl_kb, Bool.and_eq_true, beq_iff_eq] at hok
    obtain ⟨ha, hb⟩ := hok
    have hA := fun q => (kind_pts_cases F A ha q).1
    have hB := containsPoint_eq_mem F B hb
    simp only [List.any_eq_true, hB]
    constructor
    · rintro ⟨p, hp, hm⟩
      exact ⟨p, by rw [hA p]; simpa using hp, hm⟩
    · rintro ⟨p, h1, h2⟩
      rw [hA p] at h1
      exact ⟨p, by simpa using h1, h2⟩
  | ptsAnyTrue =>
    refine ⟨_, rfl, ?_⟩
    simp only [isectHandlerOK, ctl_ka, ctl_kb, Bool.and_eq_true, Bool.or_eq_true, beq_iff_eq, bne_iff_ne, ne_eq] at hok
    obtain ⟨⟨⟨⟨ha, hb⟩, f1⟩, f2⟩, f3⟩ := hok
    have hA := fun q => (kind_pts_cases F A ha q).1
    have hB : ∀ p, trueContains F B p = B.mem p := by
      rcases hb with hb | hs
      · exact trueContains_eq_mem F ⟨f1, f2, f3⟩ B hb
      · exact trueContains_eq_mem_all F ⟨f1, f2, f3⟩ hs B
    simp only [List.any_eq_true, hB]
    constructor
    · rintro ⟨p, hp, hm⟩
      exact ⟨p, by rw [hA p]; simpa using hp, hm⟩
    · rintro ⟨p, h1, h2⟩
      rw [hA p] at h1
      exact ⟨p, by simpa using h1, h2⟩
  | volVolIntersects => exact ⟨_, rfl, by rw [hne3]; simp⟩
  | volSurfIntersects => exact ⟨_, rfl, by rw [hne3]; simp⟩
  | surfSurfIntersects => exact ⟨_, rfl, by rw [hne3]; simp⟩
  | volFootIntersects =>
    simp only [isectHandlerOK, ctl_ka, ctl_kb, Bool.and_eq_true, beq_iff_eq] at hok
    have hB := kind_foot_cases B hok.2
    exact ⟨_, rfl, by rw [hne3]; simp [hB.2]⟩
  | surfFootIntersects =>
    simp only [isectHandlerOK, ctl_ka, ctl_kb, Bool.and_eq_true, beq_iff_eq] at hok
    have hB := kind_foot_cases B hok.2
    exact ⟨_, rfl, by rw [hne3]; simp [hB.2]⟩
  | _ => simp [isectHandlerOK] at hok

/-- **`A.intersects(B)` holds exactly when the regions share a point**, for every route accepted by the
    decidable judgement `isectRouteOK`, under the contracts of the geometric oracles -/
theorem intersects_sound (r : Route) : ∀ (A B : Reg), 0 ≤ A.radius → 0 ≤ B.radius →
    (A.kind ≠ .empty → ∃ p, A.mem p = true) → (B.kind ≠ .empty → ∃ p, B.mem p = true) →
    isectRouteOK F (ctlOf A B) r = true →
    ∃ b, exec O F .intersects r A B = .bool b ∧ (b = true ↔ ∃ p, A.mem p = true ∧ B.mem p = true) := by
  induction r with
  | run h => exact fun A B hA hB _ hiB hok => isectHandler_sound O hO F h A B hA hB hiB hok
  | swap r ih =>
    intro A B hA hB hiA hiB hok
    simp only [isectRouteOK] at hok
    rw [ctl_swap] at hok
    obtain ⟨b, h1, h2⟩ := ih B A hB hA hiB hiA hok
    exact ⟨b, h1, by rw [h2]; constructor <;> rintro ⟨p, x, y⟩ <;> exact ⟨p, y, x⟩⟩
  | _ => intro A B _ _ _ _ hok; simp [isectRouteOK] at hok

end isect

/-! ### `intersects` through the generic `self.intersect(other)` test -/

/-- the result is not an operand returned as is (`Res.same` only for `nowhere`) -/
def Res.plain : Res → Bool
  | .same r => r.kind == .empty
  | .comp .. => false
  | _ => true

/-- for such results "is not the EmptyRegion" means "has a point" (contracts of the oracles) -/
theorem nonempty_iff (O : Oracle) (hO : OracleOK O) (res : Res) (hp : res.plain = true) :
    res.nonempty O = true ↔ ∃ p, res.mem p = true := by
  obtain ⟨_, hne2, hne3⟩ := hO
  cases res with
  | same r =>
    have hk : r.kind = .empty := by simpa [Res.plain] using hp
    simp only [Res.nonempty, hk, bne_self_eq_false, Bool.false_eq_true, false_iff, not_exists]
    intro p; simp [Res.mem, kind_empty_mem r hk p]
  | planar z s =>
    simp only [Res.nonempty, hne2, Res.mem, Bool.and_eq_true, decide_eq_true_eq]
    exact ⟨fun ⟨q, hq⟩ => ⟨q.at z, rfl, hq⟩, fun ⟨p, _, hq⟩ => ⟨p.xy, hq⟩⟩
  | foot s =>
    simp only [Res.nonempty, hne2, Res.mem]
    exact ⟨fun ⟨q, hq⟩ => ⟨q.at 0, hq⟩, fun ⟨p, hq⟩ => ⟨p.xy, hq⟩⟩
  | line s =>
    simp only [Res.nonempty, hne2, Res.mem, Bool.and_eq_true, decide_eq_true_eq]
    exact ⟨fun ⟨q, hq⟩ => ⟨q.at 0, rfl, hq⟩, fun ⟨p, _, hq⟩ => ⟨p.xy, hq⟩⟩
  | path s => simp only [Res.nonempty, hne3, Res.mem]
  | vol s => simp only [Res.nonempty, hne3, Res.mem]
  | pts ps =>
    simp only [Res.nonempty, Res.mem, List.contains_eq_mem, decide_eq_true_eq, Bool.not_eq_true', List.isEmpty_eq_false_iff]
    constructor
    · intro h; obtain ⟨p, hp'⟩ := List.exists_mem_of_ne_nil ps h; exact ⟨p, hp'⟩
    · rintro ⟨p, hp'⟩ h; subst h; simp at hp'
  | comp op a b sm => simp [Res.plain] at hp

def plainHandler : Handler → Bool
  | .retSelf => false
  | .retOther => false
  | .ptsSampler => false
  | _ => true

/-- the route ends in a handler that builds a new region (or `nowhere`) -/
def endsPlain : Route → Bool
  | .run h => plainHandler h
  | .swap r => endsPlain r
  | .lift _ r => endsPlain r
  | _ => false

theorem runH_plain (O : Oracle) (F : Flags) (h : Handler) (A B : Reg) (hp : plainHandler h = true) (res : Res)
    (he : runH O F h A B = .res res) : res.plain = true := by
  cases h <;> simp only [plainHandler, Bool.false_eq_true] at hp <;> simp only [runH] at he
  all_goals first
    | (simp only [Out.res.injEq] at he; subst he; rfl)
    | (split at he <;> simp only [Out.res.injEq] at he <;> subst he <;> rfl)
    | (simp at he)

theorem exec_plain (O : Oracle) (F : Flags) (r : Route) : ∀ (A B : Reg), endsPlain r = true → ∀ res,
    exec O F .intersect r A B = .res res → res.plain = true := by
  induction r with
  | run h => exact fun A B hp res he => runH_plain O F h A B hp res he
  | swap r ih => exact fun A B hp res he => ih B A hp res he
  | lift z r ih => exact fun A B hp res he => ih _ B hp res he
  | _ => intro A B hp; simp [endsPlain] at hp

/-- `intersects` routes: an exact handler, or the generic test on an accepted `intersect` route that builds a
    new region, or a generic test that ends in a composite (the library then refuses) -/
def isectRouteOK' (F : Flags) : Ctl → Route → Bool
  | c, .run h => isectHandlerOK F c h
  | c, .swap r => isectRouteOK' F c.swap r
  | c, .viaIntersect r => routeOK F .intersect c r && (endsPlain r || endsCompose r)
  | _, _ => false
where endsCompose : Route → Bool
  | .compose => true
  | .run .ptsSampler => true
  | .swap r => endsCompose r
  | .lift _ r => endsCompose r
  | _ => false

theorem exec_compose (O : Oracle) (F : Flags) (r : Route) : ∀ (A B : Reg), isectRouteOK'.endsCompose r = true →
    ∃ op a b s, exec O F .intersect r A B = .res (.comp op a b s) := by
  induction r with
  | run h =>
    intro A B hp
    cases h <;> simp [isectRouteOK'.endsCompose] at hp
    exact ⟨_, _, _, _, rfl⟩
  | swap r ih => exact fun A B hp => ih B A hp
  | lift z r ih => exact fun A B hp => ih _ B hp
  | compose => exact fun A B _ => ⟨_, _, _, _, rfl⟩
  | _ => intro A B hp; simp [isectRouteOK'.endsCompose] at hp

/-- **`A.intersects(B)` is either refused (NotImplementedError) or holds exactly when the regions share a
    point**, for every route accepted by `isectRouteOK'` — exact handlers and the generic
    `self.intersect(other)` test alike -/
theorem intersects_sound' (O : Oracle) (hO : OracleOK O) (F : Flags) (r : Route) : ∀ (A B : Reg),
    0 ≤ A.radius → 0 ≤ B.radius →
    (A.kind ≠ .empty → ∃ p, A.mem p = true) → (B.kind ≠ .empty → ∃ p, B.mem p = true) →
    (A.kind = .foot → bareFoot A) → (B.kind = .foot → bareFoot B) →
    isectRouteOK' F (ctlOf A B) r = true →
    exec O F .intersects r A B = .notImpl ∨
    ∃ b, exec O F .intersects r A B = .bool b ∧ (b = true ↔ ∃ p, A.mem p = true ∧ B.mem p = true) := by
  induction r with
  | run h => exact fun A B hA hB _ hiB _ _ hok => Or.inr (isectHandler_sound O hO F h A B hA hB hiB hok)
  | swap r ih =>
    intro A B hA hB hiA hiB hfa hfb hok
    simp only [isectRouteOK'] at hok
    rw [ctl_swap] at hok
    rcases ih B A hB hA hiB hiA hfb hfa hok with h | ⟨b, h1, h2⟩
    · exact Or.inl h
    · exact Or.inr ⟨b, h1, by rw [h2]; constructor <;> rintro ⟨p, x, y⟩ <;> exact ⟨p, y, x⟩⟩
  | viaIntersect r _ =>
    intro A B _ _ _ _ hfa hfb hok
    simp only [isectRouteOK', Bool.and_eq_true, Bool.or_eq_true] at hok
    obtain ⟨hr, hend⟩ := hok
    obtain ⟨res, he, hm⟩ := exec_sound O F .intersect r A B hfa hfb hr
    rcases hend with hp | hc
    · have hpl := exec_plain O F r A B hp res he
      right
      refine ⟨res.nonempty O, ?_, ?_⟩
      · simp only [exec, he]
        cases res <;> first | rfl | (simp [Res.plain] at hpl)
      · rw [nonempty_iff O hO res hpl]
        simp only [hm, Op.sem, Bool.and_eq_true]
    · obtain ⟨op, a, b, s, hcomp⟩ := exec_compose O F r A B hc
      left
      simp only [exec, hcomp]
  | _ => intro A B _ _ _ _ _ _ hok; simp [isectRouteOK'] at hok

end Scenic.Region
