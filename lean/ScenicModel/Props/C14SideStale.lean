import ScenicModel.Props.C14SideOrder
import ScenicModel.Props.C14SideAgents
/-! C14 side condition (finding `scene-changed:stale-override` while it fails):
    `DynamicScenario._stop` forgets the overrides it has reverted. -/
namespace Scenic.C14
open Scenic.Overrides Scenic.Gen

theorem gen_stop_clears_overrides : simCfg.stopClears = true := by decide

/-- any history of simulations of the current source leaves every scene untouched -/
theorem hist_scene_untouched_current (sims : List (Bool × List Ev)) (w : World) (hg : goodHist sims = true) :
    (runHist simCfg w [] sims).1.orig = w.orig ∧ (runHist simCfg w [] sims).2 = [] :=
  hist_scene_untouched simCfg gen_reverts_before_disable gen_stop_clears_overrides gen_agents_initialised
    gen_cleanup_steps_present.2.1 sims w hg

theorem hist_reads_unchanged_current (sims : List (Bool × List Ev)) (w : World) (hw : NoneProxied w)
    (hg : goodHist sims = true) (o : ObjId) (p : PropId) :
    (runHist simCfg w [] sims).1.read o p = w.read o p :=
  (hist_reads_unchanged simCfg gen_reverts_before_disable gen_stop_clears_overrides gen_agents_initialised
    gen_cleanup_steps_present.2.1 gen_cleanup_steps_present.1 sims w hw hg).2 o p

end Scenic.C14
