import ScenicModel.Lemmas.SimTop
/-! # C12 — `DynamicScenario._stop` on the scenario tree, and what runs after a scenario stopped

Round 4.  The part of the parked global invariant that concerns `_stop`:

* `Settled st` — every scenario instance that is not running has no monitors left and none of
  the scenarios listed in its `_subScenarios` is running (the "nothing is left alive below a
  stopped scenario" half of the scenario-tree invariant);
* `stopScen_stops` — for **every** state, instance and fuel: `_stop` leaves the scenario not
  running, without monitors, without compose coroutine, and with no running scenario in its
  `_subScenarios`; it never starts anything, never changes a `_subScenarios` list, never gives a
  scenario monitors (`stopScen_only_stops`), and appends only `stop` events to the log;
* `stopScen_settled` — `_stop` preserves `Settled`;
* `stopped_monitors_silent` — in a settled state `_runMonitors` of a scenario that is not
  running (and the loop over its sub-scenarios, at every depth) executes nothing: the log, the
  clock and every instance are unchanged and no termination is reported;
* `monitors_phase_after_stop_silent` — the S4 statement for the monitors phase of `_run`: when
  the top-level scenario has stopped, phase `monitors` appends nothing to the event log.

`Settled` holds initially (`initSt_settled`) and is preserved by `_stop`; its preservation by
`_step`/`_invokeInner` (starting sub-scenarios, filtering `_subScenarios`) is not proved yet, hence
the hypothesis `Settled st` in the last two theorems (see notes/design/C12.md, next steps). -/
namespace Scenic.SimLoop

/-- every instance that is not running has no monitors and lists no running sub-scenario -/
def Settled (st : St) : Prop :=
  ∀ k, (st.inst k).running = false →
    (st.inst k).mons = [] ∧ ∀ j ∈ (st.inst k).subs, (st.inst j).running = false

/-- a change made only by stopping: failures are kept, nothing starts running, the
    `_subScenarios` lists are unchanged, an empty monitor list stays empty -/
def Stp (st st' : St) : Prop :=
  (st.abort.isSome = true → st'.abort.isSome = true) ∧
  ∀ k, ((st'.inst k).running = true → (st.inst k).running = true) ∧
    (st'.inst k).subs = (st.inst k).subs ∧
    ((st.inst k).mons = [] → (st'.inst k).mons = [])

theorem Stp.refl (st : St) : Stp st st := ⟨id, fun _ => ⟨id, rfl, id⟩⟩
theorem Stp.trans {a b c : St} (h1 : Stp a b) (h2 : Stp b c) : Stp a c :=
  ⟨fun h => h2.1 (h1.1 h), fun k =>
    ⟨fun h => (h1.2 k).1 ((h2.2 k).1 h), (h2.2 k).2.1.trans (h1.2 k).2.1,
     fun h => (h2.2 k).2.2 ((h1.2 k).2.2 h)⟩⟩

theorem Stp.emit (st : St) (e : Ev) : Stp st (st.emit e) := ⟨id, fun _ => ⟨id, rfl, id⟩⟩
theorem Stp.fail (st : St) (a : Abort) : Stp st (st.fail a) := ⟨fun _ => rfl, fun _ => ⟨id, rfl, id⟩⟩

theorem Stp.modInst (st : St) (i : Nat) (f : Inst → Inst)
    (hf : ∀ x, ((f x).running = true → x.running = true) ∧ (f x).subs = x.subs ∧
      (x.mons = [] → (f x).mons = [])) : Stp st (st.modInst i f) := by
  refine ⟨id, fun k => ?_⟩
  rw [inst_modInst]; split
  · exact hf _
  · exact ⟨id, rfl, id⟩

theorem Stp.noRun {st st' : St} (h : Stp st st') {k : Nat} (hk : (st.inst k).running = false) :
    (st'.inst k).running = false := by
  cases hr : (st'.inst k).running with
  | false => rfl
  | true => have := (h.2 k).1 hr; rw [hk] at this; cases this

theorem Stp.noAbort {st st' : St} (h : Stp st st') (hk : st'.abort = none) : st.abort = none := by
  cases ha : st.abort with
  | none => rfl
  | some a => have := h.1 (by simp [ha]); rw [hk] at this; cases this

theorem inst_ge (st : St) (k : Nat) (h : st.insts.length ≤ k) : st.inst k = default := by
  simp [St.inst, List.getD_eq_getElem?_getD, List.getElem?_eq_none h]

/-- a property of the modified instance that also holds of the default instance -/
theorem modInst_prop (st : St) (i : Nat) (f : Inst → Inst) (Q : Inst → Prop)
    (hQ : ∀ x, Q (f x)) (hd : Q default) : Q ((st.modInst i f).inst i) := by
  rw [inst_modInst]; split
  · exact hQ _
  · rename_i h
    have : st.insts.length ≤ i := by
      by_cases hl : i < st.insts.length
      · exact absurd ⟨rfl, hl⟩ h
      · omega
    rw [inst_ge st i this]; exact hd

theorem stop_stp (n : Nat) : (∀ i st, Stp st (stopScen n i st)) ∧ (∀ l st, Stp st (stopList n l st)) := by
  induction n with
  | zero => exact ⟨fun i st => by unfold stopScen; exact Stp.fail _ _, fun l st => by unfold stopList; exact Stp.fail _ _⟩
  | succ n ih =>
    refine ⟨fun i st => ?_, fun l st => ?_⟩
    · simp only [stopScen]
      refine Stp.trans (Stp.trans (Stp.trans (Stp.emit st (.stop i)) (Stp.modInst _ i _ ?_)) (ih.2 _ _))
        (Stp.modInst _ i _ ?_)
      · intro x; exact ⟨id, rfl, fun _ => rfl⟩
      · intro x; exact ⟨fun h => (by cases h), rfl, id⟩
    · cases l with
      | nil => simp only [stopList]; exact Stp.refl _
      | cons j rest =>
        simp only [stopList]
        refine Stp.trans ?_ (ih.2 _ _)
        split
        · exact ih.1 _ _
        · exact Stp.refl _

/-- what `_stop` establishes, for every state, instance and fuel -/
theorem stop_stops (n : Nat) :
    (∀ i st, (stopScen n i st).abort = none →
      ((stopScen n i st).inst i).running = false ∧ ((stopScen n i st).inst i).mons = [] ∧
      ((stopScen n i st).inst i).co = none ∧
      ∀ j ∈ (st.inst i).subs, ((stopScen n i st).inst j).running = false) ∧
    (∀ l st, (stopList n l st).abort = none → ∀ j ∈ l, ((stopList n l st).inst j).running = false) := by
  induction n with
  | zero =>
    exact ⟨fun i st h => (by unfold stopScen at h; simp [St.fail] at h), fun l st h => (by unfold stopList at h; simp [St.fail] at h)⟩
  | succ n ih =>
    refine ⟨fun i st h => ?_, fun l st h => ?_⟩
    · simp only [stopScen] at h ⊢
      generalize hst2 : ((st.emit (.stop i)).modInst i fun x => { x with mons := [] }) = st2 at h ⊢
      have hm2 : (st2.inst i).mons = [] := by
        rw [← hst2]; exact modInst_prop _ i _ (fun x => x.mons = []) (fun _ => rfl) rfl
      have hs2 : (st2.inst i).subs = (st.inst i).subs := by
        have := ((Stp.trans (Stp.emit st (.stop i))
          (Stp.modInst (st.emit (.stop i)) i (fun x => { x with mons := [] })
            (fun x => ⟨id, rfl, fun _ => rfl⟩))).2 i).2.1
        rw [hst2] at this; exact this
      have h3 : (stopList n (st2.inst i).subs st2).abort = none := h
      have hall := ih.2 _ _ h3
      have hstp := (stop_stp n).2 (st2.inst i).subs st2
      generalize stopList n (st2.inst i).subs st2 = st3 at h hall hstp ⊢
      have hm3 : (st3.inst i).mons = [] := (hstp.2 i).2.2 hm2
      have hfin : Stp st3 (st3.modInst i fun x => { x with co := none, running := false }) :=
        Stp.modInst _ i _ (fun x => ⟨fun h => (by cases h), rfl, id⟩)
      refine ⟨?_, ?_, ?_, fun j hj => ?_⟩
      · exact modInst_prop _ i _ (fun x => x.running = false) (fun _ => rfl) rfl
      · exact (hfin.2 i).2.2 hm3
      · exact modInst_prop _ i _ (fun x => x.co = none) (fun _ => rfl) rfl
      · exact hfin.noRun (hall j (by rw [hs2]; exact hj))
    · cases l with
      | nil => intro j hj; cases hj
      | cons j rest =>
        simp only [stopList] at h ⊢
        generalize hst1 : (if (st.inst j).running = true then stopScen n j st else st) = st1 at h ⊢
        have hstp := (stop_stp n).2 rest st1
        have h1 : ((st1.inst j).running = false) := by
          rw [← hst1]; split
          · rename_i hr
            refine (ih.1 j st ?_).1
            have := hstp.noAbort h
            rw [← hst1, if_pos hr] at this; exact this
          · rename_i hr; simpa using hr
        intro j' hj'
        rcases List.mem_cons.mp hj' with rfl | hin
        · exact hstp.noRun h1
        · exact ih.2 rest st1 h j' hin

theorem Settled.of_rel {st st' : St} (hS : Settled st)
    (h : ∀ k, (st'.inst k).running = (st.inst k).running ∧ (st'.inst k).subs = (st.inst k).subs ∧
      ((st.inst k).mons = [] → (st'.inst k).mons = [])) : Settled st' := by
  intro k hk
  rw [(h k).1] at hk
  obtain ⟨hm, hs⟩ := hS k hk
  refine ⟨(h k).2.2 hm, fun j hj => ?_⟩
  rw [(h j).1]; exact hs j (by rw [← (h k).2.1]; exact hj)

/-- `_stop` preserves the invariant -/
theorem stop_settled (n : Nat) :
    (∀ i st, Settled st → (stopScen n i st).abort = none → Settled (stopScen n i st)) ∧
    (∀ l st, Settled st → (stopList n l st).abort = none → Settled (stopList n l st)) := by
  induction n with
  | zero =>
    exact ⟨fun i st _ h => (by unfold stopScen at h; simp [St.fail] at h), fun l st _ h => (by unfold stopList at h; simp [St.fail] at h)⟩
  | succ n ih =>
    refine ⟨fun i st hS h => ?_, fun l st hS h => ?_⟩
    · have hstops := (stop_stops (n + 1)).1 i st h
      simp only [stopScen] at h hstops ⊢
      generalize hst2 : ((st.emit (.stop i)).modInst i fun x => { x with mons := [] }) = st2 at h hstops ⊢
      have hS2 : Settled st2 := by
        refine hS.of_rel fun k => ?_
        rw [← hst2, inst_modInst]; split
        · exact ⟨rfl, rfl, fun _ => rfl⟩
        · exact ⟨rfl, rfl, id⟩
      have hs2 : (st2.inst i).subs = (st.inst i).subs := by
        rw [← hst2, inst_modInst]; split <;> rfl
      have hS3 := ih.2 (st2.inst i).subs st2 hS2 h
      have hstp := (stop_stp n).2 (st2.inst i).subs st2
      generalize stopList n (st2.inst i).subs st2 = st3 at h hstops hS3 hstp ⊢
      have hfin : Stp st3 (st3.modInst i fun x => { x with co := none, running := false }) :=
        Stp.modInst _ i _ (fun x => ⟨fun h => (by cases h), rfl, id⟩)
      intro k hk
      by_cases hik : i = k
      · subst hik
        refine ⟨hstops.2.1, fun j hj => hstops.2.2.2 j ?_⟩
        rw [(hfin.2 i).2.1, (hstp.2 i).2.1, hs2] at hj
        exact hj
      · rw [inst_modInst, if_neg (fun hh => hik hh.1)] at hk ⊢
        obtain ⟨hm, hs⟩ := hS3 k hk
        exact ⟨hm, fun j hj => hfin.noRun (hs j hj)⟩
    · cases l with
      | nil => simp only [stopList]; exact hS
      | cons j rest =>
        simp only [stopList] at h ⊢
        generalize hst1 : (if (st.inst j).running = true then stopScen n j st else st) = st1 at h ⊢
        have hstp := (stop_stp n).2 rest st1
        refine ih.2 rest st1 ?_ h
        rw [← hst1]; split
        · rename_i hr
          refine ih.1 j st hS ?_
          have := hstp.noAbort h
          rw [← hst1, if_pos hr] at this; exact this
        · exact hS

/-- same instances, same log, same clock (only the `abort` field may differ) -/
def SameI (st st' : St) : Prop := (∀ k, st'.inst k = st.inst k) ∧ st'.log = st.log ∧ st'.time = st.time

theorem SameI.refl (st : St) : SameI st st := ⟨fun _ => rfl, rfl, rfl⟩
theorem SameI.trans {a b c : St} (h1 : SameI a b) (h2 : SameI b c) : SameI a c :=
  ⟨fun k => (h2.1 k).trans (h1.1 k), h2.2.1.trans h1.2.1, h2.2.2.trans h1.2.2⟩
theorem SameI.fail (st : St) (a : Abort) : SameI st (st.fail a) := ⟨fun _ => rfl, rfl, rfl⟩
theorem SameI.settled {st st' : St} (h : SameI st st') (hS : Settled st) : Settled st' := by
  intro k hk
  rw [h.1 k] at hk ⊢
  obtain ⟨a, b⟩ := hS k hk
  exact ⟨a, fun j hj => by rw [h.1 j]; exact b j hj⟩

theorem SameI.clearMons (st : St) (i : Nat) (h : (st.inst i).mons = []) :
    SameI st (st.modInst i fun x => { x with mons := [] }) := by
  refine ⟨fun k => ?_, rfl, rfl⟩
  rw [inst_modInst]; split
  · rename_i hk
    obtain ⟨rfl, _⟩ := hk
    generalize st.inst i = x at h
    cases x; simp_all
  · rfl

/-- in a settled state, `_runMonitors` of a scenario that is not running — and the loop over
    sub-scenarios none of which is running — executes nothing -/
theorem mon_dead (P : Prog) (cf : Nat) (n : Nat) :
    (∀ i st, Settled st → (st.inst i).running = false →
      SameI st (runMonitors P cf n i st).1 ∧ (runMonitors P cf n i st).2 = .none) ∧
    (∀ l r st, Settled st → (∀ j ∈ l, (st.inst j).running = false) →
      SameI st (monSubs P cf n l r st).1 ∧ (monSubs P cf n l r st).2 = r) := by
  induction n with
  | zero =>
    refine ⟨fun i st _ _ => ?_, fun l r st _ _ => ?_⟩
    · unfold runMonitors; exact ⟨SameI.fail _ _, rfl⟩
    · unfold monSubs; exact ⟨SameI.fail _ _, rfl⟩
  | succ n ih =>
    obtain ⟨ih1, ih2⟩ := ih
    refine ⟨fun i st hS hr => ?_, fun l r st hS hl => ?_⟩
    · obtain ⟨hm, hsubs⟩ := hS i hr
      simp only [runMonitors, hm, stepMons]
      have h1 := SameI.clearMons st i hm
      generalize (st.modInst i fun x => { x with mons := [] }) = st2 at h1 ⊢
      split
      · exact ⟨h1, rfl⟩
      · have hS2 := h1.settled hS
        have h2 := ih2 (st2.inst i).subs MRet.none st2 hS2 (by
          intro j hj; rw [h1.1 i] at hj; rw [h1.1 j]; exact hsubs j hj)
        simp only [Bool.false_eq_true, if_false]
        generalize monSubs P cf n (st2.inst i).subs MRet.none st2 = r at h2 ⊢
        obtain ⟨st3, sub⟩ := r
        obtain ⟨h2a, h2b⟩ := h2
        simp only at h2b
        subst h2b
        simp only
        split
        · exact ⟨h1.trans h2a, rfl⟩
        · exact ⟨h1.trans h2a, by simp⟩
    · cases l with
      | nil => simp only [monSubs]; exact ⟨SameI.refl _, trivial⟩
      | cons j rest =>
        simp only [monSubs]
        have h0 := ih1 j st hS (hl j (by simp))
        generalize runMonitors P cf n j st = r0 at h0 ⊢
        obtain ⟨st1, rj⟩ := r0
        obtain ⟨h0a, h0b⟩ := h0
        simp only at h0a h0b
        subst h0b
        simp only
        split
        · exact ⟨h0a, rfl⟩
        · have := ih2 rest r st1 (h0a.settled hS) (by
            intro j' hj'; rw [h0a.1 j']; exact hl j' (by simp [hj']))
          simp only [reduceCtorEq, if_false]
          exact ⟨h0a.trans this.1, this.2⟩

/-- the state in which `_run` is entered is settled: its only instance is running -/
theorem initSt_settled (P : Prog) : Settled (initSt P) := by
  have hlen : (initSt P).insts = [newInst P 0] := by
    unfold initSt startOne
    simp only [St.emit]
    obtain ⟨_, h1⟩ := addAgents_ext (fun _ => true) (fun _ => rfl) P
      (({ time := 0, insts := [], agents := [], log := [], abort := none } : St).insts.length)
      (P.scens.getD 0 default).agents { time := 0, insts := [], agents := [], log := [], abort := none }
    rw [h1]; rfl
  intro k hk
  cases k with
  | zero => simp [St.inst, hlen, newInst] at hk
  | succ k =>
    have : (initSt P).inst (k + 1) = default := inst_ge _ _ (by simp [hlen])
    rw [this]; exact ⟨rfl, fun j hj => by cases hj⟩

end Scenic.SimLoop

namespace Scenic.C12
open Scenic.SimLoop

/-- **`_stop` stops the whole scenario.**  For every state, instance and fuel: after
    `DynamicScenario._stop` the scenario is not running, has no monitors and no compose coroutine
    left, and none of the scenarios in its `_subScenarios` is running. -/
theorem stopScen_stops (n i : Nat) (st : St) (h : (stopScen n i st).abort = none) :
    ((stopScen n i st).inst i).running = false ∧ ((stopScen n i st).inst i).mons = [] ∧
    ((stopScen n i st).inst i).co = none ∧
    ∀ j ∈ (st.inst i).subs, ((stopScen n i st).inst j).running = false :=
  (stop_stops n).1 i st h

/-- **`_stop` only stops.**  It appends nothing but `stop` events, leaves the clock alone, never
    makes a scenario running, never changes a `_subScenarios` list and never gives monitors to a
    scenario that has none. -/
theorem stopScen_only_stops (n i : Nat) (st : St) :
    (∃ l, (stopScen n i st).log = st.log ++ l ∧ ∀ e ∈ l, e.isStop = true) ∧
    (stopScen n i st).time = st.time ∧
    ∀ k, (((stopScen n i st).inst k).running = true → (st.inst k).running = true) ∧
      ((stopScen n i st).inst k).subs = (st.inst k).subs ∧
      ((st.inst k).mons = [] → ((stopScen n i st).inst k).mons = []) :=
  ⟨((stop_ext n).1 i st).2, ((stop_ext n).1 i st).1, ((stop_stp n).1 i st).2⟩

/-- **`_stop` keeps the scenario tree settled** (no monitors and no running sub-scenario below a
    scenario that is not running). -/
theorem stopScen_settled (n i : Nat) (st : St) (hS : Settled st) (h : (stopScen n i st).abort = none) :
    Settled (stopScen n i st) :=
  (stop_settled n).1 i st hS h

/-- **Nothing runs in the monitors of a stopped scenario.**  In a settled state `_runMonitors` of
    a scenario that is not running executes no monitor at any depth: log, clock and all instances
    are unchanged and no termination is reported. -/
theorem stopped_monitors_silent (P : Prog) (cf n i : Nat) (st : St) (hS : Settled st)
    (hr : (st.inst i).running = false) :
    (runMonitors P cf n i st).1.log = st.log ∧ (runMonitors P cf n i st).1.time = st.time ∧
    (∀ k, (runMonitors P cf n i st).1.inst k = st.inst k) ∧ (runMonitors P cf n i st).2 = .none := by
  obtain ⟨h, hr⟩ := (mon_dead P cf n).1 i st hS hr
  exact ⟨h.2.1, h.2.2, h.1, hr⟩

/-- **S4 for the monitors phase (partial: the hypothesis `Settled st` is proved for the initial
    state and preserved by `_stop`, not yet by `_step`).**  Once the top-level scenario has stopped,
    the `monitors` phase of that iteration of `_run` appends nothing to the event log, keeps the
    pending termination reason and does not return. -/
theorem monitors_phase_after_stop_silent_partial (P : Prog) (cf fuel : Nat) (sched : Nat → Nat → List Nat)
    (st : St) (lp : Loop) (hS : Settled st) (h0 : (st.inst 0).running = false) :
    (runPhase P cf fuel sched .monitors st lp).1.log = st.log ∧
    (runPhase P cf fuel sched .monitors st lp).2.1 = lp ∧
    (runPhase P cf fuel sched .monitors st lp).2.2 = none := by
  obtain ⟨h, hr⟩ := (mon_dead P cf fuel).1 0 st hS h0
  simp only [runPhase]
  generalize runMonitors P cf fuel 0 st = r at h hr ⊢
  obtain ⟨st1, r1⟩ := r
  simp only at hr
  subst hr
  exact ⟨h.2.1, by simp, trivial⟩

/-- the state in which `_run` starts is settled -/
theorem initSt_settled (P : Prog) : Settled (initSt P) := Scenic.SimLoop.initSt_settled P

-- non-vacuity: a parent (0) with a monitor and two listed sub-scenarios, one running (1, with a
-- monitor and a running sub-scenario 3 of its own) and one that ended earlier (2): `_stop` of 0
-- stops 0, 1, 3 in this order, does not abort, and leaves every instance dead; the state is settled
def stopDemo : St :=
  ⟨3, [⟨0, true, 3, some [.forever [.wait]], [⟨0, [.forever [.wait]]⟩], [1, 2]⟩,
       ⟨1, true, 2, none, [⟨0, [.forever [.wait]]⟩], [3]⟩,
       ⟨1, false, 1, none, [], []⟩,
       ⟨1, true, 1, none, [], []⟩], [], [], none⟩

example : (stopScen 9 0 stopDemo).abort = none ∧ (stopScen 9 0 stopDemo).log = [.stop 0, .stop 1, .stop 3] := by
  decide +kernel
example : Settled stopDemo := by
  intro k hk
  match k with
  | 0 | 1 | 3 => simp [stopDemo, St.inst] at hk
  | 2 => exact ⟨rfl, fun j hj => by cases hj⟩
  | k + 4 => rw [inst_ge stopDemo (k + 4) (by simp [stopDemo])]; exact ⟨rfl, fun j hj => by cases hj⟩
-- after the stop the hypotheses of `stopped_monitors_silent` / the phase theorem hold for instance 0
example : ((stopScen 9 0 stopDemo).inst 0).running = false ∧ ((stopScen 9 0 stopDemo).inst 1).mons = [] := by
  decide +kernel
-- and before the stop the monitors do run (the statement is not trivially true of every state)
example : (runMonitors ⟨⟨[], []⟩, [[.forever [.log 4, .wait]]], [default, default], 9⟩ 50 9 0
    { stopDemo with insts := stopDemo.insts.map fun x => { x with mons := x.mons.map fun _ => ⟨0, [.forever [.log 4, .wait]]⟩ } }).1.log ≠ [] := by
  decide +kernel

end Scenic.C12
