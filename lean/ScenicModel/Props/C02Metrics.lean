import ScenicModel.Model.Checker
import Mathlib.Tactic.Linarith
import Mathlib.Tactic.Ring
import Mathlib.Tactic.NormNum
import Mathlib.Algebra.Order.Field.Rat
import Mathlib.Algebra.Order.Field.Basic

/-! # C02 (part 3): the statistics of WeightedAcceptanceChecker stay consistent over every history

`bufferSums[req]` always equals the sums over `buffers[req]`, the buffer keeps its length, hence the estimated
rejection probability stays in `[0, 1]`, the cost is a non-negative number or `inf` (exactly when every buffered
sample was accepted) and `getRequirementCost` never divides by zero or by a negative number. -/
namespace Scenic.C02
open Scenic.Checker

/-- a metric the checker can record: accepted ∈ {0, 1}, a non-negative duration -/
def MetricOK (m : Int × Rat) : Prop := (m.1 = 0 ∨ m.1 = 1) ∧ 0 ≤ m.2

structure RSInv (B : Nat) (s : RS) : Prop where
  len : s.buf.length = B
  acc : s.sumAcc = (s.buf.map Prod.fst).sum
  time : s.sumTime = (s.buf.map Prod.snd).sum
  ok : ∀ m ∈ s.buf, MetricOK m

theorem sum_replicate_zero_rat : ∀ n : Nat, (List.replicate n (0 : Rat)).sum = 0
  | 0 => rfl
  | n + 1 => by simp [List.replicate_succ, sum_replicate_zero_rat n]

theorem init_inv (B : Nat) : RSInv B (RS.init B) := by
  refine ⟨by simp [RS.init], ?_, ?_, ?_⟩
  · simp [RS.init]
  · simp [RS.init, sum_replicate_zero_rat]
  · intro m hm
    simp only [RS.init, List.mem_replicate] at hm
    rw [hm.2]; exact ⟨Or.inl rfl, le_refl _⟩

/-- **metrics_invariant**: `updateMetrics` preserves the consistency of buffer and sums -/
theorem metrics_invariant (B : Nat) (hB : 0 < B) (s : RS) (h : RSInv B s) (m : Int × Rat) (hm : MetricOK m) :
    RSInv B (s.update m) := by
  obtain ⟨hlen, hacc, htime, hok⟩ := h
  cases hb : s.buf with
  | nil => rw [hb] at hlen; simp at hlen; omega
  | cons x xs =>
    rw [hb] at hlen hacc htime hok
    refine ⟨?_, ?_, ?_, ?_⟩
    · simp only [RS.update, hb, List.tail_cons, List.length_append, List.length_cons, List.length_nil]
      simp only [List.length_cons] at hlen; omega
    · simp only [RS.update, hb, List.headD_cons, List.tail_cons, List.map_append, List.map_cons, List.map_nil,
        List.sum_append, List.sum_cons, List.sum_nil]
      rw [hacc]; simp only [List.map_cons, List.sum_cons]; ring
    · simp only [RS.update, hb, List.headD_cons, List.tail_cons, List.map_append, List.map_cons, List.map_nil,
        List.sum_append, List.sum_cons, List.sum_nil]
      rw [htime]; simp only [List.map_cons, List.sum_cons]; ring
    · intro y hy
      simp only [RS.update, hb, List.tail_cons, List.mem_append, List.mem_singleton] at hy
      rcases hy with hy | hy
      · exact hok y (List.mem_cons_of_mem _ hy)
      · rw [hy]; exact hm

/-- **for every history**: after any sequence of recorded metrics, starting from the initial buffers -/
theorem metrics_invariant_history (B : Nat) (hB : 0 < B) :
    ∀ (ms : List (Int × Rat)) (s : RS), RSInv B s → (∀ m ∈ ms, MetricOK m) → RSInv B (ms.foldl RS.update s)
  | [], _, hs, _ => hs
  | m :: ms, s, hs, hall =>
    metrics_invariant_history B hB ms (s.update m)
      (metrics_invariant B hB s hs m (hall m List.mem_cons_self))
      (fun x hx => hall x (List.mem_cons_of_mem _ hx))

/-! ## the whole state, over every history of `checkRequirements` calls -/

theorem state_init_inv (B n : Nat) : ∀ s ∈ State.init B n, RSInv B s := by
  intro s hs
  simp only [State.init, List.mem_replicate] at hs
  rw [hs.2]; exact init_inv B

theorem state_update_inv (B : Nat) (hB : 0 < B) (st : State) (h : ∀ s ∈ st, RSInv B s) (id : Nat)
    (m : Int × Rat) (hm : MetricOK m) : ∀ s ∈ st.update id m, RSInv B s := by
  intro x hx
  unfold State.update at hx
  cases hs : st[id]? with
  | none => rw [hs] at hx; exact h x hx
  | some s =>
    rw [hs] at hx
    simp only at hx
    rcases List.mem_or_eq_of_mem_set hx with h1 | h1
    · exact h x h1
    · rw [h1]; exact metrics_invariant B hB s (h s (List.mem_of_getElem? hs)) m hm

theorem applyMetrics_inv (c : Cfg) (B : Nat) (hB : 0 < B) :
    ∀ (ev : List (Nat × Bool)) (st : State) (ts : List Rat), (∀ s ∈ st, RSInv B s) → (∀ t ∈ ts, 0 ≤ t) →
      ∀ s ∈ applyMetrics c st ev ts, RSInv B s
  | [], st, ts, h, _ => by simpa [applyMetrics] using h
  | (id, f) :: ev, st, ts, h, ht => by
    unfold applyMetrics
    apply applyMetrics_inv c B hB ev _ ts.tail
    · apply state_update_inv B hB st h
      refine ⟨?_, ?_⟩
      · by_cases hf : (f != c.wAccNotRejected) = true
        · right; simp [hf]
        · left; simp [hf]
      · cases ts with
        | nil => simp
        | cons t ts' => simpa using ht t List.mem_cons_self
    · intro t htt; exact ht t (List.mem_of_mem_tail htt)

/-- **for every history of checks**: every `checkRequirements` call of the weighted checker leaves the statistics of
    every requirement consistent (given non-negative measured times, which `perf_counter` guarantees) -/
theorem weightedCheck_inv (c : Cfg) (B : Nat) (hB : 0 < B) (st : State) (reqs : List Req) (fals : Nat → Option Bool)
    (times : List Rat) (h : ∀ s ∈ st, RSInv B s) (ht : ∀ t ∈ times, 0 ≤ t) :
    ∀ s ∈ (weightedCheck c B st reqs fals times).1, RSInv B s := by
  unfold weightedCheck
  generalize weightedDecide c (st.key B) reqs fals = res
  obtain ⟨ev, out⟩ := res
  exact applyMetrics_inv c B hB ev st times h ht

theorem sum_bounds : ∀ (l : List (Int × Rat)), (∀ m ∈ l, MetricOK m) →
    0 ≤ (l.map Prod.fst).sum ∧ (l.map Prod.fst).sum ≤ l.length ∧ 0 ≤ (l.map Prod.snd).sum
  | [], _ => by simp
  | x :: xs, h => by
    obtain ⟨h1, h2, h3⟩ := sum_bounds xs (fun m hm => h m (List.mem_cons_of_mem _ hm))
    obtain ⟨hx1, hx2⟩ := h x List.mem_cons_self
    simp only [List.map_cons, List.sum_cons, List.length_cons, Nat.cast_add, Nat.cast_one]
    refine ⟨?_, ?_, ?_⟩
    · rcases hx1 with h0 | h0 <;> rw [h0] <;> linarith
    · rcases hx1 with h0 | h0 <;> rw [h0] <;> linarith
    · linarith

/-- **cost_well_defined**: under the invariant, `0 ≤ sumAcc ≤ bufferSize`, the finite cost is non-negative and is
    used exactly when some buffered sample was rejected; otherwise the key is `(inf, runtime)` -/
theorem cost_well_defined (B : Nat) (hB : 0 < B) (s : RS) (h : RSInv B s) :
    0 ≤ s.sumAcc ∧ s.sumAcc ≤ B ∧ 0 ≤ s.sumTime ∧
    ((s.sumAcc < B ∧ ∃ c, s.cost B = (some c, 0) ∧ 0 ≤ c) ∨
     (s.sumAcc = B ∧ s.cost B = (none, s.sumTime / B))) := by
  obtain ⟨hlen, hacc, htime, hok⟩ := h
  obtain ⟨b1, b2, b3⟩ := sum_bounds s.buf hok
  rw [← hacc, hlen] at b2
  rw [← hacc] at b1
  rw [← htime] at b3
  refine ⟨b1, b2, b3, ?_⟩
  have hBq : (0 : Rat) < (B : Rat) := by exact_mod_cast hB
  by_cases hlt : s.sumAcc < B
  · left
    refine ⟨hlt, ?_⟩
    have hrej : 1 - (s.sumAcc : Rat) / B > 0 := by
      have : (s.sumAcc : Rat) < B := by exact_mod_cast hlt
      have : (s.sumAcc : Rat) / B < 1 := by rw [div_lt_one hBq]; exact this
      linarith
    refine ⟨s.sumTime / B / (1 - (s.sumAcc : Rat) / B), ?_, ?_⟩
    · simp only [RS.cost, hrej, if_true]
    · exact div_nonneg (div_nonneg b3 (le_of_lt hBq)) (le_of_lt hrej)
  · right
    have heq : s.sumAcc = B := by omega
    refine ⟨heq, ?_⟩
    have hrej : ¬ (1 - (s.sumAcc : Rat) / B > 0) := by
      rw [heq]
      simp only [Int.cast_natCast]
      rw [div_self (ne_of_gt hBq)]
      simp
    simp only [RS.cost, hrej, if_false]

example : RSInv 3 ((RS.init 3).update (1, 1/2)) :=
  metrics_invariant 3 (by decide) _ (init_inv 3) _ ⟨Or.inr rfl, by norm_num⟩

end Scenic.C02
