import ScenicModel.Props.C15Core
import ScenicModel.Props.C15Deps
import ScenicModel.Props.C15Sample

/-!
# C15 — same program, options and seed give identical scenes and runs, every time

* `Props/C15Core.lean`: given the order of `Scenario.dependencies`, the result of seeded generation
  does not depend on the requirement checker (history, timing-driven order of its checks, anything it
  draws from the user-visible generators), on the arrangement of the checks, or on object addresses.
* `Props/C15Deps.lean`: the order of `Scenario.dependencies` itself does not depend on object
  addresses (model of its construction at compile time, instantiated with the container kinds, the
  segment order and the source order regenerated from /repo), hence compile + generate as a whole is
  layout independent; the cost-sorted arrangement of the weighted checker is an instance of the
  arrangement theorem.
* `Props/C15Sample.lean`: the dependency graph itself (`_dependencies` built by `Samplable.__init__`) and its
  walk by `Samplable.sample` / `sampleAll` (iteration kinds regenerated from /repo) are layout independent.
-/
