/-! # C15 — property theorems (stub: filled in when the property's model is built) -/
namespace Scenic.C15
end Scenic.C15
