import ScenicModel.Model.RoadDirection
import ScenicModel.Props.C20Links
import ScenicModel.Props.C20Lookup
/-!
# C20 — which lane supplies the traffic direction; what the lookups return is owned by what the
other lookups return

`direction_of_unique_lane`: the clause "the traffic direction reported at a point of a lane is
tangent to *that lane's* centreline" reduced to geometry: if exactly one lane contains the point, no
intersection contains it, children lie in their parents and parents are covered by their children
(at that point), then `roadDirection` and `nominalDirectionsAt` both take their value from the
nearest centreline segment of that very lane — whatever else is merely within tolerance.

`found_section_owned`, `found_group_owned`: in a reciprocal network the lane section returned by
`laneSectionAt` is a section of the lane returned by `laneAt` (and shares its group and road); the
lane group returned by `laneGroupAt` is a group of the road returned by `roadAt`.
-/
namespace Scenic.C20
open Scenic.Roads

abbrev P2 : List Pass := [.exact, .tolerant]

theorem findPointInWith_P2 (tolPos : Bool) (pf : PointFacts) (es : List Nat) :
    findPointInWith P2 tolPos pf es = findPointIn tolPos pf es := rfl

/-- a list in which some element contains the point: the result is an element of the list that
contains the point -/
theorem findPointIn_exact_mem (tolPos : Bool) (pf : PointFacts) (es : List Nat)
    (h : ∃ x ∈ es, x ∈ pf.exact) : ∃ r, findPointIn tolPos pf es = some r ∧ r ∈ es ∧ r ∈ pf.exact := by
  obtain ⟨r, hr, he⟩ := lookup_exact_priority tolPos pf es h
  exact ⟨r, hr, (lookup_sound tolPos pf es r hr).1, he⟩

/-- searching `a ++ b ++ c` when nothing in `a` contains the point but something in `b` does: the
result is an element of `b` containing the point -/
theorem findPointIn_skip (tolPos : Bool) (pf : PointFacts) (a b c : List Nat)
    (ha : ∀ x ∈ a, x ∉ pf.exact) (hb : ∃ x ∈ b, x ∈ pf.exact) :
    ∃ r, findPointIn tolPos pf (a ++ b ++ c) = some r ∧ r ∈ b ∧ r ∈ pf.exact := by
  rw [findPointIn_eq]
  have h1 : firstIn pf.exact a = none := (firstIn_none_iff _ _).mpr ha
  have h2 : ∃ r, firstIn pf.exact b = some r := by
    cases hf : firstIn pf.exact b with
    | some r => exact ⟨r, rfl⟩
    | none =>
      obtain ⟨x, hx, hxe⟩ := hb
      exact absurd hxe ((firstIn_none_iff _ _).mp hf x hx)
  obtain ⟨r, hr⟩ := h2
  refine ⟨r, ?_, (firstIn_some hr).1, (firstIn_some hr).2⟩
  simp [firstIn_append, h1, hr]

theorem eval3 (n : Network) (f g h : Field) (i : Nat) :
    n.eval [[f], [g], [h]] i = n.field f i ++ n.field g i ++ n.field h i := by
  simp [Network.eval, Network.path]

/-- the heading source of a road that contains the point, is covered by its lane groups and they by
their lanes: a lane of the road that contains the point -/
theorem headingSource_road_exact (n : Network) (tolPos : Bool) (pf : PointFacts) (r : Nat)
    (hk : n.kindOf r = some .road)
    (hcovR : ∃ g ∈ n.field .groups r, g ∈ pf.exact)
    (hcovG : ∀ g ∈ n.field .groups r, g ∈ pf.exact → ∃ l ∈ n.field .lanes g, l ∈ pf.exact) :
    ∃ g ∈ n.field .groups r, headingSource P2 n tolPos pf r ∈ n.field .lanes g ∧
      headingSource P2 n tolPos pf r ∈ pf.exact := by
  obtain ⟨g, hg, hgm, hge⟩ := findPointIn_exact_mem tolPos pf _ hcovR
  obtain ⟨l, hl, hlm, hle⟩ := findPointIn_exact_mem tolPos pf _ (hcovG g hgm hge)
  refine ⟨g, hgm, ?_⟩
  have : headingSource P2 n tolPos pf r = l := by
    unfold headingSource
    simp only [hk, if_true, findPointInWith_P2, hg, hl]
  rw [this]
  exact ⟨hlm, hle⟩

/-- **direction_of_unique_lane** -/
theorem direction_of_unique_lane (n : Network) (tolPos : Bool) (pf : PointFacts) (l : Nat)
    (hroad : ∀ r ∈ n.field .roads 0, n.kindOf r = some .road)
    (hnoint : ∀ x ∈ n.field .intersections 0, x ∉ pf.exact)
    (hup : ∀ r ∈ n.field .roads 0, ∀ g ∈ n.field .groups r, ∀ l' ∈ n.field .lanes g,
      l' ∈ pf.exact → r ∈ pf.exact)
    (hcovR : ∀ r ∈ n.field .roads 0, r ∈ pf.exact → ∃ g ∈ n.field .groups r, g ∈ pf.exact)
    (hcovG : ∀ r ∈ n.field .roads 0, ∀ g ∈ n.field .groups r, g ∈ pf.exact →
      ∃ l' ∈ n.field .lanes g, l' ∈ pf.exact)
    (huniq : ∀ r ∈ n.field .roads 0, ∀ g ∈ n.field .groups r, ∀ l' ∈ n.field .lanes g,
      l' ∈ pf.exact → l' = l)
    (hl : ∃ r ∈ n.field .roads 0, ∃ g ∈ n.field .groups r, l ∈ n.field .lanes g ∧ l ∈ pf.exact) :
    roadDirSource P2 n tolPos pf { first := [[.intersections], [.roads], [.shoulders]] } = some (.elem l) ∧
    nominalSources P2 n tolPos pf { first := [[.intersections], [.roads], [.shoulders]] } = [.elem l] := by
  obtain ⟨r0, hr0, g0, hg0, hl0, hle⟩ := hl
  have hsome : ∃ x ∈ n.field .roads 0, x ∈ pf.exact := ⟨r0, hr0, hup r0 hr0 g0 hg0 l hl0 hle⟩
  obtain ⟨r, hfind, hr, hre⟩ := findPointIn_skip tolPos pf _ _ (n.field .shoulders 0) hnoint hsome
  have hlook : lookupWith P2 n tolPos pf { first := [[.intersections], [.roads], [.shoulders]] } = some r := by
    unfold lookupWith
    simp only [findPointInWith_P2, eval3, hfind]
  have hk := hroad r hr
  obtain ⟨g, hg, hsl, hse⟩ := headingSource_road_exact n tolPos pf r hk (hcovR r hr hre) (hcovG r hr)
  have hsrc : headingSource P2 n tolPos pf r = l := huniq r hr g hg _ hsl hse
  have hni : ¬ (n.kindOf r = some Kind.intersection) := by rw [hk]; decide
  constructor
  · unfold roadDirSource
    simp only [hlook, hni, if_false, hsrc]
  · unfold nominalSources
    simp only [hlook, hni, if_false, hsrc]

/-- **nominal_in_intersection**: when the element found is an intersection, the reported directions
come from exactly the connecting lanes of its maneuvers that contain the point (in maneuver order)
if there are any; otherwise, for a positive tolerance, from those within tolerance; otherwise from
the closest one -/
theorem nominal_in_intersection (n : Network) (tolPos : Bool) (pf : PointFacts) (d : LookupDef) (I : Nat)
    (hI : lookupWith P2 n tolPos pf d = some I) (hk : n.kindOf I = some .intersection) :
    let ex := (connLanes n I).filter (fun l => pf.exact.contains l)
    let nr := (connLanes n I).filter (fun l => pf.near.contains l)
    (ex ≠ [] → nominalSources P2 n tolPos pf d = ex.map .elem) ∧
    (ex = [] → tolPos = true → nr ≠ [] → nominalSources P2 n tolPos pf d = nr.map .elem) ∧
    (ex = [] → (tolPos = true → nr = []) → nominalSources P2 n tolPos pf d = [.closestOf I]) ∧
    roadDirSource P2 n tolPos pf d = some (.closestOf I) := by
  intro ex nr
  have hns : nominalSources P2 n tolPos pf d = sourcesOf I (maneuverLanesAt n tolPos pf I) := by
    unfold nominalSources
    simp only [hI, hk, if_true]
  refine ⟨?_, ?_, ?_, ?_⟩
  · intro hne
    have : maneuverLanesAt n tolPos pf I = ex := by
      unfold maneuverLanesAt
      have : (!ex.isEmpty) = true := by
        cases hx : ex with
        | nil => exact absurd hx hne
        | cons a t => rfl
      simp only [ex] at this ⊢
      rw [if_pos this]
    rw [hns, this]
    cases hx : ex with
    | nil => exact absurd hx hne
    | cons a t => rfl
  · intro he ht hnn
    have : maneuverLanesAt n tolPos pf I = nr := by
      unfold maneuverLanesAt
      simp only [ex] at he
      simp only [nr, he, ht, List.isEmpty_nil, Bool.not_true, if_true]
      simp
    rw [hns, this]
    cases hx : nr with
    | nil => exact absurd hx hnn
    | cons a t => rfl
  · intro he hnn
    have : maneuverLanesAt n tolPos pf I = [] := by
      unfold maneuverLanesAt
      simp only [ex] at he
      simp only [he, List.isEmpty_nil, Bool.not_true]
      cases tolPos with
      | false => simp
      | true => simp; simpa [nr] using hnn rfl
    rw [hns, this]
    rfl
  · unfold roadDirSource
    simp only [hI, hk, if_true]

/-! ### what one lookup returns is owned by what the other returns -/

theorem kind_of_typed (n : Network) (h : Reciprocal n) (hnet : n.kindOf 0 = some .network)
    (f : Field) (k : Kind) (hm : Rule.typed .network f [k] ∈ rules) (x : Nat) (hx : x ∈ n.field f 0) :
    ∃ e, n.elems[x]? = some e ∧ e.kind = k := by
  unfold Network.kindOf at hnet
  cases h0 : n.elems[0]? with
  | none => simp [h0] at hnet
  | some e0 =>
    simp [h0] at hnet
    have hx' : x ∈ e0.get f := by rwa [field_eq_get n f 0 e0 h0] at hx
    obtain ⟨e, he, hk⟩ := h _ hm 0 e0 h0 hnet x hx'
    exact ⟨e, he, by simpa using hk⟩

theorem mem_net_lanes : Rule.typed .network .lanes [.lane] ∈ rules := by decide
theorem mem_net_roads : Rule.typed .network .roads [.road] ∈ rules := by decide
theorem mem_net_conn : Rule.typed .network .connecting [.road] ∈ rules := by decide
theorem mem_sec_group : Rule.link .lane .sections none [[.group]] [[.group]] .eq ∈ rules := by decide
theorem mem_sec_road : Rule.link .lane .sections none [[.road]] [[.road]] .eq ∈ rules := by decide
theorem mem_road_groups : Rule.link .road .groups none [[.road]] [[]] .eq ∈ rules := by decide

theorem eval1 (n : Network) (f : Field) (i : Nat) : n.eval [[f]] i = n.field f i := eval_single n f i

theorem eval2 (n : Network) (f g : Field) (i : Nat) :
    n.eval [[f], [g]] i = n.field f i ++ n.field g i := by
  simp [Network.eval, Network.path]

/-- **found_section_owned**: the lane section returned by `laneSectionAt` is one of the sections of
the lane returned by `laneAt`; in a reciprocal network its `lane` is that lane and it has the
lane's group and road -/
theorem found_section_owned (n : Network) (tolPos : Bool) (pf : PointFacts) (s : Nat)
    (hs : lookupWith P2 n tolPos pf { first := [[.lanes]], child := some [[.sections]] } = some s) :
    ∃ l, lookupWith P2 n tolPos pf { first := [[.lanes]] } = some l ∧ l ∈ n.field .lanes 0 ∧
      s ∈ n.field .sections l ∧
      (Reciprocal n → n.kindOf 0 = some .network →
        n.field .lane s = [l] ∧ n.field .group s = n.field .group l ∧ n.field .road s = n.field .road l) := by
  unfold lookupWith at hs ⊢
  simp only [findPointInWith_P2, eval1] at hs ⊢
  cases hl : findPointIn tolPos pf (n.field .lanes 0) with
  | none => rw [hl] at hs; cases hs
  | some l =>
    rw [hl] at hs
    simp only [eval1] at hs
    have hlm := (lookup_sound tolPos pf _ l hl).1
    have hsm := (lookup_sound tolPos pf _ s hs).1
    refine ⟨l, rfl, hlm, hsm, ?_⟩
    intro hrec hnet
    obtain ⟨e, he, hk⟩ := kind_of_typed n hrec hnet .lanes .lane mem_net_lanes l hlm
    have hsm' : s ∈ e.get .sections := by rwa [field_eq_get n .sections l e he] at hsm
    have a := hrec _ mem_lane_sections l e he hk s hsm' (by intro k' hk'; cases hk')
    have b := hrec _ mem_sec_group l e he hk s hsm' (by intro k' hk'; cases hk')
    have c := hrec _ mem_sec_road l e he hk s hsm' (by intro k' hk'; cases hk')
    simp only [eval_nil, eval_single] at a b c
    exact ⟨a, b, c⟩

/-- **found_group_owned**: the lane group returned by `laneGroupAt` is one of the lane groups of the
road returned by `roadAt`; in a reciprocal network its `road` is that road -/
theorem found_group_owned (n : Network) (tolPos : Bool) (pf : PointFacts) (g : Nat)
    (hg : lookupWith P2 n tolPos pf { first := [[.roads], [.connecting]], child := some [[.groups]] } = some g) :
    ∃ r, lookupWith P2 n tolPos pf { first := [[.roads], [.connecting]] } = some r ∧
      g ∈ n.field .groups r ∧
      (Reciprocal n → n.kindOf 0 = some .network → n.field .road g = [r]) := by
  unfold lookupWith at hg ⊢
  simp only [findPointInWith_P2, eval1, eval2] at hg ⊢
  cases hr : findPointIn tolPos pf (n.field .roads 0 ++ n.field .connecting 0) with
  | none => rw [hr] at hg; cases hg
  | some r =>
    rw [hr] at hg
    simp only [eval1] at hg
    have hrm := (lookup_sound tolPos pf _ r hr).1
    have hgm := (lookup_sound tolPos pf _ g hg).1
    refine ⟨r, rfl, hgm, ?_⟩
    intro hrec hnet
    have hre : ∃ e, n.elems[r]? = some e ∧ e.kind = .road := by
      rcases List.mem_append.mp hrm with h | h
      · exact kind_of_typed n hrec hnet .roads .road mem_net_roads r h
      · exact kind_of_typed n hrec hnet .connecting .road mem_net_conn r h
    obtain ⟨e, he, hk⟩ := hre
    have hgm' : g ∈ e.get .groups := by rwa [field_eq_get n .groups r e he] at hgm
    have a := hrec _ mem_road_groups r e he hk g hgm' (by intro k' hk'; cases hk')
    simp only [eval_nil, eval_single] at a
    exact a

/-- an element-level lookup (`road.laneAt`, `group.laneAt`, `lane.sectionAt`, …) returns an element
of the list it searches, which contains the point or (nothing of the list containing it) is within
tolerance -/
theorem elem_lookup_sound (n : Network) (tolPos : Bool) (pf : PointFacts) (k : Kind) (f : Field) (o r : Nat)
    (h : elemLookupWith P2 n tolPos pf { owner := k, first := f } o = some r) :
    r ∈ n.field f o ∧
      (r ∈ pf.exact ∨ (tolPos = true ∧ r ∈ pf.near ∧ ∀ x ∈ n.field f o, x ∉ pf.exact)) := by
  unfold elemLookupWith at h
  simp only [findPointInWith_P2] at h
  cases hf : findPointIn tolPos pf (n.field f o) with
  | none => rw [hf] at h; cases h
  | some r' =>
    rw [hf] at h
    simp only [Option.some.injEq] at h
    subst h
    exact lookup_sound tolPos pf _ r' hf

end Scenic.C20
