import ScenicModel.Lemmas.DepOrder
import ScenicModel.Props.C15Core
import ScenicModel.Model.SampleOrder
import ScenicModel.Gen.Determinism

/-!
# C15, third part — the dependency graph and its walk are canonical

`Props/C15Core.lean` takes the graph (`_conditioned._dependencies` of every node) as given and walks
the children in the order of that tuple.  This file moves the construction of the tuple
(`Samplable.__init__`, `LazilyEvaluable.__init__`) and the two iterations (`Samplable.sample` over the
children, `Samplable.sampleAll` over the roots) inside the model (`Model/SampleOrder.lean`),
parametric in the kind of each of the four places, regenerated from /repo:

* `stored_dependencies_canonical`, `stored_dependencies_exact` — `_dependencies` is the sub-sequence of
  lazy constructor arguments, in the order given, at whatever addresses the objects live;
* `sample_iteration_canonical` — the walk of the current source binds the same values in the same
  order and consumes the same elements of both generators in every layout;
* `construct_and_sample_layout_independent` — construction + walk as a whole;
* `child_set_layout_dependent_witness` — iterating the children through an address-hashed set
  (`for child in set(self._conditioned._dependencies)`) loses that: the side condition
  `gen_sample_sites_ordered` is needed.
-/
namespace Scenic.Det

theorem sampleKinds_fields (k : SampleKinds) (h : k.allOrdered = true) :
    k.initDeps = true ∧ k.stored = true ∧ k.children = true ∧ k.quantities = true := by
  simp only [SampleKinds.allOrdered, Bool.and_eq_true] at h
  exact ⟨h.1.1.1, h.1.1.2, h.1.2, h.2⟩

theorem initDependencies_ordered (k : SampleKinds) (h : k.allOrdered = true) (lazy args : List Id) :
    initDependencies k lazy args = args.filter (needsB lazy) := by
  obtain ⟨h1, h2, _, _⟩ := sampleKinds_fields k h
  simp [initDependencies, iterSeq, h1, h2]

theorem tableK_ordered (k : SampleKinds) (h : k.allOrdered = true) (tbl : Table) :
    tableK k tbl = tbl := by
  obtain ⟨_, _, h3, _⟩ := sampleKinds_fields k h
  simp [tableK, iterSeq, h3]

theorem sampleAllK_ordered {σ : Type} (nx : σ → Nat × σ) (sem : Nat → Nat → List Val → Option Val)
    (k : SampleKinds) (h : k.allOrdered = true) (tbl : Table) (fuel : Nat) (order : List Id)
    (rs : RS σ) :
    sampleAllK nx sem k tbl fuel order rs = sampleAll nx sem tbl fuel order rs := by
  obtain ⟨_, _, _, h4⟩ := sampleKinds_fields k h
  simp [sampleAllK, tableK_ordered k h, iterSeq, h4]

theorem initDependencies_ren (k : SampleKinds) (h : k.allOrdered = true) (ρ : Id → Id) (hρ : Inj ρ)
    (lazy args : List Id) :
    initDependencies k (lazy.map ρ) (args.map ρ) = (initDependencies k lazy args).map ρ := by
  rw [initDependencies_ordered k h, initDependencies_ordered k h, filter_needs_map ρ hρ]

theorem buildTable_ren (k : SampleKinds) (h : k.allOrdered = true) (ρ : Id → Id) (hρ : Inj ρ)
    (lazy : List Id) (ds : List Decl) :
    buildTable k (lazy.map ρ) (ds.map (renDecl ρ)) = renTable ρ (buildTable k lazy ds) := by
  simp only [buildTable, renTable, List.map_map]
  apply List.map_congr_left
  intro d _
  simp [renDecl, renNode, initDependencies_ren k h ρ hρ]

end Scenic.Det

namespace Scenic.C15
open Scenic.Det Scenic.Gen

/-- the four places where the graph is built and iterated keep the insertion order -/
theorem gen_sample_sites_ordered :
    detSampleKinds.allOrdered = true ∧ detSampleSites.length = 4 := by decide

section
variable {σ : Type}
variable (nx : σ → Nat × σ)
variable (sem : Nat → Nat → List Val → Option Val)

/-- **stored_dependencies_canonical.**  `_dependencies` of a value constructed from the same arguments
    at other addresses is the relocated tuple. -/
theorem stored_dependencies_canonical (ρ : Id → Id) (hρ : Inj ρ) (lazy args : List Id) :
    initDependencies detSampleKinds (lazy.map ρ) (args.map ρ)
      = (initDependencies detSampleKinds lazy args).map ρ :=
  initDependencies_ren detSampleKinds gen_sample_sites_ordered.1 ρ hρ lazy args

/-- **stored_dependencies_exact.**  `_dependencies` is a sub-sequence of the constructor's arguments (their
    relative order is kept) and contains exactly the lazy ones. -/
theorem stored_dependencies_exact (lazy args : List Id) :
    (initDependencies detSampleKinds lazy args).Sublist args ∧
    ∀ x, x ∈ initDependencies detSampleKinds lazy args ↔ x ∈ args ∧ x ∈ lazy := by
  rw [initDependencies_ordered detSampleKinds gen_sample_sites_ordered.1]
  refine ⟨List.filter_sublist, fun x => ?_⟩
  simp [needsB, List.mem_filter]

/-- **sample_iteration_canonical.**  `sampleAll` as the current source iterates (roots in the order
    given, children in the order of `_dependencies`) under a change of addresses: same values bound
    in the same order, same consumption of both generators. -/
theorem sample_iteration_canonical (ρ : Id → Id) (hρ : Inj ρ) (tbl : Table) (fuel : Nat)
    (order : List Id) (rs : RS σ) :
    sampleAllK nx sem detSampleKinds (renTable ρ tbl) fuel (order.map ρ) rs
      = renListRes ρ (sampleAllK nx sem detSampleKinds tbl fuel order rs) := by
  rw [sampleAllK_ordered nx sem _ gen_sample_sites_ordered.1,
      sampleAllK_ordered nx sem _ gen_sample_sites_ordered.1]
  exact sampleAll_ren nx sem ρ hρ tbl fuel order rs

/-- **construct_and_sample_layout_independent.**  Constructing the same values (any number, any
    arguments, lazy or not, repeated or not) at other addresses and sampling the same roots gives the
    same bindings in the same order and leaves both generators in the same state. -/
theorem construct_and_sample_layout_independent (ρ : Id → Id) (hρ : Inj ρ) (lazy : List Id)
    (ds : List Decl) (fuel : Nat) (order : List Id) (rs : RS σ) :
    constructAndSample nx sem detSampleKinds (lazy.map ρ) (ds.map (renDecl ρ)) fuel (order.map ρ) rs
      = renListRes ρ (constructAndSample nx sem detSampleKinds lazy ds fuel order rs) := by
  unfold constructAndSample
  rw [buildTable_ren detSampleKinds gen_sample_sites_ordered.1 ρ hρ]
  exact sample_iteration_canonical nx sem ρ hρ _ fuel order rs

end

/-! ## non-vacuity and the witness -/

/-- a value (0) constructed from a constant (7), two random values (1, 2) and 1 again -/
def sDecls : List Decl :=
  [⟨0, .py, 0, [7, 1, 2, 1]⟩, ⟨1, .py, 1, []⟩, ⟨2, .np, 2, []⟩]
def sLazy : List Id := [0, 1, 2]
def sLayout : Id → Id := fun i => if i = 1 then 10 else if i = 2 then 9 else i + 100
def sRS : RS (List Nat) := { py := [3, 5, 11, 13], np := [20, 30] }

example : initDependencies detSampleKinds sLazy [7, 1, 2, 1] = [1, 2, 1] := by decide

example : (constructAndSample listNext stubSem detSampleKinds sLazy sDecls 4 [0] sRS).1.isSome = true ∧
    (constructAndSample listNext stubSem detSampleKinds (sLazy.map sLayout) (sDecls.map (renDecl sLayout))
        4 ([0].map sLayout) sRS)
      = renListRes sLayout (constructAndSample listNext stubSem detSampleKinds sLazy sDecls 4 [0] sRS) := by
  decide

/-- the current kinds except that `Samplable.sample` iterates `set(self._conditioned._dependencies)` -/
def childSetKinds : SampleKinds := { detSampleKinds with children := false }

/-- two children drawing from the same generator -/
def sTable : Table := [(0, ⟨.none, 0, [1, 2]⟩), (1, ⟨.py, 0, []⟩), (2, ⟨.py, 0, []⟩)]

/-- **child_set_layout_dependent_witness.**  With the children iterated through a set of objects hashed
    by address, the layout `sLayout` visits them in the other order: value 1 receives the second element
    of Python's stream instead of the first (`sumSem` is symmetric, so only the iteration order
    differs).  With the kinds of the current source the two layouts agree. -/
theorem child_set_layout_dependent_witness :
    sampleAllK listNext sumSem childSetKinds (renTable sLayout sTable) 4 ([0].map sLayout) sRS
      ≠ renListRes sLayout (sampleAllK listNext sumSem childSetKinds sTable 4 [0] sRS) ∧
    sampleAllK listNext sumSem detSampleKinds (renTable sLayout sTable) 4 ([0].map sLayout) sRS
      = renListRes sLayout (sampleAllK listNext sumSem detSampleKinds sTable 4 [0] sRS) := by
  decide

end Scenic.C15
