/-! # C06 — property theorems (stub: filled in when the property's model is built) -/
namespace Scenic.C06
end Scenic.C06
