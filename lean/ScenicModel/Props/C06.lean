import ScenicModel.Props.C06Resolve
import ScenicModel.Props.C06Perm
import ScenicModel.Props.C06Merge
import ScenicModel.Props.C06Eval
import ScenicModel.Props.C06Const

/-!
# C06 -- specifier resolution follows the documented priorities, whatever the order

Model: `ScenicModel/Model/Specifiers.lean`.  Theorems (all for arbitrary classes and specifier lists):

* `resolve_spec`, `resolve_modifier` -- each property goes to its unique highest-priority specifier
  (then at most one modifier), else to the default of the class;
* `topo_order`, `topo_order_full`, `modifier_after_specifier`, `evaluated_once` -- every specifier is
  evaluated once, after everything it depends on is final;
* `evaluate_ok`, `evaluate_total` (`Props/C06Eval.lean`) -- the evaluation loop itself: every dependency read
  is present and final, the source's assertion cannot fail, each property ends with the value of its
  modifier, else of its specifier;
* `defaulted_iff`, `defaulted_perm_invariant`, `defaulted_final_value`, `constProps_iff` (`Props/C06Const.lean`) --
  `_defaultedProperties` / `constProps`: defaulted iff the class has a default and no specifier names the
  property, in every order; `override_spec`, `override_perm_invariant`, `override_refused_sound`,
  `overrideCheck_none_iff` -- `_override` only touches what it names;
* `dup_name_reported`, `final_reported` (any specifier, modifying or not; + `final_reported_normal`, `regression_final_by_modifier`), `tie_reported`, `missing_dep_reported`, `cycle_reported`,
  `error_kinds_sound`, `cycle_error_sound`, `resolve_never_fuel` -- the errors;
* `resolve_perm_invariant`, `resolve2D_perm_invariant`, `builtin_single_modifier`,
  `builtin_perm_invariant` -- the outcome does not depend on the order;
* `merge_most_derived`, `merge_additive_collects`, `merge_final_not_overridable`, `merge_finals`,
  `transform2D_no_heading` -- class-level defaults;
* `gen_code_matches_docs`, `gen_docs_covered`, `gen_table_wf`, `gen_single_modifier_name` -- side
  conditions on the table regenerated from veneer.py and the reference manual on every run.
-/
