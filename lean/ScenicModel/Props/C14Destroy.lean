import ScenicModel.Props.C14Stale
import ScenicModel.Props.C14Witness

/-!
# C14 (part 7): the simulator interface's `destroy()` raising inside the `finally` block

`self.destroy()` is code of the simulator interface and is itself a statement of the `finally` block of
`Simulation.__init__`.  If it raises (the connection to the simulator was lost, say) and the remaining statements
are not protected by a nested `try … finally`, they are skipped (`runSimD`, `beforeDestroy`).

* `runSimD_eq_runSim`: if `destroy()` does not raise, or the rest of the block is protected, `runSimD` is `runSim`
  – every theorem about `runSim` applies;
* `sim_scene_untouched_destroy`: *whatever* `destroy()` does, the scene's own objects are never written (the part of
  the block that did run reverts only while the proxies are in place);
* `destroy_failure_skips_cleanup` (negation witness, configuration of the source as found): the objects stay
  proxied – every property still *reads* as at the end of the simulation – and `veneer.endSimulation` is not reached;
  `guarded_destroy_failure_harmless`: with the nested `try … finally` the same run is cleaned up completely.
-/
namespace Scenic.C14
open Scenic.Overrides

theorem beforeDestroy_noStop : ∀ (l : List Step), l.contains .stopScenarios = false →
    (beforeDestroy l).contains .stopScenarios = false := by
  intro l
  induction l with
  | nil => intro _; rfl
  | cons s rest ih =>
    intro h
    have hr : rest.contains .stopScenarios = false := by
      simp only [List.contains_cons, Bool.or_eq_false_iff] at h; exact h.2
    cases s with
    | destroy => rfl
    | stopScenarios => simp at h
    | disableProxies => simp only [beforeDestroy, List.contains_cons, Bool.or_eq_false_iff]; exact ⟨by decide, ih hr⟩
    | stopBehaviors => simp only [beforeDestroy, List.contains_cons, Bool.or_eq_false_iff]; exact ⟨by decide, ih hr⟩
    | endSimulation => simp only [beforeDestroy, List.contains_cons, Bool.or_eq_false_iff]; exact ⟨by decide, ih hr⟩

theorem safeOrder_beforeDestroy : ∀ (l : List Step), safeOrder l = true → safeOrder (beforeDestroy l) = true := by
  intro l
  induction l with
  | nil => intro _; rfl
  | cons s rest ih =>
    intro h
    cases s with
    | destroy => rfl
    | disableProxies =>
      simp only [safeOrder, Bool.not_eq_true'] at h
      simp only [beforeDestroy, safeOrder, Bool.not_eq_true']
      exact beforeDestroy_noStop rest h
    | stopScenarios => simp only [beforeDestroy, safeOrder] at h ⊢; exact ih h
    | stopBehaviors => simp only [beforeDestroy, safeOrder] at h ⊢; exact ih h
    | endSimulation => simp only [beforeDestroy, safeOrder] at h ⊢; exact ih h

/-- if `destroy()` does not raise, or the rest of the `finally` block is protected against it, the
    simulation ends exactly as `runSim` says -/
theorem runSimD_eq_runSim (cfg : Cfg) (w : World) (stale : Saved) (agentsSet destroyFails : Bool) (evs : List Ev)
    (h : destroyFails = false ∨ cfg.destroyGuarded = true) :
    runSimD cfg w stale agentsSet destroyFails evs = runSim cfg w stale agentsSet evs := by
  unfold runSimD
  rcases h with h | h <;> simp [h]

/-- **the scene's objects are untouched even if the simulator's `destroy()` raises inside the `finally`
    block**, protected or not: for every event sequence, cut off anywhere. -/
theorem sim_scene_untouched_destroy (cfg : Cfg) (w : World) (agentsSet destroyFails : Bool) (evs : List Ev)
    (hord : safeOrder cfg.order = true) (hs : scopedEvs [] evs = true) :
    (runSimD cfg w [] agentsSet destroyFails evs).w.orig = w.orig := by
  unfold runSimD
  split
  · have h1 := run_spec cfg evs (initSt w []) (inv_initSt w) hs
    simp only
    rw [cleanup_safe cfg agentsSet _ _ false h1.2 (safeOrder_beforeDestroy _ hord)]
    exact h1.1
  · exact sim_scene_untouched cfg w agentsSet evs hord hs

example : safeOrder cfgRepaired.order = true ∧ scopedEvs [] failingRun = true := by decide

/-- the configuration of the source with the proposed nested `try: self.destroy() finally: …` -/
def cfgGuarded : Cfg := { cfgRepaired with destroyGuarded := true }

/-- **negation witness** (configuration of the source as found, `destroy()` first and unprotected): when
    `destroy()` raises after the failing run of the regression corpus, object 0 stays proxied, its property 0
    still reads 1 (the overridden value) instead of 0, and `veneer.endSimulation` is never reached -/
theorem destroy_failure_skips_cleanup :
    (runSimD cfgRepaired World.zero [] true true failingRun).w.proxied 0 = true ∧
    (runSimD cfgRepaired World.zero [] true true failingRun).w.read 0 0 = 1 ∧ World.zero.read 0 0 = 0 ∧
    (runSimD cfgRepaired World.zero [] true true failingRun).ended = false := by decide

/-- with the rest of the block protected, the same run is cleaned up completely -/
theorem guarded_destroy_failure_harmless :
    (runSimD cfgGuarded World.zero [] true true failingRun).w.proxied 0 = false ∧
    (runSimD cfgGuarded World.zero [] true true failingRun).w.read 0 0 = 0 ∧
    (runSimD cfgGuarded World.zero [] true true failingRun).ended = true := by decide

end Scenic.C14
