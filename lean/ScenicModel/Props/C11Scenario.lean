import ScenicModel.Props.C11Final
import ScenicModel.Model.LTLScenario
/-!
# C11 — a running scenario with its list of requirement monitors (`Model/LTLScenario.lean`)

The loop of `DynamicScenario._step` / `_addDynamicRequirement` / `_stop` over a *list* of monitors that grows
while the scenario runs is shown to be the conjunction of independent per-requirement judgements:

* `loop_accepted_iff` / `simulate_accepted_iff` — the scenario is accepted iff every requirement registered
  before the start is accepted by `run` on the whole trace, and every requirement executed by the compose
  block in step `s` is accepted by `runRegistered` on the trace from step `s` on;
* `loop_rejected` / `simulate_rejected_culprit` — a rejection in step `u` is caused by one registered
  requirement whose own verdict in step `u` is in the rejecting set, and no check of any requirement failed
  in an earlier step.
-/
namespace Scenic.LTL

section machine
variable (c : MonCfg) (R : Rule) (dr : List Nat) (script : Nat → List F) (σ : Trace)

theorem stepMons_spec (t : Nat) : ∀ ms : List Mon, stepMons c R σ t ms =
    if (ms.any fun m => R.stepReject.contains (verdictAt c σ m.f m.start t)) = true then none
    else some (ms.map (Mon.refresh c σ t))
  | [] => rfl
  | m :: ms => by
    rw [stepMons, stepMons_spec t ms, List.any_cons, List.map_cons]
    cases h : R.stepReject.contains (verdictAt c σ m.f m.start t) with
    | true => rfl
    | false =>
      rw [if_neg Bool.false_ne_true, Bool.false_or]
      by_cases h2 : (ms.any fun m => R.stepReject.contains (verdictAt c σ m.f m.start t)) = true
      · rw [if_pos h2, if_pos h2]; rfl
      · rw [if_neg h2, if_neg h2]; rfl

/-- the monitor `_addDynamicRequirement` appends for `require f` executed in step `t` -/
def newMon (f : F) (t : Nat) : Mon := { f := f, start := t, last := verdictAt c σ f t t }

theorem addMons_spec (t : Nat) : ∀ (fs : List F) (ms : List Mon), addMons c dr σ t fs ms =
    if (fs.any fun f => dr.contains (verdictAt c σ f t t)) = true then none
    else some (ms ++ fs.map fun f => newMon c σ f t)
  | [], ms => by
    rw [addMons, List.any_nil, if_neg Bool.false_ne_true, List.map_nil, List.append_nil]
  | f :: fs, ms => by
    rw [addMons, List.any_cons, List.map_cons]
    cases h : dr.contains (verdictAt c σ f t t) with
    | true => rfl
    | false =>
      rw [if_neg Bool.false_ne_true, Bool.false_or, addMons_spec t fs, List.append_assoc]
      rfl

/-- the monitor of `f` created in step `start` passes the check of `_step` in step `u` -/
def StepOK (f : F) (start u : Nat) : Prop := R.stepReject.contains (verdictAt c σ f start u) = false
/-- … and the check of `_stop` after step `u` -/
def StopOK (f : F) (start u : Nat) : Prop := R.stopReject.contains (verdictAt c σ f start u) = false
/-- the first verdict of `require f` executed in step `s` passes the check of `_addDynamicRequirement` -/
def DynOK (f : F) (s : Nat) : Prop := dr.contains (verdictAt c σ f s s) = false
/-- all checks of `_step` in the steps `lo … hi`, and the check of `_stop` after step `hi` -/
def Passes (f : F) (start lo hi : Nat) : Prop :=
  (∀ u, lo ≤ u → u ≤ hi → StepOK c R σ f start u) ∧ StopOK c R σ f start hi

theorem stopRejects_false_iff (ms : List Mon) :
    stopRejects R ms = false ↔ ∀ m ∈ ms, R.stopReject.contains m.last = false := by
  unfold stopRejects
  rw [List.any_eq_false]
  constructor
  · intro h m hm
    have := h m hm
    cases hc : R.stopReject.contains m.last with
    | false => rfl
    | true => rw [hc] at this; exact absurd rfl this
  · intro h m hm
    rw [h m hm]; exact Bool.false_ne_true

/-- after the checks of step `t` the monitor list is the old one refreshed plus the new monitors -/
theorem mem_after_step (t : Nat) (ms : List Mon) (m' : Mon) :
    m' ∈ ms.map (Mon.refresh c σ t) ++ (script t).map (fun f => newMon c σ f t) ↔
      (∃ m ∈ ms, m' = m.refresh c σ t) ∨ (∃ f ∈ script t, m' = newMon c σ f t) := by
  rw [List.mem_append, List.mem_map, List.mem_map]
  constructor
  · rintro (⟨m, hm, rfl⟩ | ⟨f, hf, rfl⟩)
    · exact Or.inl ⟨m, hm, rfl⟩
    · exact Or.inr ⟨f, hf, rfl⟩
  · rintro (⟨m, hm, rfl⟩ | ⟨f, hf, rfl⟩)
    · exact Or.inl ⟨m, hm, rfl⟩
    · exact Or.inr ⟨f, hf, rfl⟩

/-- one step of the loop, as a case distinction -/
theorem loop_succ (t fuel : Nat) (ms : List Mon) :
    loop c R dr script σ t (fuel + 1) ms =
      if (ms.any fun m => R.stepReject.contains (verdictAt c σ m.f m.start t)) = true then .rejectedAt t
      else if ((script t).any fun f => dr.contains (verdictAt c σ f t t)) = true then .rejectedAt t
      else loop c R dr script σ (t + 1) fuel
        (ms.map (Mon.refresh c σ t) ++ (script t).map fun f => newMon c σ f t) := by
  rw [loop, stepMons_spec]
  by_cases h1 : (ms.any fun m => R.stepReject.contains (verdictAt c σ m.f m.start t)) = true
  · rw [if_pos h1, if_pos h1]
  · rw [if_neg h1, if_neg h1]
    show (match addMons c dr σ t (script t) (ms.map (Mon.refresh c σ t)) with
      | none => Outcome.rejectedAt t
      | some ms2 => loop c R dr script σ (t + 1) fuel ms2) = _
    rw [addMons_spec]
    by_cases h2 : ((script t).any fun f => dr.contains (verdictAt c σ f t t)) = true
    · rw [if_pos h2, if_pos h2]
    · rw [if_neg h2, if_neg h2]

/-- **acceptance decomposes**: the loop over the growing monitor list accepts iff every monitor that is in the
    list passes every check from step `t` on, and every requirement the compose block executes later passes
    the registration check and every check after it -/
theorem loop_accepted_iff : ∀ (k t : Nat) (ms : List Mon),
    loop c R dr script σ t (k + 1) ms = .accepted ↔
      (∀ m ∈ ms, Passes c R σ m.f m.start t (t + k)) ∧
      (∀ s, t ≤ s → s ≤ t + k → ∀ f ∈ script s, DynOK c dr σ f s ∧ Passes c R σ f s (s + 1) (t + k)) := by
  intro k
  induction k with
  | zero =>
    intro t ms
    rw [loop_succ]
    by_cases h1 : (ms.any fun m => R.stepReject.contains (verdictAt c σ m.f m.start t)) = true
    · rw [if_pos h1]
      constructor
      · intro h; cases h
      · rintro ⟨hm, _⟩
        obtain ⟨m, hmem, hbad⟩ := List.any_eq_true.1 h1
        have := (hm m hmem).1 t (Nat.le_refl _) (by omega)
        unfold StepOK at this
        rw [this] at hbad; cases hbad
    · rw [if_neg h1]
      by_cases h2 : ((script t).any fun f => dr.contains (verdictAt c σ f t t)) = true
      · rw [if_pos h2]
        constructor
        · intro h; cases h
        · rintro ⟨_, hs⟩
          obtain ⟨f, hmem, hbad⟩ := List.any_eq_true.1 h2
          have := (hs t (Nat.le_refl _) (by omega) f hmem).1
          unfold DynOK at this
          rw [this] at hbad; cases hbad
      · rw [if_neg h2]
        rw [loop]
        have h1' := List.any_eq_false.1 (by simpa using h1 : (ms.any fun m => R.stepReject.contains (verdictAt c σ m.f m.start t)) = false)
        have h2' := List.any_eq_false.1 (by simpa using h2 : ((script t).any fun f => dr.contains (verdictAt c σ f t t)) = false)
        cases hst : stopRejects R (ms.map (Mon.refresh c σ t) ++ (script t).map fun f => newMon c σ f t) with
        | true =>
          simp only [if_true]
          constructor
          · intro h; cases h
          · rintro ⟨hm, hs⟩
            have : stopRejects R (ms.map (Mon.refresh c σ t) ++ (script t).map fun f => newMon c σ f t) = false := by
              rw [stopRejects_false_iff]
              intro m' hm'
              rcases (mem_after_step c script σ t ms m').1 hm' with ⟨m, hmem, rfl⟩ | ⟨f, hf, rfl⟩
              · exact (hm m hmem).2
              · exact (hs t (Nat.le_refl _) (by omega) f hf).2.2
            rw [this] at hst; cases hst
        | false =>
          simp only [Bool.false_eq_true, if_false, true_iff]
          rw [stopRejects_false_iff] at hst
          constructor
          · intro m hm
            refine ⟨fun u h1u h2u => ?_, ?_⟩
            · have : u = t := by omega
              subst this
              have := h1' m hm
              unfold StepOK
              cases hc : R.stepReject.contains (verdictAt c σ m.f m.start u) with
              | false => rfl
              | true => exact absurd hc this
            · exact hst (m.refresh c σ t) ((mem_after_step c script σ t ms _).2 (Or.inl ⟨m, hm, rfl⟩))
          · intro s h1s h2s f hf
            have : s = t := by omega
            subst this
            refine ⟨?_, fun u h1u h2u => by omega, ?_⟩
            · have := h2' f hf
              unfold DynOK
              cases hc : dr.contains (verdictAt c σ f s s) with
              | false => rfl
              | true => exact absurd hc this
            · exact hst (newMon c σ f s) ((mem_after_step c script σ s ms _).2 (Or.inr ⟨f, hf, rfl⟩))
  | succ k ih =>
    intro t ms
    rw [loop_succ]
    by_cases h1 : (ms.any fun m => R.stepReject.contains (verdictAt c σ m.f m.start t)) = true
    · rw [if_pos h1]
      constructor
      · intro h; cases h
      · rintro ⟨hm, _⟩
        obtain ⟨m, hmem, hbad⟩ := List.any_eq_true.1 h1
        have := (hm m hmem).1 t (Nat.le_refl _) (by omega)
        unfold StepOK at this
        rw [this] at hbad; cases hbad
    · rw [if_neg h1]
      by_cases h2 : ((script t).any fun f => dr.contains (verdictAt c σ f t t)) = true
      · rw [if_pos h2]
        constructor
        · intro h; cases h
        · rintro ⟨_, hs⟩
          obtain ⟨f, hmem, hbad⟩ := List.any_eq_true.1 h2
          have := (hs t (Nat.le_refl _) (by omega) f hmem).1
          unfold DynOK at this
          rw [this] at hbad; cases hbad
      · rw [if_neg h2]
        have h1' := List.any_eq_false.1 (by simpa using h1 : (ms.any fun m => R.stepReject.contains (verdictAt c σ m.f m.start t)) = false)
        have h2' := List.any_eq_false.1 (by simpa using h2 : ((script t).any fun f => dr.contains (verdictAt c σ f t t)) = false)
        rw [ih (t + 1)]
        have e : t + 1 + k = t + (k + 1) := by omega
        rw [e]
        constructor
        · rintro ⟨hm, hs⟩
          constructor
          · intro m hmem
            have hp := hm (m.refresh c σ t) ((mem_after_step c script σ t ms _).2 (Or.inl ⟨m, hmem, rfl⟩))
            refine ⟨fun u h1u h2u => ?_, hp.2⟩
            by_cases hu : u = t
            · subst hu
              have := h1' m hmem
              unfold StepOK
              cases hc : R.stepReject.contains (verdictAt c σ m.f m.start u) with
              | false => rfl
              | true => exact absurd hc this
            · exact hp.1 u (by omega) h2u
          · intro s h1s h2s f hf
            by_cases hs' : s = t
            · subst hs'
              have hp := hm (newMon c σ f s) ((mem_after_step c script σ s ms _).2 (Or.inr ⟨f, hf, rfl⟩))
              refine ⟨?_, hp⟩
              have := h2' f hf
              unfold DynOK
              cases hc : dr.contains (verdictAt c σ f s s) with
              | false => rfl
              | true => exact absurd hc this
            · exact hs s (by omega) h2s f hf
        · rintro ⟨hm, hs⟩
          constructor
          · intro m' hm'
            rcases (mem_after_step c script σ t ms m').1 hm' with ⟨m, hmem, rfl⟩ | ⟨f, hf, rfl⟩
            · have hp := hm m hmem
              exact ⟨fun u h1u h2u => hp.1 u (by omega) h2u, hp.2⟩
            · exact (hs t (Nat.le_refl _) (by omega) f hf).2
          · intro s h1s h2s f hf
            exact hs s (by omega) h2s f hf

/-- **a rejection has a culprit and nothing failed before**: if the loop rejects in step `u`, then `t ≤ u`, all
    checks of the steps before `u` passed, and in step `u` some monitor of the list, or some requirement the
    compose block executed in the meantime, fails its check (`_step`, `_addDynamicRequirement`, or — after
    the last step — `_stop`) -/
theorem loop_rejected : ∀ (k t : Nat) (ms : List Mon) (u : Nat),
    loop c R dr script σ t (k + 1) ms = .rejectedAt u →
      t ≤ u ∧ u ≤ t + k ∧
      (∀ m ∈ ms, ∀ v, t ≤ v → v < u → StepOK c R σ m.f m.start v) ∧
      (∀ s, t ≤ s → s < u → ∀ f ∈ script s, DynOK c dr σ f s ∧ ∀ v, s < v → v < u → StepOK c R σ f s v) ∧
      ((∃ m ∈ ms, ¬ StepOK c R σ m.f m.start u) ∨
       (∃ s, t ≤ s ∧ s < u ∧ ∃ f ∈ script s, ¬ StepOK c R σ f s u) ∨
       (∃ f ∈ script u, ¬ DynOK c dr σ f u) ∨
       (u = t + k ∧ ((∃ m ∈ ms, ¬ StopOK c R σ m.f m.start u) ∨
                     (∃ s, t ≤ s ∧ s ≤ u ∧ ∃ f ∈ script s, ¬ StopOK c R σ f s u)))) := by
  intro k
  induction k with
  | zero =>
    intro t ms u h
    rw [loop_succ] at h
    by_cases h1 : (ms.any fun m => R.stepReject.contains (verdictAt c σ m.f m.start t)) = true
    · rw [if_pos h1] at h
      cases h
      obtain ⟨m, hmem, hbad⟩ := List.any_eq_true.1 h1
      refine ⟨Nat.le_refl _, by omega, fun _ _ v a b => by omega, fun s a b => by omega, Or.inl ⟨m, hmem, ?_⟩⟩
      unfold StepOK; rw [hbad]; exact Bool.noConfusion
    · rw [if_neg h1] at h
      by_cases h2 : ((script t).any fun f => dr.contains (verdictAt c σ f t t)) = true
      · rw [if_pos h2] at h
        cases h
        obtain ⟨f, hmem, hbad⟩ := List.any_eq_true.1 h2
        refine ⟨Nat.le_refl _, by omega, fun _ _ v a b => by omega, fun s a b => by omega,
          Or.inr (Or.inr (Or.inl ⟨f, hmem, ?_⟩))⟩
        unfold DynOK; rw [hbad]; exact Bool.noConfusion
      · rw [if_neg h2] at h
        rw [loop] at h
        cases hst : stopRejects R (ms.map (Mon.refresh c σ t) ++ (script t).map fun f => newMon c σ f t) with
        | false => rw [hst] at h; simp at h
        | true =>
          rw [hst] at h
          simp only [if_true, Outcome.rejectedAt.injEq, Nat.add_sub_cancel] at h
          subst h
          refine ⟨Nat.le_refl _, by omega, fun _ _ v a b => by omega, fun s a b => by omega,
            Or.inr (Or.inr (Or.inr ⟨by omega, ?_⟩))⟩
          unfold stopRejects at hst
          obtain ⟨m', hm', hbad⟩ := List.any_eq_true.1 hst
          rcases (mem_after_step c script σ t ms m').1 hm' with ⟨m, hmem, rfl⟩ | ⟨f, hf, rfl⟩
          · refine Or.inl ⟨m, hmem, ?_⟩
            unfold StopOK
            simp only [Mon.refresh] at hbad
            rw [hbad]; exact Bool.noConfusion
          · refine Or.inr ⟨t, Nat.le_refl _, Nat.le_refl _, f, hf, ?_⟩
            unfold StopOK
            simp only [newMon] at hbad
            rw [hbad]; exact Bool.noConfusion
  | succ k ih =>
    intro t ms u h
    rw [loop_succ] at h
    by_cases h1 : (ms.any fun m => R.stepReject.contains (verdictAt c σ m.f m.start t)) = true
    · rw [if_pos h1] at h
      cases h
      obtain ⟨m, hmem, hbad⟩ := List.any_eq_true.1 h1
      refine ⟨Nat.le_refl _, by omega, fun _ _ v a b => by omega, fun s a b => by omega, Or.inl ⟨m, hmem, ?_⟩⟩
      unfold StepOK; rw [hbad]; exact Bool.noConfusion
    · rw [if_neg h1] at h
      by_cases h2 : ((script t).any fun f => dr.contains (verdictAt c σ f t t)) = true
      · rw [if_pos h2] at h
        cases h
        obtain ⟨f, hmem, hbad⟩ := List.any_eq_true.1 h2
        refine ⟨Nat.le_refl _, by omega, fun _ _ v a b => by omega, fun s a b => by omega,
          Or.inr (Or.inr (Or.inl ⟨f, hmem, ?_⟩))⟩
        unfold DynOK; rw [hbad]; exact Bool.noConfusion
      · rw [if_neg h2] at h
        have h1' := List.any_eq_false.1 (by simpa using h1 : (ms.any fun m => R.stepReject.contains (verdictAt c σ m.f m.start t)) = false)
        have h2' := List.any_eq_false.1 (by simpa using h2 : ((script t).any fun f => dr.contains (verdictAt c σ f t t)) = false)
        obtain ⟨a1, a2, a3, a4, a5⟩ := ih (t + 1) _ u h
        have stepOK_t : ∀ m ∈ ms, StepOK c R σ m.f m.start t := fun m hm => by
          have := h1' m hm
          unfold StepOK
          cases hc : R.stepReject.contains (verdictAt c σ m.f m.start t) with
          | false => rfl
          | true => exact absurd hc this
        have dynOK_t : ∀ f ∈ script t, DynOK c dr σ f t := fun f hf => by
          have := h2' f hf
          unfold DynOK
          cases hc : dr.contains (verdictAt c σ f t t) with
          | false => rfl
          | true => exact absurd hc this
        refine ⟨by omega, by omega, ?_, ?_, ?_⟩
        · intro m hm v h1v h2v
          by_cases hv : v = t
          · subst hv; exact stepOK_t m hm
          · exact a3 (m.refresh c σ t) ((mem_after_step c script σ t ms _).2 (Or.inl ⟨m, hm, rfl⟩)) v (by omega) h2v
        · intro s h1s h2s f hf
          by_cases hs : s = t
          · subst hs
            refine ⟨dynOK_t f hf, fun v h1v h2v => ?_⟩
            exact a3 (newMon c σ f s) ((mem_after_step c script σ s ms _).2 (Or.inr ⟨f, hf, rfl⟩)) v (by omega) h2v
          · exact a4 s (by omega) h2s f hf
        · rcases a5 with ⟨m', hm', hbad⟩ | ⟨s, b1, b2, f, hf, hbad⟩ | ⟨f, hf, hbad⟩ | ⟨hu, hstop⟩
          · rcases (mem_after_step c script σ t ms m').1 hm' with ⟨m, hmem, rfl⟩ | ⟨f, hf, rfl⟩
            · exact Or.inl ⟨m, hmem, hbad⟩
            · exact Or.inr (Or.inl ⟨t, Nat.le_refl _, by omega, f, hf, hbad⟩)
          · exact Or.inr (Or.inl ⟨s, by omega, b2, f, hf, hbad⟩)
          · exact Or.inr (Or.inr (Or.inl ⟨f, hf, hbad⟩))
          · refine Or.inr (Or.inr (Or.inr ⟨by omega, ?_⟩))
            rcases hstop with ⟨m', hm', hbad⟩ | ⟨s, b1, b2, f, hf, hbad⟩
            · rcases (mem_after_step c script σ t ms m').1 hm' with ⟨m, hmem, rfl⟩ | ⟨f, hf, rfl⟩
              · exact Or.inl ⟨m, hmem, hbad⟩
              · exact Or.inr ⟨t, Nat.le_refl _, by omega, f, hf, hbad⟩
            · exact Or.inr ⟨s, by omega, b2, f, hf, hbad⟩

end machine

/-! ## from the machine to the per-requirement rule -/

section decomposition
variable (c : MonCfg) (R : Rule)

theorem shift_zero (σ : Trace) : shift σ 0 = σ := by
  funext t a; simp [shift]

theorem verdictAt_zero (σ : Trace) (f : F) (u : Nat) : verdictAt c σ f 0 u = evalAt c σ (u + 1) f 0 := by
  unfold verdictAt; rw [shift_zero]; rfl

/-- a requirement that is there from the start passes all checks of the `N` steps iff `run` accepts it -/
theorem passes_iff_run (f : F) (σ : Trace) (N : Nat) (hN : 0 < N) :
    Passes c R σ f 0 0 (N - 1) ↔ run c R f σ N = .accepted := by
  rw [run_accepted_iff c R f σ N hN]
  unfold Passes StepOK StopOK
  simp only [verdictAt_zero]
  have e : N - 1 + 1 = N := by omega
  rw [e]
  constructor
  · rintro ⟨h1, h2⟩
    exact ⟨fun t ht => h1 t (Nat.zero_le _) (by omega), h2⟩
  · rintro ⟨h1, h2⟩
    exact ⟨fun u _ hu => h1 u (by omega), h2⟩

theorem runRegistered_accepted_iff (dr : List Nat) (f : F) (σ : Trace) (N : Nat) (hN : 0 < N) :
    runRegistered c R dr f σ N = .accepted ↔
      dr.contains (evalAt c σ 1 f 0) = false ∧
      (∀ t, 1 ≤ t → t < N → R.stepReject.contains (evalAt c σ (t + 1) f 0) = false) ∧
      R.stopReject.contains (evalAt c σ N f 0) = false := by
  unfold runRegistered
  cases hd : dr.contains (evalAt c σ 1 f 0) with
  | true => simp
  | false =>
    simp only [Bool.false_eq_true, if_false, true_and]
    cases h : findFrom (fun t => R.stepReject.contains (evalAt c σ (t + 1) f 0)) 1 (N - 1) with
    | some t =>
      simp only
      obtain ⟨h1, h2, h3, _⟩ := findFrom_some h
      constructor
      · intro hh; cases hh
      · rintro ⟨hall, _⟩
        have := hall t h1 (by omega)
        rw [this] at h3; cases h3
    | none =>
      have hnone := findFrom_none h
      simp only
      constructor
      · intro hh
        refine ⟨fun t h1 h2 => hnone t h1 (by omega), ?_⟩
        cases hc : R.stopReject.contains (evalAt c σ N f 0) with
        | false => rfl
        | true => rw [hc] at hh; simp at hh
      · rintro ⟨_, hs⟩
        rw [hs]; simp

/-- a requirement executed by the compose block in step `s` passes the registration check and all later
    checks iff `runRegistered` accepts it on the trace from step `s` on -/
theorem passes_iff_runRegistered (dr : List Nat) (f : F) (σ : Trace) (s N : Nat) (hs : s < N) :
    (DynOK c dr σ f s ∧ Passes c R σ f s (s + 1) (N - 1)) ↔
      runRegistered c R dr f (shift σ s) (N - s) = .accepted := by
  rw [runRegistered_accepted_iff c R dr f (shift σ s) (N - s) (by omega)]
  unfold Passes StepOK StopOK DynOK verdictAt
  have e0 : s - s + 1 = 1 := by omega
  have e1 : N - 1 - s + 1 = N - s := by omega
  rw [e0, e1]
  constructor
  · rintro ⟨h0, h1, h2⟩
    refine ⟨h0, fun t ht1 ht2 => ?_, h2⟩
    have := h1 (s + t) (by omega) (by omega)
    have e : s + t - s + 1 = t + 1 := by omega
    rw [e] at this; exact this
  · rintro ⟨h0, h1, h2⟩
    refine ⟨h0, fun u hu1 hu2 => ?_, h2⟩
    have := h1 (u - s) (by omega) (by omega)
    exact this

/-- **simulate_accepted_iff**: the scenario with its growing monitor list is accepted exactly when each of its
    requirements is accepted on its own — those registered before the start by `run` on the whole trace, a
    `require` executed by the compose block in step `s` by `runRegistered` on the trace from step `s` on -/
theorem simulate_accepted_iff (dr : List Nat) (hd : R.dynReject = some dr) (init : List F) (script : Nat → List F)
    (σ : Trace) (N : Nat) (hN : 0 < N) :
    simulate c R init script σ N = .accepted ↔
      (∀ f ∈ init, run c R f σ N = .accepted) ∧
      (∀ s, s < N → ∀ f ∈ script s, runRegistered c R dr f (shift σ s) (N - s) = .accepted) := by
  unfold simulate
  simp only [hd]
  obtain ⟨k, rfl⟩ : ∃ k, N = k + 1 := ⟨N - 1, by omega⟩
  rw [loop_accepted_iff]
  simp only [Nat.zero_add, List.mem_map, forall_exists_index, and_imp, forall_apply_eq_imp_iff₂]
  constructor
  · rintro ⟨h1, h2⟩
    refine ⟨fun f hf => ?_, fun s hs f hf => ?_⟩
    · exact (passes_iff_run c R f σ (k + 1) (by omega)).1 (by simpa using h1 f hf)
    · exact (passes_iff_runRegistered c R dr f σ s (k + 1) hs).1 (by simpa using h2 s (Nat.zero_le _) (by omega) f hf)
  · rintro ⟨h1, h2⟩
    refine ⟨fun f hf => ?_, fun s _ hs f hf => ?_⟩
    · simpa using (passes_iff_run c R f σ (k + 1) (by omega)).2 (h1 f hf)
    · simpa using (passes_iff_runRegistered c R dr f σ s (k + 1) (by omega)).2 (h2 s (by omega) f hf)

/-- **simulate_rejected_culprit** (canonical rule): a rejection in step `u` is caused by one requirement — in
    force since step `start ≤ u` — whose own verdict in step `u` is FALSE, or, after the last step, falsy -/
theorem simulate_rejected_culprit (hR : R.Canonical) (hd : R.dynReject = some R.stepReject) (init : List F)
    (script : Nat → List F) (σ : Trace) (N u : Nat) (hN : 0 < N)
    (h : simulate c R init script σ N = .rejectedAt u) :
    u < N ∧ ∃ (f : F) (start : Nat), ((f ∈ init ∧ start = 0) ∨ f ∈ script start) ∧ start ≤ u ∧
      (verdictAt c σ f start u = 1 ∨ (u = N - 1 ∧ truthy (verdictAt c σ f start u) = false)) := by
  obtain ⟨hs, hp, _⟩ := hR
  unfold simulate at h
  simp only [hd] at h
  obtain ⟨k, rfl⟩ : ∃ k, N = k + 1 := ⟨N - 1, by omega⟩
  obtain ⟨_, a2, _, _, a5⟩ := loop_rejected c R R.stepReject script σ k 0 _ u h
  refine ⟨by omega, ?_⟩
  have stepBad : ∀ f start, ¬ StepOK c R σ f start u → verdictAt c σ f start u = 1 := by
    intro f start hb
    unfold StepOK at hb
    rw [hs, contains_one] at hb
    simpa using hb
  have stopBad : ∀ f start, ¬ StopOK c R σ f start u → truthy (verdictAt c σ f start u) = false := by
    intro f start hb
    unfold StopOK at hb
    have hr : 1 ≤ verdictAt c σ f start u := (evalAt_range c _ _ f 0).1
    rw [hp, contains_one_two _ hr] at hb
    simpa using hb
  rcases a5 with ⟨m, hm, hbad⟩ | ⟨s, _, b2, f, hf, hbad⟩ | ⟨f, hf, hbad⟩ | ⟨hu, hstop⟩
  · obtain ⟨f, hf, rfl⟩ := List.mem_map.1 hm
    exact ⟨f, 0, Or.inl ⟨hf, rfl⟩, Nat.zero_le _, Or.inl (stepBad f 0 hbad)⟩
  · exact ⟨f, s, Or.inr hf, by omega, Or.inl (stepBad f s hbad)⟩
  · refine ⟨f, u, Or.inr hf, Nat.le_refl _, Or.inl ?_⟩
    unfold DynOK at hbad
    rw [hs, contains_one] at hbad
    simpa using hbad
  · rcases hstop with ⟨m, hm, hbad⟩ | ⟨s, _, b2, f, hf, hbad⟩
    · obtain ⟨f, hf, rfl⟩ := List.mem_map.1 hm
      exact ⟨f, 0, Or.inl ⟨hf, rfl⟩, Nat.zero_le _, Or.inr ⟨by omega, stopBad f 0 hbad⟩⟩
    · exact ⟨f, s, Or.inr hf, b2, Or.inr ⟨by omega, stopBad f s hbad⟩⟩

/-- agreement on the first `n` steps carries over to the shifted traces -/
theorem Agree.shift {σ σ' : Trace} {n : Nat} (h : Agree σ σ' n) (d : Nat) : Agree (shift σ d) (shift σ' d) (n - d) := by
  intro t ht
  funext a
  have := h (t + d) (by omega)
  simp only [LTL.shift]
  rw [this]

/-- **scenario_accept_iff** (canonical rule, every formula in the fragment): the scenario is accepted exactly when
    each requirement's own trace — from the step it takes effect to the end of the scenario — satisfies it -/
theorem scenario_accept_iff (hR : R.Canonical) (hD : R.RuntimeCanonical) (init : List F) (script : Nat → List F)
    (hi : ∀ f ∈ init, f.okZero c true = true) (hs : ∀ s, ∀ f ∈ script s, f.okZero c true = true)
    (σ : Trace) (N : Nat) (hN : 0 < N) :
    simulate c R init script σ N = .accepted ↔
      (∀ f ∈ init, sat σ N f 0 = true) ∧
      (∀ s, s < N → ∀ f ∈ script s, sat (shift σ s) (N - s) f 0 = true) := by
  rw [simulate_accepted_iff c R R.stepReject hD.1 init script σ N hN]
  constructor
  · rintro ⟨h1, h2⟩
    refine ⟨fun f hf => ?_, fun s hsN f hf => ?_⟩
    · exact (accept_iff c R hR f (okZero_mono c f (hi f hf)) (hi f hf) σ N hN).1 (h1 f hf)
    · have := h2 s hsN f hf
      rw [runRegistered_eq_run c R f (shift σ s) (N - s) (by omega)] at this
      exact (accept_iff c R hR f (okZero_mono c f (hs s f hf)) (hs s f hf) (shift σ s) (N - s) (by omega)).1 this
  · rintro ⟨h1, h2⟩
    refine ⟨fun f hf => ?_, fun s hsN f hf => ?_⟩
    · exact (accept_iff c R hR f (okZero_mono c f (hi f hf)) (hi f hf) σ N hN).2 (h1 f hf)
    · rw [runRegistered_eq_run c R f (shift σ s) (N - s) (by omega)]
      exact (accept_iff c R hR f (okZero_mono c f (hs s f hf)) (hs s f hf) (shift σ s) (N - s) (by omega)).2 (h2 s hsN f hf)

/-- **scenario_early_reject_hopeless**: a scenario rejected before its last step has a requirement that no
    continuation of the steps seen so far could satisfy -/
theorem scenario_early_reject_hopeless (hR : R.Canonical) (hD : R.RuntimeCanonical) (init : List F)
    (script : Nat → List F) (hi : ∀ f ∈ init, f.okZero c true = true)
    (hs : ∀ s, ∀ f ∈ script s, f.okZero c true = true) (σ : Trace) (N u : Nat) (hN : 0 < N)
    (h : simulate c R init script σ N = .rejectedAt u) (hu : u + 1 < N) :
    ∃ (f : F) (start : Nat), ((f ∈ init ∧ start = 0) ∨ f ∈ script start) ∧ start ≤ u ∧
      ∀ (σ' : Trace) (m : Nat), Agree σ σ' (u + 1) → u + 1 - start ≤ m → sat (shift σ' start) m f 0 = false := by
  obtain ⟨_, f, start, hreg, hle, hv⟩ := simulate_rejected_culprit c R hR hD.1 init script σ N u hN h
  refine ⟨f, start, hreg, hle, fun σ' m hag hm => ?_⟩
  have hfrag : f.okZero c true = true := by
    rcases hreg with ⟨hf, _⟩ | hf
    · exact hi f hf
    · exact hs start f hf
  rcases hv with hv | ⟨hlast, _⟩
  · unfold verdictAt at hv
    have hag' : Agree (shift σ start) (shift σ' start) (u - start + 1) := by
      have := Agree.shift hag start
      have e : u + 1 - start = u - start + 1 := by omega
      rw [e] at this; exact this
    exact false_is_final c (shift σ start) (shift σ' start) (u - start + 1) m f hfrag (by omega) hag' (by omega) hv
  · omega

end decomposition

end Scenic.LTL
