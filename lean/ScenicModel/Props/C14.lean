/-! # C14 — property theorems (stub: filled in when the property's model is built) -/
namespace Scenic.C14
end Scenic.C14
