import ScenicModel.Props.C14Base
import ScenicModel.Props.C14SideOrder
import ScenicModel.Props.C14SideAgents
import ScenicModel.Props.C14SideStale
import ScenicModel.Props.C14SideGlobals
import ScenicModel.Props.C14SideSuspended
import ScenicModel.Props.C14SideDestroy
import ScenicModel.Props.C14Destroy

/-!
# C14 — simulations leave scenes, scenarios and global state untouched, even on failure

Root module of the property.  The general theorems (parametric in the configuration / tables) are in
`C14Overrides`, `C14Stale`, `C14Revert`, `C14Nested`, `C14Globals`, `C14Destroy`, their negation witnesses in
`C14Witness` / `C14Globals` / `C14Destroy`; the side conditions on the data regenerated from /repo, and the
closed `…_current` theorems they yield, are in `C14Base` and
`C14Side{Order,Agents,Stale,Globals,Suspended,Destroy}`.
Since the repairs 84308c42, 4fbf0f54, f1944ee0, 0e4a55a4 and fc314756 (the rest of the `finally` block is protected
against a `destroy()` that raises) all of these side conditions hold of the source; this module adds the statements
that put them together.
-/
namespace Scenic.C14
open Scenic.Overrides Scenic.Veneer Scenic.Gen

/-- **C14 for one simulation of the current source, however it ends** (any event sequence cut off anywhere,
    `Simulation.setup` reached or not): the scene's objects are untouched, no object is proxied, every property
    of every object reads as before, `veneer.endSimulation` was reached, and the shared top-level scenario
    remembers no override. -/
theorem sim_leaves_no_trace_current (w : World) (hw : NoneProxied w) (agentsSet : Bool) (evs : List Ev)
    (hs : scopedEvs [] evs = true) (hd : topDiscipline false evs = true) :
    (runSim simCfg w [] agentsSet evs).w.orig = w.orig ∧
    NoneProxied (runSim simCfg w [] agentsSet evs).w ∧
    (∀ o p, (runSim simCfg w [] agentsSet evs).w.read o p = w.read o p) ∧
    (runSim simCfg w [] agentsSet evs).ended = true ∧
    (runSim simCfg w [] agentsSet evs).stale = [] := by
  have hab : (agentsSet || simCfg.agentsEarly) = true := by simp [gen_agents_initialised]
  exact ⟨sim_scene_untouched_current w agentsSet evs hs,
    sim_proxies_disabled_current w [] agentsSet evs hw,
    fun o p => sim_reads_unchanged simCfg w agentsSet evs hw hab gen_cleanup_steps_present.1
      gen_reverts_before_disable hs o p,
    sim_always_ends_current w [] agentsSet evs,
    sim_forgets_overrides simCfg w agentsSet evs gen_stop_clears_overrides hab gen_cleanup_steps_present.2.1 hd⟩

example : scopedEvs [] failingRun = true ∧ topDiscipline false failingRun = true := by decide

/-- … and after it the veneer globals are those of a fresh process, whenever abandoned generators are finalised -/
theorem sim_and_compile_restore_globals_current (ops : List Op) (late : List Nat) (n : String) :
    session simTables ops late n = simTables.init n ∧ session compileTables ops late n = compileTables.init n :=
  ⟨sim_restores_globals_current ops late n, compile_restores_globals_current ops late n⟩

/-- a `destroy()` that raises still cannot make a simulation of the current source write to the scene's objects -/
theorem sim_scene_untouched_destroy_current (w : World) (agentsSet destroyFails : Bool) (evs : List Ev)
    (hs : scopedEvs [] evs = true) : (runSimD simCfg w [] agentsSet destroyFails evs).w.orig = w.orig :=
  sim_scene_untouched_destroy simCfg w agentsSet destroyFails evs gen_reverts_before_disable hs

end Scenic.C14
