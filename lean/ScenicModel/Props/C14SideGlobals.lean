import ScenicModel.Props.C14Base
/-! C14 side condition (finding `global-leak:inInitialScenario` while it fails):
    every veneer global assigned by an opener or a plain function is reset by the closer. -/
namespace Scenic.C14
open Scenic.Veneer Scenic.Gen

theorem gen_sim_writes_reset : wfWrites simTables = true := by decide
theorem gen_compile_writes_reset : wfWrites compileTables = true := by decide

theorem gen_sim_tables_wf : wf simTables = true := by
  simp [wf, gen_closers_and_cms_wf.1, gen_closers_and_cms_wf.2.1, gen_sim_writes_reset]

theorem gen_compile_tables_wf : wf compileTables = true := by
  simp [wf, gen_closers_and_cms_wf.2.2.1, gen_closers_and_cms_wf.2.2.2, gen_compile_writes_reset]

end Scenic.C14
