import ScenicModel.Lemmas.LTL
/-!
# C11 — theorems about the monitor and Scenic's acceptance rule (for every monitor configuration and rule)

`Props/C11.lean` instantiates them on the configuration / rule regenerated from the sources.

Fragments (see `Model/LTL.lean`): `okZero c false` — the final verdict is exact; `okZero c true` — in
addition a definite verdict is final.  With `c.untilShift = false` (textbook `until`) `okZero c false` holds of
**every** formula; with the installed rv_ltl (`untilShift = true`) an `until` below a temporal operator is
outside the fragment, and the full statements are false there (witnesses at the end of this file).
-/
namespace Scenic.LTL

/-! ## Boolean connectives have their ordinary meaning (any sub-formulas, any index) -/

theorem tr_not (v : Nat) : truthy (5 - v) = !truthy v := by
  unfold truthy; by_cases h : 3 ≤ v <;> simp [h] <;> omega
theorem tr_min (v w : Nat) : truthy (min v w) = (truthy v && truthy w) := by
  unfold truthy; by_cases h : 3 ≤ v <;> by_cases h' : 3 ≤ w <;> simp [h, h'] <;> omega
theorem tr_max (v w : Nat) : truthy (max v w) = (truthy v || truthy w) := by
  unfold truthy; by_cases h : 3 ≤ v <;> by_cases h' : 3 ≤ w <;> simp [h, h'] <;> omega

theorem truthy_not (c : MonCfg) (σ : Trace) (n : Nat) (f : F) (i : Nat) :
    truthy (evalAt c σ n (.not f) i) = !truthy (evalAt c σ n f i) := by
  simp only [evalAt]; exact tr_not _

theorem truthy_and (c : MonCfg) (σ : Trace) (n : Nat) (a b : F) (i : Nat) :
    truthy (evalAt c σ n (.and a b) i) = (truthy (evalAt c σ n a i) && truthy (evalAt c σ n b i)) := by
  simp only [evalAt]; exact tr_min _ _

theorem truthy_or (c : MonCfg) (σ : Trace) (n : Nat) (a b : F) (i : Nat) :
    truthy (evalAt c σ n (.or a b) i) = (truthy (evalAt c σ n a i) || truthy (evalAt c σ n b i)) := by
  simp only [evalAt]; exact tr_max _ _

theorem truthy_implies (c : MonCfg) (σ : Trace) (n : Nat) (a b : F) (i : Nat) :
    truthy (evalAt c σ n (.implies a b) i) = (!truthy (evalAt c σ n a i) || truthy (evalAt c σ n b i)) := by
  simp only [evalAt]; rw [tr_max, tr_not]

/-- n-ary `and` (`rv_ltl.And(*ops)`): truthy iff every operand is -/
theorem truthy_andL (c : MonCfg) (σ : Trace) (n : Nat) (i : Nat) (fs : List F) :
    truthy (evalAt c σ n (F.andL fs) i) = fs.all fun f => truthy (evalAt c σ n f i) := by
  have gen : ∀ (fs : List F) (acc : F),
      truthy (evalAt c σ n (fs.foldl F.and acc) i)
        = (truthy (evalAt c σ n acc i) && fs.all fun f => truthy (evalAt c σ n f i)) := by
    intro fs
    induction fs with
    | nil => intro acc; simp
    | cons f fs ih => intro acc; simp only [List.foldl_cons, List.all_cons]; rw [ih, truthy_and, Bool.and_assoc]
  unfold F.andL
  rw [gen]
  simp [evalAt, truthy]

/-- n-ary `or` (`rv_ltl.Or(*ops)`): truthy iff some operand is -/
theorem truthy_orL (c : MonCfg) (σ : Trace) (n : Nat) (i : Nat) (fs : List F) :
    truthy (evalAt c σ n (F.orL fs) i) = fs.any fun f => truthy (evalAt c σ n f i) := by
  have gen : ∀ (fs : List F) (acc : F),
      truthy (evalAt c σ n (fs.foldl F.or acc) i)
        = (truthy (evalAt c σ n acc i) || fs.any fun f => truthy (evalAt c σ n f i)) := by
    intro fs
    induction fs with
    | nil => intro acc; simp
    | cons f fs ih => intro acc; simp only [List.foldl_cons, List.any_cons]; rw [ih, truthy_or, Bool.or_assoc]
  unfold F.orL
  rw [gen]
  simp [evalAt, truthy]

/-! ## non-temporal sub-formulas are evaluated in the current step only -/

theorem evalAt_prop (c : MonCfg) (σ : Trace) (n : Nat) : ∀ (f : F), f.prop = true → ∀ i,
    evalAt c σ n f i = b4 (f.pval (σ i))
  | .atom a, _, i => by simp [evalAt, F.pval]
  | .tt, _, _ => by simp [evalAt, F.pval, b4]
  | .ff, _, _ => by simp [evalAt, F.pval, b4]
  | .not f, h, i => by
    simp only [F.prop] at h
    simp only [evalAt, F.pval, evalAt_prop c σ n f h i]
    cases f.pval (σ i) <;> simp [b4]
  | .and a b, h, i => by
    simp only [F.prop, Bool.and_eq_true] at h
    simp only [evalAt, F.pval, evalAt_prop c σ n a h.1 i, evalAt_prop c σ n b h.2 i]
    cases a.pval (σ i) <;> cases b.pval (σ i) <;> simp [b4]
  | .or a b, h, i => by
    simp only [F.prop, Bool.and_eq_true] at h
    simp only [evalAt, F.pval, evalAt_prop c σ n a h.1 i, evalAt_prop c σ n b h.2 i]
    cases a.pval (σ i) <;> cases b.pval (σ i) <;> simp [b4]
  | .implies a b, h, i => by
    simp only [F.prop, Bool.and_eq_true] at h
    simp only [evalAt, F.pval, evalAt_prop c σ n a h.1 i, evalAt_prop c σ n b h.2 i]
    cases a.pval (σ i) <;> cases b.pval (σ i) <;> simp [b4]
  | .next _, h, _ => by simp [F.prop] at h
  | .until _ _, h, _ => by simp [F.prop] at h
  | .eventually _, h, _ => by simp [F.prop] at h
  | .always _, h, _ => by simp [F.prop] at h

theorem sat_prop (σ : Trace) (n : Nat) : ∀ (f : F), f.prop = true → ∀ i, sat σ n f i = f.pval (σ i)
  | .atom a, _, i => by simp [sat, F.pval]
  | .tt, _, _ => by simp [sat, F.pval]
  | .ff, _, _ => by simp [sat, F.pval]
  | .not f, h, i => by simp only [F.prop] at h; simp [sat, F.pval, sat_prop σ n f h i]
  | .and a b, h, i => by
    simp only [F.prop, Bool.and_eq_true] at h; simp [sat, F.pval, sat_prop σ n a h.1 i, sat_prop σ n b h.2 i]
  | .or a b, h, i => by
    simp only [F.prop, Bool.and_eq_true] at h; simp [sat, F.pval, sat_prop σ n a h.1 i, sat_prop σ n b h.2 i]
  | .implies a b, h, i => by
    simp only [F.prop, Bool.and_eq_true] at h; simp [sat, F.pval, sat_prop σ n a h.1 i, sat_prop σ n b h.2 i]
  | .next _, h, _ => by simp [F.prop] at h
  | .until _ _, h, _ => by simp [F.prop] at h
  | .eventually _, h, _ => by simp [F.prop] at h
  | .always _, h, _ => by simp [F.prop] at h

/-- a non-temporal requirement depends on the current step only: not on the length of the run, not on
    any other step -/
theorem prop_current_step_only (c : MonCfg) (σ σ' : Trace) (n n' : Nat) (f : F) (hf : f.prop = true) (i : Nat)
    (h : σ i = σ' i) : evalAt c σ n f i = evalAt c σ' n' f i := by
  rw [evalAt_prop c σ n f hf, evalAt_prop c σ' n' f hf, h]

/-! ## `until` / `eventually` scans -/

theorem window {n i : Nat} (h : i < n) : i + (n - 1 + 1 - i) = n := by omega

/-- the scan bound is the found index itself at index 0, or everywhere with the textbook bound -/
theorem hi_exact (c : MonCfg) (i k n : Nat) (h : i = 0 ∨ c.untilShift = false) (hk : k < n) :
    c.hi i k (n - 1) = k := by
  unfold MonCfg.hi
  rcases h with h | h
  · subst h; split <;> omega
  · simp [h]

theorem untilVal_truthy_iff {c : MonCfg} {l r : Nat → Nat} {n i : Nat} (hn : i < n)
    (hhi : ∀ k, i ≤ k → k < n → c.hi i k (n - 1) = k) :
    3 ≤ untilVal c l r n i ↔ ∃ k, i ≤ k ∧ k < n ∧ 3 ≤ r k ∧ ∀ j, i ≤ j → j < k → 3 ≤ l j := by
  unfold untilVal
  cases h : findFrom (fun k => truthy (r k)) i (n - 1 + 1 - i) with
  | none =>
    simp only
    constructor
    · intro h3; omega
    · rintro ⟨k, h1, h2, h3, _⟩
      have := findFrom_none h k h1 (by rw [window hn]; exact h2)
      simp [truthy] at this
      omega
  | some k =>
    simp only
    obtain ⟨h1, h2, h3, h4⟩ := findFrom_some h
    rw [window hn] at h2
    rw [hhi k h1 h2, le_minRange_iff]
    simp only [truthy, decide_eq_true_eq] at h3
    constructor
    · rintro ⟨_, hl⟩
      exact ⟨k, h1, h2, h3, hl⟩
    · rintro ⟨k', a, b, hr, hl⟩
      refine ⟨h3, fun j hj1 hj2 => hl j hj1 ?_⟩
      by_cases hk : k ≤ k'
      · omega
      · have := h4 k' a (by omega)
        simp [truthy] at this
        omega

/-- with the constant-true left operand the scan returns the right operand's verdict at the first hit -/
theorem untilVal_ev {c : MonCfg} {r : Nat → Nat} {n i : Nat} (hr : ∀ k, r k ≤ 4) :
    untilVal c (fun _ => 4) r n i =
      match findFrom (fun k => truthy (r k)) i (n - 1 + 1 - i) with
      | none => 2
      | some k => r k := by
  unfold untilVal
  cases findFrom (fun k => truthy (r k)) i (n - 1 + 1 - i) with
  | none => rfl
  | some k => exact minRange_const4 (hr k)

theorem ev_truthy_iff {c : MonCfg} {r : Nat → Nat} {n i : Nat} (hn : i < n) (hr : ∀ k, r k ≤ 4) :
    3 ≤ untilVal c (fun _ => 4) r n i ↔ ∃ k, i ≤ k ∧ k < n ∧ 3 ≤ r k := by
  rw [untilVal_ev hr]
  cases h : findFrom (fun k => truthy (r k)) i (n - 1 + 1 - i) with
  | none =>
    simp only
    constructor
    · intro h3; omega
    · rintro ⟨k, h1, h2, h3⟩
      have := findFrom_none h k h1 (by rw [window hn]; exact h2)
      simp [truthy] at this
      omega
  | some k =>
    simp only
    obtain ⟨h1, h2, h3, _⟩ := findFrom_some h
    rw [window hn] at h2
    simp only [truthy, decide_eq_true_eq] at h3
    exact ⟨fun _ => ⟨k, h1, h2, h3⟩, fun _ => h3⟩

/-- `eventually`'s scan never says FALSE, and says TRUE only on a TRUE operand verdict inside the window -/
theorem ev_cases {c : MonCfg} {r : Nat → Nat} {n i : Nat} (hn : i < n) (hr : ∀ k, r k ≤ 4) :
    untilVal c (fun _ => 4) r n i = 2 ∨
      ∃ k, i ≤ k ∧ k < n ∧ 3 ≤ r k ∧ untilVal c (fun _ => 4) r n i = r k := by
  rw [untilVal_ev hr]
  cases h : findFrom (fun k => truthy (r k)) i (n - 1 + 1 - i) with
  | none => exact Or.inl rfl
  | some k =>
    obtain ⟨h1, h2, h3, _⟩ := findFrom_some h
    rw [window hn] at h2
    simp only [truthy, decide_eq_true_eq] at h3
    exact Or.inr ⟨k, h1, h2, h3, rfl⟩

/-! ## (A) the final verdict is exact: truthy ⇔ the trace satisfies the formula -/

section exact
variable (c : MonCfg) (σ : Trace) (n : Nat)

theorem until_exact (a b : F) (i : Nat) (hn : i < n) (hhi : ∀ k, i ≤ k → k < n → c.hi i k (n - 1) = k)
    (iha : ∀ j, j < n → (3 ≤ evalAt c σ n a j ↔ sat σ n a j = true))
    (ihb : ∀ k, k < n → (3 ≤ evalAt c σ n b k ↔ sat σ n b k = true)) :
    3 ≤ evalAt c σ n (.until a b) i ↔ sat σ n (.until a b) i = true := by
  simp only [evalAt, sat]
  rw [untilVal_truthy_iff hn hhi, anyRange_iff]
  constructor
  · rintro ⟨k, h1, h2, hr, hl⟩
    refine ⟨k, h1, h2, ?_⟩
    rw [Bool.and_eq_true, allRange_iff]
    exact ⟨(ihb k h2).1 hr, fun j a1 a2 => (iha j (by omega)).1 (hl j a1 a2)⟩
  · rintro ⟨k, h1, h2, hs⟩
    rw [Bool.and_eq_true, allRange_iff] at hs
    exact ⟨k, h1, h2, (ihb k h2).2 hs.1, fun j a1 a2 => (iha j (by omega)).2 (hs.2 j a1 a2)⟩

theorem eventually_exact (f : F) (i : Nat) (hn : i < n)
    (ih : ∀ k, k < n → (3 ≤ evalAt c σ n f k ↔ sat σ n f k = true)) :
    3 ≤ evalAt c σ n (.eventually f) i ↔ sat σ n (.eventually f) i = true := by
  simp only [evalAt, sat]
  rw [ev_truthy_iff hn (fun k => (evalAt_range c σ n f k).2), anyRange_iff]
  constructor
  · rintro ⟨k, h1, h2, h3⟩; exact ⟨k, h1, h2, (ih k h2).1 h3⟩
  · rintro ⟨k, h1, h2, h3⟩; exact ⟨k, h1, h2, (ih k h2).2 h3⟩

theorem always_exact (f : F) (i : Nat) (hn : i < n)
    (ih : ∀ k, k < n → (3 ≤ evalAt c σ n f k ↔ sat σ n f k = true)) :
    3 ≤ evalAt c σ n (.always f) i ↔ sat σ n (.always f) i = true := by
  simp only [evalAt, sat]
  have hr : ∀ k, 5 - evalAt c σ n f k ≤ 4 := fun k => by have := evalAt_range c σ n f k; omega
  have key := ev_truthy_iff (c := c) (r := fun k => 5 - evalAt c σ n f k) hn hr
  rw [allRange_iff]
  constructor
  · intro h k h1 h2
    apply (ih k h2).1
    apply Classical.byContradiction
    intro hk
    have : 3 ≤ untilVal c (fun _ => 4) (fun k => 5 - evalAt c σ n f k) n i :=
      key.2 ⟨k, h1, h2, by omega⟩
    omega
  · intro h
    have : ¬ 3 ≤ untilVal c (fun _ => 4) (fun k => 5 - evalAt c σ n f k) n i := by
      intro h3
      obtain ⟨k, h1, h2, hk⟩ := key.1 h3
      have := (ih k h2).2 (h k h1 h2)
      omega
    omega

/-- exact at every index -/
theorem verdict_iff_sat_all : ∀ (f : F), f.okAll c false = true → ∀ i, i < n →
    (3 ≤ evalAt c σ n f i ↔ sat σ n f i = true)
  | .atom a, _, i, _ => by cases h : σ i a <;> simp [evalAt, sat, b4, h]
  | .tt, _, _, _ => by simp [evalAt, sat]
  | .ff, _, _, _ => by simp [evalAt, sat]
  | .not f, h, i, hi => by
    simp only [F.okAll] at h
    have ih := verdict_iff_sat_all f h i hi
    simp only [evalAt, sat]
    cases hs : sat σ n f i <;> simp [hs] at ih ⊢ <;> omega
  | .and a b, h, i, hi => by
    simp only [F.okAll, Bool.and_eq_true] at h
    have iha := verdict_iff_sat_all a h.1 i hi
    have ihb := verdict_iff_sat_all b h.2 i hi
    simp only [evalAt, sat, Bool.and_eq_true]
    rw [← iha, ← ihb]; omega
  | .or a b, h, i, hi => by
    simp only [F.okAll, Bool.and_eq_true] at h
    have iha := verdict_iff_sat_all a h.1 i hi
    have ihb := verdict_iff_sat_all b h.2 i hi
    simp only [evalAt, sat, Bool.or_eq_true]
    rw [← iha, ← ihb]; omega
  | .implies a b, h, i, hi => by
    simp only [F.okAll, Bool.and_eq_true] at h
    have iha := verdict_iff_sat_all a h.1 i hi
    have ihb := verdict_iff_sat_all b h.2 i hi
    simp only [evalAt, sat, Bool.or_eq_true, Bool.not_eq_true']
    rw [← ihb]
    cases hs : sat σ n a i <;> simp [hs] at iha ⊢ <;> omega
  | .next f, h, i, hi => by
    simp only [F.okAll] at h
    simp only [evalAt, sat, Bool.and_eq_true, decide_eq_true_eq]
    by_cases hl : i + 1 > n - 1
    · simp only [hl, if_true]; omega
    · simp only [hl, if_false]
      have ih := verdict_iff_sat_all f h (i + 1) (by omega)
      rw [ih]
      constructor
      · intro hs; exact ⟨by omega, hs⟩
      · intro hs; exact hs.2
  | .until a b, h, i, hi => by
    simp only [F.okAll, Bool.and_eq_true, Bool.not_eq_true', Bool.or_eq_true] at h
    exact until_exact c σ n a b i hi (fun k _ hk => hi_exact c i k n (Or.inr h.1.1.1) hk)
      (fun j hj => verdict_iff_sat_all a h.1.1.2 j hj) (fun k hk => verdict_iff_sat_all b h.1.2 k hk)
  | .eventually f, h, i, hi => by
    simp only [F.okAll] at h
    exact eventually_exact c σ n f i hi (fun k hk => verdict_iff_sat_all f h k hk)
  | .always f, h, i, hi => by
    simp only [F.okAll] at h
    exact always_exact c σ n f i hi (fun k hk => verdict_iff_sat_all f h k hk)

/-- **verdict_sound_complete** (at index 0, where Scenic reads the verdict): on the fragment `okZero`,
    the verdict after `n ≥ 1` steps is truthy exactly when the `n`-step trace satisfies the formula. -/
theorem verdict_iff_sat_zero (hn : 0 < n) : ∀ (f : F), f.okZero c false = true →
    (3 ≤ evalAt c σ n f 0 ↔ sat σ n f 0 = true)
  | .atom a, h => verdict_iff_sat_all c σ n _ (by simpa [F.okZero] using h) 0 hn
  | .tt, h => verdict_iff_sat_all c σ n _ (by simpa [F.okZero] using h) 0 hn
  | .ff, h => verdict_iff_sat_all c σ n _ (by simpa [F.okZero] using h) 0 hn
  | .next f, h => verdict_iff_sat_all c σ n _ (by simpa [F.okZero] using h) 0 hn
  | .eventually f, h => verdict_iff_sat_all c σ n _ (by simpa [F.okZero] using h) 0 hn
  | .always f, h => verdict_iff_sat_all c σ n _ (by simpa [F.okZero] using h) 0 hn
  | .not f, h => by
    simp only [F.okZero] at h
    have ih := verdict_iff_sat_zero hn f h
    simp only [evalAt, sat]
    cases hs : sat σ n f 0 <;> simp [hs] at ih ⊢ <;> omega
  | .and a b, h => by
    simp only [F.okZero, Bool.and_eq_true] at h
    have iha := verdict_iff_sat_zero hn a h.1
    have ihb := verdict_iff_sat_zero hn b h.2
    simp only [evalAt, sat, Bool.and_eq_true]
    rw [← iha, ← ihb]; omega
  | .or a b, h => by
    simp only [F.okZero, Bool.and_eq_true] at h
    have iha := verdict_iff_sat_zero hn a h.1
    have ihb := verdict_iff_sat_zero hn b h.2
    simp only [evalAt, sat, Bool.or_eq_true]
    rw [← iha, ← ihb]; omega
  | .implies a b, h => by
    simp only [F.okZero, Bool.and_eq_true] at h
    have iha := verdict_iff_sat_zero hn a h.1
    have ihb := verdict_iff_sat_zero hn b h.2
    simp only [evalAt, sat, Bool.or_eq_true, Bool.not_eq_true']
    rw [← ihb]
    cases hs : sat σ n a 0 <;> simp [hs] at iha ⊢ <;> omega
  | .until a b, h => by
    simp only [F.okZero, Bool.and_eq_true] at h
    exact until_exact c σ n a b 0 hn (fun k _ hk => hi_exact c 0 k n (Or.inl rfl) hk)
      (fun j hj => verdict_iff_sat_all c σ n a h.1.1 j hj) (fun k hk => verdict_iff_sat_all c σ n b h.1.2 k hk)

end exact

/-- with the textbook scan bound every formula is in the fragment -/
theorem okAll_of_noShift (c : MonCfg) (hc : c.untilShift = false) : ∀ f : F, f.okAll c false = true
  | .atom _ | .tt | .ff => rfl
  | .not f | .next f | .eventually f | .always f => by simpa [F.okAll] using okAll_of_noShift c hc f
  | .and a b | .or a b | .implies a b => by
    simp [F.okAll, okAll_of_noShift c hc a, okAll_of_noShift c hc b]
  | .until a b => by simp [F.okAll, hc, okAll_of_noShift c hc a, okAll_of_noShift c hc b]

theorem okZero_of_okAll (c : MonCfg) (crisp : Bool) : ∀ f : F, f.okAll c crisp = true → f.okZero c crisp = true
  | .atom _, h | .tt, h | .ff, h | .next _, h | .eventually _, h | .always _, h => by simpa [F.okZero] using h
  | .not f, h => by simp only [F.okAll] at h; simpa [F.okZero] using okZero_of_okAll c crisp f h
  | .and a b, h | .or a b, h | .implies a b, h => by
    simp only [F.okAll, Bool.and_eq_true] at h
    simp [F.okZero, okZero_of_okAll c crisp a h.1, okZero_of_okAll c crisp b h.2]
  | .until a b, h => by
    simp only [F.okAll, Bool.and_eq_true] at h
    simp [F.okZero, h.1.1.2, h.1.2, h.2]

/-- the fragment for finality is contained in the fragment for exactness -/
theorem okAll_mono (c : MonCfg) : ∀ f : F, f.okAll c true = true → f.okAll c false = true
  | .atom _, _ | .tt, _ | .ff, _ => rfl
  | .not f, h | .next f, h | .eventually f, h | .always f, h => by
    simp only [F.okAll] at h ⊢; exact okAll_mono c f h
  | .and a b, h | .or a b, h | .implies a b, h => by
    simp only [F.okAll, Bool.and_eq_true] at h ⊢
    exact ⟨okAll_mono c a h.1, okAll_mono c b h.2⟩
  | .until a b, h => by
    simp only [F.okAll, Bool.and_eq_true] at h
    simp [F.okAll, h.1.1.1, okAll_mono c a h.1.1.2, okAll_mono c b h.1.2]

theorem okZero_mono (c : MonCfg) : ∀ f : F, f.okZero c true = true → f.okZero c false = true
  | .atom _, h | .tt, h | .ff, h | .next _, h | .eventually _, h | .always _, h => by
    simp only [F.okZero] at h ⊢; exact okAll_mono c _ h
  | .not f, h => by simp only [F.okZero] at h ⊢; exact okZero_mono c f h
  | .and a b, h | .or a b, h | .implies a b, h => by
    simp only [F.okZero, Bool.and_eq_true] at h ⊢
    exact ⟨okZero_mono c a h.1, okZero_mono c b h.2⟩
  | .until a b, h => by
    simp only [F.okZero, Bool.and_eq_true] at h
    simp [F.okZero, okAll_mono c a h.1.1, okAll_mono c b h.1.2]

end Scenic.LTL
