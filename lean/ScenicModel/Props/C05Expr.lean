import ScenicModel.Lemmas.Expr

/-!
# C05 (part 1): the expression forest samples to what plain Python computes

`build T e` is what Scenic's compile-time evaluation of the expression `e` constructs (OperatorDistribution /
AttributeDistribution / FunctionDistribution / TupleDistribution / VectorOperatorDistribution / VectorMethodDistribution
nodes, raw tuples, the identity simplifications of `makeOperatorHandler`, the zero-identity shortcuts of the vector
operators, reflected operators, `toDistribution` wrapping, `*`-unpacking); `evalNode T env` is `sampleGiven` of every
node given the sampled leaves `env`; `evalPy env e` is ordinary Python on the sampled leaves.  `T` is the data
regenerated from /repo (`Gen/ExprTables.lean`); `Props/C05.lean` instantiates the theorems on it.
-/
namespace Scenic.Expr

theorem bind_bind_none {α β γ} (x : Option α) (f : α → Option β) (g : β → Option γ)
    (h : x.bind f = none) : (x.bind fun v => (f v).bind g) = none := by
  cases x with
  | none => rfl
  | some a => simp at h ⊢; simp [h]

mutual
  /-- **C05, main theorem.**  On the supported fragment, sampling the forest Scenic builds for an expression
      gives exactly what plain Python computes from the sampled leaves. -/
  theorem forest_eval_eq_python (T : Tables) (hT : T.WF = true) (env : Env) :
      ∀ e : Expr, supportedB T env e = true → evalNode T env (build T e) = evalPy env e
    | .const v, _ => by simp [build, evalNode, evalPy]
    | .leaf i ty, _ => by simp [build, evalNode, evalPy]
    | .bin op l r, h => by
      simp only [supportedB, Bool.and_eq_true] at h
      obtain ⟨⟨hl, hr⟩, hok⟩ := h
      simp only [build, evalPy]
      rw [binBuild_eval T hT env op _ _ hok, forest_eval_eq_python T hT env l hl,
        forest_eval_eq_python T hT env r hr]
    | .un op e, h => by
      simp only [supportedB] at h
      simp only [build, evalPy, unBuild_eval, forest_eval_eq_python T hT env e h]
    | .getitem e i, h => by
      simp only [supportedB, Bool.and_eq_true] at h
      obtain ⟨⟨he, hi⟩, hok⟩ := h
      simp only [build, evalPy]
      rw [getitemBuild_eval T env _ _ hok, forest_eval_eq_python T hT env e he, forest_eval_eq_python T hT env i hi]
    | .len e, h => by
      simp only [supportedB, Bool.and_eq_true] at h
      simp only [build, evalPy]
      rw [lenBuild_eval T env _ h.2, forest_eval_eq_python T hT env e h.1]
    | .attr e name, h => by
      simp only [supportedB, Bool.and_eq_true] at h
      simp only [build, evalPy]
      rw [attrBuild_eval T env name _ h.2, forest_eval_eq_python T hT env e h.1]
    | .mkseq k es, h => by
      simp only [supportedB] at h
      simp only [build, evalPy, seqBuild_eval, forest_list T hT env es h]
    | .mkvec x y z, h => by
      simp only [supportedB, Bool.and_eq_true] at h
      obtain ⟨⟨hx, hy⟩, hz⟩ := h
      simp only [build, evalPy, vecBuild_eval, forest_eval_eq_python T hT env x hx,
        forest_eval_eq_python T hT env y hy, forest_eval_eq_python T hT env z hz]
    | .call f args, h => by
      simp only [supportedB] at h
      have ih := forest_args T hT env args h
      simp only [build, evalPy]
      cases hb : buildArgs T args with
      | none =>
        rw [hb] at ih
        simp only [] at ih
        simp [callBuild, evalNode, ih]
      | some p =>
        obtain ⟨ns, ss⟩ := p
        rw [hb] at ih
        simp only [] at ih
        rw [callBuild_eval, ih]
  theorem forest_list (T : Tables) (hT : T.WF = true) (env : Env) :
      ∀ es : List Expr, supportedList T env es = true → evalNodes T env (buildList T es) = evalPyList env es
    | [], _ => by simp [buildList, evalNodes, evalPyList]
    | e :: rest, h => by
      simp only [supportedList, Bool.and_eq_true] at h
      simp only [buildList, evalNodes, evalPyList, forest_eval_eq_python T hT env e h.1,
        forest_list T hT env rest h.2]
  theorem forest_args (T : Tables) (hT : T.WF = true) (env : Env) :
      ∀ args : List Arg, supportedArgs T env args = true →
        (match buildArgs T args with
         | none => evalPyArgs env args = none
         | some (ns, ss) => evalArgs T env ns ss = evalPyArgs env args)
    | [], _ => by simp [buildArgs, evalArgs, evalPyArgs]
    | .pos e :: rest, h => by
      simp only [supportedArgs, Bool.and_eq_true] at h
      have ih := forest_args T hT env rest h.2
      have ihe := forest_eval_eq_python T hT env e h.1
      simp only [buildArgs, evalPyArgs]
      cases hb : buildArgs T rest with
      | none =>
        rw [hb] at ih
        simp only [] at ih
        simp [ih, bind_none_right]
      | some p =>
        obtain ⟨ns, ss⟩ := p
        rw [hb] at ih
        simp only [] at ih
        simp [evalArgs, ihe, ih]
    | .star e :: rest, h => by
      simp only [supportedArgs, Bool.and_eq_true] at h
      obtain ⟨⟨he, hs⟩, hr⟩ := h
      have ih := forest_args T hT env rest hr
      have ihe := forest_eval_eq_python T hT env e he
      have sp := starBuild_spec T env (build T e) hs
      simp only [buildArgs, evalPyArgs]
      cases hsb : starBuild (build T e) with
      | none =>
        rw [hsb] at sp
        simp only [] at sp
        rw [ihe] at sp
        simp [bind_bind_none _ _ _ sp]
      | some p =>
        obtain ⟨xs, fs⟩ := p
        rw [hsb] at sp
        simp only [] at sp
        cases hb : buildArgs T rest with
        | none =>
          rw [hb] at ih
          simp only [] at ih
          simp only [Option.bind_some, Option.map_none, ih]
          cases evalPy env e with
          | none => rfl
          | some v => cases iterVals v <;> simp
        | some q =>
          obtain ⟨ns, ss⟩ := q
          rw [hb] at ih
          simp only [] at ih
          simp only [Option.bind_some, Option.map_some]
          rw [sp ns ss, ihe, ih]
end


/-! ## the identity-simplification table -/

/-- every entry accepted by the decidable check `entryOK` is an identity on all numbers:
    `x op c = x` (`c op x = x` for reflected entries) -/
theorem simp_table_sound (T : Tables) (hT : T.WF = true) (e : SimpEntry) (he : e ∈ T.simp) (x : Rat) :
    (if e.refl then pyBin e.op (.num e.const) (.num x) else pyBin e.op (.num x) (.num e.const)) = some (.num x) := by
  have := entry_sound e (WF_simp T hT e he) x
  cases hr : e.refl <;> simp [hr, pyBin] at this ⊢ <;> simp [this]

example : entryOK ⟨.truediv, false, 1⟩ = true := rfl

/-- `x // 1` is not `x` (regression: 09a47d92 removed this entry from `makeOperatorHandler`) -/
theorem floordiv_one_not_identity : ¬ ∀ x : Rat, numBin .floordiv x 1 = some x := by
  intro h
  have := h (1 / 2)
  have hf : ((1 / 2 : Rat)).floor = 0 := by decide +kernel
  norm_num [numBin, hf] at this

theorem floordiv_entry_rejected : entryOK ⟨.floordiv, false, 1⟩ = false := rfl

/-- `0 - x`, `1 / x`, `x % 1` are not identities either -/
theorem rsub_zero_not_identity : ¬ ∀ x : Rat, numBin .sub 0 x = some x := by
  intro h
  have := h 1
  norm_num [numBin] at this

theorem rtruediv_one_not_identity : ¬ ∀ x : Rat, numBin .truediv 1 x = some x := by
  intro h
  have := h 2
  norm_num [numBin] at this

/-! ## where the legacy dispatch of `OperatorDistribution.sampleGiven` differs from Python -/

/-- tables of the code before the proposed fix: `getattr` / `NotImplemented` emulation -/
def legacyTables : Tables :=
  { simp := [], vecOps := [], pythonDispatch := false, vecHandlerAcceptsSeq := false }

/-- `(1, 2) + X` with `X` sampled to `(3,)`: Scenic raises (AttributeError: 'tuple' object has no attribute '__radd__'),
    plain Python gives `(1, 2, 3)`.  This is why `supportedB` excludes the case (finding operator-dispatch:tuple.__radd__). -/
theorem reflected_concat_witness :
    let e := Expr.bin .add (.const (.seq false [.num 1, .num 2])) (.leaf 0 .other)
    let env : Env := fun _ => .seq false [.num 3]
    evalNode legacyTables env (build legacyTables e) = none ∧
      evalPy env e = some (.seq false [.num 1, .num 2, .num 3]) ∧
      supportedB legacyTables env e = false := by
  refine ⟨rfl, rfl, rfl⟩

/-- with Python's own dispatch (the proposed fix) the same expression is inside the fragment -/
theorem reflected_concat_fixed :
    let T : Tables := { legacyTables with pythonDispatch := true }
    let e := Expr.bin .add (.const (.seq false [.num 1, .num 2])) (.leaf 0 .other)
    let env : Env := fun _ => .seq false [.num 3]
    supportedB T env e = true ∧ evalNode T env (build T e) = some (.seq false [.num 1, .num 2, .num 3]) := by
  refine ⟨rfl, rfl⟩

end Scenic.Expr
