import ScenicModel.Lemmas.Expr

/-!
# C05 (part 1): the expression forest samples to what plain Python computes

`build T e` is what Scenic's compile-time evaluation of the expression `e` constructs (OperatorDistribution /
AttributeDistribution / FunctionDistribution / TupleDistribution / VectorOperatorDistribution / VectorMethodDistribution
nodes, raw tuples, the identity simplifications of `makeOperatorHandler`, the zero-identity shortcuts of the vector
operators, reflected operators, `toDistribution` wrapping, `*`-unpacking); `evalNode T env` is `sampleGiven` of every
node given the sampled leaves `env`; `evalPy env e` is ordinary Python on the sampled leaves.  `T` is the data
regenerated from /repo (`Gen/ExprTables.lean`); `Props/C05.lean` instantiates the theorems on it.
-/
namespace Scenic.Expr

theorem bind_bind_none {α β γ} (x : Option α) (f : α → Option β) (g : β → Option γ)
    (h : x.bind f = none) : (x.bind fun v => (f v).bind g) = none := by
  cases x with
  | none => rfl
  | some a => simp at h ⊢; simp [h]

mutual
  /-- **C05, main theorem.**  On the supported fragment, sampling the forest Scenic builds for an expression
      gives exactly what plain Python computes from the sampled leaves. -/
  theorem forest_eval_eq_python (T : Tables) (hT : T.WF = true) (env : Env) :
      ∀ e : Expr, supportedB T env e = true → evalNode T env (build T e) = evalPy env e
    | .const v, _ => by simp [build, evalNode, evalPy]
    | .leaf i ty, _ => by simp [build, evalNode, evalPy]
    | .bin op l r, h => by
      simp only [supportedB, Bool.and_eq_true] at h
      obtain ⟨⟨hl, hr⟩, hok⟩ := h
      simp only [build, evalPy]
      rw [binBuild_eval T hT env op _ _ (build_vecWF T l) (build_vecWF T r) hok, forest_eval_eq_python T hT env l hl,
        forest_eval_eq_python T hT env r hr]
    | .un op e, h => by
      simp only [supportedB] at h
      simp only [build, evalPy, unBuild_eval, forest_eval_eq_python T hT env e h]
    | .getitem e i, h => by
      simp only [supportedB, Bool.and_eq_true] at h
      obtain ⟨⟨he, hi⟩, hok⟩ := h
      simp only [build, evalPy]
      rw [getitemBuild_eval T env _ _ hok, forest_eval_eq_python T hT env e he, forest_eval_eq_python T hT env i hi]
    | .len e, h => by
      simp only [supportedB, Bool.and_eq_true] at h
      simp only [build, evalPy]
      rw [lenBuild_eval T env _ h.2, forest_eval_eq_python T hT env e h.1]
    | .attr e name, h => by
      simp only [supportedB, Bool.and_eq_true] at h
      simp only [build, evalPy]
      rw [attrBuild_eval T env name _ h.2, forest_eval_eq_python T hT env e h.1]
    | .mkseq k es, h => by
      simp only [supportedB] at h
      simp only [build, evalPy, seqBuild_eval, forest_list T hT env es h]
    | .mkvec x y z, h => by
      simp only [supportedB, Bool.and_eq_true] at h
      obtain ⟨⟨hx, hy⟩, hz⟩ := h
      simp only [build, evalPy, vecBuild_eval, forest_eval_eq_python T hT env x hx,
        forest_eval_eq_python T hT env y hy, forest_eval_eq_python T hT env z hz]
    | .call f args, h => by
      simp only [supportedB] at h
      have ih := forest_args T hT env args h
      simp only [build, evalPy]
      cases hb : buildArgs T args with
      | none =>
        rw [hb] at ih
        simp only [] at ih
        simp [callBuild, evalNode, ih]
      | some p =>
        obtain ⟨ns, ss⟩ := p
        rw [hb] at ih
        simp only [] at ih
        rw [callBuild_eval, ih]
  theorem forest_list (T : Tables) (hT : T.WF = true) (env : Env) :
      ∀ es : List Expr, supportedList T env es = true → evalNodes T env (buildList T es) = evalPyList env es
    | [], _ => by simp [buildList, evalNodes, evalPyList]
    | e :: rest, h => by
      simp only [supportedList, Bool.and_eq_true] at h
      simp only [buildList, evalNodes, evalPyList, forest_eval_eq_python T hT env e h.1,
        forest_list T hT env rest h.2]
  theorem forest_args (T : Tables) (hT : T.WF = true) (env : Env) :
      ∀ args : List Arg, supportedArgs T env args = true →
        (match buildArgs T args with
         | none => evalPyArgs env args = none
         | some (ns, ss) => evalArgs T env ns ss = evalPyArgs env args)
    | [], _ => by simp [buildArgs, evalArgs, evalPyArgs]
    | .pos e :: rest, h => by
      simp only [supportedArgs, Bool.and_eq_true] at h
      have ih := forest_args T hT env rest h.2
      have ihe := forest_eval_eq_python T hT env e h.1
      simp only [buildArgs, evalPyArgs]
      cases hb : buildArgs T rest with
      | none =>
        rw [hb] at ih
        simp only [] at ih
        simp [ih, bind_none_right]
      | some p =>
        obtain ⟨ns, ss⟩ := p
        rw [hb] at ih
        simp only [] at ih
        simp [evalArgs, ihe, ih]
    | .star e :: rest, h => by
      simp only [supportedArgs, Bool.and_eq_true] at h
      obtain ⟨⟨he, hs⟩, hr⟩ := h
      have ih := forest_args T hT env rest hr
      have ihe := forest_eval_eq_python T hT env e he
      have sp := starBuild_spec T env (build T e) hs
      simp only [buildArgs, evalPyArgs]
      cases hsb : starBuild (build T e) with
      | none =>
        rw [hsb] at sp
        simp only [] at sp
        rw [ihe] at sp
        simp [bind_bind_none _ _ _ sp]
      | some p =>
        obtain ⟨xs, fs⟩ := p
        rw [hsb] at sp
        simp only [] at sp
        cases hb : buildArgs T rest with
        | none =>
          rw [hb] at ih
          simp only [] at ih
          simp only [Option.bind_some, Option.map_none, ih]
          cases evalPy env e with
          | none => rfl
          | some v => cases iterVals v <;> simp
        | some q =>
          obtain ⟨ns, ss⟩ := q
          rw [hb] at ih
          simp only [] at ih
          simp only [Option.bind_some, Option.map_some]
          rw [sp ns ss, ihe, ih]
end


/-! ## the identity-simplification table -/

/-- every entry accepted by the decidable check `entryOK` is an identity on all numbers:
    `x op c = x` (`c op x = x` for reflected entries) -/
theorem simp_table_sound (T : Tables) (hT : T.WF = true) (e : SimpEntry) (he : e ∈ T.simp) (x : Rat) :
    (if e.refl then pyBin e.op (.num e.const) (.num x) else pyBin e.op (.num x) (.num e.const)) = some (.num x) := by
  have := entry_sound e (WF_simp T hT e he) x
  cases hr : e.refl <;> simp [hr, pyBin] at this ⊢ <;> simp [this]

example : entryOK ⟨.truediv, false, 1⟩ = true := rfl

/-- `x // 1` is not `x` (regression: 09a47d92 removed this entry from `makeOperatorHandler`) -/
theorem floordiv_one_not_identity : ¬ ∀ x : Rat, numBin .floordiv x 1 = some x := by
  intro h
  have := h (1 / 2)
  have hf : ((1 / 2 : Rat)).floor = 0 := by decide +kernel
  norm_num [numBin, hf] at this

theorem floordiv_entry_rejected : entryOK ⟨.floordiv, false, 1⟩ = false := rfl

/-- `0 - x`, `1 / x`, `x % 1` are not identities either -/
theorem rsub_zero_not_identity : ¬ ∀ x : Rat, numBin .sub 0 x = some x := by
  intro h
  have := h 1
  norm_num [numBin] at this

theorem rtruediv_one_not_identity : ¬ ∀ x : Rat, numBin .truediv 1 x = some x := by
  intro h
  have := h 2
  norm_num [numBin] at this

/-! ## regressions of repaired defects: these expressions are inside the fragment and evaluate as in Python -/

/-- the value is the Vector `(a, b, c)` (`Val` has no decidable equality: compare the coordinates) -/
def isVecOf (o : Option Val) (a b c : Rat) : Bool :=
  match o with
  | some (.vec x y z) => x == a && y == b && z == c
  | _ => false

/-- the shapes of code the model is a model of (`Tables.WF` demands them of the generated data) -/
def repairedTables : Tables :=
  { simp := [⟨.add, false, 0⟩], vecOps := [(.add, false, true), (.add, true, true), (.sub, false, true), (.sub, true, false)],
    pythonDispatch := true, vecHandlerAcceptsSeq := true, vecOpsWrapOperands := true }

example : repairedTables.WF = true := by decide

/-- tables extracted from code that still emulates Python's operator dispatch with `getattr`, or whose
    VectorDistribution handler reads `.coordinates`, or whose vector operators do not wrap their operands, are
    rejected: the theorems are only about the repaired shapes -/
theorem legacy_shapes_rejected :
    ({ repairedTables with pythonDispatch := false } : Tables).WF = false ∧
    ({ repairedTables with vecHandlerAcceptsSeq := false } : Tables).WF = false ∧
    ({ repairedTables with vecOpsWrapOperands := false } : Tables).WF = false := by decide

/-- `(1, 2) + X` with `X` sampled to `(3,)` (3236edde: `sampleGiven` raised AttributeError '__radd__'):
    inside the fragment, value `(1, 2, 3)` -/
theorem reflected_concat :
    let e := Expr.bin .add (.const (.seq false [.num 1, .num 2])) (.leaf 0 .other)
    let env : Env := fun _ => .seq false [.num 3]
    supportedB repairedTables env e = true ∧
      evalNode repairedTables env (build repairedTables e) = some (.seq false [.num 1, .num 2, .num 3]) := by
  refine ⟨rfl, rfl⟩

/-- `X - Vector(1, 1, 1)` with `X` sampled to the tuple `(3, 2, 1)` (3236edde: 'tuple' has no `__sub__`) -/
theorem tuple_minus_vector :
    let e := Expr.bin .sub (.leaf 0 .other) (.const (.vec 1 1 1))
    let env : Env := fun _ => .seq false [.num 3, .num 2, .num 1]
    supportedB repairedTables env e = true ∧
      isVecOf (evalNode repairedTables env (build repairedTables e)) 2 1 0 = true := by
  refine ⟨rfl, by decide +kernel⟩

/-- `(Vector(x, 2, 3) + Vector(1, 1, 1)) + (1, 0, 0)` (2964538d: the handler read `.coordinates` of the tuple) and
    `... + (0, 0, 0)` (the zero-identity shortcut now applies to sequences too) -/
theorem vecdist_plus_tuple :
    let vd := Expr.bin .add (.mkvec (.leaf 0 .number) (.const (.num 2)) (.const (.num 3))) (.const (.vec 1 1 1))
    let env : Env := fun _ => .num 5
    supportedB repairedTables env (.bin .add vd (.const (.seq false [.num 1, .num 0, .num 0]))) = true ∧
      isVecOf (evalNode repairedTables env
        (build repairedTables (.bin .add vd (.const (.seq false [.num 1, .num 0, .num 0]))))) 7 3 4 = true ∧
      build repairedTables (.bin .add vd (.const (.seq false [.num 0, .num 0, .num 0]))) = build repairedTables vd := by
  refine ⟨rfl, by decide +kernel, rfl⟩

/-- `Vector(x, 2, 3) + (1, x, 3)` (e4f79cbd: the raw tuple was never sampled): the operand is wrapped into a
    TupleDistribution and the value is Python's -/
theorem vector_plus_raw_tuple :
    let e := Expr.bin .add (.mkvec (.leaf 0 .number) (.const (.num 2)) (.const (.num 3)))
      (.mkseq false [.const (.num 1), .leaf 0 .number, .const (.num 3)])
    let env : Env := fun _ => .num 5
    supportedB repairedTables env e = true ∧
      (match build repairedTables e with | .vop _ _ _ (.tupd ..) => true | _ => false) = true ∧
      isVecOf (evalNode repairedTables env (build repairedTables e)) 6 7 6 = true := by
  refine ⟨rfl, rfl, by decide +kernel⟩

/-- arithmetic on raw tuples is inside the fragment: `((x, 1) + (2,)) * 2` -/
theorem raw_tuple_arithmetic :
    let e := Expr.bin .mul (.bin .add (.mkseq false [.leaf 0 .number, .const (.num 1)]) (.const (.seq false [.num 2])))
      (.const (.num 2))
    let env : Env := fun _ => .num 5
    supportedB repairedTables env e = true ∧
      (match evalPy env e with
       | some (.seq false [.num a, .num b, .num c, .num d, .num e, .num f]) =>
         a == 5 && b == 1 && c == 2 && d == 5 && e == 1 && f == 2
       | _ => false) = true := by
  refine ⟨by decide +kernel, by decide +kernel⟩

/-- what remains outside the fragment because Scenic and plain Python really differ: `Vector(1, 2, 3) + X` with `X`
    sampled to `()` — plain Python returns the vector (zero-identity shortcut of the decorated `__add__`), the
    VectorMethodDistribution calls the undecorated method, which raises IndexError
    (finding vector-zero-identity-short-sequence) -/
theorem short_zero_sequence_witness :
    let e := Expr.bin .add (.const (.vec 1 2 3)) (.leaf 0 .other)
    let env : Env := fun _ => .seq false []
    evalNode repairedTables env (build repairedTables e) = none ∧ isVecOf (evalPy env e) 1 2 3 = true ∧
      supportedB repairedTables env e = false := by
  refine ⟨rfl, by decide +kernel, rfl⟩

end Scenic.Expr
