import ScenicModel.Props.C08Geom

/-!
C08 (part 3c): the *executable* voxel morphology of the model (`dilate1` / `erode1` on lists of cells, the
functions the driver runs and the correspondence check compares with `VoxelRegion.dilation`) is the
set-level morphology the soundness theorems of `C08Geom.lean` speak about, and the two over-approximation
claims of `regions.py` end to end:

* `buffer_voxels_sound`: every point within `minBuffer` of the region lies in a voxel of the set returned by the
  model of `_bufferOverapproximate` (pass count of the source ∘ `k` dilation passes);
* `erode_voxels_sound`: every point whose closed `maxErosion`-ball lies in the region survives the model of
  `_erodeOverapproximate` (whatever the sign dispatch of `VoxelRegion.dilation` does with the count).
-/
namespace Scenic.Pruning

theorem mem_dedup (c : Cell) : ∀ cs : List Cell, c ∈ dedup cs ↔ c ∈ cs := by
  intro cs
  induction cs with
  | nil => simp [dedup]
  | cons a as ih =>
    simp only [dedup]
    split
    · next h =>
      have ha : a ∈ as := by simpa using h
      rw [ih, List.mem_cons]
      constructor
      · exact Or.inr
      · rintro (rfl | h)
        · exact ha
        · exact h
    · simp only [List.mem_cons, ih]

theorem mem_nbhd (d : Cell) : d ∈ nbhd ↔ d.within 1 := by
  obtain ⟨a, b, c⟩ := d
  simp only [Cell.within, Nat.cast_one]
  constructor
  · intro h
    simp only [nbhd, List.flatMap_cons, List.flatMap_nil, List.map_cons, List.map_nil, List.append_nil,
      List.cons_append, List.nil_append, List.mem_cons, Prod.mk.injEq, List.not_mem_nil, or_false] at h
    omega
  · intro h
    have ha : a = -1 ∨ a = 0 ∨ a = 1 := by omega
    have hb : b = -1 ∨ b = 0 ∨ b = 1 := by omega
    have hc : c = -1 ∨ c = 0 ∨ c = 1 := by omega
    rcases ha with rfl | rfl | rfl <;> rcases hb with rfl | rfl | rfl <;> rcases hc with rfl | rfl | rfl <;>
      decide

def Cell.neg (d : Cell) : Cell := (-d.1, -d.2.1, -d.2.2)

theorem Cell.neg_within {d : Cell} {k : Nat} (h : d.within k) : d.neg.within k := by
  simp only [Cell.within, Cell.neg] at h ⊢; omega

theorem Cell.add_neg_cancel (c d : Cell) : (c.add d).add d.neg = c := by
  simp only [Cell.add, Cell.neg]; ext <;> simp

theorem Cell.add_neg_cancel' (c d : Cell) : (c.add d.neg).add d = c := by
  simp only [Cell.add, Cell.neg]; ext <;> simp

/-- one list-level dilation pass is the set-level pass -/
theorem mem_dilate1 (cs : List Cell) (c : Cell) : c ∈ dilate1 cs ↔ dilateP (· ∈ cs) c := by
  simp only [dilate1, mem_dedup, List.mem_flatMap, List.mem_map, dilateP]
  constructor
  · rintro ⟨c', hc', d, hd, rfl⟩
    exact ⟨d.neg, Cell.neg_within ((mem_nbhd d).mp hd), by rw [Cell.add_neg_cancel]; exact hc'⟩
  · rintro ⟨d, hd, hv⟩
    exact ⟨c.add d, hv, d.neg, (mem_nbhd _).mpr (Cell.neg_within hd), Cell.add_neg_cancel c d⟩

/-- one list-level erosion pass is the set-level pass -/
theorem mem_erode1 (cs : List Cell) (c : Cell) : c ∈ erode1 cs ↔ erodeP (· ∈ cs) c := by
  simp only [erode1, List.mem_filter, List.all_eq_true, List.contains_iff_mem, erodeP]
  constructor
  · rintro ⟨_, h⟩ d hd
    exact h d ((mem_nbhd d).mpr hd)
  · intro h
    refine ⟨?_, fun d hd => h d ((mem_nbhd d).mp hd)⟩
    have := h (0, 0, 0) (by simp [Cell.within])
    simpa [Cell.add] using this

theorem mem_iter_dilate1 : ∀ (k : Nat) (cs : List Cell) (c : Cell),
    c ∈ iter dilate1 k cs ↔ iter dilateP k (· ∈ cs) c := by
  intro k
  induction k with
  | zero => intro cs c; rfl
  | succ k ih =>
    intro cs c
    simp only [iter]
    rw [ih]
    have : (fun x => x ∈ dilate1 cs) = dilateP (· ∈ cs) := by
      funext x; exact propext (mem_dilate1 cs x)
    rw [this]

theorem mem_iter_erode1 : ∀ (k : Nat) (cs : List Cell) (c : Cell),
    c ∈ iter erode1 k cs ↔ iter erodeP k (· ∈ cs) c := by
  intro k
  induction k with
  | zero => intro cs c; rfl
  | succ k ih =>
    intro cs c
    simp only [iter]
    rw [ih]
    have : (fun x => x ∈ erode1 cs) = erodeP (· ∈ cs) := by
      funext x; exact propext (mem_erode1 cs x)
    rw [this]

/-- dilation is extensive -/
theorem subset_iter_dilate1 (k : Nat) (cs : List Cell) (c : Cell) (h : c ∈ cs) : c ∈ iter dilate1 k cs := by
  rw [mem_iter_dilate1]
  apply dilateN_of_within
  refine ⟨(0, 0, 0), by simp [Cell.within], ?_⟩
  have : c.add (0, 0, 0) = c := by simp [Cell.add]
  rw [this]; exact h

/-- erosion is anti-extensive: the model never invents cells -/
theorem iter_erode1_subset : ∀ (k : Nat) (cs : List Cell) (c : Cell), c ∈ iter erode1 k cs → c ∈ cs := by
  intro k
  induction k with
  | zero => intro cs c h; exact h
  | succ k ih =>
    intro cs c h
    simp only [iter] at h
    have := ih _ _ h
    simp only [erode1, List.mem_filter] at this
    exact this.1

theorem applyMorph_morphOf_nonneg {z : Int} (hz : 0 ≤ z) (cs : List Cell) :
    applyMorph (morphOf z) cs = iter dilate1 z.toNat cs := by
  unfold morphOf
  split
  · next h => subst h; rfl
  · split
    · rfl
    · omega

/-- **buffer_voxels_sound**: with a pass-count configuration that is `Sound` (non-negative surplus, divisor =
    voxel edge), every point `y` within `minBuffer` (per coordinate, hence in Euclidean distance) of a point of the
    region lies in a voxel of the set `_bufferOverapproximate` returns, for every voxel list covering the region. -/
theorem buffer_voxels_sound {cfg : DilateCountCfg} (hcfg : cfg.Sound = true) (C : Pt → Prop) (cells : List Cell)
    (minBuffer pitch tp : Rat) (htp : 0 < tp) (hb : 0 ≤ minBuffer)
    (hcover : ∀ y, C y → voxelOf tp y ∈ cells) (x y : Pt) (hx : C x)
    (h1 : x.1 - y.1 ≤ minBuffer ∧ y.1 - x.1 ≤ minBuffer)
    (h2 : x.2.1 - y.2.1 ≤ minBuffer ∧ y.2.1 - x.2.1 ≤ minBuffer)
    (h3 : x.2.2 - y.2.2 ≤ minBuffer ∧ y.2.2 - x.2.2 ≤ minBuffer) :
    voxelOf tp y ∈ applyMorph (dilateMorph cfg minBuffer pitch tp) cells := by
  have hcount := dilate_count_sound hcfg minBuffer pitch tp htp
  have hnn : 0 ≤ dilatePasses cfg minBuffer pitch tp := by
    simp only [DilateCountCfg.Sound, Bool.and_eq_true, decide_eq_true_eq] at hcfg
    simp only [dilatePasses]
    have : (0 : Rat) ≤ minBuffer / (if cfg.usesTargetPitch then tp else pitch) := by
      rw [hcfg.2]; exact div_nonneg hb (le_of_lt htp)
    have h2 : (0 : Rat) ≤ ((minBuffer / (if cfg.usesTargetPitch then tp else pitch)).ceil : Rat) :=
      le_trans this Rat.le_ceil
    have : 0 ≤ (minBuffer / (if cfg.usesTargetPitch then tp else pitch)).ceil := by exact_mod_cast h2
    omega
  rw [dilateMorph, applyMorph_morphOf_nonneg hnn, mem_iter_dilate1]
  apply dilate_passes_sound C (· ∈ cells) tp minBuffer htp _ hcover x y hx h1 h2 h3
  have : (((dilatePasses cfg minBuffer pitch tp).toNat : Nat) : Rat) = ((dilatePasses cfg minBuffer pitch tp : Int) : Rat) := by
    have : (((dilatePasses cfg minBuffer pitch tp).toNat : Nat) : Int) = dilatePasses cfg minBuffer pitch tp :=
      Int.toNat_of_nonneg hnn
    exact_mod_cast congrArg (fun z : Int => (z : Rat)) this
  rw [this]; exact hcount

/-- buffer 0.3, voxel edge 0.3: ceil(0.3/0.3) + 1 = 2 passes reach the cell two steps away -/
example : (2, 0, 0) ∈ applyMorph (dilateMorph ⟨1, true⟩ (3/10) (3/20) (3/10)) [(0, 0, 0)] := by decide +kernel

/-- **erode_voxels_sound**: with a pass-count configuration that is `Sound` (√3 factor, non-negative deficit,
    divisor = voxel edge, negated count handed to `dilation`), every point whose closed `maxErosion`-ball lies in
    the region survives `_erodeOverapproximate`, for every voxel list covering the region. -/
theorem erode_voxels_sound {cfg : ErodeCountCfg} (hcfg : cfg.Sound = true) (C : Pt → Prop) (cells : List Cell)
    (maxErosion pitch tp : Rat) (htp : 0 < tp) (hr : 0 ≤ maxErosion)
    (hcover : ∀ y, C y → voxelOf tp y ∈ cells) (x : Pt)
    (hball : ∀ y, distSq x y ≤ maxErosion * maxErosion → C y) :
    voxelOf tp x ∈ applyMorph (erodeMorph cfg true maxErosion pitch tp) cells := by
  have hxC : C x := hball x (by
    have : distSq x x = 0 := by simp [distSq]
    rw [this]; exact mul_nonneg hr hr)
  have hcount := erode_count_sound hcfg maxErosion pitch tp hr htp
  cases hm : erodeMorph cfg true maxErosion pitch tp with
  | same => exact hcover x hxC
  | dilate k => exact subset_iter_dilate1 k cells _ (hcover x hxC)
  | erode k =>
    rw [hm] at hcount
    simp only [applyMorph]
    rw [mem_iter_erode1]
    exact erode_passes_sound C (· ∈ cells) tp maxErosion htp k hcover x hball hcount

end Scenic.Pruning
