import ScenicModel.Lemmas.ChooseStep

/-!
# C19, part 2 — the generator machine refines the big-step semantics; bodies resumed in lockstep are independent

`Props/C19.lean` states the property about the big-step semantics `exec` of a body (distribution over whole runs).
The code runs a body as a generator resumed once per simulation time step, `do choose`/`do shuffle` being nested
generators (`_invokeSubBehavior` → `_runSubBehavior` → `scheduler` → `_invokeInner`), and the simulator resumes *all*
bodies (behaviors of the agents, monitors, compose blocks) one after the other in every time step, on one random
number generator.  `Model/ChooseStep.lean` models that machine (`resume`, `runSteps`, `lockstep`).  The theorems
below show that everything `Props/C19.lean` proves about `exec` is true of the machine:

* `generator_unfolding` — for *every* machine state and time step, one `resume` followed by the big-step meaning of the
  successor state is the big-step meaning of the state (`execA`; `exec` for a body that has not started);
* `generator_refines_bigstep` — hence, resuming a body for any number `n` of time steps and then letting it finish has
  exactly the outcome distribution `exec` (equality of weighted lists, not only of probabilities);
* `lockstep_independent` — `k` bodies resumed in lockstep for `n` time steps and then run to their ends: the probability
  that body `i`'s outcome lies in `Pᵢ` for all `i` is the product of the `exec`-probabilities — no body's picks or draws
  are influenced by the others' (the interleaving of the draws on the shared generator is immaterial).
-/
namespace Scenic.C19
open Scenic.Choose

/-- **generator_unfolding.** One `send(None)` at time step `t` (run until the next `yield`), then the big-step meaning of
the state reached at step `t + 1` = the big-step meaning of the state at step `t`; for every state (in the middle of a
`wait`, of a running sub-behaviour, of a shuffle, between statements), any `Config`, any tables. -/
theorem generator_unfolding (c : Config) (env : Env) (t : Nat) (s : AState) :
    Dist.bind (resume c env t s.need s) (afterStep (execA c env) t) = execA c env t s :=
  resume_exec c env t s.need s (Nat.le_refl _)

/-- a body that has not started means `exec` -/
theorem execA_of_body (c : Config) (env : Env) (t : Nat) (ss : List Stmt) (vals : List Int) (st : Store) :
    execA c env t ⟨0, [], ss, vals, st⟩ = exec c env ss t vals st := execA_init c env t ss vals st

/-- **generator_refines_bigstep.** The simulator loop for one body — `n` time steps of the generator machine, then the
body runs to its end — produces exactly the distribution `exec`, for every `n`. -/
theorem generator_refines_bigstep (c : Config) (env : Env) (n t : Nat) (ss : List Stmt) (st : Store) :
    Dist.bind (agentRun c env n t (.running [] (AState.init ss st))) (Agent.finish c env (t + n)) =
      exec c env ss t [] st := by
  rw [agentRun_finish, finish_init]

/-- the same for `runSteps` (the loop written with a continuation) -/
theorem runSteps_refines_bigstep (c : Config) (env : Env) (n t : Nat) (ss : List Stmt) (st : Store) :
    runSteps c env (execA c env) n t (AState.init ss st) = exec c env ss t [] st := by
  rw [runSteps_execA]; exact execA_init c env t ss [] st

/-- **lockstep_independent.** Several bodies resumed in lockstep (every body once per time step, in list order, all
drawing from one generator) for `n` time steps and then run to their ends: the joint probability of per-body events
is the product of the big-step probabilities of the single bodies. -/
theorem lockstep_independent (c : Config) (env : Env) (n t : Nat) (bodies : List (List Stmt × Store))
    (Ps : List (Outcome → Bool)) :
    Dist.prob (lockstepOutcomes c env n t (bodies.map fun b => Agent.running [] (AState.init b.1 b.2))) (allP Ps) =
      prodProbs (bodies.map fun b => exec c env b.1 t [] b.2) Ps := by
  rw [lockstep_independent_agents, List.map_map]
  congr 1
  apply List.map_congr_left
  intro b _
  exact finish_init c env t b.1 b.2

/-- the stages of one time step are independent (Fubini for `Dist.sequence`) -/
theorem sequence_independent {α : Type} (ds : List (Dist α)) (Ps : List (α → Bool)) :
    Dist.prob (Dist.sequence ds) (allP Ps) = prodProbs ds Ps := prob_sequence ds Ps

/-! ## non-vacuity -/

/-- items 1 (weight 1, runs 1 step) and 2 (weight 3, runs 0 steps before step 1, then 2 steps) -/
def stepEnv : Env := ⟨fun _ _ => true, fun i t => if i == 1 then 1 else if t == 0 then 0 else 2⟩
def stepCfg : Config := ⟨1, 1, 0, true, false⟩

-- one resume of `do shuffle {1: 1, 2: 3}` at step 0: picking 2 first (3/4) lets it end at once, so 1 is started in the
-- same time step; picking 1 first (1/4) suspends with 2 still to run
example : resume stepCfg stepEnv 0 10 (AState.init [.shuffle [⟨1, 1⟩, ⟨2, 3⟩]] []) =
    [(.suspended [⟨0, 0, 1⟩] ⟨0, [⟨2, 3⟩], [], [], []⟩, 1 / 4),
     (.suspended [⟨0, 0, 2⟩, ⟨0, 0, 1⟩] ⟨0, [], [], [], []⟩, 3 / 4)] := by decide +kernel

-- two bodies in lockstep for 2 steps: P(first runs 2 then 1, second draws 5) = 3/4 · 1/3
example : Dist.prob (lockstepOutcomes stepCfg stepEnv 2 0
      [.running [] (AState.init [.shuffle [⟨1, 1⟩, ⟨2, 3⟩]] []),
       .running [] (AState.init [.wait 1, .draw (.uniform [4, 5, 6])] [])])
    (allP [fun o => decide (o = ⟨[⟨0, 0, 2⟩, ⟨0, 0, 1⟩], 1, .done⟩), fun o => decide (o = ⟨[⟨1, 1, 5⟩], 2, .done⟩)]) =
      1 / 4 := by decide +kernel

end Scenic.C19
