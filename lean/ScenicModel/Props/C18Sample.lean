import ScenicModel.Lemmas.Sample

/-!
C18 (part 2): the sample encoding of a whole scene round-trips.

`sample_roundtrip`: for every dependency DAG (any sharing, any nesting of deterministic nodes and
multiplexers), every consistent sample and every list of roots, reading back what `writeSample`
wrote restores the value of every node the writer visited — in particular of every root — and
leaves exactly the suffix.  The writer tracks identities already written (`seenObjs`), the reader
tracks values already read; the proof is a simulation between the two.
-/
namespace Scenic.Sample
open Scenic.Codec

def Node.isConst : Node → Bool
  | .const => true
  | _ => false

theorem lookupD_eq (c : Ctx) (vals : Nat → Val) (hCons : Consistent c vals)
    {m : Nat} {S : List Nat} {E : Env} {d : Nat} (hR : Rel vals m S E) (hd : d < m)
    (hmem : (c.g.node d).isConst = false → d ∈ S) : lookupD c E d = vals d := by
  unfold lookupD
  cases hl : E.lookup d with
  | some v => exact hR.vals_ok d v hl
  | none =>
    simp only
    cases hn : c.g.node d with
    | const => have := hCons d; simp only [hn] at this; exact this.symm
    | prim ty =>
      have hk := (hR.keys_ok d hd).mp (hmem (by simp [hn, Node.isConst]))
      unfold keyIn at hk; rw [hl] at hk; simp at hk
    | det deps op =>
      have hk := (hR.keys_ok d hd).mp (hmem (by simp [hn, Node.isConst]))
      unfold keyIn at hk; rw [hl] at hk; simp at hk
    | mux idx opts =>
      have hk := (hR.keys_ok d hd).mp (hmem (by simp [hn, Node.isConst]))
      unfold keyIn at hk; rw [hl] at hk; simp at hk

theorem open_node {vals : Nat → Val} {n i : Nat} {seen : List Nat} {env : Env} (hin : i < n)
    (hR : Rel vals n seen env) : Rel vals i (i :: seen) env :=
  ⟨hR.vals_ok, fun j hj => by
    have hne : j ≠ i := by omega
    rw [List.mem_cons]
    constructor
    · rintro (h | h)
      · exact absurd h hne
      · exact (hR.keys_ok j (by omega)).mp h
    · intro h; exact Or.inr ((hR.keys_ok j (by omega)).mpr h)⟩

theorem close_node {vals : Nat → Val} {n i : Nat} {seen seen' : List Nat} {env env'' : Env}
    (hin : i < n) (hR : Rel vals n seen env) (hni : i ∉ seen)
    (hFW : FrameW i (i :: seen) seen') (hR' : Rel vals i seen' env'') (hFR : FrameR i env env'') :
    Rel vals n seen' ((i, vals i) :: env'') ∧ FrameR (i + 1) env ((i, vals i) :: env'') := by
  have hnk : ¬ keyIn env i := fun h => hni ((hR.keys_ok i hin).mpr h)
  refine ⟨⟨?_, ?_⟩, ⟨?_, ?_⟩⟩
  · intro j v hl
    by_cases hji : j = i
    · subst hji; rw [lookup_cons_self] at hl; exact (Option.some.inj hl).symm
    · rw [lookup_cons_ne _ _ _ _ hji] at hl; exact hR'.vals_ok j v hl
  · intro j hj
    rw [keyIn_cons]
    by_cases hji : j = i
    · subst hji
      exact ⟨fun _ => Or.inl rfl, fun _ => hFW.mono _ (List.mem_cons_self ..)⟩
    · by_cases hlt : j < i
      · rw [hR'.keys_ok j hlt]
        exact ⟨fun h => Or.inr h, fun h => h.resolve_left hji⟩
      · have hgt : i < j := by omega
        constructor
        · intro h
          right
          rcases hFW.new_lt j h with h' | h'
          · rw [List.mem_cons] at h'
            rcases h' with h' | h'
            · exact absurd h' hji
            · exact hFR.keyIn_mono ((hR.keys_ok j hj).mp h')
          · omega
        · intro h
          have h := h.resolve_left hji
          rcases hFR.new_lt j h with h' | h'
          · exact hFW.mono j (List.mem_cons_of_mem _ ((hR.keys_ok j hj).mpr h'))
          · omega
  · intro j v hl
    have hji : j ≠ i := by
      intro h; subst h; exact hnk (keyIn_of_lookup hl)
    rw [lookup_cons_ne _ _ _ _ hji]; exact hFR.mono j v hl
  · intro j hk
    rw [keyIn_cons] at hk
    rcases hk with h | h
    · right; omega
    · rcases hFR.new_lt j h with h' | h'
      · exact Or.inl h'
      · right; omega

/-- the per-node simulation claim at fuel `f` -/
def Claim (c : Ctx) (vals : Nat → Val) (f : Nat) : Prop :=
  ∀ i seen out seen' out', i < f → writeNode c vals f i (seen, out) = some (seen', out') →
    ∃ enc, out' = out ++ enc ∧ FrameW (i + 1) seen seen' ∧
      ((c.g.node i).isConst = false → i ∈ seen') ∧
      ∀ n env s, i < n → Rel vals n seen env →
        ∃ env', readNode c f i (env, enc ++ s) = some (env', s) ∧ Rel vals n seen' env' ∧
          FrameR (i + 1) env env'

theorem claim_list (c : Ctx) (vals : Nat → Val) (f : Nat) (hC : Claim c vals f) (b : Nat)
    (hb : b ≤ f) :
    ∀ ds seen out seen' out', (∀ d ∈ ds, d < b) →
      foldM (writeNode c vals f) ds (seen, out) = some (seen', out') →
      ∃ enc, out' = out ++ enc ∧ FrameW b seen seen' ∧
        (∀ d ∈ ds, (c.g.node d).isConst = false → d ∈ seen') ∧
        ∀ n env s, b ≤ n → Rel vals n seen env →
          ∃ env', foldM (readNode c f) ds (env, enc ++ s) = some (env', s) ∧ Rel vals n seen' env' ∧
            FrameR b env env' := by
  intro ds
  induction ds with
  | nil =>
    intro seen out seen' out' _ hw
    simp only [foldM_nil, Option.some.injEq, Prod.mk.injEq] at hw
    obtain ⟨rfl, rfl⟩ := hw
    refine ⟨[], by simp, FrameW.refl _ _, by simp, ?_⟩
    intro n env s _ hR
    exact ⟨env, by simp [foldM_nil], hR, FrameR.refl _ _⟩
  | cons d ds ih =>
    intro seen out seen' out' hds hw
    rw [foldM_cons] at hw
    cases hwd : writeNode c vals f d (seen, out) with
    | none => simp [hwd] at hw
    | some st1 =>
      obtain ⟨seen1, out1⟩ := st1
      simp only [hwd] at hw
      have hdb : d < b := hds d (by simp)
      obtain ⟨enc1, ho1, hF1, hm1, hr1⟩ := hC d seen out seen1 out1 (by omega) hwd
      obtain ⟨enc2, ho2, hF2, hm2, hr2⟩ :=
        ih seen1 out1 seen' out' (fun x hx => hds x (by simp [hx])) hw
      refine ⟨enc1 ++ enc2, by rw [ho2, ho1, List.append_assoc], hF1.trans hF2 (by omega) (Nat.le_refl _), ?_, ?_⟩
      · intro x hx hcx
        rw [List.mem_cons] at hx
        rcases hx with rfl | hx
        · exact hF2.mono _ (hm1 hcx)
        · exact hm2 x hx hcx
      · intro n env s hbn hR
        obtain ⟨env1, hrd, hR1, hFR1⟩ := hr1 n env (enc2 ++ s) (by omega) hR
        obtain ⟨env2, hrs, hR2, hFR2⟩ := hr2 n env1 s hbn hR1
        refine ⟨env2, ?_, hR2, hFR1.trans hFR2 (by omega) (Nat.le_refl _)⟩
        rw [foldM_cons, List.append_assoc, hrd]
        exact hrs

theorem getD_mem_of_lt {l : List Nat} {k : Nat} (h : k < l.length) : optAt l k ∈ l := by
  induction l generalizing k with
  | nil => simp at h
  | cons a l ih =>
    cases k with
    | zero => simp [optAt]
    | succ k =>
      have : k < l.length := by simpa using h
      have := ih this
      simp only [optAt]
      exact List.mem_cons_of_mem _ this

theorem claim_all (c : Ctx) (hWF : c.t.WF) (hD : DAG c.g) (vals : Nat → Val)
    (hCons : Consistent c vals) : ∀ f, Claim c vals f := by
  intro f
  induction f with
  | zero => intro i _ _ _ _ hi; omega
  | succ f ih =>
    intro i seen out seen' out' hi hw
    have hif : i ≤ f := by omega
    cases hn : c.g.node i with
    | const =>
      simp only [writeNode, hn, Option.some.injEq, Prod.mk.injEq] at hw
      obtain ⟨rfl, rfl⟩ := hw
      refine ⟨[], by simp, FrameW.refl _ _, by simp [Node.isConst], ?_⟩
      intro n env s _ hR
      exact ⟨env, by simp [readNode, hn], hR, FrameR.refl _ _⟩
    | prim ty =>
      simp only [writeNode, hn] at hw
      by_cases hm : i ∈ seen
      · simp only [hm, if_true, Option.some.injEq, Prod.mk.injEq] at hw
        obtain ⟨rfl, rfl⟩ := hw
        refine ⟨[], by simp, FrameW.refl _ _, fun _ => hm, ?_⟩
        intro n env s hin hR
        have hk : (env.lookup i).isSome = true := (hR.keys_ok i hin).mp hm
        exact ⟨env, by simp [readNode, hn, hk], hR, FrameR.refl _ _⟩
      · simp only [hm, if_false] at hw
        cases hv : writeValue c.t (vals i) with
        | none => simp [hv] at hw
        | some b =>
          simp only [hv, Option.some.injEq, Prod.mk.injEq] at hw
          obtain ⟨rfl, rfl⟩ := hw
          have hty : (vals i).hasTy ty := by have := hCons i; simpa only [hn] using this
          refine ⟨b, rfl, ⟨fun j h => List.mem_cons_of_mem _ h, ?_⟩, fun _ => List.mem_cons_self .., ?_⟩
          · intro j hj; rw [List.mem_cons] at hj
            rcases hj with h | h
            · right; omega
            · exact Or.inl h
          · intro n env s hin hR
            have hnk : ¬ keyIn env i := fun h => hm ((hR.keys_ok i hin).mpr h)
            have hk : (env.lookup i).isSome = false := Bool.eq_false_iff.mpr hnk
            refine ⟨(i, vals i) :: env, ?_, ?_⟩
            · simp [readNode, hn, hk, value_roundtrip c.t hWF (vals i) ty hty b s hv]
            · have hcl := close_node (seen' := i :: seen) (env'' := env) hin hR hm
                (FrameW.refl _ _) (open_node hin hR) (FrameR.refl _ _)
              exact hcl
    | det deps op =>
      simp only [writeNode, hn] at hw
      by_cases hm : i ∈ seen
      · simp only [hm, if_true, Option.some.injEq, Prod.mk.injEq] at hw
        obtain ⟨rfl, rfl⟩ := hw
        refine ⟨[], by simp, FrameW.refl _ _, fun _ => hm, ?_⟩
        intro n env s hin hR
        have hk : (env.lookup i).isSome = true := (hR.keys_ok i hin).mp hm
        exact ⟨env, by simp [readNode, hn, hk], hR, FrameR.refl _ _⟩
      · simp only [hm, if_false] at hw
        have hdeps : ∀ d ∈ deps, d < i := by have := hD i; simpa only [hn] using this
        obtain ⟨enc, ho, hFW, hmem, hrd⟩ :=
          claim_list c vals f ih i hif deps (i :: seen) out seen' out' hdeps hw
        have hFW' : FrameW (i + 1) seen seen' :=
          ⟨fun j h => hFW.mono j (List.mem_cons_of_mem _ h), fun j h => by
            rcases hFW.new_lt j h with h' | h'
            · rw [List.mem_cons] at h'
              rcases h' with h' | h'
              · right; omega
              · exact Or.inl h'
            · right; omega⟩
        refine ⟨enc, ho, hFW', fun _ => hFW.mono _ (List.mem_cons_self ..), ?_⟩
        intro n env s hin hR
        obtain ⟨env2, hrs, hR2, hFR2⟩ := hrd i env s (Nat.le_refl _) (open_node hin hR)
        have hnk : ¬ keyIn env i := fun h => hm ((hR.keys_ok i hin).mpr h)
        have hk : (env.lookup i).isSome = false := Bool.eq_false_iff.mpr hnk
        have hval : c.eval op (deps.map (lookupD c env2)) = vals i := by
          have h1 : deps.map (lookupD c env2) = deps.map vals := by
            apply List.map_congr_left
            intro d hd
            exact lookupD_eq c vals hCons hR2 (hdeps d hd) (hmem d hd)
          rw [h1]; have := hCons i; simp only [hn] at this; exact this.symm
        refine ⟨(i, vals i) :: env2, ?_, close_node hin hR hm hFW hR2 hFR2⟩
        simp [readNode, hn, hk, hrs, hval]
    | mux idx opts =>
      simp only [writeNode, hn] at hw
      by_cases hm : i ∈ seen
      · simp only [hm, if_true, Option.some.injEq, Prod.mk.injEq] at hw
        obtain ⟨rfl, rfl⟩ := hw
        refine ⟨[], by simp, FrameW.refl _ _, fun _ => hm, ?_⟩
        intro n env s hin hR
        have hk : (env.lookup i).isSome = true := (hR.keys_ok i hin).mp hm
        exact ⟨env, by simp [readNode, hn, hk], hR, FrameR.refl _ _⟩
      · simp only [hm, if_false] at hw
        have hdag : idx < i ∧ ∀ o ∈ opts, o < i := by have := hD i; simpa only [hn] using this
        obtain ⟨k, hvk, hk0, hklt, hvi⟩ : ∃ k : Int, vals idx = .int k ∧ 0 ≤ k ∧
            k.toNat < opts.length ∧ vals i = vals (optAt opts k.toNat) := by
          have := hCons i; simpa only [hn] using this
        have ho_lt : optAt opts k.toNat < i := hdag.2 _ (getD_mem_of_lt hklt)
        cases hw1 : writeNode c vals f idx (i :: seen, out) with
        | none => simp [hw1] at hw
        | some st1 =>
          obtain ⟨seen1, out1⟩ := st1
          simp only [hw1, hvk, hk0, hklt, and_self, if_true] at hw
          obtain ⟨enc1, ho1, hF1, hm1, hr1⟩ := ih idx (i :: seen) out seen1 out1 (by omega) hw1
          obtain ⟨enc2, ho2, hF2, hm2, hr2⟩ :=
            ih (optAt opts k.toNat) seen1 out1 seen' out' (by omega) hw
          have hFW : FrameW i (i :: seen) seen' := hF1.trans hF2 (by omega) (by omega)
          have hFW' : FrameW (i + 1) seen seen' :=
            ⟨fun j h => hFW.mono j (List.mem_cons_of_mem _ h), fun j h => by
              rcases hFW.new_lt j h with h' | h'
              · rw [List.mem_cons] at h'
                rcases h' with h' | h'
                · right; omega
                · exact Or.inl h'
              · right; omega⟩
          refine ⟨enc1 ++ enc2, by rw [ho2, ho1, List.append_assoc], hFW',
            fun _ => hFW.mono _ (List.mem_cons_self ..), ?_⟩
          intro n env s hin hR
          obtain ⟨env1, hrd1, hR1, hFR1⟩ := hr1 i env (enc2 ++ s) hdag.1 (open_node hin hR)
          obtain ⟨env2, hrd2, hR2, hFR2⟩ := hr2 i env1 s ho_lt hR1
          have hnk : ¬ keyIn env i := fun h => hm ((hR.keys_ok i hin).mpr h)
          have hk : (env.lookup i).isSome = false := Bool.eq_false_iff.mpr hnk
          have hidx : lookupD c env1 idx = .int k := by
            rw [lookupD_eq c vals hCons hR1 hdag.1 hm1, hvk]
          have hopt : lookupD c env2 (optAt opts k.toNat) = vals i := by
            rw [lookupD_eq c vals hCons hR2 ho_lt hm2, hvi]
          refine ⟨(i, vals i) :: env2, ?_,
            close_node hin hR hm hFW hR2 (hFR1.trans hFR2 (by omega) (by omega))⟩
          rw [List.append_assoc]
          simp only [readNode, hn, hk, hrd1, hidx, hk0, hklt, hrd2, hopt, and_self,
            Bool.false_eq_true, ↓reduceIte]

/-- **Sample round trip.** For every DAG, consistent sample and roots, decoding what was encoded
    (followed by any suffix) succeeds, leaves exactly the suffix, stores only sampled values, and
    restores the value of every root. -/
theorem sample_roundtrip (c : Ctx) (hWF : c.t.WF) (hD : DAG c.g) (vals : Nat → Val)
    (hCons : Consistent c vals) (roots : List Nat) (hroots : ∀ r ∈ roots, r < c.g.length)
    (enc : Bytes) (hw : writeSample c vals roots = some enc) (s : Bytes) :
    ∃ env, readSample c roots (enc ++ s) = some (env, s) ∧
      (∀ j v, env.lookup j = some v → v = vals j) ∧
      (∀ r ∈ roots, lookupD c env r = vals r) := by
  unfold writeSample at hw
  cases hf : foldM (writeNode c vals c.g.length.succ) roots ([], []) with
  | none => simp [hf] at hw
  | some st =>
    obtain ⟨seen', out'⟩ := st
    simp only [hf, Option.map_some, Option.some.injEq] at hw
    subst hw
    have hC := claim_all c hWF hD vals hCons c.g.length.succ
    obtain ⟨enc, ho, hFW, hmem, hrd⟩ :=
      claim_list c vals _ hC c.g.length (Nat.le_succ _) roots [] [] seen' out' hroots hf
    simp only [List.nil_append] at ho
    subst ho
    have hR0 : Rel vals c.g.length [] ([] : Env) :=
      ⟨fun j v h => by simp [List.lookup] at h, fun j _ => by simp [keyIn, List.lookup]⟩
    obtain ⟨env, hrs, hR, _⟩ := hrd c.g.length [] s (Nat.le_refl _) hR0
    refine ⟨env, ?_, hR.vals_ok, ?_⟩
    · unfold readSample; exact hrs
    · intro r hr
      exact lookupD_eq c vals hCons hR (hroots r hr) (hmem r hr)

end Scenic.Sample

namespace Scenic.Sample
open Scenic.Codec

/-! ### truncation: the sample reader is extension-stable, hence refuses every strict prefix -/

def Mono (c : Ctx) (f : Nat) : Prop :=
  ∀ i env rest env' r x, readNode c f i (env, rest) = some (env', r) →
    readNode c f i (env, rest ++ x) = some (env', r ++ x)

theorem mono_list (c : Ctx) (f : Nat) (hM : Mono c f) :
    ∀ ds env rest env' r x, foldM (readNode c f) ds (env, rest) = some (env', r) →
      foldM (readNode c f) ds (env, rest ++ x) = some (env', r ++ x) := by
  intro ds
  induction ds with
  | nil =>
    intro env rest env' r x h
    simp only [foldM_nil, Option.some.injEq, Prod.mk.injEq] at h
    obtain ⟨rfl, rfl⟩ := h; rfl
  | cons d ds ih =>
    intro env rest env' r x h
    rw [foldM_cons] at h ⊢
    cases hd : readNode c f d (env, rest) with
    | none => simp [hd] at h
    | some st =>
      obtain ⟨e1, r1⟩ := st
      simp only [hd] at h
      rw [hM d env rest e1 r1 x hd]
      exact ih e1 r1 env' r x h

theorem mono_all (c : Ctx) : ∀ f, Mono c f := by
  intro f
  induction f with
  | zero => intro i env rest env' r x h; simp [readNode] at h
  | succ f ih =>
    intro i env rest env' r x h
    cases hn : c.g.node i with
    | const =>
      simp only [readNode, hn, Option.some.injEq, Prod.mk.injEq] at h ⊢
      exact ⟨h.1, by rw [h.2]⟩
    | prim ty =>
      simp only [readNode, hn] at h ⊢
      cases hk : (env.lookup i).isSome with
      | true =>
        simp only [hk, if_true, Option.some.injEq, Prod.mk.injEq] at h ⊢
        exact ⟨h.1, by rw [h.2]⟩
      | false =>
        simp only [hk, Bool.false_eq_true, if_false] at h ⊢
        cases hv : readValue c.t ty rest with
        | none => simp [hv] at h
        | some p =>
          obtain ⟨v, r1⟩ := p
          simp only [hv, Option.some.injEq, Prod.mk.injEq] at h
          simp only [readValue_mono c.t ty hv x, Option.some.injEq, Prod.mk.injEq]
          exact ⟨h.1, by rw [h.2]⟩
    | det deps op =>
      simp only [readNode, hn] at h ⊢
      cases hk : (env.lookup i).isSome with
      | true =>
        simp only [hk, if_true, Option.some.injEq, Prod.mk.injEq] at h ⊢
        exact ⟨h.1, by rw [h.2]⟩
      | false =>
        simp only [hk, Bool.false_eq_true, if_false] at h ⊢
        cases hv : foldM (readNode c f) deps (env, rest) with
        | none => simp [hv] at h
        | some p =>
          obtain ⟨e1, r1⟩ := p
          simp only [hv, Option.some.injEq, Prod.mk.injEq] at h
          simp only [mono_list c f ih deps env rest e1 r1 x hv, Option.some.injEq, Prod.mk.injEq]
          exact ⟨h.1, by rw [h.2]⟩
    | mux idx opts =>
      simp only [readNode, hn] at h ⊢
      cases hk : (env.lookup i).isSome with
      | true =>
        simp only [hk, if_true, Option.some.injEq, Prod.mk.injEq] at h ⊢
        exact ⟨h.1, by rw [h.2]⟩
      | false =>
        simp only [hk, Bool.false_eq_true, if_false] at h ⊢
        cases hv : readNode c f idx (env, rest) with
        | none => simp [hv] at h
        | some p =>
          obtain ⟨e1, r1⟩ := p
          simp only [hv] at h
          simp only [ih idx env rest e1 r1 x hv]
          cases hl : lookupD c e1 idx with
          | int k =>
            simp only [hl] at h ⊢
            by_cases hc : 0 ≤ k ∧ k.toNat < opts.length
            · simp only [hc, and_self, if_true] at h ⊢
              cases hv2 : readNode c f (optAt opts k.toNat) (e1, r1) with
              | none => simp [hv2] at h
              | some p2 =>
                obtain ⟨e2, r2⟩ := p2
                simp only [hv2, Option.some.injEq, Prod.mk.injEq] at h
                simp only [ih _ e1 r1 e2 r2 x hv2, Option.some.injEq, Prod.mk.injEq]
                exact ⟨h.1, by rw [h.2]⟩
            · simp only [hc, if_false] at h
              exact absurd h (by simp)
          | none => simp [hl] at h
          | float _ => simp [hl] at h
          | bool _ => simp [hl] at h
          | bytes _ => simp [hl] at h
          | vector _ => simp [hl] at h
          | orientation _ => simp [hl] at h

/-- **Truncated samples are refused**: the reader fails on every strict prefix of an encoding. -/
theorem sample_truncation_refused (c : Ctx) (hWF : c.t.WF) (hD : DAG c.g) (vals : Nat → Val)
    (hCons : Consistent c vals) (roots : List Nat) (hroots : ∀ r ∈ roots, r < c.g.length)
    (enc : Bytes) (hw : writeSample c vals roots = some enc)
    (p q : Bytes) (hpq : enc = p ++ q) (hq : q ≠ []) : readSample c roots p = none := by
  obtain ⟨env, hr, _, _⟩ := sample_roundtrip c hWF hD vals hCons roots hroots enc hw []
  rw [List.append_nil] at hr
  cases hp : readSample c roots p with
  | none => rfl
  | some st =>
    obtain ⟨e1, r1⟩ := st
    unfold readSample at hp hr
    have := mono_list c _ (mono_all c _) roots [] p e1 r1 q hp
    rw [← hpq, hr] at this
    simp only [Option.some.injEq, Prod.mk.injEq] at this
    have h2 : r1 ++ q = [] := this.2.symm
    simp at h2
    exact absurd h2.2 hq

/-! ### header -/

/-- A scene written under header `h` is refused by a reader whose header differs in format version,
    program hash or compile-options hash (hashes are 4 bytes, versions fit in 2 bytes). -/
theorem scene_header_refuses_mismatch (c : Ctx) (h h' : Header) (vals : Nat → Val)
    (roots : List Nat) (enc : Bytes) (hw : writeScene c h vals roots = some enc)
    (hv : h.version < 256 ^ 2) (ha : h.astHash.length = 4) (ho : h.optHash.length = 4)
    (hne : h.version ≠ h'.version ∨ h.astHash ≠ h'.astHash ∨ h.optHash ≠ h'.optHash) :
    readScene c h' roots enc = none := by
  unfold writeScene at hw
  cases hs : writeSample c vals roots with
  | none => simp [hs] at hw
  | some body =>
    simp only [hs, Option.map_some, Option.some.injEq] at hw
    subst hw
    unfold readScene
    have h2 : readExact 2 (toLE h.version 2 ++ h.astHash ++ h.optHash ++ body)
        = some (toLE h.version 2, h.astHash ++ h.optHash ++ body) := by
      have := readExact_append (toLE h.version 2) (h.astHash ++ h.optHash ++ body)
      rw [length_toLE] at this
      simpa [List.append_assoc] using this
    rw [h2]
    simp only [fromLE_toLE _ _ hv]
    by_cases hver : h.version = h'.version
    · simp only [hver, ne_eq, not_true_eq_false, if_false]
      have ht : (h.astHash ++ h.optHash ++ body).take 4 = h.astHash := by
        rw [List.append_assoc, ← ha, List.take_left']; rfl
      have hd : (h.astHash ++ h.optHash ++ body).drop 4 = h.optHash ++ body := by
        rw [List.append_assoc, ← ha, List.drop_left']; rfl
      rw [ht, hd]
      by_cases hast : h.astHash = h'.astHash
      · simp only [hast, ne_eq, not_true_eq_false, if_false]
        have ht2 : (h.optHash ++ body).take 4 = h.optHash := by
          rw [← ho, List.take_left']; rfl
        rw [ht2]
        have hopt : h.optHash ≠ h'.optHash := by
          rcases hne with h1 | h1 | h1
          · exact absurd hver h1
          · exact absurd hast h1
          · exact h1
        simp [hopt]
      · simp [hast]
    · simp [hver]

/-- with the same header the scene decodes (header + sample round trip) -/
theorem scene_roundtrip (c : Ctx) (hWF : c.t.WF) (hD : DAG c.g) (h : Header) (vals : Nat → Val)
    (hCons : Consistent c vals) (roots : List Nat) (hroots : ∀ r ∈ roots, r < c.g.length)
    (enc : Bytes) (hw : writeScene c h vals roots = some enc)
    (hv : h.version < 256 ^ 2) (ha : h.astHash.length = 4) (ho : h.optHash.length = 4) (s : Bytes) :
    ∃ env, readScene c h roots (enc ++ s) = some (env, s) ∧
      (∀ r ∈ roots, lookupD c env r = vals r) := by
  unfold writeScene at hw
  cases hs : writeSample c vals roots with
  | none => simp [hs] at hw
  | some body =>
    simp only [hs, Option.map_some, Option.some.injEq] at hw
    subst hw
    obtain ⟨env, hr, _, hroot⟩ := sample_roundtrip c hWF hD vals hCons roots hroots body hs s
    refine ⟨env, ?_, hroot⟩
    unfold readScene
    have h2 : readExact 2 (toLE h.version 2 ++ h.astHash ++ h.optHash ++ body ++ s)
        = some (toLE h.version 2, h.astHash ++ h.optHash ++ body ++ s) := by
      have := readExact_append (toLE h.version 2) (h.astHash ++ h.optHash ++ body ++ s)
      rw [length_toLE] at this
      simpa [List.append_assoc] using this
    rw [h2]
    simp only [fromLE_toLE _ _ hv, ne_eq, not_true_eq_false, if_false]
    have ht : (h.astHash ++ h.optHash ++ body ++ s).take 4 = h.astHash := by
      rw [List.append_assoc, List.append_assoc, ← ha, List.take_left']; rfl
    have hd : (h.astHash ++ h.optHash ++ body ++ s).drop 4 = h.optHash ++ (body ++ s) := by
      rw [List.append_assoc, List.append_assoc, ← ha, List.drop_left']; rfl
    rw [ht, hd]
    have ht2 : (h.optHash ++ (body ++ s)).take 4 = h.optHash := by
      rw [← ho, List.take_left']; rfl
    have hd2 : (h.optHash ++ (body ++ s)).drop 4 = body ++ s := by
      rw [← ho, List.drop_left']; rfl
    simp only [ht2, hd2, not_true_eq_false, if_false]
    exact hr

end Scenic.Sample

namespace Scenic.Sample
open Scenic.Codec

/-! ### non-vacuity: a concrete DAG with sharing, a deterministic node and a multiplexer -/

/-- nodes: 0 `DiscreteRange` (int), 1 `Range` (float), 2 constant, 3 = f(0, 1, 2) deterministic,
    4 = multiplexer on 0 over [1, 3, 2], 5 = g(4, 0) deterministic -/
def exGraph : Graph :=
  [.prim .int, .prim .float, .const, .det [0, 1, 2] 7, .mux 0 [1, 3, 2], .det [4, 0] 8]

def exCtx : Ctx :=
  { t := refTable, g := exGraph, eval := fun op args => if op = 7 then .int 42 else args.headD .none,
    cv := fun _ => .bool true }

def exVals : Nat → Val
  | 0 => .int 1
  | 1 => .float [1, 2, 3, 4, 5, 6, 7, 8]
  | 3 => .int 42
  | 4 => .int 42
  | 5 => .int 42
  | _ => .bool true

example : DAG exGraph := by
  intro i
  match i with
  | 0 | 1 | 2 => simp [Graph.node, exGraph]
  | 3 => simp [Graph.node, exGraph]
  | 4 => simp [Graph.node, exGraph]
  | 5 => simp [Graph.node, exGraph]
  | n + 6 => simp [Graph.node, exGraph]

example : Consistent exCtx exVals := by
  intro i
  match i with
  | 0 => simp [Graph.node, exCtx, exGraph, exVals, Val.hasTy]
  | 1 => simp [Graph.node, exCtx, exGraph, exVals, Val.hasTy]
  | 2 => simp [Graph.node, exCtx, exGraph, exVals]
  | 3 => simp [Graph.node, exCtx, exGraph, exVals]
  | 4 => exact ⟨1, by simp [exVals, optAt]⟩
  | 5 => simp [Graph.node, exCtx, exGraph, exVals]
  | n + 6 => simp [Graph.node, exCtx, exGraph, exVals]

/-- the multiplexer chooses option 1 (node 3), whose dependencies 0 and 1 were already written:
    the encoding is the int `1` followed by the 8 float bytes, written once despite the sharing -/
example : writeSample exCtx exVals [5, 3, 4, 0] = some [1, 1, 2, 3, 4, 5, 6, 7, 8] := by decide

example : (readSample exCtx [5, 3, 4, 0] [1, 1, 2, 3, 4, 5, 6, 7, 8, 99]).map (·.2) = some [99] := by
  decide

end Scenic.Sample
