/-! # C04 — property theorems (stub: filled in when the property's model is built) -/
namespace Scenic.C04
end Scenic.C04
