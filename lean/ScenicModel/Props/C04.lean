import ScenicModel.Props.C04Tree
import ScenicModel.Props.C04Planar
import ScenicModel.Props.C04Geo
import ScenicModel.Props.C04Surf
import ScenicModel.Gen.Solid

/-!
# C04 — object overlap and containment tests agree with exact solid geometry

Property theorems **instantiated on the pass data regenerated from `/repo`** (`Gen/Solid.lean`): the side
conditions `gen_*_sound` are re-proved on every run against the comparators / operands / connectives /
constants extracted from the current source; the theorems then say that the decision procedures *as
written in `/repo`* return the ground truth through every exit, for all solids and all observation
vectors satisfying the stated contracts.

Full statement of the property (for reference): for all pairs of objects / object–region pairs the
answers of `intersects`, `containsObject`, `minimumDistanceTo` agree with exact solid geometry outside
the numerical tolerance of touching, and every shortcut agrees with the exhaustive computation.

What is proved here is the decision logic under contracts about FCL/trimesh/shapely (assumptions,
validated by the correspondence run), plus — without any contract — that the precomputed per-shape
geometry survives the rigid placement of a shape and that `_circumradius` bounds the region about its
`position` through each of its three branches (`circumradius_bounds`), which is the content of the contract
`IntersectContract.circA`.  (Before `fix: measure the fallback circumradius of a MeshVolumeRegion about its
position` the fall-back branch measured about the origin and `circA` was false of `/repo`; the side
condition `gen_fallback_center` now pins the extracted centre to `.position`, and
`Solid.fallback_origin_not_bound` records why nothing weaker would do.)
-/
-- the side-condition scripts are deliberately redundant (robust against equivalent rewrites of /repo)
set_option linter.unusedTactic false
set_option linter.unreachableTactic false
set_option linter.unnecessarySeqFocus false

namespace Scenic.C04
open Scenic.Solid Scenic.Gen Metric Set

/-! ## side conditions on the generated data (re-proved on every run) -/

theorem gen_intersect_sound : intersectCfg.Sound where
  p1 := by intro o h; simp [intersectCfg, Cmp.eval] at h; linarith
  p1Ret := by simp [intersectCfg]
  p2Guard := by intro a b h; cases a <;> cases b <;> simp_all [intersectCfg, Conn.eval]
  p2aIn := by intro o h; simp [intersectCfg, Cmp.eval] at h; linarith
  p2aInRet := by simp [intersectCfg]
  p2aCirc := by intro o h; simp [intersectCfg, Cmp.eval] at h; linarith
  p2aCircRet := by simp [intersectCfg]
  p2bRet := by simp [intersectCfg]
  p3HitRet := by simp [intersectCfg]
  p3Convex := by intro a b h; cases a <;> cases b <;> simp_all [intersectCfg, Conn.eval]
  p4Bodies := by simp [intersectCfg]
  p4Guard := by intro a b h; cases a <;> cases b <;> simp_all [intersectCfg, Conn.eval]
  p4Conn := by intro a b; cases a <;> cases b <;> simp [intersectCfg, Conn.eval]
  p5Negate := by simp [intersectCfg]

theorem gen_contain_sound : containCfg.Sound where
  p1Ret := by simp [containCfg]
  p2Corner := by intro x h; simp [containCfg, Cmp.eval] at h; linarith
  p2CornerRet := by simp [containCfg]
  p2Vert := by
    intro x
    simp only [containCfg, Cmp.eval, decide_eq_true_eq]
    try (constructor <;> intro h <;> linarith)
  p3OutRet := by simp [containCfg]
  p3 := by intro o h; simp [containCfg, Cmp.eval] at h; linarith
  p3Ret := by simp [containCfg]
  p4 := by intro o h; simp [containCfg, Cmp.eval] at h; linarith
  p4Ret := by simp [containCfg]
  p5Negate := by simp [containCfg]

theorem gen_foot_sound : footCfg.Sound where
  hullRet := by simp [footCfg]

theorem gen_planar_sound : planarCfg.Sound where
  needsBox := by simp [planarCfg]
  pitch := by intro x h; simp [planarCfg, Cmp.eval] at h; linarith
  roll := by intro x h; simp [planarCfg, Cmp.eval] at h; linarith

theorem gen_obj_sound : objCfg.Sound where
  z := by
    intro o
    simp only [objCfg, Cmp.eval, decide_eq_true_eq]
    try (constructor <;> intro h <;> linarith)
  zRet := by simp [objCfg]
  r := by intro o h; simp [objCfg, Cmp.eval] at h; linarith

theorem gen_dist_sound : distCfg.Sound where
  z := by intro a b h; simp [distCfg, Cmp.eval] at h; linarith

theorem gen_voldist_sound : volDistCfg.Sound where
  pos := by
    intro x
    simp only [volDistCfg, Cmp.eval, decide_eq_true_eq]
    try (constructor <;> intro h <;> linarith)
  conn := by intro a b; cases a <;> cases b <;> simp [volDistCfg, Conn.eval]
  nestedRet := by simp [volDistCfg]
  bvhOnly := by simp [volDistCfg]

theorem gen_convex_sound : convexCfg.Sound where
  overrideFirst := by simp [convexCfg]
  needsTrimesh := by simp [convexCfg]
  vol := by
    intro o h hnn
    simp only [convexCfg, Cmp.eval, decide_eq_true_eq] at h
    linarith

/-- the fall-back branch of `_circumradius` measures the vertices about the region's `position` -/
theorem gen_fallback_center : fallbackCenter = .position := by decide

/-! ## the property theorems for the procedures as written in `/repo` -/

variable {E : Type*} [NormedAddCommGroup E] [NormedSpace ℝ E]

/-- `MeshVolumeRegion.intersects`: every exit returns `A ∩ B ≠ ∅` -/
theorem intersects_correct {A B : Set E} {cA cB pA pB : E} {o : IntersectObs}
    (h : IntersectContract A B cA cB pA pB o) :
    (intersects intersectCfg o).1 = true ↔ (A ∩ B).Nonempty :=
  Solid.intersects_correct _ gen_intersect_sound h

/-- every shortcut of `intersects` agrees with the exhaustive boolean intersection -/
theorem intersects_eq_exhaustive {A B : Set E} {cA cB pA pB : E} {o : IntersectObs}
    (h : IntersectContract A B cA cB pA pB o) :
    (intersects intersectCfg o).1 = !o.boolEmpty :=
  Solid.intersects_eq_exhaustive _ gen_intersect_sound h

/-- `MeshVolumeRegion.containsObject`: every exit returns `B ⊆ A` -/
theorem containsObject_correct {A B K V : Set E} {cand rcand : E} {o : ContainObs}
    (h : ContainContract A B K V cand rcand o) :
    (containsObject containCfg o).1 = true ↔ B ⊆ A :=
  Solid.containsObject_correct _ gen_contain_sound h

/-- every shortcut of `containsObject` agrees with the exhaustive boolean difference -/
theorem containsObject_eq_exhaustive {A B K V : Set E} {cand rcand : E} {o : ContainObs}
    (h : ContainContract A B K V cand rcand o) :
    (containsObject containCfg o).1 = o.diffEmpty :=
  Solid.containsObject_eq_exhaustive _ gen_contain_sound h

/-- `PolygonalFootprintRegion.containsObject`: every exit returns `B ⊆ F × ℝ` -/
theorem footprintContains_correct {α : Type*} {B : Set (α × ℝ)} {F Q H : Set α} {o : FootObs}
    (h : FootContract B F Q H o) :
    (footprintContains footCfg o).1 = true ↔ B ⊆ cylinder F :=
  Solid.footprintContains_correct _ gen_foot_sound h

/-- `Object._isPlanarBox` holds only for boxes with pitch = roll = 0 -/
theorem isPlanarBox_sound (isBox : Bool) (pitch roll : Rat)
    (h : isPlanarBox planarCfg isBox pitch roll = true) : isBox = true ∧ pitch = 0 ∧ roll = 0 :=
  Solid.isPlanarBox_sound _ gen_planar_sound isBox pitch roll h

/-- `Object.intersects`: every exit (planar fast paths included) returns the ground truth -/
theorem objectIntersects_correct {α : Type*} {SA SB : Set (α × ℝ)} {P1 P2 : Set α} {o : ObjObs}
    (h : ObjContract SA SB P1 P2 o) :
    (objectIntersects objCfg o).1 = true ↔ (SA ∩ SB).Nonempty :=
  Solid.objectIntersects_correct _ gen_obj_sound h

/-- `Object.minimumDistanceTo`: never positive on overlap, the true gap otherwise -/
theorem min_dist_sign {α : Type*} [MetricSpace α] {SA SB : Set (α × ℝ)} {P1 P2 : Set α} {hS hO : ℝ}
    {o : DistObs} (h : DistContract SA SB P1 P2 hS hO volDistCfg o) :
    (((minimumDistance distCfg volDistCfg o).1 : ℝ) ≤ 0 ↔ (SA ∩ SB).Nonempty) ∧
    (0 < ((minimumDistance distCfg volDistCfg o).1 : ℝ) →
      IsGap dist3 SA SB ((minimumDistance distCfg volDistCfg o).1 : ℝ)) :=
  Solid.min_dist_sign _ gen_dist_sound _ gen_voldist_sound h

/-- `MeshVolumeRegion.minimumDistanceTo`: never positive on overlap — nested volumes included, although
FCL's BVH models are surfaces —, the true gap otherwise -/
theorem volumeMinimumDistance_correct {β : Type*} {δ : β → β → ℝ} {SA SB : Set β} {o : VolDistObs}
    (h : VolDistContract δ SA SB volDistCfg o) :
    (((volumeMinimumDistance volDistCfg o).1 : ℝ) ≤ 0 ↔ (SA ∩ SB).Nonempty) ∧
    (0 < ((volumeMinimumDistance volDistCfg o).1 : ℝ) →
      IsGap δ SA SB ((volumeMinimumDistance volDistCfg o).1 : ℝ)) :=
  Solid.volumeMinimumDistance_correct _ gen_voldist_sound h

/-- `MeshVolumeRegion.isConvex`: a constructor override is returned as is; otherwise `true` only for meshes
that pass trimesh's edge test and fill their convex hull up to 1/1000 -/
theorem isConvexFlag_sound (o : ConvexObs) :
    (∀ b, o.override = some b → isConvexFlag convexCfg o = b) ∧
    (o.override = none → isConvexFlag convexCfg o = true → 0 ≤ o.hullVol →
      o.trimeshConvex = true ∧ o.hullVol - o.vol ≤ o.hullVol / 1000) :=
  Solid.isConvexFlag_sound _ gen_convex_sound o

/-- `MeshVolumeRegion._circumradius` **as written in `/repo`** bounds every vertex of the region about the
region's `position`, whichever of its three branches is taken, for every rotation / position / dimensions /
vertex list -/
theorem circumradius_bounds (R : Mat3) (hR : R.isOrtho = true) (pos : V3) (verts : List V3)
    (src : CircSource) (hg : CircGeom R pos verts src) (v : V3) (hv : v ∈ verts) :
    V3.distSq v pos ≤ circumradiusSq fallbackCenter src pos verts := by
  rw [gen_fallback_center]
  exact Solid.circumradius_bounds R hR pos verts src hg v hv

/-! ## the hypotheses are satisfiable (concrete, non-trivial instances) -/

/-- two unit balls of the real line, 3 apart: answered by PASS 1 -/
def obsApart : IntersectObs :=
  { centerDist := 3, circS := 1, circO := 1, scaledS := false, scaledO := false, pointDist := 3,
    inS := 1, inO := 1, pcircS := 1, pcircO := 1, bbOverlap := false, collide := false,
    convexS := true, convexO := true, bodiesS := 1, bodiesO := 1, sHasO := false, oHasS := false,
    boolEmpty := true }

private theorem apart_disjoint : Disjoint (closedBall (0 : ℝ) 1) (closedBall (3 : ℝ) 1) :=
  SolidLemmas.spheres_apart_disjoint (subset_refl _) (subset_refl _) (by norm_num [Real.dist_eq])

private theorem apart_empty : ¬ (closedBall (0 : ℝ) 1 ∩ closedBall (3 : ℝ) 1).Nonempty := by
  rw [Set.not_nonempty_iff_eq_empty]; exact apart_disjoint.inter_eq

example : IntersectContract (closedBall (0 : ℝ) 1) (closedBall (3 : ℝ) 1) 0 3 0 3 obsApart where
  circA := by simp [obsApart]
  circB := by simp [obsApart]
  centerDist := by norm_num [obsApart, Real.dist_eq]
  ipA := by simp [obsApart]
  ipB := by simp [obsApart]
  pointDist := by norm_num [obsApart, Real.dist_eq]
  bbox := fun _ => apart_disjoint
  collideSound := by simp [obsApart]
  collideConvex := fun _ _ hn => absurd hn apart_empty
  singleBody := fun _ _ _ => ⟨fun hn => absurd hn apart_empty, by simp [obsApart]⟩
  boolean := ⟨fun _ => apart_empty, fun _ => rfl⟩

example : intersects intersectCfg obsApart = (false, .p1) := by
  simp [intersects, intersectCfg, obsApart, Cmp.eval] <;> norm_num

/-- a unit ball inside a ball of radius 10 (container treated as non-convex): answered by PASS 3 -/
def obsInside : ContainObs :=
  { bbOverlap := true, convex := false, minCornerSd := 0, minVertexSd := 0, candAvail := true,
    regionHasCand := true, objCirc := 1, sdCand := 10, regCandAvail := false, regCirc := 0,
    objMaxDist := 0, diffEmpty := true }

example : ContainContract (closedBall (0 : ℝ) 10) (closedBall (0 : ℝ) 1) ∅ ∅ 0 0 obsInside where
  nonempty := ⟨0, by simp⟩
  bbox := by simp [obsInside]
  convexA := by simp [obsInside]
  cornersHull := by simp [obsInside]
  cornersIn := by simp [obsInside]
  vertsHull := by simp [obsInside]
  vertsIn := by simp [obsInside]
  vertsOut := by simp [obsInside]
  candIn := fun _ => by simp
  candOut := by simp [obsInside]
  objCirc := fun _ => by simp [obsInside]
  regionBall := fun _ _ => by
    simp only [obsInside]
    norm_num
    exact ball_subset_closedBall
  regCirc := by simp [obsInside]
  objFar := by simp [obsInside]
  boolean := ⟨fun _ => closedBall_subset_closedBall (by norm_num), fun _ => rfl⟩

example : containsObject containCfg obsInside = (true, .p3Ball) := by
  simp [containsObject, containCfg, obsInside, Cmp.eval, absQ] <;> norm_num

/-- two planar boxes over the same footprint, heights 2, centres 1 apart in z: the planar fast path -/
def obsPlanar : ObjObs :=
  { selfPlanar := true, otherIsObject := true, otherPlanar := true, otherIsPolygonal := false,
    zS := 0, zO := 1, hS := 2, hO := 2, polyIntersects := true, volumeAnswer := true }

example : ObjContract (prism (univ : Set Unit) 0 2) (prism (univ : Set Unit) 1 2) univ univ obsPlanar where
  hS := by norm_num [obsPlanar]
  hO := by norm_num [obsPlanar]
  planarS := fun _ => by simp [obsPlanar]
  planarO := fun _ _ => by simp [obsPlanar]
  polygonal := by simp [obsPlanar]
  poly := by simp [obsPlanar]
  volume := by
    simp only [obsPlanar, true_iff]
    exact ⟨((), 1 / 2), ⟨trivial, by show |(1 / 2 : ℝ) - 0| ≤ 2 / 2; norm_num [abs_le]⟩,
      ⟨trivial, by show |(1 / 2 : ℝ) - 1| ≤ 2 / 2; norm_num [abs_le]⟩⟩

example : objectIntersects objCfg obsPlanar = (true, .planarPoly) := by
  simp [objectIntersects, objCfg, obsPlanar, Cmp.eval, absQ] <;> norm_num

/-- certificates: two unit cubes 3 apart are separated along x; a cube shares its centre with itself -/
def cubeAt (x : Rat) : Box := { c := (x, 0, 0), a1 := (1, 0, 0), a2 := (0, 1, 0), a3 := (0, 0, 1) }

example : sepCheck (cubeAt 0) (cubeAt 3) (1, 0, 0) (1, 0, 0) (1, 0, 0) = true := by
  simp [sepCheck, sepGap, cubeAt, Box.lin, Box.support, V3.add, V3.smul, V3.sub, V3.dot, absQ] <;> norm_num

example : witnessCheck (cubeAt 0) (cubeAt 1) (1 / 2, 0, 0) = true := by
  simp [witnessCheck, Box.has, slabHas, cubeAt, V3.sub, V3.dot] <;> norm_num

/-! ## minimum distance, convexity flag, circumradius: concrete non-trivial instances -/

/-- a small cube nested in a non-convex solid: FCL's surface distance is 9/10, the answer is 0 -/
example : volumeMinimumDistance volDistCfg { fclDist := 9 / 10, volIntersects := true } = (0, true) := by
  simp [volumeMinimumDistance, volDistCfg, Cmp.eval, Conn.eval] <;> norm_num

/-- two unit balls of the real line 3 apart: the contract is satisfiable and the gap 1 is returned -/
example : VolDistContract (fun a b : ℝ => dist a b) (closedBall (0 : ℝ) 1) (closedBall (3 : ℝ) 1) volDistCfg
    { fclDist := 1, volIntersects := false } where
  fclGap := fun _ _ => by
    refine ⟨by norm_num, ?_, ⟨1, by simp, 2, by simp [Real.dist_eq]; norm_num [abs_le], by norm_num [Real.dist_eq]⟩⟩
    intro a ha b hb
    rw [mem_closedBall, Real.dist_eq, abs_le] at ha hb
    show ((1 : Rat) : ℝ) ≤ dist a b
    rw [Real.dist_eq]
    have : a - b ≤ -1 := by linarith [ha.2, hb.1]
    rw [abs_of_nonpos (by linarith)]
    push_cast
    linarith
  intersectsTruth := by
    simp only [Bool.false_eq_true, false_iff]
    exact apart_empty

/-- the union of two touching boxes (an L): passes trimesh's edge test, volume 81/8, hull volume 189/16 -/
example : isConvexFlag convexCfg { override := none, trimeshConvex := true, vol := 81 / 8, hullVol := 189 / 16 } = false := by
  simp [isConvexFlag, convexCfg, Cmp.eval] <;> norm_num

example : isConvexFlag convexCfg { override := none, trimeshConvex := true, vol := 8, hullVol := 8 } = true := by
  simp [isConvexFlag, convexCfg, Cmp.eval] <;> norm_num

/-- rotation by 90° about z -/
def rotZ : Mat3 := ((0, -1, 0), (1, 0, 0), (0, 0, 1))

example : rotZ.isOrtho = true := by
  simp [Mat3.isOrtho, rotZ]

/-- the cube `[-1,1]³` written around the position `(5,0,0)` (the old negation witness): the fall-back
    branch as written in `/repo` now returns radius² 3 about the position, which bounds the corner -/
example : circumradiusSq fallbackCenter .fallback (5, 0, 0) [(6, 1, 1), (4, -1, -1)] = 3 := by
  rw [gen_fallback_center]
  simp [circumradiusSq, fallbackCircSq, maxQ, V3.distSq, V3.normSq, V3.dot, V3.sub] <;> norm_num

example : CircGeom rotZ (5, 0, 0) [(4, 1, 1)] (.scaled [(1, 1, 1)]) :=
  .scaled _ (by simp [rigid, rotZ, Mat3.mulVec, V3.dot, V3.add]; norm_num)

/-! ## round 4: volume against surface / footprint (slab cache) / region in region, on the generated data -/

theorem gen_surf_sound : surfCfg.Sound where
  p1Ret := by simp [surfCfg]
  p2Ret := by simp [surfCfg]
  p3Negate := by simp [surfCfg]

theorem gen_slab_sound : slabCfg.Sound where
  heightNonneg := by intro lo hi h; simp only [slabCfg]; linarith
  covers := by intro lo hi h; simp only [slabCfg]; constructor <;> linarith
  cache := by
    intro pc ph cz h hit
    have hit' : decide (cz + h / 2 < pc + ph / 2) = true ∧ decide (pc - ph / 2 < cz - h / 2) = true := by
      simpa [slabCfg, Cmp.eval, Conn.eval] using hit
    simp only [decide_eq_true_eq] at hit'
    constructor <;> linarith [hit'.1, hit'.2]
  padded := by
    intro cz h hh
    simp only [slabCfg, maxR]
    split <;> nlinarith

theorem gen_inner_sound : innerCfg.Sound where
  swapped := by simp [innerCfg]
  negate := by simp [innerCfg]

/-- `MeshVolumeRegion.intersects(MeshSurfaceRegion)` as written in `/repo`: every exit returns the ground truth -/
theorem intersectsSurface_correct {β : Type*} {A S : Set β} {v0 : β} {o : SurfObs} (h : SurfContract A S v0 o) :
    (intersectsSurface surfCfg o).1 = true ↔ (A ∩ S).Nonempty :=
  Solid.intersectsSurface_correct _ gen_surf_sound h

/-- the slab that `approxBoundFootprint` as written in `/repo` hands back covers the mesh, for **every** history of
queries against the footprint and every initial cache -/
theorem slabHistory_covers (qs : List (Rat × Rat)) (cache : Option (Rat × Rat)) (h : ∀ q ∈ qs, q.1 ≤ q.2) :
    List.Forall₂ (fun q s => slabLo s ≤ q.1 ∧ q.2 ≤ slabHi s) qs (slabHistory slabCfg cache qs) :=
  Solid.slabHistory_covers _ gen_slab_sound qs cache h

/-- `MeshVolumeRegion.intersects(PolygonalFootprintRegion)` as written in `/repo`: cutting the footprint to the
(possibly cached) slab does not change the answer -/
theorem intersectsFootprint_correct {α : Type*} (cache : Option (Rat × Rat)) (lo hi : Rat) (hlh : lo ≤ hi)
    {A : Set (α × ℝ)} {F : Set α} (hA : ∀ x ∈ A, ((lo : Rat) : ℝ) ≤ x.2 ∧ x.2 ≤ ((hi : Rat) : ℝ)) (ans : Bool)
    (hans : ans = true ↔ (A ∩ slabPrism F (footprintSlab slabCfg cache lo hi).1).Nonempty) :
    ans = true ↔ (A ∩ cylinder F).Nonempty :=
  Solid.intersectsFootprint_correct _ gen_slab_sound cache lo hi hlh hA ans hans

/-- `MeshVolumeRegion.containsRegionInner(MeshVolumeRegion)` as written in `/repo` -/
theorem containsRegionInner_correct {β : Type*} {A B : Set β} (e1 e2 : Bool) (h1 : e1 = true ↔ B \ A = ∅) :
    containsRegionInner innerCfg e1 e2 = true ↔ B ⊆ A :=
  Solid.containsRegionInner_correct _ gen_inner_sound e1 e2 h1

/-- a surface (the two end points of `[2,3]`) strictly inside the volume `[0,5]` of the real line: no collision,
    answered by PASS 3 through the first vertex -/
example : SurfContract (Set.Icc (0 : ℝ) 5) ({2, 3} : Set ℝ) 2 { bbOverlap := true, collide := false, hasFirst := true } where
  bbox := by simp
  collideSound := by simp
  allOrNone := fun _ => Or.inl (by intro x hx; rcases hx with rfl | rfl <;> constructor <;> norm_num)
  first := by simp
  hasFirst := by simp; norm_num

example : intersectsSurface surfCfg { bbOverlap := true, collide := false, hasFirst := true } = (true, .p3) := by
  simp [intersectsSurface, surfCfg]

/-- a history: a mesh at heights [0,1] (slab [-99.5, 100.5] is built and cached), one at [3,4] (cache re-used),
    one at [150,151] (not covered: rebuilt) -/
example : slabHistory slabCfg none [(0, 1), (3, 4), (150, 151)] =
    [(1 / 2, 200), (1 / 2, 200), (301 / 2, 30100)] := by
  simp [slabHistory, footprintSlab, approxBound, slabCfg, Cmp.eval, Conn.eval, maxR] <;> norm_num

example : (footprintSlab slabCfg (some (1 / 2, 200)) 3 4).2.2 = true := by
  simp [footprintSlab, approxBound, slabCfg, Cmp.eval, Conn.eval] <;> norm_num

example : containsRegionInner innerCfg true false = true := by simp [containsRegionInner, innerCfg]
example : (true = true ↔ (Set.Icc (1 : ℝ) 2) \ (Set.Icc (0 : ℝ) 5) = ∅) := by
  simp only [true_iff, Set.diff_eq_empty]; exact Set.Icc_subset_Icc (by norm_num) (by norm_num)

end Scenic.C04
