import ScenicModel.Model.RoadAdjacency
/-!
# C20 — the adjacency links of lane sections are reciprocal by construction

For every set of lane ids of a road section (0 is never a lane), the `_laneToLeft` / `_laneToRight` /
`_fasterLane` / `_slowerLane` / `adjacentLanes` that `toScenicRoad` assigns satisfy the reciprocity
rules of `Model/Roads.lean` (`invIf laneSection left right left`, `invIf laneSection right left right`,
faster ⇄ slower, symmetric and irreflexive adjacency).
-/
namespace Scenic.C20
open Scenic.RoadAdj

def leftRef (id : Int) : Int :=
  if id < -1 then id + 1 else if id = -1 then 1 else if id = 1 then -1 else id - 1

def rightRef (id : Int) : Int := if id < 0 then id - 1 else id + 1

/-- what the adjacency theorems need of the generated chains: they compute `leftRef` / `rightRef` (as
functions — any equivalent way of writing the `if` chains will do) and faster / slower lanes of the
other direction are discarded -/
structure AdjWF (c : Cfg) : Prop where
  left : ∀ id, evalChain c.left id = leftRef id
  right : ∀ id, evalChain c.right id = rightRef id
  drop : c.dropOpposite = true

theorem evalChain_left (id : Int) : evalChain refCfg.left id = leftRef id := by
  simp only [refCfg, evalChain, Guard.holds, Expr.eval, leftRef]
  by_cases h1 : id < -1
  · simp [h1]
  · by_cases h2 : id = -1
    · subst h2; decide
    · by_cases h3 : id = 1
      · subst h3; decide
      · simp [h1, h2, h3]; omega

theorem evalChain_right (id : Int) : evalChain refCfg.right id = rightRef id := by
  simp only [refCfg, evalChain, Guard.holds, Expr.eval, rightRef]
  by_cases h1 : id < 0
  · simp [h1]; omega
  · simp [h1]

theorem refCfg_wf : AdjWF refCfg := ⟨evalChain_left, evalChain_right, rfl⟩

theorem leftRef_ne_zero {id : Int} (h : id ≠ 0) : leftRef id ≠ 0 := by
  unfold leftRef; split <;> (try split) <;> (try split) <;> omega

theorem rightRef_ne_zero {id : Int} (h : id ≠ 0) : rightRef id ≠ 0 := by
  unfold rightRef; split <;> omega

theorem leftRef_ne_self (id : Int) : leftRef id ≠ id := by
  unfold leftRef; split <;> (try split) <;> (try split) <;> omega

theorem rightRef_ne_self (id : Int) : rightRef id ≠ id := by
  unfold rightRef; split <;> omega

/-- the left neighbour of a lane of the same direction has that lane as its right neighbour -/
theorem right_left_same {id : Int} (h : id ≠ 0) (hs : isForward (leftRef id) = isForward id) :
    rightRef (leftRef id) = id := by
  unfold isForward at hs
  unfold leftRef rightRef at *
  split at hs <;> (try split at hs) <;> (try split at hs) <;> simp at hs <;> (split <;> omega)

/-- across the reference line (ids -1 and 1) the lanes are each other's left neighbour -/
theorem left_left_opposite {id : Int} (h : id ≠ 0) (hs : isForward (leftRef id) ≠ isForward id) :
    leftRef (leftRef id) = id := by
  unfold isForward at hs
  unfold leftRef at *
  split at hs <;> (try split at hs) <;> (try split at hs) <;> simp at hs <;>
    (repeat' split) <;> omega

/-- the right neighbour always has the same direction and has the lane as its left neighbour -/
theorem left_right {id : Int} (h : id ≠ 0) :
    isForward (rightRef id) = isForward id ∧ leftRef (rightRef id) = id := by
  unfold isForward leftRef rightRef
  constructor
  · split <;> simp <;> omega
  · repeat' split
    all_goals omega

theorem getId_some {ids : List Int} {x j : Int} (h : getId ids x = some j) : j = x ∧ x ∈ ids := by
  unfold getId at h
  split at h
  · rename_i hc
    simp at h
    exact ⟨h.symm, by simpa using hc⟩
  · cases h

theorem getId_mem {ids : List Int} {x : Int} (h : x ∈ ids) : getId ids x = some x := by
  simp [getId, h]

theorem adj_left {c : Cfg} (w : AdjWF c) (dr : Bool) (ids : List Int) (id : Int) :
    (adjOf c dr ids id).left = getId ids (leftRef id) := by
  simp [adjOf, w.left]

theorem adj_right {c : Cfg} (w : AdjWF c) (dr : Bool) (ids : List Int) (id : Int) :
    (adjOf c dr ids id).right = getId ids (rightRef id) := by
  simp [adjOf, w.right]

/-- **adj_left_reciprocal** (rule `invIf laneSection left right left`): if `j` is the lane to the left
of `id`, then `j` is a lane of the section and `id` is the lane to the right of `j` when they have
the same direction, the lane to the left of `j` otherwise -/
theorem adj_left_reciprocal {c : Cfg} (w : AdjWF c) (dr : Bool) (ids : List Int) (id j : Int)
    (hid : id ∈ ids) (h0 : id ≠ 0) (h : (adjOf c dr ids id).left = some j) :
    j ∈ ids ∧ j ≠ 0 ∧ j ≠ id ∧
    (isForward j = isForward id → (adjOf c dr ids j).right = some id) ∧
    (isForward j ≠ isForward id → (adjOf c dr ids j).left = some id) := by
  rw [adj_left w] at h
  obtain ⟨hj, hmem⟩ := getId_some h
  subst hj
  refine ⟨hmem, leftRef_ne_zero h0, leftRef_ne_self id, ?_, ?_⟩
  · intro hs
    rw [adj_right w, right_left_same h0 hs]
    exact getId_mem hid
  · intro hs
    rw [adj_left w, left_left_opposite h0 hs]
    exact getId_mem hid

/-- **adj_right_reciprocal** (rule `invIf laneSection right left right`): the lane to the right has
the same direction and has `id` as its lane to the left -/
theorem adj_right_reciprocal {c : Cfg} (w : AdjWF c) (dr : Bool) (ids : List Int) (id j : Int)
    (hid : id ∈ ids) (h0 : id ≠ 0) (h : (adjOf c dr ids id).right = some j) :
    j ∈ ids ∧ j ≠ 0 ∧ j ≠ id ∧ isForward j = isForward id ∧ (adjOf c dr ids j).left = some id := by
  rw [adj_right w] at h
  obtain ⟨hj, hmem⟩ := getId_some h
  subst hj
  obtain ⟨hs, hl⟩ := left_right h0
  refine ⟨hmem, rightRef_ne_zero h0, rightRef_ne_self id, hs, ?_⟩
  rw [adj_left w, hl]
  exact getId_mem hid

theorem keepSameDir_some {c : Cfg} (w : AdjWF c) {id j : Int} {o : Option Int}
    (h : keepSameDir c id o = some j) : o = some j ∧ isForward j = isForward id := by
  cases o with
  | none => simp [keepSameDir] at h
  | some k =>
    simp only [keepSameDir, w.drop, Bool.true_and] at h
    by_cases hd : isForward k = isForward id
    · simp [hd] at h; subst h; exact ⟨rfl, hd⟩
    · simp [hd] at h

theorem keepSameDir_keep (c : Cfg) {id j : Int} (hs : isForward j = isForward id) :
    keepSameDir c id (some j) = some j := by
  simp [keepSameDir, hs]

theorem faster_def (c : Cfg) (dr : Bool) (ids : List Int) (id : Int) :
    (adjOf c dr ids id).faster = keepSameDir c id
      (if (dr == c.fasterIsLeftOnRight) = true then (adjOf c dr ids id).left else (adjOf c dr ids id).right) := rfl

theorem slower_def (c : Cfg) (dr : Bool) (ids : List Int) (id : Int) :
    (adjOf c dr ids id).slower = keepSameDir c id
      (if (dr == c.fasterIsLeftOnRight) = true then (adjOf c dr ids id).right else (adjOf c dr ids id).left) := rfl

/-- **adj_faster_slower** (rules `link laneSection faster [[slower]] [[]] .eq`, `sameDir`,
`sub [[faster],[slower]] [[left],[right]]`): the faster lane is the left or right neighbour, has the
same direction, and has `id` as its slower lane — whichever side is the fast one -/
theorem adj_faster_slower {c : Cfg} (w : AdjWF c) (dr : Bool) (ids : List Int) (id j : Int)
    (hid : id ∈ ids) (h0 : id ≠ 0) (h : (adjOf c dr ids id).faster = some j) :
    isForward j = isForward id ∧ (adjOf c dr ids j).slower = some id ∧
    ((adjOf c dr ids id).left = some j ∨ (adjOf c dr ids id).right = some j) := by
  rw [faster_def] at h
  rw [slower_def]
  by_cases hb : (dr == c.fasterIsLeftOnRight) = true
  · rw [if_pos hb] at h ⊢
    obtain ⟨hl, hs⟩ := keepSameDir_some w h
    obtain ⟨_, _, _, hr, _⟩ := adj_left_reciprocal w dr ids id j hid h0 hl
    refine ⟨hs, ?_, Or.inl hl⟩
    rw [hr hs]
    exact keepSameDir_keep c hs.symm
  · rw [if_neg hb] at h ⊢
    obtain ⟨hl, hs⟩ := keepSameDir_some w h
    obtain ⟨_, _, _, _, hr⟩ := adj_right_reciprocal w dr ids id j hid h0 hl
    refine ⟨hs, ?_, Or.inr hl⟩
    rw [hr]
    exact keepSameDir_keep c hs.symm

theorem adj_slower_faster {c : Cfg} (w : AdjWF c) (dr : Bool) (ids : List Int) (id j : Int)
    (hid : id ∈ ids) (h0 : id ≠ 0) (h : (adjOf c dr ids id).slower = some j) :
    isForward j = isForward id ∧ (adjOf c dr ids j).faster = some id ∧
    ((adjOf c dr ids id).left = some j ∨ (adjOf c dr ids id).right = some j) := by
  rw [slower_def] at h
  rw [faster_def]
  by_cases hb : (dr == c.fasterIsLeftOnRight) = true
  · rw [if_pos hb] at h ⊢
    obtain ⟨hl, hs⟩ := keepSameDir_some w h
    obtain ⟨_, _, _, _, hr⟩ := adj_right_reciprocal w dr ids id j hid h0 hl
    refine ⟨hs, ?_, Or.inr hl⟩
    rw [hr]
    exact keepSameDir_keep c hs.symm
  · rw [if_neg hb] at h ⊢
    obtain ⟨hl, hs⟩ := keepSameDir_some w h
    obtain ⟨_, _, _, hr, _⟩ := adj_left_reciprocal w dr ids id j hid h0 hl
    refine ⟨hs, ?_, Or.inl hl⟩
    rw [hr hs]
    exact keepSameDir_keep c hs.symm

theorem mem_adjacent (c : Cfg) (dr : Bool) (ids : List Int) (id j : Int) :
    j ∈ (adjOf c dr ids id).adjacent ↔
      (adjOf c dr ids id).left = some j ∨ (adjOf c dr ids id).right = some j := by
  have : (adjOf c dr ids id).adjacent =
      (adjOf c dr ids id).left.toList ++ (adjOf c dr ids id).right.toList := rfl
  rw [this]
  simp [Option.mem_toList]

/-- **adj_adjacent_symmetric** (rules `link laneSection adjacent [[adjacent]] [[]] .into`,
`irrefl laneSection adjacent`): adjacency of the lane sections of a section is symmetric and
irreflexive -/
theorem adj_adjacent_symmetric {c : Cfg} (w : AdjWF c) (dr : Bool) (ids : List Int) (id j : Int)
    (hid : id ∈ ids) (h0 : id ≠ 0) (h : j ∈ (adjOf c dr ids id).adjacent) :
    j ≠ id ∧ id ∈ (adjOf c dr ids j).adjacent := by
  rw [mem_adjacent] at h
  rcases h with h | h
  · obtain ⟨_, _, hne, h1, h2⟩ := adj_left_reciprocal w dr ids id j hid h0 h
    refine ⟨hne, ?_⟩
    rw [mem_adjacent]
    by_cases hs : isForward j = isForward id
    · exact Or.inr (h1 hs)
    · exact Or.inl (h2 hs)
  · obtain ⟨_, _, hne, _, h1⟩ := adj_right_reciprocal w dr ids id j hid h0 h
    exact ⟨hne, (mem_adjacent c dr ids j id).mpr (Or.inl h1)⟩

/-! ### lane order of a road section -/

theorem mem_idRange (lo hi x : Int) : x ∈ idRange lo hi ↔ lo ≤ x ∧ x ≤ hi := by
  unfold idRange
  simp only [List.mem_map, List.mem_range]
  constructor
  · rintro ⟨k, hk, rfl⟩; omega
  · intro ⟨h1, h2⟩
    exact ⟨(x - lo).toNat, by omega, by omega⟩

theorem idRange_sorted (lo hi : Int) : (idRange lo hi).Pairwise (· < ·) := by
  unfold idRange
  rw [List.pairwise_map]
  have := List.pairwise_lt_range (n := (hi + 1 - lo).toNat)
  exact this.imp (by intro a b hab; omega)


/-- **sectionOrder_spec** (`RoadSection.lanes = forwardLanes + backwardLanes`, "in order, with lane 0
being the rightmost"): for any id-keyed dict of lane sections, the forward lanes are exactly the
negative ids, the backward lanes exactly the positive ids, id 0 is skipped, and `forward ++ backward`
lists every lane once, in increasing id order (rightmost first) -/
theorem sectionOrder_spec (ids : List Int) :
    (∀ x, x ∈ (sectionOrder ids).1 ↔ x ∈ ids ∧ x < 0) ∧
    (∀ x, x ∈ (sectionOrder ids).2 ↔ x ∈ ids ∧ 0 < x) ∧
    ((sectionOrder ids).1 ++ (sectionOrder ids).2).Pairwise (· < ·) := by
  unfold sectionOrder
  cases hlo : ids.min? with
  | none =>
    have : ids = [] := List.min?_eq_none_iff.mp hlo
    subst this
    simp
  | some lo =>
    cases hhi : ids.max? with
    | none =>
      have : ids = [] := List.max?_eq_none_iff.mp hhi
      subst this
      simp at hlo
    | some hi =>
      have hmin : ∀ x ∈ ids, lo ≤ x := fun x hx => ((List.min?_eq_some_iff (xs := ids)).mp hlo).2 x hx
      have hmax : ∀ x ∈ ids, x ≤ hi := fun x hx => ((List.max?_eq_some_iff (xs := ids)).mp hhi).2 x hx
      simp only
      refine ⟨?_, ?_, ?_⟩
      · intro x
        simp only [List.mem_filter, mem_idRange, decide_eq_true_eq, Bool.and_eq_true, bne_iff_ne, ne_eq,
          List.contains_iff_mem]
        constructor
        · rintro ⟨⟨_, _, hm⟩, hneg⟩; exact ⟨hm, hneg⟩
        · rintro ⟨hm, hneg⟩; exact ⟨⟨⟨hmin x hm, hmax x hm⟩, by omega, hm⟩, hneg⟩
      · intro x
        simp only [List.mem_filter, mem_idRange, decide_eq_true_eq, Bool.and_eq_true, bne_iff_ne, ne_eq,
          List.contains_iff_mem, Bool.not_eq_eq_eq_not, Bool.not_true, decide_eq_false_iff_not]
        constructor
        · rintro ⟨⟨_, h0, hm⟩, hpos⟩; exact ⟨hm, by omega⟩
        · rintro ⟨hm, hpos⟩; exact ⟨⟨⟨hmin x hm, hmax x hm⟩, by omega, hm⟩, by omega⟩
      · rw [List.pairwise_append]
        have hs := (idRange_sorted lo hi).filter (fun i => i != 0 && ids.contains i)
        refine ⟨hs.filter _, hs.filter _, ?_⟩
        intro a ha b hb
        simp only [List.mem_filter, decide_eq_true_eq, Bool.not_eq_eq_eq_not, Bool.not_true,
          decide_eq_false_iff_not] at ha hb
        omega

example : sectionOrder [1, -2, 2, -1] = ([-2, -1], [1, 2]) := by decide
example : sectionOrder [3, 1, -1] = ([-1], [1, 3]) := by decide
example : (adjOf refCfg true [-2, -1, 1, 2] (-1)).left = some 1 ∧ (adjOf refCfg true [-2, -1, 1, 2] 1).left = some (-1) ∧
    (adjOf refCfg true [-2, -1, 1, 2] (-1)).faster = none ∧ (adjOf refCfg true [-2, -1, 1, 2] (-2)).faster = some (-1) ∧
    (adjOf refCfg false [-2, -1, 1, 2] (-2)).slower = some (-1) := by decide

end Scenic.C20
