import ScenicModel.Model.Solid
import ScenicModel.Lemmas.Solid
import Mathlib.Data.Rat.Cast.Order
import Mathlib.Tactic.NormNum

/-!
# C04 — every exit of the five-pass procedures returns the ground truth

`intersects_correct` / `containsObject_correct`: for **any** sets `A B` of a real normed space, any
observation vector `o` satisfying the stated *contracts* (what the numerical back-ends must deliver), and
any pass data `c` satisfying the semantic side conditions `c.Sound`, the decision tree of
`Model/Solid.lean` returns `true` exactly when `A ∩ B ≠ ∅` (resp. `B ⊆ A`) — whichever exit is taken.
Consequently every shortcut agrees with the exhaustive boolean computation
(`intersects_eq_exhaustive`, `containsObject_eq_exhaustive`).

The contracts are assumptions about FCL / trimesh / numpy; they are validated (not proved) by the
correspondence run of `tools/props/c04.py` against an exact-rational oracle.
-/
namespace Scenic.Solid
open Metric Set Scenic.SolidLemmas

theorem absQ_eq_abs (q : Rat) : absQ q = |q| := by
  unfold absQ
  split
  · rename_i h; rw [abs_of_neg h]
  · rename_i h; rw [abs_of_nonneg (not_lt.1 h)]

theorem absQ_cast (q : Rat) : ((absQ q : Rat) : ℝ) = |(q : ℝ)| := by
  rw [absQ_eq_abs, Rat.cast_abs]

/-! ## side conditions on the generated pass data -/

/-- what the proof needs from the comparators / operands / connectives / constants of `intersects` -/
structure IntersectCfg.Sound (c : IntersectCfg) : Prop where
  p1 : ∀ o, c.p1Cmp.eval (c.p1Lhs o) (c.p1Rhs o) = true → o.circS + o.circO < o.centerDist
  p1Ret : c.p1Ret = false
  p2Guard : ∀ a b, c.p2Guard.eval a b = true → a = true ∧ b = true
  p2aIn : ∀ o, c.p2aInCmp.eval (c.p2aInLhs o) (c.p2aInRhs o) = true → o.pointDist < o.inS + o.inO
  p2aInRet : c.p2aInRet = true
  p2aCirc : ∀ o, c.p2aCircCmp.eval (c.p2aCircLhs o) (c.p2aCircRhs o) = true → o.pcircS + o.pcircO < o.pointDist
  p2aCircRet : c.p2aCircRet = false
  p2bRet : c.p2bRet = false
  p3HitRet : c.p3HitRet = true
  p3Convex : ∀ a b, c.p3Convex.eval a b = true → a = true ∧ b = true
  p4Bodies : c.p4Bodies = 1
  p4Guard : ∀ a b, c.p4Guard.eval a b = true → a = true ∧ b = true
  p4Conn : ∀ a b, c.p4Conn.eval a b = (a || b)
  p5Negate : c.p5Negate = true

/-- what the proof needs from the pass data of `containsObject` -/
structure ContainCfg.Sound (c : ContainCfg) : Prop where
  p1Ret : c.p1Ret = false
  p2Corner : ∀ x, c.p2CornerCmp.eval x c.p2CornerThr = true → 0 < x
  p2CornerRet : c.p2CornerRet = true
  p2Vert : ∀ x, c.p2VertCmp.eval x c.p2VertThr = true ↔ 0 < x
  p3OutRet : c.p3OutRet = false
  p3 : ∀ o, c.p3Cmp.eval (c.p3Lhs o) (c.p3Rhs o) = true → o.objCirc < absQ o.sdCand
  p3Ret : c.p3Ret = true
  p4 : ∀ o, c.p4Cmp.eval (c.p4Lhs o) (c.p4Rhs o) = true → o.regCirc < o.objMaxDist
  p4Ret : c.p4Ret = false
  p5Negate : c.p5Negate = false

/-! ## contracts: what the observations must mean -/

variable {E : Type*} [NormedAddCommGroup E] [NormedSpace ℝ E]

/-- Contract between the observations of `intersects` and the two solids `A` (self), `B` (other).
`cA cB` are the `position`s, `pA pB` the interior points. -/
structure IntersectContract (A B : Set E) (cA cB pA pB : E) (o : IntersectObs) : Prop where
  /-- the circumradius is an upper bound *about the position* -/
  circA : A ⊆ closedBall cA (o.circS : ℝ)
  circB : B ⊆ closedBall cB (o.circO : ℝ)
  centerDist : dist cA cB = (o.centerDist : ℝ)
  /-- precomputed per-shape geometry: the interior point is interior, with in- and circum-radius -/
  ipA : o.scaledS = true → pA ∈ A ∧ ball pA (o.inS : ℝ) ⊆ A ∧ A ⊆ closedBall pA (o.pcircS : ℝ) ∧ (0 : ℝ) ≤ o.inS
  ipB : o.scaledO = true → pB ∈ B ∧ ball pB (o.inO : ℝ) ⊆ B ∧ B ⊆ closedBall pB (o.pcircO : ℝ) ∧ (0 : ℝ) ≤ o.inO
  pointDist : dist pA pB = (o.pointDist : ℝ)
  /-- axis-aligned bounding boxes that do not overlap separate the solids -/
  bbox : o.bbOverlap = false → Disjoint A B
  /-- FCL reports a collision only if the solids share a point … -/
  collideSound : o.collide = true → (A ∩ B).Nonempty
  /-- … and, when both are convex, whenever they do (volume contact) -/
  collideConvex : o.convexS = true → o.convexO = true → (A ∩ B).Nonempty → o.collide = true
  /-- single-body trichotomy: without surface contact two one-body solids are nested or disjoint, and
      nesting is decided by the interior points -/
  singleBody : o.collide = false → o.bodiesS = 1 → o.bodiesO = 1 →
    ((A ∩ B).Nonempty ↔ (o.sHasO = true ∨ o.oHasS = true))
  /-- the boolean engine is exact -/
  boolean : o.boolEmpty = true ↔ ¬ (A ∩ B).Nonempty

/-- Contract between the observations of `containsObject` and the container `A`, the object `B`,
its bounding-box corners `K`, its vertices `V`, and the two candidate points. -/
structure ContainContract (A B K V : Set E) (cand rcand : E) (o : ContainObs) : Prop where
  nonempty : B.Nonempty
  bbox : o.bbOverlap = false → Disjoint A B
  convexA : o.convex = true → Convex ℝ A
  cornersHull : o.convex = true → B ⊆ convexHull ℝ K
  cornersIn : o.convex = true → 0 < o.minCornerSd → K ⊆ A
  vertsHull : o.convex = true → B ⊆ convexHull ℝ V
  vertsIn : o.convex = true → 0 < o.minVertexSd → V ⊆ A
  /-- outside the tolerance of touching: a vertex whose signed distance is not positive is outside -/
  vertsOut : o.convex = true → ¬ 0 < o.minVertexSd → ∃ v ∈ V, v ∈ B ∧ v ∉ A
  candIn : o.candAvail = true → cand ∈ B
  candOut : o.candAvail = true → o.regionHasCand = false → cand ∉ A
  objCirc : o.candAvail = true → B ⊆ closedBall cand (o.objCirc : ℝ)
  regionBall : o.candAvail = true → o.regionHasCand = true → ball cand |(o.sdCand : ℝ)| ⊆ A
  regCirc : o.regCandAvail = true → A ⊆ closedBall rcand (o.regCirc : ℝ)
  objFar : o.regCandAvail = true → ∃ v ∈ B, dist v rcand = (o.objMaxDist : ℝ)
  boolean : o.diffEmpty = true ↔ B ⊆ A

/-! ## `intersects` -/

omit [NormedAddCommGroup E] [NormedSpace ℝ E] in
private theorem iff_of_disjoint {A B : Set E} {b : Bool} (hd : Disjoint A B) (hb : b = false) :
    (b = true ↔ (A ∩ B).Nonempty) := by
  subst hb
  simp only [Bool.false_eq_true, false_iff, Set.not_nonempty_iff_eq_empty]
  exact hd.inter_eq

omit [NormedAddCommGroup E] [NormedSpace ℝ E] in
private theorem iff_of_nonempty {A B : Set E} {b : Bool} (hn : (A ∩ B).Nonempty) (hb : b = true) :
    (b = true ↔ (A ∩ B).Nonempty) := ⟨fun _ => hn, fun _ => hb⟩

omit [NormedSpace ℝ E] in
theorem intersectsTail_correct (c : IntersectCfg) (hc : c.Sound) {A B : Set E} {cA cB pA pB : E}
    {o : IntersectObs} (h : IntersectContract A B cA cB pA pB o) :
    (intersectsTail c o).1 = true ↔ (A ∩ B).Nonempty := by
  unfold intersectsTail
  by_cases hcol : o.collide = true
  · rw [if_pos hcol]
    exact iff_of_nonempty (h.collideSound hcol) hc.p3HitRet
  rw [if_neg hcol]
  have hcolf : o.collide = false := by simpa using hcol
  by_cases hcv : c.p3Convex.eval o.convexS o.convexO = true
  · rw [if_pos hcv]
    obtain ⟨h1, h2⟩ := hc.p3Convex _ _ hcv
    constructor
    · intro hh; exact absurd hh hcol
    · intro hn; exact h.collideConvex h1 h2 hn
  rw [if_neg hcv]
  by_cases hb : c.p4Guard.eval (o.bodiesS == c.p4Bodies) (o.bodiesO == c.p4Bodies) = true
  · rw [if_pos hb]
    obtain ⟨h1, h2⟩ := hc.p4Guard _ _ hb
    rw [hc.p4Bodies] at h1 h2
    have e1 : o.bodiesS = 1 := by simpa using h1
    have e2 : o.bodiesO = 1 := by simpa using h2
    rw [h.singleBody hcolf e1 e2]
    show c.p4Conn.eval o.sHasO o.oHasS = true ↔ _
    rw [hc.p4Conn]
    simp
  rw [if_neg hb]
  show (if c.p5Negate = true then !o.boolEmpty else o.boolEmpty) = true ↔ _
  rw [if_pos hc.p5Negate]
  have := h.boolean
  constructor
  · intro hh
    by_contra hne
    have : o.boolEmpty = true := this.2 hne
    simp [this] at hh
  · intro hn
    cases hbe : o.boolEmpty
    · rfl
    · exact absurd hn (this.1 hbe)

/-- **Every exit of the five-pass overlap test returns the ground truth `A ∩ B ≠ ∅`.** -/
theorem intersects_correct (c : IntersectCfg) (hc : c.Sound) {A B : Set E} {cA cB pA pB : E}
    {o : IntersectObs} (h : IntersectContract A B cA cB pA pB o) :
    (intersects c o).1 = true ↔ (A ∩ B).Nonempty := by
  unfold intersects
  by_cases h1 : c.p1Cmp.eval (c.p1Lhs o) (c.p1Rhs o) = true
  · rw [if_pos h1]
    have hlt := hc.p1 o h1
    have hd : Disjoint A B := by
      apply spheres_apart_disjoint h.circA h.circB
      rw [h.centerDist]
      exact_mod_cast hlt
    exact iff_of_disjoint hd hc.p1Ret
  rw [if_neg h1]
  by_cases hg : c.p2Guard.eval o.scaledS o.scaledO = true
  · rw [if_pos hg]
    obtain ⟨hs, ho⟩ := hc.p2Guard _ _ hg
    obtain ⟨a1, a2, a3, a4⟩ := h.ipA hs
    obtain ⟨b1, b2, b3, b4⟩ := h.ipB ho
    by_cases hin : c.p2aInCmp.eval (c.p2aInLhs o) (c.p2aInRhs o) = true
    · rw [if_pos hin]
      have hlt := hc.p2aIn o hin
      have hn : (A ∩ B).Nonempty := by
        apply inballs_overlap_intersect a1 b1 a2 b2 a4 b4
        rw [h.pointDist]
        exact_mod_cast hlt
      exact iff_of_nonempty hn hc.p2aInRet
    rw [if_neg hin]
    by_cases hci : c.p2aCircCmp.eval (c.p2aCircLhs o) (c.p2aCircRhs o) = true
    · rw [if_pos hci]
      have hlt := hc.p2aCirc o hci
      have hd : Disjoint A B := by
        apply spheres_apart_disjoint a3 b3
        rw [h.pointDist]
        exact_mod_cast hlt
      exact iff_of_disjoint hd hc.p2aCircRet
    rw [if_neg hci]
    exact intersectsTail_correct c hc h
  rw [if_neg hg]
  by_cases hbb : (!o.bbOverlap) = true
  · rw [if_pos hbb]
    have : o.bbOverlap = false := by simpa using hbb
    exact iff_of_disjoint (h.bbox this) hc.p2bRet
  rw [if_neg hbb]
  exact intersectsTail_correct c hc h

/-- every internal shortcut gives the same answer as the exhaustive boolean computation -/
theorem intersects_eq_exhaustive (c : IntersectCfg) (hc : c.Sound) {A B : Set E} {cA cB pA pB : E}
    {o : IntersectObs} (h : IntersectContract A B cA cB pA pB o) :
    (intersects c o).1 = !o.boolEmpty := by
  have h1 := intersects_correct c hc h
  have h2 := h.boolean
  cases hb : o.boolEmpty <;> cases hi : (intersects c o).1 <;> simp_all

/-! ## `containsObject` -/

theorem containsTail5_correct (c : ContainCfg) (hc : c.Sound) {A B K V : Set E} {cand rcand : E}
    {o : ContainObs} (h : ContainContract A B K V cand rcand o) :
    (containsTail5 c o).1 = true ↔ B ⊆ A := by
  unfold containsTail5
  show (if c.p5Negate = true then !o.diffEmpty else o.diffEmpty) = true ↔ _
  rw [hc.p5Negate]
  simp only [Bool.false_eq_true, if_false]
  exact h.boolean

theorem containsTail4_correct (c : ContainCfg) (hc : c.Sound) {A B K V : Set E} {cand rcand : E}
    {o : ContainObs} (h : ContainContract A B K V cand rcand o) :
    (containsTail4 c o).1 = true ↔ B ⊆ A := by
  unfold containsTail4
  by_cases hr : o.regCandAvail = true
  · rw [if_pos hr]
    by_cases h4 : c.p4Cmp.eval (c.p4Lhs o) (c.p4Rhs o) = true
    · rw [if_pos h4]
      have hlt := hc.p4 o h4
      obtain ⟨v, hvB, hvd⟩ := h.objFar hr
      have hns : ¬ B ⊆ A := by
        apply far_point_not_subset (h.regCirc hr) hvB
        rw [hvd]
        exact_mod_cast hlt
      show c.p4Ret = true ↔ _
      rw [hc.p4Ret]
      simp [hns]
    · rw [if_neg h4]
      exact containsTail5_correct c hc h
  · rw [if_neg hr]
    exact containsTail5_correct c hc h

/-- **Every exit of the five-pass containment test returns the ground truth `B ⊆ A`.** -/
theorem containsObject_correct (c : ContainCfg) (hc : c.Sound) {A B K V : Set E} {cand rcand : E}
    {o : ContainObs} (h : ContainContract A B K V cand rcand o) :
    (containsObject c o).1 = true ↔ B ⊆ A := by
  unfold containsObject
  by_cases hbb : (!o.bbOverlap) = true
  · rw [if_pos hbb]
    have hf : o.bbOverlap = false := by simpa using hbb
    have hns : ¬ B ⊆ A := disjoint_not_subset h.nonempty (h.bbox hf)
    show c.p1Ret = true ↔ _
    rw [hc.p1Ret]
    simp [hns]
  rw [if_neg hbb]
  by_cases hcv : o.convex = true
  · rw [if_pos hcv]
    by_cases hk : c.p2CornerCmp.eval o.minCornerSd c.p2CornerThr = true
    · rw [if_pos hk]
      have hpos := hc.p2Corner _ hk
      have hsub : B ⊆ A :=
        convex_contains_of_vertices (h.convexA hcv) (h.cornersIn hcv hpos) (h.cornersHull hcv)
      show c.p2CornerRet = true ↔ _
      rw [hc.p2CornerRet]
      simp [hsub]
    · rw [if_neg hk]
      show c.p2VertCmp.eval o.minVertexSd c.p2VertThr = true ↔ _
      rw [hc.p2Vert]
      constructor
      · intro hpos
        exact convex_contains_of_vertices (h.convexA hcv) (h.vertsIn hcv hpos) (h.vertsHull hcv)
      · intro hsub
        by_contra hnp
        obtain ⟨v, _, hvB, hvA⟩ := h.vertsOut hcv hnp
        exact hvA (hsub hvB)
  rw [if_neg hcv]
  by_cases hca : o.candAvail = true
  · rw [if_pos hca]
    by_cases hout : (!o.regionHasCand) = true
    · rw [if_pos hout]
      have hf : o.regionHasCand = false := by simpa using hout
      have hns : ¬ B ⊆ A := point_outside_not_subset (h.candIn hca) (h.candOut hca hf)
      show c.p3OutRet = true ↔ _
      rw [hc.p3OutRet]
      simp [hns]
    rw [if_neg hout]
    have ht : o.regionHasCand = true := by simpa using hout
    by_cases h3 : c.p3Cmp.eval (c.p3Lhs o) (c.p3Rhs o) = true
    · rw [if_pos h3]
      have hlt := hc.p3 o h3
      have hsub : B ⊆ A := by
        apply ball_chain_subset (h.objCirc hca) (h.regionBall hca ht)
        rw [← absQ_cast]
        exact_mod_cast hlt
      show c.p3Ret = true ↔ _
      rw [hc.p3Ret]
      simp [hsub]
    · rw [if_neg h3]
      exact containsTail4_correct c hc h
  · rw [if_neg hca]
    exact containsTail4_correct c hc h

/-- every internal shortcut gives the same answer as the exhaustive boolean difference -/
theorem containsObject_eq_exhaustive (c : ContainCfg) (hc : c.Sound) {A B K V : Set E} {cand rcand : E}
    {o : ContainObs} (h : ContainContract A B K V cand rcand o) :
    (containsObject c o).1 = o.diffEmpty := by
  have h1 := containsObject_correct c hc h
  have h2 := h.boolean
  cases hb : o.diffEmpty <;> cases hi : (containsObject c o).1 <;> simp_all

end Scenic.Solid
