import ScenicModel.Props.C13Sched
import ScenicModel.Props.C13Balance
import ScenicModel.Props.C13Guards
import ScenicModel.Props.C13Flow
import ScenicModel.Props.C13Fuel
import ScenicModel.Props.C13Frozen
import ScenicModel.Gen.Interrupts

/-!
# C13 — interrupts pre-empt and resume as documented; guards are checked when promised

The theorems of `C13Sched`, `C13Balance`, `C13Guards`, `C13Flow` are stated for an arbitrary configuration
`cfg : Cfg` with explicit hypotheses on its fields.  Here they are instantiated on `Scenic.Gen.interruptCfg`,
the configuration regenerated from /repo on every check run (tools/translate/interrupts.py); the hypotheses
become side conditions decided by the kernel on that data.

Three fields describe repairs of defects found while building this check (applied to /repo as 96951b7d and
f18ee090); they are side conditions like the others now (`gen_repaired`), and the `legacy_*` theorems below
show on concrete programs what goes wrong in the model when one of them is false (they are what the check
falls back on, to name the failing input, if one of the repairs is ever undone):

* `tiCheckSkipsSub` — invariants are not re-checked by runTryInterrupt while a sub-behaviour is in progress;
* `nestedFlow`      — `break`/`continue`/`return` in handlers of *nested* try-interrupt statements;
* `nestedNames`     — a nested statement may have more handlers than the statements at behaviour level.
-/
namespace Scenic.C13
open Scenic.Interrupts Scenic.Gen

/-! ## side conditions on the generated data -/

/-- both tuples handed to runTryInterrupt are reversed (later clauses first), so handler `i` keeps condition `i` -/
theorem gen_order : interruptCfg.condsReversed = true ∧ interruptCfg.handlersReversed = true := by decide

/-- `isEnabled or isRunning`, first match wins, a finished handler makes the scheduler look again -/
theorem gen_selection : interruptCfg.useEnabled = true ∧ interruptCfg.useRunning = true ∧
    interruptCfg.firstWins = true ∧ interruptCfg.finishedContinues = true := by decide

/-- invariant checks: after every yield of runTryInterrupt, after (not before) every emitted invocation,
    preconditions and invariants at start, always with the agent as argument -/
theorem gen_checks : interruptCfg.tiCheck = true ∧ interruptCfg.checkAfterInvoke = true ∧
    interruptCfg.checkBeforeInvoke = false ∧ interruptCfg.startPre = true ∧ interruptCfg.startInv = true ∧
    tiCheckPassesAgent = true := by decide

/-- `_invokeInner` stops the sub-behaviour in a `finally` -/
theorem gen_stop : interruptCfg.stopInFinally = true := by decide

/-- the repairs 96951b7d (no invariant re-check while a sub-behaviour is in progress), f18ee090 (nested
    break/continue/return, names of nested statements) and 41fb4809 (runTryInterrupt closes the blocks that
    are still suspended when it is left, in a `finally`) are in the code -/
theorem gen_repaired : interruptCfg.tiCheckSkipsSub = true ∧ interruptCfg.nestedFlow = true ∧
    interruptCfg.nestedNames = true ∧ interruptCfg.closeBlocks = true := by decide

/-- all in one: the extracted configuration is the specified one -/
theorem gen_is_spec : interruptCfg = Cfg.spec := by decide

/-! ## the property theorems on the generated configuration -/

theorem preempt_latest_enabled (env : Env) (cls : List (Blk K)) (i : Nat)
    (h : pick interruptCfg env cls.reverse = some i) :
    i < cls.length ∧ blkActive interruptCfg env (cls.getD (cls.length - 1 - i) default) = true ∧
      ∀ j, cls.length - 1 - i < j → j < cls.length → blkActive interruptCfg env (cls.getD j default) = false :=
  Interrupts.preempt_latest_enabled interruptCfg gen_selection.2.2.1 env cls i h

theorem active_means_enabled_or_running (env : Env) (b : Blk K) :
    blkActive interruptCfg env b = (env.cond b.cond || b.st.isSome) :=
  blkActive_spec interruptCfg gen_selection.1 gen_selection.2.1 env b

theorem handlers_in_reverse_source_order (conds : List Nat) (codes : List (List L)) (hl : conds.length = codes.length) :
    zipRuntime interruptCfg conds codes = (conds.zip codes).reverse :=
  zipRuntime_reverse interruptCfg gen_order.1 gen_order.2 conds codes hl

theorem handler_finished_continues (P : Prog) (env : Env) (fuel self : Nat) (inSub : Bool) (kind : TryKind)
    (body : Blk K) (hs : List (Blk K)) (l : List L) (c : List Frame) (i : Nat) (lg : List Ev)
    (hp : pick interruptCfg env hs = some i)
    (hy : stepBlk interruptCfg P env fuel self (inSubFor inSub kind body hs (some i)) (hs.getD i body) = .done .fin lg) :
    go interruptCfg P env (fuel + 1) self inSub (.loopTI kind body hs l c)
      = (go interruptCfg P env fuel self inSub (.loopTI kind body (setSt hs i none) l c)).pre lg :=
  Interrupts.handler_finished_continues interruptCfg gen_selection.2.2.2 P env fuel self inSub kind body hs l c i lg hp hy

/-- every sub-behaviour in progress inside a generator that concludes (blocks abandoned by abort / break /
    continue / return / `until`) is stopped; invariant form -/
theorem abandoned_subs_stopped (P : Prog) (env : Env) (fuel self : Nat) (inSub : Bool) (task : Task) :
    Bal task.subs (go interruptCfg P env fuel self inSub task) :=
  balance interruptCfg gen_stop gen_repaired.2.2.2 P env fuel self inSub task

theorem abandoned_subs_stopped_run (P : Prog) (envAt : Nat → Env) (fuel main steps : Nat)
    (hok : (simulate interruptCfg P envAt fuel main steps).outcome = .ok) (b : Nat) :
    nStart b (simulate interruptCfg P envAt fuel main steps).events.flatten
      = nStop b (simulate interruptCfg P envAt fuel main steps).events.flatten
        + (simulate interruptCfg P envAt fuel main steps).pending.count b :=
  simulate_balance interruptCfg gen_stop gen_repaired.2.2.2 P envAt fuel main steps hok b

/-- ... also when the simulation is ended by a guard violation: nothing that was started is left running -/
theorem abandoned_subs_stopped_on_violation (P : Prog) (envAt : Nat → Env) (fuel main steps : Nat) (v : Viol) (t : Nat)
    (hv : (simulate interruptCfg P envAt fuel main steps).outcome = .violation v t) (b : Nat) :
    nStart b (simulate interruptCfg P envAt fuel main steps).events.flatten
      = nStop b (simulate interruptCfg P envAt fuel main steps).events.flatten :=
  simulate_balance_viol interruptCfg gen_stop gen_repaired.2.2.2 P envAt fuel main steps v t hv b

theorem guards_at_start (P : Prog) (env : Env) (b : Nat) :
    (startChecks interruptCfg P env b).2 = none ↔ ∀ g ∈ (getBeh P b).pre ++ (getBeh P b).inv, env.guard g = 1 :=
  start_ok_iff interruptCfg gen_checks.2.2.2.1 gen_checks.2.2.2.2.1 P env b

theorem guards_after_action (a : Nat) : lowerTake interruptCfg a = [L.yld a, L.chk] :=
  lowerTake_spec interruptCfg gen_checks.2.1 gen_checks.2.2.1 a

theorem guards_after_sub (b : Nat) : lowerDo interruptCfg b none = [L.sub b, L.chk] :=
  lowerDo_spec interruptCfg gen_checks.2.1 gen_checks.2.2.1 b

theorem guards_on_try_resume (P : Prog) (env : Env) (fuel self : Nat)
    (kind : TryKind) (body : Blk K) (hs : List (Blk K)) (l : List L) (c : List Frame)
    (hq : (kindIsDoUntil kind || blkHasSub body || blksHaveSub hs) = false) :
    go interruptCfg P env (fuel + 1) self false (.resume (.atTry kind body hs l c)) =
      match invCheck P env self with
      | (lg, some v) => .viol v (lg ++ closeStops interruptCfg (blkSubs body ++ blksSubs hs))
      | (lg, none) => (go interruptCfg P env fuel self false (.loopTI kind body hs l c)).pre lg :=
  try_resume_checks interruptCfg gen_checks.1 P env fuel self kind body hs l c hq

/-- (see `legacy_checks_invariant_during_sub` for what happens without `tiCheckSkipsSub`) -/
theorem guards_not_during_sub (P : Prog) (env : Env)
    (fuel self : Nat) (inSub : Bool) (k : K) (b : Nat) (sub : K) (h : K.subLeaf interruptCfg env k = some (b, sub)) :
    match go interruptCfg P env fuel self inSub (.resume k) with
    | .yielded a _ lg =>
      (∃ fuel' sub', fuel' ≤ fuel ∧ go interruptCfg P env fuel' b false (.resume sub) = .yielded a sub' lg)
        ∨ SubDone interruptCfg P env b sub
    | .done _ _ => SubDone interruptCfg P env b sub
    | _ => True :=
  no_check_while_sub_runs interruptCfg gen_repaired.1 P env fuel self inSub k b sub h

/-- (see the `legacy_nested_*` theorems for what happens without `nestedFlow`) -/
theorem control_flags_exact (ctx : LCtx) (st : LSt)
    (body : List Stmt) (hs : List (Nat × List Stmt)) (code : List L) (st' : LSt)
    (h : lowerS interruptCfg ctx st (.tryI body hs) = some (code, st')) :
    ∃ fl b codes, code = [L.tryI (.user fl) b (zipRuntime interruptCfg (hs.map (·.1)) codes)] ∧ codes.length = hs.length ∧
      fl.emitBrk = (escBrkL b || codes.any escBrkL) ∧
      fl.emitCont = (escContL b || codes.any escContL) ∧
      fl.retWrap = ctx.inBlock :=
  lower_try_flags interruptCfg gen_repaired.2.1 ctx st body hs code st' h

/-! ## concrete runs: satisfiability examples, and what each repaired configuration field is needed for -/

def envOf (ct gt : List (List Nat)) (t : Nat) : Env :=
  { cond := fun c => (ct.getD c []).getD t 0 == 1, guard := fun g => (gt.getD g []).getD t 1 }

/-- compile and simulate a surface program: `none` = does not compile -/
def runS (cfg : Cfg) (p : List SBeh) (ct gt : List (List Nat)) (steps : Nat) : Option (List (Option Nat) × Outcome) :=
  (lowerProg cfg p).map fun P => let tr := simulate cfg P (envOf ct gt) 200 0 steps; (tr.actions, tr.outcome)

def legacyChecks : Cfg := { Cfg.spec with tiCheckSkipsSub := false }
def legacyFlow : Cfg := { Cfg.spec with nestedFlow := false }
def legacyNames : Cfg := { Cfg.spec with nestedNames := false }
def legacyClose : Cfg := { Cfg.spec with closeBlocks := false }

/-- `try: do B1() interrupt when c0: take 9` in a behaviour with invariant g0; B1 takes 1, 2, 3 -/
def progSubInTry : List SBeh :=
  [ { pre := [], inv := [0], body := [.tryI [.doSub 1 none] [(0, [.take 9])]] },
    { pre := [], inv := [], body := [.take 1, .take 2, .take 3] } ]

/-- Without `tiCheckSkipsSub` (code before 96951b7d): the invariant of the invoking behaviour is false only while the sub-behaviour runs
    (step 2) and true again when it has finished.  A plain `do B1()` never looks at it then; under
    try-interrupt the unrepaired runTryInterrupt reports an invariant violation at step 2. -/
theorem legacy_checks_invariant_during_sub :
    runS legacyChecks progSubInTry [[0,0,0,0,0]] [[1,1,0,1,1]] 5 = some ([some 1, some 2], .violation ⟨.inv, 0⟩ 2)
    ∧ runS Cfg.spec progSubInTry [[0,0,0,0,0]] [[1,1,0,1,1]] 5
        = some ([some 1, some 2, some 3, none, none], .ok) := by
  constructor <;> decide +kernel

/-- three handlers; priority, pre-emption of a handler by a later clause, resumption, return to the body -/
def progPriority : List SBeh :=
  [ { pre := [], inv := [], body :=
      [.tryI [.take 1, .take 2, .take 3] [(0, [.take 10, .take 11]), (1, [.take 20])], .take 9] } ]

/-- Example (satisfiable hypotheses, all configurations agree): both conditions true at step 2 -> the later
    clause (20) wins; the earlier handler was pre-empted after 10 and resumes with 11; then the body resumes
    with 2 where it stopped. -/
theorem example_priority_and_resumption :
    runS Cfg.spec progPriority [[0,1,1,0,0,0],[0,0,1,0,0,0]] [] 6
      = some ([some 1, some 10, some 20, some 11, some 2, some 3], .ok) := by decide +kernel

/-- `for _ in range(3): (try: take 1; take 2 / interrupt when c0: break / interrupt when c1: try: take 3
    interrupt when c2: take 4); take 8` then `take 9` -/
def progBreakClobbered : List SBeh :=
  [ { pre := [], inv := [], body :=
      [.forN 3 [.tryI [.take 1, .take 2] [(0, [.brk]), (1, [.tryI [.take 3] [(2, [.take 4])]])], .take 8],
       .take 9] } ]

/-- Without `nestedFlow` (code before f18ee090): a nested statement in a later clause resets the outer statement's `usedBreak`:
    the `break` only aborts the statement and the loop goes on (1 8 1 2 8 1 instead of 1 9). -/
theorem legacy_nested_break_lost :
    runS legacyFlow progBreakClobbered [[0,1,0,0,0,0]] [] 6
      = some ([some 1, some 8, some 1, some 2, some 8, some 1], .ok)
    ∧ runS Cfg.spec progBreakClobbered [[0,1,0,0,0,0]] [] 6
      = some ([some 1, some 9, none, none, none, none], .ok) := by
  constructor <;> decide +kernel

/-- `try: (try: take 1; take 2 / interrupt when c0: return); take 3 / interrupt when c1: take 5`; take 8; take 9 -/
def progNestedReturn : List SBeh :=
  [ { pre := [], inv := [], body :=
      [.tryI [.tryI [.take 1, .take 2] [(0, [.ret])], .take 3] [(1, [.take 5])], .take 8, .take 9] } ]

/-- Without `nestedFlow`: `return` in a handler of a nested statement only aborts the outer statement. -/
theorem legacy_nested_return_lost :
    runS legacyFlow progNestedReturn [[0,1,0,0,0,0]] [] 6
      = some ([some 1, some 8, some 9, none, none, none], .ok)
    ∧ runS Cfg.spec progNestedReturn [[0,1,0,0,0,0]] [] 6
      = some ([some 1, none, none, none, none, none], .ok) := by
  constructor <;> decide +kernel

/-- `for _ in range(3): (try: (try: take 1; take 2 / interrupt when c0: break) / interrupt when c1: take 5); take 8`; take 9 -/
def progNestedBreak : List SBeh :=
  [ { pre := [], inv := [], body :=
      [.forN 3 [.tryI [.tryI [.take 1, .take 2] [(0, [.brk])]] [(1, [.take 5])], .take 8], .take 9] } ]

/-- Without `nestedFlow`: `break` in a handler of a nested statement does not even compile
    ("'break' outside loop"); with the repair it leaves the loop. -/
theorem legacy_nested_break_does_not_compile :
    runS legacyFlow progNestedBreak [[0,1,0,0,0,0]] [] 6 = none
    ∧ runS Cfg.spec progNestedBreak [[0,1,0,0,0,0]] [] 6
      = some ([some 1, some 9, none, none, none, none], .ok) := by
  constructor <;> decide +kernel

/-- `try: (try: take 1; take 2; take 3 / interrupt when c0: take 4 / interrupt when c1: take 5) / interrupt when c2: take 6`; take 9 -/
def progMoreHandlersInside : List SBeh :=
  [ { pre := [], inv := [], body :=
      [.tryI [.tryI [.take 1, .take 2, .take 3] [(0, [.take 4]), (1, [.take 5])]] [(2, [.take 6])], .take 9] } ]

/-- Without `nestedNames` (code before f18ee090): a nested statement with more handlers than any statement at behaviour level does
    not compile ("no binding for nonlocal '_Scenic_interrupt_condition_1'"). -/
theorem legacy_nested_names_do_not_compile :
    runS legacyNames progMoreHandlersInside [[0,1,0,0,0,0],[0,0,1,0,0,0],[0,0,0,1,0,0]] [] 6 = none
    ∧ runS Cfg.spec progMoreHandlersInside [[0,1,0,0,0,0],[0,0,1,0,0,0],[0,0,0,1,0,0]] [] 6
      = some ([some 1, some 4, some 5, some 6, some 2, some 3], .ok) := by
  constructor <;> decide +kernel

/-- `while True: (try: do B1() / interrupt when c0: abort); take 9`, B1 does B2, B2 takes 1 2 3 -/
def progAbortStopsSubs : List SBeh :=
  [ { pre := [], inv := [], body := [.whileT [.tryI [.doSub 1 none] [(0, [.abort])], .take 9]] },
    { pre := [], inv := [], body := [.doSub 2 none] },
    { pre := [], inv := [], body := [.take 1, .take 2, .take 3] } ]

/-- Example: `abort` at step 2 abandons the body, which is two sub-behaviours deep: both are stopped in that
    step (innermost first), the statement after the try-interrupt runs, and the next loop iteration starts
    fresh instances. -/
theorem example_abort_stops_subs :
    (lowerProg Cfg.spec progAbortStopsSubs).map (fun P =>
      let tr := simulate Cfg.spec P (envOf [[0,0,1,0,0,0]] []) 200 0 6
      (tr.actions, tr.events.map fun es => es.filter fun e => match e with | .chk _ _ => false | _ => true))
    = some ([some 1, some 2, some 9, some 1, some 2, some 3],
            [[.sstart 1, .sstart 2], [], [.sstop 2, .sstop 1], [.sstart 1, .sstart 2], [], [], []]) := by
  decide +kernel

/-- `try: do B1() / interrupt when c0: take 5` in a behaviour with invariant g0; B1 takes 1, 2, 3 -/
def progViolWhileSubSuspended : List SBeh :=
  [ { pre := [], inv := [0], body := [.tryI [.doSub 1 none] [(0, [.take 5])]] },
    { pre := [], inv := [], body := [.take 1, .take 2, .take 3] } ]

/-- Without `closeBlocks` (code before 41fb4809): the invariant fails at step 2, when the handler is resumed
    after its action, while the pre-empted body is suspended inside B1: B1 is not stopped in that step (it is
    finalised only after the simulation has ended).  With the repair its stop is part of the step. -/
theorem legacy_violation_leaves_sub_running :
    (lowerProg legacyClose progViolWhileSubSuspended).map (fun P =>
      let tr := simulate legacyClose P (envOf [[0,1,0,0]] [[1,1,0,1]]) 200 0 4
      (tr.outcome, tr.events.flatten.count (.sstart 1), tr.events.flatten.count (.sstop 1)))
      = some (.violation ⟨.inv, 0⟩ 2, 1, 0)
    ∧ (lowerProg Cfg.spec progViolWhileSubSuspended).map (fun P =>
      let tr := simulate Cfg.spec P (envOf [[0,1,0,0]] [[1,1,0,1]]) 200 0 4
      (tr.outcome, tr.events.flatten.count (.sstart 1), tr.events.flatten.count (.sstop 1)))
      = some (.violation ⟨.inv, 0⟩ 2, 1, 1) := by
  constructor <;> decide +kernel

/-- Example for `preempt_latest_enabled`: clauses `[c0 (running), c1 (enabled), c2 (neither)]` in source
    order -> runtime index 1 = clause 1 is picked -/
example :
    let env : Env := { cond := fun c => c == 1, guard := fun _ => 1 }
    let cls : List (Blk K) := [⟨0, [], some (.atYld [] [])⟩, ⟨1, [], none⟩, ⟨2, [], none⟩]
    pick Cfg.spec env cls.reverse = some 1 := by decide +kernel

/-- Example (hypotheses of `break_effect` / `break_propagates` are satisfiable): a handler `break` whose condition is true -/
example :
    let env : Env := { cond := fun _ => true, guard := fun _ => 1 }
    let hs : List (Blk K) := [⟨0, [L.flow .brk], none⟩]
    let body : Blk K := ⟨0, [L.yld 1], none⟩
    pick Cfg.spec env hs = some 0 ∧ allSeq [Frame.seq [L.yld 8]] = true ∧
    (match stepBlk Cfg.spec [] env 3 0 (inSubFor false (.user ⟨true, false, false⟩) body hs (some 0)) (hs.getD 0 body) with
      | .done f lg => f == .brk && lg.isEmpty
      | _ => false) = true := by decide +kernel

/-- Example (hypothesis of `no_check_while_sub_runs`): a behaviour waiting, inside the body of a try-interrupt statement whose
    handler is not active, for sub-behaviour 1 -/
example :
    let env : Env := { cond := fun _ => false, guard := fun _ => 1 }
    let k : K := .atTry (.user ⟨false, false, false⟩) ⟨0, [], some (.atSub 1 (.atYld [L.yld 2] []) [L.chk] [])⟩ [⟨0, [L.yld 9], none⟩] [] []
    (K.subLeaf Cfg.spec env k).map (·.1) = some 1 := by decide +kernel

/-- Example (hypothesis of `lower_try_flags`, non-trivial flags): `try: take 1 / interrupt when c0: break` inside a loop
    compiles, and the re-raising `break` is emitted -/
example :
    (lowerS Cfg.spec { inBlock := false, inLoop := true, maxTop := 1 } { usedBrk := false, usedCont := false }
        (.tryI [.take 1] [(0, [.brk])])).map
      (fun p => match p.1 with | [L.tryI (.user fl) _ hs] => (fl.emitBrk, fl.emitCont, fl.retWrap, hs.length) | _ => (false, false, false, 0))
      = some (true, false, false, 1) := by decide +kernel

/-- Example (hypotheses of `start_ok_iff` / `rejection_in_guard_is_violation`): a rejecting invariant -/
example :
    let env : Env := { cond := fun _ => false, guard := fun g => if g = 1 then 2 else 1 }
    let P : Prog := [{ pre := [0], inv := [1], body := [L.yld 1] }]
    (startChecks Cfg.spec P env 0).2 = some ⟨.inv, 0⟩ ∧ (checkGuards env 0 [0, 1]).2 = false := by decide +kernel

/-! ## multi-step exact resumption (C13Frozen) on the generated configuration -/

/-- for any number of time steps with some interrupt condition of the statement true, the body block -- with the
    continuation saved when it was pre-empted -- is carried along unchanged, or a handler ended the statement -/
theorem body_frozen_multi_step (P : Prog) (fuel self : Nat) (inSub : Bool) (kind : TryKind) (body : Blk K)
    (l : List L) (c : List Frame) (envs : List Env) (hs : List (Blk K)) (as : List Nat) (k' : K)
    (hen : ∀ env ∈ envs, shapeEnabled env (shape hs) = true)
    (h : resumeN interruptCfg P fuel self inSub envs (.atTry kind body hs l c) = some (as, k')) :
    (∃ hs', k' = .atTry kind body hs' l c ∧ shape hs' = shape hs ∧ as.length = envs.length) ∨
      ∃ env ∈ envs, HandlerEndsStatement interruptCfg P env self inSub kind body (shape hs) :=
  body_frozen_while_handlers_active interruptCfg gen_selection.1 P fuel self inSub kind body l c envs hs as k' hen h

/-- ... and at the first step with no handler active the body is resumed from exactly that continuation -/
theorem preempted_body_resumes_after_any_steps (P : Prog) (fuel self : Nat)
    (inSub : Bool) (kind : TryKind) (cnd : Nat) (code : List L) (kb : K) (l : List L) (c : List Frame)
    (envs : List Env) (hs : List (Blk K)) (as : List Nat) (k1 : K)
    (hen : ∀ env ∈ envs, shapeEnabled env (shape hs) = true)
    (hrun : resumeN interruptCfg P fuel self inSub envs (.atTry kind ⟨cnd, code, some kb⟩ hs l c) = some (as, k1))
    (hnc : ¬ ∃ env ∈ envs, HandlerEndsStatement interruptCfg P env self inSub kind ⟨cnd, code, some kb⟩ (shape hs)) :
    ∃ hs', k1 = .atTry kind ⟨cnd, code, some kb⟩ hs' l c ∧ shape hs' = shape hs ∧
      ∀ (env' : Env) (fuel' a : Nat) (k' : K) (lg : List Ev), pick interruptCfg env' hs' = none →
        go interruptCfg P env' fuel' self (inSubFor inSub kind ⟨cnd, code, some kb⟩ hs' none) (.resume kb) = .yielded a k' lg →
        go interruptCfg P env' (fuel' + 1) self inSub (.loopTI kind ⟨cnd, code, some kb⟩ hs' l c)
          = .yielded a (.atTry kind ⟨cnd, code, some k'⟩ hs' l c) lg :=
  preempted_body_resumes_exactly interruptCfg gen_selection.1 P fuel self inSub kind cnd code kb l c envs hs as k1 hen hrun hnc

/-- Example (the hypotheses are satisfiable, non-trivially): body `take 1; take 2; take 3` pre-empted after 1, handler
    `take 10; take 11` suspended after 10.  Three steps with the condition true (the handler finishes and fires again),
    then false: actions 11 10 11, then the body continues with 2 -- and is then suspended before 3. -/
theorem example_frozen_body_three_steps :
    let on : Env := { cond := fun _ => true, guard := fun _ => 1 }
    let off : Env := { cond := fun _ => false, guard := fun _ => 1 }
    let k0 : K := .atTry (.user ⟨false, false, false⟩) ⟨0, [L.yld 1, L.yld 2, L.yld 3], some (.atYld [L.yld 2, L.yld 3] [])⟩
      [⟨0, [L.yld 10, L.yld 11], some (.atYld [L.yld 11] [])⟩] [] []
    shapeEnabled on (shape [⟨0, [L.yld 10, L.yld 11], none⟩]) = true ∧
    (resumeN interruptCfg [] 50 0 false [on, on, on] k0).map (fun r => (r.1, match r.2 with
        | .atTry _ ⟨_, _, some (.atYld [L.yld 2, L.yld 3] [])⟩ _ _ _ => true | _ => false)) = some ([11, 10, 11], true) ∧
    (resumeN interruptCfg [] 50 0 false [on, on, on, off] k0).map (fun r => (r.1, match r.2 with
        | .atTry _ ⟨_, _, some (.atYld [L.yld 3] [])⟩ _ _ _ => true | _ => false)) = some ([11, 10, 11, 2], true) := by
  decide +kernel

end Scenic.C13
