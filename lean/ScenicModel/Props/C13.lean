/-! # C13 — property theorems (stub: filled in when the property's model is built) -/
namespace Scenic.C13
end Scenic.C13
