/-! # C03 — property theorems (stub: filled in when the property's model is built) -/
namespace Scenic.C03
end Scenic.C03
