import ScenicModel.Props.C03Geo
import ScenicModel.Lemmas.RegionSampling
import ScenicModel.Gen.RegionSampling

/-!
# C03 — positions drawn in/on a region lie in it, reach all of it, and are uniform

Part 1 (this file): the discrete/atomic clauses.  A region is a finite list of equal-measure atoms
(for point sets and grids the atoms *are* the points, so these statements are exact); a sampler is a
sub-probability mass list and `mass p x` is the probability that `x` is returned.  For every sampler the
three clauses of the property are stated together:

* membership  — atoms outside the (composed) set have mass 0,
* support     — every atom of the (composed) set has positive mass,
* uniformity  — all atoms of the (composed) set have the *same* mass (so, conditional on a point being
                returned, the distribution is uniform on the composed set, not on an operand).

All statements are about the samplers instantiated with the data `Scenic.Gen.samplerCfg` regenerated
from `regions.py` on every run; `gen_sampler_cfg` is the side condition re-decided each time.

Part 2 (`Props/C03Geo.lean`): closed-form samplers and candidate balls over exact rationals.
-/
namespace Scenic.C03
open Scenic.RegionSampling Scenic.Gen

variable {α : Type} [DecidableEq α]

/-- side condition on generated data: the generic samplers have the shape the theorems are about -/
theorem gen_sampler_cfg : samplerCfg = SamplerCfg.reference := by decide

/-- side condition on generated data: the point-set sampler filters its candidates with the other region's
    three-coordinate membership test `_trueContainsPoint` (not the z-blind `containsPoint`, not nothing) -/
theorem gen_ball_filter : ballFilter = BallFilter.trueContainsPoint := by decide

/-- side condition on generated data: without a `circumcircle` every point of the set is a candidate -/
theorem gen_ball_fallback : ballFallback = BallFallback.allPoints := by decide

/-- side condition on generated data: the polygon sampler discards candidates outside the polygon -/
theorem gen_polygon_filter : polygonOuterFilter = true := by decide


/-! ## point sets and grids -/

/-- `PointSetRegion.uniformPointInner` / `GridRegion`: exactly uniform over the points, nothing else. -/
theorem pointset_uniform (pts : List α) (h : pts.Nodup) (x : α) :
    mass (uniformList pts) x = if x ∈ pts then 1 / (pts.length : Rat) else 0 :=
  mass_uniformList_nodup pts h x

/-- with repeated points the code weights a point by its multiplicity (what the code does). -/
theorem pointset_multiplicity (pts : List α) (x : α) :
    mass (uniformList pts) x = (pts.count x : Rat) / (pts.length : Rat) :=
  mass_uniformList pts x

example : mass (uniformList [3, 5, 8]) 5 = 1 / 3 ∧ mass (uniformList [3, 5, 8]) 4 = 0 := by decide +kernel

/-! ## union -/

/-- **Union** (any number of operands of one dimension, any overlaps): every atom of the union has
    probability exactly `1 / Σ|Rᵢ|` of being returned, atoms outside have probability 0.
    The measure is that of the composed set: an atom lying in several operands is *not* favoured, and
    the operand that happened to be sampled does not matter. -/
theorem union_uniform (d : Nat) (μ : Rat) (hμ : 0 < μ) (Rs : List (List α))
    (hnd : ∀ R ∈ Rs, R.Nodup) (x : α) :
    ∃ p, unionSampler samplerCfg (Rs.map (primOperand d μ)) = some p ∧
      mass p x = if (∃ R ∈ Rs, x ∈ R) then 1 / (((Rs.map List.length).sum : Nat) : Rat) else 0 := by
  rw [gen_sampler_cfg]; exact union_mass d μ hμ Rs hnd x

/-- support clause of the union, spelled out -/
theorem union_support (d : Nat) (μ : Rat) (hμ : 0 < μ) (Rs : List (List α))
    (hnd : ∀ R ∈ Rs, R.Nodup) (x : α) (R : List α) (hR : R ∈ Rs) (hx : x ∈ R) :
    ∃ p, unionSampler samplerCfg (Rs.map (primOperand d μ)) = some p ∧ 0 < mass p x := by
  obtain ⟨p, hp, hm⟩ := union_uniform d μ hμ Rs hnd x
  refine ⟨p, hp, ?_⟩
  rw [hm, if_pos ⟨R, hR, hx⟩]
  have hpos : 0 < (Rs.map List.length).sum := by
    have h1 : 0 < R.length := List.length_pos_of_mem hx
    have h2 : R.length ≤ (Rs.map List.length).sum :=
      List.single_le_sum (by intro _ _; exact Nat.zero_le _) _ (List.mem_map.mpr ⟨R, hR, rfl⟩)
    omega
  have : (0 : Rat) < (((Rs.map List.length).sum : Nat) : Rat) := by exact_mod_cast hpos
  positivity

/-- **Union with operands of lower dimension** (e.g. a volume ∪ a surface ∪ a point set): only the
    top-dimensional operands are sampled, weighted by size, and every atom of their union that lies in
    none of the lower-dimensional operands (those are null sets for the top-dimensional measure) has mass
    `1 / Σ|Rᵢ|` over the top-dimensional operands only. -/
theorem union_lowdim_ignored (d : Nat) (μ : Rat) (hμ : 0 < μ) (R : List α) (Rs : List (List α))
    (hnd : ∀ S ∈ R :: Rs, S.Nodup) (smalls : List (Operand α))
    (hsm : ∀ o ∈ smalls, ∃ e, o.dim = some e ∧ e < d) (x : α)
    (hx : ∀ o ∈ smalls, o.contains x = false) :
    ∃ p, unionSampler samplerCfg ((R :: Rs).map (primOperand d μ) ++ smalls) = some p ∧
      mass p x = if (∃ S ∈ R :: Rs, x ∈ S)
        then 1 / ((((R :: Rs).map List.length).sum : Nat) : Rat) else 0 := by
  rw [gen_sampler_cfg]
  refine ⟨_, unionSampler_mixed d μ R Rs smalls hsm, ?_⟩
  apply union_mass_core d μ hμ (R :: Rs) hnd
  · intro i o h
    have hi : i < ((R :: Rs).map (primOperand d μ)).length := by
      by_contra hge
      rw [List.getElem?_eq_none (by omega)] at h
      exact absurd h (by simp)
    rw [List.getElem?_append_left hi]; exact h
  · unfold containCount
    rw [List.filter_append, List.length_append]
    have h0 : (smalls.filter fun o => o.contains x) = [] := by
      apply List.filter_eq_nil_iff.mpr
      intro o ho; simp [hx o ho]
    rw [h0, List.length_nil, Nat.add_zero]
    exact containCount_prim d μ (R :: Rs) x

example : ∃ p, unionSampler samplerCfg ([[1, 2, 3], [3, 4]].map (primOperand 2 1) ++ [primOperand 0 1 [9, 8]]) = some p ∧
    mass p 3 = 1 / 5 ∧ mass p 9 = 0 :=
  ⟨_, rfl, by decide +kernel⟩

example : ∃ p, unionSampler samplerCfg ([[1, 2, 3], [3, 4]].map (primOperand 0 1)) = some p ∧
    mass p 3 = 1 / 5 ∧ mass p 1 = 1 / 5 ∧ mass p 4 = 1 / 5 ∧ mass p 7 = 0 :=
  ⟨_, rfl, by decide +kernel⟩

/-- Why each ingredient is needed (negation witnesses on mutated shapes):
    without the multiplicity rejection the shared atom is twice as likely … -/
theorem union_without_rejection_not_uniform :
    ∃ p, unionSampler { SamplerCfg.reference with unionAccept := .always }
        ([[1, 2, 3], [3, 4]].map (primOperand 0 1)) = some p ∧ mass p 3 = 2 / 5 ∧ mass p 1 = 1 / 5 :=
  ⟨_, rfl, by decide +kernel⟩

/-- … and with unit weights instead of sizes the atoms of the smaller operand are favoured. -/
theorem union_unit_weights_not_uniform :
    ∃ p, unionSampler { SamplerCfg.reference with unionWeight := .one }
        ([[1, 2, 3], [4]].map (primOperand 0 1)) = some p ∧ mass p 1 = 1 / 6 ∧ mass p 4 = 1 / 2 :=
  ⟨_, rfl, by decide +kernel⟩

/-- **Union, full support whatever the membership tests answer.**  The drawn region is counted by
    construction (`1 + sum(... if reg is not target_reg)`), so the containment count is never zero: for *any*
    operands (exact membership tests or not — e.g. a polyline that does not recognise its own interpolated
    samples), every point that a top-dimensional operand of positive size can produce is returned by the union
    with positive probability. -/
theorem union_support_general (ops : List (Operand α)) (p : SubPMF α)
    (hp : unionSampler samplerCfg ops = some p)
    (hw : ∀ o ∈ ops, 0 ≤ opSize o)
    (hs : ∀ o ∈ ops, ∀ e ∈ o.sampler.getD [], 0 ≤ e.2)
    (oi : Operand α × Nat) (hoi : oi ∈ unionLargeIdx samplerCfg ops) (hsz : 0 < opSize oi.1)
    (x : α) (hx : 0 < mass (oi.1.sampler.getD []) x) : 0 < mass p x := by
  rw [gen_sampler_cfg] at hp hoi
  unfold unionSampler at hp
  split at hp; · exact absurd hp (by simp)
  simp only at hp
  split at hp; · exact absurd hp (by simp)
  split at hp; · exact absurd hp (by simp)
  simp only [Option.some.injEq, SamplerCfg.reference] at hp
  subst hp
  have hmemops : ∀ oj ∈ unionLargeIdx SamplerCfg.reference ops, oj.1 ∈ ops := by
    intro oj hoj
    unfold unionLargeIdx at hoj
    split at hoj
    · simp at hoj
    · exact List.mem_of_getElem? (List.mem_zipIdx_iff_getElem?.mp (List.mem_of_mem_filter hoj))
  rw [mass_weightedPick]
  set L := unionLargeIdx SamplerCfg.reference ops with hL
  set W := (L.map fun oj => opSize oj.1).sum with hW
  have hWpos : 0 < W := by
    have := le_sum_of_mem L (fun oj => opSize oj.1) (fun oj hoj => hw _ (hmemops oj hoj)) oi hoi
    exact lt_of_lt_of_le hsz this
  have hterm0 : ∀ oj ∈ L, 0 ≤ opSize oj.1 / W *
      mass ((oj.1.sampler.getD []).map fun e =>
        (e.1, e.2 * acceptProb .invCount
          (unionCountAt SamplerCfg.reference ops.zipIdx (fun i j => i == j) oj.2 e.1))) x := by
    intro oj hoj
    rw [mass_map_mul _ (fun y => acceptProb .invCount
      (unionCountAt SamplerCfg.reference ops.zipIdx (fun i j => i == j) oj.2 y)) x]
    apply mul_nonneg (div_nonneg (hw _ (hmemops oj hoj)) hWpos.le)
    exact mul_nonneg (mass_nonneg (hs _ (hmemops oj hoj)) x) (acceptProb_invCount_nonneg _)
  have hge := le_sum_of_mem L _ hterm0 oi hoi
  refine lt_of_lt_of_le ?_ hge
  rw [mass_map_mul _ (fun y => acceptProb .invCount
    (unionCountAt SamplerCfg.reference ops.zipIdx (fun i j => i == j) oi.2 y)) x]
  exact mul_pos (div_pos hsz hWpos)
    (mul_pos hx (acceptProb_invCount_pos _ (unionCountAt_reference_pos _ _ _ _)))

/-- a region of two atoms whose membership test rejects everything (its own samples included), in a union with
    an ordinary point set: with the repaired count every atom is still produced … -/
example : ∃ p, unionSampler samplerCfg
      [{ sampler := some (uniformList [1, 2]), dim := some 0, size := some 2, contains := fun _ => false },
       primOperand 0 1 [3]] = some p ∧ mass p 1 = 1 / 3 ∧ mass p 3 = 1 / 3 :=
  ⟨_, rfl, by decide +kernel⟩

/-- … whereas the shape before the repair (`sum(...)` over all regions, the drawn one asked about its own
    sample) divides by zero on every draw from that region: none of its atoms is ever returned. -/
theorem union_self_test_loses_support :
    ∃ p, unionSampler { SamplerCfg.reference with unionSelf := .byTest }
      [{ sampler := some (uniformList [1, 2]), dim := some 0, size := some 2, contains := fun _ => false },
       primOperand 0 1 [3]] = some p ∧ mass p 1 = 0 ∧ mass p 2 = 0 ∧ mass p 3 = 1 / 3 :=
  ⟨_, rfl, by decide +kernel⟩

/-! ## grids in unions -/

/-- `GridRegion._trueContainsPoint` (regenerated: the point-set test) makes a grid an ordinary point set for
    the generic samplers, so `union_uniform` / `intersection_prim_uniform` / `difference_uniform` apply to it. -/
theorem grid_operand_exact (pts : List α) (cellOf : α → Option α) :
    gridOperand membership.grid pts cellOf = primOperand 0 1 pts := by
  rw [gen_membership]; rfl

/-- with the cell-based test inherited from `containsPoint` (before the repair) a point of *another* operand
    that lies over a free cell is counted twice and comes out with half the probability of its neighbours -/
theorem grid_cell_membership_not_uniform :
    ∃ p, unionSampler SamplerCfg.reference
      [primOperand 0 1 [1, 2, 3], gridOperand .cell [10] (fun x => if x = 1 then some 10 else none)] = some p ∧
      mass p 1 = 1 / 8 ∧ mass p 2 = 1 / 4 ∧ mass p 10 = 1 / 4 :=
  ⟨_, rfl, by decide +kernel⟩

example : ∃ p, unionSampler samplerCfg
      [primOperand 0 1 [1, 2, 3], gridOperand membership.grid [10] (fun x => if x = 1 then some 10 else none)] = some p ∧
      mass p 1 = 1 / 4 ∧ mass p 2 = 1 / 4 ∧ mass p 10 = 1 / 4 :=
  ⟨_, rfl, by decide +kernel⟩

/-! ## intersection -/

/-- the composed set of an intersection: what every operand's `_trueContainsPoint` accepts -/
def inAllOps (ops : List (Operand α)) (x : α) : Bool := ops.all (·.contains x)

/-- **Intersection, compositional form.**  Whatever operands are sampled (primitive or themselves
    composed, with their own rejections), if each sampled operand is uniform on the composed set `I`
    (equal masses on `I`), then so is the intersection, and nothing outside `I` is ever returned. -/
theorem intersection_uniform (ops : List (Operand α)) (p : SubPMF α)
    (hp : interSampler samplerCfg ops = some p)
    (hu : ∀ o ∈ ops, ∀ q, o.sampler = some q →
      ∀ x y, inAllOps ops x = true → inAllOps ops y = true → mass q x = mass q y) :
    (∀ x y, inAllOps ops x = true → inAllOps ops y = true → mass p x = mass p y) ∧
    (∀ x, inAllOps ops x = false → mass p x = 0) := by
  rw [gen_sampler_cfg, interSampler_reference] at hp
  split at hp
  · exact absurd hp (by simp)
  · simp only [Option.some.injEq] at hp
    subst hp
    have hsub : ∀ o ∈ interSamplingRegions SamplerCfg.reference ops, o ∈ ops := by
      intro o ho
      unfold interSamplingRegions at ho
      split at ho
      · exact ho
      · exact List.mem_of_mem_filter ho
    apply interFirstFit_uniform (fun x => ops.all (·.contains x))
    intro q hq x y hx hy
    obtain ⟨o, ho, hoq⟩ := List.mem_map.mp hq
    exact hu o (hsub o ho) q hoq x y hx hy

/-- **Intersection of primitive regions of one dimension** (e.g. point sets): membership, support and
    uniformity on `⋂ Rᵢ`, with an explicit lower bound for the common mass. -/
theorem intersection_prim_uniform (d : Nat) (μ : Rat) (R : List α) (Rs : List (List α))
    (hnd : ∀ S ∈ R :: Rs, S.Nodup) :
    ∃ p, interSampler samplerCfg ((R :: Rs).map (primOperand d μ)) = some p ∧
      (∀ x y, (∀ S ∈ R :: Rs, x ∈ S) → (∀ S ∈ R :: Rs, y ∈ S) → mass p x = mass p y) ∧
      (∀ x, (¬ ∀ S ∈ R :: Rs, x ∈ S) → mass p x = 0) ∧
      (∀ x, (∀ S ∈ R :: Rs, x ∈ S) → 1 / (R.length : Rat) ≤ mass p x ∧ 0 < mass p x) := by
  have hall : ∀ x, inAllOps ((R :: Rs).map (primOperand d μ)) x = true ↔ ∀ S ∈ R :: Rs, x ∈ S := by
    intro x
    simp [inAllOps, primOperand]
  -- all operands have dimension d, so all of them are sampled, in order
  have hsamp : interSamplingRegions SamplerCfg.reference ((R :: Rs).map (primOperand d μ))
      = (R :: Rs).map (primOperand d μ) := by
    unfold interSamplingRegions
    have hdims : ((R :: Rs).map (primOperand d μ)).filterMap (·.dim) = (R :: Rs).map fun _ => d := by
      generalize R :: Rs = L
      induction L with
      | nil => rfl
      | cons S L ih => simp [primOperand] at ih ⊢; exact ih
    rw [hdims]
    have hmin : listMin ((R :: Rs).map fun _ => d) = some d := by
      simp only [List.map_cons, listMin]
      congr 1
      generalize Rs = L
      induction L with
      | nil => rfl
      | cons S L ih => simpa using ih
    rw [hmin]
    apply List.filter_eq_self.mpr
    intro o ho
    obtain ⟨S, _, rfl⟩ := List.mem_map.mp ho
    simp [primOperand, SamplerCfg.reference, CmpOp.eval]
  have hsome : interSampler samplerCfg ((R :: Rs).map (primOperand d μ)) =
      some (interFirstFit (fun x => ((R :: Rs).map (primOperand d μ)).all (·.contains x))
        (((R :: Rs).map (primOperand d μ)).map (·.sampler))) := by
    rw [gen_sampler_cfg, interSampler_reference, hsamp]
    simp [primOperand]
  refine ⟨_, hsome, ?_, ?_, ?_⟩
  · intro x y hx hy
    have := intersection_uniform ((R :: Rs).map (primOperand d μ)) _ hsome ?_
    · exact this.1 x y ((hall x).mpr hx) ((hall y).mpr hy)
    · intro o ho q hq x y hx hy
      obtain ⟨S, hS, rfl⟩ := List.mem_map.mp ho
      simp only [primOperand, Option.some.injEq] at hq
      subst hq
      rw [mass_uniformList_nodup S (hnd S hS), mass_uniformList_nodup S (hnd S hS)]
      simp [(hall x).mp hx S hS, (hall y).mp hy S hS]
  · intro x hx
    have := intersection_uniform ((R :: Rs).map (primOperand d μ)) _ hsome ?_
    · apply this.2 x
      cases h : inAllOps ((R :: Rs).map (primOperand d μ)) x
      · rfl
      · exact absurd ((hall x).mp h) hx
    · intro o ho q hq x y hx hy
      obtain ⟨S, hS, rfl⟩ := List.mem_map.mp ho
      simp only [primOperand, Option.some.injEq] at hq
      subst hq
      rw [mass_uniformList_nodup S (hnd S hS), mass_uniformList_nodup S (hnd S hS)]
      simp [(hall x).mp hx S hS, (hall y).mp hy S hS]
  · intro x hx
    have hvalid : ∀ S : List α, IsSubPMF (uniformList S) := by
      intro S
      constructor
      · intro e he
        simp only [uniformList, List.mem_map] at he
        obtain ⟨_, _, rfl⟩ := he
        positivity
      · by_cases hS : S.length = 0
        · have : S = [] := List.length_eq_zero_iff.mp hS
          subst this; simp [uniformList, total]
        · have hS' : (S.length : Rat) ≠ 0 := by exact_mod_cast hS
          have : total (uniformList S) = 1 := by
            simp only [uniformList, total, List.map_map]
            have : (Prod.snd ∘ fun x : α => (x, 1 / (S.length : Rat))) = fun _ => 1 / (S.length : Rat) := rfl
            rw [this, List.map_const', List.sum_replicate]
            simp; field_simp
          rw [this]
    have hge := interFirstFit_ge_first
      (fun x => ((R :: Rs).map (primOperand d μ)).all (·.contains x))
      (uniformList R) ((Rs.map (primOperand d μ)).map (·.sampler)) (hvalid R)
      (by
        intro q hq
        obtain ⟨o, ho, hoq⟩ := List.mem_map.mp hq
        obtain ⟨S, _, rfl⟩ := List.mem_map.mp ho
        simp only [primOperand, Option.some.injEq] at hoq
        subst hoq; exact hvalid S)
      x ((hall x).mpr hx)
    have hxR : x ∈ R := hx R (by simp)
    rw [mass_uniformList_nodup R (hnd R (by simp)), if_pos hxR] at hge
    have hlen : (0 : Rat) < (R.length : Rat) := by
      have : 0 < R.length := List.length_pos_of_mem hxR
      exact_mod_cast this
    have h1 : (0 : Rat) < 1 / (R.length : Rat) := by positivity
    have hge' : 1 / (R.length : Rat) ≤ mass (interFirstFit
        (fun x => ((R :: Rs).map (primOperand d μ)).all (·.contains x))
        (((R :: Rs).map (primOperand d μ)).map (·.sampler))) x := hge
    exact ⟨hge', lt_of_lt_of_le h1 hge'⟩

example : ∃ p, interSampler samplerCfg ([[1, 2, 3, 4], [2, 4, 6], [4, 2, 9]].map (primOperand 0 1)) = some p ∧
    mass p 2 = mass p 4 ∧ 0 < mass p 2 ∧ mass p 1 = 0 ∧ mass p 6 = 0 :=
  ⟨_, rfl, by decide +kernel⟩

/-- why an operand must recognise its own samples (`PolylineRegion.containsPoint` before its repair did not):
    the first-fit test ranges over *all* operands, the sampled one included, so such an intersection rejects
    every draw although the composed set `{1, 2}` is not empty. -/
theorem intersection_needs_self_recognition :
    ∃ p, interSampler samplerCfg
      [{ sampler := some (uniformList [1, 2]), dim := some 1, size := some 2, contains := fun _ => false },
       primOperand 3 1 [1, 2, 3]] = some p ∧ mass p 1 = 0 ∧ mass p 2 = 0 ∧ total p = 0 :=
  ⟨_, rfl, by decide +kernel⟩

/-! ## difference -/

/-- **Difference**: the sample of `A` is returned exactly when `B` does not contain it; hence if `A`'s
    sampler is uniform on `A` the result is uniform on `A \ B`, nothing of `B` is returned, and every
    atom of `A \ B` keeps its (positive) mass. -/
theorem difference_uniform (a b : Operand α) (p : SubPMF α) (h : a.sampler = some p) (x : α) :
    ∃ q, diffSampler samplerCfg a b = some q ∧
      mass q x = if b.contains x then 0 else mass p x := by
  rw [gen_sampler_cfg]; exact mass_diffSampler a b p h x

/-- the primitive case spelled out -/
theorem difference_prim_uniform (d : Nat) (μ : Rat) (A : List α) (hA : A.Nodup) (b : Operand α) (x : α) :
    ∃ q, diffSampler samplerCfg (primOperand d μ A) b = some q ∧
      mass q x = if x ∈ A ∧ b.contains x = false then 1 / (A.length : Rat) else 0 := by
  obtain ⟨q, hq, hm⟩ := difference_uniform (primOperand d μ A) b (uniformList A) rfl x
  refine ⟨q, hq, ?_⟩
  rw [hm, mass_uniformList_nodup A hA]
  cases b.contains x <;> simp

example : ∃ q, diffSampler samplerCfg (primOperand 0 1 [1, 2, 3, 4]) (primOperand 0 1 [2, 9]) = some q ∧
    mass q 1 = 1 / 4 ∧ mass q 2 = 0 ∧ mass q 9 = 0 := ⟨_, rfl, by decide +kernel⟩

/-! ## point set ∩ region, driven by the other region's candidate ball -/

/-- The specialised sampler of `PointSetRegion.intersect` is uniform on `{p ∈ P | o ∋ p}` **iff** the
    candidate ball (`o.circumcircle`) covers that set.  (`⇐` is why `circumcircle` must be an upper
    bound — see `sector_circumcircle_sound` etc.; `⇒` is why a wrong radius silently loses points.) -/
theorem pointset_inter_uniform_iff (P : List α) (hP : P.Nodup) (inBall contains : α → Bool) :
    (∀ x, mass (ballSampler P inBall contains) x = mass (uniformList (P.filter contains)) x)
      ↔ (∀ p ∈ P, contains p = true → inBall p = true) := by
  constructor
  · intro h p hp hc
    by_contra hb
    have hb' : inBall p = false := by simpa using hb
    have h1 := h p
    rw [mass_ballSampler, mass_uniformList_nodup _ (hP.filter _), mass_uniformList_nodup _ (hP.filter _)] at h1
    have hin : p ∈ P.filter contains := List.mem_filter.mpr ⟨hp, hc⟩
    have hnin : p ∉ P.filter fun q => inBall q && contains q := by
      intro hm
      have := (List.mem_filter.mp hm).2
      simp [hb'] at this
    rw [if_neg hnin, if_pos hin] at h1
    have hlen : (0 : Rat) < ((P.filter contains).length : Rat) := by
      have : 0 < (P.filter contains).length := List.length_pos_of_mem hin
      exact_mod_cast this
    have : (0 : Rat) < 1 / ((P.filter contains).length : Rat) := by positivity
    linarith
  · intro h x
    rw [mass_ballSampler]
    have : (P.filter fun q => inBall q && contains q) = P.filter contains := by
      apply List.filter_congr
      intro q hq
      cases hc : contains q
      · simp
      · simp [h q hq hc]
    rw [this]

/-- consequently (ball covers the set): membership, support and uniformity on `{p ∈ P | o ∋ p}` -/
theorem pointset_inter_uniform (P : List α) (hP : P.Nodup) (inBall contains : α → Bool)
    (hcover : ∀ p ∈ P, contains p = true → inBall p = true) (x : α) :
    mass (ballSampler P inBall contains) x =
      if x ∈ P ∧ contains x = true then 1 / ((P.filter contains).length : Rat) else 0 := by
  rw [(pointset_inter_uniform_iff P hP inBall contains).mpr hcover x,
    mass_uniformList_nodup _ (hP.filter _)]
  simp [List.mem_filter]

example : mass (ballSampler [1, 2, 3, 4, 5] (fun n => n ≤ 4) (fun n => n % 2 = 0)) 2 = 1 / 2 := by
  decide +kernel

/-- a ball that is too small: the point 4 of the intersection is never produced -/
theorem small_ball_loses_points :
    mass (ballSampler [1, 2, 3, 4, 5] (fun n => n ≤ 3) (fun n => n % 2 = 0)) 4 = 0 ∧
    mass (uniformList ([1, 2, 3, 4, 5].filter fun n => n % 2 = 0)) 4 = 1 / 2 := by decide +kernel

/-- the same sampler with the `hasattr(o, "circumcircle")` guard (regenerated): a region without a candidate
    ball (polygon, polyline, path, voxel grid …) makes every point a candidate, so the sampler is uniform on
    `{p ∈ P | o ∋ p}` unconditionally; with a ball, as above. -/
theorem pointset_inter_guarded_uniform (P : List α) (hP : P.Nodup) (ball : Option (α → Bool)) (contains : α → Bool)
    (hcover : ∀ inBall, ball = some inBall → ∀ p ∈ P, contains p = true → inBall p = true) (x : α) :
    mass (ballSamplerOpt ballFallback P ball contains) x =
      if x ∈ P ∧ contains x = true then 1 / ((P.filter contains).length : Rat) else 0 := by
  rw [gen_ball_fallback]
  cases ball with
  | none => exact pointset_inter_uniform P hP (fun _ => true) contains (fun _ _ _ => rfl) x
  | some inBall => exact pointset_inter_uniform P hP inBall contains (hcover inBall rfl) x

example : mass (ballSamplerOpt ballFallback [1, 2, 3, 4, 5] none (fun n => n % 2 = 0)) 4 = 1 / 2 := by
  decide +kernel

/-- **membership in all three coordinates** for `PointSetRegion ∩ other`: the region program evaluated with the
    regenerated filter never returns a point that the other region's `_trueContainsPoint` rejects -/
theorem pointset_inter_true_membership (env : List (Operand α)) (i j : Nat) (ib : Option (List α)) (x : α)
    (hx : (env.getD j undefinedOperand).contains x = false) :
    ∀ p, (evalInstr samplerCfg ballFilter ballFallback env (.ball i ib j)).sampler = some p → mass p x = 0 := by
  intro p hp
  rw [gen_ball_filter, gen_ball_fallback] at hp
  have key : ∀ (fb : BallFallback) (P : List α) (ball : Option (α → Bool)) (c : α → Bool), c x = false →
      mass (ballSamplerOpt fb P ball c) x = 0 := by
    intro fb P ball c hc
    have hcount : ∀ f : α → Bool, ((P.filter f).filter c).count x = 0 := by
      intro f
      apply List.count_eq_zero_of_not_mem
      intro hm
      have := (List.mem_filter.mp hm).2
      rw [hc] at this; exact absurd this (by simp)
    cases ball with
    | none =>
      cases fb with
      | allPoints =>
        show mass (uniformList ((P.filter fun _ => true).filter c)) x = 0
        rw [mass_uniformList, hcount]; simp
      | attributeError => exact mass_nil x
    | some f =>
      cases fb <;>
      · show mass (uniformList ((P.filter f).filter c)) x = 0
        rw [mass_uniformList, hcount]; simp
  simp only [evalInstr, composed, Option.some.injEq] at hp
  subst hp
  exact key _ _ _ _ hx

/-- with the z-blind `containsPoint` as filter (before the repair) a point at another height than a polygonal
    operand is returned: atom 7 is in the footprint (`memberPt`) but not in the region (`member`) -/
theorem pointset_inter_containsPoint_leaks :
    ∃ p, (evalInstr SamplerCfg.reference .containsPoint .allPoints
        [evalInstr SamplerCfg.reference .containsPoint .allPoints [] (.points [7, 8] [7, 8]),
         evalInstr SamplerCfg.reference .containsPoint .allPoints [] (.opaque (some 2) (some 4) [8] [7, 8] [7, 8])]
        (.ball 0 none 1)).sampler = some p ∧ mass p 7 = 1 / 2 :=
  ⟨_, rfl, by decide +kernel⟩

example : ∃ p, (evalInstr samplerCfg ballFilter ballFallback
        [evalInstr samplerCfg ballFilter ballFallback [] (.points [7, 8] [7, 8]),
         evalInstr samplerCfg ballFilter ballFallback [] (.opaque (some 2) (some 4) [8] [7, 8] [7, 8])]
        (.ball 0 none 1)).sampler = some p ∧ mass p 7 = 0 ∧ mass p 8 = 1 :=
  ⟨_, rfl, by decide +kernel⟩


/-! ## nested compositions: what a composed region answers when it is itself an operand -/

theorem getD_map_contains (envO : List (Operand α)) (i : Nat) :
    (envO.map (·.contains)).getD i (fun _ => false) = (envO.getD i undefinedOperand).contains := by
  induction envO generalizing i with
  | nil => rfl
  | cons o l ih =>
    cases i with
    | zero => rfl
    | succ k => simpa using ih k

/-- one instruction: with the regenerated `_trueContainsPoint` of the composed classes, the `_trueContainsPoint` of the
    constructed region is the set operation applied to the operands' `_trueContainsPoint` -/
theorem evalInstr_contains (bf : BallFilter) (fb : BallFallback) (envO : List (Operand α)) (i : Instr α) :
    (evalInstr samplerCfg bf fb envO i).contains = denoteInstr (envO.map (·.contains)) i := by
  rw [gen_sampler_cfg]
  cases i with
  | points a m => rfl
  | «opaque» d s m mp mf => rfl
  | inter args =>
    funext x
    simp only [evalInstr, composed, SamplerCfg.reference, denoteInstr, getD_map_contains, List.all_map]
    rfl
  | union args =>
    funext x
    simp only [evalInstr, composed, SamplerCfg.reference, denoteInstr, getD_map_contains, List.any_map]
    rfl
  | diff a b =>
    funext x
    simp only [evalInstr, composed, SamplerCfg.reference, denoteInstr, getD_map_contains]
  | ball p ib o =>
    funext x
    simp only [evalInstr, composed, SamplerCfg.reference, denoteInstr, getD_map_contains]

/-- **Composed regions as operands (full statement).**  For every region program (any nesting of intersections, unions,
    differences and point-set intersections over point sets, grids and opaque leaves), the `_trueContainsPoint` of every
    constructed region — the test the generic samplers of an enclosing composition apply to it — is exactly
    set-theoretic membership computed from the leaves' `_trueContainsPoint`.  Hence the compositional theorems
    (`intersection_uniform`, `difference_uniform`, `union_support_general`, …), which speak about the operands'
    `contains`, speak about the composed *set* at every level of nesting. -/
theorem composed_true_membership (bf : BallFilter) (fb : BallFallback) (prog : List (Instr α)) :
    (evalProgram samplerCfg bf fb prog).map (·.contains) = denoteProgram prog := by
  unfold evalProgram denoteProgram
  suffices h : ∀ (envO : List (Operand α)),
      (prog.foldl (fun env i => env ++ [evalInstr samplerCfg bf fb env i]) envO).map (·.contains)
        = prog.foldl (fun envD i => envD ++ [denoteInstr envD i]) (envO.map (·.contains)) from h []
  induction prog with
  | nil => intro envO; rfl
  | cons i rest ih =>
    intro envO
    simp only [List.foldl_cons]
    rw [ih, List.map_append, List.map_cons, List.map_nil, evalInstr_contains]

/-- consequence for the sampler of a nested difference `A \\ B` whose operands are themselves composed: a point outside
    the *set* `A \\ B` (as denoted from the leaves) is never returned, provided `A`'s own sampler stays inside `A` -/
theorem nested_difference_membership (bf : BallFilter) (fb : BallFallback) (env : List (Operand α)) (a b : Nat) (x : α)
    (hx : denoteInstr (env.map (·.contains)) (.diff a b) x = false)
    (q : SubPMF α) (hq : (env.getD a undefinedOperand).sampler = some q)
    (hA : (env.getD a undefinedOperand).contains x = false → mass q x = 0) :
    ∃ p, (evalInstr samplerCfg bf fb env (.diff a b)).sampler = some p ∧ mass p x = 0 := by
  simp only [denoteInstr, getD_map_contains] at hx
  obtain ⟨q', hq', hm⟩ := difference_uniform (env.getD a undefinedOperand) (env.getD b undefinedOperand) q hq x
  refine ⟨q', hq', ?_⟩
  rw [hm]
  cases hb : (env.getD b undefinedOperand).contains x
  · simp only [hb, Bool.not_false, Bool.and_true] at hx
    simpa using hA hx
  · simp

/-- the program of the recorded defect, atoms: 0 = (3,2,0), 1 = (3,3,1): `I(ps ∩ sector at z=1, {0,1})` where atom 0 lies in
    the sector's footprint but not in the sector.  With the regenerated structural test atom 0 is never returned … -/
example : ∃ p, ((evalProgram samplerCfg ballFilter ballFallback
      [.points [0, 2] [0, 2], .opaque (some 2) (some 4) [1, 2] [0, 1, 2] [0, 1, 2], .ball 0 none 1, .points [0, 1] [0, 1],
       .inter [2, 3]]).getLast?.bind (·.sampler)) = some p ∧ mass p 0 = 0 := ⟨_, rfl, by decide +kernel⟩

/-- … whereas the inherited footprint test (before 9c3fab32) let the outer intersection return it -/
theorem composed_footprint_membership_leaks :
    ∃ p, ((evalProgram { SamplerCfg.reference with interTrue := .inherited } .trueContainsPoint .allPoints
      [.points [0, 2] [0, 2], .opaque (some 2) (some 4) [1, 2] [0, 1, 2] [0, 1, 2], .ball 0 none 1, .points [0, 1] [0, 1],
       .inter [2, 3]]).getLast?.bind (·.sampler)) = some p ∧ mass p 0 = 1 / 2 := ⟨_, rfl, by decide +kernel⟩

example : (denoteProgram [Instr.points [0, 2] [0, 2], .opaque (some 2) (some 4) [1, 2] [0, 1, 2] [0, 1, 2], .ball 0 none 1,
    .points [0, 1] [0, 1], .inter [2, 3]]).map (fun f => [0, 1, 2].filter f) = [[0, 2], [1, 2], [2], [0, 1], []] := by
  decide +kernel

/-! ## polylines / paths: segment chosen in proportion to its length -/

/-- `PolylineRegion`/`PathRegion`: segment `i` consists of `|segs i|` atoms of length `μ`; it is chosen with
    weight `μ·|segs i|` and a position on it uniformly.  The probability of an atom is its multiplicity
    over all segments divided by the total number of atoms … -/
theorem segments_mass (μ : Rat) (hμ : μ ≠ 0) (segs : List (List α)) (x : α) :
    mass (weightedPick segs (fun s => μ * (s.length : Rat)) uniformList) x =
      ((segs.map fun s => (s.count x : Rat)).sum) / (((segs.map List.length).sum : Nat) : Rat) :=
  mass_weightedPick_uniform μ hμ segs x

/-- … hence exactly uniform w.r.t. length when the segments do not overlap. -/
theorem segments_uniform (μ : Rat) (hμ : μ ≠ 0) (segs : List (List α))
    (hnd : ∀ s ∈ segs, s.Nodup) (hdisj : segs.Pairwise fun s t => ∀ a, a ∈ s → a ∉ t) (x : α) :
    mass (weightedPick segs (fun s => μ * (s.length : Rat)) uniformList) x =
      if (∃ s ∈ segs, x ∈ s) then 1 / (((segs.map List.length).sum : Nat) : Rat) else 0 := by
  rw [segments_mass μ hμ]
  have hcount : (segs.map fun s => (s.count x : Rat)).sum = if (∃ s ∈ segs, x ∈ s) then 1 else 0 := by
    induction segs with
    | nil => simp
    | cons s segs ih =>
      have ih' := ih (fun t ht => hnd t (by simp [ht])) (List.pairwise_cons.mp hdisj).2
      have hs := hnd s (by simp)
      have hd := (List.pairwise_cons.mp hdisj).1
      rw [List.map_cons, List.sum_cons, ih', List.Nodup.count hs]
      by_cases hx : x ∈ s
      · have : ¬ ∃ t ∈ segs, x ∈ t := by
          rintro ⟨t, ht, hxt⟩; exact hd t ht x hx hxt
        simp [hx, this]
      · simp [hx]
  rw [hcount]
  split <;> simp

/-- overlapping segments (possible in a `MultiLineString`) are *not* handled: the shared atom counts twice -/
theorem segments_overlap_doubled :
    mass (weightedPick [[1, 2], [2, 3]] (fun s => (s.length : Rat)) uniformList) 2 = 1 / 2 ∧
    mass (weightedPick [[1, 2], [2, 3]] (fun s => (s.length : Rat)) uniformList) 1 = 1 / 4 := by
  decide +kernel

/-! ## polygons: triangle chosen by area, then bounding-box rejection -/

/-- The `while True` loop of `PolygonalRegion.uniformPointInner`, truncated after `n` rounds: for every
    `n` the result is the uniform distribution on the triangle's atoms scaled by `1 - (1 - q)^n`, where
    `q` = (atoms of the box inside the triangle)/(atoms of the box).  So the loop returns a uniform point
    of the triangle with probability tending to 1 (it is 1 in the limit as soon as `q > 0`). -/
theorem rejection_loop_limit (box : List α) (hbox : box ≠ []) (inTri : α → Bool) (n : Nat) (x : α) :
    mass (rejectionLoop box inTri n) x =
      (1 - (1 - ((box.filter inTri).length : Rat) / (box.length : Rat)) ^ n) *
        mass (uniformList (box.filter inTri)) x := by
  rw [mass_rejectionLoop]
  set q : Rat := ((box.filter inTri).length : Rat) / (box.length : Rat) with hq
  rw [← geom_closed q n, mass_uniformList, mass_uniformList]
  have hb : (box.length : Rat) ≠ 0 := by
    have : box.length ≠ 0 := by simpa [List.length_eq_zero_iff] using hbox
    exact_mod_cast this
  by_cases ht : inTri x = true
  · simp only [ht, if_true]
    rw [List.count_filter ht]
    by_cases hh : ((box.filter inTri).length : Rat) = 0
    · have hnil : box.filter inTri = [] := by
        have : (box.filter inTri).length = 0 := by exact_mod_cast hh
        exact List.length_eq_zero_iff.mp this
      have hx : box.count x = 0 := by
        apply List.count_eq_zero_of_not_mem
        intro hm
        have : x ∈ box.filter inTri := List.mem_filter.mpr ⟨hm, ht⟩
        rw [hnil] at this
        exact absurd this (by simp)
      simp [hx]
    · rw [hq]; field_simp
  · have hx : (box.filter inTri).count x = 0 := by
      apply List.count_eq_zero_of_not_mem
      intro hm
      exact ht (List.mem_filter.mp hm).2
    simp [ht, hx]

/-- `0 ≤ 1 - q < 1` whenever some box atom lies in the triangle, so `(1 - q)^n → 0` -/
theorem rejection_ratio_bounds (box : List α) (inTri : α → Bool) (a : α) (ha : a ∈ box) (hin : inTri a = true) :
    0 ≤ 1 - ((box.filter inTri).length : Rat) / (box.length : Rat) ∧
    1 - ((box.filter inTri).length : Rat) / (box.length : Rat) < 1 := by
  have hb : (0 : Rat) < (box.length : Rat) := by
    have : 0 < box.length := List.length_pos_of_mem ha
    exact_mod_cast this
  have hf : (0 : Rat) < ((box.filter inTri).length : Rat) := by
    have : 0 < (box.filter inTri).length := List.length_pos_of_mem (List.mem_filter.mpr ⟨ha, hin⟩)
    exact_mod_cast this
  have hle : ((box.filter inTri).length : Rat) ≤ (box.length : Rat) := by
    exact_mod_cast List.length_filter_le inTri box
  constructor
  · have : ((box.filter inTri).length : Rat) / (box.length : Rat) ≤ 1 := (div_le_one hb).mpr hle
    linarith
  · have : 0 < ((box.filter inTri).length : Rat) / (box.length : Rat) := div_pos hf hb
    linarith

/-- **Polygon** (limit sampler: each triangle's loop replaced by its limit, the uniform distribution on
    the triangle): with triangles that do not overlap, chosen with weight proportional to their area,
    every atom of the polygon has probability `1 / (number of atoms)`. -/
theorem polygon_uniform (μ : Rat) (hμ : μ ≠ 0) (tris : List (List α))
    (hnd : ∀ t ∈ tris, t.Nodup) (hdisj : tris.Pairwise fun s t => ∀ a, a ∈ s → a ∉ t) (x : α) :
    mass (weightedPick tris (fun t => μ * (t.length : Rat)) uniformList) x =
      if (∃ t ∈ tris, x ∈ t) then 1 / (((tris.map List.length).sum : Nat) : Rat) else 0 :=
  segments_uniform μ hμ tris hnd hdisj x

example : mass (rejectionLoop [1, 2, 3, 4] (fun n => n ≤ 3) 2) 1 = (1 - (1 / 4) ^ 2) * (1 / 3) := by
  decide +kernel

/-- a retry loop (`while True:` around a pass that may fail) only rescales the masses of one pass:
    after `n` rounds each outcome has its one-pass mass times `(1 - (1 - T)^n) / T`, `T` = success probability
    of a pass — so equal masses stay equal, zero stays zero, and the factor tends to `1 / T`. -/
theorem retry_loop_mass (pass : SubPMF α) (n : Nat) (x : α) :
    total pass * mass (retryLoop pass n) x = (1 - (1 - total pass) ^ n) * mass pass x := by
  rw [mass_retryLoop, ← mul_assoc, geom_closed]

/-- **Polygon with an overshooting triangulation** (`mapbox_earcut` on holes that touch): the triangles are
    non-overlapping but may cover atoms outside the polygon.  With the regenerated guard
    (`if shapely.intersects_xy(self.polygons, x, y): return`) every atom of the polygon covered by a triangle has
    the same probability and no atom outside the polygon is ever returned, after any number of rounds. -/
theorem polygon_filtered_uniform (μ : Rat) (hμ : μ ≠ 0) (tris : List (List α))
    (hnd : ∀ t ∈ tris, t.Nodup) (hdisj : tris.Pairwise fun s t => ∀ a, a ∈ s → a ∉ t)
    (inPoly : α → Bool) (n : Nat) :
    (∀ x y, inPoly x = true → inPoly y = true → (∃ t ∈ tris, x ∈ t) → (∃ t ∈ tris, y ∈ t) →
      mass (polygonSampler polygonOuterFilter μ tris inPoly n) x =
        mass (polygonSampler polygonOuterFilter μ tris inPoly n) y) ∧
    (∀ z, inPoly z = false → mass (polygonSampler polygonOuterFilter μ tris inPoly n) z = 0) := by
  rw [gen_polygon_filter]
  simp only [polygonSampler, polygonPass, if_true]
  constructor
  · intro x y hx hy hxt hyt
    rw [mass_retryLoop, mass_retryLoop, mass_filter inPoly, mass_filter inPoly, hx, hy]
    simp only [if_true]
    rw [polygon_uniform μ hμ tris hnd hdisj x, polygon_uniform μ hμ tris hnd hdisj y, if_pos hxt, if_pos hyt]
  · intro z hz
    rw [mass_retryLoop, mass_filter inPoly, hz]; simp

/-- without the guard an atom of a hole that a triangle covers is returned (the defect before the repair) -/
theorem polygon_unfiltered_leaks :
    mass (polygonSampler false 1 [[1, 2], [3, 4]] (fun a => a ≠ 4) 3) 4 = 1 / 4 ∧
    mass (polygonSampler true 1 [[1, 2], [3, 4]] (fun a => a ≠ 4) 3) 4 = 0 ∧
    mass (polygonSampler true 1 [[1, 2], [3, 4]] (fun a => a ≠ 4) 3) 1 =
      mass (polygonSampler true 1 [[1, 2], [3, 4]] (fun a => a ≠ 4) 3) 3 := by
  decide +kernel

example : mass (polygonSampler polygonOuterFilter 1 [[1, 2], [3, 4]] (fun a => a ≠ 4) 2) 1 = 1 / 4 + 1 / 4 * (1 / 4) := by
  decide +kernel

/-- **Outer rejection** (the guard proposed for triangulations that overshoot the polygon, and the reason why
    `DifferenceRegion` is uniform): discarding the draws outside a set `T` keeps equal masses equal — a sampler
    that is uniform on a superset stays uniform on `T`, and nothing outside `T` is returned. -/
theorem outer_rejection_uniform (p : SubPMF α) (inT : α → Bool) (x y : α)
    (hx : inT x = true) (hy : inT y = true) (heq : mass p x = mass p y) :
    mass (p.filter fun e => inT e.1) x = mass (p.filter fun e => inT e.1) y ∧
    (∀ z, inT z = false → mass (p.filter fun e => inT e.1) z = 0) := by
  refine ⟨?_, ?_⟩
  · rw [mass_filter inT, mass_filter inT, hx, hy]; simpa using heq
  · intro z hz; rw [mass_filter inT, hz]; simp

end Scenic.C03
