import ScenicModel.Props.C13Flow

/-!
# C13 (part 5): fuel is only a termination device

`go` recurses on a fuel argument.  `go_mono`: once the fuel suffices (the answer is not `diverge`), more fuel gives the
same answer -- so every theorem of parts 1-4, stated for arbitrary fuel, describes *the* behaviour of the step.
-/
namespace Scenic.Interrupts

theorem pre_ne_diverge {r : Out} {lg : List Ev} (h : r.pre lg ≠ .diverge) : r ≠ .diverge := by
  intro h2; subst h2; exact h rfl

theorem stepBlk_mono (cfg : Cfg) (P : Prog) (env : Env) (fuel self : Nat) (inSub : Bool) (blk : Blk K)
    (ih2 : ∀ k, go cfg P env fuel self inSub (.resume k) ≠ .diverge →
      go cfg P env (fuel + 1) self inSub (.resume k) = go cfg P env fuel self inSub (.resume k))
    (ih1 : go cfg P env fuel self inSub (.exec blk.code []) ≠ .diverge →
      go cfg P env (fuel + 1) self inSub (.exec blk.code []) = go cfg P env fuel self inSub (.exec blk.code []))
    (h : stepBlk cfg P env fuel self inSub blk ≠ .diverge) :
    stepBlk cfg P env (fuel + 1) self inSub blk = stepBlk cfg P env fuel self inSub blk := by
  unfold stepBlk at h ⊢
  cases hst : blk.st with
  | none => simp only [hst] at h ⊢; exact ih1 h
  | some k => simp only [hst] at h ⊢; exact ih2 k h

theorem go_mono (cfg : Cfg) (P : Prog) (env : Env) (fuel self : Nat) (inSub : Bool) (task : Task) :
    go cfg P env fuel self inSub task ≠ .diverge →
    go cfg P env (fuel + 1) self inSub task = go cfg P env fuel self inSub task := by
  fun_induction go cfg P env fuel self inSub task <;> intro hnd
  case case1 => exact absurd rfl hnd
  case case4 x ih2 ih1 =>
    have h2 := ih2 (by rw [x]; simp)
    have h1 := ih1 (pre_ne_diverge hnd)
    rw [go]; simp only [h2, x, h1]
  case case7 h lg v x => rw [go]; simp only [x]; exact if_pos h
  case case8 h lg x ih =>
    have h1 := ih (pre_ne_diverge hnd)
    rw [go]; simp only [x, h1]; exact if_pos h
  case case9 h ih =>
    have h1 := ih hnd
    rw [go]; simp only [h1]; exact if_neg h
  case case10 => rw [go]
  case case15 => rw [go]
  case case17 x ih =>
    have h1 := ih (pre_ne_diverge hnd)
    rw [go]; simp only [x, h1]
  case case20 x1 f lg' x ih2 ih1 =>
    have h2 := ih2 (by rw [x]; simp)
    have h1 := ih1 (pre_ne_diverge hnd)
    rw [go]; simp only [x1, h2, x, h1]
  case case25 => rw [go]
  case case26 fuel self inSub f tl c l' c' x hf ih =>
    rw [x] at hnd ⊢
    have h1 := ih hnd
    rw [go_flow _ _ _ _ _ _ f (fun e => hf e), x]; exact h1
  case case27 fuel self inSub f tl c x hf =>
    rw [go_flow _ _ _ _ _ _ f (fun e => hf e), x]
  case case29 fuel self inSub kind body hs l c i blk inSub' r a k' lg hr hi ih2 ih1 =>
    have hr' : stepBlk cfg P env fuel self inSub' blk = .yielded a k' lg := hr
    have hs1 := stepBlk_mono cfg P env fuel self inSub' blk ih2 ih1 (by rw [hr']; simp)
    show go cfg P env ((fuel + 1) + 1) self inSub (.loopTI kind body hs l c) = _
    rw [loopTI_eq]
    generalize hsb : stepBlk cfg P env (fuel + 1) self _ _ = sb
    have e : sb = .yielded a k' lg := by rw [← hsb]; exact hs1.trans hr'
    subst e
    simp only []
    rw [show pick cfg env hs = none from hi]
  case case30 fuel self inSub kind body hs l c i blk inSub' r a k' lg hr ci hi ih2 ih1 =>
    have hr' : stepBlk cfg P env fuel self inSub' blk = .yielded a k' lg := hr
    have hs1 := stepBlk_mono cfg P env fuel self inSub' blk ih2 ih1 (by rw [hr']; simp)
    show go cfg P env ((fuel + 1) + 1) self inSub (.loopTI kind body hs l c) = _
    rw [loopTI_eq]
    generalize hsb : stepBlk cfg P env (fuel + 1) self _ _ = sb
    have e : sb = .yielded a k' lg := by rw [← hsb]; exact hs1.trans hr'
    subst e
    simp only []
    rw [show pick cfg env hs = some ci from hi]
  case case31 fuel self inSub kind body hs l c i blk inSub' r f lg hr h ih3 ih2 ih1 =>
    have hr' : stepBlk cfg P env fuel self inSub' blk = .done f lg := hr
    have hs1 := stepBlk_mono cfg P env fuel self inSub' blk ih3 ih2 (by rw [hr']; simp)
    have h1 := ih1 (pre_ne_diverge hnd)
    show go cfg P env ((fuel + 1) + 1) self inSub (.loopTI kind body hs l c) = _
    rw [loopTI_eq]
    generalize hsb : stepBlk cfg P env (fuel + 1) self _ _ = sb
    have e : sb = .done f lg := by rw [← hsb]; exact hs1.trans hr'
    subst e
    simp only []
    rw [if_pos h]
    exact congrArg (Out.pre lg) h1
  case case32 fuel self inSub kind body hs l c i blk inSub' r f lg hr h ih3 ih2 ih1 =>
    have hr' : stepBlk cfg P env fuel self inSub' blk = .done f lg := hr
    have hs1 := stepBlk_mono cfg P env fuel self inSub' blk ih3 ih2 (by rw [hr']; simp)
    have h1 := ih1 (pre_ne_diverge hnd)
    show go cfg P env ((fuel + 1) + 1) self inSub (.loopTI kind body hs l c) = _
    rw [loopTI_eq]
    generalize hsb : stepBlk cfg P env (fuel + 1) self _ _ = sb
    have e : sb = .done f lg := by rw [← hsb]; exact hs1.trans hr'
    subst e
    simp only []
    rw [if_neg h]
    exact congrArg (Out.pre _) h1
  case case33 fuel self inSub kind body hs l c i blk inSub' r v lg hr ih2 ih1 =>
    have hr' : stepBlk cfg P env fuel self inSub' blk = .viol v lg := hr
    have hs1 := stepBlk_mono cfg P env fuel self inSub' blk ih2 ih1 (by rw [hr']; simp)
    show go cfg P env ((fuel + 1) + 1) self inSub (.loopTI kind body hs l c) = _
    rw [loopTI_eq]
    generalize hsb : stepBlk cfg P env (fuel + 1) self _ _ = sb
    have e : sb = .viol v lg := by rw [← hsb]; exact hs1.trans hr'
    subst e
    simp only []
    rfl
  all_goals (rw [go]; simp_all; done)

/-- more fuel never changes a proper answer -/
theorem go_mono_le (cfg : Cfg) (P : Prog) (env : Env) (self : Nat) (inSub : Bool) (task : Task) (fuel : Nat)
    (h : go cfg P env fuel self inSub task ≠ .diverge) :
    ∀ d, go cfg P env (fuel + d) self inSub task = go cfg P env fuel self inSub task
  | 0 => rfl
  | d + 1 => by
    have ih := go_mono_le cfg P env self inSub task fuel h d
    have := go_mono cfg P env (fuel + d) self inSub task (by rw [ih]; exact h)
    rw [← Nat.add_assoc, this, ih]

end Scenic.Interrupts
