import ScenicModel.Model.ErrLoc
/-! # C10 — error-location layer: no `KeyError`, and the reported line is a line of a fetched token (hence inside the input)

For every fetched-token history, every helper of the extracted table that is `protected` and every choice of arguments
drawn from the history, `_build_syntax_error` returns (never raises `KeyError`) and the line it reports is the start or
end line of a fetched token, hence in `[1, N+1]` for tokens of a text with `N` lines. -/
namespace Scenic.ErrLoc

theorem wf_iff (N : Nat) (t : Tok) :
    t.wf N = true ↔ 1 ≤ t.sl ∧ t.sl ≤ N + 1 ∧ t.sl ≤ t.el ∧ (t.el = t.sl ∨ t.el ≤ N) := by
  simp [Tok.wf, and_assoc]

theorem known_start (d : Data) (N : Nat) {h : List Tok} {t : Tok} (ht : t ∈ h) : known d N h t.sl = true := by
  unfold known
  have : h.any (fun u => u.sl == t.sl) = true := List.any_eq_true.mpr ⟨t, ht, by simp⟩
  simp [this]

/-- with every source line pre-loaded, every line of a fetched well-formed token is a key of `_lines` … -/
theorem known_preload {d : Data} {N : Nat} {h : List Tok} (hp : d.preload = true) {t : Tok} (ht : t ∈ h)
    (hw : t.wf N = true) {l : Nat} (h1 : 1 ≤ l) (hl : l ≤ t.sl ∨ l ≤ t.el) : known d N h l = true := by
  obtain ⟨a, b, c, e⟩ := (wf_iff N t).mp hw
  by_cases hN : l ≤ N
  · simp [known, hp, h1, hN]
  · have : l = t.sl := by omega
    subst this
    exact known_start d N ht

/-- … and so is every line of a range ending at a line of a fetched token: the first lookup cannot fail -/
theorem rangeKnown_preload {d : Data} {N : Nat} {h : List Tok} (hp : d.preload = true) {te : Tok} (hte : te ∈ h)
    (hw : te.wf N = true) {s e : Nat} (h1 : 1 ≤ s) (he : e = te.sl ∨ e = te.el) : rangeKnown d N h s e = true := by
  unfold rangeKnown
  rw [List.all_eq_true]
  intro l hl
  rw [List.mem_range'_1] at hl
  apply known_preload hp hte hw (by omega)
  omega

/-- the reported line is always `start + lineOffset` -/
theorem build_line {d : Data} {N : Nat} {h : List Tok} {st sp : Option Nat} {line : Nat} {fb : Bool}
    (hb : build d N h st sp = .ok line fb) :
    ∃ dg, h.getLast? = some dg ∧ line = st.getD dg.sl + d.lineOffset := by
  unfold build at hb
  cases hg : h.getLast? with
  | none => simp [hg] at hb
  | some dg =>
    refine ⟨dg, rfl, ?_⟩
    simp only [hg] at hb
    split at hb
    · injection hb with h1 _; exact h1.symm
    · split at hb
      · injection hb with h1 _; exact h1.symm
      · split at hb
        · split at hb
          · injection hb with h1 _; exact h1.symm
          · cases hb
        · cases hb

/-- core: `_build_syntax_error` never raises `KeyError` when the start line is protected -/
theorem build_located {d : Data} {N : Nat} {h : List Tok} {dg : Tok} (hg : h.getLast? = some dg)
    (hwf : ∀ t ∈ h, t.wf N = true) {st sp : Option Nat} {ts te : Tok} (hts : ts ∈ h) (hte : te ∈ h)
    (hs : st.getD dg.sl = ts.sl ∨ st.getD dg.sl = ts.el)
    (he : sp.getD dg.el = te.sl ∨ sp.getD dg.el = te.el)
    (hprot : (d.fallback = true ∧ st.getD dg.sl = ts.sl) ∨ d.preload = true) :
    ∃ fb, build d N h st sp = .ok (st.getD dg.sl + d.lineOffset) fb := by
  unfold build
  simp only [hg]
  by_cases hn : (st.isNone && sp.isNone) = true
  · exact ⟨false, by simp [hn]⟩
  · simp only [hn]
    by_cases hr : rangeKnown d N h (st.getD dg.sl) (sp.getD dg.el) = true
    · exact ⟨false, by simp [hr]⟩
    · simp only [hr]
      rcases hprot with ⟨hf, hss⟩ | hp
      · have hk : known d N h (st.getD dg.sl) = true := by rw [hss]; exact known_start d N hts
        exact ⟨true, by simp [hf, hk]⟩
      · exfalso
        apply hr
        obtain ⟨a, b, c, e⟩ := (wf_iff N ts).mp (hwf ts hts)
        exact rangeKnown_preload hp hte (hwf te hte) (by omega) he

theorem sel_spec {h : List Tok} {a : Args} (h1 : a.f1 ∈ h) (h2 : a.l1 ∈ h) (h3 : a.f2 ∈ h) (h4 : a.l2 ∈ h)
    {dg : Tok} (hg : h.getLast? = some dg) (σ : Sel) (dflt : Nat) (hd : dflt = dg.sl ∨ dflt = dg.el) :
    ∃ t ∈ h, ((selLine h a σ).getD dflt = t.sl ∨ (selLine h a σ).getD dflt = t.el) ∧
      (σ.isStart = true → dflt = dg.sl → (selLine h a σ).getD dflt = t.sl) := by
  have hdg : dg ∈ h := List.mem_of_getLast? hg
  cases σ with
  | none => exact ⟨dg, hdg, by simpa [selLine] using hd, by intro _ hx; simpa [selLine] using hx⟩
  | a1s => exact ⟨a.f1, h1, by simp [selLine], by simp [selLine]⟩
  | a1e => exact ⟨a.l1, h2, by simp [selLine], by simp [Sel.isStart]⟩
  | a2s => exact ⟨a.f2, h3, by simp [selLine], by simp [selLine]⟩
  | a2e => exact ⟨a.l2, h4, by simp [selLine], by simp [Sel.isStart]⟩
  | diagS => exact ⟨dg, hdg, by simp [selLine, hg], by simp [selLine, hg]⟩
  | diagE => exact ⟨dg, hdg, by simp [selLine, hg], by simp [Sel.isStart]⟩

/-- **Main theorem.**  For every history of fetched tokens of a text with `N` lines, every protected helper and every
    arguments drawn from the history: the helper produces a syntax error (no `KeyError`, no missing token) whose line
    is `lineOffset` after the start or end line of a fetched token. -/
theorem helper_located (d : Data) (N : Nat) (h : List Tok) (hp : Helper) (a : Args)
    (hprot : hp.protected d = true) (hwf : ∀ t ∈ h, t.wf N = true) (hne : h ≠ [])
    (h1 : a.f1 ∈ h) (h2 : a.l1 ∈ h) (h3 : a.f2 ∈ h) (h4 : a.l2 ∈ h) :
    ∃ fb t, t ∈ h ∧ (runHelper d N h hp a = .ok (t.sl + d.lineOffset) fb ∨
                     runHelper d N h hp a = .ok (t.el + d.lineOffset) fb) := by
  obtain ⟨dg, hg⟩ : ∃ dg, h.getLast? = some dg := by
    cases hgl : h.getLast? with
    | none => exact absurd (List.getLast?_eq_none_iff.mp hgl) hne
    | some dg => exact ⟨dg, rfl⟩
  obtain ⟨ts, hts, hs, hss⟩ := sel_spec h1 h2 h3 h4 hg hp.start dg.sl (Or.inl rfl)
  obtain ⟨te, hte, he, _⟩ := sel_spec h1 h2 h3 h4 hg hp.stop dg.el (Or.inr rfl)
  have hprot' : (d.fallback = true ∧ (selLine h a hp.start).getD dg.sl = ts.sl) ∨ d.preload = true := by
    simp only [Helper.protected, Bool.or_eq_true, Bool.and_eq_true] at hprot
    rcases hprot with ⟨hf, hst⟩ | hpre
    · exact Or.inl ⟨hf, hss hst rfl⟩
    · exact Or.inr hpre
  obtain ⟨fb, hb⟩ := build_located (d := d) (N := N) hg hwf (st := selLine h a hp.start) (sp := selLine h a hp.stop)
    hts hte hs he hprot'
  refine ⟨fb, ts, hts, ?_⟩
  unfold runHelper
  rcases hs with hs | hs
  · left; rw [hb, hs]
  · right; rw [hb, hs]

/-- … hence, with the reported line equal to the start (offset 0), it lies in `[1, N+1]`: inside the input -/
theorem helper_line_inside_input (d : Data) (N : Nat) (h : List Tok) (hp : Helper) (a : Args)
    (hprot : hp.protected d = true) (hoff : d.lineOffset = 0) (hwf : ∀ t ∈ h, t.wf N = true) (hne : h ≠ [])
    (h1 : a.f1 ∈ h) (h2 : a.l1 ∈ h) (h3 : a.f2 ∈ h) (h4 : a.l2 ∈ h) :
    ∃ line fb, runHelper d N h hp a = .ok line fb ∧ 1 ≤ line ∧ line ≤ N + 1 := by
  obtain ⟨fb, t, ht, hr⟩ := helper_located d N h hp a hprot hwf hne h1 h2 h3 h4
  obtain ⟨a1, b1, c1, e1⟩ := (wf_iff N t).mp (hwf t ht)
  rcases hr with hr | hr
  · exact ⟨_, fb, hr, by omega, by omega⟩
  · exact ⟨_, fb, hr, by omega, by omega⟩

/-- whole table: `Data.ok` makes every helper of the table total and located -/
theorem table_located (d : Data) (hd : d.ok = true) (N : Nat) (h : List Tok) (a : Args)
    (hwf : ∀ t ∈ h, t.wf N = true) (hne : h ≠ [])
    (h1 : a.f1 ∈ h) (h2 : a.l1 ∈ h) (h3 : a.f2 ∈ h) (h4 : a.l2 ∈ h) :
    ∀ hp ∈ d.helpers, ∃ line fb, runHelper d N h hp a = .ok line fb ∧ 1 ≤ line ∧ line ≤ N + 1 := by
  intro hp hmem
  simp only [Data.ok, Bool.and_eq_true, beq_iff_eq, List.all_eq_true] at hd
  exact helper_line_inside_input d N h hp a (hd.1.2 hp hmem) hd.1.1.1 hwf hne h1 h2 h3 h4

/-- the TokenError wrapper reports the first component (the line) of the tokenizer's position -/
theorem tokenError_line (d : Data) (hd : d.ok = true) (a b : Nat) : tokenErrorLine d a b = a := by
  simp only [Data.ok, Bool.and_eq_true] at hd
  simp [tokenErrorLine, hd.1.1.2]

/-! ## the conditions are necessary (negation witnesses) and the statements are not vacuous -/
def demoHelpers : List Helper :=
  [⟨"known_range", .a1s, .a2e⟩, ⟨"raise_syntax_error", .diagS, .diagE⟩, ⟨"make", .none, .none⟩]
def demo : Data := ⟨true, true, 0, true, demoHelpers⟩
def unprotected : Data := ⟨false, false, 0, true, demoHelpers⟩
def shifted : Data := ⟨true, true, 1, true, demoHelpers⟩
/-- `x = (a,` / blank line / `b` … : tokens on lines 1 and 3, a 3-line text -/
def hist : List Tok := [⟨1, 1⟩, ⟨3, 3⟩, ⟨4, 4⟩]
def args13 : Args := ⟨⟨1, 1⟩, ⟨1, 1⟩, ⟨3, 3⟩, ⟨3, 3⟩⟩

/-- without pre-loaded lines and without the fallback (the code before fix 8a8dee43): `KeyError` on a range crossing a
    line that carries no token start -/
theorem unprotected_witness : runHelper unprotected 3 hist ⟨"known_range", .a1s, .a2e⟩ args13 = .keyError := by decide
/-- the fallback alone repairs it -/
example : runHelper { unprotected with fallback := true } 3 hist ⟨"known_range", .a1s, .a2e⟩ args13 = .ok 1 true := by
  decide
/-- an off-by-one in the reported line leaves the input at the ENDMARKER line -/
theorem offset_witness : runHelper shifted 3 hist ⟨"raise_syntax_error", .diagS, .diagE⟩ args13 = .ok 5 false := by decide
/-- a fallback that starts from an *end* line is not protected without pre-loaded lines -/
theorem endline_witness :
    runHelper { unprotected with fallback := true } 2 [⟨1, 2⟩, ⟨4, 4⟩] ⟨"loc", .a1e, .a2e⟩ ⟨⟨1, 2⟩, ⟨1, 2⟩, ⟨4, 4⟩, ⟨4, 4⟩⟩
      = .keyError := by decide

example : demo.ok = true := by decide
example : ∀ t ∈ hist, t.wf 3 = true := by decide
example : ∀ hp ∈ demo.helpers, ∃ line fb, runHelper demo 3 hist hp args13 = .ok line fb ∧ 1 ≤ line ∧ line ≤ 3 + 1 :=
  table_located demo (by decide) 3 hist args13 (by decide) (by decide) (by decide) (by decide) (by decide) (by decide)
example : runHelper demo 3 hist ⟨"known_range", .a1s, .a2e⟩ args13 = .ok 1 false := by decide

end Scenic.ErrLoc
