import ScenicModel.Props.C16Sem

/-!
# C16 (part 3): distance, bounding boxes, nearest hit, region-in-region containment

Statements about the code model of `Model/RegionAlgebra.lean`, for every region / point / flag value:
under which values of the flags read off the source the library's answers agree with 3-coordinate
membership (`Reg.mem`), each followed by a concrete witness for the other flag value.
-/
namespace Scenic.Region

/-! ## distance -/

/-- `CircularRegion.distanceTo` is zero exactly on the disc, provided the planar fast path is chosen by
    comparing with the disc's own height (`5f7bb449`) -/
theorem disc_dist_zero_iff_mem (F : Flags) (h1 : F.discDistPlane = .selfZ) (h2 : F.polyDistZ = .selfZ)
    (z : Rat) (c : V2) (r : Rat) (p : Pt) :
    ∃ d, distanceTo F (.disc z c r) p = .val d ∧ d.isZero = (Reg.disc z c r).mem p := by
  by_cases hz : p.z = z
  · refine ⟨_, by simp [distanceTo, h1, ZSrc.pick, hz]; rfl, ?_⟩
    have : Pt.dsq p (c.at z) = V2.dsq p.xy c := by simp [Pt.dsq, V2.dsq, V2.at, Pt.xy, hz, sq]
    simp [DistForm.isZero, Reg.mem, hz, this]
  · refine ⟨_, by simp [distanceTo, h1, h2, ZSrc.pick, hz]; rfl, ?_⟩
    have : ¬ sq (p.z - z) = 0 := by rw [sq_eq_zero_iff]; intro h; exact hz (by linarith)
    simp [DistForm.isZero, Reg.mem, hz, this]

/-- the defect repaired by 5f7bb449 (`point.z == 0`): the point (0,0,0), five units below the centre of a
    disc of radius 6 at height 5, got distance 0 although it is not a member -/
theorem disc_dist_plane_witness (F : Flags) (h1 : F.discDistPlane = .zero) :
    ∃ d, distanceTo F (.disc 5 ⟨0, 0⟩ 6) ⟨0, 0, 0⟩ = .val d ∧ d.isZero = true ∧
      (Reg.disc 5 ⟨0, 0⟩ 6).mem ⟨0, 0, 0⟩ = false := by
  refine ⟨_, by simp [distanceTo, h1, ZSrc.pick]; rfl, ?_, ?_⟩
  · simp [DistForm.isZero, Pt.dsq, V2.at, sq]; norm_num
  · simp [Reg.mem]

theorem pts_dist_zero_iff_mem (F : Flags) (ps : List Pt) (hne : ps ≠ []) (p : Pt) :
    ∃ d, distanceTo F (.pts ps) p = .val d ∧ d.isZero = (Reg.pts ps).mem p := by
  refine ⟨_, rfl, ?_⟩
  have hsq0 : sq (0 : Rat) = 0 := by unfold sq; ring
  rw [Bool.eq_iff_iff]
  simp only [DistForm.isZero, Reg.mem, Bool.and_eq_true, decide_eq_true_eq, List.contains_eq_mem, and_true, hsq0]
  constructor
  · intro h
    obtain ⟨m, hm, hmin⟩ := minOver_attained (fun m => Pt.dsq p m) hne
    have h0 : Pt.dsq p m = 0 := by
      have := Pt.dsq_nonneg p m
      have hmin' : Pt.dsq p m = minOver (fun m => Pt.dsq p m) ps := hmin
      linarith
    rw [Pt.dsq_eq_zero_iff] at h0
    subst h0; exact hm
  · intro hp
    have := minOver_le (fun m => Pt.dsq p m) hp
    have h0 : Pt.dsq p p = 0 := (Pt.dsq_eq_zero_iff p p).mpr rfl
    have this' : minOver (fun m => Pt.dsq p m) ps ≤ Pt.dsq p p := this
    linarith

/-- the distance to a point set is attained and minimal -/
theorem pts_dist_is_min (ps : List Pt) (p : Pt) :
    (∀ m ∈ ps, minOver (fun m => Pt.dsq p m) ps ≤ Pt.dsq p m) ∧
    (ps ≠ [] → ∃ m ∈ ps, Pt.dsq p m = minOver (fun m => Pt.dsq p m) ps) :=
  ⟨fun _ hm => minOver_le (fun m => Pt.dsq p m) hm, fun hne => minOver_attained (fun m => Pt.dsq p m) hne⟩

theorem excess_zero_iff (a h : Rat) : sq (maxR 0 (absR a - h)) = 0 ↔ absR a ≤ h := by
  rw [sq_eq_zero_iff, maxR_eq]
  constructor
  · intro e
    have := le_max_right 0 (absR a - h)
    linarith
  · intro e; exact max_eq_left (by linarith)

theorem box_dist_zero_iff_mem (F : Flags) (b : Box) (p : Pt) :
    ∃ d, distanceTo F (.vol b) p = .val d ∧ d.isZero = (Reg.vol b).mem p := by
  refine ⟨_, rfl, ?_⟩
  have hsq0 : sq (0 : Rat) = 0 := by unfold sq; ring
  generalize hl : b.local p = l
  have e1 : (Reg.vol b).mem p = (decide (absR l.x ≤ b.h.x) && decide (absR l.y ≤ b.h.y) && decide (absR l.z ≤ b.h.z)) := by
    show b.mem p = _
    unfold Box.mem; rw [hl]
  have e2 : b.distSq p = sq (maxR 0 (absR l.x - b.h.x)) + sq (maxR 0 (absR l.y - b.h.y)) + sq (maxR 0 (absR l.z - b.h.z)) := by
    unfold Box.distSq; rw [hl]
  rw [e1]
  have n1 := sq_nonneg' (maxR 0 (absR l.x - b.h.x))
  have n2 := sq_nonneg' (maxR 0 (absR l.y - b.h.y))
  have n3 := sq_nonneg' (maxR 0 (absR l.z - b.h.z))
  rw [Bool.eq_iff_iff]
  simp only [DistForm.isZero, Bool.and_eq_true, decide_eq_true_eq, and_true, hsq0, e2]
  constructor
  · intro h
    exact ⟨⟨(excess_zero_iff _ _).mp (by linarith), (excess_zero_iff _ _).mp (by linarith)⟩,
      (excess_zero_iff _ _).mp (by linarith)⟩
  · rintro ⟨⟨hx, hy⟩, hz⟩
    rw [(excess_zero_iff _ _).mpr hx, (excess_zero_iff _ _).mpr hy, (excess_zero_iff _ _).mpr hz]
    norm_num

theorem coord_excess_le (a b h : Rat) (hb : absR b ≤ h) : sq (maxR 0 (absR a - h)) ≤ sq (a - b) := by
  rw [maxR_eq, absR_eq] at *
  rcases le_total (|a| - h) 0 with hle | hge
  · rw [max_eq_left hle]; simpa [sq] using mul_self_nonneg (a - b)
  · rw [max_eq_right hge]
    have h1 : |a| - |b| ≤ |a - b| := abs_sub_abs_le_abs_sub a b
    have h2 : |a| - h ≤ |a - b| := by linarith
    have h3 : sq (|a| - h) ≤ sq |a - b| := by unfold sq; exact mul_self_le_mul_self hge h2
    have h4 : sq |a - b| = sq (a - b) := by rw [← absR_eq]; exact sq_absR (a - b)
    linarith

/-- the axes of the box form an isometry (an orthonormal frame) -/
def Box.iso (b : Box) : Prop :=
  ∀ d : Pt, sq (b.u.dot d) + sq (b.v.dot d) + sq (b.w.dot d) = d.dot d

example (c h : Pt) : (Box.aligned c h).iso := by
  intro d; simp [Box.aligned, Pt.dot, sq]

/-- no member of a box is nearer than the closed-form distance (and the distance is 0 exactly on
    members: `box_dist_zero_iff_mem`) -/
theorem box_dist_is_min (b : Box) (hiso : b.iso) (p m : Pt) (hm : b.mem m = true) :
    b.distSq p ≤ Pt.dsq p m := by
  have hd : Pt.dsq p m = (p.sub m).dot (p.sub m) := by simp [Pt.dsq, Pt.sub, Pt.dot, sq]
  rw [hd, ← hiso (p.sub m)]
  simp only [Box.mem, Bool.and_eq_true, decide_eq_true_eq] at hm
  have lx : b.u.dot (p.sub m) = (b.local p).x - (b.local m).x := by simp [Box.local, Pt.dot, Pt.sub]; ring
  have ly : b.v.dot (p.sub m) = (b.local p).y - (b.local m).y := by simp [Box.local, Pt.dot, Pt.sub]; ring
  have lz : b.w.dot (p.sub m) = (b.local p).z - (b.local m).z := by simp [Box.local, Pt.dot, Pt.sub]; ring
  rw [lx, ly, lz]
  unfold Box.distSq
  have := coord_excess_le (b.local p).x (b.local m).x b.h.x hm.1.1
  have := coord_excess_le (b.local p).y (b.local m).y b.h.y hm.1.2
  have := coord_excess_le (b.local p).z (b.local m).z b.h.z hm.2
  linarith

/-- reverse triangle inequality in squared form: with `S² ≤ A·B` (Cauchy–Schwarz), `(g+r)² ≤ A`, `B ≤ r²` -/
theorem rev_triangle (A B S g r : Rat) (hg : 0 ≤ g) (hr : 0 ≤ r) (hB0 : 0 ≤ B) (hcs : S * S ≤ A * B)
    (hA : (g + r) * (g + r) ≤ A) (hB : B ≤ r * r) : g * g ≤ A - 2 * S + B := by
  by_contra hc
  push Not at hc
  have hgr : 0 ≤ g * r := mul_nonneg hg hr
  have hpos : 0 ≤ A + B - g * g := by nlinarith
  have hs2 : A + B - g * g < 2 * S := by linarith
  have h4 : (A + B - g * g) * (A + B - g * g) < 4 * (S * S) := by nlinarith
  have hd : 2 * (g * r) ≤ A - B - g * g := by nlinarith
  have h5 : (2 * (g * r)) * (2 * (g * r)) ≤ (A - B - g * g) * (A - B - g * g) :=
    mul_self_le_mul_self (by linarith) hd
  have h6 : 4 * (g * g) * B ≤ (2 * (g * r)) * (2 * (g * r)) := by nlinarith [mul_nonneg hg hg]
  -- (A+B-g²)² - 4AB = (A-B-g²)² - 4g²B ≥ 0
  nlinarith

/-- lower bound for the distance to a disc in certificate form (no square roots): every rational `g` with
    `(g + r)² ≤ |p.xy − c|²` under-estimates the planar gap, and then `g² + (p.z − z)²` is at most the squared
    distance to any member -/
theorem disc_dist_lower_bound (z : Rat) (c : V2) (r g : Rat) (hr : 0 ≤ r) (hg : 0 ≤ g) (p m : Pt)
    (hgap : sq (g + r) ≤ V2.dsq p.xy c) (hm : (Reg.disc z c r).mem m = true) :
    sq g + sq (p.z - z) ≤ Pt.dsq p m := by
  simp only [Reg.mem, Bool.and_eq_true, decide_eq_true_eq] at hm
  obtain ⟨hmz, hmr⟩ := hm
  unfold Pt.dsq
  rw [hmz]
  suffices h : sq g ≤ sq (p.x - m.x) + sq (p.y - m.y) by linarith
  unfold V2.dsq sq Pt.xy at *
  simp only at hgap hmr
  have hcs : ((p.x - c.x) * (m.x - c.x) + (p.y - c.y) * (m.y - c.y)) * ((p.x - c.x) * (m.x - c.x) + (p.y - c.y) * (m.y - c.y))
      ≤ ((p.x - c.x) * (p.x - c.x) + (p.y - c.y) * (p.y - c.y)) * ((m.x - c.x) * (m.x - c.x) + (m.y - c.y) * (m.y - c.y)) := by
    nlinarith [mul_self_nonneg ((p.x - c.x) * (m.y - c.y) - (p.y - c.y) * (m.x - c.x))]
  have := rev_triangle _ _ _ g r hg hr (add_nonneg (mul_self_nonneg (m.x - c.x)) (mul_self_nonneg (m.y - c.y))) hcs hgap hmr
  nlinarith

example : sq (1 : Rat) + sq (0 - 5) ≤ Pt.dsq ⟨3, 0, 0⟩ ⟨1, 0, 5⟩ :=
  disc_dist_lower_bound 5 ⟨0, 0⟩ 1 1 (by norm_num) (by norm_num) ⟨3, 0, 0⟩ ⟨1, 0, 5⟩
    (by simp [sq, V2.dsq, Pt.xy]; norm_num) (by simp [Reg.mem, V2.dsq, sq, Pt.xy])

/-! ## bounding boxes -/

theorem coordMax3_ge (f : Pt → Rat) {l : List Pt} {x : Pt} (hx : x ∈ l) : f x ≤ coordMax3 f l := by
  unfold coordMax3
  have := minOver_le (fun v => -(f v)) hx
  unfold minOver at this
  linarith

theorem coordMin3_le (f : Pt → Rat) {l : List Pt} {x : Pt} (hx : x ∈ l) : coordMin3 f l ≤ f x :=
  minOver_le f hx

/-- the reported bounding box contains every member (discs, point sets, axis-aligned boxes) -/
theorem aabb_contains (F : Flags) :
    (F.discAABBZ = .selfZ → ∀ z c r, 0 ≤ r → ∀ p, (Reg.disc z c r).mem p = true →
      ∃ bb, aabb F (.disc z c r) = some bb ∧ inAABB bb p = true) ∧
    (∀ ps p, (Reg.pts ps).mem p = true → ∃ bb, aabb F (.pts ps) = some bb ∧ inAABB bb p = true) ∧
    (∀ c h p, (Reg.vol (Box.aligned c h)).mem p = true →
      ∃ bb, aabb F (.vol (Box.aligned c h)) = some bb ∧ inAABB bb p = true) := by
  refine ⟨fun hF z c r hr p hp => ?_, fun ps p hp => ?_, fun c h p hp => ?_⟩
  · refine ⟨_, rfl, ?_⟩
    simp only [Reg.mem, Bool.and_eq_true, decide_eq_true_eq] at hp
    obtain ⟨hz, hd⟩ := hp
    unfold V2.dsq at hd
    have hx : |p.x - c.x| ≤ r := abs_le_of_sq_le hr (by have := sq_nonneg' (p.xy.y - c.y); simp only [Pt.xy] at *; linarith)
    have hy : |p.y - c.y| ≤ r := abs_le_of_sq_le hr (by have := sq_nonneg' (p.xy.x - c.x); simp only [Pt.xy] at *; linarith)
    rw [abs_le] at hx hy
    simp only [inAABB, hF, ZSrc.pick, Bool.and_eq_true, decide_eq_true_eq]
    refine ⟨⟨⟨⟨⟨?_, ?_⟩, ?_⟩, ?_⟩, ?_⟩, ?_⟩ <;> linarith
  · refine ⟨_, rfl, ?_⟩
    have hm : p ∈ ps := by simpa [Reg.mem] using hp
    simp only [inAABB, Bool.and_eq_true, decide_eq_true_eq]
    exact ⟨⟨⟨⟨⟨coordMin3_le _ hm, coordMax3_ge _ hm⟩, coordMin3_le _ hm⟩, coordMax3_ge _ hm⟩, coordMin3_le _ hm⟩,
      coordMax3_ge _ hm⟩
  · refine ⟨_, rfl, ?_⟩
    simp only [Reg.mem, Box.mem, Box.local, Box.aligned, Pt.dot, Pt.sub, Bool.and_eq_true, decide_eq_true_eq,
      absR_eq] at hp
    obtain ⟨⟨hx, hy⟩, hz⟩ := hp
    rw [abs_le] at hx hy hz
    simp only [inAABB, Box.aligned, Box.xHalf, Box.yHalf, Box.zHalf, absR_eq, Bool.and_eq_true, decide_eq_true_eq]
    norm_num
    refine ⟨⟨⟨⟨⟨?_, ?_⟩, ?_⟩, ?_⟩, ?_⟩, ?_⟩ <;> linarith

/-! ## nearest hit -/

/-- with `axis=1` (33dbfe0a) the selected hit is one of the hits and none is nearer -/
theorem selectHit_nil_iff (p : Pt) : ∀ hits, selectHit true p hits = none ↔ hits = []
  | [] => by simp [selectHit]
  | a :: rest => by
    simp only [selectHit, if_true]
    cases selectHit true p rest with
    | none => simp
    | some m => simp only []; split <;> simp

theorem selectHit_nearest (p : Pt) : ∀ (hits : List Pt) (h : Pt), selectHit true p hits = some h →
    h ∈ hits ∧ ∀ h' ∈ hits, Pt.dsq p h ≤ Pt.dsq p h' := by
  intro hits
  induction hits with
  | nil => intro h hh; simp [selectHit] at hh
  | cons a rest ih =>
    intro h hh
    simp only [selectHit, if_true] at hh
    cases hr : selectHit true p rest with
    | none =>
      simp only [hr, Option.some.injEq] at hh; subst hh
      have : rest = [] := (selectHit_nil_iff p rest).mp hr
      subst this
      exact ⟨List.mem_cons_self, fun h' hh' => by simp at hh'; subst hh'; exact le_refl _⟩
    | some m =>
      simp only [hr] at hh
      obtain ⟨hm, hmin⟩ := ih m hr
      by_cases hle : Pt.dsq p a ≤ Pt.dsq p m
      · simp only [hle, if_true, Option.some.injEq] at hh; subst hh
        refine ⟨List.mem_cons_self, fun h' hh' => ?_⟩
        rcases List.mem_cons.mp hh' with rfl | hh''
        · exact le_refl _
        · exact le_trans hle (hmin h' hh'')
      · simp only [hle, if_false, Option.some.injEq] at hh; subst hh
        refine ⟨List.mem_cons_of_mem _ hm, fun h' hh' => ?_⟩
        rcases List.mem_cons.mp hh' with rfl | hh''
        · exact le_of_lt (not_le.mp hle)
        · exact hmin h' hh''

example : selectHit true ⟨0, 0, 0⟩ [⟨0, 0, 9⟩, ⟨0, 0, -1⟩] = some ⟨0, 0, -1⟩ := by
  simp [selectHit, Pt.dsq, sq]; norm_num

/-- the defect repaired by 33dbfe0a: without `axis=1` the first hit is returned even when the other one is
    nearer -/
theorem selectHit_first_witness :
    selectHit false ⟨0, 0, 0⟩ [⟨0, 0, 9⟩, ⟨0, 0, -1⟩] = some ⟨0, 0, 9⟩ ∧
    Pt.dsq ⟨0, 0, 0⟩ ⟨0, 0, -1⟩ < Pt.dsq ⟨0, 0, 0⟩ ⟨0, 0, 9⟩ := by
  constructor
  · simp [selectHit]
  · simp [Pt.dsq, sq]; norm_num

/-! ## region-in-region containment -/

/-- a positive answer of `containsRegion` between polygonal regions is consistent with membership, provided
    `PolygonalRegion.containsRegionInner` compares the heights (it does not at the pinned commit: see the
    witness below and finding `containsRegion:poly-poly:z-differ:true-with-counterexample`) -/
theorem containsRegion_consistent (F : Flags) (O : Oracle) (hO : OracleOK O)
    (hF : F.polyContainsRegionChecksZ = true) (z : Rat) (s : Shape2) (reg : Reg)
    (hreg : planarK reg.kind = true) (sm : Bool)
    (h : containsRegion F O (.planar z s) reg sm = .yes) :
    ∀ p, reg.mem p = true → (Reg.planar z s).mem p = true := by
  have hR := kind_planar_cases reg hreg
  have hk : reg.kind ≠ .empty ∧ reg.kind ≠ .all := by
    rcases (isa_poly_iff _).mp hreg with e | e <;> simp [e]
  have hd : dimOf reg = some 2 := by
    clear h hR
    induction reg with
    | planar => rfl
    | disc => rfl
    | lzy r ih => exact ih (by simpa [Reg.kind] using hreg) (by simpa [Reg.kind] using hk)
    | _ => simp [Reg.kind, planarK, Kind.isa, Kind.parent] at hreg
  have e1 : ((Reg.planar z s).kind == Kind.all || reg.kind == Kind.empty) = false := by simp [Reg.kind, hk.1]
  have e2 : ((Reg.planar z s).kind == Kind.empty || reg.kind == Kind.all) = false := by simp [Reg.kind, hk.2]
  unfold containsRegion at h
  simp only [e1, e2, Bool.false_eq_true, if_false, dimOf, hd] at h
  cases sm with
  | true => simp at h
  | false =>
    simp only [lt_self_iff_false, decide_false, Bool.and_false, Bool.or_self, Bool.false_eq_true, if_false,
      polyContainsInner, hR.2.1, hR.1, hF, if_true] at h
    by_cases hc : reg.zz = z ∧ O.sub2 s.mem reg.sh = true
    · intro p hp
      rw [hR.2.2 p] at hp
      simp only [Bool.and_eq_true, decide_eq_true_eq] at hp
      have := (hO.1 s.mem reg.sh).mp hc.2 p.xy hp.2
      simp [Reg.mem, hp.1, hc.1, this]
    · simp [hc] at h

/-- **defect of the pinned code**: without the height test a disc at height 5 "contains" a smaller disc at
    height 3, none of whose points it contains -/
theorem containsRegion_height_witness (F : Flags) (O : Oracle) (hO : OracleOK O)
    (hF : F.polyContainsRegionChecksZ = false) :
    containsRegion F O (.planar 5 (.disc ⟨0, 0⟩ 2)) (.planar 3 unitDisc) false = .yes ∧
    (Reg.planar 3 unitDisc).mem ⟨0, 0, 3⟩ = true ∧ (Reg.planar 5 (.disc ⟨0, 0⟩ 2)).mem ⟨0, 0, 3⟩ = false := by
  refine ⟨?_, ?_, ?_⟩
  · have hs : O.sub2 (Shape2.disc ⟨0, 0⟩ 2).mem unitDisc.mem = true := by
      rw [hO.1]
      intro q hq
      have hq' := of_decide_eq_true hq
      apply decide_eq_true
      unfold V2.dsq sq at *
      linarith
    simp [containsRegion, Reg.kind, dimOf, polyContainsInner, Reg.shape2, hF, hs]
  · simp [Reg.mem, unitDisc, Shape2.mem, V2.dsq, sq, Pt.xy]
  · simp [Reg.mem]

end Scenic.Region
