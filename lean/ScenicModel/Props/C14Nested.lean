import ScenicModel.Lemmas.Overrides

/-!
# C14 (part 6): overrides of nested scenarios are undone (LIFO discipline, any depth)

`overrides_reverted_nested`: take any state and any event sequence – scenarios created, started and stopped at any
nesting depth, one after the other or inside each other, any number of overrides by any of them, arbitrary
writes to other properties, a parent stopped while its descendants are still running – that respects the
*discipline* `disc` for the pair `(o,p)`:

* `(o,p)` is not written directly;
* `(o,p)` is overridden only by a live scenario created during the sequence, and no younger live scenario
  currently remembers a value for it (override lifetimes are nested);
* a `stop` stops a youngest block of the live scenarios created during the sequence (what `_stop` does for
  chain-nested sub-scenarios), and nothing that was stopped is restarted.

If at the end every scenario created during the sequence is stopped, `(o,p)` reads exactly as at the
beginning.  The proof is by the invariant "undoing all live new scenarios now, youngest first, would give the
initial value" (`unw`).  Needs the `setdefault` merge (`MergeMode.keepOldest`).
-/
namespace Scenic.C14
open Scenic.Overrides

/-- the value reverting `s` leaves in `(o,p)`: that of the last entry for the pair, if any -/
def lastVal : Saved → ObjId → PropId → Option Val
  | [], _, _ => none
  | e :: rest, o, p =>
      match lastVal rest o p with
      | some v => some v
      | none => if e.1 = o ∧ e.2.1 = p then some e.2.2 else none

theorem revertAll_read (o : ObjId) (p : PropId) : ∀ (s : Saved) (w : World),
    (revertAll w s).read o p = (lastVal s o p).getD (w.read o p) := by
  intro s
  induction s with
  | nil => intro w; rfl
  | cons e rest ih =>
    intro w
    have := ih (w.write e.1 e.2.1 e.2.2)
    simp only [revertAll, List.foldl_cons] at this ⊢
    rw [this]
    simp only [lastVal]
    cases h : lastVal rest o p with
    | some v => rfl
    | none =>
      simp only [Option.getD_none]
      by_cases hc : e.1 = o ∧ e.2.1 = p
      · simp only [hc, and_self, if_true, Option.getD_some]
        rw [← hc.1, ← hc.2]; exact World.read_write_same _ _ _ _
      · simp only [hc, if_false, Option.getD_none]
        apply World.read_write_other
        intro h2; exact hc ⟨h2.1.symm, h2.2.symm⟩

theorem lastVal_append (o : ObjId) (p : PropId) (s t : Saved) :
    lastVal (s ++ t) o p = (lastVal t o p).orElse (fun _ => lastVal s o p) := by
  induction s with
  | nil =>
    simp only [List.nil_append, lastVal]
    cases lastVal t o p <;> rfl
  | cons e rest ih =>
    simp only [List.cons_append, lastVal, ih]
    cases h1 : lastVal t o p with
    | some v => rfl
    | none => simp [Option.orElse]

theorem hasPair_eq_isSome (s : Saved) (o : ObjId) (p : PropId) : hasPair s o p = (lastVal s o p).isSome := by
  induction s with
  | nil => rfl
  | cons e rest ih =>
    simp only [hasPair, List.any_cons] at ih ⊢
    rw [ih]
    simp only [lastVal]
    cases h : lastVal rest o p with
    | some v => simp
    | none =>
      by_cases hc : e.1 = o ∧ e.2.1 = p
      · simp [hc.1, hc.2]
      · simp only [Option.isSome_none, Bool.or_false, hc, if_false]
        simp only [not_and] at hc
        by_cases h1 : e.1 = o
        · simp [h1, hc h1]
        · simp [h1]

/-- one `setdefault` step -/
def addOne' (o : ObjId) (acc : Saved) (pv : PropId × Val) : Saved :=
  if hasPair acc o pv.1 then acc else acc ++ [(o, pv.1, pv.2)]

theorem addSaved_keepOldest' (s : Saved) (o : ObjId) (olds : List (PropId × Val)) :
    addSaved .keepOldest s o olds = olds.foldl (addOne' o) s := rfl

theorem lastVal_addOne (o' o : ObjId) (p : PropId) (acc : Saved) (pv : PropId × Val) :
    lastVal (addOne' o' acc pv) o p =
      match lastVal acc o p with
      | some u => some u
      | none => if o' = o ∧ pv.1 = p then some pv.2 else none := by
  unfold addOne'
  by_cases hh : hasPair acc o' pv.1 = true
  · simp only [hh, if_true]
    cases h : lastVal acc o p with
    | some u => rfl
    | none =>
      by_cases hc : o' = o ∧ pv.1 = p
      · rw [hc.1, hc.2, hasPair_eq_isSome, h] at hh; simp at hh
      · simp [hc]
  · simp only [hh, Bool.false_eq_true, if_false]
    rw [lastVal_append]
    simp only [lastVal]
    by_cases hc : o' = o ∧ pv.1 = p
    · simp only [hc, and_self, if_true, Option.orElse]
      have : lastVal acc o p = none := by
        rw [hc.1, hc.2, hasPair_eq_isSome] at hh
        cases h : lastVal acc o p with
        | none => rfl
        | some v => simp [h] at hh
      rw [this]
    · simp only [hc, if_false]
      cases h : lastVal acc o p <;> simp [Option.orElse]

/-- all `setdefault` steps of one `override` statement; the old values are the current reads -/
theorem lastVal_addAll (o' o : ObjId) (p : PropId) (w : World) :
    ∀ (ps : List PropId) (acc : Saved),
    lastVal ((ps.map (fun q => (q, w.read o' q))).foldl (addOne' o') acc) o p =
      match lastVal acc o p with
      | some u => some u
      | none => if o' = o ∧ p ∈ ps then some (w.read o p) else none := by
  intro ps
  induction ps with
  | nil =>
    intro acc
    simp only [List.map_nil, List.foldl_nil]
    cases h : lastVal acc o p <;> simp
  | cons q rest ih =>
    intro acc
    simp only [List.map_cons, List.foldl_cons]
    rw [ih, lastVal_addOne]
    cases h : lastVal acc o p with
    | some u => rfl
    | none =>
      simp only
      by_cases hc : o' = o ∧ q = p
      · obtain ⟨h1, h2⟩ := hc
        subst h1; subst h2
        simp
      · simp only [hc, if_false, List.mem_cons]
        by_cases ho : o' = o
        · have hq : ¬ q = p := fun h2 => hc ⟨ho, h2⟩
          have : (p = q ∨ p ∈ rest) ↔ p ∈ rest := by
            constructor
            · rintro (h2 | h2); exact absurd h2.symm hq; exact h2
            · exact Or.inr
          simp [ho, this]
        · simp [ho]

/-- undoing a list of remembered-value lists (youngest first), as far as `(o,p)` is concerned -/
def unw (o : ObjId) (p : PropId) : List Saved → Val → Val
  | [], r => r
  | s :: rest, r => unw o p rest ((lastVal s o p).getD r)

theorem unw_append (o : ObjId) (p : PropId) : ∀ (a b : List Saved) (r : Val),
    unw o p (a ++ b) r = unw o p b (unw o p a r) := by
  intro a
  induction a with
  | nil => intro b r; rfl
  | cons s rest ih => intro b r; simp only [List.cons_append, unw]; exact ih b _

theorem unw_none (o : ObjId) (p : PropId) : ∀ (a : List Saved) (r : Val),
    (∀ s ∈ a, lastVal s o p = none) → unw o p a r = r := by
  intro a
  induction a with
  | nil => intro r _; rfl
  | cons s rest ih =>
    intro r h
    simp only [unw]
    rw [h s (List.mem_cons_self ..)]
    exact ih r (fun x hx => h x (List.mem_cons_of_mem _ hx))

theorem revertFrames_read (o : ObjId) (p : PropId) : ∀ (fs : List Frame) (w : World),
    (fs.foldl (fun w f => revertAll w f.saved) w).read o p = unw o p (fs.map (·.saved)) (w.read o p) := by
  intro fs
  induction fs with
  | nil => intro w; rfl
  | cons f rest ih =>
    intro w
    simp only [List.foldl_cons, List.map_cons, unw]
    rw [ih, revertAll_read]

def isLive (f : Frame) : Bool := f.status != .stopped

theorem mem_all' {α} {l : List α} {q : α → Bool} (h : l.all q = true) {a : α} (ha : a ∈ l) : q a = true :=
  List.all_eq_true.mp h a ha

/-- a configuration with the `setdefault` merge (for the example below) -/
def cfgNested : Cfg :=
  { order := [.destroy, .stopScenarios, .stopBehaviors, .disableProxies, .endSimulation],
    merge := .keepOldest, stopClears := true, agentsEarly := true, destroyGuarded := false }

/-- remembered values of the live frames created after the first `n0` -/
def liveSaved (n0 : Nat) (frames : List Frame) : List Saved := ((frames.drop n0).filter isLive).map (·.saved)

/-! ### the discipline (Boolean, evaluated in the state in which the event is executed) -/

def discOverride (n0 : Nat) (o : ObjId) (p : PropId) (st : St) (t : Nat) : Bool :=
  match st.frames.dropWhile (fun f => f.id != t) with
  | [] => false
  | fr :: post =>
      decide (n0 ≤ (st.frames.takeWhile (fun f => f.id != t)).length) && isLive fr &&
      post.all (fun f => f.id != t) &&
      post.all (fun f => !isLive f || (lastVal f.saved o p).isNone)

def isVictim (t : Nat) (f : Frame) : Bool := isRunning f && inSub t f

def discStop (n0 : Nat) (st : St) (t : Nat) : Bool :=
  !(st.frames.any (fun f => f.id == t && isRunning f)) ||
  ((st.frames.take n0).all (fun f => !isVictim t f) &&
   ((st.frames.drop n0).dropWhile (fun f => !isVictim t f)).all (fun f => !isLive f || isVictim t f))

def disc (n0 : Nat) (o : ObjId) (p : PropId) (st : St) : Ev → Bool
  | .create _ => true
  | .write o' p' _ => !(o' == o && p' == p)
  | .prepare _ _ => true
  | .start t => st.frames.all (fun f => f.id != t || isLive f)
  | .override t o' ps => !(o' == o && (ps.map (·.1)).contains p) || discOverride n0 o p st t
  | .stop t => discStop n0 st t

def discAll (cfg : Cfg) (n0 : Nat) (o : ObjId) (p : PropId) : St → List Ev → Bool
  | _, [] => true
  | st, e :: rest => disc n0 o p st e && discAll cfg n0 o p (step cfg st e) rest

/-- the invariant: undoing all live new frames, youngest first, gives the initial value -/
def UInv (n0 : Nat) (o : ObjId) (p : PropId) (v0 : Val) (st : St) : Prop :=
  n0 ≤ st.frames.length ∧ unw o p (liveSaved n0 st.frames).reverse (st.w.read o p) = v0

theorem liveSaved_map (n0 : Nat) (g : Frame → Frame) (frames : List Frame)
    (hs : ∀ f ∈ frames, isLive (g f) = isLive f) :
    liveSaved n0 (frames.map g) = ((frames.drop n0).filter isLive).map (fun f => (g f).saved) := by
  unfold liveSaved
  rw [← List.map_drop]
  have : ∀ (l : List Frame), (∀ f ∈ l, isLive (g f) = isLive f) →
      ((l.map g).filter isLive).map (·.saved) = (l.filter isLive).map (fun f => (g f).saved) := by
    intro l
    induction l with
    | nil => intro _; rfl
    | cons f rest ih =>
      intro h
      simp only [List.map_cons, List.filter_cons]
      rw [h f (List.mem_cons_self ..)]
      split
      · simp only [List.map_cons]; rw [ih (fun x hx => h x (List.mem_cons_of_mem _ hx))]
      · exact ih (fun x hx => h x (List.mem_cons_of_mem _ hx))
  exact this _ (fun f hf => hs f (List.mem_of_mem_drop hf))

theorem enable_read (w : World) (o' o : ObjId) (p : PropId) : (w.enable o').read o p = w.read o p := by
  unfold World.enable World.read
  by_cases h : o = o'
  · subst h; simp
  · simp [h]

theorem overrideWrites_read (o' o : ObjId) (p : PropId) : ∀ (ps : List (PropId × Val)) (w : World),
    ¬(o' = o ∧ p ∈ ps.map (·.1)) →
    (ps.foldl (fun w pv => w.write o' pv.1 pv.2) w).read o p = w.read o p := by
  intro ps
  induction ps with
  | nil => intro w _; rfl
  | cons pv rest ih =>
    intro w h
    simp only [List.foldl_cons]
    rw [ih]
    · apply World.read_write_other
      intro hc; apply h; exact ⟨hc.1.symm, by simp [hc.2]⟩
    · intro hc; apply h; exact ⟨hc.1, by simp only [List.map_cons, List.mem_cons]; exact Or.inr hc.2⟩

theorem overrideFrame_lastVal_other (cfg : Cfg) (hm : cfg.merge = .keepOldest) (t : Nat) (o' o : ObjId) (p : PropId)
    (w : World) (ps : List (PropId × Val)) (f : Frame) (h : ¬(o' = o ∧ p ∈ ps.map (·.1))) :
    lastVal (overrideFrame cfg t o' (ps.map (fun pv => (pv.1, w.read o' pv.1))) f).saved o p = lastVal f.saved o p := by
  unfold overrideFrame
  split
  · simp only [hm, addSaved_keepOldest']
    have : ps.map (fun pv => (pv.1, w.read o' pv.1)) = (ps.map (·.1)).map (fun q => (q, w.read o' q)) := by
      simp [List.map_map, Function.comp]
    rw [this, lastVal_addAll]
    cases h2 : lastVal f.saved o p with
    | some u => rfl
    | none => exact if_neg h
  · rfl

theorem overrideFrame_isLive (cfg : Cfg) (t : Nat) (o' : ObjId) (olds : List (PropId × Val)) (f : Frame) :
    isLive (overrideFrame cfg t o' olds f) = isLive f := by
  unfold overrideFrame; split <;> rfl

theorem startFrame_isLive (t : Nat) (f : Frame) (h : (f.id != t || isLive f) = true) :
    isLive (startFrame t f) = isLive f := by
  unfold startFrame
  split
  · rename_i e
    have hid : (f.id != t) = false := by simp [bne, e]
    rw [hid, Bool.false_or] at h
    rw [h]; rfl
  · rfl

theorem dropWhile_head {α} (q : α → Bool) : ∀ (l : List α) (a : α) (rest : List α),
    l.dropWhile q = a :: rest → q a = false := by
  intro l
  induction l with
  | nil => intro a rest h; simp at h
  | cons x xs ih =>
    intro a rest h
    simp only [List.dropWhile_cons] at h
    split at h
    · exact ih a rest h
    · rename_i hx
      simp only [List.cons.injEq] at h
      rw [← h.1]; simpa using hx

theorem mem_takeWhile {α} (q : α → Bool) : ∀ (l : List α) (a : α), a ∈ l.takeWhile q → q a = true := by
  intro l
  induction l with
  | nil => intro a h; simp at h
  | cons x xs ih =>
    intro a h
    simp only [List.takeWhile_cons] at h
    split at h
    · rename_i hx
      rcases List.mem_cons.mp h with h1 | h1
      · rw [h1]; exact hx
      · exact ih a h1
    · simp at h

theorem map_id_of {α} (g : α → α) : ∀ (l : List α), (∀ f ∈ l, g f = f) → l.map g = l := by
  intro l
  induction l with
  | nil => intro _; rfl
  | cons f rest ih =>
    intro h
    simp only [List.map_cons]
    rw [h f (List.mem_cons_self ..), ih (fun x hx => h x (List.mem_cons_of_mem _ hx))]

theorem unw_congr (o : ObjId) (p : PropId) {α} (f1 f2 : α → Saved) : ∀ (l : List α) (r : Val),
    (∀ x ∈ l, lastVal (f1 x) o p = lastVal (f2 x) o p) → unw o p (l.map f1) r = unw o p (l.map f2) r := by
  intro l
  induction l with
  | nil => intro r _; rfl
  | cons x rest ih =>
    intro r h
    simp only [List.map_cons, unw]
    rw [h x (List.mem_cons_self ..)]
    exact ih _ (fun y hy => h y (List.mem_cons_of_mem _ hy))

theorem liveSaved_append (n0 : Nat) (a b : List Frame) (h : n0 ≤ a.length) :
    liveSaved n0 (a ++ b) = liveSaved n0 a ++ (b.filter isLive).map (·.saved) := by
  unfold liveSaved
  rw [List.drop_append_of_le_length h, List.filter_append, List.map_append]

theorem stopFrame_not_victim (cfg : Cfg) (t : Nat) (f : Frame) (h : isVictim t f = false) : stopFrame cfg t f = f := by
  unfold stopFrame
  unfold isVictim at h
  simp [h]

theorem stopFrame_victim_dead (cfg : Cfg) (t : Nat) (f : Frame) (h : isVictim t f = true) :
    isLive (stopFrame cfg t f) = false := by
  unfold stopFrame
  unfold isVictim at h
  simp [h, isLive]

theorem victim_live (t : Nat) (f : Frame) (h : isVictim t f = true) : isLive f = true := by
  unfold isVictim isRunning at h
  simp only [Bool.and_eq_true, beq_iff_eq] at h
  simp [isLive, h.1]

/-- one disciplined event keeps the invariant -/
theorem step_UInv (cfg : Cfg) (hm : cfg.merge = .keepOldest) (n0 : Nat) (o : ObjId) (p : PropId) (v0 : Val)
    (st : St) (ev : Ev) (h : UInv n0 o p v0 st) (hd : disc n0 o p st ev = true) :
    UInv n0 o p v0 (step cfg st ev) := by
  obtain ⟨hlen, hu⟩ := h
  cases ev with
  | create o' =>
    refine ⟨hlen, ?_⟩
    simp only [step]
    rw [enable_read]; exact hu
  | write o' p' v =>
    refine ⟨hlen, ?_⟩
    simp only [disc, Bool.not_eq_true', Bool.and_eq_false_imp, beq_iff_eq] at hd
    simp only [step]
    rw [World.read_write_other]
    · exact hu
    · intro hc
      have := hd hc.1.symm
      simp [hc.2] at this
  | prepare t par =>
    simp only [step, doPrepare]
    refine ⟨by simp only [List.length_append]; omega, ?_⟩
    rw [liveSaved_append n0 _ _ hlen]
    simp only [List.filter_cons, isLive, List.filter_nil, List.reverse_append]
    simp only [bne, show (Status.prepared == Status.stopped) = false from rfl, Bool.not_false, if_true,
      List.map_cons, List.map_nil, List.reverse_cons, List.reverse_nil, List.nil_append, List.singleton_append, unw,
      lastVal, Option.getD_none]
    exact hu
  | start t =>
    simp only [disc] at hd
    simp only [step, doStart]
    refine ⟨by simpa using hlen, ?_⟩
    rw [liveSaved_map n0 _ _ (fun f hf => startFrame_isLive t f (mem_all' hd hf))]
    have : (fun f => (startFrame t f).saved) = (fun f : Frame => f.saved) := by
      funext f; unfold startFrame; split <;> rfl
    rw [this]
    exact hu
  | override t o' ps =>
    simp only [disc, Bool.or_eq_true, Bool.not_eq_true', Bool.and_eq_false_imp, beq_iff_eq] at hd
    simp only [step, doOverride]
    refine ⟨by simpa using hlen, ?_⟩
    rw [liveSaved_map n0 _ _ (fun f _ => overrideFrame_isLive cfg t o' _ f)]
    by_cases hc : o' = o ∧ p ∈ ps.map (·.1)
    · -- the tracked pair is overridden: by the discipline, by the youngest live frame that remembers it
      have hdo : discOverride n0 o p st t = true := by
        rcases hd with hd | hd
        · have := hd hc.1
          simp only [List.contains_eq_mem, decide_eq_false_iff_not] at this
          exact absurd hc.2 this
        · exact hd
      unfold discOverride at hdo
      have hsplit := List.takeWhile_append_dropWhile (p := fun f : Frame => f.id != t) (l := st.frames)
      cases hdw : st.frames.dropWhile (fun f => f.id != t) with
      | nil => simp [hdw] at hdo
      | cons fr post =>
        simp only [hdw, Bool.and_eq_true, decide_eq_true_eq] at hdo
        obtain ⟨⟨⟨hpre, hfrl⟩, hpostid⟩, hpostv⟩ := hdo
        have hfrid : fr.id = t := by
          have := dropWhile_head _ _ _ _ hdw
          simpa [bne] using this
        rw [hdw] at hsplit
        generalize hpre' : st.frames.takeWhile (fun f => f.id != t) = pre at hsplit hpre
        have hpreid : ∀ f ∈ pre, (f.id == t) = false := by
          intro f hf
          rw [← hpre'] at hf
          have := mem_takeWhile _ _ _ hf
          simpa [bne] using this
        -- the live new frames: those of `pre` after n0, then `fr`, then those of `post`
        have hdrop : st.frames.drop n0 = pre.drop n0 ++ fr :: post := by
          rw [← hsplit, List.drop_append_of_le_length hpre]
        rw [hdrop]
        simp only [List.filter_append, List.filter_cons, hfrl, if_true, List.map_append, List.map_cons,
          List.reverse_append, List.reverse_cons, List.append_assoc, List.cons_append,
          List.nil_append]
        unfold liveSaved at hu
        rw [hdrop] at hu
        simp only [List.filter_append, List.filter_cons, hfrl, if_true, List.map_append, List.map_cons,
          List.reverse_append, List.reverse_cons, List.append_assoc, List.cons_append,
          List.nil_append] at hu
        rw [unw_append] at hu ⊢
        -- frames of `post` remember nothing for (o,p) and are not changed by the override
        have hpost_none : ∀ (g : Frame → Saved), (∀ f ∈ post, g f = f.saved) → ∀ r,
            unw o p ((post.filter isLive).map g).reverse r = r := by
          intro g hg r
          apply unw_none
          intro s hs
          simp only [List.mem_reverse, List.mem_map, List.mem_filter] at hs
          obtain ⟨f, ⟨hf, hfl⟩, rfl⟩ := hs
          rw [hg f hf]
          have := mem_all' hpostv hf
          simp only [hfl, Bool.not_true, Bool.false_or, Option.isNone_iff_eq_none] at this
          exact this
        have hpost_same : ∀ f ∈ post, (overrideFrame cfg t o' (ps.map (fun pv => (pv.1, st.w.read o' pv.1))) f).saved = f.saved := by
          intro f hf
          unfold overrideFrame
          have : (f.id == t) = false := by
            have := mem_all' hpostid hf
            simpa [bne] using this
          simp [this]
        rw [hpost_none _ hpost_same, hpost_none _ (fun _ _ => rfl)] at *
        simp only [unw] at hu ⊢
        -- the frame `fr`
        have hfr : lastVal (overrideFrame cfg t o' (ps.map (fun pv => (pv.1, st.w.read o' pv.1))) fr).saved o p =
            match lastVal fr.saved o p with
            | some u => some u
            | none => some (st.w.read o p) := by
          unfold overrideFrame
          simp only [hfrid, beq_self_eq_true, if_true, hm, addSaved_keepOldest']
          have : ps.map (fun pv => (pv.1, st.w.read o' pv.1)) = (ps.map (·.1)).map (fun q => (q, st.w.read o' q)) := by
            simp [List.map_map, Function.comp]
          rw [this, lastVal_addAll]
          cases h2 : lastVal fr.saved o p with
          | some u => rfl
          | none => simp only; rw [if_pos hc]
        have hval : (lastVal (overrideFrame cfg t o' (ps.map (fun pv => (pv.1, st.w.read o' pv.1))) fr).saved o p).getD
              ((ps.foldl (fun w pv => w.write o' pv.1 pv.2) st.w).read o p) =
            (lastVal fr.saved o p).getD (st.w.read o p) := by
          rw [hfr]
          cases lastVal fr.saved o p <;> rfl
        rw [hval]
        -- frames of `pre` are not changed
        have hpre_same : ((pre.drop n0).filter isLive).map (fun f => (overrideFrame cfg t o' (ps.map (fun pv => (pv.1, st.w.read o' pv.1))) f).saved)
            = ((pre.drop n0).filter isLive).map (·.saved) := by
          apply List.map_congr_left
          intro f hf
          have hfp : f ∈ pre := List.mem_of_mem_drop (List.mem_filter.mp hf).1
          unfold overrideFrame
          simp [hpreid f hfp]
        rw [hpre_same]
        exact hu
    · -- another pair: nothing relevant changes
      rw [overrideWrites_read o' o p ps st.w hc]
      unfold liveSaved at hu
      rw [← List.map_reverse, unw_congr o p _ (fun f : Frame => f.saved) _ _
        (fun f _ => overrideFrame_lastVal_other cfg hm t o' o p st.w ps f hc), List.map_reverse]
      exact hu
  | stop t =>
    simp only [disc, discStop, Bool.or_eq_true, Bool.not_eq_true', Bool.and_eq_true] at hd
    simp only [step]
    unfold stopScen
    split
    · rename_i hany
      rcases hd with hd | ⟨hold, hvict⟩
      · rw [hd] at hany; exact absurd hany (by simp)
      · -- split the frames: old ++ keep ++ vict
        have hfr : st.frames = st.frames.take n0 ++ st.frames.drop n0 := (List.take_append_drop n0 st.frames).symm
        have hsplit := List.takeWhile_append_dropWhile (p := fun f : Frame => !isVictim t f) (l := st.frames.drop n0)
        generalize hk : (st.frames.drop n0).takeWhile (fun f => !isVictim t f) = keep at hsplit
        generalize hv : (st.frames.drop n0).dropWhile (fun f => !isVictim t f) = vict at hsplit hvict
        generalize hol : st.frames.take n0 = old at hfr hold
        have hkeep : ∀ f ∈ keep, isVictim t f = false := by
          intro f hf
          rw [← hk] at hf
          have := mem_takeWhile _ _ _ hf
          simpa using this
        have holdv : ∀ f ∈ old, isVictim t f = false := by
          intro f hf; have := mem_all' hold hf; simpa using this
        have hvl : ∀ f ∈ vict, isLive f = isVictim t f := by
          intro f hf
          have := mem_all' hvict hf
          cases hl : isLive f with
          | false =>
            cases hvv : isVictim t f with
            | false => rfl
            | true => rw [victim_live t f hvv] at hl; exact absurd hl (by simp)
          | true => simp only [hl, Bool.not_true, Bool.false_or] at this; rw [this]
        have holdlen : old.length = n0 := by rw [← hol]; exact List.length_take_of_le hlen
        refine ⟨by simpa using hlen, ?_⟩
        -- the new world: the victims reverted, youngest first
        have hvictims : st.frames.reverse.filter (fun f => isRunning f && inSub t f) = (vict.filter (isVictim t)).reverse := by
          have e1 : (fun f => isRunning f && inSub t f) = isVictim t := rfl
          rw [e1, hfr, ← hsplit]
          simp only [List.reverse_append, List.filter_append, List.filter_reverse]
          have k1 : keep.filter (isVictim t) = [] := List.filter_eq_nil_iff.mpr (fun f hf => by simp [hkeep f hf])
          have k2 : old.filter (isVictim t) = [] := List.filter_eq_nil_iff.mpr (fun f hf => by simp [holdv f hf])
          simp [k1, k2]
        show unw o p (liveSaved n0 (st.frames.map (stopFrame cfg t))).reverse
          ((List.foldl (fun w f => revertAll w f.saved) st.w
            (st.frames.reverse.filter (fun f => isRunning f && inSub t f))).read o p) = v0
        rw [hvictims, revertFrames_read]
        -- the new frames
        have hnew : liveSaved n0 (st.frames.map (stopFrame cfg t)) = (keep.filter isLive).map (·.saved) := by
          unfold liveSaved
          rw [← List.map_drop]
          have hd2 : st.frames.drop n0 = keep ++ vict := hsplit.symm
          rw [hd2, List.map_append, List.filter_append, List.map_append]
          have a1 : keep.map (stopFrame cfg t) = keep := map_id_of _ _ (fun f hf => stopFrame_not_victim cfg t f (hkeep f hf))
          have a2 : (vict.map (stopFrame cfg t)).filter isLive = [] := by
            apply List.filter_eq_nil_iff.mpr
            intro f hf
            simp only [List.mem_map] at hf
            obtain ⟨g, hg, rfl⟩ := hf
            cases hvv : isVictim t g with
            | true => simp [stopFrame_victim_dead cfg t g hvv]
            | false =>
              rw [stopFrame_not_victim cfg t g hvv]
              have := hvl g hg
              rw [hvv] at this
              simp [this]
          rw [a1, a2]; simp
        rw [hnew]
        unfold liveSaved at hu
        have hd2 : st.frames.drop n0 = keep ++ vict := hsplit.symm
        rw [hd2, List.filter_append, List.map_append, List.reverse_append, unw_append] at hu
        have hvf : vict.filter isLive = vict.filter (isVictim t) := by
          apply List.filter_congr
          intro f hf; exact hvl f hf
        rw [hvf] at hu
        rw [List.map_reverse]
        exact hu
    · exact ⟨hlen, hu⟩

theorem run_UInv (cfg : Cfg) (hm : cfg.merge = .keepOldest) (n0 : Nat) (o : ObjId) (p : PropId) (v0 : Val) :
    ∀ (evs : List Ev) (st : St), UInv n0 o p v0 st → discAll cfg n0 o p st evs = true →
    UInv n0 o p v0 (run cfg st evs) := by
  intro evs
  induction evs with
  | nil => intro st h _; exact h
  | cons ev rest ih =>
    intro st h hd
    simp only [discAll, Bool.and_eq_true] at hd
    exact ih _ (step_UInv cfg hm n0 o p v0 st ev h hd.1) hd.2

/-- **overrides of nested scenarios are undone**: for every disciplined event sequence from any state, once every
    scenario created during the sequence is stopped, `(o,p)` reads as at the beginning. -/
theorem overrides_reverted_nested (cfg : Cfg) (hm : cfg.merge = .keepOldest) (st0 : St) (evs : List Ev)
    (o : ObjId) (p : PropId)
    (hd : discAll cfg st0.frames.length o p st0 evs = true)
    (hend : ∀ f ∈ (run cfg st0 evs).frames.drop st0.frames.length, isLive f = false) :
    (run cfg st0 evs).w.read o p = st0.w.read o p := by
  have h0 : UInv st0.frames.length o p (st0.w.read o p) st0 := by
    refine ⟨Nat.le_refl _, ?_⟩
    simp [liveSaved, unw]
  have h1 := run_UInv cfg hm _ o p _ evs st0 h0 hd
  obtain ⟨_, hu⟩ := h1
  have : liveSaved st0.frames.length (run cfg st0 evs).frames = [] := by
    unfold liveSaved
    rw [List.filter_eq_nil_iff.mpr (fun f hf => by simp [hend f hf])]
    rfl
  rw [this] at hu
  exact hu

/-- a nested, disciplined run: Sub(1) overrides foo and bar of object 0 in its setup, invokes Sub(2) which overrides
    foo again and bar of object 1, a behaviour writes another property, Sub(2) ends, Sub(1) overrides foo once
    more, then a second child Sub(3) is running when Sub(1) is stopped by its parent's time limit. -/
def nestedRun : List Ev :=
  [.prepare 1 0, .override 1 0 [(0, 10), (1, 50)], .start 1, .write 0 2 7,
   .prepare 2 1, .override 2 0 [(0, 20)], .override 2 1 [(1, 60)], .start 2, .write 1 2 3, .stop 2,
   .override 1 0 [(0, 11)],
   .prepare 3 1, .override 3 0 [(0, 30)], .start 3,
   .stop 1]

def nestedStart : St :=
  { w := (World.zero.enable 0).enable 1,
    frames := [{ id := 0, anc := [], status := .running, saved := [] }], objs := [0, 1] }

example : discAll cfgNested 1 0 0 nestedStart nestedRun = true ∧
    (∀ f ∈ (run cfgNested nestedStart nestedRun).frames.drop 1, isLive f = false) ∧
    (run cfgNested nestedStart nestedRun).w.read 0 0 = 0 := by decide

end Scenic.C14
