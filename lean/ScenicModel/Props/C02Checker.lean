import ScenicModel.Model.Checker
import ScenicModel.Gen.CheckerCfg

/-! # C02 (part 1): whatever order, subset or shortcut of checks the sampler chooses, an accepted sample
satisfies every active non-optional requirement.

All theorems quantify over an *arbitrary* key function (hence every order the time/acceptance statistics
could ever induce), an arbitrary checker state (hence every history of earlier samples), arbitrary
measured times and arbitrary requirement lists.  Core Lean only. -/
namespace Scenic.C02
open Scenic.Checker

/-! ## the trailing-optional pop -/

theorem mem_takeWhile_imp {α} {p : α → Bool} {x : α} : ∀ {l : List α}, x ∈ l.takeWhile p → p x = true
  | [], h => by simp at h
  | a :: l, h => by
    by_cases hp : p a = true
    · rw [List.takeWhile_cons_of_pos hp] at h
      rcases List.mem_cons.mp h with rfl | h
      · exact hp
      · exact mem_takeWhile_imp h
    · rw [List.takeWhile_cons_of_neg hp] at h; simp at h

theorem mem_dropWhile_or {α} (p : α → Bool) (l : List α) {x : α} (hx : x ∈ l) :
    x ∈ l.dropWhile p ∨ p x = true := by
  have h := @List.takeWhile_append_dropWhile α p l
  rw [← h] at hx
  rcases List.mem_append.mp hx with h1 | h1
  · exact Or.inr (mem_takeWhile_imp h1)
  · exact Or.inl h1

/-- nothing is invented by the pop loop -/
theorem popLoop_subset (p : Req → Bool) (t f : End) (l : List Req) {x : Req}
    (hx : x ∈ popLoop p t f l) : x ∈ l := by
  unfold popLoop at hx
  cases t <;> cases f <;> simp only at hx
  · exact (List.dropWhile_sublist p).subset hx
  · cases hh : l.head? with
    | none => rw [hh] at hx; simp at hx
    | some r =>
      rw [hh] at hx
      by_cases hp : p r = true
      · simp [hp] at hx
      · simp [hp] at hx; exact hx
  · cases hh : l.getLast? with
    | none => rw [hh] at hx; simp at hx
    | some r =>
      rw [hh] at hx
      by_cases hp : p r = true
      · simp [hp] at hx
      · simp [hp] at hx; exact hx
  · have := (List.dropWhile_sublist p).subset (List.mem_reverse.mp hx)
    exact List.mem_reverse.mp this

/-- when the loop tests the end it pops from, everything it removes satisfies the loop condition -/
theorem popLoop_removed (p : Req → Bool) (e : End) (l : List Req) {x : Req}
    (hx : x ∈ l) (hnot : x ∉ popLoop p e e l) : p x = true := by
  unfold popLoop at hnot
  cases e <;> simp only at hnot
  · rcases mem_dropWhile_or p l hx with h | h
    · exact absurd h hnot
    · exact h
  · rcases mem_dropWhile_or p l.reverse (List.mem_reverse.mpr hx) with h | h
    · exact absurd (List.mem_reverse.mpr h) hnot
    · exact h

/-! ## the stable sort -/

theorem insertBy_perm {α} (le : α → α → Bool) (a : α) : ∀ l : List α, (insertBy le a l).Perm (a :: l)
  | [] => List.Perm.refl _
  | b :: l => by
    unfold insertBy
    by_cases h : le a b = true
    · simp only [h, if_true]; exact List.Perm.refl _
    · simp only [h]
      exact ((insertBy_perm le a l).cons b).trans (List.Perm.swap a b l)

/-- the sort only permutes: nothing is dropped, duplicated or invented, whatever the comparison -/
theorem stableSort_perm {α} (le : α → α → Bool) : ∀ l : List α, (stableSort le l).Perm l
  | [] => List.Perm.refl _
  | a :: l => by
    unfold stableSort
    exact (insertBy_perm le a _).trans ((stableSort_perm le l).cons a)

theorem mem_stableSort {α} {le : α → α → Bool} {l : List α} {x : α} : x ∈ stableSort le l ↔ x ∈ l :=
  (stableSort_perm le l).mem_iff

/-- `Cfg.WF` spelled out -/
theorem wf_parts (c : Cfg) (h : c.WF = true) :
    c.wFilter = .active ∧
    (c.wPopPred = none ∨ (c.wPopPred = some .optional ∧ c.wPopTest = c.wPopFrom)) ∧
    c.wRejectWhen = true ∧ c.wFallthroughAccepts = true ∧ c.bGuardActive = true ∧ c.bRejectWhen = true ∧
    c.bFallthroughAccepts = true ∧ c.bKeepMandatory = true ∧ c.catchRejects = true := by
  simp only [Cfg.WF, Bool.and_eq_true, Bool.or_eq_true, beq_iff_eq] at h
  obtain ⟨⟨⟨⟨⟨⟨⟨⟨h1, h2⟩, h3⟩, h4⟩, h5⟩, h6⟩, h7⟩, h8⟩, h9⟩ := h
  exact ⟨h1, h2, h3, h4, h5, h6, h7, h8, h9⟩

/-! ## sortedRequirements -/

/-- everything `sortedRequirements` returns is a requirement that passed the filter -/
theorem sorted_subset (c : Cfg) (key : Req → Cost) (reqs : List Req) {x : Req}
    (hx : x ∈ sortedRequirements c key reqs) : x ∈ reqs ∧ c.wFilter.eval x = true := by
  unfold sortedRequirements at hx
  simp only at hx
  cases hp : c.wPopPred with
  | none =>
    rw [hp] at hx
    exact List.mem_filter.mp (mem_stableSort.mp hx)
  | some p =>
    rw [hp] at hx
    exact List.mem_filter.mp (mem_stableSort.mp (popLoop_subset _ _ _ _ hx))

/-- **optional_only_popped**: an active requirement missing from the evaluation order is optional —
    for every key function, i.e. for every order the statistics can induce. -/
theorem optional_only_popped (c : Cfg) (hc : c.WF = true) (key : Req → Cost) (reqs : List Req)
    {r : Req} (hr : r ∈ reqs) (hact : r.active = true)
    (hmiss : r ∉ sortedRequirements c key reqs) : r.optional = true := by
  obtain ⟨hf, hpop, _⟩ := wf_parts c hc
  have hmem : r ∈ stableSort
      (fun a b => if c.wSortReverse then Cost.le (key b) (key a) else Cost.le (key a) (key b))
      (reqs.filter c.wFilter.eval) := by
    apply mem_stableSort.mpr
    apply List.mem_filter.mpr
    refine ⟨hr, ?_⟩
    rw [hf]; exact hact
  unfold sortedRequirements at hmiss
  simp only at hmiss
  rcases hpop with hnone | ⟨hsome, hends⟩
  · rw [hnone] at hmiss; exact absurd hmem hmiss
  · rw [hsome] at hmiss
    simp only at hmiss
    rw [hends] at hmiss
    exact popLoop_removed _ _ _ hmem hmiss

/-! ## the evaluation loop -/

/-- with the `except RejectionException as e: return e` handler, an accepted sample had every requirement of the
    evaluation order evaluated to completion, and none of them falsified -/
theorem evalLoop_accept (rw ft : Bool) (fals : Nat → Option Bool) :
    ∀ (l : List Req) (ev : List (Nat × Bool)), evalLoop rw ft true fals l = (ev, .accept) →
      ∀ r ∈ l, r.active = true ∧ ∃ f, fals r.id = some f ∧ f ≠ rw
  | [], _, _, r, hr => by simp at hr
  | a :: l, ev, h, r, hr => by
    unfold evalLoop at h
    by_cases ha : a.active = true
    · simp only [ha, Bool.not_true, Bool.false_eq_true, if_false] at h
      cases hfa : fals a.id with
      | none => simp [hfa, onRaise] at h
      | some f =>
        simp only [hfa] at h
        by_cases hf : (f == rw) = true
        · simp [hf] at h
        · simp only [hf] at h
          generalize hrec : evalLoop rw ft true fals l = res at h
          obtain ⟨ev', out'⟩ := res
          simp only [Bool.false_eq_true, if_false, Prod.mk.injEq] at h
          obtain ⟨_, hout⟩ := h
          subst hout
          rcases List.mem_cons.mp hr with rfl | hr'
          · exact ⟨ha, f, hfa, by simpa using hf⟩
          · exact evalLoop_accept rw ft fals l ev' hrec r hr'
    · simp [ha] at h

theorem evalLoop_reject (rw ct : Bool) (fals : Nat → Option Bool) :
    ∀ (l : List Req) (ev : List (Nat × Bool)) (id : Nat), evalLoop rw true ct fals l = (ev, .reject id) →
      ∃ r ∈ l, r.id = id ∧ r.active = true ∧ fals r.id = some rw
  | [], _, _, h => by simp [evalLoop] at h
  | a :: l, ev, id, h => by
    unfold evalLoop at h
    by_cases ha : a.active = true
    · simp only [ha, Bool.not_true, Bool.false_eq_true, if_false] at h
      cases hfa : fals a.id with
      | none =>
        simp only [hfa, onRaise] at h
        cases ct <;> simp at h
      | some f =>
        simp only [hfa] at h
        by_cases hf : (f == rw) = true
        · simp only [hf, if_true, Prod.mk.injEq, Outcome.reject.injEq] at h
          exact ⟨a, List.mem_cons_self, h.2, ha, by rw [hfa]; simpa using hf⟩
        · simp only [hf] at h
          generalize hrec : evalLoop rw true ct fals l = res at h
          obtain ⟨ev', out'⟩ := res
          simp only [Bool.false_eq_true, if_false, Prod.mk.injEq] at h
          obtain ⟨_, hout⟩ := h
          subst hout
          obtain ⟨r, hr, h1, h2, h3⟩ := evalLoop_reject rw ct fals l ev' id hrec
          exact ⟨r, List.mem_cons_of_mem _ hr, h1, h2, h3⟩
    · simp [ha] at h

/-- a rejection "by exception" names an active requirement whose evaluation raised -/
theorem evalLoop_rejectExc (rw ct : Bool) (fals : Nat → Option Bool) :
    ∀ (l : List Req) (ev : List (Nat × Bool)) (id : Nat), evalLoop rw true ct fals l = (ev, .rejectExc id) →
      ∃ r ∈ l, r.id = id ∧ r.active = true ∧ fals r.id = none
  | [], _, _, h => by simp [evalLoop] at h
  | a :: l, ev, id, h => by
    unfold evalLoop at h
    by_cases ha : a.active = true
    · simp only [ha, Bool.not_true, Bool.false_eq_true, if_false] at h
      cases hfa : fals a.id with
      | none =>
        simp only [hfa, onRaise] at h
        cases ct
        · simp at h
        · simp only [if_true, Prod.mk.injEq, Outcome.rejectExc.injEq] at h
          exact ⟨a, List.mem_cons_self, h.2, ha, hfa⟩
      | some f =>
        simp only [hfa] at h
        by_cases hf : (f == rw) = true
        · simp [hf] at h
        · simp only [hf] at h
          generalize hrec : evalLoop rw true ct fals l = res at h
          obtain ⟨ev', out'⟩ := res
          simp only [Bool.false_eq_true, if_false, Prod.mk.injEq] at h
          obtain ⟨_, hout⟩ := h
          subst hout
          obtain ⟨r, hr, h1, h2, h3⟩ := evalLoop_rejectExc rw ct fals l ev' id hrec
          exact ⟨r, List.mem_cons_of_mem _ hr, h1, h2, h3⟩
    · simp [ha] at h

theorem evalLoop_no_crash (rw ft ct : Bool) (fals : Nat → Option Bool) :
    ∀ (l : List Req), (∀ r ∈ l, r.active = true) → (evalLoop rw ft ct fals l).2 ≠ .crash
  | [], _ => by unfold evalLoop; split <;> simp
  | a :: l, hall => by
    have ha : a.active = true := hall a List.mem_cons_self
    unfold evalLoop
    simp only [ha, Bool.not_true, Bool.false_eq_true, if_false]
    cases hfa : fals a.id with
    | none => simp only [onRaise]; cases ct <;> simp
    | some f =>
      simp only
      by_cases hf : (f == rw) = true
      · simp [hf]
      · simp only [hf, Bool.false_eq_true, if_false]
        exact evalLoop_no_crash rw ft ct fals l (fun r hr => hall r (List.mem_cons_of_mem _ hr))

/-- the evaluated ids are a prefix of the order, each evaluated exactly where it stands -/
theorem evalLoop_prefix (rw ft ct : Bool) (fals : Nat → Option Bool) :
    ∀ (l : List Req), ((evalLoop rw ft ct fals l).1.map Prod.fst) <+: (l.map (·.id))
  | [] => by unfold evalLoop; simp
  | a :: l => by
    unfold evalLoop
    by_cases ha : a.active = true
    · simp only [ha, Bool.not_true, Bool.false_eq_true, if_false]
      cases hfa : fals a.id with
      | none => simp
      | some f =>
        simp only
        by_cases hf : (f == rw) = true
        · simp only [hf, if_true, List.map_cons, List.map_nil]
          exact ⟨l.map (·.id), by simp⟩
        · simp only [hf, Bool.false_eq_true, if_false, List.map_cons]
          obtain ⟨t, ht⟩ := evalLoop_prefix rw ft ct fals l
          exact ⟨t, by simp [← ht]⟩
    · simp [ha]

/-! ## WeightedAcceptanceChecker -/

/-- **accept_sound** (weighted checker): if the check returns `None`, every active non-optional
    requirement was evaluated to completion and is not falsified by the sample — for every key function
    (every permutation the running time / acceptance statistics can produce), every requirement list, and
    whether or not trailing optional requirements were dropped. -/
theorem weighted_accept_sound (c : Cfg) (hc : c.WF = true) (key : Req → Cost) (reqs : List Req)
    (fals : Nat → Option Bool) (ev : List (Nat × Bool))
    (h : weightedDecide c key reqs fals = (ev, .accept)) :
    ∀ r ∈ reqs, r.active = true → r.optional = false → fals r.id = some false := by
  intro r hr hact hopt
  have hrw : c.wRejectWhen = true := (wf_parts c hc).2.2.1
  have hct : c.catchRejects = true := (wf_parts c hc).2.2.2.2.2.2.2.2
  unfold weightedDecide at h
  rw [hct] at h
  have hall := evalLoop_accept _ _ _ _ _ h
  have fin : ∀ x : Req, (x.active = true ∧ ∃ f, fals x.id = some f ∧ f ≠ c.wRejectWhen) → fals x.id = some false := by
    intro x hx
    obtain ⟨_, f, hf, hne⟩ := hx
    rw [hrw] at hne
    rw [hf]; cases f <;> simp_all
  by_cases hs : c.wLoopSorted = true
  · simp only [hs, if_true] at hall
    by_cases hin : r ∈ sortedRequirements c key reqs
    · exact fin r (hall r hin)
    · have := optional_only_popped c hc key reqs hr hact hin
      rw [hopt] at this; exact absurd this (by simp)
  · simp only [hs] at hall
    exact fin r (hall r hr)

/-- **reject_sound**: a rejection names an active requirement of the list that the sample falsifies
    (no sample is rejected without cause) -/
theorem weighted_reject_sound (c : Cfg) (hc : c.WF = true) (key : Req → Cost) (reqs : List Req)
    (fals : Nat → Option Bool) (ev : List (Nat × Bool)) (id : Nat)
    (h : weightedDecide c key reqs fals = (ev, .reject id)) :
    ∃ r ∈ reqs, r.id = id ∧ r.active = true ∧ fals r.id = some true := by
  have hrw : c.wRejectWhen = true := (wf_parts c hc).2.2.1
  have hft : c.wFallthroughAccepts = true := (wf_parts c hc).2.2.2.1
  unfold weightedDecide at h
  rw [hft] at h
  obtain ⟨r, hr, h1, h2, h3⟩ := evalLoop_reject _ _ _ _ _ _ h
  rw [hrw] at h3
  refine ⟨r, ?_, h1, h2, h3⟩
  by_cases hs : c.wLoopSorted = true
  · simp only [hs, if_true] at hr; exact (sorted_subset c key reqs hr).1
  · simp only [hs] at hr; exact hr

/-- …and a rejection caused by a RejectionException names an active requirement whose evaluation raised it -/
theorem weighted_rejectExc_sound (c : Cfg) (hc : c.WF = true) (key : Req → Cost) (reqs : List Req)
    (fals : Nat → Option Bool) (ev : List (Nat × Bool)) (id : Nat)
    (h : weightedDecide c key reqs fals = (ev, .rejectExc id)) :
    ∃ r ∈ reqs, r.id = id ∧ r.active = true ∧ fals r.id = none := by
  have hft : c.wFallthroughAccepts = true := (wf_parts c hc).2.2.2.1
  unfold weightedDecide at h
  rw [hft] at h
  obtain ⟨r, hr, h1, h2, h3⟩ := evalLoop_rejectExc _ _ _ _ _ _ h
  refine ⟨r, ?_, h1, h2, h3⟩
  by_cases hs : c.wLoopSorted = true
  · simp only [hs, if_true] at hr; exact (sorted_subset c key reqs hr).1
  · simp only [hs] at hr; exact hr

/-- the weighted checker never evaluates an inactive requirement (no AssertionError from `falsifiedBy`) -/
theorem weighted_no_crash (c : Cfg) (hc : c.WF = true) (hs : c.wLoopSorted = true) (key : Req → Cost)
    (reqs : List Req) (fals : Nat → Option Bool) : (weightedDecide c key reqs fals).2 ≠ .crash := by
  have hf : c.wFilter = .active := (wf_parts c hc).1
  unfold weightedDecide
  simp only [hs, if_true]
  apply evalLoop_no_crash
  intro r hr
  have := (sorted_subset c key reqs hr).2
  rw [hf] at this; exact this

/-- the statistics only influence *which* requirements are evaluated before the verdict, never the
    verdict "accept": the state-threading call agrees with the pure decision -/
theorem weightedCheck_outcome (c : Cfg) (B : Nat) (st : State) (reqs : List Req) (fals : Nat → Option Bool)
    (times : List Rat) :
    (weightedCheck c B st reqs fals times).2 = weightedDecide c (st.key B) reqs fals := by
  unfold weightedCheck
  generalize weightedDecide c (st.key B) reqs fals = res
  obtain ⟨ev, out⟩ := res
  rfl

/-! ## BasicChecker -/

theorem basicLoop_accept (c : Cfg) (hg : c.bGuardActive = true) (hct : c.catchRejects = true)
    (fals : Nat → Option Bool) :
    ∀ (l : List Req) (ev : List (Nat × Bool)), basicLoop c fals l = (ev, .accept) →
      ∀ r ∈ l, r.active = true → ∃ f, fals r.id = some f ∧ f ≠ c.bRejectWhen
  | [], _, _, r, hr, _ => by simp at hr
  | a :: l, ev, h, r, hr, hact => by
    unfold basicLoop at h
    by_cases ha : a.active = true
    · simp only [hg, ha, Bool.not_true, Bool.and_false, Bool.false_eq_true, if_false] at h
      cases hfa : fals a.id with
      | none => simp [hfa, onRaise, hct] at h
      | some f =>
        simp only [hfa] at h
        by_cases hf : (f == c.bRejectWhen) = true
        · simp [hf] at h
        · simp only [hf] at h
          generalize hrec : basicLoop c fals l = res at h
          obtain ⟨ev', out'⟩ := res
          simp only [Bool.false_eq_true, if_false, Prod.mk.injEq] at h
          obtain ⟨_, hout⟩ := h
          subst hout
          rcases List.mem_cons.mp hr with rfl | hr'
          · exact ⟨f, hfa, by simpa using hf⟩
          · exact basicLoop_accept c hg hct fals l ev' hrec r hr' hact
    · have ha' : a.active = false := by simpa using ha
      simp only [hg, ha', Bool.not_false, Bool.and_true, if_true] at h
      rcases List.mem_cons.mp hr with rfl | hr'
      · rw [ha'] at hact; exact absurd hact (by simp)
      · exact basicLoop_accept c hg hct fals l ev h r hr' hact

/-- with the `req.active and …` guard the basic checker never evaluates an inactive requirement -/
theorem basic_no_crash (c : Cfg) (hg : c.bGuardActive = true) (fals : Nat → Option Bool) :
    ∀ (l : List Req), (basicLoop c fals l).2 ≠ .crash
  | [] => by unfold basicLoop; split <;> simp
  | a :: l => by
    unfold basicLoop
    by_cases ha : a.active = true
    · simp only [hg, ha, Bool.not_true, Bool.and_false, Bool.false_eq_true, if_false]
      cases hfa : fals a.id with
      | none => simp only [onRaise]; cases c.catchRejects <;> simp
      | some f =>
        simp only
        by_cases hf : (f == c.bRejectWhen) = true
        · simp [hf]
        · simp only [hf, Bool.false_eq_true, if_false]
          exact basic_no_crash c hg fals l
    · have ha' : a.active = false := by simpa using ha
      simp only [hg, ha', Bool.not_false, Bool.and_true, if_true]
      exact basic_no_crash c hg fals l

/-- **accept_sound** (basic checker): `setRequirements` keeps every non-optional requirement and the loop
    checks every active one -/
theorem basic_accept_sound (c : Cfg) (hc : c.WF = true) (icc : Bool) (isBlanket isInter : Nat → Bool)
    (reqs : List Req) (fals : Nat → Option Bool) (ev : List (Nat × Bool))
    (h : basicLoop c fals (basicSelect c icc isBlanket isInter reqs) = (ev, .accept)) :
    ∀ r ∈ reqs, r.active = true → r.optional = false → fals r.id = some false := by
  intro r hr hact hopt
  obtain ⟨_, _, _, _, hg, hrw, _, hk, hct⟩ := wf_parts c hc
  have hsel : r ∈ basicSelect c icc isBlanket isInter reqs := by
    unfold basicSelect
    apply List.mem_filter.mpr
    refine ⟨hr, ?_⟩
    simp [hopt, hk]
  obtain ⟨f, hf, hne⟩ := basicLoop_accept c hg hct fals _ ev h r hsel hact
  rw [hrw] at hne
  rw [hf]; cases f <;> simp_all

/-! ## the rejection loop, for every checker and every history -/

/-- the rejection loop over *any* checker whose "accept" guarantees `P`: whatever the checker's state was when
    generation started, whatever candidates are drawn, the candidate returned was actually sampled and has `P` -/
theorem generateWith_sound {σ : Type} (check : σ → Attempt → σ × Outcome) (P : Attempt → Prop)
    (hcheck : ∀ st a st', check st a = (st', .accept) → P a) :
    ∀ (atts : List Attempt) (st : σ) (k : Nat) (st' : σ) (j : Nat),
      generateWith check st atts k = (st', some j) →
      ∃ a, atts[j - k]? = some a ∧ k ≤ j ∧ a.sampleRejected = false ∧ P a
  | [], st, k, st', j, h => by simp [generateWith] at h
  | a :: as, st, k, st', j, h => by
    have step : ∀ st1, generateWith check st1 as (k + 1) = (st', some j) →
        ∃ b, (a :: as)[j - k]? = some b ∧ k ≤ j ∧ b.sampleRejected = false ∧ P b := by
      intro st1 h1
      obtain ⟨b, hb, hk, hrest⟩ := generateWith_sound check P hcheck as st1 (k + 1) st' j h1
      refine ⟨b, ?_, by omega, hrest⟩
      have : j - k = (j - (k + 1)) + 1 := by omega
      rw [this]; simpa using hb
    unfold generateWith at h
    by_cases hs : a.sampleRejected = true
    · simp only [hs, if_true] at h
      exact step st h
    · simp only [hs] at h
      generalize hw : check st a = res at h
      obtain ⟨st1, out⟩ := res
      cases out with
      | accept =>
        simp only [Bool.false_eq_true, if_false, Prod.mk.injEq, Option.some.injEq] at h
        obtain ⟨_, hj⟩ := h
        subst hj
        exact ⟨a, by simp, Nat.le_refl _, by simpa using hs, hcheck st a st1 hw⟩
      | reject id => simp only [Bool.false_eq_true, if_false] at h; exact step st1 h
      | rejectExc id => simp only [Bool.false_eq_true, if_false] at h; exact step st1 h
      | crash => simp at h

/-- …and every earlier candidate was refused by the checker or during sampling -/
theorem generateWith_earlier {σ : Type} (check : σ → Attempt → σ × Outcome) (Q : Attempt → Prop)
    (hcheck : ∀ st a st' id, (check st a = (st', .reject id) ∨ check st a = (st', .rejectExc id)) → Q a) :
    ∀ (atts : List Attempt) (st : σ) (k : Nat) (st' : σ) (j : Nat),
      generateWith check st atts k = (st', some j) →
      ∀ i, i < j - k → ∃ a, atts[i]? = some a ∧ (a.sampleRejected = true ∨ Q a)
  | [], st, k, st', j, h => by simp [generateWith] at h
  | a :: as, st, k, st', j, h => by
    intro i hi
    unfold generateWith at h
    by_cases hs : a.sampleRejected = true
    · simp only [hs, if_true] at h
      cases i with
      | zero => exact ⟨a, by simp, Or.inl hs⟩
      | succ i =>
        obtain ⟨b, hb, hrest⟩ := generateWith_earlier check Q hcheck as st (k + 1) st' j h i (by omega)
        exact ⟨b, by simpa using hb, hrest⟩
    · simp only [hs] at h
      generalize hw : check st a = res at h
      obtain ⟨st1, out⟩ := res
      cases out with
      | accept =>
        simp only [Bool.false_eq_true, if_false, Prod.mk.injEq, Option.some.injEq] at h
        obtain ⟨_, hj⟩ := h
        omega
      | reject id =>
        simp only [Bool.false_eq_true, if_false] at h
        cases i with
        | zero => exact ⟨a, by simp, Or.inr (hcheck st a st1 id (Or.inl hw))⟩
        | succ i =>
          obtain ⟨b, hb, hrest⟩ := generateWith_earlier check Q hcheck as st1 (k + 1) st' j h i (by omega)
          exact ⟨b, by simpa using hb, hrest⟩
      | rejectExc id =>
        simp only [Bool.false_eq_true, if_false] at h
        cases i with
        | zero => exact ⟨a, by simp, Or.inr (hcheck st a st1 id (Or.inr hw))⟩
        | succ i =>
          obtain ⟨b, hb, hrest⟩ := generateWith_earlier check Q hcheck as st1 (k + 1) st' j h i (by omega)
          exact ⟨b, by simpa using hb, hrest⟩
      | crash => simp at h

theorem weightedStep_decide (c : Cfg) (B : Nat) (reqs : List Req) (st st' : State) (a : Attempt) (out : Outcome)
    (h : weightedStep c B reqs st a = (st', out)) :
    ∃ ev, weightedDecide c (st.key B) reqs a.fals = (ev, out) := by
  unfold weightedStep at h
  have := weightedCheck_outcome c B st reqs a.fals a.times
  generalize weightedCheck c B st reqs a.fals a.times = res at h this
  obtain ⟨s1, ev, o⟩ := res
  simp only [Prod.mk.injEq] at h
  obtain ⟨_, ho⟩ := h
  subst ho
  exact ⟨ev, this.symm⟩

/-- **generate_sound**: whatever the checker's statistics were when generation started (every history of
    earlier samples and scenes), whatever candidates are drawn and however long each check takes, the
    candidate that `_generateInner` returns was actually sampled and every active non-optional
    requirement was evaluated on it and is not falsified. -/
theorem generate_sound (c : Cfg) (hc : c.WF = true) (B : Nat) (reqs : List Req)
    (atts : List Attempt) (st : State) (k : Nat) (st' : State) (j : Nat)
    (h : generateInner c B reqs st atts k = (st', some j)) :
    ∃ a, atts[j - k]? = some a ∧ k ≤ j ∧ a.sampleRejected = false ∧
      ∀ r ∈ reqs, r.active = true → r.optional = false → a.fals r.id = some false := by
  apply generateWith_sound (weightedStep c B reqs)
    (fun a => ∀ r ∈ reqs, r.active = true → r.optional = false → a.fals r.id = some false) ?_ atts st k st' j h
  intro s a s' hs
  obtain ⟨ev, hd⟩ := weightedStep_decide c B reqs s s' a _ hs
  exact weighted_accept_sound c hc _ reqs a.fals ev hd

/-- every earlier candidate was refused for a reason: it was rejected during sampling, falsifies an
    active requirement, or the evaluation of an active requirement raised RejectionException -/
theorem generate_rejections_justified (c : Cfg) (hc : c.WF = true) (B : Nat) (reqs : List Req)
    (atts : List Attempt) (st : State) (k : Nat) (st' : State) (j : Nat)
    (h : generateInner c B reqs st atts k = (st', some j)) :
    ∀ i, i < j - k → ∃ a, atts[i]? = some a ∧
      (a.sampleRejected = true ∨ ∃ r ∈ reqs, r.active = true ∧ (a.fals r.id = some true ∨ a.fals r.id = none)) := by
  apply generateWith_earlier (weightedStep c B reqs)
    (fun a => ∃ r ∈ reqs, r.active = true ∧ (a.fals r.id = some true ∨ a.fals r.id = none)) ?_ atts st k st' j h
  intro s a s' id hs
  rcases hs with hs | hs
  · obtain ⟨ev, hd⟩ := weightedStep_decide c B reqs s s' a _ hs
    obtain ⟨r, hr, _, h2, h3⟩ := weighted_reject_sound c hc _ reqs a.fals ev id hd
    exact ⟨r, hr, h2, Or.inl h3⟩
  · obtain ⟨ev, hd⟩ := weightedStep_decide c B reqs s s' a _ hs
    obtain ⟨r, hr, _, h2, h3⟩ := weighted_rejectExc_sound c hc _ reqs a.fals ev id hd
    exact ⟨r, hr, h2, Or.inr h3⟩

/-- **generate_sound** for a scenario whose checker was replaced by a `BasicChecker`
    (`Scenario.setSampleChecker`) -/
theorem generate_sound_basic (c : Cfg) (hc : c.WF = true) (icc : Bool) (isBlanket isInter : Nat → Bool)
    (reqs : List Req) (atts : List Attempt) (j : Nat)
    (h : generateInnerBasic c icc isBlanket isInter reqs atts = some j) :
    ∃ a, atts[j]? = some a ∧ a.sampleRejected = false ∧
      ∀ r ∈ reqs, r.active = true → r.optional = false → a.fals r.id = some false := by
  unfold generateInnerBasic at h
  generalize hg : generateWith (basicStep c (basicSelect c icc isBlanket isInter reqs)) () atts 0 = res at h
  obtain ⟨u, o⟩ := res
  simp only at h
  subst h
  have hchk : ∀ (s : Unit) (a : Attempt) (s' : Unit),
      basicStep c (basicSelect c icc isBlanket isInter reqs) s a = (s', .accept) →
      ∀ r ∈ reqs, r.active = true → r.optional = false → a.fals r.id = some false := by
    intro s a s' hs
    unfold basicStep at hs
    generalize hb : basicLoop c a.fals (basicSelect c icc isBlanket isInter reqs) = res at hs
    obtain ⟨ev, out⟩ := res
    simp only [Prod.mk.injEq] at hs
    obtain ⟨_, hs⟩ := hs
    subst hs
    exact basic_accept_sound c hc icc isBlanket isInter reqs a.fals ev hb
  obtain ⟨a, ha, _, hs, hP⟩ := generateWith_sound (basicStep c (basicSelect c icc isBlanket isInter reqs))
    (fun a => ∀ r ∈ reqs, r.active = true → r.optional = false → a.fals r.id = some false) hchk atts () 0 u j hg
  exact ⟨a, by simpa using ha, hs, hP⟩

theorem mem_setActive {isUser act : Nat → Bool} {reqs : List Req} {r : Req} (hr : r ∈ reqs) :
    (if isUser r.id then { r with active := act r.id } else r) ∈ setActive isUser act reqs := by
  unfold setActive
  exact List.mem_map.mpr ⟨r, hr, rfl⟩

/-- **generateBatch_sound**: scenes generated one after another by the same checker (its statistics,
    hence its evaluation order and its skipping of optional checks, evolve from scene to scene): every
    scene returned satisfies every built-in non-optional requirement and every user requirement selected
    for that scene. -/
theorem generateBatch_sound (c : Cfg) (hc : c.WF = true) (B : Nat) (isUser : Nat → Bool) (reqs : List Req) :
    ∀ (scenes : List ((Nat → Bool) × List Attempt)) (st : State) (n : Nat) (j : Nat),
      (generateBatch c B isUser reqs st scenes)[n]? = some (some j) →
      ∃ act atts a, scenes[n]? = some (act, atts) ∧ atts[j]? = some a ∧ a.sampleRejected = false ∧
        ∀ r ∈ reqs, r.optional = false →
          ((isUser r.id = false ∧ r.active = true) ∨ (isUser r.id = true ∧ act r.id = true)) →
          a.fals r.id = some false
  | [], st, n, j, h => by simp [generateBatch] at h
  | (act, atts) :: rest, st, n, j, h => by
    unfold generateBatch at h
    generalize hg : generateInner c B (setActive isUser act reqs) st atts 0 = res at h
    obtain ⟨st', r0⟩ := res
    cases n with
    | zero =>
      simp only [List.getElem?_cons_zero, Option.some.injEq] at h
      subst h
      obtain ⟨a, ha, _, hs, hall⟩ := generate_sound c hc B _ atts st 0 st' j hg
      refine ⟨act, atts, a, by simp, by simpa using ha, hs, ?_⟩
      intro r hr hopt hsel
      have hm := mem_setActive (isUser := isUser) (act := act) hr
      rcases hsel with ⟨hu, hact⟩ | ⟨hu, hact⟩
      · simp only [hu, Bool.false_eq_true, if_false] at hm
        exact hall r hm hact hopt
      · simp only [hu, if_true] at hm
        exact hall { r with active := act r.id } hm hact hopt
    | succ n =>
      simp only [List.getElem?_cons_succ] at h
      obtain ⟨act', atts', a, h1, h2⟩ := generateBatch_sound c hc B isUser reqs rest st' n j h
      exact ⟨act', atts', a, by simpa using h1, h2⟩

/-! ## activation of requirements -/

/-- a hard requirement (`prob = 1`) is selected for every sample: `random.random()` returns `u ∈ [0, 1)` -/
theorem hard_requirement_always_active (cmpLe : Bool) (u : Rat) (hu : u < 1) :
    activates cmpLe u 1 = true := by
  unfold activates
  cases cmpLe
  · simpa using hu
  · simpa using Rat.le_of_lt hu

/-! ## side conditions on the data regenerated from /repo -/

/-- the configuration extracted from sample_checking.py satisfies the hypotheses of the theorems above -/
theorem gen_checker_wf : Scenic.Gen.checkerCfg.WF = true := by decide

/-- …and the weighted checker iterates over `sortedRequirements()` (no crash on inactive requirements) -/
theorem gen_checker_loop_sorted : Scenic.Gen.checkerCfg.wLoopSorted = true := by decide

/-! ## the hypotheses are satisfiable / the statements are not vacuous -/

def exReqs : List Req := [⟨0, true, true⟩, ⟨1, false, true⟩, ⟨2, false, false⟩, ⟨3, false, true⟩]

/-- a run in which the optional requirement 0 is sorted last and popped although the sample falsifies it,
    and the sample is accepted -/
example : weightedDecide Scenic.Gen.checkerCfg
      (fun r => if r.id = 0 then (none, 5) else (some (r.id : Rat), 0)) exReqs (fun i => some (i == 0 || i == 2))
    = ([(1, false), (3, false)], .accept) := by decide +kernel

/-- the same sample with the optional requirement sorted first is rejected by it -/
example : weightedDecide Scenic.Gen.checkerCfg
      (fun r => (some (r.id : Rat), 0)) exReqs (fun i => some (i == 0 || i == 2))
    = ([(0, true)], .reject 0) := by decide +kernel

/-- negation witness for a checker that pops *mandatory* trailing requirements: it accepts a sample
    falsifying requirement 3 -/
theorem pop_mandatory_unsound :
    weightedDecide { Scenic.Gen.checkerCfg with wPopPred := some .notOptional }
      (fun r => (some (r.id : Rat), 0)) exReqs (fun i => some (i == 3)) = ([(0, false)], .accept) := by
  decide +kernel

end Scenic.C02
