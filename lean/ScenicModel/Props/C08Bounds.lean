import ScenicModel.Lemmas.Pruning

/-!
C08 (part 1): bound extraction from requirement syntax (`relations.py`).

For every dispatch table satisfying the decidable predicate `Dispatch.WF` (re-decided on the table
regenerated from the source), every comparison chain, and every assignment of values to the
quantities: if the requirement is true then every matched quantity lies inside the interval the
matcher extracted; and if the matcher raises `InconsistentScenarioError` the requirement is false
under every assignment.
-/
namespace Scenic.Pruning

theorem Expr.val_of_cval {e : Env} {x : Expr} (hok : x.Ok e) {c : Rat} (hc : x.cval = some c) :
    x.val e = c := by
  cases x with
  | leaf l => exact hok c hc
  | abs1 l =>
    simp only [Expr.cval, Option.map_eq_some_iff] at hc
    obtain ⟨a, ha, rfl⟩ := hc
    simp only [Expr.val, hok a ha]
  | absBin op l r =>
    simp only [Expr.cval] at hc
    split at hc
    · next x y hx hy =>
      simp only [Option.some.injEq] at hc
      subst hc
      simp only [Expr.val, hok.1 x hx, hok.2 y hy]
    · simp at hc

theorem Expr.val_of_atom {e : Env} {x : Expr} {t : Nat} (ht : x.atom = some t) : x.val e = e.q t := by
  cases x with
  | leaf l =>
    simp only [Expr.atom] at ht
    simp only [Expr.val, Leaf.val, ht]
  | abs1 l => simp [Expr.atom] at ht
  | absBin op l r => simp [Expr.atom] at ht

theorem Leaf.val_of_atom {e : Env} {l : Leaf} {t : Nat} (ht : l.atom = some t) : l.val e = e.q t := by
  simp only [Leaf.val, ht]

theorem absGuarded_bound {D : Dispatch} (h : D.WFP) {c : Rat} {op : CmpOp} {isUpper : Bool} {k : Res}
    {lo hi : Option Rat} {t : Nat} (hk : absGuarded D c op isUpper k = .bound lo hi t) :
    k = .bound lo hi t ∧ (isUpper = true ∨ op = .eq) := by
  unfold absGuarded at hk
  rw [h.guardFirst] at hk
  simp only [if_true] at hk
  split at hk
  · simp at hk
  · next hg =>
    split at hk
    · simp at hk
    · refine ⟨hk, ?_⟩
      cases isUpper with
      | true => exact Or.inl rfl
      | false =>
        simp only [Bool.not_false, Bool.true_and, Bool.not_eq_true', Bool.not_eq_false] at hg
        exact Or.inr (h.eqs op (List.contains_iff_mem.mp hg))

theorem absGuarded_inconsistent {D : Dispatch} (h : D.WFP) {c : Rat} {op : CmpOp} {isUpper : Bool}
    {k : Res} (hne : k ≠ .inconsistent) (hk : absGuarded D c op isUpper k = .inconsistent) :
    c < 0 ∧ (isUpper = true ∨ op = .eq) := by
  unfold absGuarded at hk
  rw [h.guardFirst] at hk
  simp only [if_true] at hk
  split at hk
  · simp at hk
  · next hg =>
    split at hk
    · next hc =>
      refine ⟨hc, ?_⟩
      cases isUpper with
      | true => exact Or.inl rfl
      | false =>
        simp only [Bool.not_false, Bool.true_and, Bool.not_eq_true', Bool.not_eq_false] at hg
        exact Or.inr (h.eqs op (List.contains_iff_mem.mp hg))
    · exact absurd hk hne

theorem absBinBound_ne_inconsistent (D : Dispatch) (a : Arith) (c m : Rat) (t : Nat) :
    absBinBound D a c m t ≠ .inconsistent := by
  cases a <;> simp [absBinBound]

/-- `abs(x ± m) ≤ c` or `abs(m ± x) ≤ c` puts `x` inside the interval computed by `absBinBound` -/
theorem absBinBound_sound {D : Dispatch} (h : D.WFP) {a : Arith} {c m x : Rat} {t t' : Nat}
    {lo hi : Option Rat} (hb : absBinBound D a c m t' = .bound lo hi t) {v : Rat}
    (hv : v = a.app x m ∨ v = a.app m x) (habs : -c ≤ v ∧ v ≤ c) :
    t = t' ∧ inBound (lo, hi) x := by
  unfold absBinBound at hb
  rw [h.add, h.sub] at hb
  cases a with
  | add =>
    simp only [Res.bound.injEq] at hb
    obtain ⟨rfl, rfl, rfl⟩ := hb
    simp only [Arith.app] at hv
    refine ⟨rfl, ?_, ?_⟩
    · intro l' hl'; simp only [Option.some.injEq, lin] at hl'; subst hl'; push_cast
      rcases hv with hv | hv <;> rw [hv] at habs <;> linarith [habs.1, habs.2]
    · intro l' hl'; simp only [Option.some.injEq, lin] at hl'; subst hl'; push_cast
      rcases hv with hv | hv <;> rw [hv] at habs <;> linarith [habs.1, habs.2]
  | sub =>
    simp only [Res.bound.injEq] at hb
    obtain ⟨rfl, rfl, rfl⟩ := hb
    simp only [Arith.app] at hv
    refine ⟨rfl, ?_, ?_⟩
    · intro l' hl'; simp only [Option.some.injEq, lin] at hl'; subst hl'; push_cast
      rcases hv with hv | hv <;> rw [hv] at habs <;> linarith [habs.1, habs.2]
    · intro l' hl'; simp only [Option.some.injEq, lin] at hl'; subst hl'; push_cast
      rcases hv with hv | hv <;> rw [hv] at habs <;> linarith [habs.1, habs.2]

/-- a bound returned by `matchAbsBounds` is implied by `|…| ≤ const` -/
theorem matchAbsBounds_sound {D : Dispatch} (h : D.WFP) {e : Env} {node : Expr} {c : Rat} {op : CmpOp}
    {isUpper : Bool} {lo hi : Option Rat} {t : Nat}
    (hr : matchAbsBounds D node c op isUpper = .bound lo hi t) (hok : node.Ok e)
    (hle : node.val e ≤ c) : inBound (lo, hi) (e.q t) := by
  cases node with
  | leaf l => simp [matchAbsBounds] at hr
  | abs1 l =>
    simp only [matchAbsBounds] at hr
    have hk := (absGuarded_bound h hr).1
    split at hk
    · next t' ht' =>
      simp only [Res.bound.injEq] at hk
      obtain ⟨rfl, rfl, rfl⟩ := hk
      simp only [Expr.val, Leaf.val_of_atom ht'] at hle
      have := absQ_le hle
      rw [h.plain]
      constructor
      · intro l hl; simp only [Option.some.injEq] at hl; subst hl; push_cast; linarith [this.1]
      · intro l hl; simp only [Option.some.injEq] at hl; subst hl; push_cast; linarith [this.2]
    · simp at hk
  | absBin a l r =>
    simp only [matchAbsBounds] at hr
    have hk := (absGuarded_bound h hr).1
    simp only [Expr.val] at hle
    have habs := absQ_le hle
    split at hk
    · next m t' hm ht' =>
      -- abs(CONST op QUANTITY)
      have hl : l.val e = m := hok.1 m hm
      have hrv : r.val e = e.q t' := Leaf.val_of_atom ht'
      have := absBinBound_sound h hk (x := e.q t') (Or.inr (by rw [hl, hrv])) habs
      rw [this.1]; exact this.2
    · split at hk
      · next m t' hm ht' =>
        have hrv : r.val e = m := hok.2 m hm
        have hl : l.val e = e.q t' := Leaf.val_of_atom ht'
        have := absBinBound_sound h hk (x := e.q t') (Or.inl (by rw [hl, hrv])) habs
        rw [this.1]; exact this.2
      · simp at hk

/-- the guard of `matchAbsBounds`: a result is only produced for an upper bound or an equality -/
theorem matchAbsBounds_guard {D : Dispatch} (h : D.WFP) {node : Expr} {c : Rat} {op : CmpOp}
    {isUpper : Bool} {lo hi : Option Rat} {t : Nat}
    (hr : matchAbsBounds D node c op isUpper = .bound lo hi t) : isUpper = true ∨ op = .eq := by
  cases node with
  | leaf l => simp [matchAbsBounds] at hr
  | abs1 l => simp only [matchAbsBounds] at hr; exact (absGuarded_bound h hr).2
  | absBin a l r => simp only [matchAbsBounds] at hr; exact (absGuarded_bound h hr).2

/-- `matchAbsBounds` raises only when `const < 0` and it was about to use the comparison as `|…| ≤ const` -/
theorem matchAbsBounds_inconsistent {D : Dispatch} (h : D.WFP) {node : Expr} {c : Rat} {op : CmpOp}
    {isUpper : Bool} (hr : matchAbsBounds D node c op isUpper = .inconsistent) :
    c < 0 ∧ (isUpper = true ∨ op = .eq) ∧ ∀ e : Env, 0 ≤ node.val e := by
  cases node with
  | leaf l => simp [matchAbsBounds] at hr
  | abs1 l =>
    simp only [matchAbsBounds] at hr
    have := absGuarded_inconsistent h (by split <;> simp) hr
    exact ⟨this.1, this.2, fun e => absQ_nonneg _⟩
  | absBin a l r =>
    simp only [matchAbsBounds] at hr
    have := absGuarded_inconsistent h (by
      split
      · exact absBinBound_ne_inconsistent _ _ _ _ _
      · split
        · exact absBinBound_ne_inconsistent _ _ _ _ _
        · simp) hr
    exact ⟨this.1, this.2, fun e => absQ_nonneg _⟩

/-- soundness of `innerCore` for an upper-type operator -/
theorem innerCore_sound {D : Dispatch} (h : D.WFP) {e : Env} {left right : Expr} {op : CmpOp}
    {lo hi : Option Rat} {t : Nat} (hr : innerCore D left right op = .bound lo hi t)
    (hl : left.Ok e) (hrk : right.Ok e) (hs : op.sem (left.val e) (right.val e)) :
    inBound (lo, hi) (e.q t) := by
  unfold innerCore at hr
  split at hr
  · simp at hr
  · next hb =>
    simp only [Bool.not_eq_true', Bool.not_eq_false] at hb
    have hup : op.isUpper = true := h.bound op (List.contains_iff_mem.mp hb)
    have hle : left.val e ≤ right.val e := sem_isUpper hup hs
    have heq : D.eqOps.contains op = true → left.val e = right.val e := by
      intro hc
      have := h.eqs op (List.contains_iff_mem.mp hc)
      subst this
      exact hs
    simp only at hr
    -- split on what the left-constant branch produced
    split at hr
    · -- left branch gave none: right-constant branch
      next hnone =>
      split at hr
      · next rc hrc =>
        have hrv := Expr.val_of_cval hrk hrc
        split at hr
        · next t' ht' =>
          have hlv : left.val e = e.q t' := Expr.val_of_atom ht'
          split at hr
          · next hiseq =>
            simp only [Res.bound.injEq] at hr
            obtain ⟨rfl, rfl, rfl⟩ := hr
            have := heq hiseq
            constructor <;> intro l hl' <;> simp only [Option.some.injEq] at hl' <;> subst hl' <;> linarith
          · simp only [Res.bound.injEq] at hr
            obtain ⟨rfl, rfl, rfl⟩ := hr
            constructor
            · intro l hl'; simp at hl'
            · intro l hl'; simp only [Option.some.injEq] at hl'; subst hl'; linarith
        · exact matchAbsBounds_sound h hr hl (by linarith)
      · simp at hr
    · -- left branch gave a result r ≠ none, returned as is
      next r hne =>
      split at hr
      · next lc hlc =>
        have hlv := Expr.val_of_cval hl hlc
        split at hr
        · next t' ht' =>
          have hrv : right.val e = e.q t' := Expr.val_of_atom ht'
          split at hr
          · next hiseq =>
            simp only [Res.bound.injEq] at hr
            obtain ⟨rfl, rfl, rfl⟩ := hr
            have := heq hiseq
            constructor <;> intro l hl' <;> simp only [Option.some.injEq] at hl' <;> subst hl' <;> linarith
          · simp only [Res.bound.injEq] at hr
            obtain ⟨rfl, rfl, rfl⟩ := hr
            constructor
            · intro l hl'; simp only [Option.some.injEq] at hl'; subst hl'; linarith
            · intro l hl'; simp at hl'
        · -- CONST op abs(...): only for Eq, where const = |…|
          have : right.val e ≤ lc := by
            rcases matchAbsBounds_guard h hr with hu | hu
            · simp at hu
            · subst hu; simp only [CmpOp.sem] at hs; linarith
          exact matchAbsBounds_sound h hr hrk this
      · simp at hr

theorem innerCore_inconsistent {D : Dispatch} (h : D.WFP) {e : Env} {left right : Expr} {op : CmpOp}
    (hr : innerCore D left right op = .inconsistent) (hl : left.Ok e) (hrk : right.Ok e) :
    ¬ op.sem (left.val e) (right.val e) := by
  intro hs
  unfold innerCore at hr
  split at hr
  · simp at hr
  · next hb =>
    simp only [Bool.not_eq_true', Bool.not_eq_false] at hb
    have hup : op.isUpper = true := h.bound op (List.contains_iff_mem.mp hb)
    have hle : left.val e ≤ right.val e := sem_isUpper hup hs
    simp only at hr
    split at hr
    · split at hr
      · next rc hrc =>
        have hrv := Expr.val_of_cval hrk hrc
        split at hr
        · split at hr <;> simp at hr
        · have := matchAbsBounds_inconsistent h hr
          have h0 := this.2.2 e
          linarith [this.1]
      · simp at hr
    · split at hr
      · next lc hlc =>
        have hlv := Expr.val_of_cval hl hlc
        split at hr
        · split at hr <;> simp at hr
        · have := matchAbsBounds_inconsistent h hr
          have h0 := this.2.2 e
          rcases this.2.1 with hu | hu
          · simp at hu
          · subst hu
            simp only [CmpOp.sem] at hs
            linarith [this.1]
      · simp at hr

/-- **Soundness of one link** (`matchBoundsInner`), including the `>`/`>=` reductions. -/
theorem matchBoundsInner_sound {D : Dispatch} (h : D.WF = true) {e : Env} {left right : Expr}
    {op : CmpOp} {lo hi : Option Rat} {t : Nat}
    (hr : matchBoundsInner D left right op = .bound lo hi t) (hl : left.Ok e) (hrk : right.Ok e)
    (hs : op.sem (left.val e) (right.val e)) : inBound (lo, hi) (e.q t) := by
  have hw := Dispatch.wfp h
  unfold matchBoundsInner at hr
  split at hr
  · next op' hop' =>
    have := (hw.swap _ (lookup_mem _ _ _ hop')).1
    exact innerCore_sound hw hr hrk hl (sem_converse this hs)
  · exact innerCore_sound hw hr hl hrk hs

/-- **No false infeasibility from one link**: an inconsistency error means the comparison is false. -/
theorem matchBoundsInner_inconsistent {D : Dispatch} (h : D.WF = true) {e : Env} {left right : Expr}
    {op : CmpOp} (hr : matchBoundsInner D left right op = .inconsistent) (hl : left.Ok e)
    (hrk : right.Ok e) : ¬ op.sem (left.val e) (right.val e) := by
  have hw := Dispatch.wfp h
  unfold matchBoundsInner at hr
  split at hr
  · next op' hop' =>
    have := (hw.swap _ (lookup_mem _ _ _ hop')).1
    exact fun hs => innerCore_inconsistent hw hr hrk hl (sem_converse this hs)
  · exact innerCore_inconsistent hw hr hl hrk

/-! ### the table of best bounds -/

theorem inBound_default (x : Rat) : inBound (Option.none, Option.none) x := by
  constructor <;> intro l hl <;> simp at hl

theorem inBound_tighten {bl bh lo hi : Option Rat} {x : Rat} (h1 : inBound (bl, bh) x)
    (h2 : inBound (lo, hi) x) : inBound (tightenLo bl lo, tightenHi bh hi) x := by
  constructor
  · intro l hl
    simp only at hl
    unfold tightenLo at hl
    split at hl
    · split at hl <;> simp only [Option.some.injEq] at hl <;> subst hl
      · exact h2.1 _ rfl
      · exact h1.1 _ rfl
    · simp only [Option.some.injEq] at hl; subst hl; exact h2.1 _ rfl
    · exact h1.1 _ hl
  · intro l hl
    simp only at hl
    unfold tightenHi at hl
    split at hl
    · split at hl <;> simp only [Option.some.injEq] at hl <;> subst hl
      · exact h2.2 _ rfl
      · exact h1.2 _ rfl
    · simp only [Option.some.injEq] at hl; subst hl; exact h2.2 _ rfl
    · exact h1.2 _ hl

def Bounds.Valid (e : Env) (bs : Bounds) : Prop := ∀ p ∈ bs, inBound p.2 (e.q p.1)

theorem Bounds.get_valid {e : Env} {bs : Bounds} (hv : bs.Valid e) (t : Nat) :
    inBound (bs.get t) (e.q t) := by
  unfold Bounds.get
  cases hlk : bs.lookup t with
  | none => exact inBound_default _
  | some b => exact hv (t, b) (lookup_mem _ _ _ hlk)

theorem Bounds.set_valid {e : Env} {bs : Bounds} (hv : bs.Valid e) {t : Nat}
    {v : Option Rat × Option Rat} (hb : inBound v (e.q t)) : (bs.set t v).Valid e := by
  induction bs with
  | nil =>
    intro p hp
    simp only [Bounds.set, List.mem_singleton] at hp
    subst hp; exact hb
  | cons x xs ih =>
    obtain ⟨t', v'⟩ := x
    intro p hp
    simp only [Bounds.set] at hp
    split at hp
    · next heq =>
      subst heq
      rcases List.mem_cons.mp hp with rfl | hp
      · exact hb
      · exact hv p (List.mem_cons_of_mem _ hp)
    · rcases List.mem_cons.mp hp with rfl | hp
      · exact hv _ (List.mem_cons_self ..)
      · exact ih (fun q hq => hv q (List.mem_cons_of_mem _ hq)) p hp

theorem matchBoundsLoop_sound {D : Dispatch} (h : D.WF = true) (e : Env) :
    ∀ (rest : List (CmpOp × Expr)) (first : Expr) (acc bs : Bounds),
      matchBoundsLoop D first rest acc = .ok bs → chainOk e first rest → chainHolds e first rest →
      acc.Valid e → bs.Valid e := by
  intro rest
  induction rest with
  | nil =>
    intro first acc bs hr _ _ hv
    simp only [matchBoundsLoop, Except.ok.injEq] at hr
    subst hr; exact hv
  | cons x xs ih =>
    obtain ⟨op, second⟩ := x
    intro first acc bs hr hok hh hv
    simp only [chainOk] at hok
    simp only [chainHolds] at hh
    have hok2 : second.Ok e := by
      cases xs with
      | nil => exact hok.2
      | cons y ys => exact hok.2.1
    simp only [matchBoundsLoop] at hr
    split at hr
    · simp at hr
    · exact ih second acc bs hr hok.2 hh.2 hv
    · next lo hi t hin =>
      have hb := matchBoundsInner_sound h hin hok.1 hok2 hh.1
      refine ih second _ bs hr hok.2 hh.2 ?_
      exact Bounds.set_valid hv (inBound_tighten (Bounds.get_valid hv t) hb)

/-- **bounds_sound**: for every comparison chain in every form the matcher recognises and every
    assignment of values making the requirement true, each matched quantity lies in its extracted
    interval. -/
theorem bounds_sound {D : Dispatch} (h : D.WF = true) (e : Env) (first : Expr)
    (rest : List (CmpOp × Expr)) (bs : Bounds) (hr : matchBounds D first rest = .ok bs)
    (hok : chainOk e first rest) (hh : chainHolds e first rest) :
    ∀ t b, (t, b) ∈ bs → inBound b (e.q t) := by
  intro t b hmem
  exact matchBoundsLoop_sound h e rest first [] bs hr hok hh (fun p hp => by simp at hp) (t, b) hmem

theorem matchBoundsLoop_error {D : Dispatch} (h : D.WF = true) (e : Env) :
    ∀ (rest : List (CmpOp × Expr)) (first : Expr) (acc : Bounds),
      matchBoundsLoop D first rest acc = .error () → chainOk e first rest → ¬ chainHolds e first rest := by
  intro rest
  induction rest with
  | nil => intro first acc hr; simp [matchBoundsLoop] at hr
  | cons x xs ih =>
    obtain ⟨op, second⟩ := x
    intro first acc hr hok hh
    simp only [chainOk] at hok
    simp only [chainHolds] at hh
    have hok2 : second.Ok e := by
      cases xs with
      | nil => exact hok.2
      | cons y ys => exact hok.2.1
    simp only [matchBoundsLoop] at hr
    split at hr
    · next hin => exact matchBoundsInner_inconsistent h hin hok.1 hok2 hh.1
    · exact ih second acc hr hok.2 hh.2
    · exact ih second _ hr hok.2 hh.2

/-- **never reports a satisfiable requirement as infeasible**: when the matcher raises
    `InconsistentScenarioError`, no assignment of values satisfies the requirement. -/
theorem inconsistency_sound {D : Dispatch} (h : D.WF = true) (e : Env) (first : Expr)
    (rest : List (CmpOp × Expr)) (hr : matchBounds D first rest = .error ())
    (hok : chainOk e first rest) : ¬ chainHolds e first rest :=
  matchBoundsLoop_error h e rest first [] hr hok

/-- **regression for 0216aa9a**: `!=`, `is`, `is not`, `in`, `not in` never produce a bound. -/
theorem nonordering_no_bound {D : Dispatch} (h : D.WF = true) (left right : Expr) (op : CmpOp)
    (hop : op = .notEq ∨ op = .is ∨ op = .isNot ∨ op = .in_ ∨ op = .notIn) :
    matchBoundsInner D left right op = .none := by
  have hw := Dispatch.wfp h
  unfold matchBoundsInner
  have key : ∀ o : CmpOp, o.isUpper = false → ∀ l r, innerCore D l r o = .none := by
    intro o ho l r
    unfold innerCore
    have : D.boundOps.contains o = false := by
      cases hc : D.boundOps.contains o with
      | false => rfl
      | true => have := hw.bound o (List.contains_iff_mem.mp hc); simp [ho] at this
    rw [this]; rfl
  split
  · next op' hop' =>
    have hc := (hw.swap _ (lookup_mem _ _ _ hop')).1
    apply key
    rcases hop with rfl | rfl | rfl | rfl | rfl <;> cases op' <;> simp [CmpOp.converseOf] at hc <;> rfl
  · apply key
    rcases hop with rfl | rfl | rfl | rfl | rfl <;> rfl

end Scenic.Pruning
