import ScenicModel.Lemmas.SpecEval
import ScenicModel.Props.C06Perm

/-!
# C06 (part 4): the evaluation loop

"Every specifier is evaluated only after all properties it depends on are final": stated on the loop itself
(`Scenic.Spec.evaluate`, the model of `for spec in order: ... cls._specify(context, prop, value)`), which
carries the source's assertion and a ghost check at every read of a dependency.
-/
namespace Scenic.C06
open Scenic.Spec

/-- what the evaluation loop needs, from a successful resolution -/
theorem evalHyp_of_resolve {C : ClassInfo} {S : List Spec} {o : Outcome} (h : resolve C S = .ok o) :
    EvalHyp (depsOf C S) o.assign o.modifier o.order := by
  obtain ⟨hnd, _, _, _⟩ := topo_order h
  obtain ⟨pre, hpre, _, ha, _, _⟩ := resolve_ok h
  refine ⟨hnd, ?_, ?_, ?_⟩
  · rw [ha]; exact assign_keys_nodup (assignPhase_ok hpre)
  · intro n hn d hd
    obtain ⟨a, haa, _, hlt, hmod⟩ := topo_order_full h n hn d hd
    unfold finalWriter
    cases hm : get o.modifier d with
    | some m => exact ⟨m, rfl, (hmod m hm).2.2⟩
    | none => exact ⟨a, haa, hlt⟩
  · intro p m hm
    obtain ⟨a, haa, _, _, _, hlt⟩ := modifier_after_specifier h p m hm
    exact ⟨a, haa, hlt⟩

/-- **The evaluation loop is safe and every value read is final.**  After a successful resolution, running
`for spec in order: values = spec.getValuesFor(context); for prop in actual_props[spec]: assert ...;
_specify(context, prop, values[prop])`
* never evaluates a specifier one of whose required properties has no value yet, or a value that a later
  specifier will still overwrite (ghost check `depNotFinal`),
* never trips the source's `assert not hasattr(context, prop) or prop in modifying`,
* and ends with every property holding the value produced by its modifier if it has one, else by its
  specifier (a specifier of the list or the class default). -/
theorem evaluate_ok {C : ClassInfo} {S : List Spec} {o : Outcome} (h : resolve C S = .ok o) :
    ∃ ctx, evaluate C S o = .ok ctx ∧ ∀ p, get ctx p = finalWriter o.assign o.modifier p := by
  obtain ⟨_, hmem, _, _⟩ := topo_order h
  obtain ⟨pre, hpre, _, ha, hmo, hno⟩ := resolve_ok h
  have hr := assign_range (assignPhase_ok hpre)
  apply evalFrom_ok (evalHyp_of_resolve h)
  · intro p a hpa
    rw [hmem, hno]; exact hr.1 p a (by rw [← ha]; exact hpa)
  · intro p m hpm
    rw [hmem, hno]; exact hr.2 p m (by rw [← hmo]; exact hpm)

/-- **Every property of the class gets a value, and only those that were assigned one.**  The new object has
exactly the properties that some specifier of the list specifies or for which the class has a default. -/
theorem evaluate_total {C : ClassInfo} {S : List Spec} {o : Outcome} (h : resolve C S = .ok o) :
    ∃ ctx, evaluate C S o = .ok ctx ∧ ∀ p, (get ctx p).isSome ↔
      ((∃ t ∈ S, ∃ k, (p, k) ∈ t.prios) ∨ ∃ e ∈ C.defaults, e.1 = p) := by
  obtain ⟨ctx, hok, hget⟩ := evaluate_ok h
  refine ⟨ctx, hok, fun p => ?_⟩
  rw [hget p]
  have hspec := resolve_spec h p
  unfold finalWriter
  cases hm : get o.modifier p with
  | some m =>
    obtain ⟨M, hM, _, _, _, km, hkm, _⟩ := resolve_modifier h p m hm
    simp only [Option.isSome_some, true_iff]
    exact Or.inl ⟨M, hM, km, hkm⟩
  | none =>
    simp only
    cases hg : get o.assign p with
    | none =>
      rw [hg] at hspec
      simp only [Option.isSome_none, Bool.false_eq_true, false_iff, not_or, not_exists, not_and]
      exact ⟨fun t ht k hk => hspec.1 t ht k hk, fun e he => hspec.2 e he⟩
    | some a =>
      rw [hg] at hspec
      simp only [Option.isSome_some, true_iff]
      cases a with
      | user n =>
        obtain ⟨s, hs, _, k, hk, _⟩ := hspec
        exact Or.inl ⟨s, hs, k, hk⟩
      | dflt q =>
        obtain ⟨_, hex, _⟩ := hspec
        exact Or.inr hex

/-! non-vacuity: the loop runs on the running example of `C06Resolve` and `on` produces the final position -/
section examples

def ctxOf : Except EvalErr Ctx → Option Ctx
  | .ok c => some c
  | .error _ => none

def evalErrOf : Except EvalErr Ctx → Option EvalErr
  | .ok _ => none
  | .error e => some e

def evalExample (S : List Spec) : Option Ctx :=
  match resolve exC S with
  | .ok o => ctxOf (evaluate exC S o)
  | .error _ => none

example : (evalExample [exAhead, exOn, exWith, exFacing]).map (fun c =>
    (Spec.get c "position", Spec.get c "parentOrientation", Spec.get c "length", Spec.get c "height")) =
    some (some (.user "On"), some (.user "On"), some (.user "With(length)"), some (.dflt "height")) := by decide

/-- the ghost check is not vacuous: evaluating in a wrong order is caught (here `Facing` before
`parentOrientation` has a value) -/
example : evalErrOf (evalFrom (depsOf exC [exFacing]) [("yaw", .user "Facing"), ("parentOrientation", .dflt "parentOrientation")] []
    [.user "Facing", .dflt "parentOrientation"] []) = some (.depNotFinal (.user "Facing") "parentOrientation") := by decide

/-- and so is the assertion: writing a property twice without a modifier -/
example : evalErrOf (writeProps [] (.user "X") ["p", "p"] []) = some (.assertFail (.user "X") "p") := by decide

end examples

end Scenic.C06
