/-! # C01 — property theorems (stub: filled in when the property's model is built) -/
namespace Scenic.C01
end Scenic.C01
