import ScenicModel.Lemmas.SamplerDraws
import ScenicModel.Props.C01Options
import ScenicModel.Gen.SamplerCfg

/-!
# C01 — scenes are drawn from exactly the program's conditional distribution

Property theorems about the sampler model (`Model/Sampler.lean`, `Model/SamplerFront.lean`), instantiated on the
configuration `Scenic.Gen.samplerCfg` that `tools/translate/sampler.py` regenerates from `distributions.py` and
`scenarios.py` on every run; `gen_cfg_wf` is re-decided by the kernel on that data.

Reading guide (all statements are for every program, every set of roots, every predicate, every `n`):

* `sampleAll_once`, `every_reference_sees_the_draw` — the identity-keyed depth-first sampler draws each reachable node
  exactly once, dependencies first, and every reference to a node sees that one value;
* `prior_order_independent` — the resulting distribution on values does not depend on the order of the draws;
* `drange_spec`, `drange_reject_iff_empty`, `options_uniform`, `activation_spec` — what one draw is;
* `attempt_eq_prior_restricted`, `attempt_order_irrelevant` — one attempt = prior restricted to the active requirements;
* `generate_closed_form`, `generate_rejection`, `generate_conditional_independent_of_n` — the rejection loop;
* `soft_mixture` — soft requirements enforced independently with their probabilities;
* `resample_indep` — a clone is an independent draw from the same conditional distribution;
* `rebinding` — a requirement keeps the bindings of the moment its statement ran;
* `sampled_iff_reachable`, `prior_is_declarative`, `loop_is_closed_form`,
  **`scene_generation_eq_declarative_semantics`** — the operational model of `Scenario._generateInner` gives every
  event exactly the probability of the declarative semantics `specGenerate` (`Model/SamplerSpec.lean`): independent
  draws of the reachable nodes, conditioned on all enforced requirements, geometric number of iterations, mixture over
  the independently enforced soft requirements;
* `weighted_spec`, `uniform_star_spec` — the weighted choice and the uniform choice over a star-unpacked list;
* `Props/C01Options.lean`: `options_build_spec`, `options_build_errors`, `options_kept_proper`,
  `options_dropped_not_dependency`, `options_selector_law`, `options_clone_same` — what `Options({...})` constructs.
-/
namespace Scenic.C01
open Scenic.Sampler Scenic.Gen Scenic.Sampler.Dist

/-- side condition on generated data: the constants extracted from the source are the ones the property needs
    (`math.ceil`/`math.floor`, strict empty test, selectors over `0 .. n-1`, activation `random() <= prob`,
    `iterations` from 0 with give-up test `>=`) -/
theorem gen_cfg_wf : samplerCfg.WF := by decide

/-! ## each random value is drawn once per scene -/

/-- `Samplable.sampleAll` on an acyclic dependency graph is exactly: one draw per node of `postorder P roots`, in that
    order; that order lists no node twice, lists every node after its dependencies, and contains every root. -/
theorem sampleAll_once (P : Prog) (hP : P.WF) (roots : List Nat) (hr : ∀ j ∈ roots, j < P.nodes.length) :
    sampleAll samplerCfg P roots = seqAlong samplerCfg P (postorder P roots) []
      ∧ (postorder P roots).Nodup
      ∧ Closed P (postorder P roots) []
      ∧ ∀ j ∈ roots, j ∈ postorder P roots :=
  ⟨sampleAll_eq_seqAlong samplerCfg P hP roots hr, postorder_nodup P hP roots hr,
   postorder_children_first P hP roots hr, postorder_roots P roots⟩

/-- In every environment `sampleAll` can produce, the value of each sampled node is a possible outcome of that node's
    `sampleGiven` on the final environment: every reference (from any number of parents) sees the same single draw. -/
theorem every_reference_sees_the_draw (P : Prog) (hP : P.WF) (roots : List Nat)
    (hr : ∀ j ∈ roots, j < P.nodes.length) (env : Env) (w : Rat)
    (h : (some env, w) ∈ sampleAll samplerCfg P roots) :
    ∀ x ∈ postorder P roots, ∀ nd, P.nodes[x]? = some nd → ∃ u, (some (env.get x), u) ∈ draw samplerCfg nd env := by
  rw [sampleAll_eq_seqAlong samplerCfg P hP roots hr] at h
  exact seqAlong_consistent samplerCfg P (postorder P roots) [] env w h (postorder_nodup P hP roots hr)
    (by intro x _ hx; cases hx) (postorder_children_first P hP roots hr)

/-- **The prior is well defined.**  Drawing the same nodes in any other duplicate-free order that lists dependencies
    first (for instance by increasing node index instead of the depth-first post-order) gives every event on the sampled
    values the same probability: each distribution expression is an independent draw given its parameters, and nothing
    depends on the order in which `Scenario.dependencies` happens to be walked. -/
theorem prior_order_independent (P : Prog) (hP : P.WF) (roots : List Nat) (hr : ∀ j ∈ roots, j < P.nodes.length)
    (ys : List Nat) (hperm : (postorder P roots).Perm ys) (hcl : Closed P ys []) (q : Env → Bool) (hq : Resp q) :
    mass (sampleAll samplerCfg P roots) (onSome q) = mass (seqAlong samplerCfg P ys []) (onSome q) := by
  rw [sampleAll_eq_seqAlong samplerCfg P hP roots hr]
  exact seqAlong_perm samplerCfg P q hq ys (postorder P roots) [] [] hperm (postorder_nodup P hP roots hr)
    (by intro x _ hx; cases hx) (postorder_children_first P hP roots hr) hcl

/-! ## what one draw is -/

/-- `DiscreteRange(low, high)`: when some integer lies between the sampled bounds, the outcomes are exactly the integers
    `k` with `low ≤ k ≤ high`, each listed once, all with the same weight `1 / count` -/
theorem drange_spec (lo hi : Nat) (env : Env) (a b : Rat) (ha : env.get lo = .num a) (hb : env.get hi = .num b)
    (hne : a.ceil ≤ b.floor) :
    draw samplerCfg (.drange lo hi) env
        = (intRange a.ceil b.floor).map (fun k => (some (Val.num (k : Int)), 1 / ((intRange a.ceil b.floor).length : Rat)))
      ∧ (intRange a.ceil b.floor).Nodup
      ∧ ∀ k : Int, k ∈ intRange a.ceil b.floor ↔ a ≤ (k : Rat) ∧ (k : Rat) ≤ b :=
  ⟨drange_draw gen_cfg_wf lo hi env a b ha hb hne, intRange_nodup _ _, mem_intRange_bounds a b⟩

/-- ... and the draw is a rejection exactly when no integer lies between the bounds -/
theorem drange_reject_iff_empty (lo hi : Nat) (env : Env) (a b : Rat) (ha : env.get lo = .num a)
    (hb : env.get hi = .num b) :
    draw samplerCfg (.drange lo hi) env = Dist.pure none ↔ ¬ ∃ k : Int, a ≤ (k : Rat) ∧ (k : Rat) ≤ b :=
  drange_reject gen_cfg_wf lo hi env a b ha hb

/-- `Uniform(o_0, …, o_{n-1})` / `Options([...])`: the selector is uniform over exactly the indices `0 … n-1`, and the
    multiplexer returns the option at the selected index -/
theorem options_uniform (opts : List Nat) (hn : 1 ≤ opts.length) (idx : Nat) (env : Env) :
    draw samplerCfg (.selector opts.length) env
        = (List.range opts.length).map (fun k => (some (Val.num ((k : Nat) : Int)), 1 / (opts.length : Rat)))
      ∧ ∀ k, k < opts.length → ∀ env' : Env, env'.get idx = .num ((k : Nat) : Int) →
          draw samplerCfg (.mux idx opts) env' = Dist.pure (some (env'.get (opts.getD k 0))) :=
  ⟨selector_draw gen_cfg_wf opts.length hn env, fun k hk env' h => mux_draw samplerCfg idx opts env' k hk h⟩

/-- a soft requirement `require[p]` is activated with probability exactly `p`; the loop makes exactly
    `maxIterations` attempts, counted from 0 -/
theorem activation_spec (p : Rat) (n : Nat) :
    samplerCfg.actProb p = p ∧ samplerCfg.attempts n = n ∧ samplerCfg.iterStart = 0 :=
  ⟨gen_cfg_wf.actProb p, (gen_cfg_wf.attempts n).1, (gen_cfg_wf.attempts n).2⟩

/-! ## one attempt -/

/-- the per-attempt sub-distribution is the prior (`sampleAll`) restricted to the samples satisfying all *active*
    requirements; an attempt is rejected exactly when sampling is rejected or an active requirement fails -/
theorem attempt_eq_prior_restricted {σ : Type} (P : Prog) (roots : List Nat) (active : List (Env → Bool))
    (scene : Env → σ) (q : σ → Bool) :
    mass (attempt samplerCfg P roots active scene) (onSome q)
        = mass (sampleAll samplerCfg P roots) (onSome fun env => active.all (fun r => r env) && q (scene env))
      ∧ mass (attempt samplerCfg P roots active scene) isRej
        = mass (sampleAll samplerCfg P roots) isRej
          + mass (sampleAll samplerCfg P roots) (onSome fun env => !active.all (fun r => r env)) :=
  ⟨attempt_accept samplerCfg P roots active scene q, attempt_reject samplerCfg P roots active scene⟩

/-- whatever order the checker evaluates the active requirements in, the attempt is the same distribution -/
theorem attempt_order_irrelevant {σ : Type} (P : Prog) (roots : List Nat) (active active' : List (Env → Bool))
    (scene : Env → σ) (h : active.Perm active') :
    attempt samplerCfg P roots active scene = attempt samplerCfg P roots active' scene :=
  attempt_perm samplerCfg P roots active active' scene h

/-! ## the rejection loop (for a fixed set of active requirements) -/

/-- `P(scene ∈ q, iterations = j + 1) = r^j · acc(q)` for `j < n`, and `0` for `j ≥ n`, where `acc(q)` is the
    per-attempt probability of accepting a scene in `q` and `r` the per-attempt rejection probability -/
theorem generate_closed_form {σ : Type} (att : Dist (Option σ)) (q : σ → Bool) (n j : Nat) :
    (j < n → mass (loop att n 0) (hit (j + 1) q) = (mass att isRej) ^ j * mass att (onSome q))
      ∧ (n ≤ j → mass (loop att n 0) (hit (j + 1) q) = 0) := by
  constructor
  · intro h; have := loop_success att q n 0 j h; simpa using this
  · intro h; have := loop_beyond att q n 0 j h; simpa using this

/-- `P(no scene within n iterations) = r^n` -/
theorem generate_rejection {σ : Type} (att : Dist (Option σ)) (n : Nat) :
    mass (loop att n 0) isRej = (mass att isRej) ^ n :=
  loop_reject att n 0

/-- `P(scene ∈ q | success within n) = acc(q) / acc(anything)`, whatever `n ≥ 1` is -/
theorem generate_conditional_independent_of_n {σ : Type} (att : Dist (Option σ)) (q : σ → Bool) (n : Nat)
    (hn : 1 ≤ n) (hr : 0 ≤ mass att isRej) (hacc : mass att (onSome fun _ => true) ≠ 0) :
    mass (loop att n 0) (sceneIs q) / mass (loop att n 0) (sceneIs fun _ => true)
      = mass att (onSome q) / mass att (onSome fun _ => true) := by
  rw [loop_scene_total, loop_scene_total]
  have hg : geom (mass att isRej) n ≠ 0 := ne_of_gt (geom_pos _ hr n hn)
  field_simp

/-! ## soft requirements -/

/-- `generate` = `Σ_S Π_{i∈S} p_i Π_{i∉S} (1 - p_i) · (rejection loop with the default requirements and those in S)`,
    for every event `q` on (activation, result) -/
theorem soft_mixture {σ : Type} (P : Prog) (roots : List Nat) (reqs : List (Rat × (Env → Bool)))
    (defaults : List (Env → Bool)) (scene : Env → σ) (n : Nat) (q : List Bool → Option (σ × Nat) → Bool) :
    mass (generate samplerCfg P roots reqs defaults scene n) (fun o => q o.1 o.2)
      = sumW ((vectors reqs.length).map fun act => softWeight (reqs.map (·.1)) act *
          mass (loop (attempt samplerCfg P roots (defaults ++ activeOf (reqs.map (·.2)) act) scene) n 0) (q act)) :=
  generate_mixture gen_cfg_wf P roots reqs defaults scene n q

/-- the two combined: exact probability that `generate` returns a scene in `q` after exactly `j + 1 ≤ n` iterations -/
theorem generate_total_closed_form {σ : Type} (P : Prog) (roots : List Nat) (reqs : List (Rat × (Env → Bool)))
    (defaults : List (Env → Bool)) (scene : Env → σ) (n j : Nat) (hj : j < n) (q : σ → Bool) :
    mass (generate samplerCfg P roots reqs defaults scene n) (fun o => hit (j + 1) q o.2)
      = sumW ((vectors reqs.length).map fun act => softWeight (reqs.map (·.1)) act *
          ((mass (attempt samplerCfg P roots (defaults ++ activeOf (reqs.map (·.2)) act) scene) isRej) ^ j
            * mass (attempt samplerCfg P roots (defaults ++ activeOf (reqs.map (·.2)) act) scene) (onSome q))) := by
  rw [soft_mixture P roots reqs defaults scene n (fun _ o => hit (j + 1) q o)]
  congr 1
  apply List.map_congr_left
  intro act _
  rw [(generate_closed_form _ q n j).1 hj]

/-! ## resample -/

/-- `resample(x)` builds a node with the description of `x` (same class, same parameter nodes).  Drawing the original
    and the clone yields independent values, each distributed as `sampleGiven` on the shared parameter values. -/
theorem resample_indep (P : Prog) (i c : Nat) (nd : Node) (env : Env)
    (hi : P.nodes[i]? = some nd) (hc : P.nodes[c]? = some nd) (hne : i ≠ c) (hdep : i ∉ nd.deps)
    (qa qc : Val → Bool) :
    mass (seqAlong samplerCfg P [i, c] env) (onSome fun e => qa (e.get i) && qc (e.get c))
      = mass (draw samplerCfg nd env) (onSome qa) * mass (draw samplerCfg nd env) (onSome qc) :=
  seqAlong_pair_indep samplerCfg P i c nd env hi hc hne hdep qa qc

/-! ## requirements keep the bindings of the moment they were stated -/

/-- Whatever statements follow a `require`, the requirement recorded for it is the condition resolved against the names
    as bound *when the statement ran*, and the nodes those names denoted are still the same nodes of the final graph. -/
theorem rebinding (before after : List Stmt) (p : Rat) (cond : NExpr) :
    ∃ moreNodes moreReqs,
      (run (before ++ Stmt.require p cond :: after)).reqs
          = (run before).reqs ++ (p, cond.resolve (run before).names) :: moreReqs
      ∧ (run (before ++ Stmt.require p cond :: after)).nodes = (run before).nodes ++ moreNodes := by
  rw [run_append, run_cons]
  obtain ⟨mn, mr, h1, h2⟩ := run_extends after (exec (run before) (Stmt.require p cond))
  refine ⟨mn, mr, ?_, ?_⟩
  · rw [h2]; simp [exec]
  · rw [h1]; simp [exec]

/-! ## more of what one draw is -/

/-- `Options({o_0: w_0, …})` / `Discrete`: the selector takes the value `k` with probability exactly `w_k / Σ w`
    (weights non-negative; zero weights are never drawn) -/
theorem weighted_spec (ws : List Rat) (hnn : ∀ w ∈ ws, 0 ≤ w) (env : Env) (k : Nat) (hk : k < ws.length) :
    mass (draw samplerCfg (.windex ws) env) (onSome (isIndex k)) = ws.getD k 0 / sumW ws :=
  windex_draw samplerCfg ws hnn env k hk

/-- `Uniform(*seq, x, …)` (`UniformDistribution`): when the star-unpacked list of options has `n ≥ 1` entries in all,
    the selector is uniform over exactly `0 … n-1`, and the value is the entry at the selected position -/
theorem uniform_star_spec (len sel : Nat) (opts : List (Bool × Nat)) (env : Env) (n : Nat) (hn : 1 ≤ n)
    (hlen : env.get len = .num ((n : Nat) : Int)) :
    draw samplerCfg (.dynSelector len) env
        = (List.range n).map (fun k => (some (Val.num ((k : Nat) : Int)), 1 / (n : Rat)))
      ∧ ∀ k, ∀ env' : Env, k < (argVals env' opts).length → env'.get sel = .num ((k : Nat) : Int) →
          draw samplerCfg (.ustar sel opts) env' = Dist.pure (some ((argVals env' opts).getD k .err)) :=
  ⟨dynSelector_draw gen_cfg_wf len env n hn hlen, fun k env' hk h => ustar_draw samplerCfg sel opts env' k hk h⟩

/-! ## the operational model is the declarative semantics -/

/-- **exactly the values reachable from `Scenario.dependencies` are sampled**: a value nothing refers to is never
    drawn (so an unused empty range never rejects a scene), and everything referred to is -/
theorem sampled_iff_reachable (P : Prog) (hP : P.WF) (roots : List Nat) (hr : ∀ j ∈ roots, j < P.nodes.length)
    (x : Nat) : x ∈ postorder P roots ↔ Reach P roots x :=
  mem_postorder_iff_reach P hP roots hr x

/-- every event on the outcome of `Samplable.sampleAll` (the sampled values, or "rejected") has the probability given
    by one independent draw per reachable node, in increasing node index -/
theorem prior_is_declarative (P : Prog) (hP : P.WF) (hN : P.Normalized) (roots : List Nat)
    (hr : ∀ j ∈ roots, j < P.nodes.length) (E : Option Env → Bool) (hE : Resp fun env => E (some env)) :
    mass (sampleAll samplerCfg P roots) E = mass (specPrior samplerCfg P roots) E :=
  prior_event_indep samplerCfg P hP hN roots hr E hE

/-- the `while` loop gives every event on (scene, iterations) / failure the probability of the geometric closed form -/
theorem loop_is_closed_form {σ : Type} (att : Dist (Option σ)) (n : Nat) (Q : Option (σ × Nat) → Bool) :
    mass (loop att n 0) Q = mass (geomLoop att n 0) Q :=
  loop_eq_geomLoop att n 0 Q

/-- **Scenes are drawn from exactly the program's conditional distribution.**  For every acyclic program with proper
    weights, every choice of roots, requirements with probabilities, default requirements and observed scene (all of
    them functions of the sampled values), every `maxIterations = n` and every event `Q` on
    (which soft requirements were enforced, `some (scene, iterations)` / `none`):
    the model of `Scenario._generateInner` gives `Q` exactly the probability that the declarative semantics
    `specGenerate` gives it — independent draws, one per reachable value; conditioned on all enforced requirements;
    iteration count geometric with the per-attempt rejection probability; soft requirements enforced independently
    with their probabilities. -/
theorem scene_generation_eq_declarative_semantics {σ : Type} (P : Prog) (hP : P.WF) (hN : P.Normalized)
    (roots : List Nat) (hr : ∀ j ∈ roots, j < P.nodes.length)
    (reqs : List (Rat × (Env → Bool))) (hreq : ∀ r ∈ reqs, Resp r.2)
    (defaults : List (Env → Bool)) (hdef : ∀ r ∈ defaults, Resp r)
    (scene : Env → σ) (hs : ∀ e e', EnvEq e e' → scene e = scene e') (n : Nat)
    (Q : List Bool → Option (σ × Nat) → Bool) :
    mass (generate samplerCfg P roots reqs defaults scene n) (fun o => Q o.1 o.2)
      = mass (specGenerate samplerCfg P roots reqs defaults scene n) (fun o => Q o.1 o.2) :=
  generate_eq_specGenerate gen_cfg_wf P hP hN roots hr reqs hreq defaults hdef scene hs n Q

/-- the hypotheses of the main theorem can be decided by evaluation (the driver does, for every program of the
    correspondence run), and conditions written as `RExpr` always are events on the sampled values -/
theorem hypotheses_decidable (P : Prog) (h1 : P.wfB = true) (h2 : P.normalizedB = true) (e : RExpr) :
    P.WF ∧ P.Normalized ∧ Resp e.holds :=
  ⟨Prog.wfB_sound h1, Prog.normalizedB_sound h2, e.holds_resp⟩

/-! ## the hypotheses are satisfiable: a concrete program -/

/-- `x = DiscreteRange(1, 2); y = x + x` with `y` observed: `x` is referenced twice -/
def exProg : Prog := ⟨[.const (.num 1), .const (.num 2), .drange 0 1, .op "add" [(false, 2), (false, 2)]]⟩

theorem exProg_wf : exProg.WF := by
  intro i nd h j hj
  match i, h with
  | 0, h => simp [exProg] at h; subst h; simp [Node.deps] at hj
  | 1, h => simp [exProg] at h; subst h; simp [Node.deps] at hj
  | 2, h => simp [exProg] at h; subst h; simp [Node.deps] at hj; omega
  | 3, h => simp [exProg] at h; subst h; simp [Node.deps] at hj; omega
  | n + 4, h => simp [exProg] at h

example : exProg.WF ∧ (∀ j ∈ [3], j < exProg.nodes.length) ∧ postorder exProg [3] = [0, 1, 2, 3] :=
  ⟨exProg_wf, by decide, by decide⟩

/-- another admissible order of the same program, and an event that only looks at the values -/
example : (postorder exProg [3]).Perm [1, 0, 2, 3] ∧ Closed exProg [1, 0, 2, 3] []
    ∧ Resp (fun e => e.get 3 == Val.num 2) := by
  refine ⟨by decide, by simp [Closed, exProg, Node.deps], ?_⟩
  intro e e' h; simp only [h 3]

/-- the front end on `x = DiscreteRange(1,3); require x > 1; x = DiscreteRange(5,6)`: the requirement refers to node 2,
    the first `x`, although `x` denotes node 5 at the end -/
example :
    let prog := [Stmt.define "x" [.const (.num 1), .const (.num 3), .drange 0 1],
                 Stmt.require 1 (.op "gt" [.name "x", .const (.num 1)]),
                 Stmt.define "x" [.const (.num 5), .const (.num 6), .drange 3 4]]
    (run prog).names.lookup "x" = some 5
      ∧ (run prog).reqs.map (fun r => match r.2 with
          | .op _ (.ref i :: _) => i
          | _ => 0) = [2] := by
  decide

example : samplerCfg.actProb (1/4) = 1/4 := (activation_spec (1/4) 0).1

/-- the main theorem applies to the concrete program: `x = DiscreteRange(1, 2); y = x + x; require[1/4] y > 2`,
    observing `y`; its hypotheses are checked by evaluation -/
example :
    let req : RExpr := .op "gt" [.ref 3, .const (.num 2)]
    exProg.wfB = true ∧ exProg.normalizedB = true ∧ (∀ j ∈ [3], j < exProg.nodes.length)
      ∧ (∀ r ∈ [((1/4 : Rat), req.holds)], Resp r.2)
      ∧ (∀ e e' : Env, EnvEq e e' → e.get 3 = e'.get 3) := by
  refine ⟨by decide, by decide, by decide, ?_, fun e e' h => h 3⟩
  intro r hr
  simp only [List.mem_singleton] at hr
  subst hr
  exact RExpr.holds_resp _

/-- ... and the declarative semantics of that program is not trivial: with the soft requirement enforced the scene
    `y = 4` is returned at the first iteration with weight 1/4 · 1/2, at the second with 1/4 · 1/2 · 1/2 -/
example :
    let req : RExpr := .op "gt" [.ref 3, .const (.num 2)]
    let d := specGenerate samplerCfg exProg [3] [((1/4 : Rat), req.holds)] [] (fun e => (e.get 3).canon) 2
    mass d (fun o => o.1 == [true] && o.2 == some ("4/1", 1)) = 1/8
      ∧ mass d (fun o => o.1 == [true] && o.2 == some ("4/1", 2)) = 1/16
      ∧ mass d (fun o => o.1 == [false] && o.2 == some ("2/1", 1)) = 3/8 := by
  decide +kernel

/-- a weighted choice with weights 1, 0, 3: index 2 has probability 3/4 -/
example : ([1, 0, 3] : List Rat).getD 2 0 / sumW [1, 0, 3] = 3/4 := by
  norm_num [sumW, List.getD]

end Scenic.C01
