import ScenicModel.Lemmas.Rewrites
import ScenicModel.Gen.RewriteData
/-!
# C09, compile part: the documented rewrites and the line numbers

`Scenic.Rewrites.compile cfg` models `compileScenicAST` on a plain-Python module at top level: the transformer
(`visit_Name`, `visit_Call`, `visit_ClassDef`, generic visit elsewhere) followed by `ast.fix_missing_locations`;
`cfg` is regenerated from `compiler.py` on every run (`Gen/RewriteData.lean`).

Full statement wanted by the property: *the compiled tree is CPython's tree apart from the documented rewrites, and the
line numbers of all nodes are preserved*. Proved for every tree:

* `compile_identity_off_triggers` — a tree with no reserved/tracked name, no starred call argument and no class is
  returned unchanged (so whatever CPython's parser and Scenic's agree on stays equal);
* `compile_keeps_root_location` / `rw_keeps_location` — the node standing for an original node carries its location
  (`Name → accessor call`, rebuilt `Call`, extended `ClassDef` are placed with `copy_location`);
* `compile_invents_no_line` — every line number in the result is a line number of the input (or line 1, the starting
  value of `fix_missing_locations`): new nodes inherit, nothing is renumbered;
* `compile_leaves_no_gap` — every node of the result that can carry a location has one.
What "apart from the documented rewrites" means node by node is the definition of `rw` (read it against `compiler.py`);
its agreement with the real compiler is checked by the correspondence run, not proved.
-/
namespace Scenic.C09
open Scenic.Rewrites

theorem compile_identity_off_triggers (cfg : Cfg) (hc : CfgOK cfg) (t : T)
    (hloc : located t = true) (h : noTrigger cfg t = true) : compile cfg t = some t := by
  simp [compile, rw_id cfg hc t h, fixLoc_id _ t hloc]

theorem rw_keeps_location (cfg : Cfg) (tag : String) (loc : Loc) (fs t' : T)
    (h : rw cfg (.node tag loc fs) = some t') : rootLoc t' = loc := rw_rootLoc h

theorem compile_keeps_root_location (cfg : Cfg) (tag : String) (l el : Nat) (fs t' : T)
    (h : compile cfg (.node tag (.at l el) fs) = some t') : rootLoc t' = .at l el := by
  simp only [compile, Option.map_eq_some_iff] at h
  obtain ⟨t0, h0, rfl⟩ := h
  have := rw_rootLoc h0
  cases t0 with
  | node tag' loc' fs' => simp only [rootLoc] at this; subst this; simp [fixLoc, rootLoc]
  | _ => simp [rootLoc] at this

theorem compile_invents_no_line (cfg : Cfg) (t t' : T) (h : compile cfg t = some t') :
    ∀ n ∈ lines t', n ∈ lines t ∨ n = 1 := by
  simp only [compile, Option.map_eq_some_iff] at h
  obtain ⟨t0, h0, rfl⟩ := h
  intro n hn
  rcases fixLoc_lines (1, 1) t0 n hn with h' | h' | h'
  · exact Or.inl (rw_lines t t0 h0 n h')
  · exact Or.inr h'
  · exact Or.inr h'

theorem compile_leaves_no_gap (cfg : Cfg) (t t' : T) (h : compile cfg t = some t') : located t' = true := by
  simp only [compile, Option.map_eq_some_iff] at h
  obtain ⟨t0, _, rfl⟩ := h
  exact fixLoc_located _ _

/-! ### on the data regenerated from compiler.py -/
open Scenic.Gen.RewriteData

/-- side condition: only built-in names are lifted (hypothesis of the identity theorem) -/
theorem gen_cfg_ok : CfgOK cfg := CfgOK_of cfg (by decide)

/-- side condition: the names, lifted targets and wrappers are exactly the documented ones
    (`ego`/`workspace`/`globalParameters` accessors; `str`/`int`/`float` → `_toStrScenic`/`_toIntScenic`/`_toFloatScenic`;
    star wrappers `callWithStarArgs`/`wrapStarredValue`; `Object`; property table).  Set literals and the renaming chain are
    emitted sorted by the translator, so the order of the source does not matter. -/
theorem gen_cfg_documented :
    cfg.tracked = ["ego", "workspace"] ∧ cfg.globalParams = "globalParameters" ∧
    cfg.builtin = ["float", "globalParameters", "int", "str"] ∧
    cfg.lifted = [("float", "_toFloatScenic"), ("int", "_toIntScenic"), ("str", "_toStrScenic")] ∧
    cfg.wrapStar = "wrapStarredValue" ∧ cfg.callStar = "callWithStarArgs" ∧
    cfg.defaultBase = "Object" ∧ cfg.propTable = "_scenic_properties" ∧ cfg.annAssignRejected = true := by decide

theorem scenic_compile_identity_off_triggers (t : T) (hloc : located t = true) (h : noTrigger cfg t = true) :
    compile cfg t = some t := compile_identity_off_triggers cfg gen_cfg_ok t hloc h

theorem scenic_compile_invents_no_line (t t' : T) (h : compile cfg t = some t') :
    ∀ n ∈ lines t', n ∈ lines t ∨ n = 1 := compile_invents_no_line cfg t t' h

/-! ### non-vacuity and the shape of each documented rewrite, on concrete trees -/
namespace Example
def load : T := loadCtx
def nm (s : String) (l : Nat) : T := .node "Name" (.at l l) (list2 (idAtom s) load)
/-- `x + f(y)` on line 3: nothing to rewrite -/
def plain : T := .node "BinOp" (.at 3 3) (list3 (nm "x" 3) (.node "Add" .noattr .nil)
  (.node "Call" (.at 3 3) (list3 (nm "f" 3) (list1 (nm "y" 3)) .nil)))
example : located plain = true ∧ noTrigger cfg plain = true := by decide
example : compile cfg plain = some plain := by decide
/-- `ego` on line 7 becomes `ego()` on line 7, the new inner name inherits line 7 -/
example : compile cfg (nm "ego" 7) =
    some (.node "Call" (.at 7 7) (list3 (.node "Name" (.at 7 7) (list2 (idAtom "ego") load)) .nil .nil)) := by decide
/-- `str(x)` (line 2) becomes `_toStrScenic(x)` -/
example : compile cfg (.node "Call" (.at 2 2) (list3 (nm "str" 2) (list1 (nm "x" 2)) .nil)) =
    some (.node "Call" (.at 2 2) (list3 (nm "_toStrScenic" 2) (list1 (nm "x" 2)) .nil)) := by decide
/-- `f(*a)` with `a` on line 5 of a call starting on line 4: `callWithStarArgs(f, *wrapStarredValue(a, 5))`,
    every new node on the call's lines 4–5 -/
example : compile cfg (.node "Call" (.at 4 5) (list3 (nm "f" 4)
      (list1 (.node "Starred" (.at 5 5) (list2 (nm "a" 5) load))) .nil)) =
    some (.node "Call" (.at 4 5) (list3 (.node "Name" (.at 4 5) (list2 (idAtom "callWithStarArgs") load))
      (list2 (nm "f" 4) (.node "Starred" (.at 4 5) (list2
        (.node "Call" (.at 4 5) (list3 (.node "Name" (.at 4 5) (list2 (idAtom "wrapStarredValue") load))
          (list2 (nm "a" 5) (.node "Constant" (.at 4 5) (list2 (.atom "i:5") noneAtom))) .nil)) load))) .nil)) := by
  decide
/-- binding a reserved name is refused -/
example : compile cfg (.node "Name" (.at 1 1) (list2 (idAtom "int") storeCtx)) = none := by decide
end Example

end Scenic.C09
