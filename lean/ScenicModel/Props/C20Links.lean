import ScenicModel.Model.Roads
/-!
# C20 — link tables: the Boolean checker is equivalent to the ∀-statement of reciprocity
-/
namespace Scenic.C20
open Scenic.Roads

theorem subList_iff (a b : List Nat) : subList a b = true ↔ ∀ x ∈ a, x ∈ b := by
  simp [subList, List.all_eq_true]

theorem forKind_iff (n : Network) (k : Kind) (p : Nat → Elem → Bool) :
    n.forKind k p = true ↔ ∀ i e, n.elems[i]? = some e → e.kind = k → p i e = true := by
  unfold Network.forKind
  rw [List.all_eq_true]
  constructor
  · intro h i e he hk
    have hi : i < n.elems.size := by
      rcases Array.getElem?_eq_some_iff.mp he with ⟨hi, _⟩
      exact hi
    have := h i (List.mem_range.mpr hi)
    simp [he, hk] at this
    exact this
  · intro h i _
    cases he : n.elems[i]? with
    | none => simp
    | some e =>
      by_cases hk : e.kind = k
      · simp [hk]; exact h i e he hk
      · simp [hk]

theorem guardKind_iff (n : Network) (kj : Option Kind) (j : Nat) :
    guardKind n kj j = true ↔ ∀ k', kj = some k' → n.kindOf j = some k' := by
  cases kj with
  | none => simp [guardKind]
  | some k => simp [guardKind]

theorem checkAt_iff (n : Network) (r : Rule) (i : Nat) (e : Elem) :
    r.checkAt n i e = true ↔ r.HoldsAt n i e := by
  cases r with
  | typed k f ks =>
    simp only [Rule.checkAt, Rule.HoldsAt, List.all_eq_true]
    constructor
    · intro h j hj
      have := h j hj
      cases he : n.elems[j]? with
      | none => simp [he] at this
      | some e' => simp [he] at this; exact ⟨e', rfl, this⟩
    · intro h j hj
      obtain ⟨e', he, hk⟩ := h j hj
      simp [he]; exact hk
  | one k f => simp [Rule.checkAt, Rule.HoldsAt]
  | irrefl k f => simp [Rule.checkAt, Rule.HoldsAt]
  | sameDir k f => simp [Rule.checkAt, Rule.HoldsAt, List.all_eq_true]
  | invIf k f g g' =>
    simp only [Rule.checkAt, Rule.HoldsAt, List.all_eq_true]
    constructor
    · intro h j hj
      have := h j hj
      by_cases hd : n.fwdOf j = e.isForward
      · simp [hd] at this; exact ⟨fun _ => this, fun h' => absurd hd h'⟩
      · simp [hd] at this; exact ⟨fun h' => absurd h' hd, fun _ => this⟩
    · intro h j hj
      obtain ⟨h1, h2⟩ := h j hj
      by_cases hd : n.fwdOf j = e.isForward
      · simp [hd]; exact h1 hd
      · simp [hd]; exact h2 hd
  | link k f kj p q m =>
    simp only [Rule.checkAt, Rule.HoldsAt, List.all_eq_true]
    constructor
    · intro h j hj hg
      have := h j hj
      rw [if_pos ((guardKind_iff n kj j).mpr hg)] at this
      cases m with
      | eq => simpa using this
      | into => exact (subList_iff _ _).mp this
    · intro h j hj
      by_cases hg : guardKind n kj j = true
      · rw [if_pos hg]
        have := h j hj ((guardKind_iff n kj j).mp hg)
        cases m with
        | eq => simpa using this
        | into => exact (subList_iff _ _).mpr this
      · rw [if_neg hg]
  | sub k p q => simp only [Rule.checkAt, Rule.HoldsAt]; exact subList_iff _ _
  | same k p q => simp [Rule.checkAt, Rule.HoldsAt]
  | ifFwd k p q q' => simp [Rule.checkAt, Rule.HoldsAt]
  | card k f g => simp [Rule.checkAt, Rule.HoldsAt]
  | memIf k f kj q =>
    simp only [Rule.checkAt, Rule.HoldsAt, List.all_eq_true]
    constructor
    · intro h j hj hg
      have := h j hj
      rw [if_pos ((guardKind_iff n kj j).mpr hg)] at this
      simpa using this
    · intro h j hj
      by_cases hg : guardKind n kj j = true
      · rw [if_pos hg]
        simpa using h j hj ((guardKind_iff n kj j).mp hg)
      · rw [if_neg hg]

/-- the executable check of one rule is equivalent to its ∀-statement -/
theorem rule_check_iff (n : Network) (r : Rule) : r.check n = true ↔ r.Holds n := by
  unfold Rule.check Rule.Holds
  rw [forKind_iff]
  constructor
  · intro h i e he hk; exact (checkAt_iff n r i e).mp (h i e he hk)
  · intro h i e he hk; exact (checkAt_iff n r i e).mpr (h i e he hk)

/-- **linksReciprocal_spec**: the Boolean checker run on the exported tables accepts a network iff
every reciprocity rule holds as a ∀-statement about all elements -/
theorem linksReciprocal_spec (n : Network) : linksReciprocal n = true ↔ Reciprocal n := by
  unfold linksReciprocal Reciprocal
  rw [List.all_eq_true]
  constructor
  · intro h r hr; exact (rule_check_iff n r).mp (h r hr)
  · intro h r hr; exact (rule_check_iff n r).mpr (h r hr)

/-! ### consequences of reciprocity -/

theorem eval_nil (n : Network) (i : Nat) : n.eval [[]] i = [i] := by
  simp [Network.eval, Network.path]

theorem eval_single (n : Network) (f : Field) (i : Nat) : n.eval [[f]] i = n.field f i := by
  simp [Network.eval, Network.path]

theorem field_eq_get (n : Network) (f : Field) (i : Nat) (e : Elem) (h : n.elems[i]? = some e) :
    n.field f i = e.get f := by
  simp [Network.field, h]

/-- **owner_unique**: for every ownership rule `j ∈ f i → p j = [i]`, a child has exactly one
owner: it cannot be listed by two different parents -/
theorem owner_unique (n : Network) (k : Kind) (f : Field) (p : Paths)
    (hr : (Rule.link k f none p [[]] .eq).Holds n)
    (i1 i2 j : Nat) (e1 e2 : Elem)
    (h1 : n.elems[i1]? = some e1) (k1 : e1.kind = k) (m1 : j ∈ e1.get f)
    (h2 : n.elems[i2]? = some e2) (k2 : e2.kind = k) (m2 : j ∈ e2.get f) : i1 = i2 := by
  have a1 := hr i1 e1 h1 k1 j m1 (by intro k' hk; cases hk)
  have a2 := hr i2 e2 h2 k2 j m2 (by intro k' hk; cases hk)
  simp only [eval_nil] at a1 a2
  rw [a1] at a2
  simpa using a2

theorem mem_lane_sections : Rule.link .lane .sections none [[.lane]] [[]] .eq ∈ rules := by decide

/-- **section_lane_unique**: in a reciprocal network a lane section belongs to exactly one lane -/
theorem section_lane_unique (n : Network) (h : Reciprocal n) (l1 l2 s : Nat) (e1 e2 : Elem)
    (h1 : n.elems[l1]? = some e1) (k1 : e1.kind = .lane) (m1 : s ∈ e1.get .sections)
    (h2 : n.elems[l2]? = some e2) (k2 : e2.kind = .lane) (m2 : s ∈ e2.get .sections) : l1 = l2 :=
  owner_unique n .lane .sections [[.lane]] (h _ mem_lane_sections) l1 l2 s e1 e2 h1 k1 m1 h2 k2 m2

theorem mem_lane_group_typed : Rule.typed .lane .group [.laneGroup] ∈ rules := by decide
theorem mem_lane_group_into : Rule.link .lane .group none [[.lanes]] [[]] .into ∈ rules := by decide
theorem mem_group_lanes_road : Rule.link .laneGroup .lanes none [[.road]] [[.road]] .eq ∈ rules := by decide

/-- **lane_owner_chain**: a lane is listed by its group, and its group's road is its own road
(lane → group → road and lane → road commute) -/
theorem lane_owner_chain (n : Network) (h : Reciprocal n) (l g : Nat) (e : Elem)
    (hl : n.elems[l]? = some e) (kl : e.kind = .lane) (hg : g ∈ e.get .group) :
    l ∈ n.field .lanes g ∧ n.field .road g = e.get .road := by
  obtain ⟨eg, heg, hkg⟩ := h _ mem_lane_group_typed l e hl kl g hg
  have hkg' : eg.kind = .laneGroup := by simpa using hkg
  have hin := h _ mem_lane_group_into l e hl kl g hg (by intro k' hk; cases hk)
  simp only [eval_nil, eval_single] at hin
  have hmem : l ∈ n.field .lanes g := hin l (by simp)
  refine ⟨hmem, ?_⟩
  have hmem' : l ∈ eg.get .lanes := by rwa [field_eq_get n .lanes g eg heg] at hmem
  have := h _ mem_group_lanes_road g eg heg hkg' l hmem' (by intro k' hk; cases hk)
  simp only [eval_single] at this
  rw [← this, field_eq_get n .road l e hl]

theorem mem_opp_inv : Rule.link .laneGroup .opposite none [[.opposite]] [[]] .eq ∈ rules := by decide
theorem mem_opp_irrefl : Rule.irrefl .laneGroup .opposite ∈ rules := by decide
theorem mem_opp_road : Rule.link .laneGroup .opposite none [[.road]] [[.road]] .eq ∈ rules := by decide

/-- **opposite_involutive**: the opposite of the opposite group is the group itself, it is a
different group, of the same road -/
theorem opposite_involutive (n : Network) (h : Reciprocal n) (g o : Nat) (e : Elem)
    (hg : n.elems[g]? = some e) (kg : e.kind = .laneGroup) (ho : o ∈ e.get .opposite) :
    n.field .opposite o = [g] ∧ o ≠ g ∧ n.field .road o = e.get .road := by
  have a := h _ mem_opp_inv g e hg kg o ho (by intro k' hk; cases hk)
  have b := h _ mem_opp_irrefl g e hg kg
  have c := h _ mem_opp_road g e hg kg o ho (by intro k' hk; cases hk)
  simp only [eval_nil, eval_single] at a c
  refine ⟨a, ?_, ?_⟩
  · intro hog; subst hog; exact b ho
  · rw [c, field_eq_get n .road g e hg]

theorem mem_adj_sec : Rule.link .laneSection .adjacent none [[.adjacent]] [[]] .into ∈ rules := by decide
theorem mem_adj_lane : Rule.link .lane .adjacent none [[.adjacent]] [[]] .into ∈ rules := by decide

/-- **adjacent_symmetric**: adjacency of lane sections and of lanes is a symmetric relation -/
theorem adjacent_symmetric (n : Network) (h : Reciprocal n) (s t : Nat) (e : Elem)
    (hs : n.elems[s]? = some e) (ks : e.kind = .laneSection ∨ e.kind = .lane)
    (ht : t ∈ e.get .adjacent) : s ∈ n.field .adjacent t := by
  rcases ks with ks | ks
  · have a := h _ mem_adj_sec s e hs ks t ht (by intro k' hk; cases hk)
    simp only [eval_nil, eval_single] at a
    exact a s (by simp)
  · have a := h _ mem_adj_lane s e hs ks t ht (by intro k' hk; cases hk)
    simp only [eval_nil, eval_single] at a
    exact a s (by simp)

theorem mem_man_typed : Rule.typed .lane .maneuvers [.maneuver] ∈ rules := by decide
theorem mem_man_start : Rule.link .lane .maneuvers none [[.start]] [[]] .eq ∈ rules := by decide
theorem mem_man_conn : Rule.link .maneuver .conn none [[.succ]] [[.endLane]] .eq ∈ rules := by decide
theorem mem_man_inter : Rule.link .maneuver .inter none [[.maneuvers]] [[]] .into ∈ rules := by decide
theorem mem_man_in : Rule.link .maneuver .inter none [[.incoming]] [[.start]] .into ∈ rules := by decide
theorem mem_man_out : Rule.link .maneuver .inter none [[.outgoing]] [[.endLane]] .into ∈ rules := by decide

/-- **maneuver_path**: a maneuver listed by a lane starts at that lane; its connecting lane (if
any) leads to its end lane; its intersection (if any) lists the maneuver, has the start lane among
its incoming lanes and the end lane among its outgoing lanes -/
theorem maneuver_path (n : Network) (h : Reciprocal n) (l m : Nat) (e : Elem)
    (hl : n.elems[l]? = some e) (kl : e.kind = .lane) (hm : m ∈ e.get .maneuvers) :
    ∃ em, n.elems[m]? = some em ∧ em.kind = .maneuver ∧ em.get .start = [l] ∧
      (∀ c ∈ em.get .conn, n.field .succ c = em.get .endLane) ∧
      (∀ I ∈ em.get .inter, m ∈ n.field .maneuvers I ∧ l ∈ n.field .incoming I ∧
        ∀ x ∈ em.get .endLane, x ∈ n.field .outgoing I) := by
  obtain ⟨em, hem, hkm⟩ := h _ mem_man_typed l e hl kl m hm
  have hkm' : em.kind = .maneuver := by simpa using hkm
  have a := h _ mem_man_start l e hl kl m hm (by intro k' hk; cases hk)
  simp only [eval_nil, eval_single] at a
  have hstart : em.get .start = [l] := by rw [← field_eq_get n .start m em hem]; exact a
  refine ⟨em, hem, hkm', hstart, ?_, ?_⟩
  · intro c hc
    have b := h _ mem_man_conn m em hem hkm' c hc (by intro k' hk; cases hk)
    simp only [eval_single] at b
    rw [b, field_eq_get n .endLane m em hem]
  · intro I hI
    have b1 := h _ mem_man_inter m em hem hkm' I hI (by intro k' hk; cases hk)
    have b2 := h _ mem_man_in m em hem hkm' I hI (by intro k' hk; cases hk)
    have b3 := h _ mem_man_out m em hem hkm' I hI (by intro k' hk; cases hk)
    simp only [eval_nil, eval_single] at b1 b2 b3
    refine ⟨b1 m (by simp), b2 l ?_, ?_⟩
    · rw [field_eq_get n .start m em hem, hstart]; simp
    · intro x hx
      exact b3 x (by rw [field_eq_get n .endLane m em hem]; exact hx)

theorem mem_grp_pred : Rule.memIf .laneGroup .pred (some .laneGroup) [[.lanes, .pred, .group]] ∈ rules := by decide
theorem mem_grp_succ : Rule.memIf .laneGroup .succ (some .laneGroup) [[.lanes, .succ, .group]] ∈ rules := by decide

/-- **group_link_from_lanes**: in a reciprocal network the predecessor (successor) lane group of a lane
group is the group of the predecessor (successor) of one of its own lanes — a group-level link is never
free-standing -/
theorem group_link_from_lanes (n : Network) (h : Reciprocal n) (g p : Nat) (e : Elem)
    (hg : n.elems[g]? = some e) (kg : e.kind = .laneGroup) (kp : n.kindOf p = some .laneGroup) :
    (p ∈ e.get .pred → ∃ l ∈ n.field .lanes g, ∃ l' ∈ n.field .pred l, p ∈ n.field .group l') ∧
    (p ∈ e.get .succ → ∃ l ∈ n.field .lanes g, ∃ l' ∈ n.field .succ l, p ∈ n.field .group l') := by
  constructor
  · intro hp
    have a := h _ mem_grp_pred g e hg kg p hp (by intro k' hk; cases hk; exact kp)
    simpa [Network.eval, Network.path, List.mem_flatMap] using a
  · intro hp
    have a := h _ mem_grp_succ g e hg kg p hp (by intro k' hk; cases hk; exact kp)
    simpa [Network.eval, Network.path, List.mem_flatMap] using a

end Scenic.C20
