import ScenicModel.Props.C14SideGlobals
/-! C14 side condition (finding `global-leak:currentBehavior:finalizer` while it fails):
    no `with veneer.executeIn*` block is held open across a `yield`. -/
namespace Scenic.C14
open Scenic.Veneer Scenic.Gen

theorem gen_no_suspended_blocks : veneerSuspended = [] := by decide

/-- after any simulation / compilation of the current source, however it ended and whenever abandoned
    generators are finalised, the veneer globals are those of a fresh process -/
theorem sim_restores_globals_current (ops : List Op) (late : List Nat) (n : String) :
    session simTables ops late n = simTables.init n :=
  session_restores simTables gen_sim_tables_wf gen_no_suspended_blocks ops late n

theorem compile_restores_globals_current (ops : List Op) (late : List Nat) (n : String) :
    session compileTables ops late n = compileTables.init n :=
  session_restores compileTables gen_compile_tables_wf gen_no_suspended_blocks ops late n

end Scenic.C14
