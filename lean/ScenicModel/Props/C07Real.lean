import Mathlib.Analysis.SpecialFunctions.Trigonometric.Basic
import ScenicModel.Lemmas.Frames
/-!
# C07 (part 5) — the `(cos, sin)` model instantiated at real angles

All theorems of `C07Algebra / C07Spec / C07Dir / C07Ops` are over an arbitrary field with angles carried
as `(cos, sin)` pairs. Here the pairs are the cosine and sine of a real angle (in radians), which turns
them into statements about the numbers Scenic programs actually contain: a heading `h : ℝ` is the pair
`(Real.cos h, Real.sin h)`, which is a unit angle, and addition / negation of angles is addition /
negation of the pairs.
-/
namespace Scenic.C07
open Scenic.Frames

/-- the `(cos, sin)` pair of a real angle -/
noncomputable def angOfReal (θ : ℝ) : Ang ℝ := ⟨Real.cos θ, Real.sin θ⟩

/-- every real angle gives a unit pair: the hypotheses `Ang.Unit` of the other theorems are satisfied -/
theorem angOfReal_unit (θ : ℝ) : (angOfReal θ).Unit := by
  simp only [Ang.Unit, angOfReal]
  have := Real.cos_sq_add_sin_sq θ
  nlinarith [this]

/-- angle addition, negation, subtraction and `+ π/2` on pairs are the operations on real angles -/
theorem angOfReal_ops (a b : ℝ) :
    (angOfReal a).add (angOfReal b) = angOfReal (a + b) ∧ (angOfReal a).neg = angOfReal (-a) ∧
    (angOfReal a).sub (angOfReal b) = angOfReal (a - b) ∧ (angOfReal a).quarter = angOfReal (a + Real.pi / 2) ∧
    (Ang.zero : Ang ℝ) = angOfReal 0 := by
  refine ⟨?_, ?_, ?_, ?_, ?_⟩
  · ext <;> simp only [Ang.add, angOfReal, Real.cos_add, Real.sin_add]
  · ext <;> simp only [Ang.neg, angOfReal, Real.cos_neg, Real.sin_neg]
  · ext <;> simp only [Ang.sub, Ang.add, Ang.neg, angOfReal, Real.cos_sub, Real.sin_sub] <;> ring
  · ext <;> simp only [Ang.quarter, angOfReal, Real.cos_add_pi_div_two, Real.sin_add_pi_div_two]
  · ext <;> simp only [Ang.zero, angOfReal, Real.cos_zero, Real.sin_zero]

/-- **heading convention, in radians**: the orientation with heading `h` maps the forward axis `+Y` to
    `(-sin h, cos h, 0)`; `h = 0` faces `+Y`, `h = π/2` faces `-X`: positive angles are
    counter-clockwise seen from above. -/
theorem heading_convention_real (h : ℝ) :
    (rotZ (angOfReal h)).mulVec Vec3.ey = ⟨-Real.sin h, Real.cos h, 0⟩ ∧
    (rotZ (angOfReal 0)).mulVec Vec3.ey = (Vec3.ey : Vec3 ℝ) ∧
    (rotZ (angOfReal (Real.pi / 2))).mulVec Vec3.ey = (Vec3.ex.neg : Vec3 ℝ) := by
  refine ⟨?_, ?_, ?_⟩
  · ext <;> simp only [angOfReal] <;> unfold_frames <;> ring
  · ext <;> simp only [angOfReal, Real.cos_zero, Real.sin_zero] <;> unfold_frames <;> ring
  · ext <;> simp only [angOfReal, Real.cos_pi_div_two, Real.sin_pi_div_two] <;> unfold_frames <;> ring

/-- headings compose by adding radians -/
theorem heading_add_real (a b : ℝ) : (rotZ (angOfReal a)).mul (rotZ (angOfReal b)) = rotZ (angOfReal (a + b)) := by
  rw [← rotZ_add, (angOfReal_ops a b).1]

/-- `Orientation.fromEuler(yaw, pitch, roll)` in radians is a proper rotation whose forward axis has
    azimuth `yaw` and altitude `pitch` -/
theorem euler_real (y p r : ℝ) :
    (euler (angOfReal y) (angOfReal p) (angOfReal r)).IsRot ∧
    (euler (angOfReal y) (angOfReal p) (angOfReal r)).mulVec Vec3.ey
      = ⟨-Real.sin y * Real.cos p, Real.cos y * Real.cos p, Real.sin p⟩ := by
  refine ⟨isRot_euler (angOfReal_unit y) (angOfReal_unit p) (angOfReal_unit r), ?_⟩
  ext <;> simp only [angOfReal] <;> unfold_frames <;> ring

/-- the half-angle parametrisation used to feed exact rational rotations to the model is the usual one:
    `(a, b) = (cos θ/2, sin θ/2)` gives the angle `θ` -/
theorem ofHalf_real (θ : ℝ) : Ang.ofHalf (Real.cos (θ / 2)) (Real.sin (θ / 2)) = angOfReal θ := by
  have h1 : Real.cos (θ / 2) * Real.cos (θ / 2) + Real.sin (θ / 2) * Real.sin (θ / 2) = 1 := by
    have := Real.cos_sq_add_sin_sq (θ / 2); nlinarith [this]
  have hc : Real.cos θ = Real.cos (θ / 2) * Real.cos (θ / 2) - Real.sin (θ / 2) * Real.sin (θ / 2) := by
    have := Real.cos_add (θ / 2) (θ / 2); rwa [add_halves] at this
  have hs : Real.sin θ = 2 * Real.cos (θ / 2) * Real.sin (θ / 2) := by
    have := Real.sin_add (θ / 2) (θ / 2); rw [add_halves] at this; rw [this]; ring
  ext <;> simp only [Ang.ofHalf, angOfReal, h1, div_one]
  · exact hc.symm
  · exact hs.symm

end Scenic.C07
