import ScenicModel.Lemmas.Pruning
import Mathlib.Tactic.Linarith
import Mathlib.Tactic.Positivity
import Mathlib.Algebra.Order.Floor.Ring

/-!
C08 (part 3b): the two `while … is None` retry loops of `pruning.py`
(`pruneContainment`: erosion of a mesh container; `pruneVisibility.bufferHelper`: buffering of a view region).

The voxel→mesh conversion is an arbitrary oracle `conv : pitch → Bool`; the theorems hold for every oracle.
-/
namespace Scenic.Pruning

/-- the loop has a way out that does not depend on the conversion: either the doubled pitch reaches a callee
    that cannot fail at pitch 1, or the loop itself breaks once the pitch is 1 -/
def RetryCfg.Terminating (cfg : RetryCfg) : Bool :=
  (cfg.passesCurrentPitch && cfg.calleeTotalAtMax) || cfg.breaksAtMax

theorem retryLoop_succ (cfg : RetryCfg) (conv : Rat → Bool) (p0 : Rat) (fuel : Nat) (cur : Rat) :
    retryLoop cfg conv p0 (fuel + 1) cur =
      if exits cfg conv p0 cur then some 1
      else (retryLoop cfg conv p0 fuel (nextPitch cur)).map (· + 1) := by
  rw [retryLoop]

theorem exits_of_ge_one {cfg : RetryCfg} (hterm : cfg.Terminating = true) (conv : Rat → Bool) (p0 : Rat)
    {cur : Rat} (h : 1 ≤ cur) : exits cfg conv p0 cur = true := by
  simp only [RetryCfg.Terminating, Bool.or_eq_true, Bool.and_eq_true] at hterm
  rcases hterm with ⟨hc, hs⟩ | hb
  · simp [exits, usedPitch, hc, hs, h]
  · simp [exits, hb, h]

theorem retryLoop_terminates_aux (cfg : RetryCfg) (hterm : cfg.Terminating = true)
    (conv : Rat → Bool) (p0 : Rat) :
    ∀ (n : Nat) (cur : Rat), 1 ≤ cur * 2 ^ n → (retryLoop cfg conv p0 (n + 1) cur).isSome = true := by
  intro n
  induction n with
  | zero =>
    intro cur h
    simp only [pow_zero, mul_one] at h
    rw [retryLoop_succ, exits_of_ge_one hterm conv p0 h]; rfl
  | succ n ih =>
    intro cur h
    rw [retryLoop_succ]
    by_cases hb : exits cfg conv p0 cur = true
    · rw [if_pos hb]; rfl
    · rw [if_neg hb]
      have : 1 ≤ nextPitch cur * 2 ^ n := by
        unfold nextPitch
        split
        · rw [pow_succ] at h; linarith
        · have : (1 : Rat) ≤ 2 ^ n := one_le_pow₀ (by norm_num)
          linarith
      have := ih (nextPitch cur) this
      simpa using this

theorem retryLoop_le_fuel (cfg : RetryCfg) (conv : Rat → Bool) (p0 : Rat) :
    ∀ (f : Nat) (cur : Rat) (m : Nat), retryLoop cfg conv p0 f cur = some m → m ≤ f := by
  intro f
  induction f with
  | zero => intro cur m h; simp [retryLoop] at h
  | succ f ih =>
    intro cur m h
    rw [retryLoop_succ] at h
    by_cases hb : exits cfg conv p0 cur = true
    · rw [if_pos hb] at h; simp only [Option.some.injEq] at h; omega
    · rw [if_neg hb] at h
      simp only [Option.map_eq_some_iff] at h
      obtain ⟨a, ha, rfl⟩ := h
      have := ih _ a ha
      omega

/-- **retry_loop_terminates**: a loop with a conversion-independent way out (`Terminating`) finishes for
    *every* behaviour of the voxel→mesh conversion, within `n + 1` iterations when `p0·2ⁿ ≥ 1`. -/
theorem retry_loop_terminates (cfg : RetryCfg) (hterm : cfg.Terminating = true)
    (conv : Rat → Bool) (p0 : Rat) (n : Nat) (h : 1 ≤ p0 * 2 ^ n) :
    ∃ m, m ≤ n + 1 ∧ retryLoop cfg conv p0 (n + 1) p0 = some m := by
  have := retryLoop_terminates_aux cfg hterm conv p0 n p0 h
  obtain ⟨m, hm⟩ := Option.isSome_iff_exists.mp this
  exact ⟨m, retryLoop_le_fuel cfg conv p0 _ _ _ hm, hm⟩

example : (⟨true, false, true⟩ : RetryCfg).Terminating = true ∧
    retryLoop ⟨true, false, true⟩ (fun _ => false) (3/20) 4 (3/20) = some 4 := by decide +kernel

/-- for every positive starting pitch some fuel suffices -/
theorem retry_loop_terminates_any (cfg : RetryCfg) (hterm : cfg.Terminating = true)
    (conv : Rat → Bool) (p0 : Rat) (hp : 0 < p0) :
    ∃ fuel m, retryLoop cfg conv p0 fuel p0 = some m := by
  obtain ⟨n, hn⟩ : ∃ n : Nat, 1 ≤ p0 * 2 ^ n := by
    refine ⟨(1 / p0).ceil.toNat, ?_⟩
    have h1 : 1 / p0 ≤ ((1 / p0).ceil : Rat) := Rat.le_ceil
    have hpos : 0 ≤ (1 / p0).ceil := by
      have : (0 : Rat) < 1 / p0 := by positivity
      have : ((0 : Int) : Rat) < ((1 / p0).ceil : Rat) := by push_cast; linarith
      have : (0 : Int) < (1 / p0).ceil := by exact_mod_cast this
      omega
    have h2 : (((1 / p0).ceil.toNat : Nat) : Rat) = ((1 / p0).ceil : Rat) := by
      have : (((1 / p0).ceil.toNat : Nat) : Int) = (1 / p0).ceil := Int.toNat_of_nonneg hpos
      exact_mod_cast congrArg (fun z : Int => (z : Rat)) this
    have h3 : (((1 / p0).ceil.toNat : Nat) : Rat) ≤ 2 ^ (1 / p0).ceil.toNat := by
      have : (1 / p0).ceil.toNat < 2 ^ (1 / p0).ceil.toNat := Nat.lt_two_pow_self
      exact_mod_cast le_of_lt this
    have h4 : 1 / p0 ≤ 2 ^ (1 / p0).ceil.toNat := by linarith
    rw [div_le_iff₀ hp] at h4
    linarith
  obtain ⟨m, _, hm⟩ := retry_loop_terminates cfg hterm conv p0 n hn
  exact ⟨n + 1, m, hm⟩

/-- **retry_loop_diverges** (the defect repaired by 8b16337f): a loop without `break` that keeps calling with the
    constant starting pitch, or whose callee has no total path at pitch 1, never finishes once the conversion
    fails at the pitches it tries — for every amount of fuel. -/
theorem retry_loop_diverges (cfg : RetryCfg) (conv : Rat → Bool) (p0 : Rat)
    (hbrk : cfg.breaksAtMax = false)
    (hcfg : cfg.calleeTotalAtMax = false ∨ (cfg.passesCurrentPitch = false ∧ p0 < 1))
    (hconv : ∀ p, conv p = false) : ∀ (fuel : Nat) (cur : Rat), retryLoop cfg conv p0 fuel cur = none := by
  intro fuel
  induction fuel with
  | zero => intro cur; rfl
  | succ f ih =>
    intro cur
    rw [retryLoop_succ]
    have : exits cfg conv p0 cur = false := by
      unfold exits
      rw [hconv, hbrk, Bool.or_false, Bool.false_and, Bool.or_false]
      rcases hcfg with h | ⟨h1, h2⟩
      · simp [h]
      · simp only [usedPitch, h1, Bool.false_eq_true, if_false, Bool.and_eq_false_iff,
          decide_eq_false_iff_not, not_le]
        exact Or.inr h2
    rw [this]
    simp only [Bool.false_eq_true, if_false, ih, Option.map_none]

/-- with a constant pitch and no `break` the loop finishes iff the very first conversion succeeds -/
theorem retry_loop_constant_iff (cfg : RetryCfg) (hc : cfg.passesCurrentPitch = false)
    (hbrk : cfg.breaksAtMax = false) (conv : Rat → Bool)
    (p0 : Rat) (hp : p0 < 1) (fuel : Nat) (cur : Rat) :
    (retryLoop cfg conv p0 (fuel + 1) cur).isSome = conv p0 := by
  have hex : ∀ c, exits cfg conv p0 c = conv p0 := by
    intro c
    simp only [exits, usedPitch, hc, hbrk, Bool.false_eq_true, if_false, Bool.false_and, Bool.or_false]
    have : decide (p0 ≥ 1) = false := by simp; exact hp
    rw [this, Bool.and_false, Bool.false_or]
  cases hconv : conv p0 with
  | true => rw [retryLoop_succ, hex, hconv]; rfl
  | false =>
    have : ∀ (f : Nat) (c : Rat), retryLoop cfg conv p0 f c = none := by
      intro f
      induction f with
      | zero => intro c; rfl
      | succ f ih =>
        intro c
        rw [retryLoop_succ, hex, hconv]
        simp only [Bool.false_eq_true, if_false, ih, Option.map_none]
    rw [this]; rfl

/-- the erosion loop before 8b16337f (constant pitch, no break, `_erodeOverapproximate` has no fast path) -/
theorem old_erode_loop_diverges (conv : Rat → Bool) (hconv : ∀ p, conv p = false) (fuel : Nat) :
    retryLoop ⟨false, false, false⟩ conv (3/20) fuel (3/20) = none :=
  retry_loop_diverges _ conv _ rfl (Or.inl rfl) hconv fuel _

/-! ### the retries are useful: each one uses a coarser pitch -/

theorem retryTrace_succ (cfg : RetryCfg) (conv : Rat → Bool) (p0 : Rat) (fuel : Nat) (cur : Rat) :
    retryTrace cfg conv p0 (fuel + 1) cur = usedPitch cfg p0 cur ::
      (if exits cfg conv p0 cur then [] else retryTrace cfg conv p0 fuel (nextPitch cur)) := by
  rw [retryTrace]

theorem nextPitch_pow {cur : Rat} (hc : 0 < cur) (i : Nat) :
    min (nextPitch cur * 2 ^ i) 1 = min (cur * 2 ^ (i + 1)) 1 := by
  unfold nextPitch
  split
  · rw [pow_succ]; congr 1; ring
  · next h =>
    have h2 : (1 : Rat) ≤ 2 ^ i := one_le_pow₀ (by norm_num)
    have h3 : 1 ≤ cur * 2 ^ (i + 1) := by
      rw [pow_succ]
      have : 1 ≤ 2 * cur := not_lt.mp h
      nlinarith
    rw [min_eq_right (by linarith), min_eq_right h3]

/-- **retry_trace_doubles**: when the loop passes `current_pitch` on, the `i`-th call is made with pitch
    `min(p0·2ⁱ, 1)`: every retry is coarser than the one before, until pitch 1. -/
theorem retry_trace_doubles (cfg : RetryCfg) (hc : cfg.passesCurrentPitch = true) (conv : Rat → Bool) (p0 : Rat) :
    ∀ (fuel : Nat) (cur : Rat), 0 < cur → cur ≤ 1 → ∀ (i : Nat) (x : Rat),
      (retryTrace cfg conv p0 fuel cur)[i]? = some x → x = min (cur * 2 ^ i) 1 := by
  intro fuel
  induction fuel with
  | zero => intro cur _ _ i x h; simp [retryTrace] at h
  | succ f ih =>
    intro cur h0 h1 i x h
    rw [retryTrace_succ] at h
    cases i with
    | zero =>
      simp only [List.getElem?_cons_zero, Option.some.injEq, usedPitch, hc, if_true] at h
      subst h
      simp only [pow_zero, mul_one]
      exact (min_eq_left h1).symm
    | succ i =>
      simp only [List.getElem?_cons_succ] at h
      split at h
      · simp at h
      · have hn0 : 0 < nextPitch cur := by unfold nextPitch; split <;> linarith
        have hn1 : nextPitch cur ≤ 1 := by unfold nextPitch; split <;> linarith
        rw [ih (nextPitch cur) hn0 hn1 i x h]
        exact nextPitch_pow h0 i

example : retryTrace ⟨true, false, true⟩ (fun _ => false) (3/20) 10 (3/20) = [3/20, 3/10, 3/5, 1] := by
  decide +kernel

/-- the number of calls is the number of iterations -/
theorem retryTrace_length (cfg : RetryCfg) (conv : Rat → Bool) (p0 : Rat) :
    ∀ (fuel : Nat) (cur : Rat) (m : Nat), retryLoop cfg conv p0 fuel cur = some m →
      (retryTrace cfg conv p0 fuel cur).length = m := by
  intro fuel
  induction fuel with
  | zero => intro cur m h; simp [retryLoop] at h
  | succ f ih =>
    intro cur m h
    rw [retryLoop_succ] at h
    rw [retryTrace_succ]
    by_cases hb : exits cfg conv p0 cur = true
    · rw [if_pos hb] at h ⊢
      simp only [Option.some.injEq] at h
      simp [← h]
    · rw [if_neg hb] at h ⊢
      simp only [Option.map_eq_some_iff] at h
      obtain ⟨a, ha, rfl⟩ := h
      simp [ih _ a ha]

end Scenic.Pruning
