import ScenicModel.Props.C17Cert

/-!
C17 (part 6): the visible regions (`Point.visibleRegion`, the base sphere of `ViewRegion`) and the 2D compatibility
mode.

* `Point.visibleRegion` is the ball of radius `visibleDistance` — exactly the set of points a `Point` can see
  (other than itself) — when the diameter factor extracted from the source is `2`
  (`point_region_iff_visible`); with the factor `1` of the code before f86cbdfc it is not
  (`halved_point_region_misses_visible_point`).
* every point of the view volume lies in the base sphere of `ViewRegion` (`inViewVolume_in_viewRegionBound`), and for
  the full view angles the base sphere *is* the view volume plus its apex (`viewRegionBound_full_iff`).
* the fast path of `Point2D.canSee` (membership in a disc / sector) agrees, for planar scenes, with the general
  point predicate of a viewer whose orientation is the yaw by its heading (`canSee2D_iff_pointVisible`): the 2D mode
  satisfies the same property theorems.
-/
namespace Scenic.Vis

/-! ### the full windows -/

/-- with `viewAngles = (τ, π)` every non-zero vector is inside the windows -/
theorem inWindows_full (vw : Viewer) (h0 : vw.a0 = Half.full) (h1 : vw.a1 = Half.quarter) (v : V3)
    (hv : v ≠ V3.zero) : InWindows Cfg.reference vw v := by
  rw [inWindows_ref]
  refine ⟨hv, ?_, ?_⟩
  · rw [azOK_ref, h0]
    show if v.y * v.y + v.x * v.x = 0 then (-1 : Rat) ≤ 0 else GeMulSqrt v.y (-1) (v.y * v.y + v.x * v.x)
    split
    · norm_num
    · unfold GeMulSqrt
      rw [if_neg (by norm_num)]
      right
      nlinarith [mul_self_nonneg v.x]
  · rw [altOK_ref, h1, V3.normSq_def]
    show _ ≤ (1 : Rat) * 1 * _
    nlinarith [mul_self_nonneg v.x, mul_self_nonneg v.y]

/-- a viewer with the full view angles sees (nothing occluding) exactly the points other than its camera position
    within its visible distance -/
theorem inViewVolume_full_iff (vw : Viewer) (hR : vw.R.IsOrtho) (h0 : vw.a0 = Half.full)
    (h1 : vw.a1 = Half.quarter) (t : V3) :
    InViewVolume vw t ↔ (0 ≤ vw.D ∧ (t.sub vw.cam).normSq ≤ vw.D * vw.D) ∧ t ≠ vw.cam := by
  rw [inViewVolume_iff]
  unfold vf
  rw [Mat3.normSq_applyT hR]
  have hne : vw.R.applyT (t.sub vw.cam) ≠ V3.zero ↔ t ≠ vw.cam := by
    constructor
    · intro h he
      apply h
      rw [he]
      apply V3.ext' <;> simp [V3.zero]
    · intro h he
      apply h
      have := congrArg V3.normSq he
      rw [Mat3.normSq_applyT hR] at this
      exact V3.sub_eq_zero.mp (V3.normSq_eq_zero (by rw [this]; simp [V3.normSq_def, V3.zero]))
  constructor
  · rintro ⟨hd, hw⟩
    exact ⟨hd, hne.mp hw.1⟩
  · rintro ⟨hd, ht⟩
    exact ⟨hd, inWindows_full vw h0 h1 _ (hne.mpr ht)⟩

/-- `Point.canSee` (reference wrappers): with nothing occluding, exactly the points other than the viewer within the
    visible distance -/
theorem point_viewer_sees_iff (pos : V3) (R : Mat3) (off : V3) (D : Rat) (a0 a1 : Half) (t : V3) :
    pointVisible Cfg.reference (mkViewer WrapCfg.reference .point pos R off D a0 a1) t [] = true ↔
      (0 ≤ D ∧ (t.sub pos).normSq ≤ D * D) ∧ t ≠ pos := by
  have e : mkViewer WrapCfg.reference .point pos R off D a0 a1 = ⟨pos, Mat3.id, D, Half.full, Half.quarter⟩ := rfl
  rw [e, point_visible_iff_in_view_volume _ Mat3.id_isOrtho, inViewVolume_full_iff _ Mat3.id_isOrtho rfl rfl]

/-! ### visible regions -/

theorem ballContains_two (c : V3) (D : Rat) (t : V3) :
    BallContains c (2 * D) t ↔ 0 ≤ D ∧ (t.sub c).normSq ≤ D * D := by
  unfold BallContains
  constructor <;> rintro ⟨h1, h2⟩ <;> constructor <;> nlinarith

/-- **point_region_iff_visible**: `Point.visibleRegion` (a ball whose *diameter* is `2·visibleDistance`) contains a
    point other than the viewer exactly when the `Point` can see it with nothing occluding. -/
theorem point_region_iff_visible (pos : V3) (R : Mat3) (off : V3) (D : Rat) (a0 a1 : Half) (t : V3)
    (hne : t ≠ pos) :
    pointRegion WrapCfg.reference pos D t ↔
      pointVisible Cfg.reference (mkViewer WrapCfg.reference .point pos R off D a0 a1) t [] = true := by
  rw [point_viewer_sees_iff]
  unfold pointRegion
  have : ((WrapCfg.reference.pointRegionDiamFactor : Nat) : Rat) = 2 := by norm_num [WrapCfg.reference]
  rw [this, ballContains_two]
  exact ⟨fun h => ⟨h, hne⟩, fun h => h.1⟩

/-- the code before f86cbdfc passed `visibleDistance` itself as each dimension (diameter factor 1) -/
def halvedRegionCfg : WrapCfg := { WrapCfg.reference with pointRegionDiamFactor := 1 }

/-- negation witness for the repaired defect: a `Point` at the origin with visible distance 10 sees the point 6 m
    away, but the region with the halved radius does not contain it -/
theorem halved_point_region_misses_visible_point :
    pointVisible Cfg.reference (mkViewer WrapCfg.reference .point ⟨0, 0, 0⟩ Mat3.id ⟨0, 0, 0⟩ 10 Half.full Half.quarter)
        ⟨0, 6, 0⟩ [] = true ∧
      ¬ pointRegion halvedRegionCfg ⟨0, 0, 0⟩ 10 ⟨0, 6, 0⟩ ∧ pointRegion WrapCfg.reference ⟨0, 0, 0⟩ 10 ⟨0, 6, 0⟩ := by
  decide +kernel

/-- **inViewVolume_in_viewRegionBound**: every point of the view volume lies in the base sphere of `ViewRegion`
    (diameter `2·visibleDistance`, centred at the camera), so intersecting with it loses nothing. -/
theorem inViewVolume_in_viewRegionBound (vw : Viewer) (hR : vw.R.IsOrtho) (t : V3) (h : InViewVolume vw t) :
    viewRegionBound WrapCfg.reference vw.cam vw.D t := by
  rw [inViewVolume_iff] at h
  unfold vf at h
  rw [Mat3.normSq_applyT hR] at h
  unfold viewRegionBound
  refine ⟨rfl, ?_⟩
  have : ((WrapCfg.reference.viewRegionDiamFactor : Nat) : Rat) = 2 := by norm_num [WrapCfg.reference]
  rw [this, ballContains_two]
  exact h.1

/-- with the full view angles (`ViewRegion` case 1.a) the base sphere is exactly the view volume plus its apex -/
theorem viewRegionBound_full_iff (vw : Viewer) (hR : vw.R.IsOrtho) (h0 : vw.a0 = Half.full)
    (h1 : vw.a1 = Half.quarter) (t : V3) (hne : t ≠ vw.cam) :
    viewRegionBound WrapCfg.reference vw.cam vw.D t ↔ InViewVolume vw t := by
  rw [inViewVolume_full_iff vw hR h0 h1]
  unfold viewRegionBound
  have : ((WrapCfg.reference.viewRegionDiamFactor : Nat) : Rat) = 2 := by norm_num [WrapCfg.reference]
  rw [this, ballContains_two]
  exact ⟨fun h => ⟨h.2, hne⟩, fun h => ⟨rfl, h.1⟩⟩

/-! ### 2D compatibility mode -/

theorem Mat3.yaw_isOrtho (c s : Rat) (h : c * c + s * s = 1) : (Mat3.yaw c s).IsOrtho := by
  unfold Mat3.IsOrtho Mat3.yaw
  simp only [V3.dot_def, Mat3.col0, Mat3.col1, Mat3.col2]
  refine ⟨⟨?_, ?_, ?_, ?_, ?_, ?_⟩, ⟨?_, ?_, ?_, ?_, ?_, ?_⟩⟩ <;> nlinarith

theorem azCfg_reference : Cfg2D.reference.azCfg = Cfg.reference := rfl

theorem disc2D_ref (ctr : V3) (D : Rat) (t : V3) :
    Disc2D Cfg2D.reference ctr D t ↔ t.z = ctr.z ∧ 0 ≤ D ∧ (t.sub ctr).normSq ≤ D * D := by
  unfold Disc2D
  simp [Cfg2D.reference]

/-- the sector test is the view-volume test of the viewer at the sector's centre whose orientation is the yaw by the
    heading and whose vertical view angle is `π` -/
theorem sector2D_iff_inViewVolume (ctr : V3) (hd : Half) (hh : hd.c * hd.c + hd.s * hd.s = 1) (D : Rat) (a : Half)
    (t : V3) (hz : t.z = ctr.z) (hne : t ≠ ctr) :
    Sector2D Cfg2D.reference ctr hd D a t ↔ InViewVolume ⟨ctr, Mat3.yaw hd.c hd.s, D, a, Half.quarter⟩ t := by
  have hR := Mat3.yaw_isOrtho hd.c hd.s hh
  unfold Sector2D
  rw [disc2D_ref, azCfg_reference, inViewVolume_iff]
  unfold vf
  simp only [Mat3.normSq_applyT hR]
  rw [inWindows_ref]
  have hv : (Mat3.yaw hd.c hd.s).applyT (t.sub ctr) ≠ V3.zero := by
    intro he
    apply hne
    have := congrArg V3.normSq he
    rw [Mat3.normSq_applyT hR] at this
    exact V3.sub_eq_zero.mp (V3.normSq_eq_zero (by rw [this]; simp [V3.normSq_def, V3.zero]))
  have halt : AltOK Cfg.reference Half.quarter ((Mat3.yaw hd.c hd.s).applyT (t.sub ctr)) := by
    rw [altOK_ref, V3.normSq_def]
    show _ ≤ (1 : Rat) * 1 * _
    nlinarith [mul_self_nonneg ((Mat3.yaw hd.c hd.s).applyT (t.sub ctr)).x,
      mul_self_nonneg ((Mat3.yaw hd.c hd.s).applyT (t.sub ctr)).y]
  constructor
  · rintro ⟨⟨_, hd0, hdist⟩, haz⟩
    exact ⟨⟨hd0, hdist⟩, hv, haz rfl, halt⟩
  · rintro ⟨⟨hd0, hdist⟩, _, haz, _⟩
    exact ⟨⟨hz, hd0, hdist⟩, fun _ => haz⟩

/-- the camera of a 2D viewer is the camera the 3D wrappers compute for the yaw orientation -/
theorem cam2D_eq_mkViewer_cam (k : ViewerKind) (pos off : V3) (hd : Half) (D : Rat) (a a1 : Half) :
    (mkViewer WrapCfg.reference k pos (Mat3.yaw hd.c hd.s) off D a a1).cam = cam2D Cfg2D.reference k pos off hd := by
  cases k <;> rfl

/-- **canSee2D_iff_pointVisible**: for a planar scene, the fast path of `Point2D.canSee` (no occluders, point target)
    answers exactly as the general point predicate does for the same viewer with orientation = yaw by its heading
    and `viewAngles = (viewAngle, π)`. -/
theorem canSee2D_iff_pointVisible (k : ViewerKind) (pos off : V3) (hd : Half)
    (hh : hd.c * hd.c + hd.s * hd.s = 1) (D : Rat) (a : Half) (t : V3)
    (hz : t.z = (cam2D Cfg2D.reference k pos off hd).z) (hne : t ≠ cam2D Cfg2D.reference k pos off hd) :
    canSee2D Cfg2D.reference k pos off hd D a t ↔
      pointVisible Cfg.reference (mkViewer WrapCfg.reference k pos (Mat3.yaw hd.c hd.s) off D a Half.quarter) t []
        = true := by
  have hR := Mat3.yaw_isOrtho hd.c hd.s hh
  cases k with
  | point =>
    rw [point_viewer_sees_iff]
    show Disc2D Cfg2D.reference pos D t ↔ _
    rw [disc2D_ref]
    exact ⟨fun h => ⟨h.2, hne⟩, fun h => ⟨hz, h.1⟩⟩
  | oriented =>
    have e : mkViewer WrapCfg.reference .oriented pos (Mat3.yaw hd.c hd.s) off D a Half.quarter =
        ⟨pos, Mat3.yaw hd.c hd.s, D, a, Half.quarter⟩ := rfl
    rw [e, point_visible_iff_in_view_volume _ hR]
    exact sector2D_iff_inViewVolume pos hd hh D a t hz hne
  | object =>
    have e : mkViewer WrapCfg.reference .object pos (Mat3.yaw hd.c hd.s) off D a Half.quarter =
        ⟨cam2D Cfg2D.reference .object pos off hd, Mat3.yaw hd.c hd.s, D, a, Half.quarter⟩ := rfl
    rw [e, point_visible_iff_in_view_volume _ hR]
    exact sector2D_iff_inViewVolume _ hd hh D a t hz hne

end Scenic.Vis
