import ScenicModel.Lemmas.SimLoop
/-! # C12 (part 2) — `do … for`, `do … until`, `wait for`, `wait until` take effect at exactly the documented step

Theorems about the coroutine machine (`Model/SimCo.lean`), for every stack of frames (i.e. every
nesting of sub-behaviors, loops and `do … for/until` statements), every clock value and every fuel. -/
namespace Scenic.C12
open Scenic.SimLoop

/-- no enclosing condition holds: `scan` reports nothing -/
theorem scan_none_iff (P : Code) (o : Owner) (t : Nat) (s : Stack) :
    (scan P o t s).2 = none ↔ ∀ g, Frame.guard g ∈ s → g.fires P t = false := by
  induction s with
  | nil => simp [scan]
  | cons f rest ih =>
    unfold scan
    split
    · rename_i l r h
      rw [h] at ih
      simp only [reduceCtorEq, false_iff]
      intro hall
      have := ih.mpr (fun g hg => hall g (by simp [hg]))
      simp at this
    · rename_i l h
      rw [h] at ih
      have ih' := ih.mp rfl
      split
      · rename_i g
        constructor
        · intro hn g' hg'
          simp only [List.mem_cons] at hg'
          rcases hg' with hg' | hg'
          · cases hg'
            by_cases hf : g.fires P t = true
            · simp [hf] at hn
            · simpa using hf
          · exact ih' g' hg'
        · intro hall
          have := hall g (by simp)
          simp [this]
      · rename_i hng
        constructor
        · intro _ g' hg'
          simp only [List.mem_cons] at hg'
          rcases hg' with hg' | hg'
          · exact absurd hg'.symm (hng g')
          · exact ih' g' hg'
        · intro _; rfl

/-- `scan` reports the **outermost** enclosing condition that holds, and the frames outside it -/
theorem scan_some (P : Code) (o : Owner) (t : Nat) (s rest : Stack) (h : (scan P o t s).2 = some rest) :
    ∃ inner g, s = inner ++ Frame.guard g :: rest ∧ g.fires P t = true ∧
      ∀ g', Frame.guard g' ∈ rest → g'.fires P t = false := by
  induction s with
  | nil => simp [scan] at h
  | cons f tl ih =>
    unfold scan at h
    split at h
    · rename_i l r heq
      simp only [Option.some.injEq] at h
      subst h
      obtain ⟨inner, g, e1, e2, e3⟩ := ih (by rw [heq])
      exact ⟨f :: inner, g, by simp [e1], e2, e3⟩
    · rename_i l heq
      split at h
      · rename_i g
        by_cases hf : g.fires P t = true
        · simp only [hf, if_true, Option.some.injEq] at h
          subst h
          refine ⟨[], g, rfl, hf, ?_⟩
          exact (scan_none_iff P o t tl).mp (by rw [heq])
        · simp [hf] at h
      · simp at h

/-- **`do/wait … for/until` takes effect at the first resumption at which its condition holds.**
    Behaviors and monitors: if, when the coroutine is resumed at clock `t`, the condition of an
    enclosing `do … for/until` (or `wait for/until`) holds and no condition further out does, then
    everything inside that statement is discarded — however deeply nested the running
    sub-behaviors are — and execution continues with the statement that follows it; nothing of the
    abandoned body runs in this or any later step. -/
theorem do_modifier_fires (P : Code) (o : Owner) (t fuel : Nat) (inner rest : Stack) (g : Guard)
    (ho : ∀ i, o ≠ .comp i) (hg : g.fires P t = true)
    (hout : ∀ g', Frame.guard g' ∈ rest → g'.fires P t = false) :
    resume P o t fuel (inner ++ Frame.guard g :: rest)
      = exec P o t fuel rest (scan P o t (inner ++ Frame.guard g :: rest)).1 := by
  have hsome : (scan P o t (inner ++ Frame.guard g :: rest)).2 = some rest := by
    induction inner with
    | nil =>
      simp only [List.nil_append]
      unfold scan
      have := (scan_none_iff P o t rest).mpr hout
      split
      · rename_i l r h; rw [h] at this; simp at this
      · simp [hg]
    | cons f tl ih =>
      simp only [List.cons_append]
      unfold scan
      split
      · rename_i l r h; rw [h] at ih; simpa using ih
      · rename_i l h; rw [h] at ih; simp at ih
  unfold resume
  split
  · rename_i l r h
    rw [h] at hsome
    simp only [Option.some.injEq] at hsome
    subst hsome
    cases o with
    | comp i => exact absurd rfl (ho i)
    | mon i j => simp [h]
    | beh a => simp [h]
  · rename_i l h; rw [h] at hsome; simp at hsome

/-- **`do … for/until` in a compose block.**  When the condition of an enclosing `do S for/until`
    holds at the resumption of a compose block (and no condition further out does), nothing of the
    block runs: the coroutine hands `stopSubs` to the scenario, which stops the running
    sub-scenarios and continues with the statement that follows (`compose_stopSubs`). -/
theorem do_modifier_fires_compose (P : Code) (i t fuel : Nat) (inner rest : Stack) (g : Guard)
    (hg : g.fires P t = true) (hout : ∀ g', Frame.guard g' ∈ rest → g'.fires P t = false) :
    resume P (.comp i) t fuel (inner ++ Frame.guard g :: rest)
      = ⟨(scan P (.comp i) t (inner ++ Frame.guard g :: rest)).1, .stopSubs rest⟩ := by
  have hsome : (scan P (.comp i) t (inner ++ Frame.guard g :: rest)).2 = some rest := by
    induction inner with
    | nil =>
      simp only [List.nil_append]
      unfold scan
      have := (scan_none_iff P (.comp i) t rest).mpr hout
      split
      · rename_i l r h; rw [h] at this; simp at this
      · simp [hg]
    | cons f tl ih =>
      simp only [List.cons_append]
      unfold scan
      split
      · rename_i l r h; rw [h] at ih; simpa using ih
      · rename_i l h; rw [h] at ih; simp at ih
  unfold resume
  split
  · rename_i l r h
    rw [h] at hsome
    simp only [Option.some.injEq] at hsome
    subst hsome
    simp [h]
  · rename_i l h; rw [h] at hsome; simp at hsome

/-- while no enclosing condition holds, the coroutine simply continues where it was suspended -/
theorem do_modifier_holds (P : Code) (o : Owner) (t fuel : Nat) (s : Stack)
    (hall : ∀ g, Frame.guard g ∈ s → g.fires P t = false) :
    resume P o t fuel s = exec P o t fuel s (scan P o t s).1 := by
  have hn := (scan_none_iff P o t s).mpr hall
  unfold resume
  split
  · rename_i l r h; rw [h] at hn; simp at hn
  · rename_i l h; simp [h]

/-- the condition of `do … for n steps` entered at clock `start` holds exactly from clock `start + n` on -/
theorem for_fires_iff (P : Code) (start thr t : Nat) (ht : start ≤ t) :
    (Guard.forT start thr).fires P t = true ↔ start + thr ≤ t := by
  simp only [Guard.fires, decide_eq_true_eq]
  omega

/-- the condition of `do … until c` is `c`, evaluated at the clock of the resumption -/
theorem until_fires_iff (P : Code) (c t : Nat) : (Guard.untilC c).fires P t = P.cond c t := rfl

/-- **Entering `do X for n`.**  With `n = 0` the statement is skipped without starting `X`; otherwise
    the guard is installed with the current clock as its start and `X` is entered. -/
theorem do_for_enter (P : Code) (a t n thr b : Nat) (ss : List Stmt) (r : Stack) (l : List Ev) :
    exec P (.beh a) t (n + 1) (.seq (.doSub [b] (.forT thr) :: ss) :: r) l =
      if thr = 0 then exec P (.beh a) t n (.seq ss :: r) l
      else exec P (.beh a) t n (.seq (P.behs.getD b []) :: .guard (.forT t thr) :: .seq ss :: r) l := by
  simp [exec, enter]

/-- **`wait for n steps` lasts exactly `n` steps.**  Entered at clock `t` with `n > 0` it suspends
    the coroutine (an empty action) … -/
theorem wait_for_enter (P : Code) (o : Owner) (t n thr : Nat) (ss : List Stmt) (r : Stack) (l : List Ev)
    (hthr : thr ≠ 0) :
    exec P o t (n + 1) (.seq (.doSub [] (.forT thr) :: ss) :: r) l =
      ⟨l, .yield (.acts none) (.waiting :: .guard (.forT t thr) :: .seq ss :: r)⟩ := by
  simp [exec, enter, hthr]

/-- … with `n = 0` it does not suspend at all … -/
theorem wait_for_zero (P : Code) (o : Owner) (t n : Nat) (ss : List Stmt) (r : Stack) (l : List Ev) :
    exec P o t (n + 1) (.seq (.doSub [] (.forT 0) :: ss) :: r) l = exec P o t n (.seq ss :: r) l := by
  simp [exec]

/-- … at every later clock value `t < start + n` it suspends again, in the same state … -/
theorem wait_for_waits (P : Code) (o : Owner) (start thr t fuel : Nat) (k : Stack)
    (ht : start ≤ t) (hlt : t < start + thr)
    (hk : ∀ g, Frame.guard g ∈ k → g.fires P t = false) :
    (resume P o t (fuel + 1) (.waiting :: .guard (.forT start thr) :: k)).res
      = .yield (.acts none) (.waiting :: .guard (.forT start thr) :: k) := by
  rw [do_modifier_holds]
  · simp [exec]
  · intro g hg
    simp only [List.mem_cons, reduceCtorEq, false_or] at hg
    rcases hg with hg | hg
    · cases hg
      have := for_fires_iff P start thr t ht
      by_cases hf : (Guard.forT start thr).fires P t = true
      · have := this.mp hf; omega
      · simpa using hf
    · exact hk g hg

/-- … and at clock `start + n` (and not before) execution continues after the statement. -/
theorem wait_for_ends (P : Code) (o : Owner) (start thr t fuel : Nat) (k : Stack)
    (ho : ∀ i, o ≠ .comp i) (hge : start + thr ≤ t)
    (hk : ∀ g, Frame.guard g ∈ k → g.fires P t = false) :
    resume P o t fuel (.waiting :: .guard (.forT start thr) :: k)
      = exec P o t fuel k (scan P o t (.waiting :: .guard (.forT start thr) :: k)).1 := by
  have := do_modifier_fires P o t fuel [.waiting] k (.forT start thr) ho
    ((for_fires_iff P start thr t (by omega)).mpr hge) hk
  simpa using this

/-- `wait until c`: suspended as long as `c` is false at the clock of the resumption, continues at
    the first resumption at which it is true -/
theorem wait_until_exact (P : Code) (o : Owner) (c t fuel : Nat) (k : Stack) (ho : ∀ i, o ≠ .comp i)
    (hk : ∀ g, Frame.guard g ∈ k → g.fires P t = false) :
    (P.cond c t = false →
      (resume P o t (fuel + 1) (.waiting :: .guard (.untilC c) :: k)).res
        = .yield (.acts none) (.waiting :: .guard (.untilC c) :: k)) ∧
    (P.cond c t = true →
      resume P o t fuel (.waiting :: .guard (.untilC c) :: k)
        = exec P o t fuel k (scan P o t (.waiting :: .guard (.untilC c) :: k)).1) := by
  constructor
  · intro hc
    rw [do_modifier_holds]
    · simp [exec]
    · intro g hg
      simp only [List.mem_cons, reduceCtorEq, false_or] at hg
      rcases hg with hg | hg
      · cases hg; simpa [Guard.fires] using hc
      · exact hk g hg
  · intro hc
    have := do_modifier_fires P o t fuel [.waiting] k (.untilC c) ho (by simpa [Guard.fires] using hc) hk
    simpa using this

/-! ### durations in seconds -/

/-- a clock value `k` has reached a limit of `q` seconds at time step `dt` (`k ≥ q / dt`) exactly when
    `k ≥ secToStepsQ q dt` -/
theorem secToSteps_spec (q dt : Rat) (k : Nat) : secToStepsQ q dt ≤ k ↔ q / dt ≤ (k : Rat) := by
  unfold secToStepsQ
  rw [Int.toNat_le, Rat.ceil_le_iff]
  exact Iff.rfl

example : secToStepsQ (3/2) (1/2) = 3 ∧ secToStepsQ (11/10) (1/10) = 11 ∧ secToStepsQ (1/4) (1/2) = 1 ∧
    secToStepsQ 0 (1/2) = 0 := by decide +kernel

-- non-vacuity of the hypotheses: a `wait for 2 steps` entered at clock 3 inside a `do … until` whose
-- condition (clock ≥ 9) does not hold yet
example : (resume ⟨[.ge 9], []⟩ (.beh 0) 4 5 [.waiting, .guard (.forT 3 2), .seq [.take 1], .guard (.untilC 0)]).res
    = .yield (.acts none) [.waiting, .guard (.forT 3 2), .seq [.take 1], .guard (.untilC 0)] := by
  rfl
example : (resume ⟨[.ge 9], []⟩ (.beh 0) 5 5 [.waiting, .guard (.forT 3 2), .seq [.take 1], .guard (.untilC 0)]).res
    = .yield (.acts (some 1)) [.seq [], .guard (.untilC 0)] := by
  rfl

end Scenic.C12
