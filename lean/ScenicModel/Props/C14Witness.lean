import ScenicModel.Model.Overrides

/-!
# C14 (part 4): negation witnesses

Each hypothesis of the theorems in `C14Overrides/C14Stale/C14Revert` is necessary: a concrete run of the
model violating the conclusion when the hypothesis fails.  `cfgAsFound` is the configuration of the source
before the repairs 84308c42 / 4fbf0f54 (notes/fixes/C14-finally-order.diff, C14-stale-overrides.diff) were
applied, `cfgRepaired` the one after them; the event sequences are the ones the real programs of the
regression corpus (tools/props/c14.py, `REGRESSION`) produce.
-/
namespace Scenic.C14
open Scenic.Overrides

/-- the `finally` block before repair 84308c42: proxies are disabled *before* the running scenarios are stopped -/
def orderAsFound : List Step := [.destroy, .disableProxies, .stopBehaviors, .stopScenarios, .endSimulation]
def orderRepaired : List Step := [.destroy, .stopBehaviors, .stopScenarios, .disableProxies, .endSimulation]

def cfgAsFound : Cfg :=
  { order := orderAsFound, merge := .keepOldest, stopClears := false, agentsEarly := false, destroyGuarded := false }
def cfgRepaired : Cfg :=
  { order := orderRepaired, merge := .keepOldest, stopClears := true, agentsEarly := true, destroyGuarded := false }

/-- `ego.foo = 5; do Sub()` where Sub's setup does `override ego with foo 1`, then an exception:
    the sub-scenario is stopped after the proxy has been removed and "restores" 5 into the scene. -/
def failingRun : List Ev :=
  [.create 0, .start 0, .write 0 0 5, .prepare 1 0, .override 1 0 [(0, 1)], .start 1]

/-- **D1** reverting after the proxies are gone changes the scene (object 0, property 0: 0 ↦ 5) -/
theorem revert_after_disable_changes_scene :
    (runSim cfgAsFound World.zero [] true failingRun).w.orig 0 0 = 5 ∧ World.zero.orig 0 0 = 0 ∧
    safeOrder orderAsFound = false := by decide

/-- with the repaired order the same run leaves the scene alone -/
theorem repaired_order_keeps_scene :
    (runSim cfgRepaired World.zero [] true failingRun).w.orig 0 0 = 0 ∧ safeOrder orderRepaired = true := by decide

/-- **D2** even with a safe order, a top-level scenario that does not forget its reverted overrides changes
    the objects of an *earlier* scene when a later scene of the same scenario is simulated
    (scene 1 = object 0, scene 2 = object 1; both simulations end normally). -/
theorem stale_overrides_change_other_scene :
    (runHist { cfgRepaired with stopClears := false } World.zero []
      [(true, [.create 0, .start 0, .write 0 0 5, .override 0 0 [(0, 7)], .stop 0]),
       (true, [.create 1, .start 0, .write 1 0 5, .override 0 1 [(0, 7)], .stop 0])]).1.orig 0 0 = 5 := by decide

theorem forgetting_overrides_keeps_other_scene :
    (runHist cfgRepaired World.zero []
      [(true, [.create 0, .start 0, .write 0 0 5, .override 0 0 [(0, 7)], .stop 0]),
       (true, [.create 1, .start 0, .write 1 0 5, .override 0 1 [(0, 7)], .stop 0])]).1.orig 0 0 = 0 := by decide

/-- **D5** a simulator whose `setup` fails before `self.agents` exists: the `finally` block raises
    `AttributeError` and never reaches `veneer.endSimulation` -/
theorem setup_failure_skips_endSimulation :
    (runSim cfgAsFound World.zero [] false []).ended = false ∧
    (runSim cfgRepaired World.zero [] false []).ended = true := by decide

/-- the bookkeeping before commit c4c953c9 (only the first dictionary of old values per object is kept):
    the second overridden property of the same object stays overridden after the scenario ended (probe_t3) -/
theorem first_dict_only_loses_second_override :
    (run { cfgRepaired with merge := .firstDictOnly } (initSt World.zero [])
      [.create 0, .start 0, .prepare 1 0, .override 1 0 [(0, 1)], .override 1 0 [(1, 2)], .start 1, .stop 1]).w.read 0 1 = 2 ∧
    (run cfgRepaired (initSt World.zero [])
      [.create 0, .start 0, .prepare 1 0, .override 1 0 [(0, 1)], .override 1 0 [(1, 2)], .start 1, .stop 1]).w.read 0 1 = 0 := by
  decide

/-- replacing the dictionary (`self._overrides[obj] = oldVals`) loses the first override instead -/
theorem overwrite_dict_loses_first_override :
    (run { cfgRepaired with merge := .overwriteDict } (initSt World.zero [])
      [.create 0, .start 0, .prepare 1 0, .override 1 0 [(0, 1)], .override 1 0 [(1, 2)], .start 1, .stop 1]).w.read 0 0 = 1 := by
  decide

end Scenic.C14
