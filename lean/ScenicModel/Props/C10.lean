import ScenicModel.Props.C10Peg
import ScenicModel.Props.C10Front
import ScenicModel.Gen.PegGrammarC10
import ScenicModel.Gen.FrontStateC10
/-! # C10 — the front end is total: property theorems instantiated on the data regenerated from /repo

Full statement of the property (properties.jsonl):
  *for every input text, parsing and compiling either succeeds or fails with a Scenic syntax error naming a line
  inside the input; it never escapes with an internal exception, never hangs, and always leaves the compiler's global
  state inactive; every syntactic form the language reference shows as valid is accepted with the documented precedence.*

What is proved here, for all inputs (no bound):
* **never hangs** (parser): `scenic_parse_never_hangs` — the grammar of scenic.gram as pegen flattens it
  (`Gen.pegGrammar`, ~700 rules) passes the checker `WF` (`gen_grammar_wf`, re-decided by the kernel on every run), hence
  by `PegTotal.parse_terminates` both passes of `Parser.parse` finish within recursion depth linear in the number of
  tokens, for every token string, whatever the terminals match and whatever the actions return or raise.
* **state inactive afterwards**: `front_state_restored` — for the activation/deactivation data and the try/finally
  skeleton extracted from veneer.py / translator.py (`Gen.frontData`), after any tree of nested compilations with
  failures anywhere, `activity = 0`, the scenario stack is empty, 2D mode is off, and the only globals that may differ
  from their initial values are those in `knownLeaks` (recorded defects; empty once they are repaired).
  `front_state_restored_partial` is the form that holds for the *unguarded* `finally` of `_scenarioFromStream`
  (scripts without a nested top-level call whose activation assertion fails); `unguarded_is_real` is the negation
  witness for the excluded scripts while the guard is missing.
Not provable in this model (settled by enumeration in tools/props/c10.py): that the Python action code raises
only Scenic syntax errors with a line inside the input, and the acceptance of the documented forms. -/
namespace Scenic.C10
open Scenic.PegTotal Scenic.FrontState Scenic.Gen

/-! ## parser -/

/-- side condition on generated data: the flattened scenic.gram is well-formed -/
theorem gen_grammar_wf : WF pegGrammar = true := by decide +kernel

theorem gen_start_ok : pegStart < pegGrammar.rules.size := by decide +kernel

/-- the real grammar: no rule call from any position with any cache hangs -/
theorem scenic_grammar_terminates {σ : Type} (E : Env σ) (r p : Nat) (inv : Bool) (s : St σ)
    (hr : r < pegGrammar.rules.size) (hp : p ≤ E.n) (hc : CInv E pegGrammar s.cache) :
    (interp E pegGrammar (fuelBound pegGrammar E.n) r p inv s).1 ≠ .hang :=
  wellformed_terminates gen_grammar_wf r p inv s hr hp hc

/-- `parse_string` never hangs in the parser: both passes from the `file` rule terminate -/
theorem scenic_parse_never_hangs {σ : Type} (E : Env σ) (o : σ) :
    parse E pegGrammar (fuelBound pegGrammar E.n) pegStart o ≠ .hang :=
  parse_terminates gen_grammar_wf pegStart o gen_start_ok

/-! ## compiler state -/

/-- globals that are written during compilation and never reset (known defects of /repo, see findings.d/C10.json);
the side condition below fails as soon as a *new* leak appears -/
def knownLeaks : List String := ["inInitialScenario"]

def leakNames : List String := (leaks frontData).map (fun i => frontGlobalNames.getD i "?")

/-- side condition on generated data: every global written on activation or by the compile-time API is reset by
`deactivate`, except the recorded leaks -/
theorem gen_veneer_resets_cover_writes : leakNames.all (fun n => knownLeaks.contains n) = true := by decide

/-- side condition on generated data: `deactivate` restores 2D mode at activity 0 -/
theorem gen_skeleton_ok : frontData.mode2DReset = true := by decide

/-- after any compilation (guarded `finally`): inactive, and only recorded leaks may be dirty -/
theorem front_state_restored (o : Opts) (ts : List Tok) (hg : frontData.sfsGuarded = true) :
    (runTop frontData o ts).st.activity = 0 ∧ (runTop frontData o ts).st.stack = 0 ∧
    (runTop frontData o ts).st.mode2D = false ∧ ∀ g ∈ (runTop frontData o ts).st.dirty, g ∈ leaks frontData := by
  have := compile_restores_except_leaks frontData o ts gen_skeleton_ok (Or.inl hg)
  exact ⟨this.2.1, this.2.2.1, this.2.2.2.1, this.2.2.2.2⟩

/-- the same for the current, unguarded skeleton: all scripts without a nested top-level call whose activation
assertion fails (what is missing for the full statement is exactly `frontData.sfsGuarded = true`) -/
theorem front_state_restored_partial (o : Opts) (ts : List Tok) (hp : plainTops ts = true) :
    (runTop frontData o ts).st.activity = 0 ∧ (runTop frontData o ts).st.stack = 0 ∧
    (runTop frontData o ts).st.mode2D = false ∧ ∀ g ∈ (runTop frontData o ts).st.dirty, g ∈ leaks frontData := by
  have := compile_restores_except_leaks frontData o ts gen_skeleton_ok (Or.inr hp)
  exact ⟨this.2.1, this.2.2.1, this.2.2.2.1, this.2.2.2.2⟩

/-- negation witness for the full statement on the current data: while the `finally` is unguarded, a nested
`scenarioFromString(…, params=…)` leaves `activity = -1` -/
theorem unguarded_is_real (h : frontData.sfsGuarded = false) :
    (runTop frontData Opts.plain witnessScript).st.activity = -1 :=
  unguarded_witness frontData h

/-- and each recorded leak is reachable: one compile-time write suffices -/
theorem leak_is_real (g : Nat) (hg : g ∈ leaks frontData) (hw : frontData.compileWrites.contains g = true) :
    g ∈ (runTop frontData Opts.plain [Tok.write g]).st.dirty := by
  simp only [leaks, List.mem_filter, Bool.and_eq_true, Bool.not_eq_true'] at hg
  exact leak_witness frontData g hw hg.2.1 hg.2.2

end Scenic.C10
