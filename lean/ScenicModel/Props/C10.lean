/-! # C10 — property theorems (stub: filled in when the property's model is built) -/
namespace Scenic.C10
end Scenic.C10
