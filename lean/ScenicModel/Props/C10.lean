import ScenicModel.Props.C10Peg
import ScenicModel.Props.C10Front
import ScenicModel.Gen.PegGrammarC10
import ScenicModel.Gen.FrontStateC10
import ScenicModel.Props.C10ErrLoc
import ScenicModel.Gen.ErrLocC10
/-! # C10 — the front end is total: property theorems instantiated on the data regenerated from /repo

Full statement of the property (properties.jsonl):
  *for every input text, parsing and compiling either succeeds or fails with a Scenic syntax error naming a line
  inside the input; it never escapes with an internal exception, never hangs, and always leaves the compiler's global
  state inactive; every syntactic form the language reference shows as valid is accepted with the documented precedence.*

What is proved here, for all inputs (no bound):
* **never hangs** (parser): `scenic_parse_never_hangs` — the grammar of scenic.gram as pegen flattens it
  (`Gen.pegGrammar`, ~700 rules) passes the checker `WF` (`gen_grammar_wf`, re-decided by the kernel on every run), hence
  by `PegTotal.parse_terminates` both passes of `Parser.parse` finish within recursion depth linear in the number of
  tokens, for every token string, whatever the terminals match and whatever the actions return or raise.
* **one internal exception excluded for all inputs**: `scenic_loc_actions_see_tokens` — no action that uses `LOCATIONS`
  is ever run on an empty token window (`gen_loc_safe` re-decided on every run), so the generated parser's
  `get_last_non_whitespace_token()` never leaves `tok` unbound; more generally `PegTotal.oracle_invariant`: every call
  of the action code is for an alternative of the grammar, on a window inside the input, empty only if the nullable
  table allows it.
* **state inactive afterwards**: `front_state_restored` — for the activation/deactivation data and the try/finally
  skeleton extracted from veneer.py / translator.py (`Gen.frontData`), after any tree of nested compilations with
  failures anywhere (nested imports, nested top-level calls with or without overrides / 2D mode, caught or not), the
  state *is* the inactive state: `activity = 0`, empty scenario stack, 2D mode off, every tracked global at its initial
  value.  The two facts about the source this needs are side conditions re-decided on every run:
  `gen_finally_guarded` (the `finally` of `_scenarioFromStream` deactivates only after a successful activation) and
  `gen_veneer_resets_cover_writes` (no global written at compile time escapes `deactivate`).
  `FrontState.unguarded_witness` / `leak_witness` show that neither side condition can be dropped.
Not provable in this model (settled by enumeration in tools/props/c10.py): that the Python action code raises
only Scenic syntax errors with a line inside the input, and the acceptance of the documented forms. -/
namespace Scenic.C10
open Scenic.PegTotal Scenic.FrontState Scenic.Gen

/-! ## parser -/

/-- side condition on generated data: the flattened scenic.gram is well-formed -/
theorem gen_grammar_wf : WF pegGrammar = true := by decide +kernel

theorem gen_start_ok : pegStart < pegGrammar.rules.size := by decide +kernel

/-- the real grammar: no rule call from any position with any cache hangs -/
theorem scenic_grammar_terminates {σ : Type} (E : Env σ) (r p : Nat) (inv : Bool) (s : St σ)
    (hr : r < pegGrammar.rules.size) (hp : p ≤ E.n) (hc : CInv E pegGrammar s.cache) :
    (interp E pegGrammar (fuelBound pegGrammar E.n) r p inv s).1 ≠ .hang :=
  wellformed_terminates gen_grammar_wf r p inv s hr hp hc

/-- `parse_string` never hangs in the parser: both passes from the `file` rule terminate -/
theorem scenic_parse_never_hangs {σ : Type} (E : Env σ) (o : σ) :
    parse E pegGrammar (fuelBound pegGrammar E.n) pegStart o ≠ .hang :=
  parse_terminates gen_grammar_wf pegStart o gen_start_ok

/-- side condition on generated data: no alternative whose action uses `LOCATIONS` can match the empty token string -/
theorem gen_loc_safe : locSafe pegGrammar (fun a => pegLocBits.testBit a) = true := by decide +kernel

/-- on the real grammar, in both passes of `Parser.parse`, for every token string, terminal matching and action
behaviour: an action that uses `LOCATIONS` is only ever run after at least one token has been consumed by its
alternative, so `get_last_non_whitespace_token()` in the generated parser always finds its token (no
`UnboundLocalError`), and the end position it reports lies inside the token list. -/
theorem scenic_loc_actions_see_tokens {σ : Type} (E : Env σ) (o : σ) :
    (interp (monitor (fun a => pegLocBits.testBit a) E) pegGrammar (fuelBound pegGrammar E.n) pegStart 0 false
      ⟨{}, (o, false)⟩).2.orc.2 = false ∧
    (interp (monitor (fun a => pegLocBits.testBit a) E) pegGrammar (fuelBound pegGrammar E.n) pegStart 0 true
      ⟨{}, (interp (monitor (fun a => pegLocBits.testBit a) E) pegGrammar (fuelBound pegGrammar E.n) pegStart 0 false
        ⟨{}, (o, false)⟩).2.orc⟩).2.orc.2 = false :=
  parse_actions_see_tokens gen_grammar_wf _ gen_loc_safe _ pegStart o

/-! ## compiler state -/

/-- names of the globals that some compile-time path writes and no `deactivate` resets (must be empty) -/
def leakNames : List String := (leaks frontData).map (fun i => frontGlobalNames.getD i "?")

/-- side condition on generated data: every global written on activation or by the compile-time API of the veneer
is reset by `deactivate` -/
theorem gen_veneer_resets_cover_writes : leaks frontData = [] := by decide

/-- side condition on generated data: `deactivate` restores 2D mode at activity 0 -/
theorem gen_skeleton_ok : frontData.mode2DReset = true := by decide

/-- side condition on generated data: the `finally` of `_scenarioFromStream` deactivates only if its own activation
succeeded -/
theorem gen_finally_guarded : frontData.sfsGuarded = true := by decide

/-- **State restoration on the current source, all scripts, all options**: after `scenarioFromString` returns or raises,
the veneer state is the inactive state. -/
theorem front_state_restored (o : Opts) (ts : List Tok) : (runTop frontData o ts).st = St.inactive :=
  compile_restores_inactive_guarded frontData o ts gen_skeleton_ok gen_veneer_resets_cover_writes gen_finally_guarded

/-- in particular `veneer.isActive()` is false and nothing is left on the scenario stack -/
theorem front_inactive_afterwards (o : Opts) (ts : List Tok) :
    (runTop frontData o ts).st.activity = 0 ∧ (runTop frontData o ts).st.stack = 0 ∧
    (runTop frontData o ts).st.mode2D = false ∧ (runTop frontData o ts).st.dirty = [] := by
  rw [front_state_restored]; exact ⟨rfl, rfl, rfl, rfl⟩

/-- and no frame of the machine is left open -/
theorem front_no_frame_left (o : Opts) (ts : List Tok) : (runTop frontData o ts).frames = [] :=
  (compile_restores_except_leaks frontData o ts gen_skeleton_ok (Or.inl gen_finally_guarded)).1

-- non-vacuity on the generated data: a nested top-level call with overrides inside an import, a failure, a write
example : (runTop frontData ⟨true, true⟩
    [Tok.write 0, Tok.openImp, Tok.probe, Tok.openTop ⟨true, false⟩ true, Tok.close, Tok.fail, Tok.close, Tok.write 0]).st
    = St.inactive := front_state_restored _ _

/-! ## error-location layer (Model/ErrLoc.lean) on the data regenerated from the generated parser -/
open Scenic.ErrLoc in
/-- side condition, re-decided on every run: reported line = `start[0]`, TokenError wrapper reports the line, every helper
    is protected (KeyError fallback from a start line, or all source lines pre-loaded) -/
theorem gen_errloc_ok : Scenic.Gen.errLocData.ok = true := by decide

open Scenic.ErrLoc in
/-- for every history of fetched tokens of an `N`-line text and arguments drawn from it, every error helper of the current
    parser builds its syntax error without `KeyError`, on a line in `[1, N+1]` -/
theorem scenic_error_helpers_located (N : Nat) (h : List ErrLoc.Tok) (a : ErrLoc.Args)
    (hwf : ∀ t ∈ h, t.wf N = true) (hne : h ≠ [])
    (h1 : a.f1 ∈ h) (h2 : a.l1 ∈ h) (h3 : a.f2 ∈ h) (h4 : a.l2 ∈ h) :
    ∀ hp ∈ Scenic.Gen.errLocData.helpers,
      ∃ line fb, runHelper Scenic.Gen.errLocData N h hp a = .ok line fb ∧ 1 ≤ line ∧ line ≤ N + 1 :=
  table_located _ gen_errloc_ok N h a hwf hne h1 h2 h3 h4

open Scenic.ErrLoc in
theorem scenic_token_error_line (a b : Nat) : tokenErrorLine Scenic.Gen.errLocData a b = a :=
  tokenError_line _ gen_errloc_ok a b

open Scenic.ErrLoc in
example : ∃ hp, hp ∈ Scenic.Gen.errLocData.helpers := by
  have h := gen_errloc_ok
  cases hh : Scenic.Gen.errLocData.helpers with
  | nil => simp [Data.ok, hh] at h
  | cons x xs => exact ⟨x, by simp⟩

end Scenic.C10
