import ScenicModel.Lemmas.PegTotal
/-! # C10 (parser part) — a well-formed pegen grammar never makes the parser hang

Property theorems about the interpreter of `Model/PegTotal.lean`, for **every** grammar accepted by the checker `WF`,
**every** token string length `E.n`, **every** terminal-matching function, **every** (stateful) action oracle, every
start rule, start position and cache satisfying the cache invariant.  No bound on the input. -/
namespace Scenic.PegTotal
open Std

variable {σ : Type}

/-- **Positions only move forward and stay inside the input**, the cache invariant is preserved and the cache only
grows — for any recursion depth. -/
theorem interp_pos_mono {E : Env σ} {g : Grammar} (hwf : WF g = true) (f r p : Nat) (inv : Bool) (s : St σ)
    (hp : p ≤ E.n) (hc : CInv E g s.cache) :
    CInv E g (interp E g f r p inv s).2.cache ∧ Mono s.cache (interp E g f r p inv s).2.cache ∧
    (∀ e, (interp E g f r p inv s).1 = .ok e → p ≤ e ∧ e ≤ E.n) ∧
    (∀ e, (interp E g f r p inv s).1 = .fail e → p ≤ e ∧ e ≤ E.n) := by
  obtain ⟨h1, h2, h3, h4⟩ := interp_sound hwf f r p inv s hp hc
  exact ⟨h1, h2, fun e he => ⟨(h3 e he).1, (h3 e he).2.1⟩, h4⟩

/-- **The nullable table is sound**: a rule that succeeds without consuming a token is marked nullable.
(Hence a `_loop` rule, whose body `WF` requires to be non-nullable, consumes a token in every iteration.) -/
theorem nullable_sound {E : Env σ} {g : Grammar} (hwf : WF g = true) (f r p : Nat) (inv : Bool) (s : St σ)
    (hp : p ≤ E.n) (hc : CInv E g s.cache) (h : (interp E g f r p inv s).1 = .ok p) :
    g.isNullable r = true :=
  ((interp_sound hwf f r p inv s hp hc).2.2.1 p h).2.2 rfl

/-- **Termination.**  With recursion depth `fuelBound g E.n` — linear in the number of tokens — the interpreter never
runs out of fuel and no loop counter (`_loop` rules, left-recursion seed growing) runs out. -/
theorem wellformed_terminates {E : Env σ} {g : Grammar} (hwf : WF g = true) (r p : Nat) (inv : Bool) (s : St σ)
    (hr : r < g.rules.size) (hp : p ≤ E.n) (hc : CInv E g s.cache) :
    (interp E g (fuelBound g E.n) r p inv s).1 ≠ .hang :=
  interp_term hwf (fuelBound g E.n) r p inv s hr hp hc (Meas_lt_fuelBound (WF_facts g hwf).1 p s.cache r)

/-- more fuel never hurts: the bound is a bound -/
theorem terminates_of_le {E : Env σ} {g : Grammar} (hwf : WF g = true) (f r p : Nat) (inv : Bool) (s : St σ)
    (hf : fuelBound g E.n ≤ f) (hr : r < g.rules.size) (hp : p ≤ E.n) (hc : CInv E g s.cache) :
    (interp E g f r p inv s).1 ≠ .hang :=
  interp_term hwf f r p inv s hr hp hc (Nat.lt_of_lt_of_le (Meas_lt_fuelBound (WF_facts g hwf).1 p s.cache r) hf)

/-- **Both passes of `Parser.parse` terminate** (first pass, cache cleared, second pass with the `invalid_` rules). -/
theorem parse_terminates {E : Env σ} {g : Grammar} (hwf : WF g = true) (start : Nat) (o : σ)
    (hr : start < g.rules.size) : parse E g (fuelBound g E.n) start o ≠ .hang := by
  unfold parse
  have h1 := wellformed_terminates (E := E) hwf start 0 false ⟨{}, o⟩ hr (Nat.zero_le _) (CInv_empty E g)
  cases hres : interp E g (fuelBound g E.n) start 0 false ⟨{}, o⟩ with
  | mk res s1 =>
    rw [hres] at h1
    cases res with
    | ok e => simp
    | raise => simp
    | hang => exact absurd rfl h1
    | fail e =>
      simp only
      have h2 := wellformed_terminates (E := E) hwf start 0 true ⟨{}, s1.orc⟩ hr (Nat.zero_le _) (CInv_empty E g)
      cases hres2 : interp E g (fuelBound g E.n) start 0 true ⟨{}, s1.orc⟩ with
      | mk res2 s2 =>
        rw [hres2] at h2
        cases res2 <;> simp_all

/-- the fuel bound is linear in the input length -/
theorem fuelBound_linear (g : Grammar) (n : Nat) :
    fuelBound g n = n * ((g.numLeaders + 1) * (g.rankBase + 1)) + ((g.numLeaders + 1) * (g.rankBase + 1) + 1) := by
  unfold fuelBound
  rw [Nat.succ_mul]
  omega

/-! ### the hypotheses are satisfiable, and the checker rejects what pegen would hang on -/

/-- `e: e '+' NAME | NAME` (left-recursive leader), `s: e*` via a loop rule, `start: s ENDMARKER` -/
def demo : Grammar :=
  ⟨#[⟨[⟨[.plain (.rule 0), .plain (.tok 1), .plain (.tok 0)], false, 0⟩, ⟨[.plain (.tok 0)], false, 1⟩], .leader, false, false⟩,
     ⟨[⟨[.plain (.rule 0)], false, 2⟩], .memo, true, false⟩,
     ⟨[⟨[.opt (.rule 1), .plain (.tok 2)], false, 3⟩], .memo, false, false⟩],
   0, 1, 0 + 1 * 64 + 2 * 64 ^ 2, 64⟩

example : WF demo = true := by decide
/-- so the termination theorem applies to it, for every input, matching function and oracle -/
example (E : Env Unit) : parse E demo (fuelBound demo E.n) 2 () ≠ .hang :=
  parse_terminates (by decide) 2 () (by decide)
/-- `s: (NAME?)*` — a loop over a nullable body makes pegen spin forever; the checker refuses it -/
def bad : Grammar :=
  ⟨#[⟨[⟨[.opt (.tok 0)], false, 0⟩], .memo, true, false⟩], 0, 0, 1, 64⟩
example : WF bad = false := by decide
/-- `a: a NAME | NAME` *without* the left-recursion memo: unbounded recursion; refused as well -/
def bad2 : Grammar :=
  ⟨#[⟨[⟨[.plain (.rule 0), .plain (.tok 0)], false, 0⟩, ⟨[.plain (.tok 0)], false, 1⟩], .memo, false, false⟩], 0, 0, 1, 64⟩
example : WF bad2 = false := by decide

end Scenic.PegTotal
