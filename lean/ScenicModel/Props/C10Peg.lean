import ScenicModel.Lemmas.PegTotal
import ScenicModel.Lemmas.PegOracle
/-! # C10 (parser part) — a well-formed pegen grammar never makes the parser hang

Property theorems about the interpreter of `Model/PegTotal.lean`, for **every** grammar accepted by the checker `WF`,
**every** token string length `E.n`, **every** terminal-matching function, **every** (stateful) action oracle, every
start rule, start position and cache satisfying the cache invariant.  No bound on the input. -/
namespace Scenic.PegTotal
open Std

variable {σ : Type}

/-- **Positions only move forward and stay inside the input**, the cache invariant is preserved and the cache only
grows — for any recursion depth. -/
theorem interp_pos_mono {E : Env σ} {g : Grammar} (hwf : WF g = true) (f r p : Nat) (inv : Bool) (s : St σ)
    (hp : p ≤ E.n) (hc : CInv E g s.cache) :
    CInv E g (interp E g f r p inv s).2.cache ∧ Mono s.cache (interp E g f r p inv s).2.cache ∧
    (∀ e, (interp E g f r p inv s).1 = .ok e → p ≤ e ∧ e ≤ E.n) ∧
    (∀ e, (interp E g f r p inv s).1 = .fail e → p ≤ e ∧ e ≤ E.n) := by
  obtain ⟨h1, h2, h3, h4⟩ := interp_sound hwf f r p inv s hp hc
  exact ⟨h1, h2, fun e he => ⟨(h3 e he).1, (h3 e he).2.1⟩, h4⟩

/-- **The nullable table is sound**: a rule that succeeds without consuming a token is marked nullable.
(Hence a `_loop` rule, whose body `WF` requires to be non-nullable, consumes a token in every iteration.) -/
theorem nullable_sound {E : Env σ} {g : Grammar} (hwf : WF g = true) (f r p : Nat) (inv : Bool) (s : St σ)
    (hp : p ≤ E.n) (hc : CInv E g s.cache) (h : (interp E g f r p inv s).1 = .ok p) :
    g.isNullable r = true :=
  ((interp_sound hwf f r p inv s hp hc).2.2.1 p h).2.2 rfl

/-- **Termination.**  With recursion depth `fuelBound g E.n` — linear in the number of tokens — the interpreter never
runs out of fuel and no loop counter (`_loop` rules, left-recursion seed growing) runs out. -/
theorem wellformed_terminates {E : Env σ} {g : Grammar} (hwf : WF g = true) (r p : Nat) (inv : Bool) (s : St σ)
    (hr : r < g.rules.size) (hp : p ≤ E.n) (hc : CInv E g s.cache) :
    (interp E g (fuelBound g E.n) r p inv s).1 ≠ .hang :=
  interp_term hwf (fuelBound g E.n) r p inv s hr hp hc (Meas_lt_fuelBound (WF_facts g hwf).1 p s.cache r)

/-- more fuel never hurts: the bound is a bound -/
theorem terminates_of_le {E : Env σ} {g : Grammar} (hwf : WF g = true) (f r p : Nat) (inv : Bool) (s : St σ)
    (hf : fuelBound g E.n ≤ f) (hr : r < g.rules.size) (hp : p ≤ E.n) (hc : CInv E g s.cache) :
    (interp E g f r p inv s).1 ≠ .hang :=
  interp_term hwf f r p inv s hr hp hc (Nat.lt_of_lt_of_le (Meas_lt_fuelBound (WF_facts g hwf).1 p s.cache r) hf)

/-- **Both passes of `Parser.parse` terminate** (first pass, cache cleared, second pass with the `invalid_` rules). -/
theorem parse_terminates {E : Env σ} {g : Grammar} (hwf : WF g = true) (start : Nat) (o : σ)
    (hr : start < g.rules.size) : parse E g (fuelBound g E.n) start o ≠ .hang := by
  unfold parse
  have h1 := wellformed_terminates (E := E) hwf start 0 false ⟨{}, o⟩ hr (Nat.zero_le _) (CInv_empty E g)
  cases hres : interp E g (fuelBound g E.n) start 0 false ⟨{}, o⟩ with
  | mk res s1 =>
    rw [hres] at h1
    cases res with
    | ok e => simp
    | raise => simp
    | hang => exact absurd rfl h1
    | fail e =>
      simp only
      have h2 := wellformed_terminates (E := E) hwf start 0 true ⟨{}, s1.orc⟩ hr (Nat.zero_le _) (CInv_empty E g)
      cases hres2 : interp E g (fuelBound g E.n) start 0 true ⟨{}, s1.orc⟩ with
      | mk res2 s2 =>
        rw [hres2] at h2
        cases res2 <;> simp_all

/-- the fuel bound is linear in the input length -/
theorem fuelBound_linear (g : Grammar) (n : Nat) :
    fuelBound g n = n * ((g.numLeaders + 1) * (g.rankBase + 1)) + ((g.numLeaders + 1) * (g.rankBase + 1) + 1) := by
  unfold fuelBound
  rw [Nat.succ_mul]
  omega

/-- **Every action call is legitimate**: whatever property of the state seen by the Python action code is preserved
by calls `act a p e` where `a` is an alternative of the grammar matched from `p` to `e ≤ n`, of zero width only if its
items are nullable, is preserved by a whole run of the interpreter (any depth, rule, position, admissible cache). -/
theorem oracle_invariant {E : Env σ} {g : Grammar} (hwf : WF g = true) (I : σ → Prop) (hact : ActPreserves E g I)
    (f r p : Nat) (inv : Bool) (s : St σ) (hp : p ≤ E.n) (hc : CInv E g s.cache) (hi : I s.orc) :
    I (interp E g f r p inv s).2.orc :=
  interp_oracle_inv hwf hact f r p inv s hp hc hi

/-- **Marked actions always see a token.**  If no alternative whose action is marked by `loc` can match nothing
(`locSafe`, decidable), then during any run no marked action is ever executed on an empty token window: the flag of the
monitoring environment stays down.  (pegen emits `tok = self._tokenizer.get_last_non_whitespace_token()` before an action
that uses `LOCATIONS`; on an empty window `tok` is unbound and the generated parser dies with `UnboundLocalError`.) -/
theorem actions_see_tokens {E : Env σ} {g : Grammar} (hwf : WF g = true) (loc : Nat → Bool) (hl : locSafe g loc = true)
    (f r p : Nat) (inv : Bool) (s : St (σ × Bool)) (hp : p ≤ E.n) (hc : CInv (monitor loc E) g s.cache)
    (h0 : s.orc.2 = false) : (interp (monitor loc E) g f r p inv s).2.orc.2 = false :=
  interp_oracle_inv hwf (monitor_preserves hl) f r p inv s hp hc h0

/-- the same for the two passes of `Parser.parse` (the second pass starts from the oracle state the first one left) -/
theorem parse_actions_see_tokens {E : Env σ} {g : Grammar} (hwf : WF g = true) (loc : Nat → Bool)
    (hl : locSafe g loc = true) (fuel start : Nat) (o : σ) :
    (interp (monitor loc E) g fuel start 0 false ⟨{}, (o, false)⟩).2.orc.2 = false ∧
    (interp (monitor loc E) g fuel start 0 true
      ⟨{}, (interp (monitor loc E) g fuel start 0 false ⟨{}, (o, false)⟩).2.orc⟩).2.orc.2 = false := by
  have h1 := actions_see_tokens (E := E) hwf loc hl fuel start 0 false ⟨{}, (o, false)⟩ (Nat.zero_le _)
    (CInv_empty _ g) rfl
  exact ⟨h1, actions_see_tokens (E := E) hwf loc hl fuel start 0 true _ (Nat.zero_le _) (CInv_empty _ g) h1⟩

/-! ### the hypotheses are satisfiable, and the checker rejects what pegen would hang on -/

/-- `e: e '+' NAME | NAME` (left-recursive leader), `s: e*` via a loop rule, `start: s ENDMARKER` -/
def demo : Grammar :=
  ⟨#[⟨[⟨[.plain (.rule 0), .plain (.tok 1), .plain (.tok 0)], false, 0⟩, ⟨[.plain (.tok 0)], false, 1⟩], .leader, false, false⟩,
     ⟨[⟨[.plain (.rule 0)], false, 2⟩], .memo, true, false⟩,
     ⟨[⟨[.opt (.rule 1), .plain (.tok 2)], false, 3⟩], .memo, false, false⟩],
   0, 1, 0 + 1 * 64 + 2 * 64 ^ 2, 64⟩

example : WF demo = true := by decide
/-- so the termination theorem applies to it, for every input, matching function and oracle -/
example (E : Env Unit) : parse E demo (fuelBound demo E.n) 2 () ≠ .hang :=
  parse_terminates (by decide) 2 () (by decide)
/-- `s: (NAME?)*` — a loop over a nullable body makes pegen spin forever; the checker refuses it -/
def bad : Grammar :=
  ⟨#[⟨[⟨[.opt (.tok 0)], false, 0⟩], .memo, true, false⟩], 0, 0, 1, 64⟩
example : WF bad = false := by decide
/-- `a: a NAME | NAME` *without* the left-recursion memo: unbounded recursion; refused as well -/
def bad2 : Grammar :=
  ⟨#[⟨[⟨[.plain (.rule 0), .plain (.tok 0)], false, 0⟩, ⟨[.plain (.tok 0)], false, 1⟩], .memo, false, false⟩], 0, 0, 1, 64⟩
example : WF bad2 = false := by decide

/-- in `demo` every alternative consumes a token, so every action may be marked -/
example : locSafe demo (fun _ => true) = true := by decide
example (E : Env Unit) : (interp (monitor (fun _ => true) E) demo (fuelBound demo E.n) 2 0 false ⟨{}, ((), false)⟩).2.orc.2 = false :=
  actions_see_tokens (by decide) _ (by decide) _ 2 0 false _ (Nat.zero_le _) (CInv_empty _ demo) rfl
/-- `x: [NAME] { …LOCATIONS… }` — an alternative that can match nothing whose action needs the last token: refused -/
def bad3 : Grammar :=
  ⟨#[⟨[⟨[.opt (.tok 0)], false, 0⟩], .memo, false, false⟩], 1, 0, 1, 64⟩
example : WF bad3 = true := by decide
example : locSafe bad3 (fun a => a == 0) = false := by decide

end Scenic.PegTotal
