import ScenicModel.Props.C14Base
/-! C14 side condition (finding `global-leak:currentSimulation:setup-failure` while it fails):
    `self.agents` exists before the `try`, so the `finally` block always reaches `veneer.endSimulation`. -/
namespace Scenic.C14
open Scenic.Overrides Scenic.Gen

theorem gen_agents_initialised : simCfg.agentsEarly = true := by decide

/-- whatever happens, the current source reaches `veneer.endSimulation` and un-proxies every object -/
theorem sim_always_ends_current (w : World) (stale : Saved) (agentsSet : Bool) (evs : List Ev) :
    (runSim simCfg w stale agentsSet evs).ended = true :=
  sim_reaches_endSimulation simCfg w stale agentsSet evs (by simp [gen_agents_initialised])
    gen_cleanup_steps_present.2.2

theorem sim_proxies_disabled_current (w : World) (stale : Saved) (agentsSet : Bool) (evs : List Ev)
    (hw : NoneProxied w) : NoneProxied (runSim simCfg w stale agentsSet evs).w :=
  sim_proxies_disabled simCfg w stale agentsSet evs hw (by simp [gen_agents_initialised])
    gen_cleanup_steps_present.1

end Scenic.C14
