import ScenicModel.Props.C17Angles
import ScenicModel.Gen.Visibility

/-!
# C17 — visibility respects the view volume and occlusion

Property theorems, instantiated on the configuration regenerated from /repo
(`Scenic.Gen.visCfg`, `visObjCfg`, `visWrapCfg`, written by `tools/translate/visibility.py` on every run;
the side conditions `gen_*_reference` are re-decided by the kernel on that data).

The general theorems live in `Props/C17Slab.lean` (ray/box geometry), `C17Point.lean` (point predicate),
`C17Object.lean` (object branch), `C17Cert.lean` / `C17Shadow.lean` (certificates of the object oracles) and `C17Angles.lean`
(the polynomial comparisons are the angular comparisons of the code, over the reals).

Statement of the property and where each clause is proved:

* "never report as visible something lying wholly outside X's view volume (visible distance and view angles,
  measured from X's camera position in X's own orientation)":
  `outside_never_visible` (points), `object_outside_never_visible`, `object_outside_cert` (objects);
  the meaning of the view volume in terms of distance / azimuth / altitude: `inViewVolume_iff_angles`;
  camera position and orientation of the three kinds of viewer: `object_viewer`, `oriented_viewer`, `point_viewer`.
* "or whose every line of sight is blocked by an occluding object":
  `blocked_never_visible` (points), `object_hidden_never_visible` (objects), and the checkable form
  `object_hidden_behind_box` (the eight corners blocked by one box ⇒ the whole target hidden; `segMeets_lerp`:
  the shadow of a convex occluder is convex).
* "With nothing occluding, a point is reported visible exactly when it lies inside the view volume":
  `point_visible_iff_in_view_volume`; with box occluders the exact characterisation is `point_visible_iff_clear`
  together with `occlusion_sound` / `occlusion_complete`.
* "and an object whenever a substantial part of it does": NOT a theorem of the model — it depends on the ray
  grid, which is not modelled.  What is proved is the certificate used by the oracle on the real code
  (`insideCert_sound`: the certified part really lies inside the view volume) and, for the model, that the centre
  shortcut makes an object with its centre visible visible (`object_visible_of_centre`).
  Full statement left unproved: `∀ target, (substantial part of target inside the view volume) → canSee target = true`.
* "adding occluding objects can turn visible into not visible but never the reverse":
  `occluders_monotone`, `object_occluders_monotone` (for every configuration, not only the reference one).
* the quantifier "viewer position away from the origin, arbitrary yaw/pitch/roll, camera offsets":
  `rigid_invariance`, `rigid_invariance_object_viewer`, and `ofQuat_isOrtho` (every rational quaternion gives an
  admissible orientation).  The code before the repair b69a50bf (`R⁻¹ t - p`) violates rigid invariance:
  `rotate_first_not_rigid_invariant`.
-/
namespace Scenic.C17
open Scenic.Vis Scenic.Gen

/-! ## side conditions on the generated data -/

/-- the point branch of `visibility.canSee` makes the choices the theorems assume -/
theorem gen_cfg_reference : visCfg = Cfg.reference := by decide

/-- the object branch of `visibility.canSee` has the shape `objectVisible` models -/
theorem gen_objcfg_reference : visObjCfg = ObjCfg.reference := by decide

/-- the viewer wrappers and the occluder plumbing make the choices the theorems assume -/
theorem gen_wrapcfg_reference : visWrapCfg = WrapCfg.reference := by decide

/-! ## what the wrappers hand to `visibility.canSee` -/

/-- `Object.canSee`: camera at `position + R·cameraOffset`, the object's own orientation and view angles -/
theorem object_viewer (pos : V3) (R : Mat3) (off : V3) (D : Rat) (a0 a1 : Half) :
    mkViewer visWrapCfg .object pos R off D a0 a1 = ⟨pos.add (R.apply off), R, D, a0, a1⟩ := by
  rw [gen_wrapcfg_reference]; rfl

/-- `OrientedPoint.canSee`: camera at the position, own orientation and view angles -/
theorem oriented_viewer (pos : V3) (R : Mat3) (off : V3) (D : Rat) (a0 a1 : Half) :
    mkViewer visWrapCfg .oriented pos R off D a0 a1 = ⟨pos, R, D, a0, a1⟩ := by
  rw [gen_wrapcfg_reference]; rfl

/-- `Point.canSee`: no orientation, the full sphere -/
theorem point_viewer (pos : V3) (R : Mat3) (off : V3) (D : Rat) (a0 a1 : Half) :
    mkViewer visWrapCfg .point pos R off D a0 a1 = ⟨pos, Mat3.id, D, Half.full, Half.quarter⟩ := by
  rw [gen_wrapcfg_reference]; rfl

/-- a `Point` viewer sees, with nothing occluding, exactly the points (other than itself) within its visible
    distance -/
theorem point_viewer_sees_iff (pos : V3) (R : Mat3) (off : V3) (D : Rat) (a0 a1 : Half) (t : V3) :
    pointVisible visCfg (mkViewer visWrapCfg .point pos R off D a0 a1) t [] = true ↔
      (0 ≤ D ∧ (t.sub pos).normSq ≤ D * D) ∧ t ≠ pos := by
  rw [point_viewer, gen_cfg_reference, pointVisible_iff]
  simp only [List.not_mem_nil, false_imp_iff, implies_true, and_true, relVec_ref, distOK_ref, Mat3.id_applyT]
  rw [inWindows_ref]
  have hne : t.sub pos ≠ V3.zero ↔ t ≠ pos := not_congr V3.sub_eq_zero
  constructor
  · rintro ⟨hd, hv, _, _⟩
    exact ⟨hd, hne.mp hv⟩
  · rintro ⟨hd, hv⟩
    refine ⟨hd, hne.mpr hv, ?_, ?_⟩
    · rw [azOK_ref]
      show if (t.sub pos).y * (t.sub pos).y + (t.sub pos).x * (t.sub pos).x = 0 then (-1 : Rat) ≤ 0
        else GeMulSqrt (t.sub pos).y (-1) ((t.sub pos).y * (t.sub pos).y + (t.sub pos).x * (t.sub pos).x)
      split
      · norm_num
      · unfold GeMulSqrt
        rw [if_neg (by norm_num)]
        right
        nlinarith [mul_self_nonneg (t.sub pos).x]
    · rw [altOK_ref, V3.normSq_def]
      show _ ≤ (1 : Rat) * 1 * _
      nlinarith [mul_self_nonneg (t.sub pos).x, mul_self_nonneg (t.sub pos).y]

/-! ## the point predicate, on the generated configuration -/

/-- **point_visible_iff_in_view_volume** — with nothing occluding, a point is reported visible exactly when it lies
    inside the view volume. -/
theorem point_visible_iff_in_view_volume (vw : Viewer) (hR : vw.R.IsOrtho) (t : V3) :
    pointVisible visCfg vw t [] = true ↔ InViewVolume vw t := by
  rw [gen_cfg_reference]; exact Vis.point_visible_iff_in_view_volume vw hR t

/-- **outside_never_visible** — a point outside the view volume is never reported visible. -/
theorem outside_never_visible (vw : Viewer) (hR : vw.R.IsOrtho) (t : V3) (occ : List Box)
    (hout : ¬ InViewVolume vw t) : pointVisible visCfg vw t occ = false := by
  rw [gen_cfg_reference]; exact Vis.outside_never_visible vw hR t occ hout

/-- **blocked_never_visible** — a point whose line of sight passes through an occluder is never reported visible. -/
theorem blocked_never_visible (vw : Viewer) (hR : vw.R.IsOrtho) (t : V3) (occ : List Box) (b : Box)
    (hb : b ∈ occ) (hM : b.M.IsOrtho) (hout : ¬ b.Contains vw.cam) (hm : SegMeets b vw.cam t) :
    pointVisible visCfg vw t occ = false := by
  rw [gen_cfg_reference]; exact Vis.blocked_never_visible vw hR t occ b hb hM hout hm

/-- **point_visible_iff_clear** — the exact characterisation with box occluders. -/
theorem point_visible_iff_clear (vw : Viewer) (hR : vw.R.IsOrtho) (t : V3) (occ : List Box)
    (hM : ∀ b ∈ occ, b.M.IsOrtho) :
    pointVisible visCfg vw t occ = true ↔
      InViewVolume vw t ∧
        ∀ b ∈ occ, b.Blocks Cfg.reference vw.cam (t.sub vw.cam) (t.sub vw.cam).normSq = false := by
  rw [gen_cfg_reference]; exact Vis.point_visible_iff_clear vw hR t occ hM

/-- **occluders_monotone** — adding occluders can turn visible into not visible, never the reverse. -/
theorem occluders_monotone (vw : Viewer) (t : V3) (occ occ' : List Box) (hsub : ∀ b ∈ occ, b ∈ occ')
    (h : pointVisible visCfg vw t occ' = true) : pointVisible visCfg vw t occ = true :=
  Vis.occluders_monotone visCfg vw t occ occ' hsub h

/-- **rigid_invariance** — a common rigid motion of viewer, target and occluders changes nothing. -/
theorem rigid_invariance (Q : Mat3) (hQ : Q.IsOrtho) (c : V3) (vw : Viewer) (t : V3) (occ : List Box) :
    pointVisible visCfg (vw.move Q c) (movePt Q c t) (occ.map (Box.move Q c)) = pointVisible visCfg vw t occ := by
  rw [gen_cfg_reference]; exact Vis.rigid_invariance Q hQ c vw t occ

/-- **rigid_invariance_object_viewer** — the same through `Object.canSee` with a camera offset. -/
theorem rigid_invariance_object_viewer (Q : Mat3) (hQ : Q.IsOrtho) (c pos off : V3) (R : Mat3) (D : Rat)
    (a0 a1 : Half) (t : V3) (occ : List Box) :
    pointVisible visCfg (mkViewer visWrapCfg .object (movePt Q c pos) (Q.mul R) off D a0 a1)
        (movePt Q c t) (occ.map (Box.move Q c)) =
      pointVisible visCfg (mkViewer visWrapCfg .object pos R off D a0 a1) t occ := by
  rw [gen_cfg_reference, gen_wrapcfg_reference]
  exact Vis.rigid_invariance_object_viewer Q hQ c pos off R D a0 a1 t occ

/-! ## the object branch, on the generated configuration -/

/-- **object_occluders_monotone** -/
theorem object_occluders_monotone (vw : Viewer) (rays : List V3) (tgt : Box) (occ occ' : List Box)
    (hsub : ∀ b ∈ occ, b ∈ occ') (h : objectVisible visCfg vw rays tgt occ' = true) :
    objectVisible visCfg vw rays tgt occ = true :=
  Vis.object_occluders_monotone visCfg vw rays tgt occ occ' hsub h

/-- **object_outside_never_visible** — an object wholly outside the view volume is never reported visible. -/
theorem object_outside_never_visible (vw : Viewer) (hR : vw.R.IsOrtho) (rays : List V3) (tgt : Box)
    (occ : List Box) (hh : 0 ≤ tgt.h.x ∧ 0 ≤ tgt.h.y ∧ 0 ≤ tgt.h.z) (hcam : ¬ tgt.Contains vw.cam)
    (hout : ∀ p, tgt.Contains p → ¬ InViewVolume vw p) :
    objectVisible visCfg vw rays tgt occ = false := by
  rw [gen_cfg_reference]; exact Vis.object_outside_never_visible vw hR rays tgt occ hh hcam hout

/-- **object_hidden_never_visible** — an object all of whose lines of sight are blocked is never reported visible. -/
theorem object_hidden_never_visible (vw : Viewer) (hR : vw.R.IsOrtho) (rays : List V3) (tgt : Box)
    (occ : List Box) (hh : 0 ≤ tgt.h.x ∧ 0 ≤ tgt.h.y ∧ 0 ≤ tgt.h.z)
    (hhid : ∀ p, tgt.Contains p → ∃ b ∈ occ, b.M.IsOrtho ∧ ¬ b.Contains vw.cam ∧ SegMeets b vw.cam p) :
    objectVisible visCfg vw rays tgt occ = false := by
  rw [gen_cfg_reference]; exact Vis.object_hidden_never_visible vw hR rays tgt occ hh hhid

/-- **object_hidden_behind_box** — the eight corners of the target blocked by one box occluder ⇒ not visible. -/
theorem object_hidden_behind_box (vw : Viewer) (hR : vw.R.IsOrtho) (rays : List V3) (tgt wall : Box)
    (occ : List Box) (hwall : wall ∈ occ) (hMw : wall.M.IsOrtho) (hMt : tgt.M.IsOrtho)
    (hh : 0 ≤ tgt.h.x ∧ 0 ≤ tgt.h.y ∧ 0 ≤ tgt.h.z) (hcam : ¬ wall.Contains vw.cam)
    (hne : ∀ c ∈ tgt.corners, c ≠ vw.cam)
    (hc : ∀ c ∈ tgt.corners, wall.Blocks Cfg.reference vw.cam (c.sub vw.cam) (c.sub vw.cam).normSq = true) :
    objectVisible visCfg vw rays tgt occ = false := by
  rw [gen_cfg_reference]
  exact Vis.object_hidden_behind_box vw hR rays tgt wall occ hwall hMw hMt hh hcam hne hc

/-- the centre shortcut: an object whose centre is reported visible is reported visible -/
theorem object_visible_of_centre (vw : Viewer) (rays : List V3) (tgt : Box) (occ : List Box)
    (h : pointVisible visCfg vw tgt.c occ = true) : objectVisible visCfg vw rays tgt occ = true := by
  rw [objectVisible_iff]; exact Or.inl h

/-- partial form of "an object is visible whenever a substantial part of it lies in the view volume": proved only
    for the part that contains the centre (what is missing: any statement about the ray grid) -/
theorem object_visible_of_centre_in_volume_partial (vw : Viewer) (hR : vw.R.IsOrtho) (rays : List V3)
    (tgt : Box) (h : InViewVolume vw tgt.c) : objectVisible visCfg vw rays tgt [] = true :=
  object_visible_of_centre vw rays tgt [] ((point_visible_iff_in_view_volume vw hR tgt.c).mpr h)

/-! ## negation witness: the code before the repair b69a50bf -/

/-- `R⁻¹ t - p` instead of `R⁻¹ (t - p)` -/
def rotateFirstCfg : Cfg := { Cfg.reference with translateFirst := false }

/-- a viewer at (10,0,0) facing west (yaw 90°), view angles ≈ 74° × 74°, visible distance 20 -/
def westViewer : Viewer := ⟨⟨10, 0, 0⟩, Mat3.ofQuat 1 0 0 1, 20, ⟨4 / 5, 3 / 5⟩, ⟨4 / 5, 3 / 5⟩⟩

/-- With the old order of operations the viewer at (10,0,0) facing west could not see the point 5 m straight ahead,
    although that point is in its view volume and the same scene translated to the origin is seen: the old code
    was not invariant under a common translation of viewer and target. -/
theorem rotate_first_not_rigid_invariant :
    pointVisible rotateFirstCfg westViewer ⟨5, 0, 0⟩ [] = false ∧
    InViewVolume westViewer ⟨5, 0, 0⟩ ∧
    pointVisible rotateFirstCfg (westViewer.move Mat3.id ⟨-10, 0, 0⟩) (movePt Mat3.id ⟨-10, 0, 0⟩ ⟨5, 0, 0⟩) [] = true := by
  decide +kernel

/-- the repaired order sees it -/
theorem reference_sees_point_ahead : pointVisible visCfg westViewer ⟨5, 0, 0⟩ [] = true := by
  decide +kernel

/-! ## the hypotheses are satisfiable by concrete non-trivial values -/

example : westViewer.R.IsOrtho := Mat3.ofQuat_isOrtho 1 0 0 1 (by norm_num)
example : (Mat3.ofQuat 1 2 (-3) 4).IsOrtho := Mat3.ofQuat_isOrtho _ _ _ _ (by norm_num)
example : westViewer.a0.Valid ∧ westViewer.a1.ValidAlt := by
  simp only [Half.Valid, Half.ValidAlt, westViewer]; norm_num
-- point_visible_iff_in_view_volume / outside_never_visible: one point inside, one outside (behind the viewer)
example : InViewVolume westViewer ⟨5, 1, 1⟩ ∧ ¬ InViewVolume westViewer ⟨15, 0, 0⟩ := by decide +kernel
-- blocked_never_visible / occlusion_complete: a unit box between camera and target, camera outside it
example : let b : Box := ⟨⟨7, 0, 0⟩, Mat3.ofQuat 2 0 0 1, ⟨1 / 2, 1 / 2, 1 / 2⟩⟩
    b.M.IsOrtho ∧ ¬ b.Contains westViewer.cam ∧ b.Contains (westViewer.cam.add ((V3.sub ⟨5, 0, 0⟩ westViewer.cam).smul (3 / 5)))
      ∧ pointVisible visCfg westViewer ⟨5, 0, 0⟩ [b] = false := by decide +kernel
-- occluders_monotone: visible with an irrelevant occluder present, hence without it
example : let b : Box := ⟨⟨7, 5, 0⟩, Mat3.id, ⟨1 / 2, 1 / 2, 1 / 2⟩⟩
    pointVisible visCfg westViewer ⟨5, 0, 0⟩ [b] = true := by decide +kernel
-- rigid_invariance: a genuine rotation
example : (Mat3.ofQuat 1 2 3 4).IsOrtho ∧
    pointVisible visCfg (westViewer.move (Mat3.ofQuat 1 2 3 4) ⟨3, -2, 7⟩) (movePt (Mat3.ofQuat 1 2 3 4) ⟨3, -2, 7⟩ ⟨5, 0, 0⟩) [] = true := by
  decide +kernel
-- object theorems: a box behind the viewer is certified outside; a box ahead has its centre visible
example : let tgt : Box := ⟨⟨16, 0, 0⟩, Mat3.ofQuat 3 0 0 1, ⟨1, 1, 1⟩⟩
    outsideCert westViewer tgt = true ∧ ¬ tgt.Contains westViewer.cam ∧ tgt.M.IsOrtho := by decide +kernel
example : let tgt : Box := ⟨⟨4, 0, 0⟩, Mat3.ofQuat 3 0 0 1, ⟨1, 1, 1⟩⟩
    objectVisible visCfg westViewer [] tgt [] = true ∧
      insideCert westViewer ⟨⟨4, 0, 0⟩, Mat3.ofQuat 3 0 0 1, ⟨1 / 2, 1 / 2, 1 / 2⟩⟩ ⟨0, 1, 0⟩ = true := by
  decide +kernel
-- object_hidden_never_visible: a wall hides the target from every candidate ray
example : let tgt : Box := ⟨⟨4, 0, 0⟩, Mat3.id, ⟨1 / 2, 1 / 2, 1 / 2⟩⟩
    let wall : Box := ⟨⟨7, 0, 0⟩, Mat3.id, ⟨1 / 8, 4, 4⟩⟩
    objectVisible visCfg westViewer [⟨0, 1, 0⟩, ⟨1 / 10, 1, 0⟩, ⟨0, 1, 1 / 10⟩] tgt [wall] = false ∧
      objectVisible visCfg westViewer [⟨0, 1, 0⟩] tgt [] = true := by decide +kernel

-- object_hidden_behind_box: the eight corners of the target are blocked by the wall
example : let tgt : Box := ⟨⟨4, 0, 0⟩, Mat3.id, ⟨1 / 2, 1 / 2, 1 / 2⟩⟩
    let wall : Box := ⟨⟨7, 0, 0⟩, Mat3.id, ⟨1 / 8, 4, 4⟩⟩
    (∀ c ∈ tgt.corners, wall.Blocks Cfg.reference westViewer.cam (c.sub westViewer.cam) (c.sub westViewer.cam).normSq = true)
      ∧ ¬ wall.Contains westViewer.cam := by decide +kernel
-- outsideCert through the altitude cone: a box high above a viewer with a narrow vertical window
example : outsideCert westViewer ⟨⟨6, 0, 9⟩, Mat3.ofQuat 2 1 0 0, ⟨1, 1, 1⟩⟩ = true
    ∧ decide (cornersOffBand westViewer ⟨⟨6, 0, 9⟩, Mat3.ofQuat 2 1 0 0, ⟨1, 1, 1⟩⟩ 1) = true := by decide +kernel

end Scenic.C17
