import ScenicModel.Props.C17Angles
import ScenicModel.Props.C17Flat
import ScenicModel.Props.C17Prune
import ScenicModel.Gen.Visibility

/-!
# C17 — visibility respects the view volume and occlusion

Property theorems, instantiated on the configuration regenerated from /repo
(`Scenic.Gen.visCfg`, `visObjCfg`, `visWrapCfg`, `visCfg2D`, written by `tools/translate/visibility.py` on every run;
the side conditions `gen_*_reference` are re-decided by the kernel on that data).

The general theorems live in `Props/C17Slab.lean` (ray/box geometry), `C17Point.lean` (point predicate),
`C17Object.lean` (object branch), `C17Cert.lean` / `C17Shadow.lean` (certificates of the object oracles), `C17Flat.lean`
(visible regions, 2D compatibility mode) and `C17Angles.lean` (the polynomial comparisons are the angular comparisons
of the code, over the reals; the grid rays of the object branch lie inside the windows).

Statement of the property and where each clause is proved:

* "never report as visible something lying wholly outside X's view volume (visible distance and view angles,
  measured from X's camera position in X's own orientation)":
  `outside_never_visible` (points), `object_outside_never_visible`, `object_outside_cert` (objects);
  the meaning of the view volume in terms of distance / azimuth / altitude: `inViewVolume_iff_angles`;
  camera position and orientation of the three kinds of viewer: `object_viewer`, `oriented_viewer`, `point_viewer`;
  the `visibleRegion`s: `point_region_iff_visible` (a `Point`'s region is exactly what it sees),
  `inViewVolume_in_viewRegionBound`, `viewRegionBound_full_iff` (base sphere of `ViewRegion`);
  2D compatibility mode (`Point2D.canSee` fast path): `canSee2D_iff_pointVisible`.
* "or whose every line of sight is blocked by an occluding object":
  `blocked_never_visible` (points), `object_hidden_never_visible` (objects), and the checkable form
  `object_hidden_behind_box` (the eight corners blocked by one box ⇒ the whole target hidden; `segMeets_lerp`:
  the shadow of a convex occluder is convex).
* "With nothing occluding, a point is reported visible exactly when it lies inside the view volume":
  `point_visible_iff_in_view_volume`; with box occluders the exact characterisation is `point_visible_iff_clear`
  together with `occlusion_sound` / `occlusion_complete`.
* "and an object whenever a substantial part of it does": NOT a theorem of the model — it depends on the ray
  grid, which is not modelled.  What is proved is the certificate used by the oracle on the real code
  (`insideCert_sound`: the certified part really lies inside the view volume) and, for the model, that the centre
  shortcut makes an object with its centre visible visible (`object_visible_of_centre`).
  Full statement left unproved: `∀ target, (substantial part of target inside the view volume) → canSee target = true`.
* "adding occluding objects can turn visible into not visible but never the reverse":
  `occluders_monotone`, `object_occluders_monotone` (for every configuration, not only the reference one).
* the quantifier "viewer position away from the origin, arbitrary yaw/pitch/roll, camera offsets":
  `rigid_invariance`, `rigid_invariance_object_viewer`, and `ofQuat_isOrtho` (every rational quaternion gives an
  admissible orientation).  The code before the repair b69a50bf (`R⁻¹ t - p`) violates rigid invariance:
  `rotate_first_not_rigid_invariant`.
-/
namespace Scenic.C17
open Scenic.Vis Scenic.Gen

/-! ## side conditions on the generated data -/

/-- the point branch of `visibility.canSee` makes the choices the theorems assume -/
theorem gen_cfg_reference : visCfg = Cfg.reference := by decide

/-- the object branch of `visibility.canSee` has the shape `objectVisible` models -/
theorem gen_objcfg_reference : visObjCfg = ObjCfg.reference := by decide

/-- the viewer wrappers and the occluder plumbing make the choices the theorems assume -/
theorem gen_wrapcfg_reference : visWrapCfg = WrapCfg.reference := by decide

/-- the 2D compatibility mode makes the choices the theorems assume -/
theorem gen_cfg2d_reference : visCfg2D = Cfg2D.reference := by decide

/-! ## what the wrappers hand to `visibility.canSee` -/

/-- `Object.canSee`: camera at `position + R·cameraOffset`, the object's own orientation and view angles -/
theorem object_viewer (pos : V3) (R : Mat3) (off : V3) (D : Rat) (a0 a1 : Half) :
    mkViewer visWrapCfg .object pos R off D a0 a1 = ⟨pos.add (R.apply off), R, D, a0, a1⟩ := by
  rw [gen_wrapcfg_reference]; rfl

/-- `OrientedPoint.canSee`: camera at the position, own orientation and view angles -/
theorem oriented_viewer (pos : V3) (R : Mat3) (off : V3) (D : Rat) (a0 a1 : Half) :
    mkViewer visWrapCfg .oriented pos R off D a0 a1 = ⟨pos, R, D, a0, a1⟩ := by
  rw [gen_wrapcfg_reference]; rfl

/-- `Point.canSee`: no orientation, the full sphere -/
theorem point_viewer (pos : V3) (R : Mat3) (off : V3) (D : Rat) (a0 a1 : Half) :
    mkViewer visWrapCfg .point pos R off D a0 a1 = ⟨pos, Mat3.id, D, Half.full, Half.quarter⟩ := by
  rw [gen_wrapcfg_reference]; rfl

/-- a `Point` viewer sees, with nothing occluding, exactly the points (other than itself) within its visible
    distance -/
theorem point_viewer_sees_iff (pos : V3) (R : Mat3) (off : V3) (D : Rat) (a0 a1 : Half) (t : V3) :
    pointVisible visCfg (mkViewer visWrapCfg .point pos R off D a0 a1) t [] = true ↔
      (0 ≤ D ∧ (t.sub pos).normSq ≤ D * D) ∧ t ≠ pos := by
  rw [gen_cfg_reference, gen_wrapcfg_reference]; exact Vis.point_viewer_sees_iff pos R off D a0 a1 t

/-! ## the visible regions, on the generated configuration -/

/-- **point_region_iff_visible** — `Point.visibleRegion` contains a point other than the viewer exactly when
    `Point.canSee` reports it visible with nothing occluding (the region has radius `visibleDistance`). -/
theorem point_region_iff_visible (pos : V3) (R : Mat3) (off : V3) (D : Rat) (a0 a1 : Half) (t : V3)
    (hne : t ≠ pos) :
    pointRegion visWrapCfg pos D t ↔
      pointVisible visCfg (mkViewer visWrapCfg .point pos R off D a0 a1) t [] = true := by
  rw [gen_cfg_reference, gen_wrapcfg_reference]; exact Vis.point_region_iff_visible pos R off D a0 a1 t hne

/-- **inViewVolume_in_viewRegionBound** — the base sphere of `ViewRegion` (the `visibleRegion` of `OrientedPoint` /
    `Object`) contains the whole view volume. -/
theorem inViewVolume_in_viewRegionBound (vw : Viewer) (hR : vw.R.IsOrtho) (t : V3) (h : InViewVolume vw t) :
    viewRegionBound visWrapCfg vw.cam vw.D t := by
  rw [gen_wrapcfg_reference]; exact Vis.inViewVolume_in_viewRegionBound vw hR t h

/-- with `viewAngles = (τ, π)` the base sphere is exactly the view volume plus its apex -/
theorem viewRegionBound_full_iff (vw : Viewer) (hR : vw.R.IsOrtho) (h0 : vw.a0 = Half.full)
    (h1 : vw.a1 = Half.quarter) (t : V3) (hne : t ≠ vw.cam) :
    viewRegionBound visWrapCfg vw.cam vw.D t ↔ InViewVolume vw t := by
  rw [gen_wrapcfg_reference]; exact Vis.viewRegionBound_full_iff vw hR h0 h1 t hne

/-! ## 2D compatibility mode, on the generated configuration -/

/-- **canSee2D_iff_pointVisible** — for a planar scene the fast path of `Point2D / OrientedPoint2D / Object2D.canSee`
    (no occluders, point target: membership in the disc / sector `visibleRegion`) answers exactly as the general
    point predicate for the viewer whose orientation is the yaw by its heading and whose `viewAngles` are
    `(viewAngle, π)`; hence every theorem about `pointVisible` above applies to the 2D mode. -/
theorem canSee2D_iff_pointVisible (k : ViewerKind) (pos off : V3) (hd : Half)
    (hh : hd.c * hd.c + hd.s * hd.s = 1) (D : Rat) (a : Half) (t : V3)
    (hz : t.z = (cam2D visCfg2D k pos off hd).z) (hne : t ≠ cam2D visCfg2D k pos off hd) :
    canSee2D visCfg2D k pos off hd D a t ↔
      pointVisible visCfg (mkViewer visWrapCfg k pos (Mat3.yaw hd.c hd.s) off D a Half.quarter) t [] = true := by
  rw [gen_cfg2d_reference] at hz hne ⊢
  rw [gen_cfg_reference, gen_wrapcfg_reference]
  exact Vis.canSee2D_iff_pointVisible k pos off hd hh D a t hz hne

/-! ## the point predicate, on the generated configuration -/

/-- **point_visible_iff_in_view_volume** — with nothing occluding, a point is reported visible exactly when it lies
    inside the view volume. -/
theorem point_visible_iff_in_view_volume (vw : Viewer) (hR : vw.R.IsOrtho) (t : V3) :
    pointVisible visCfg vw t [] = true ↔ InViewVolume vw t := by
  rw [gen_cfg_reference]; exact Vis.point_visible_iff_in_view_volume vw hR t

/-- **outside_never_visible** — a point outside the view volume is never reported visible. -/
theorem outside_never_visible (vw : Viewer) (hR : vw.R.IsOrtho) (t : V3) (occ : List Box)
    (hout : ¬ InViewVolume vw t) : pointVisible visCfg vw t occ = false := by
  rw [gen_cfg_reference]; exact Vis.outside_never_visible vw hR t occ hout

/-- **blocked_never_visible** — a point whose line of sight passes through an occluder is never reported visible. -/
theorem blocked_never_visible (vw : Viewer) (hR : vw.R.IsOrtho) (t : V3) (occ : List Box) (b : Box)
    (hb : b ∈ occ) (hM : b.M.IsOrtho) (hout : ¬ b.Contains vw.cam) (hm : SegMeets b vw.cam t) :
    pointVisible visCfg vw t occ = false := by
  rw [gen_cfg_reference]; exact Vis.blocked_never_visible vw hR t occ b hb hM hout hm

/-- **point_visible_iff_clear** — the exact characterisation with box occluders. -/
theorem point_visible_iff_clear (vw : Viewer) (hR : vw.R.IsOrtho) (t : V3) (occ : List Box)
    (hM : ∀ b ∈ occ, b.M.IsOrtho) :
    pointVisible visCfg vw t occ = true ↔
      InViewVolume vw t ∧
        ∀ b ∈ occ, b.Blocks Cfg.reference vw.cam (t.sub vw.cam) (t.sub vw.cam).normSq = false := by
  rw [gen_cfg_reference]; exact Vis.point_visible_iff_clear vw hR t occ hM

/-- **occluders_monotone** — adding occluders can turn visible into not visible, never the reverse. -/
theorem occluders_monotone (vw : Viewer) (t : V3) (occ occ' : List Box) (hsub : ∀ b ∈ occ, b ∈ occ')
    (h : pointVisible visCfg vw t occ' = true) : pointVisible visCfg vw t occ = true :=
  Vis.occluders_monotone visCfg vw t occ occ' hsub h

/-- **rigid_invariance** — a common rigid motion of viewer, target and occluders changes nothing. -/
theorem rigid_invariance (Q : Mat3) (hQ : Q.IsOrtho) (c : V3) (vw : Viewer) (t : V3) (occ : List Box) :
    pointVisible visCfg (vw.move Q c) (movePt Q c t) (occ.map (Box.move Q c)) = pointVisible visCfg vw t occ := by
  rw [gen_cfg_reference]; exact Vis.rigid_invariance Q hQ c vw t occ

/-- **rigid_invariance_object_viewer** — the same through `Object.canSee` with a camera offset. -/
theorem rigid_invariance_object_viewer (Q : Mat3) (hQ : Q.IsOrtho) (c pos off : V3) (R : Mat3) (D : Rat)
    (a0 a1 : Half) (t : V3) (occ : List Box) :
    pointVisible visCfg (mkViewer visWrapCfg .object (movePt Q c pos) (Q.mul R) off D a0 a1)
        (movePt Q c t) (occ.map (Box.move Q c)) =
      pointVisible visCfg (mkViewer visWrapCfg .object pos R off D a0 a1) t occ := by
  rw [gen_cfg_reference, gen_wrapcfg_reference]
  exact Vis.rigid_invariance_object_viewer Q hQ c pos off R D a0 a1 t occ

/-! ## the object branch, on the generated configuration -/

/-- **object_occluders_monotone** -/
theorem object_occluders_monotone (vw : Viewer) (rays : List V3) (tgt : Box) (occ occ' : List Box)
    (hsub : ∀ b ∈ occ, b ∈ occ') (h : objectVisible visCfg vw rays tgt occ' = true) :
    objectVisible visCfg vw rays tgt occ = true :=
  Vis.object_occluders_monotone visCfg vw rays tgt occ occ' hsub h

/-- **object_outside_never_visible** — an object wholly outside the view volume is never reported visible. -/
theorem object_outside_never_visible (vw : Viewer) (hR : vw.R.IsOrtho) (rays : List V3) (tgt : Box)
    (occ : List Box) (hh : 0 ≤ tgt.h.x ∧ 0 ≤ tgt.h.y ∧ 0 ≤ tgt.h.z) (hcam : ¬ tgt.Contains vw.cam)
    (hout : ∀ p, tgt.Contains p → ¬ InViewVolume vw p) :
    objectVisible visCfg vw rays tgt occ = false := by
  rw [gen_cfg_reference]; exact Vis.object_outside_never_visible vw hR rays tgt occ hh hcam hout

/-- **object_hidden_never_visible** — an object all of whose lines of sight are blocked is never reported visible. -/
theorem object_hidden_never_visible (vw : Viewer) (hR : vw.R.IsOrtho) (rays : List V3) (tgt : Box)
    (occ : List Box) (hh : 0 ≤ tgt.h.x ∧ 0 ≤ tgt.h.y ∧ 0 ≤ tgt.h.z)
    (hhid : ∀ p, tgt.Contains p → ∃ b ∈ occ, b.M.IsOrtho ∧ ¬ b.Contains vw.cam ∧ SegMeets b vw.cam p) :
    objectVisible visCfg vw rays tgt occ = false := by
  rw [gen_cfg_reference]; exact Vis.object_hidden_never_visible vw hR rays tgt occ hh hhid

/-- **object_hidden_behind_box** — the eight corners of the target blocked by one box occluder ⇒ not visible. -/
theorem object_hidden_behind_box (vw : Viewer) (hR : vw.R.IsOrtho) (rays : List V3) (tgt wall : Box)
    (occ : List Box) (hwall : wall ∈ occ) (hMw : wall.M.IsOrtho) (hMt : tgt.M.IsOrtho)
    (hh : 0 ≤ tgt.h.x ∧ 0 ≤ tgt.h.y ∧ 0 ≤ tgt.h.z) (hcam : ¬ wall.Contains vw.cam)
    (hne : ∀ c ∈ tgt.corners, c ≠ vw.cam)
    (hc : ∀ c ∈ tgt.corners, wall.Blocks Cfg.reference vw.cam (c.sub vw.cam) (c.sub vw.cam).normSq = true) :
    objectVisible visCfg vw rays tgt occ = false := by
  rw [gen_cfg_reference]
  exact Vis.object_hidden_behind_box vw hR rays tgt wall occ hwall hMw hMt hh hcam hne hc

/-- the centre shortcut: an object whose centre is reported visible is reported visible -/
theorem object_visible_of_centre (vw : Viewer) (rays : List V3) (tgt : Box) (occ : List Box)
    (h : pointVisible visCfg vw tgt.c occ = true) : objectVisible visCfg vw rays tgt occ = true := by
  rw [objectVisible_iff]; exact Or.inl h

/-- partial form of "an object is visible whenever a substantial part of it lies in the view volume": proved only
    for the part that contains the centre (what is missing: any statement about the ray grid) -/
theorem object_visible_of_centre_in_volume_partial (vw : Viewer) (hR : vw.R.IsOrtho) (rays : List V3)
    (tgt : Box) (h : InViewVolume vw tgt.c) : objectVisible visCfg vw rays tgt [] = true :=
  object_visible_of_centre vw rays tgt [] ((point_visible_iff_in_view_volume vw hR tgt.c).mpr h)

/-! ## negation witness: the code before the repair b69a50bf -/

/-- `R⁻¹ t - p` instead of `R⁻¹ (t - p)` -/
def rotateFirstCfg : Cfg := { Cfg.reference with translateFirst := false }

/-- a viewer at (10,0,0) facing west (yaw 90°), view angles ≈ 74° × 74°, visible distance 20 -/
def westViewer : Viewer := ⟨⟨10, 0, 0⟩, Mat3.ofQuat 1 0 0 1, 20, ⟨4 / 5, 3 / 5⟩, ⟨4 / 5, 3 / 5⟩⟩

/-- With the old order of operations the viewer at (10,0,0) facing west could not see the point 5 m straight ahead,
    although that point is in its view volume and the same scene translated to the origin is seen: the old code
    was not invariant under a common translation of viewer and target. -/
theorem rotate_first_not_rigid_invariant :
    pointVisible rotateFirstCfg westViewer ⟨5, 0, 0⟩ [] = false ∧
    InViewVolume westViewer ⟨5, 0, 0⟩ ∧
    pointVisible rotateFirstCfg (westViewer.move Mat3.id ⟨-10, 0, 0⟩) (movePt Mat3.id ⟨-10, 0, 0⟩ ⟨5, 0, 0⟩) [] = true := by
  decide +kernel

/-- the repaired order sees it -/
theorem reference_sees_point_ahead : pointVisible visCfg westViewer ⟨5, 0, 0⟩ [] = true := by
  decide +kernel

/-! ## the hypotheses are satisfiable by concrete non-trivial values -/

example : westViewer.R.IsOrtho := Mat3.ofQuat_isOrtho 1 0 0 1 (by norm_num)
example : (Mat3.ofQuat 1 2 (-3) 4).IsOrtho := Mat3.ofQuat_isOrtho _ _ _ _ (by norm_num)
example : westViewer.a0.Valid ∧ westViewer.a1.ValidAlt := by
  simp only [Half.Valid, Half.ValidAlt, westViewer]; norm_num
-- point_visible_iff_in_view_volume / outside_never_visible: one point inside, one outside (behind the viewer)
example : InViewVolume westViewer ⟨5, 1, 1⟩ ∧ ¬ InViewVolume westViewer ⟨15, 0, 0⟩ := by decide +kernel
-- blocked_never_visible / occlusion_complete: a unit box between camera and target, camera outside it
example : let b : Box := ⟨⟨7, 0, 0⟩, Mat3.ofQuat 2 0 0 1, ⟨1 / 2, 1 / 2, 1 / 2⟩⟩
    b.M.IsOrtho ∧ ¬ b.Contains westViewer.cam ∧ b.Contains (westViewer.cam.add ((V3.sub ⟨5, 0, 0⟩ westViewer.cam).smul (3 / 5)))
      ∧ pointVisible visCfg westViewer ⟨5, 0, 0⟩ [b] = false := by decide +kernel
-- occluders_monotone: visible with an irrelevant occluder present, hence without it
example : let b : Box := ⟨⟨7, 5, 0⟩, Mat3.id, ⟨1 / 2, 1 / 2, 1 / 2⟩⟩
    pointVisible visCfg westViewer ⟨5, 0, 0⟩ [b] = true := by decide +kernel
-- rigid_invariance: a genuine rotation
example : (Mat3.ofQuat 1 2 3 4).IsOrtho ∧
    pointVisible visCfg (westViewer.move (Mat3.ofQuat 1 2 3 4) ⟨3, -2, 7⟩) (movePt (Mat3.ofQuat 1 2 3 4) ⟨3, -2, 7⟩ ⟨5, 0, 0⟩) [] = true := by
  decide +kernel
-- object theorems: a box behind the viewer is certified outside; a box ahead has its centre visible
example : let tgt : Box := ⟨⟨16, 0, 0⟩, Mat3.ofQuat 3 0 0 1, ⟨1, 1, 1⟩⟩
    outsideCert westViewer tgt = true ∧ ¬ tgt.Contains westViewer.cam ∧ tgt.M.IsOrtho := by decide +kernel
example : let tgt : Box := ⟨⟨4, 0, 0⟩, Mat3.ofQuat 3 0 0 1, ⟨1, 1, 1⟩⟩
    objectVisible visCfg westViewer [] tgt [] = true ∧
      insideCert westViewer ⟨⟨4, 0, 0⟩, Mat3.ofQuat 3 0 0 1, ⟨1 / 2, 1 / 2, 1 / 2⟩⟩ ⟨0, 1, 0⟩ = true := by
  decide +kernel
-- object_hidden_never_visible: a wall hides the target from every candidate ray
example : let tgt : Box := ⟨⟨4, 0, 0⟩, Mat3.id, ⟨1 / 2, 1 / 2, 1 / 2⟩⟩
    let wall : Box := ⟨⟨7, 0, 0⟩, Mat3.id, ⟨1 / 8, 4, 4⟩⟩
    objectVisible visCfg westViewer [⟨0, 1, 0⟩, ⟨1 / 10, 1, 0⟩, ⟨0, 1, 1 / 10⟩] tgt [wall] = false ∧
      objectVisible visCfg westViewer [⟨0, 1, 0⟩] tgt [] = true := by decide +kernel

-- object_hidden_behind_box: the eight corners of the target are blocked by the wall
example : let tgt : Box := ⟨⟨4, 0, 0⟩, Mat3.id, ⟨1 / 2, 1 / 2, 1 / 2⟩⟩
    let wall : Box := ⟨⟨7, 0, 0⟩, Mat3.id, ⟨1 / 8, 4, 4⟩⟩
    (∀ c ∈ tgt.corners, wall.Blocks Cfg.reference westViewer.cam (c.sub westViewer.cam) (c.sub westViewer.cam).normSq = true)
      ∧ ¬ wall.Contains westViewer.cam := by decide +kernel
-- outsideCert through the altitude cone: a box high above a viewer with a narrow vertical window
example : outsideCert westViewer ⟨⟨6, 0, 9⟩, Mat3.ofQuat 2 1 0 0, ⟨1, 1, 1⟩⟩ = true
    ∧ decide (cornersOffBand westViewer ⟨⟨6, 0, 9⟩, Mat3.ofQuat 2 1 0 0, ⟨1, 1, 1⟩⟩ 1) = true := by decide +kernel

-- point_region_iff_visible: a point 6 m from a Point with visible distance 10 is in its region and is seen;
-- one 11 m away is in neither
example : pointRegion visWrapCfg ⟨1, 2, 3⟩ 10 ⟨1, 8, 3⟩ ∧ ¬ pointRegion visWrapCfg ⟨1, 2, 3⟩ 10 ⟨1, 13, 3⟩ ∧
    pointVisible visCfg (mkViewer visWrapCfg .point ⟨1, 2, 3⟩ Mat3.id ⟨0, 0, 0⟩ 10 Half.full Half.quarter) ⟨1, 8, 3⟩ [] = true := by
  decide +kernel
-- inViewVolume_in_viewRegionBound / viewRegionBound_full_iff
example : InViewVolume westViewer ⟨5, 1, 1⟩ ∧ viewRegionBound visWrapCfg westViewer.cam westViewer.D ⟨5, 1, 1⟩ ∧
    ¬ viewRegionBound visWrapCfg westViewer.cam westViewer.D ⟨-11, 0, 0⟩ := by decide +kernel
-- canSee2D_iff_pointVisible: a 2D object at (3,4) heading 90° (facing west; cos = 0, sin = 1) with the camera 1 m ahead of
-- its centre and a 74° view angle sees (-2,4) and does not see (8,4); hypotheses: planar, not the apex
example : let hd : Half := ⟨0, 1⟩
    hd.c * hd.c + hd.s * hd.s = 1 ∧ cam2D visCfg2D .object ⟨3, 4, 0⟩ ⟨0, 1, 0⟩ hd = ⟨2, 4, 0⟩ ∧
    canSee2D visCfg2D .object ⟨3, 4, 0⟩ ⟨0, 1, 0⟩ hd 10 ⟨4 / 5, 3 / 5⟩ ⟨-2, 4, 0⟩ ∧
    ¬ canSee2D visCfg2D .object ⟨3, 4, 0⟩ ⟨0, 1, 0⟩ hd 10 ⟨4 / 5, 3 / 5⟩ ⟨8, 4, 0⟩ ∧
    ¬ canSee2D visCfg2D .object ⟨3, 4, 0⟩ ⟨0, 1, 0⟩ hd 10 ⟨4 / 5, 3 / 5⟩ ⟨-2, 4, 1⟩ := by decide +kernel

end Scenic.C17
