/-! # C17 — property theorems (stub: filled in when the property's model is built) -/
namespace Scenic.C17
end Scenic.C17
