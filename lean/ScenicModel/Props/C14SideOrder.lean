import ScenicModel.Props.C14Base
/-! C14 side condition (finding `scene-changed:reverted-after-proxy-disabled` while it fails):
    the `finally` block of `Simulation.__init__` reverts overrides only while the proxies are in place. -/
namespace Scenic.C14
open Scenic.Overrides Scenic.Gen

theorem gen_reverts_before_disable : safeOrder simCfg.order = true := by decide

/-- a simulation of the current source leaves the scene untouched, however it ends -/
theorem sim_scene_untouched_current (w : World) (agentsSet : Bool) (evs : List Ev)
    (hs : scopedEvs [] evs = true) : (runSim simCfg w [] agentsSet evs).w.orig = w.orig :=
  sim_scene_untouched simCfg w agentsSet evs gen_reverts_before_disable hs

end Scenic.C14
