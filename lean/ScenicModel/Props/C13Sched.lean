import ScenicModel.Lemmas.Interrupts

/-!
# C13 (part 2): pre-emption priority, exact resumption, control statements

All statements are about the scheduler `Task.loopTI` (the `while True` loop of `runTryInterrupt`)
of the interpreter `go`, for arbitrary block states (any nesting), environments and fuel.
-/
namespace Scenic.Interrupts

/-! ## priority -/

theorem blkActive_spec (cfg : Cfg) (he : cfg.useEnabled = true) (hr : cfg.useRunning = true) (env : Env) (b : Blk K) :
    blkActive cfg env b = (env.cond b.cond || b.st.isSome) := by
  simp [blkActive, he, hr]

theorem getD_reverse (cls : List (Blk K)) (k : Nat) (hk : k < cls.length) (d : Blk K) :
    cls.reverse.getD k d = cls.getD (cls.length - 1 - k) d := by
  simp [List.getD, List.getElem?_reverse hk]

/-- **preempt_latest_enabled.** `cls` are the handler clauses in source order (the compiler passes them
    reversed).  The block that is run is the enabled-or-running handler whose clause comes *latest*:
    it is active and every later clause is inactive. -/
theorem preempt_latest_enabled (cfg : Cfg) (hfw : cfg.firstWins = true) (env : Env) (cls : List (Blk K)) (i : Nat)
    (h : pick cfg env cls.reverse = some i) :
    i < cls.length ∧ blkActive cfg env (cls.getD (cls.length - 1 - i) default) = true ∧
      ∀ j, cls.length - 1 - i < j → j < cls.length → blkActive cfg env (cls.getD j default) = false := by
  obtain ⟨k, hk, hlt, hact, hbefore⟩ := (pickFrom_some_iff cfg hfw env cls.reverse 0 i).1 h
  have hik : i = k := by omega
  subst hik
  have hlt' : i < cls.length := by simpa using hlt
  refine ⟨hlt', ?_, ?_⟩
  · rw [getD_reverse cls i hlt'] at hact; exact hact
  · intro j hj1 hj2
    have := hbefore (cls.length - 1 - j) (by omega)
    rw [getD_reverse cls _ (by omega)] at this
    have e : cls.length - 1 - (cls.length - 1 - j) = j := by omega
    rwa [e] at this

/-- the `try` body runs exactly when no handler is enabled or running -/
theorem body_runs_iff_no_handler_active (cfg : Cfg) (env : Env) (cls : List (Blk K)) :
    pick cfg env cls.reverse = none ↔ ∀ b ∈ cls, blkActive cfg env b = false := by
  unfold pick
  rw [pickFrom_none_iff]
  simp

/-- the compiler hands the clauses to the scheduler in reverse source order, handler `i` paired with
    condition `i` -/
theorem zipRuntime_reverse (cfg : Cfg) (h1 : cfg.condsReversed = true) (h2 : cfg.handlersReversed = true)
    (conds : List Nat) (codes : List (List L)) (hl : conds.length = codes.length) :
    zipRuntime cfg conds codes = (conds.zip codes).reverse := by
  simp only [zipRuntime, h1, h2, if_true, List.zip]
  exact (List.reverse_zipWith hl).symm

/-- Negation witness: if only one of the two tuples were reversed, condition `i` would guard the wrong handler. -/
theorem zipRuntime_mismatch :
    zipRuntime { Cfg.spec with handlersReversed := false } [0, 1] [[L.yld 10], [L.yld 11]]
      = [(1, [L.yld 10]), (0, [L.yld 11])] := by rfl

/-! ## one scheduling step -/

/-- the block the scheduler steps, and how: a block with a saved continuation is *resumed from it*,
    a block that is not running is started at the beginning of its code -/
def stepBlk (cfg : Cfg) (P : Prog) (env : Env) (fuel self : Nat) (inSub : Bool) (blk : Blk K) : Out :=
  match blk.st with
  | some k => go cfg P env fuel self inSub (.resume k)
  | none => go cfg P env fuel self inSub (.exec blk.code [])

def inSubFor (inSub : Bool) (kind : TryKind) (body : Blk K) (hs : List (Blk K)) (i : Option Nat) : Bool :=
  inSub || kindIsDoUntil kind || othersHaveSub body hs i

theorem loopTI_eq (cfg : Cfg) (P : Prog) (env : Env) (fuel self : Nat) (inSub : Bool) (kind : TryKind)
    (body : Blk K) (hs : List (Blk K)) (l : List L) (c : List Frame) :
    go cfg P env (fuel + 1) self inSub (.loopTI kind body hs l c) =
      match stepBlk cfg P env fuel self (inSubFor inSub kind body hs (pick cfg env hs))
          (match pick cfg env hs with | none => body | some i => hs.getD i body) with
      | .yielded a k' lg =>
        match pick cfg env hs with
        | none => .yielded a (.atTry kind { body with st := some k' } hs l c) lg
        | some i => .yielded a (.atTry kind body (setSt hs i (some k')) l c) lg
      | .done f lg =>
        if f = .fin && (pick cfg env hs).isSome && cfg.finishedContinues then
          (go cfg P env fuel self inSub (.loopTI kind body (setSt hs ((pick cfg env hs).getD 0) none) l c)).pre lg
        else
          (go cfg P env fuel self inSub (.exec (afterTry kind f l) c)).pre
            (lg ++ stopsOf cfg (otherSubs body hs (pick cfg env hs)))
      | .viol v lg => .viol v (lg ++ closeStops cfg (otherSubs body hs (pick cfg env hs)))
      | .diverge => .diverge := by
  rw [go]; rfl

/-- **resume_exact (saved).** A handler that is picked and yields leaves exactly its new continuation in its
    own slot; the body and all other handlers keep their saved continuations untouched. -/
theorem handler_step_yields (cfg : Cfg) (P : Prog) (env : Env) (fuel self : Nat) (inSub : Bool) (kind : TryKind)
    (body : Blk K) (hs : List (Blk K)) (l : List L) (c : List Frame) (i a : Nat) (k' : K) (lg : List Ev)
    (hp : pick cfg env hs = some i)
    (hy : stepBlk cfg P env fuel self (inSubFor inSub kind body hs (some i)) (hs.getD i body) = .yielded a k' lg) :
    go cfg P env (fuel + 1) self inSub (.loopTI kind body hs l c)
      = .yielded a (.atTry kind body (setSt hs i (some k')) l c) lg := by
  rw [loopTI_eq, hp]; simp only [hy]

theorem setSt_length (hs : List (Blk K)) (i : Nat) (st : Option K) : (setSt hs i st).length = hs.length := by
  simp [setSt]

theorem setSt_other (hs : List (Blk K)) (i j : Nat) (st : Option K) (d : Blk K) (hij : i ≠ j) :
    (setSt hs i st).getD j d = hs.getD j d := by
  simp [setSt, List.getD, List.getElem?_modify, hij]

theorem setSt_same (hs : List (Blk K)) (i : Nat) (st : Option K) (d : Blk K) (hi : i < hs.length) :
    (setSt hs i st).getD i d = { hs.getD i d with st := st } := by
  simp [setSt, List.getD, List.getElem?_modify, List.getElem?_eq_getElem hi]

/-- **resume_exact (kept / outer precedence).** While a handler of a statement is picked, the `try` body
    -- and with it every statement nested inside it, whatever its own conditions say -- is not resumed:
    its saved continuation is carried over unchanged. -/
theorem preempted_body_kept (cfg : Cfg) (P : Prog) (env : Env) (fuel self : Nat) (inSub : Bool) (kind : TryKind)
    (body : Blk K) (hs : List (Blk K)) (l : List L) (c : List Frame) (i a : Nat) (k1 : K) (lg : List Ev)
    (hp : pick cfg env hs = some i)
    (hy : stepBlk cfg P env fuel self (inSubFor inSub kind body hs (some i)) (hs.getD i body) = .yielded a k1 lg) :
    ∃ hs', go cfg P env (fuel + 1) self inSub (.loopTI kind body hs l c) = .yielded a (.atTry kind body hs' l c) lg
      ∧ hs'.length = hs.length ∧ ∀ j, j ≠ i → hs'.getD j default = hs.getD j default :=
  ⟨setSt hs i (some k1), handler_step_yields cfg P env fuel self inSub kind body hs l c i a k1 lg hp hy,
    setSt_length hs i _, fun j hj => setSt_other hs i j _ _ (Ne.symm hj)⟩

/-- **resume_exact (resumed).** When no handler is active the body is stepped: from its saved continuation
    `kb` if it was pre-empted earlier (never restarted), and the new continuation is saved in turn. -/
theorem body_step_resumes_saved (cfg : Cfg) (P : Prog) (env : Env) (fuel self : Nat) (inSub : Bool) (kind : TryKind)
    (cnd : Nat) (code : List L) (kb : K) (hs : List (Blk K)) (l : List L) (c : List Frame) (a : Nat) (k' : K) (lg : List Ev)
    (hp : pick cfg env hs = none)
    (hy : go cfg P env fuel self (inSubFor inSub kind ⟨cnd, code, some kb⟩ hs none) (.resume kb) = .yielded a k' lg) :
    go cfg P env (fuel + 1) self inSub (.loopTI kind ⟨cnd, code, some kb⟩ hs l c)
      = .yielded a (.atTry kind ⟨cnd, code, some k'⟩ hs l c) lg := by
  rw [loopTI_eq, hp]; simp only [stepBlk, hy]

/-- a handler that finishes hands control back in the same time step: the scheduler looks again, with the
    handler's slot cleared (so a later firing starts the handler from its beginning) -/
theorem handler_finished_continues (cfg : Cfg) (hfc : cfg.finishedContinues = true) (P : Prog) (env : Env)
    (fuel self : Nat) (inSub : Bool) (kind : TryKind)
    (body : Blk K) (hs : List (Blk K)) (l : List L) (c : List Frame) (i : Nat) (lg : List Ev)
    (hp : pick cfg env hs = some i)
    (hy : stepBlk cfg P env fuel self (inSubFor inSub kind body hs (some i)) (hs.getD i body) = .done .fin lg) :
    go cfg P env (fuel + 1) self inSub (.loopTI kind body hs l c)
      = (go cfg P env fuel self inSub (.loopTI kind body (setSt hs i none) l c)).pre lg := by
  rw [loopTI_eq, hp]; simp only [hy, hfc]; simp

/-! ## control statements in handlers -/

/-- what the scheduler does when the stepped block concludes with anything but "handler finished" -/
theorem block_concludes (cfg : Cfg) (P : Prog) (env : Env) (fuel self : Nat) (inSub : Bool) (kind : TryKind)
    (body : Blk K) (hs : List (Blk K)) (l : List L) (c : List Frame) (f : Flow) (lg : List Ev)
    (hf : f ≠ .fin ∨ pick cfg env hs = none)
    (hy : stepBlk cfg P env fuel self (inSubFor inSub kind body hs (pick cfg env hs))
            (match pick cfg env hs with | none => body | some i => hs.getD i body) = .done f lg) :
    go cfg P env (fuel + 1) self inSub (.loopTI kind body hs l c)
      = (go cfg P env fuel self inSub (.exec (afterTry kind f l) c)).pre
          (lg ++ stopsOf cfg (otherSubs body hs (pick cfg env hs))) := by
  rw [loopTI_eq]; simp only [hy]
  rcases hf with hf | hf
  · simp [hf]
  · simp [hf]

/-- **abort**: the statement terminates, the other blocks are abandoned (their sub-behaviours stopped) and
    execution continues with the statement that follows the try-interrupt -/
theorem abort_effect (cfg : Cfg) (P : Prog) (env : Env) (fuel self : Nat) (inSub : Bool) (fl : TryFlags)
    (body : Blk K) (hs : List (Blk K)) (l : List L) (c : List Frame) (i : Nat) (lg : List Ev)
    (hp : pick cfg env hs = some i)
    (hy : stepBlk cfg P env fuel self (inSubFor inSub (.user fl) body hs (some i)) (hs.getD i body) = .done .abort lg) :
    go cfg P env (fuel + 1) self inSub (.loopTI (.user fl) body hs l c)
      = (go cfg P env fuel self inSub (.exec l c)).pre (lg ++ stopsOf cfg (otherSubs body hs (some i))) := by
  have := block_concludes cfg P env fuel self inSub (.user fl) body hs l c .abort lg (Or.inl (by decide))
    (by rw [hp]; exact hy)
  rw [this, hp]; rfl

def allSeq : List Frame → Bool
  | [] => true
  | .seq _ :: c => allSeq c
  | _ => false

theorem unwind_seqs (f : Flow) : ∀ (pre c : List Frame), allSeq pre = true → unwind f (pre ++ c) = unwind f c
  | [], c, _ => rfl
  | .seq _ :: pre, c, h => by simp [unwind, unwind_seqs f pre c (by simpa [allSeq] using h)]
  | .forF _ _ :: _, _, h => by simp [allSeq] at h
  | .whileF _ :: _, _, h => by simp [allSeq] at h

theorem go_flow (cfg : Cfg) (P : Prog) (env : Env) (fuel self : Nat) (inSub : Bool) (f : Flow) (hf : f ≠ .fin)
    (l : List L) (c : List Frame) :
    go cfg P env (fuel + 1) self inSub (.exec (.flow f :: l) c) =
      match unwind f c with
      | some (l', c') => go cfg P env fuel self inSub (.exec l' c')
      | none => .done f [] := by
  cases f <;> first | exact absurd rfl hf | (rw [go] <;> first | rfl | (intro h; cases h))

/-- **break**: the statement terminates and the innermost loop enclosing it (in the same generator function:
    `pre` holds no loop) is left: execution continues after that loop -/
theorem break_effect (cfg : Cfg) (P : Prog) (env : Env) (fuel self : Nat) (inSub : Bool) (fl : TryFlags)
    (hfl : fl.emitBrk = true)
    (body : Blk K) (hs : List (Blk K)) (l : List L) (pre rest : List Frame) (n : Nat) (lb : List L) (i : Nat) (lg : List Ev)
    (hpre : allSeq pre = true)
    (hp : pick cfg env hs = some i)
    (hy : stepBlk cfg P env (fuel + 1) self (inSubFor inSub (.user fl) body hs (some i)) (hs.getD i body) = .done .brk lg) :
    go cfg P env (fuel + 2) self inSub (.loopTI (.user fl) body hs l (pre ++ .forF n lb :: rest))
      = (go cfg P env fuel self inSub (.exec [] rest)).pre (lg ++ stopsOf cfg (otherSubs body hs (some i))) := by
  have := block_concludes cfg P env (fuel + 1) self inSub (.user fl) body hs l (pre ++ .forF n lb :: rest) .brk lg
    (Or.inl (by decide)) (by rw [hp]; exact hy)
  rw [this, hp]
  simp only [afterTry, hfl, if_true]
  rw [go_flow _ _ _ _ _ _ _ (by decide)]
  simp [unwind_seqs .brk pre _ hpre, unwind]

/-- ... and when the statement is itself inside a block of an enclosing try-interrupt statement (no loop
    in between), the block concludes with BREAK, i.e. the `break` is passed on to the enclosing statement -/
theorem break_propagates (cfg : Cfg) (P : Prog) (env : Env) (fuel self : Nat) (inSub : Bool) (fl : TryFlags)
    (hfl : fl.emitBrk = true)
    (body : Blk K) (hs : List (Blk K)) (l : List L) (pre : List Frame) (i : Nat) (lg : List Ev)
    (hpre : allSeq pre = true)
    (hp : pick cfg env hs = some i)
    (hy : stepBlk cfg P env (fuel + 1) self (inSubFor inSub (.user fl) body hs (some i)) (hs.getD i body) = .done .brk lg) :
    go cfg P env (fuel + 2) self inSub (.loopTI (.user fl) body hs l pre)
      = .done .brk (lg ++ stopsOf cfg (otherSubs body hs (some i))) := by
  have := block_concludes cfg P env (fuel + 1) self inSub (.user fl) body hs l pre .brk lg
    (Or.inl (by decide)) (by rw [hp]; exact hy)
  rw [this, hp]
  simp only [afterTry, hfl, if_true]
  rw [go_flow _ _ _ _ _ _ _ (by decide)]
  have : unwind .brk pre = none := by
    have := unwind_seqs .brk pre [] hpre
    simpa [unwind] using this
  simp [this, Out.pre]

/-- **continue**: the statement terminates and the innermost enclosing loop starts its next iteration -/
theorem continue_effect (cfg : Cfg) (P : Prog) (env : Env) (fuel self : Nat) (inSub : Bool) (fl : TryFlags)
    (hfl : fl.emitCont = true)
    (body : Blk K) (hs : List (Blk K)) (l : List L) (pre rest : List Frame) (n : Nat) (lb : List L) (i : Nat) (lg : List Ev)
    (hpre : allSeq pre = true)
    (hp : pick cfg env hs = some i)
    (hy : stepBlk cfg P env (fuel + 1) self (inSubFor inSub (.user fl) body hs (some i)) (hs.getD i body) = .done .cont lg) :
    go cfg P env (fuel + 2) self inSub (.loopTI (.user fl) body hs l (pre ++ .forF n lb :: rest))
      = (go cfg P env fuel self inSub (.exec [] (.forF n lb :: rest))).pre
          (lg ++ stopsOf cfg (otherSubs body hs (some i))) := by
  have := block_concludes cfg P env (fuel + 1) self inSub (.user fl) body hs l (pre ++ .forF n lb :: rest) .cont lg
    (Or.inl (by decide)) (by rw [hp]; exact hy)
  rw [this, hp]
  simp only [afterTry, hfl, if_true]
  rw [go_flow _ _ _ _ _ _ _ (by decide)]
  simp [unwind_seqs .cont pre _ hpre, unwind]

theorem unwind_ret_none (f : Flow) (hf : f = .ret ∨ f = .rawRet) : ∀ c : List Frame, unwind f c = none
  | [] => rfl
  | fr :: c => by
    have ih := unwind_ret_none f hf c
    cases fr <;> rcases hf with rfl | rfl <;> simp [unwind, ih]

/-- **return**: the generator function containing the statement returns, whatever loops enclose the
    statement: at behaviour level the behaviour ends (`rawRet`); inside a block of an enclosing statement the
    block concludes with RETURN again (`retWrap`), so the return travels outwards -/
theorem return_effect (cfg : Cfg) (P : Prog) (env : Env) (fuel self : Nat) (inSub : Bool) (fl : TryFlags)
    (body : Blk K) (hs : List (Blk K)) (l : List L) (c : List Frame) (i : Nat) (lg : List Ev)
    (hp : pick cfg env hs = some i)
    (hy : stepBlk cfg P env (fuel + 1) self (inSubFor inSub (.user fl) body hs (some i)) (hs.getD i body) = .done .ret lg) :
    go cfg P env (fuel + 2) self inSub (.loopTI (.user fl) body hs l c)
      = .done (if fl.retWrap then .ret else .rawRet) (lg ++ stopsOf cfg (otherSubs body hs (some i))) := by
  have := block_concludes cfg P env (fuel + 1) self inSub (.user fl) body hs l c .ret lg
    (Or.inl (by decide)) (by rw [hp]; exact hy)
  rw [this, hp]
  simp only [afterTry]
  rw [go_flow _ _ _ _ _ _ _ (by cases fl.retWrap <;> decide)]
  cases h : fl.retWrap <;> simp [unwind_ret_none, Out.pre]

/-- a behaviour whose generator has returned takes no further action -/
theorem finished_behaviour_is_silent (cfg : Cfg) (P : Prog) (envAt : Nat → Env) (fuel main : Nat) :
    ∀ (n t : Nat) (pend : List Ev),
      (simLoop cfg P envAt fuel main n t none pend).actions = List.replicate n none
        ∧ (simLoop cfg P envAt fuel main n t none pend).outcome = .ok
  | 0, _, _ => by simp [simLoop]
  | n + 1, t, pend => by
    have := finished_behaviour_is_silent cfg P envAt fuel main n (t + 1) []
    simp [simLoop, this, List.replicate_succ]

end Scenic.Interrupts
