import ScenicModel.Props.C07Algebra
import ScenicModel.Props.C07Spec
import ScenicModel.Props.C07Dir
import ScenicModel.Props.C07Ops
import ScenicModel.Props.C07Real
/-!
# C07 — built-in specifiers and operators have their documented geometric meaning

The property theorems are split by topic:

* `Props/C07Algebra.lean` — orientation composition / inversion / Euler conversion, heading convention
  (`compose_assoc`, `compose_intrinsic`, `inverse_two_sided`, `quat_compose_matrix`, `quat_inverse_matrix`,
  `quat_inverse_two_sided`, `heading_convention`, `heading_add`, `euler_forward`,
  `euler_extract_construct`, `euler_construct_extract`, …);
* `Props/C07Spec.lean` — specifiers / operators that do not depend on generated data (`beyond_frame`,
  `beyond_local`, `offsetBy_spec`, `offsetAlong_spec`, `relativeTo_*`, `facing_global`, `facing_toward`,
  `facing_directly_toward`, `following_uniform`);
* `Props/C07Dir.lean` — the specifiers instantiated on data regenerated from `/repo` (`directional_gap`,
  `directional_local`, `directional_opoint`, `directional_vector`, `directional_rigid`, `beyond_scalar`,
  `on_base_contact`, `side_operator`) and the side conditions on that data (`gen_*`);
* `Props/C07Ops.lean` — the scalar operators and `apparently facing`
  (`distance_*`, `angle_spec`, `altitude_spec`, `relative_heading_spec`, `apparent_heading_spec`,
  `distance_past_spec`, `apparently_facing_*`).

* `Props/C07Real.lean` — the `(cos, sin)` pairs instantiated at real angles (`heading_convention_real`, …).

Full statement that is **false of the code at the pinned commit** (kept visible, §2.3 of DESIGN):

    theorem apparently_facing_current :
        ApparentlyFacingRespectsParent α Gen.Frames.apparentlyFacingUsesParent

and likewise

    theorem beyond_parent_documented :
        ∀ o, beyondParent Gen.Frames.beyondInheritsFromOrientation (some o) = o

(`Beyond` coerces `fromPt` to a vector *before* testing `isA(fromPt, OrientedPoint)`, so the orientation
of an oriented `from` argument is never inherited; see `beyond_parent_current_status`).

`ApparentlyFacing.helper` ignores `parentOrientation` (generated flag `= false`), so only
`apparently_facing_global_parent` (global parent) holds for it; the negation witness is
`apparently_facing_ignoring_parent_witness`, and `apparently_facing_generated` gives the full statement
as soon as the regenerated flag becomes `true` (i.e. once the helper works in the parent frame).
-/
namespace Scenic.C07
open Scenic.Frames

/-- whatever `/repo` currently does: if the generated flag says the helper works in the parent frame,
    the full statement holds -/
theorem apparently_facing_generated {α : Type} [Field α] [DecidableEq α]
    (hg : Gen.Frames.apparentlyFacingUsesParent = true) :
    ApparentlyFacingRespectsParent α Gen.Frames.apparentlyFacingUsesParent := by
  rw [hg]; exact apparently_facing_respects_parent

/-- the statement about `apparently facing` that applies to the code as it is *now*: either the
    helper works in the parent frame (then the full statement holds), or it ignores the parent and the
    full statement is refuted by the witness. -/
theorem apparently_facing_current_status :
    (Gen.Frames.apparentlyFacingUsesParent = true ∧
        ApparentlyFacingRespectsParent Rat Gen.Frames.apparentlyFacingUsesParent) ∨
    (Gen.Frames.apparentlyFacingUsesParent = false ∧
        ¬ ApparentlyFacingRespectsParent Rat Gen.Frames.apparentlyFacingUsesParent) := by
  cases h : Gen.Frames.apparentlyFacingUsesParent
  · exact Or.inr ⟨rfl, apparently_facing_ignoring_parent_witness⟩
  · exact Or.inl ⟨rfl, apparently_facing_respects_parent⟩

/-- the statement about the orientation inherited through `beyond … from P` that applies to the code
    as it is *now*: either the `OrientedPoint` test precedes the coercion and the orientation of an
    oriented `P` is inherited (as documented), or it follows it and a non-global orientation of `P`
    is dropped (negation witness: `P` facing West). -/
theorem beyond_parent_current_status :
    (Gen.Frames.beyondInheritsFromOrientation = true ∧
        ∀ o : Mat3 Rat, beyondParent Gen.Frames.beyondInheritsFromOrientation (some o) = o) ∨
    (Gen.Frames.beyondInheritsFromOrientation = false ∧
        ∃ o : Mat3 Rat, o.IsRot ∧ beyondParent Gen.Frames.beyondInheritsFromOrientation (some o) ≠ o) := by
  cases h : Gen.Frames.beyondInheritsFromOrientation
  · refine Or.inr ⟨rfl, rotZ ⟨0, 1⟩, isRot_rotZ (by unfold Ang.Unit; norm_num), ?_⟩
    intro e
    have := congrArg (fun m => m.r0.x) e
    simp [beyondParent, Mat3.one, rotZ] at this
  · exact Or.inl ⟨rfl, fun o => rfl⟩

end Scenic.C07
