/-! # C07 — property theorems (stub: filled in when the property's model is built) -/
namespace Scenic.C07
end Scenic.C07
