import ScenicModel.Props.C07Algebra
import ScenicModel.Props.C07Spec
import ScenicModel.Props.C07Dir
import ScenicModel.Props.C07Ops
import ScenicModel.Props.C07Real
/-!
# C07 — built-in specifiers and operators have their documented geometric meaning

The property theorems are split by topic:

* `Props/C07Algebra.lean` — orientation composition / inversion / Euler conversion, heading convention
  (`compose_assoc`, `compose_intrinsic`, `inverse_two_sided`, `quat_compose_matrix`, `quat_inverse_matrix`,
  `quat_inverse_two_sided`, `heading_convention`, `heading_add`, `euler_forward`,
  `euler_extract_construct`, `euler_construct_extract`, …);
* `Props/C07Spec.lean` — specifiers / operators composing positions and orientations in a frame (`beyond_frame`,
  `beyond_local`, `beyond_parent_inherited`, `offsetBy_spec`, `offsetAlong_spec`, `relativeTo_*`, `facing_global`,
  `facing_toward`, `facing_directly_toward`, `following_uniform`, `follow_step_rule`);
* `Props/C07Dir.lean` — the specifiers instantiated on data regenerated from `/repo` (`directional_gap`,
  `directional_local`, `directional_opoint`, `directional_vector`, `directional_rigid`, `beyond_scalar`,
  `on_base_contact`, `side_operator`) and the side conditions on that data (`gen_*`);
* `Props/C07Ops.lean` — the scalar operators and `apparently facing`
  (`distance_*`, `angle_spec`, `altitude_spec`, `relative_heading_spec`, `apparent_heading_spec`,
  `distance_past_spec`, `apparently_facing_*`);
* `Props/C07Real.lean` — the `(cos, sin)` pairs instantiated at real angles (`heading_convention_real`, …);
* here — the `facing toward` family *by the name of the specifier function*, on the table regenerated from
  `veneer.py` (`gen_facing_table`, `facing_family_generated`, `facing_family_meaning`).

The closed forms of the primitives that are instantiated on generated formulas (`euler_eq`, `rotatedBy_eq`,
`azimuthOf_eq`, `altitudeOf_eq`, `azimuthTo_eq`, `altitudeTo_eq`, `apparentHeading_eq`, `gen_euler_axes`) are
in `Lemmas/Frames.lean`; they are side conditions on `Gen/Frames.lean` too.

Every statement holds of the code as it is now: the two statements that were false of the earlier pinned
commit (`apparently facing` ignored `parentOrientation`; `beyond … from <OrientedPoint>` dropped the inherited
orientation) are proved at full strength (`apparently_facing_respects_parent`, `apparently_facing_general`,
`beyond_parent_inherited`), the model no longer has a mode reproducing the defects, and the translator
accepts only the repaired shape of the two functions.
-/
namespace Scenic.C07
open Scenic.Frames

/-- the documented members of the `facing toward` family:
    name ↦ (direction is `position − target`, the pitch is specified too, a heading is added) -/
def documentedFacing : List (String × (Bool × Bool × Bool)) := [
  ("FacingToward", (false, false, false)), ("FacingDirectlyToward", (false, true, false)),
  ("FacingAwayFrom", (true, false, false)), ("FacingDirectlyAwayFrom", (true, true, false)),
  ("ApparentlyFacing", (true, false, true))]

/-- side condition on the generated table: the five helpers in `veneer.py` compute the spherical angles of
    `±(target − position)` *in the parent frame*, with the documented sign / pitch / heading -/
theorem gen_facing_table : Gen.Frames.facingTable = documentedFacing := by decide

section
variable {α : Type} [Field α] [DecidableEq α]

/-- what each of the five specifier functions of `veneer.py` specifies, on the regenerated table -/
theorem facing_family_generated (p : Mat3 α) (position target : Vec3 α) (hd : Ang α) (h rho : α) :
    facingByName "FacingToward" p position target hd h rho
      = some (azimuthOf (facingDirection false p position target) h, none) ∧
    facingByName "FacingDirectlyToward" p position target hd h rho
      = some (azimuthOf (facingDirection false p position target) h,
              some (altitudeOf (facingDirection false p position target) h rho)) ∧
    facingByName "FacingAwayFrom" p position target hd h rho
      = some (azimuthOf (facingDirection true p position target) h, none) ∧
    facingByName "FacingDirectlyAwayFrom" p position target hd h rho
      = some (azimuthOf (facingDirection true p position target) h,
              some (altitudeOf (facingDirection true p position target) h rho)) ∧
    facingByName "ApparentlyFacing" p position target hd h rho
      = some (apparentlyFacingYaw p position target hd h, none) := by
  simp only [facingByName, gen_facing_table]
  refine ⟨rfl, rfl, rfl, rfl, rfl⟩

/-- … and hence their geometric meaning, for every parent orientation `P` (a rotation), position and
    target: with the yaw (and pitch) the regenerated helper specifies and the remaining angles `0`,

    * `facing toward T` / `facing away from T`: `±(T − position) = h · forward + z · parentUp`;
    * `facing directly toward / away from T`: `±(T − position) = rho · forward`;
    * `apparently facing H from T`: in the parent frame, `h · forward = rotZ(H) · (horizontal line of sight)`. -/
theorem facing_family_meaning (p : Mat3 α) (hp : p.IsRot) (position target : Vec3 α) (hd : Ang α) (h rho : α)
    (hh : h ≠ 0) (hrho : rho ≠ 0) (name : String) (away directly : Bool)
    (hname : documentedFacing.lookup name = some (away, directly, false)) :
    ∃ yaw pitch, facingByName name p position target hd h rho = some (yaw, pitch) ∧
      let o := p.mul (euler yaw (pitch.getD Ang.zero) Ang.zero)
      let want := if away then position.sub target else target.sub position
      if directly then (o.mulVec Vec3.ey).smul rho = want
      else ((o.mulVec Vec3.ey).smul h).add ((p.mulVec Vec3.ez).smul (facingDirection away p position target).z) = want := by
  refine ⟨azimuthOf (facingDirection away p position target) h,
    if directly then some (altitudeOf (facingDirection away p position target) h rho) else none, ?_, ?_⟩
  · simp only [facingByName, gen_facing_table, hname, Option.map_some, facingFamily]
    cases directly <;> simp
  · cases directly
    · simpa using facing_toward away p hp position target h hh
    · simpa using facing_directly_toward away p hp position target h rho hh hrho
example : documentedFacing.lookup "FacingDirectlyAwayFrom" = some (true, true, false) := by decide

end

/-! ## `facing H` with `H` a plain number, and why the local angles cannot be short-cut

(round 3: an independent seeded change gave `facing <number>` a fast path "yaw = H − parent yaw, pitch = roll = 0") -/

section field
variable {α : Type} [Field α]

/-- the local orientation that `facing T` must specify is *unique*: whatever local orientation `L` composes with the
    parent `P` to the requested global orientation `T` is `P⁻¹ * T` — so any short cut that computes the local angles
    differently (e.g. from the yaw difference alone) is correct only where it agrees with `P⁻¹ * T` -/
theorem facing_local_unique (p t l : Mat3 α) (hp : p.IsRot) (h : p.mul l = t) : l = facingLocal p t := by
  rw [facingLocal, ← h, ← Mat3.mul_assoc', hp.2.1, Mat3.one_mul']
example : (rotZ (⟨0, 1⟩ : Ang Rat)).mul (rotZ ⟨0, -1⟩) = rotZ Ang.zero := by
  ext <;> unfold_frames <;> norm_num

/-- `facing h` with `h` a plain number (the heading `h`, i.e. the orientation `rotZ h`): for EVERY parent orientation
    `P` — pitched and rolled ones included — if `(y, pt, r)` are Euler angles of `P⁻¹ * rotZ h`, the object's global
    orientation is `rotZ h`: its forward axis is the horizontal direction `(−sin h, cos h, 0)`, its up axis is `+Z` -/
theorem facing_number_global (pos : Vec3 α) (p : Mat3 α) (hp : p.IsRot) (h y pt r : Ang α)
    (he : euler y pt r = facingLocal p (rotZ h)) :
    (OPoint.mk pos p y pt r).orientation = rotZ h ∧
    (OPoint.mk pos p y pt r).orientation.mulVec Vec3.ey = ⟨-h.s, h.c, 0⟩ ∧
    (OPoint.mk pos p y pt r).orientation.mulVec Vec3.ez = Vec3.ez := by
  have ho := facing_global_euler pos p (rotZ h) hp y pt r he
  rw [ho]
  exact ⟨rfl, (heading_convention h).1, (heading_convention h).2.2⟩
example : euler (⟨0, -1⟩ : Ang Rat) Ang.zero Ang.zero = facingLocal (rotZ ⟨0, 1⟩) (rotZ Ang.zero) := by
  ext <;> simp only [facingLocal] <;> unfold_frames <;> norm_num
end field

/-- the short cut "local yaw = h − parent yaw, pitch = roll = 0" is NOT `facing h` under a pitched parent: with the
    parent pitched by 90° (parent yaw 0) and `h = 0` it leaves the object pitched by 90° instead of level -/
theorem facing_yaw_difference_unsound :
    ∃ p : Mat3 Rat, p.IsRot ∧ (OPoint.mk ⟨0, 0, 0⟩ p Ang.zero Ang.zero Ang.zero).orientation ≠ rotZ Ang.zero := by
  refine ⟨rotX ⟨0, 1⟩, ⟨?_, ?_, ?_⟩, ?_⟩
  · ext <;> unfold_frames <;> norm_num
  · ext <;> unfold_frames <;> norm_num
  · unfold_frames; norm_num
  · rw [inherited_orientation]
    intro h
    have := congrArg (fun m : Mat3 Rat => m.r1.y) h
    revert this
    unfold_frames; norm_num
end Scenic.C07
