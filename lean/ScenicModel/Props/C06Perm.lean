import ScenicModel.Props.C06Resolve

/-!
# C06 (part 2): order independence, the built-in specifiers, witnesses
-/
namespace Scenic.C06
open Scenic.Spec

/-- **Dependency order, full statement.**  Every dependency of an evaluated specifier has a specifier,
evaluated strictly earlier; if the dependency is modified, its modifier is evaluated after that specifier and
strictly before the dependent specifier -- so the value read is final.  No hypothesis on the specifiers: a
modifying specifier may modify any number of properties (`dfs` visits the specifiers of all of them). -/
theorem topo_order_full {C : ClassInfo} {S : List Spec} {o : Outcome} (h : resolve C S = .ok o) :
    ∀ n ∈ o.order, ∀ dep ∈ depsOf C S n,
      ∃ a, get o.assign dep = some a ∧ a ∈ o.order ∧ pos o.order a < pos o.order n ∧
        ∀ m, get o.modifier dep = some m →
          m ∈ o.order ∧ pos o.order a < pos o.order m ∧ pos o.order m < pos o.order n := by
  intro n hn dep hdep
  obtain ⟨_, _, hdeps, hmods⟩ := topo_order h
  have hd := hdeps n hn dep hdep
  cases hg : get o.modifier dep with
  | none =>
    rw [hg] at hd
    obtain ⟨a, ha, hao, hlt⟩ := hd
    exact ⟨a, ha, hao, hlt, fun m hm => by cases hm⟩
  | some m =>
    rw [hg] at hd
    obtain ⟨hmo, hlt⟩ := hd
    obtain ⟨a, ha, hao, hlt'⟩ := hmods m hmo dep (mem_modProps (mem_of_get hg))
    refine ⟨a, ha, hao, by omega, fun m' hm' => ?_⟩
    cases hm'
    exact ⟨hmo, hlt', hlt⟩

/-- **A modifier runs after the specifier it modifies**, for every property it modifies: both are evaluated,
they are different specifiers, and the specifier comes strictly first. -/
theorem modifier_after_specifier {C : ClassInfo} {S : List Spec} {o : Outcome} (h : resolve C S = .ok o)
    (p : String) (m : Node) (hm : get o.modifier p = some m) :
    ∃ a, get o.assign p = some a ∧ a ≠ m ∧ a ∈ o.order ∧ m ∈ o.order ∧ pos o.order a < pos o.order m := by
  obtain ⟨_, hmem, _, hmods⟩ := topo_order h
  obtain ⟨pre, hpre, _, _, hmo, hno⟩ := resolve_ok h
  have hmo' : m ∈ o.order := by
    rw [hmem, hno]
    exact (assign_range (assignPhase_ok hpre)).2 p m (by rw [← hmo]; exact hm)
  obtain ⟨a, ha, hao, hlt⟩ := hmods m hmo' p (mem_modProps (mem_of_get hm))
  exact ⟨a, ha, fun hEq => by subst hEq; omega, hao, hmo', hlt⟩

/-- **A reported cycle is real**: when resolution fails with "depends on itself" (or with a missing
dependency), no evaluation order exists at all -- there is no rank function on the specifiers that
decreases along every look-up. -/
theorem cycle_error_sound (C : ClassInfo) (S : List Spec) (e : Err) (he : e = .cycle ∨ e = .missingDep)
    (h : resolve C S = .error e) :
    ∃ pre, assignPhase C S = .ok pre ∧ ¬ Good (stepsOf C S pre) pre.nodes := by
  rcases resolve_error h with ha | ⟨pre, hpre, ho⟩
  · exfalso
    have hst : stage e = 4 := by rcases he with rfl | rfl <;> rfl
    unfold assignPhase at ha
    split at ha
    · cases ha; simp [stage] at hst
    · split at ha
      · rename_i e' hn; cases ha
        have := normalPass_error_stage _ (normalOf_normal S) hn
        omega
      · split at ha
        · rename_i e' hm; cases ha
          rcases modPass_error _ hm with h | h <;> rw [h] at hst <;> simp [stage] at hst
        · cases ha
  · refine ⟨pre, hpre, fun hgood => ?_⟩
    obtain ⟨order, hok⟩ := (orderPhase_ok_iff (nodes_closed (assignPhase_ok hpre))).mpr hgood
    rw [ho] at hok; cases hok

/-- **Order independence.** For a list with at most one modifying specifier, every permutation of the
list has the same outcome: the same specifier and the same modifier for every property and the same set of
evaluated specifiers, or an error of the same phase (duplicate name / tie or final property /
cycle or missing dependency). -/
theorem resolve_perm_invariant (C : ClassInfo) (S1 S2 : List Spec) (hperm : S1.Perm S2)
    (hmod : (S1.filter (fun s => s.modifying)).length ≤ 1) :
    SameOutcome (resolve C S1) (resolve C S2) :=
  resolve_perm C hperm hmod

/-- the same in 2-D compatibility mode, where `with heading X` is first rewritten into `facing X` -/
theorem resolve2D_perm_invariant (C : ClassInfo) (mk : Spec → Spec) (S1 S2 : List Spec) (hperm : S1.Perm S2)
    (hmod : ((prepare2D mk S1).filter (fun s => s.modifying)).length ≤ 1) :
    SameOutcome (resolve C (prepare2D mk S1)) (resolve C (prepare2D mk S2)) :=
  resolve_perm C (hperm.map _) hmod

/-! ### the built-in specifiers -/

/-- a specifier built by one of the functions of veneer.py -/
def IsBuiltin (s : Spec) : Prop := ∃ e ∈ Scenic.Gen.specTable, ∃ prop extra, s = e.inst prop extra

/-- side condition on the generated table: all modifying entries carry one and the same name, which
`inst` does not rewrite -/
def singleModifierName (T : List BuiltinEntry) : Bool :=
  T.all (fun a => T.all (fun b => !(a.spec.modifying && b.spec.modifying) ||
    (a.spec.name == b.spec.name && a.spec.name != "With($prop)")))

theorem gen_single_modifier_name : singleModifierName Scenic.Gen.specTable = true := by decide

theorem length_le_one_of_same_name {L : List Spec} (hnd : (L.map (·.name)).Nodup)
    (hsame : ∀ s ∈ L, ∀ t ∈ L, s.name = t.name) : L.length ≤ 1 := by
  match L with
  | [] => simp
  | [_] => simp
  | a :: b :: rest =>
    exfalso
    have := hsame a (by simp) b (by simp)
    simp only [List.map_cons, List.nodup_cons, List.mem_cons, not_or] at hnd
    exact hnd.1.1 this

/-- Any list of built-in specifiers that passes the duplicate-name check contains at most one modifying
specifier (the hypothesis of `resolve_perm_invariant`). -/
theorem builtin_single_modifier (S : List Spec) (hS : ∀ s ∈ S, IsBuiltin s)
    (hnd : (S.map (·.name)).Nodup) : (S.filter (fun s => s.modifying)).length ≤ 1 := by
  apply length_le_one_of_same_name ((List.filter_sublist.map _).nodup hnd)
  intro s hs t ht
  obtain ⟨hs1, hs2⟩ := List.mem_filter.mp hs
  obtain ⟨ht1, ht2⟩ := List.mem_filter.mp ht
  obtain ⟨a, ha, pa, xa, rfl⟩ := hS s hs1
  obtain ⟨b, hb, pb, xb, rfl⟩ := hS t ht1
  have hT := gen_single_modifier_name
  simp only [singleModifierName, List.all_eq_true] at hT
  have hab := hT a ha b hb
  have hma : a.spec.modifying = true := hs2
  have hmb : b.spec.modifying = true := ht2
  simp only [hma, hmb, Bool.and_self, Bool.not_true, Bool.false_or, Bool.and_eq_true, beq_iff_eq,
    bne_iff_ne, ne_eq] at hab
  have hba := hT b hb a ha
  simp only [hma, hmb, Bool.and_self, Bool.not_true, Bool.false_or, Bool.and_eq_true, beq_iff_eq,
    bne_iff_ne, ne_eq] at hba
  simp only [BuiltinEntry.inst, hab.2, hba.2, if_false]
  exact hab.1

/-- **Order independence for the built-in specifiers**, without any further hypothesis: whatever
built-in specifiers are written, in whatever order, the outcome is the same. -/
theorem builtin_perm_invariant (C : ClassInfo) (S1 S2 : List Spec) (hperm : S1.Perm S2)
    (hS : ∀ s ∈ S1, IsBuiltin s) : SameOutcome (resolve C S1) (resolve C S2) := by
  by_cases hnd : (S1.map (·.name)).Nodup
  · exact resolve_perm C hperm (builtin_single_modifier S1 hS hnd)
  · have h1 := (dup_name_reported C S1).mp hnd
    have hnd2 : ¬ (S2.map (·.name)).Nodup := fun h => hnd ((hperm.map _).nodup_iff.mpr h)
    have h2 := (dup_name_reported C S2).mp hnd2
    rw [h1, h2]; rfl

/-! ### witnesses -/

def wM1 : Spec := ⟨"M1", [("p", 1)], [], true, ["p"]⟩
def wM2 : Spec := ⟨"M2", [("p", 1)], [], true, ["p"]⟩

/-- the error of an outcome, if any -/
def errOf : Except Err Outcome → Option Err
  | .error e => some e
  | .ok _ => none

/-- the specifier that won a property, if resolution succeeded -/
def winnerOf (r : Except Err Outcome) (p : String) : Option Node :=
  match r with
  | .ok o => get o.assign p
  | .error _ => none

/-- The hypothesis "at most one modifying specifier" cannot be dropped: with two (which no Scenic
program can write -- `on` is the only modifying specifier) the winner depends on the order. -/
theorem two_modifiers_order_dependent :
    winnerOf (resolve ⟨[], []⟩ [wM1, wM2]) "p" = some (.user "M1") ∧
    winnerOf (resolve ⟨[], []⟩ [wM2, wM1]) "p" = some (.user "M2") := by decide

/-- Regression for the defect fixed in /repo commit 5766576b (the modifying pass had no `prop in finals` check):
`class Fin: parentOrientation[final]: ...` then `new Fin on region` -- the modifying specifier `on` would specify
the final property `parentOrientation` -- is refused exactly like the non-modifying `in region`, alone, after
another specifier, and also when `on` would only *modify* nothing and specify `parentOrientation` at priority 3. -/
theorem regression_final_by_modifier :
    errOf (resolve ⟨[("position", []), ("parentOrientation", []), ("baseOffset", []), ("contactTolerance", []),
        ("onDirection", [])], ["parentOrientation"]⟩ [exOn]) = some .finalProp ∧
    errOf (resolve ⟨[("position", []), ("parentOrientation", []), ("baseOffset", []), ("contactTolerance", []),
        ("onDirection", [])], ["parentOrientation"]⟩ [⟨"At", [("position", 1)], [], false, []⟩, exOn]) = some .finalProp ∧
    errOf (resolve ⟨[("position", []), ("parentOrientation", [])], ["parentOrientation"]⟩
        [⟨"In", [("position", 1), ("parentOrientation", 3)], [], false, []⟩]) = some .finalProp := by decide

/-- non-vacuity: without the `final` declaration the same lists resolve -/
example : winnerOf (resolve ⟨[("position", []), ("parentOrientation", []), ("baseOffset", []), ("contactTolerance", []),
        ("onDirection", [])], []⟩ [exOn]) "parentOrientation" = some (.user "On") := by decide

def wVis : Spec := ⟨"Visible/VisibleFrom", [("position", 3), ("_observingEntity", 1)], ["regionContainedIn"], false, []⟩
def wNVis : Spec := ⟨"NotVisible/NotVisibleFrom", [("position", 3), ("_nonObservingEntity", 1)], ["regionContainedIn"], false, []⟩
def wAt : Spec := ⟨"At", [("position", 1)], [], false, []⟩
def wC : ClassInfo := ⟨[("position", []), ("regionContainedIn", []), ("_observingEntity", []), ("_nonObservingEntity", [])], []⟩

/-- Regression for the defect fixed in /repo commit 9d666edb: priorities [3, 1, 3] and [3, 3, 1] for
`position` are both ties (before the fix the first order was accepted). -/
theorem regression_p3_p1_p3 :
    errOf (resolve wC [wVis, wAt, wNVis]) = some .tie ∧ errOf (resolve wC [wVis, wNVis, wAt]) = some .tie ∧
    errOf (resolve wC [wAt, wVis, wNVis]) = some .tie := by decide

example : winnerOf (resolve wC [wVis, wAt]) "position" = some (.user "At") ∧
    winnerOf (resolve wC [wVis]) "position" = some (.user "Visible/VisibleFrom") ∧
    winnerOf (resolve wC []) "position" = some (.dflt "position") := by decide


end Scenic.C06

namespace Scenic.C06
open Scenic.Spec

def wS5 : Spec := ⟨"S5", [("c", 1)], [], false, []⟩
def wS0 : Spec := ⟨"S0", [("b", 1)], ["a"], false, []⟩
def wS0' : Spec := ⟨"S0", [("b", 1)], [], false, []⟩
def wS1 : Spec := ⟨"S1", [("a", 1), ("b", 1), ("c", 3)], [], true, ["a", "b", "c"]⟩

def evaluatedBefore (r : Except Err Outcome) (x y : Node) : Option Bool :=
  match r with
  | .ok o => some (decide (pos o.order x < pos o.order y))
  | .error _ => none

/-- Regression for the defect fixed in /repo commit fe083d88 (`modifying_inv` kept one property per modifying
specifier): `S1` modifies `b` and `c`.  It is evaluated after the specifiers of *both* (before the fix only
after that of `c`, the last one), and the genuine cycle `S0` needs `a` (specified by `S1`), `S1` modifies
`b` (specified by `S0`) is reported (before the fix it went unnoticed). -/
theorem regression_multi_modifiable :
    evaluatedBefore (resolve ⟨[], []⟩ [wS1, wS5, wS0']) (.user "S0") (.user "S1") = some true ∧
    evaluatedBefore (resolve ⟨[], []⟩ [wS1, wS5, wS0']) (.user "S5") (.user "S1") = some true ∧
    winnerOf (resolve ⟨[], []⟩ [wS1, wS5, wS0']) "a" = some (.user "S1") ∧
    errOf (resolve ⟨[("c", ["b"])], []⟩ [wS5, wS0, wS1]) = some .cycle := by decide

/-- Regression for the defect fixed in /repo commit c434d71a (the "modified twice" error was formatted with an
undefined variable and surfaced as `NameError`): two modifying specifiers modifying one property are refused
with the `modifiedTwice` error, in either order. -/
theorem regression_modified_twice :
    errOf (resolve ⟨[], []⟩ [wAt, ⟨"M1", [("position", 2)], [], true, ["position"]⟩, ⟨"M2", [("position", 3)], [], true, ["position"]⟩])
      = some .modifiedTwice ∧
    errOf (resolve ⟨[], []⟩ [⟨"M2", [("position", 3)], [], true, ["position"]⟩, wAt, ⟨"M1", [("position", 2)], [], true, ["position"]⟩])
      = some .modifiedTwice := by decide

end Scenic.C06
