import ScenicModel.Props.C14Overrides
import ScenicModel.Props.C14Stale
import ScenicModel.Props.C14Revert
import ScenicModel.Props.C14Nested
import ScenicModel.Props.C14Witness
import ScenicModel.Props.C14Globals
import ScenicModel.Gen.SimCleanup
import ScenicModel.Gen.VeneerGlobals

/-!
# C14 — simulations leave scenes, scenarios and global state untouched, even on failure

Property theorems (all for every event/operation sequence, cut off at any point = every failure point,
and every history of earlier simulations):

* `proxy_isolation`, `sim_scene_untouched`, `sim_proxies_disabled`, `sim_reads_unchanged`,
  `sim_reaches_endSimulation`                                               (`C14Overrides.lean`)
* `sim_forgets_overrides`, `hist_scene_untouched`                           (`C14Stale.lean`)
* `overrides_reverted`                                                      (`C14Revert.lean`)
* `overrides_reverted_nested` (any nesting depth, LIFO discipline)          (`C14Nested.lean`)
* `session_restores`                                                        (`C14Globals.lean`)
* negation witnesses for every hypothesis                                   (`C14Witness.lean`, `C14Globals.lean`)

They are parametric in the configuration/tables regenerated from /repo (`Gen/SimCleanup.lean`,
`Gen/VeneerGlobals.lean`).  This file holds the side conditions on the generated data that the override
theorems need; the remaining ones are in `C14Side*.lean` (one module per condition, each with the closed
`…_current` theorems it yields) and are all imported by `Props/C14.lean`, except `C14SideDestroy.lean`, whose
condition is false of the source as found (finding `cleanup-aborted:sim_destroy`) and which the check builds
only once the condition holds.
-/
namespace Scenic.C14
open Scenic.Overrides Scenic.Veneer Scenic.Gen

/-- `DynamicScenario._override` merges old values with `setdefault` (repaired in c4c953c9) -/
theorem gen_merge_keeps_oldest : simCfg.merge = .keepOldest := by decide

/-- the `finally` block of `Simulation.__init__` contains all the steps the theorems need -/
theorem gen_cleanup_steps_present :
    Step.disableProxies ∈ simCfg.order ∧ Step.stopScenarios ∈ simCfg.order ∧ Step.endSimulation ∈ simCfg.order := by
  decide

/-- `_stop` stops sub-scenarios before reverting; `_createObject` enables the proxy before calling the simulator -/
theorem gen_model_assumptions : subsStoppedBeforeRevert = true ∧ proxyBeforeCreate = true := by decide

/-- the closers write initial values only, and every context manager restores what it assigns -/
theorem gen_closers_and_cms_wf :
    wfClose simTables = true ∧ wfCms simTables = true ∧ wfClose compileTables = true ∧ wfCms compileTables = true := by
  decide

/-- **every `override` is undone when its scenario ends** – instantiated on the source's bookkeeping -/
theorem overrides_reverted_current (st : St) (s par : Nat)
    (hfresh : ∀ f ∈ st.frames, inSub s f = false)
    (pre post : List Ev) (hpre : pre.all (ownEv s) = true) (hpost : post.all (ownEv s) = true)
    (o : ObjId) (p : PropId) (hc1 : writesTo o p pre = false) (hc2 : writesTo o p post = false) :
    (run simCfg st ([.prepare s par] ++ pre ++ [.start s] ++ post ++ [.stop s])).w.read o p = st.w.read o p :=
  overrides_reverted simCfg gen_merge_keeps_oldest st s par hfresh pre post hpre hpost o p hc1 hc2

/-- overrides of nested scenarios are undone – instantiated on the source's bookkeeping -/
theorem overrides_reverted_nested_current (st0 : St) (evs : List Ev) (o : ObjId) (p : PropId)
    (hd : discAll simCfg st0.frames.length o p st0 evs = true)
    (hend : ∀ f ∈ (run simCfg st0 evs).frames.drop st0.frames.length, isLive f = false) :
    (run simCfg st0 evs).w.read o p = st0.w.read o p :=
  overrides_reverted_nested simCfg gen_merge_keeps_oldest st0 evs o p hd hend

end Scenic.C14
