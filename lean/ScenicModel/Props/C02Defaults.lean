import ScenicModel.Model.DefaultReqs
import ScenicModel.Gen.DefaultReqsCfg

/-! # C02 (part 2): the default requirements are complete, and what each of them tests.

`generateDefaultRequirements` creates, for *every* list of instances: an intersection requirement for every
unordered pair of objects that may forbid collisions, a containment requirement for every object whose
container is not `everywhere`, and a (non-)visibility requirement for every instance with an observing
entity / every `requireVisible` object — each of the latter with the **full** list of possibly-occluding
objects minus source and target.  Core Lean only. -/
namespace Scenic.C02
open Scenic.DefaultReqs

theorem dwf_parts (c : Cfg) (h : c.WF = true) :
    c.collideIfRandom = true ∧ c.collideIfFalse = true ∧ c.combinationsOfTwo = true ∧ c.containUnlessAll = true ∧
    c.occludeIfRandom = true ∧ c.occludeIfTrue = true ∧ c.occludersKind = .materialized ∧
    c.hasObserving = true ∧ c.hasNonObserving = true ∧ c.hasEgoVisible = true ∧ c.dropSource = true ∧
    c.dropTarget = true ∧ c.optIntersection = false ∧ c.optContainment = false ∧ c.optVisibility = false ∧
    c.optUser = false ∧ c.interSkipsAllowed = true ∧ c.interPositive = true ∧ c.containNegated = true ∧
    c.visNegated = true ∧ c.visFiltersOccluding = true ∧ c.nonVisNegatesSuper = true ∧
    c.userFalsifiedWhenFalse = true := by
  simp only [Cfg.WF, Bool.and_eq_true, beq_iff_eq, Bool.not_eq_true'] at h
  obtain ⟨⟨⟨⟨⟨⟨⟨⟨⟨⟨⟨⟨⟨⟨⟨⟨⟨⟨⟨⟨⟨⟨h1, h2⟩, h3⟩, h4⟩, h5⟩, h6⟩, h7⟩, h8⟩, h9⟩, h10⟩, h11⟩, h12⟩, h13⟩, h14⟩, h15⟩, h16⟩,
    h17⟩, h18⟩, h19⟩, h20⟩, h21⟩, h22⟩, h23⟩ := h
  exact ⟨h1, h2, h3, h4, h5, h6, h7, h8, h9, h10, h11, h12, h13, h14, h15, h16, h17, h18, h19, h20, h21, h22, h23⟩

/-! ## pairs -/

theorem pairs_filter (p : Nat → Bool) : ∀ (l : List Nat) (a b : Nat),
    (a, b) ∈ pairs l → p a = true → p b = true → (a, b) ∈ pairs (l.filter p)
  | [], a, b, h, _, _ => by simp [pairs] at h
  | x :: xs, a, b, h, ha, hb => by
    unfold pairs at h
    rcases List.mem_append.mp h with h1 | h1
    · obtain ⟨y, hy, hxy⟩ := List.mem_map.mp h1
      simp only [Prod.mk.injEq] at hxy
      obtain ⟨rfl, rfl⟩ := hxy
      rw [List.filter_cons_of_pos ha]
      unfold pairs
      apply List.mem_append.mpr; left
      exact List.mem_map.mpr ⟨y, List.mem_filter.mpr ⟨hy, hb⟩, rfl⟩
    · have ih := pairs_filter p xs a b h1 ha hb
      by_cases hx : p x = true
      · rw [List.filter_cons_of_pos hx]
        unfold pairs
        exact List.mem_append.mpr (Or.inr ih)
      · rw [List.filter_cons_of_neg hx]; exact ih

/-- `pairs l` are exactly the position-ordered pairs: both components are members -/
theorem pairs_mem : ∀ (l : List Nat) (a b : Nat), (a, b) ∈ pairs l → a ∈ l ∧ b ∈ l
  | [], a, b, h => by simp [pairs] at h
  | x :: xs, a, b, h => by
    unfold pairs at h
    rcases List.mem_append.mp h with h1 | h1
    · obtain ⟨y, hy, hxy⟩ := List.mem_map.mp h1
      simp only [Prod.mk.injEq] at hxy
      obtain ⟨rfl, rfl⟩ := hxy
      exact ⟨List.mem_cons_self, List.mem_cons_of_mem _ hy⟩
    · obtain ⟨h2, h3⟩ := pairs_mem xs a b h1
      exact ⟨List.mem_cons_of_mem _ h2, List.mem_cons_of_mem _ h3⟩

/-- every two distinct positions of the list give a pair (in list order) -/
theorem pairs_complete : ∀ (l : List Nat) (i j : Nat) (a b : Nat), i < j → l[i]? = some a → l[j]? = some b →
    (a, b) ∈ pairs l
  | [], i, j, a, b, _, h, _ => by simp at h
  | x :: xs, i, j, a, b, hij, hi, hj => by
    unfold pairs
    cases j with
    | zero => omega
    | succ j =>
      simp only [List.getElem?_cons_succ] at hj
      cases i with
      | zero =>
        simp only [List.getElem?_cons_zero, Option.some.injEq] at hi
        subst hi
        apply List.mem_append.mpr; left
        exact List.mem_map.mpr ⟨b, List.mem_of_getElem? hj, rfl⟩
      | succ i =>
        simp only [List.getElem?_cons_succ] at hi
        exact List.mem_append.mpr (Or.inr (pairs_complete xs i j a b (by omega) hi hj))

/-! ## the visibility loops -/

/-- with a materialised occluder collection every requirement of the loop sees all of it, and the
    collection is handed on unchanged -/
theorem visLoop_materialized (c : Cfg) (mk : Nat → Nat → List Nat → ReqKind) (sel : Inst → Option Nat)
    (insts : List Inst) (items : List Nat) :
    ∀ (ts : List Nat),
      (visLoop c mk sel insts ts ⟨.materialized, items⟩).2 = ⟨.materialized, items⟩ ∧
      ∀ t ∈ ts, ∀ s, sel (instAt insts t) = some s →
        mk s t (visOccluders c s t items) ∈ (visLoop c mk sel insts ts ⟨.materialized, items⟩).1
  | [] => by simp [visLoop]
  | t0 :: ts => by
    obtain ⟨ih1, ih2⟩ := visLoop_materialized c mk sel insts items ts
    unfold visLoop
    cases hsel : sel (instAt insts t0) with
    | none =>
      simp only
      refine ⟨ih1, ?_⟩
      intro t ht s hs
      rcases List.mem_cons.mp ht with rfl | ht'
      · rw [hsel] at hs; exact absurd hs (by simp)
      · exact ih2 t ht' s hs
    | some s0 =>
      simp only [Iter.consume]
      refine ⟨ih1, ?_⟩
      intro t ht s hs
      rcases List.mem_cons.mp ht with rfl | ht'
      · rw [hsel] at hs
        simp only [Option.some.injEq] at hs
        subst hs
        exact List.mem_cons_self
      · exact List.mem_cons_of_mem _ (ih2 t ht' s hs)

/-! ## completeness -/

/-- the occluder list a complete visibility requirement must carry: all possibly-occluding objects except
    source and target -/
def fullOccluders (c : Cfg) (insts : List Inst) (objects : List Nat) (s t : Nat) : List Nat :=
  (objects.filter fun o => mayOcclude c (instAt insts o)).filter fun o => o != s && o != t

theorem visOccluders_wf (c : Cfg) (hs : c.dropSource = true) (ht : c.dropTarget = true) (s t : Nat)
    (l : List Nat) : visOccluders c s t l = l.filter fun o => o != s && o != t := by
  unfold visOccluders
  simp [hs, ht]

/-- **defaults_complete** -/
theorem defaults_complete (c : Cfg) (hc : c.WF = true) (insts : List Inst) (objects : List Nat)
    (ego : Option Nat) (rs : List ReqKind) (h : generate c insts objects ego = some rs) :
    (∀ a b, (a, b) ∈ pairs objects → collidable c (instAt insts a) = true → collidable c (instAt insts b) = true →
        ReqKind.intersection a b ∈ rs) ∧
    (∀ o ∈ objects, (instAt insts o).containerAll = false → ReqKind.containment o ∈ rs) ∧
    (∀ t, t < insts.length → ∀ s, (instAt insts t).observing = some s →
        ReqKind.visibility s t (fullOccluders c insts objects s t) ∈ rs) ∧
    (∀ t, t < insts.length → ∀ s, (instAt insts t).nonObserving = some s →
        ReqKind.nonVisibility s t (fullOccluders c insts objects s t) ∈ rs) ∧
    (∀ o ∈ objects, (instAt insts o).requireVisible = true → some o ≠ ego →
        ∃ e, ego = some e ∧
          ReqKind.visibility e o (objects.filter fun x => x != e && x != o) ∈ rs) := by
  obtain ⟨_, _, hcomb, hcont, _, _, hkind, hobs, hnobs, hego, hds, hdt, _⟩ := dwf_parts c hc
  unfold generate at h
  simp only [hcomb, hcont, hkind, hobs, hnobs, hego, if_true, Bool.true_and] at h
  -- name the pieces
  generalize hbl : (if c.initialCollisionCheck = true then [ReqKind.blanket objects] else []) = blanket at h
  generalize hoc : (objects.filter fun o => mayOcclude c (instAt insts o)) = occ at h
  have hv := visLoop_materialized c .visibility (·.observing) insts occ (List.range insts.length)
  have hn := visLoop_materialized c .nonVisibility (·.nonObserving) insts occ (List.range insts.length)
  generalize hvl : visLoop c .visibility (·.observing) insts (List.range insts.length) ⟨.materialized, occ⟩ = vres at h hv
  obtain ⟨vis, it1⟩ := vres
  simp only at hv
  obtain ⟨hv1, hv2⟩ := hv
  subst hv1
  simp only at h
  generalize hnl : visLoop c .nonVisibility (·.nonObserving) insts (List.range insts.length) ⟨.materialized, occ⟩ = nres at h hn
  obtain ⟨nonvis, it2⟩ := nres
  simp only at hn h
  obtain ⟨_, hn2⟩ := hn
  -- facts independent of the ego case split
  have hI : ∀ a b, (a, b) ∈ pairs objects → collidable c (instAt insts a) = true →
      collidable c (instAt insts b) = true →
      ReqKind.intersection a b ∈ (pairs (objects.filter fun o => collidable c (instAt insts o))).map
        (fun p => ReqKind.intersection p.1 p.2) := by
    intro a b hab ha hb
    exact List.mem_map.mpr ⟨(a, b), pairs_filter (fun o => collidable c (instAt insts o)) objects a b hab ha hb, rfl⟩
  have hC : ∀ o ∈ objects, (instAt insts o).containerAll = false →
      ReqKind.containment o ∈ (objects.filter fun o => !(instAt insts o).containerAll).map ReqKind.containment := by
    intro o ho hca
    exact List.mem_map.mpr ⟨o, List.mem_filter.mpr ⟨ho, by simp [hca]⟩, rfl⟩
  have hV : ∀ t, t < insts.length → ∀ s, (instAt insts t).observing = some s →
      ReqKind.visibility s t (fullOccluders c insts objects s t) ∈ vis := by
    intro t ht s hs
    have := hv2 t (List.mem_range.mpr ht) s hs
    rw [visOccluders_wf c hds hdt] at this
    unfold fullOccluders; rw [hoc]; exact this
  have hN : ∀ t, t < insts.length → ∀ s, (instAt insts t).nonObserving = some s →
      ReqKind.nonVisibility s t (fullOccluders c insts objects s t) ∈ nonvis := by
    intro t ht s hs
    have := hn2 t (List.mem_range.mpr ht) s hs
    rw [visOccluders_wf c hds hdt] at this
    unfold fullOccluders; rw [hoc]; exact this
  generalize hwe : (objects.filter fun o => (instAt insts o).requireVisible && some o != ego) = wantEgo at h
  have hW : ∀ o ∈ objects, (instAt insts o).requireVisible = true → some o ≠ ego → o ∈ wantEgo := by
    intro o ho hrv hne
    rw [← hwe]
    exact List.mem_filter.mpr ⟨ho, by simp [hrv, hne]⟩
  cases ego with
  | none =>
    cases wantEgo with
    | nil =>
      simp only [Option.some.injEq] at h
      subst h
      refine ⟨?_, ?_, ?_, ?_, ?_⟩
      · intro a b hab ha hb; simp only [List.mem_append]; exact Or.inl (Or.inl (Or.inl (Or.inr (hI a b hab ha hb))))
      · intro o ho hca; simp only [List.mem_append]; exact Or.inl (Or.inl (Or.inr (hC o ho hca)))
      · intro t ht s hs; simp only [List.mem_append]; exact Or.inl (Or.inr (hV t ht s hs))
      · intro t ht s hs; simp only [List.mem_append]; exact Or.inr (hN t ht s hs)
      · intro o ho hrv hne; exact absurd (hW o ho hrv hne) (by simp)
    | cons x xs => simp at h
  | some e =>
    simp only [Option.some.injEq] at h
    subst h
    refine ⟨?_, ?_, ?_, ?_, ?_⟩
    · intro a b hab ha hb; simp only [List.mem_append]
      exact Or.inl (Or.inl (Or.inl (Or.inl (Or.inr (hI a b hab ha hb)))))
    · intro o ho hca; simp only [List.mem_append]; exact Or.inl (Or.inl (Or.inl (Or.inr (hC o ho hca))))
    · intro t ht s hs; simp only [List.mem_append]; exact Or.inl (Or.inl (Or.inr (hV t ht s hs)))
    · intro t ht s hs; simp only [List.mem_append]; exact Or.inl (Or.inr (hN t ht s hs))
    · intro o ho hrv hne
      refine ⟨e, rfl, ?_⟩
      simp only [List.mem_append]
      right
      refine List.mem_map.mpr ⟨o, hW o ho hrv hne, ?_⟩
      rw [visOccluders_wf c hds hdt]

/-- none of the requirements listed by `defaults_complete` is optional (so none can be skipped) -/
theorem defaults_mandatory (c : Cfg) (hc : c.WF = true) :
    (∀ a b, (ReqKind.intersection a b).optional c = false) ∧
    (∀ o, (ReqKind.containment o).optional c = false) ∧
    (∀ s t occ, (ReqKind.visibility s t occ).optional c = false) ∧
    (∀ s t occ, (ReqKind.nonVisibility s t occ).optional c = false) ∧
    (∀ k, (ReqKind.user k).optional c = false) := by
  obtain ⟨_, _, _, _, _, _, _, _, _, _, _, _, h1, h2, h3, h4, _⟩ := dwf_parts c hc
  exact ⟨fun _ _ => h1, fun _ => h2, fun _ _ _ => h3, fun _ _ _ => h3, fun _ => h4⟩

/-! ## only built-in requirements are generated -/

theorem visLoop_no_user (c : Cfg) (mk : Nat → Nat → List Nat → ReqKind) (hmk : ∀ s t o u, mk s t o ≠ .user u)
    (sel : Inst → Option Nat) (insts : List Inst) :
    ∀ (ts : List Nat) (it : Iter) (u : Nat), ReqKind.user u ∉ (visLoop c mk sel insts ts it).1
  | [], it, u => by simp [visLoop]
  | t :: ts, it, u => by
    unfold visLoop
    cases sel (instAt insts t) with
    | none => exact visLoop_no_user c mk hmk sel insts ts it u
    | some s =>
      simp only
      intro hmem
      rcases List.mem_cons.mp hmem with h | h
      · exact hmk _ _ _ _ h.symm
      · exact visLoop_no_user c mk hmk sel insts ts _ u h

/-- `generateDefaultRequirements` only creates built-in requirements -/
theorem generate_no_user (c : Cfg) (insts : List Inst) (objects : List Nat) (ego : Option Nat)
    (rs : List ReqKind) (h : generate c insts objects ego = some rs) (u : Nat) : ReqKind.user u ∉ rs := by
  unfold generate at h
  simp only at h
  have hV : ReqKind.user u ∉ (if c.hasObserving = true then
      visLoop c ReqKind.visibility (fun x => x.observing) insts (List.range insts.length)
        { kind := c.occludersKind, items := List.filter (fun o => mayOcclude c (instAt insts o)) objects }
      else ([], { kind := c.occludersKind, items := List.filter (fun o => mayOcclude c (instAt insts o)) objects })).fst := by
    split
    · exact visLoop_no_user c _ (by intro s t o u h; cases h) _ insts _ _ u
    · simp
  generalize (if c.hasObserving = true then
      visLoop c ReqKind.visibility (fun x => x.observing) insts (List.range insts.length)
        { kind := c.occludersKind, items := List.filter (fun o => mayOcclude c (instAt insts o)) objects }
      else ([], { kind := c.occludersKind, items := List.filter (fun o => mayOcclude c (instAt insts o)) objects })) = V at h hV
  have hN : ReqKind.user u ∉ (if c.hasNonObserving = true then
      visLoop c ReqKind.nonVisibility (fun x => x.nonObserving) insts (List.range insts.length) V.snd
      else ([], V.snd)).fst := by
    split
    · exact visLoop_no_user c _ (by intro s t o u h; cases h) _ insts _ _ u
    · simp
  generalize (if c.hasNonObserving = true then
      visLoop c ReqKind.nonVisibility (fun x => x.nonObserving) insts (List.range insts.length) V.snd
      else ([], V.snd)) = N at h hN
  have hB : ReqKind.user u ∉ (if c.initialCollisionCheck = true then [ReqKind.blanket objects] else []) := by
    split <;> simp
  have hI : ReqKind.user u ∉ (if c.combinationsOfTwo = true then
      List.map (fun p => ReqKind.intersection p.fst p.snd)
        (pairs (List.filter (fun o => collidable c (instAt insts o)) objects)) else []) := by
    split <;> simp
  have hC : ReqKind.user u ∉ List.map ReqKind.containment
      (List.filter (fun o => c.containUnlessAll && !(instAt insts o).containerAll) objects) := by simp
  intro hmem
  split at h
  · simp at h
  · simp only [Option.some.injEq] at h
    subst h
    simp only [List.mem_append] at hmem
    rcases hmem with (((h1 | h1) | h1) | h1) | h1
    · exact hB h1
    · exact hI h1
    · exact hC h1
    · exact hV h1
    · exact hN h1
  · simp only [Option.some.injEq] at h
    subst h
    simp only [List.mem_append] at hmem
    rcases hmem with ((((h1 | h1) | h1) | h1) | h1) | h1
    · exact hB h1
    · exact hI h1
    · exact hC h1
    · exact hV h1
    · exact hN h1
    · simp at h1

/-! ## the one-shot iterator (the defect repaired by /repo commit 0f60b192, kept as a regression witness) -/

def exInsts : List Inst := [
  ⟨true, some false, false, some true, false, none, none⟩,      -- 0: ego
  ⟨true, some false, false, some true, false, some 0, none⟩,    -- 1: visible from ego
  ⟨true, some false, false, some true, false, some 0, none⟩,    -- 2: visible from ego
  ⟨true, some false, false, some true, false, none, none⟩]      -- 3: a wall

/-- with `possible_occluders` bound to a `filter` object, the *second* visibility requirement is created
    with no occluders at all: `defaults_complete` is false for that code -/
theorem oneShot_loses_occluders :
    generate { Scenic.Gen.defaultReqsCfg with occludersKind := .oneShot, initialCollisionCheck := false }
        exInsts [0, 1, 2, 3] (some 0)
      = some ([.intersection 0 1, .intersection 0 2, .intersection 0 3, .intersection 1 2, .intersection 1 3,
               .intersection 2 3, .containment 0, .containment 1, .containment 2, .containment 3,
               .visibility 0 1 [2, 3], .visibility 0 2 []]) := by decide

/-- the current code: the second requirement sees the wall (and object 1) -/
example : generate { Scenic.Gen.defaultReqsCfg with initialCollisionCheck := false } exInsts [0, 1, 2, 3] (some 0)
      = some ([.intersection 0 1, .intersection 0 2, .intersection 0 3, .intersection 1 2, .intersection 1 3,
               .intersection 2 3, .containment 0, .containment 1, .containment 2, .containment 3,
               .visibility 0 1 [2, 3], .visibility 0 2 [1, 3]]) := by decide

/-- side condition on the regenerated data -/
theorem gen_defaults_wf : Scenic.Gen.defaultReqsCfg.WF = true := by decide

end Scenic.C02
