import ScenicModel.Lemmas.Determinism
import ScenicModel.Gen.Determinism

/-!
# C15 — same program, options and seed give identical scenes, every time

The model (`Model/Determinism.lean`) makes everything a run can depend on explicit: the object graph
with its identities (addresses), the order of `Scenario.dependencies`, the states of the two
user-visible generators, and the requirement checker with its private history (timing buffers) and
its own use of the generators.  The theorems say which of these the result does *not* depend on:

* `generate_indep_of_checker` / `check_does_not_perturb` — not on the checker: its history, the
  wall-clock driven order of its checks, what it consumes from either generator (for every number of
  scenes generated before, since the checker state is threaded through `generateMany`);
* `checker_timing_irrelevant`, `weighted_equals_basic` — the verdict of the sequential checkers of
  sample_checking.py is the same for every arrangement of the checks;
* `layout_independent` — not on the addresses of the objects (any injective renaming);

and the witnesses show that each hypothesis is needed: the dependency order
(`order_matters_witness`), the save/restore bracket (`no_restore_perturbs_witness`), requirement
verdicts that do not read the global generators (`impure_requirement_order_witness`), redundancy of
optional requirements (`optional_nonredundant_witness`), and an order that is not derived from
addresses (`set_order_layout_dependent_witness`).  So "same seed ⇒ same result" reduces to: the
dependency tuple is built in a canonical order — proved in `Props/C15Deps.lean` for the model of
its construction, instantiated with the container kinds regenerated from /repo.

Full statement of the property (not provable as a whole: CPython's allocator/hashing, NumPy and
trimesh are outside the model; that part is checked by running fresh processes, see
`tools/props/c15.py`):
  for all programs, seeds, process instances and histories, compile + generate + simulate in a
  fresh process yields bit-identical scenes, attempt counts and simulation results.
-/
namespace Scenic.C15
open Scenic.Det Scenic.Gen

/-! ## side conditions on the data regenerated from /repo -/

/-- both generator states are saved before and restored after requirement checking -/
theorem gen_bracket_full : detBracket.full = true := by decide

/-- internal sampling (mesh interior point, visibility ray shuffle) uses private constant-seeded
    generators and mesh construction avoids `apply_transform` -/
theorem gen_private_sites : (detPrivateSites.all fun p => p.2) = true := by decide

section
variable {σ : Type} (nx : σ → Nat × σ) (sem : Nat → Nat → List Val → Option Val)

/-! ## determinism given the dependency order -/

/-- **deterministic_given_order / check_does_not_perturb.**  For every program, generator, seed,
    number of scenes and iteration budget: two runs whose checkers give the same verdicts on the
    same samples — whatever their kind, their history, the order in which they evaluate
    requirements and whatever they draw from Python's or NumPy's generator — produce the same
    scenes, the same iteration counts, the same success flag and leave both user-visible
    generators in the same state. -/
theorem generate_indep_of_checker {κ₁ κ₂ : Type} (P : Program) (c₁ : Checker σ κ₁)
    (c₂ : Checker σ κ₂) (hv : SameVerdicts c₁ c₂) (n budget : Nat) (k₁ : κ₁) (k₂ : κ₂)
    (rs : RS σ) :
    (generateMany nx sem P detBracket detActivationLe c₁ n budget k₁ rs).scenes
      = (generateMany nx sem P detBracket detActivationLe c₂ n budget k₂ rs).scenes ∧
    (generateMany nx sem P detBracket detActivationLe c₁ n budget k₁ rs).ok
      = (generateMany nx sem P detBracket detActivationLe c₂ n budget k₂ rs).ok ∧
    (generateMany nx sem P detBracket detActivationLe c₁ n budget k₁ rs).rs
      = (generateMany nx sem P detBracket detActivationLe c₂ n budget k₂ rs).rs :=
  generateMany_indep_of_checker nx sem P detBracket gen_bracket_full detActivationLe c₁ c₂ hv
    n budget k₁ k₂ rs

/-- the checker that only looks at the sample: consumes nothing, remembers nothing -/
def oracleChecker (v : List Bool → Memo → Bool) : Checker σ Unit :=
  fun _ acts m rs => (v acts m, (), rs)

/-- **check_does_not_perturb.**  Whatever a checker with verdict function `v` does internally, the
    user-visible generators end up exactly where they would be had requirement checking consumed
    nothing at all, and the scenes are those of the ideal checker. -/
theorem check_does_not_perturb {κ : Type} (P : Program) (c : Checker σ κ)
    (v : List Bool → Memo → Bool) (hv : ∀ k acts m rs, (c k acts m rs).1 = v acts m)
    (n budget : Nat) (k : κ) (rs : RS σ) :
    (generateMany nx sem P detBracket detActivationLe c n budget k rs).rs
      = (generateMany nx sem P detBracket detActivationLe (oracleChecker v) n budget () rs).rs ∧
    (generateMany nx sem P detBracket detActivationLe c n budget k rs).scenes
      = (generateMany nx sem P detBracket detActivationLe (oracleChecker v) n budget () rs).scenes := by
  have h : SameVerdicts c (oracleChecker (σ := σ) v) := by
    intro k₁ k₂ acts m r₁ r₂; simp [oracleChecker, hv]
  obtain ⟨h1, _, h3⟩ := generate_indep_of_checker nx sem P c (oracleChecker v) h n budget k () rs
  exact ⟨h3, h1⟩

/-! ## the sequential checkers: the verdict does not depend on the arrangement of the checks -/

/-- **checker_timing_irrelevant.**  `WeightedAcceptanceChecker` under two different timing
    histories (`arr₁`, `arr₂`: any rearrangements of the active requirements; `upd₁`, `upd₂`: any
    bookkeeping) generates the same scenes with the same iteration counts and the same final
    generator states, provided verdicts are pure and optional requirements redundant. -/
theorem checker_timing_irrelevant {κ₁ κ₂ : Type} (P : Program)
    (reqsOf : List Bool → List (Req σ)) (rs₀ : RS σ) (hok : ReqsOK reqsOf rs₀)
    (arr₁ : κ₁ → List (Req σ) → List (Req σ)) (arr₂ : κ₂ → List (Req σ) → List (Req σ))
    (h₁ : ∀ k l r, r ∈ arr₁ k l ↔ r ∈ l) (h₂ : ∀ k l r, r ∈ arr₂ k l ↔ r ∈ l)
    (upd₁ : κ₁ → Memo → Bool → κ₁) (upd₂ : κ₂ → Memo → Bool → κ₂)
    (n budget : Nat) (k₁ : κ₁) (k₂ : κ₂) (rs : RS σ) :
    (generateMany nx sem P detBracket detActivationLe (weightedChecker reqsOf arr₁ upd₁) n budget k₁ rs).scenes
      = (generateMany nx sem P detBracket detActivationLe (weightedChecker reqsOf arr₂ upd₂) n budget k₂ rs).scenes ∧
    (generateMany nx sem P detBracket detActivationLe (weightedChecker reqsOf arr₁ upd₁) n budget k₁ rs).rs
      = (generateMany nx sem P detBracket detActivationLe (weightedChecker reqsOf arr₂ upd₂) n budget k₂ rs).rs := by
  obtain ⟨a, _, c⟩ := generate_indep_of_checker nx sem P _ _
    (weighted_sameVerdicts reqsOf rs₀ hok arr₁ arr₂ h₁ h₂ upd₁ upd₂) n budget k₁ k₂ rs
  exact ⟨a, c⟩

/-- the weighted checker and the basic checker generate the same scenes -/
theorem weighted_equals_basic {κ : Type} (P : Program)
    (reqsOf : List Bool → List (Req σ)) (rs₀ : RS σ) (hok : ReqsOK reqsOf rs₀)
    (arr : κ → List (Req σ) → List (Req σ)) (h : ∀ k l r, r ∈ arr k l ↔ r ∈ l)
    (upd : κ → Memo → Bool → κ) (n budget : Nat) (k : κ) (rs : RS σ) :
    (generateMany nx sem P detBracket detActivationLe (weightedChecker reqsOf arr upd) n budget k rs).scenes
      = (generateMany nx sem P detBracket detActivationLe (basicChecker reqsOf) n budget () rs).scenes ∧
    (generateMany nx sem P detBracket detActivationLe (weightedChecker reqsOf arr upd) n budget k rs).rs
      = (generateMany nx sem P detBracket detActivationLe (basicChecker reqsOf) n budget () rs).rs := by
  obtain ⟨a, _, c⟩ := generate_indep_of_checker nx sem P _ _
    (weighted_basic_sameVerdicts reqsOf rs₀ hok arr h upd) n budget k () rs
  exact ⟨a, c⟩

/-- the verdict of one weighted check is "some mandatory active requirement is falsified",
    for every arrangement -/
theorem verdict_is_mandatory_any (reqs arranged : List (Req σ))
    (hmem : ∀ r, r ∈ arranged ↔ r ∈ reqs) (hp : ∀ r ∈ reqs, r.Pure)
    (m : Memo) (rs₀ : RS σ) (hred : OptionalRedundant reqs m rs₀) (rs : RS σ) :
    (seqRun (popTrailingOptional arranged) m rs).1 = mandatoryVerdict reqs m rs₀ :=
  arranged_verdict reqs arranged hmem hp m rs₀ hred rs

/-! ## independence of the memory layout -/

/-- **layout_independent.**  Placing the objects of the program at other addresses (any injective
    renaming `ρ` of identities, applied to the graph, to the dependency order and to the objects a
    scene shows) changes nothing: same scenes, same iteration counts, same generator states. -/
theorem layout_independent {κ : Type} (ρ : Id → Id) (hρ : Inj ρ) (P : Program)
    (c c' : Checker σ κ) (hc : CheckerRen ρ c c') (n budget : Nat) (k : κ) (rs : RS σ) :
    (generateMany nx sem (renProgram ρ P) detBracket detActivationLe c' n budget k rs).scenes
      = (generateMany nx sem P detBracket detActivationLe c n budget k rs).scenes ∧
    (generateMany nx sem (renProgram ρ P) detBracket detActivationLe c' n budget k rs).ok
      = (generateMany nx sem P detBracket detActivationLe c n budget k rs).ok ∧
    (generateMany nx sem (renProgram ρ P) detBracket detActivationLe c' n budget k rs).rs
      = (generateMany nx sem P detBracket detActivationLe c n budget k rs).rs :=
  generateMany_ren nx sem ρ hρ P detBracket detActivationLe c c' hc n budget k rs

/-- one `sampleAll` under a change of addresses: same values bound in the same order, same
    consumption -/
theorem sampleAll_layout_independent (ρ : Id → Id) (hρ : Inj ρ) (tbl : Table) (fuel : Nat)
    (order : List Id) (rs : RS σ) :
    sampleAll nx sem (renTable ρ tbl) fuel (order.map ρ) rs
      = renListRes ρ (sampleAll nx sem tbl fuel order rs) :=
  sampleAll_ren nx sem ρ hρ tbl fuel order rs

/-! ## what precedes and follows a scene -/

/-- choosing the active soft requirements advances Python's generator by exactly one draw per user
    requirement, whatever their probabilities -/
theorem activation_consumption_fixed (probs : List Nat) (s : σ) :
    (activate nx detActivationLe probs s).2 = advance nx probs.length s :=
  (activate_consumes nx detActivationLe probs s).1

/-- the first `n` scenes of a batch do not depend on how many scenes are requested after them -/
theorem earlier_scenes_unaffected {κ : Type} (P : Program) (c : Checker σ κ) (n budget : Nat)
    (k : κ) (rs : RS σ) :
    ((generateMany nx sem P detBracket detActivationLe c (n + 1) budget k rs).scenes).take n
      = (generateMany nx sem P detBracket detActivationLe c n budget k rs).scenes :=
  scenes_prefix nx sem P detBracket detActivationLe c n budget k rs

end

/-! ## the hypotheses are satisfiable, and each one is needed (concrete witnesses) -/

/-- ego (0) and two random values (1, 2) referenced only by the requirement `v1 < v2` -/
def wTbl : Table :=
  [(0, ⟨.py, 0, []⟩), (1, ⟨.py, 0, []⟩), (2, ⟨.py, 0, []⟩)]
def wSem : Nat → Nat → List Val → Option Val := fun _ d _ => some d
def wProg (order : List Id) : Program :=
  { tbl := wTbl, fuel := 4, order := order, probs := [], view := [0] }
/-- rejects unless `v1 < v2`; consumes one element of each generator while checking -/
def wChk : Checker (List Nat) Unit :=
  fun _ _ m rs => (decide (get m 1 ≥ get m 2), (), { py := rs.py.drop 1, np := rs.np.drop 1 })
def wRS : RS (List Nat) := { py := [5, 1, 9, 7, 3, 2, 8, 6, 4, 11, 12, 13], np := [1, 2, 3] }

/-- the theorems above apply to this program (their hypotheses hold for it) and it is non-trivial:
    the first attempt is rejected -/
example : (generateMany listNext wSem (wProg [0, 2, 1]) detBracket detActivationLe wChk 2 10 () wRS).scenes
    = [([7], 2), ([8], 1)] := by decide

example : SameVerdicts wChk (oracleChecker (σ := List Nat) fun _ m => decide (get m 1 ≥ get m 2)) := by
  intro _ _ _ _ _ _; rfl

/-- **order_matters_witness.**  Two orders of the two requirement-only random values give
    different scenes and attempt counts from the same seed: the dependency order must be canonical. -/
theorem order_matters_witness :
    (generateMany listNext wSem (wProg [0, 1, 2]) detBracket detActivationLe wChk 1 10 () wRS).scenes
      = [([5], 1)] ∧
    (generateMany listNext wSem (wProg [0, 2, 1]) detBracket detActivationLe wChk 1 10 () wRS).scenes
      = [([7], 2)] := by decide

/-- **no_restore_perturbs_witness.**  Without the restore of Python's generator state the
    checker's internal consumption shifts the user-visible stream: the second scene changes. -/
theorem no_restore_perturbs_witness :
    (generateMany listNext wSem (wProg [0, 1, 2]) ⟨true, true, true, true⟩ true wChk 2 10 () wRS).scenes
      ≠ (generateMany listNext wSem (wProg [0, 1, 2]) ⟨true, true, false, true⟩ true wChk 2 10 () wRS).scenes := by
  decide

/-- a requirement that reads Python's global generator, and one that advances it -/
def impureReq : Req (List Nat) := ⟨false, fun _ rs => (decide (rs.py.headD 0 = 5), rs)⟩
def burningReq : Req (List Nat) := ⟨false, fun _ rs => (false, { rs with py := rs.py.drop 1 })⟩

/-- **impure_requirement_order_witness.**  If a verdict depends on the state of a user-visible
    generator, the order of the checks (which is timing dependent) changes the verdict: internal
    sampling must use private generators. -/
theorem impure_requirement_order_witness :
    (seqRun [impureReq, burningReq] [] wRS).1 = true ∧
    (seqRun [burningReq, impureReq] [] wRS).1 = false := by decide

def optFalsified : Req (List Nat) := ⟨true, fun _ rs => (true, rs)⟩
def mandSatisfied : Req (List Nat) := ⟨false, fun _ rs => (false, rs)⟩

/-- **optional_nonredundant_witness.**  An optional requirement that can be falsified while all
    mandatory ones hold makes the verdict depend on the arrangement (it is dropped when sorted last). -/
theorem optional_nonredundant_witness :
    (seqRun (popTrailingOptional [optFalsified, mandSatisfied]) [] wRS).1 = true ∧
    (seqRun (popTrailingOptional [mandSatisfied, optFalsified]) [] wRS).1 = false := by decide

/-- the same two objects at other addresses -/
def wLayout : Id → Id := fun i => if i = 1 then 13 else if i = 2 then 3 else i + 100

/-- **set_order_layout_dependent_witness.**  If the requirement-only values reach the dependencies
    in the iteration order of a set of objects hashed by address, then in one memory layout they are
    appended as (v1, v2) and in another as (v2, v1); by `layout_independent` the second run equals
    the unrenamed program run with the order (v2, v1), whose scenes differ from the first
    (`order_matters_witness`).  So the side condition on the generated order sites is needed. -/
theorem set_order_layout_dependent_witness :
    setOrder 8 [1, 2] = [1, 2] ∧
    setOrder 8 ([1, 2].map wLayout) = [2, 1].map wLayout ∧
    (generateMany listNext wSem (wProg (0 :: [1, 2])) detBracket detActivationLe wChk 1 10 () wRS).scenes
      ≠ (generateMany listNext wSem (wProg (0 :: [2, 1])) detBracket detActivationLe wChk 1 10 () wRS).scenes := by
  decide

end Scenic.C15
