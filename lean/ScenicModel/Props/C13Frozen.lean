import ScenicModel.Props.C13Sched

/-!
# C13 (part 6): the multi-step frozen-body theorem

"A pre-empted block later resumes exactly where it stopped": `C13Sched` states it for one scheduling step.
Here it is stated over *histories*: for any number of resumptions (one per time step, any environments)
during which some handler condition of the statement holds, the saved continuation of the `try` body is
carried along **unchanged**, whatever the handlers do (act, finish and fire again, pre-empt each other, run
nested statements, invoke sub-behaviours) -- unless a handler ends the statement (abort / break / continue /
return), which is reported as the second alternative, still with the body frozen.  When afterwards no handler
is active the body is resumed from exactly that continuation.
-/
namespace Scenic.Interrupts

/-- the static part of a handler list: conditions and code (not the saved continuations) -/
def shape (hs : List (Blk K)) : List (Nat × List L) := hs.map fun b => (b.cond, b.code)

/-- some interrupt condition of the statement holds in `env` -/
def shapeEnabled (env : Env) (sh : List (Nat × List L)) : Bool := sh.any fun p => env.cond p.1

theorem shape_setSt : ∀ (hs : List (Blk K)) (i : Nat) (st : Option K), shape (setSt hs i st) = shape hs
  | [], _, _ => by simp [shape, setSt]
  | b :: bs, 0, st => by simp [shape, setSt]
  | b :: bs, i + 1, st => by
    have ih := shape_setSt bs i st
    simp only [shape, setSt, List.modify_succ_cons, List.map_cons] at ih ⊢
    rw [ih]

/-- with `isEnabled` consulted, a true condition means some handler is picked, in whatever state the handlers are -/
theorem pick_some_of_enabled (cfg : Cfg) (he : cfg.useEnabled = true) (env : Env) (hs : List (Blk K))
    (h : shapeEnabled env (shape hs) = true) : ∃ i, pick cfg env hs = some i := by
  cases hp : pick cfg env hs with
  | some i => exact ⟨i, rfl⟩
  | none =>
    exfalso
    have hall := (pickFrom_none_iff cfg env hs 0).1 hp
    simp only [shapeEnabled, shape, List.any_map, List.any_eq_true] at h
    obtain ⟨b, hb, hc⟩ := h
    have := hall b hb
    simp [blkActive, he] at this
    simp at hc
    rw [hc] at this
    exact absurd this.1 (by decide)

theorem pre_yielded (o : Out) (lg1 : List Ev) (a : Nat) (k : K) (lg : List Ev) (h : o.pre lg1 = .yielded a k lg) :
    ∃ lg2, o = .yielded a k lg2 ∧ lg = lg1 ++ lg2 := by
  cases o with
  | yielded a' k' l' => simp only [Out.pre, Out.yielded.injEq] at h; obtain ⟨rfl, rfl, rfl⟩ := h; exact ⟨l', rfl, rfl⟩
  | done f l' => simp [Out.pre] at h
  | viol v l' => simp [Out.pre] at h
  | diverge => simp [Out.pre] at h

/-- A handler (not the body: `pick = some i`) of the statement concluded with something other than "handler
    finished": the statement was ended by `abort`/`break`/`continue`/`return` in a handler.  The `try` body handed to
    that scheduling step is still `body`. -/
def HandlerEndsStatement (cfg : Cfg) (P : Prog) (env : Env) (self : Nat) (inSub : Bool) (kind : TryKind)
    (body : Blk K) (sh : List (Nat × List L)) : Prop :=
  ∃ (fuel : Nat) (hs1 : List (Blk K)) (i : Nat) (f : Flow) (lg : List Ev),
    shape hs1 = sh ∧ pick cfg env hs1 = some i ∧
    stepBlk cfg P env fuel self (inSubFor inSub kind body hs1 (some i)) (hs1.getD i body) = .done f lg ∧
    ¬ (f = .fin ∧ cfg.finishedContinues = true)

/-- **one time step, any number of scheduler iterations.**  If some interrupt condition holds and the step
    produces an action, then the `try` body was not stepped: the new state holds the *same* body block (same saved
    continuation) -- or a handler ended the statement. -/
theorem loopTI_body_frozen (cfg : Cfg) (he : cfg.useEnabled = true) (P : Prog) (env : Env) (self : Nat) (inSub : Bool)
    (kind : TryKind) (body : Blk K) (l : List L) (c : List Frame) :
    ∀ (fuel : Nat) (hs : List (Blk K)) (a : Nat) (k' : K) (lg : List Ev),
      shapeEnabled env (shape hs) = true →
      go cfg P env fuel self inSub (.loopTI kind body hs l c) = .yielded a k' lg →
      (∃ hs', k' = .atTry kind body hs' l c ∧ shape hs' = shape hs) ∨
        HandlerEndsStatement cfg P env self inSub kind body (shape hs)
  | 0, hs, a, k', lg, _, h => by simp [go] at h
  | fuel + 1, hs, a, k', lg, hen, h => by
    obtain ⟨i, hp⟩ := pick_some_of_enabled cfg he env hs hen
    rw [loopTI_eq, hp] at h
    simp only [] at h
    cases hs1 : stepBlk cfg P env fuel self (inSubFor inSub kind body hs (some i)) (hs.getD i body) with
    | yielded a1 k1 lg1 =>
      rw [hs1] at h
      simp only [Out.yielded.injEq] at h
      exact Or.inl ⟨setSt hs i (some k1), h.2.1.symm, shape_setSt hs i _⟩
    | done f lg1 =>
      rw [hs1] at h
      by_cases hc : f = .fin ∧ cfg.finishedContinues = true
      · simp only [hc.1, hc.2, Option.isSome_some, Bool.and_self, decide_true, if_true, Option.getD_some] at h
        obtain ⟨lg2, h2, _⟩ := pre_yielded _ _ _ _ _ h
        have hen' : shapeEnabled env (shape (setSt hs i none)) = true := by rw [shape_setSt]; exact hen
        rcases loopTI_body_frozen cfg he P env self inSub kind body l c fuel (setSt hs i none) a k' lg2 hen' h2 with
          ⟨hs', e1, e2⟩ | hx
        · exact Or.inl ⟨hs', e1, by rw [e2, shape_setSt]⟩
        · rw [shape_setSt] at hx; exact Or.inr hx
      · exact Or.inr ⟨fuel, hs, i, f, lg1, rfl, hp, hs1, hc⟩
    | viol v lg1 => rw [hs1] at h; simp at h
    | diverge => rw [hs1] at h; simp at h

/-- resuming the generator suspended at the `yield` of runTryInterrupt is: (the invariant re-check, then) the
    top of its `while True` loop -/
theorem resume_atTry_yielded (cfg : Cfg) (P : Prog) (env : Env) (fuel self : Nat) (inSub : Bool) (kind : TryKind)
    (body : Blk K) (hs : List (Blk K)) (l : List L) (c : List Frame) (a : Nat) (k' : K) (lg : List Ev)
    (h : go cfg P env (fuel + 1) self inSub (.resume (.atTry kind body hs l c)) = .yielded a k' lg) :
    ∃ lg', go cfg P env fuel self inSub (.loopTI kind body hs l c) = .yielded a k' lg' := by
  rw [go] at h
  split at h
  · split at h
    · simp at h
    · obtain ⟨lg2, h2, _⟩ := pre_yielded _ _ _ _ _ h
      exact ⟨lg2, h2⟩
  · exact ⟨lg, h⟩

/-- `n` consecutive time steps (one resumption per environment of the list) that each produce an action:
    the actions and the final suspended state -/
def resumeN (cfg : Cfg) (P : Prog) (fuel self : Nat) (inSub : Bool) : List Env → K → Option (List Nat × K)
  | [], k => some ([], k)
  | env :: envs, k =>
    match go cfg P env fuel self inSub (.resume k) with
    | .yielded a k' _ => (resumeN cfg P fuel self inSub envs k').map fun r => (a :: r.1, r.2)
    | _ => none

/-- **body_frozen_while_handlers_active (multi-step).**  For *any number* of time steps during which some interrupt
    condition of the statement holds -- any environments, any handler behaviour in between: handlers acting, finishing
    and firing again, pre-empting each other, running nested statements and sub-behaviours -- the state reached still
    holds the identical body block, i.e. the continuation saved when the body was pre-empted; or at one of those steps
    a handler ended the statement. -/
theorem body_frozen_while_handlers_active (cfg : Cfg) (he : cfg.useEnabled = true) (P : Prog) (fuel self : Nat)
    (inSub : Bool) (kind : TryKind) (body : Blk K) (l : List L) (c : List Frame) :
    ∀ (envs : List Env) (hs : List (Blk K)) (as : List Nat) (k' : K),
      (∀ env ∈ envs, shapeEnabled env (shape hs) = true) →
      resumeN cfg P fuel self inSub envs (.atTry kind body hs l c) = some (as, k') →
      (∃ hs', k' = .atTry kind body hs' l c ∧ shape hs' = shape hs ∧ as.length = envs.length) ∨
        ∃ env ∈ envs, HandlerEndsStatement cfg P env self inSub kind body (shape hs)
  | [], hs, as, k', _, h => by
    simp only [resumeN, Option.some.injEq, Prod.mk.injEq] at h
    exact Or.inl ⟨hs, h.2.symm, rfl, by rw [← h.1]; rfl⟩
  | env :: envs, hs, as, k', hen, h => by
    cases fuel with
    | zero => simp [resumeN, go] at h
    | succ fuel =>
      simp only [resumeN] at h
      cases hg : go cfg P env (fuel + 1) self inSub (.resume (.atTry kind body hs l c)) with
      | yielded a k1 lg =>
        rw [hg] at h
        simp only [Option.map_eq_some_iff] at h
        obtain ⟨⟨as1, k2⟩, hr, hpair⟩ := h
        simp only [Prod.mk.injEq] at hpair
        obtain ⟨lg', hl⟩ := resume_atTry_yielded cfg P env fuel self inSub kind body hs l c a k1 lg hg
        rcases loopTI_body_frozen cfg he P env self inSub kind body l c fuel hs a k1 lg'
            (hen env (List.mem_cons_self ..)) hl with ⟨hs1, e1, e2⟩ | hx
        · subst e1
          have hen' : ∀ e ∈ envs, shapeEnabled e (shape hs1) = true := by
            intro e he'; rw [e2]; exact hen e (List.mem_cons_of_mem _ he')
          rcases body_frozen_while_handlers_active cfg he P (fuel + 1) self inSub kind body l c envs hs1 as1 k2 hen' hr with
            ⟨hs', e3, e4, e5⟩ | ⟨e, hem, hx⟩
          · exact Or.inl ⟨hs', by rw [← hpair.2]; exact e3, by rw [e4, e2], by rw [← hpair.1]; simp [e5]⟩
          · exact Or.inr ⟨e, List.mem_cons_of_mem _ hem, by rw [← e2]; exact hx⟩
        · exact Or.inr ⟨env, List.mem_cons_self .., hx⟩
      | done f lg => rw [hg] at h; simp at h
      | viol v lg => rw [hg] at h; simp at h
      | diverge => rw [hg] at h; simp at h

/-- **preempted_body_resumes_exactly (multi-step resume_exact).**  A body pre-empted with saved continuation `kb`,
    then any number of time steps with some handler condition true (no handler ending the statement): the state
    still holds `kb`, and at the first step at which no handler is active the body is resumed *from `kb`* -- the
    statement it was suspended at -- and its new continuation is saved in turn. -/
theorem preempted_body_resumes_exactly (cfg : Cfg) (he : cfg.useEnabled = true) (P : Prog) (fuel self : Nat)
    (inSub : Bool) (kind : TryKind) (cnd : Nat) (code : List L) (kb : K) (l : List L) (c : List Frame)
    (envs : List Env) (hs : List (Blk K)) (as : List Nat) (k1 : K)
    (hen : ∀ env ∈ envs, shapeEnabled env (shape hs) = true)
    (hrun : resumeN cfg P fuel self inSub envs (.atTry kind ⟨cnd, code, some kb⟩ hs l c) = some (as, k1))
    (hnc : ¬ ∃ env ∈ envs, HandlerEndsStatement cfg P env self inSub kind ⟨cnd, code, some kb⟩ (shape hs)) :
    ∃ hs', k1 = .atTry kind ⟨cnd, code, some kb⟩ hs' l c ∧ shape hs' = shape hs ∧
      ∀ (env' : Env) (fuel' a : Nat) (k' : K) (lg : List Ev), pick cfg env' hs' = none →
        go cfg P env' fuel' self (inSubFor inSub kind ⟨cnd, code, some kb⟩ hs' none) (.resume kb) = .yielded a k' lg →
        go cfg P env' (fuel' + 1) self inSub (.loopTI kind ⟨cnd, code, some kb⟩ hs' l c)
          = .yielded a (.atTry kind ⟨cnd, code, some k'⟩ hs' l c) lg := by
  rcases body_frozen_while_handlers_active cfg he P fuel self inSub kind ⟨cnd, code, some kb⟩ l c envs hs as k1 hen hrun with
    ⟨hs', e1, e2, _⟩ | hx
  · exact ⟨hs', e1, e2, fun env' fuel' a k' lg hp hy =>
      body_step_resumes_saved cfg P env' fuel' self inSub kind cnd code kb hs' l c a k' lg hp hy⟩
  · exact absurd hx hnc

end Scenic.Interrupts
