import ScenicModel.Lemmas.DepOrder
import ScenicModel.Props.C15Core
import ScenicModel.Gen.Determinism

/-!
# C15, second half — the dependency tuple is canonical

`Props/C15.lean` reduces "same seed ⇒ same result" to "the order of `Scenario.dependencies` is the
same in every process".  This file proves that for the model of how the tuple is built at compile
time (`Model/DepOrder.lean`: closures of each requirement → closure cells → per-requirement
dependencies → accumulated requirement dependencies → the concatenation in `Scenario.__init__`),
instantiated with the container kinds, the order of the segments and the order of the sources that
the translator extracts from /repo on every run:

* `dependencies_canonical` — the tuple built in a process where every object lives at another
  address is the renamed tuple: positions do not depend on addresses;
* `compile_and_generate_layout_independent` — compile + generate as a whole: same scenes, iteration
  counts and generator states in both processes;
* `requirement_deps_exact` — the requirement segment lists exactly the dependencies of the compiled
  requirements, each once (so no value is drawn twice and none is missing);
* `closure_set_layout_dependent_witness` — with the closures of a requirement collected in an
  address-hashed set (the code before 8a78e976) the tuple *does* depend on the layout, and the
  scenes differ: the side condition `gen_sites_all_ordered` is needed;
* `sorted_checker_timing_irrelevant` — `checker_timing_irrelevant` instantiated with the actual
  arrangement of `WeightedAcceptanceChecker.sortedRequirements` (stable sort by a cost computed from
  measured run times): whatever the clock said, same scenes.
-/
namespace Scenic.C15
open Scenic.Det Scenic.Gen

/-! ## side conditions on the data regenerated from /repo -/

/-- every container on the way into `Scenario.dependencies` iterates in insertion order -/
theorem gen_sites_all_ordered : detKinds.allOrdered = true := by decide

/-- no site is a root cause of address-dependent order, and then every site is ordered overall
    (the tracker's propagation is consistent) -/
theorem gen_no_unordered_roots :
    detUnorderedRoots = [] ∧ (detOrderSites.all fun p => p.2) = true := by decide

/-- the translator judged the same sites on their own and with their inputs -/
theorem gen_site_lists_agree : detOrderSites.map (·.1) = detSiteKinds.map (·.1) := by decide

/-- `Scenario.dependencies` concatenates each of the four segments exactly once, and
    `PendingRequirement.compile` adds from each of its four sources exactly once -/
theorem gen_segments_complete :
    detDependencySegs.length = 4 ∧ detDependencySegs.Nodup ∧
    detCompileSources.length = 4 ∧ detCompileSources.Nodup ∧
    detDependencyTerms.length = detDependencySegs.length := by decide

/-- the dependency tuple of the current source -/
def depTuple (I : CompileInput) : List Id :=
  dependencies detKinds detCompileSources detDependencySegs I

/-! ## the tuple is canonical -/

/-- **dependencies_canonical.**  For every compilation input (any number of instances, parameters,
    requirements reading any bindings and closures, behaviors) and every placement of its objects
    in memory (injective `ρ`), the dependency tuple of the relocated compilation is the relocated
    tuple: which value is sampled first, second, … does not depend on addresses. -/
theorem dependencies_canonical (ρ : Id → Id) (hρ : Inj ρ) (I : CompileInput) :
    depTuple (renInput ρ I) = (depTuple I).map ρ :=
  dependencies_ren detKinds gen_sites_all_ordered detCompileSources detDependencySegs ρ hρ I

/-- a compiled program: the object graph, what scenes show, and what the requirements read -/
structure Compiled where
  tbl : Table
  fuel : Nat
  probs : List Nat
  view : List Id
  input : CompileInput

def Compiled.program (C : Compiled) : Program :=
  { tbl := C.tbl, fuel := C.fuel, order := depTuple C.input, probs := C.probs, view := C.view }

/-- the same compilation in a process with another memory layout -/
def Compiled.relocate (ρ : Id → Id) (C : Compiled) : Compiled :=
  { tbl := renTable ρ C.tbl, fuel := C.fuel, probs := C.probs, view := C.view.map ρ,
    input := renInput ρ C.input }

section
variable {σ : Type} (nx : σ → Nat × σ) (sem : Nat → Nat → List Val → Option Val)

/-- **compile_and_generate_layout_independent.**  Compile (build the dependency tuple) and generate
    any number of scenes in two processes whose objects live at different addresses: same scenes,
    same iteration counts, same success flag, same final states of both generators. -/
theorem compile_and_generate_layout_independent {κ : Type} (ρ : Id → Id) (hρ : Inj ρ)
    (C : Compiled) (c c' : Checker σ κ) (hc : CheckerRen ρ c c') (n budget : Nat) (k : κ)
    (rs : RS σ) :
    (generateMany nx sem (C.relocate ρ).program detBracket detActivationLe c' n budget k rs).scenes
      = (generateMany nx sem C.program detBracket detActivationLe c n budget k rs).scenes ∧
    (generateMany nx sem (C.relocate ρ).program detBracket detActivationLe c' n budget k rs).ok
      = (generateMany nx sem C.program detBracket detActivationLe c n budget k rs).ok ∧
    (generateMany nx sem (C.relocate ρ).program detBracket detActivationLe c' n budget k rs).rs
      = (generateMany nx sem C.program detBracket detActivationLe c n budget k rs).rs := by
  have h : (C.relocate ρ).program = renProgram ρ C.program := by
    simp only [Compiled.program, Compiled.relocate, renProgram, dependencies_canonical ρ hρ]
  rw [h]
  exact generateMany_ren nx sem ρ hρ C.program detBracket detActivationLe c c' hc n budget k rs

end

/-- **requirement_deps_exact.**  The requirement segment of the tuple lists an identity iff some
    compiled requirement depends on it, and lists it once. -/
theorem requirement_deps_exact (I : CompileInput) :
    (requirementDeps detKinds detCompileSources I).Nodup ∧
    ∀ y, y ∈ requirementDeps detKinds detCompileSources I ↔
      ∃ r ∈ I.reqs, y ∈ reqDeps detKinds detCompileSources I r :=
  ⟨nodup_requirementDeps detKinds gen_sites_all_ordered detCompileSources I,
   mem_requirementDeps detKinds gen_sites_all_ordered detCompileSources I⟩

/-! ## non-vacuity and the witness that the side condition is needed -/

/-- ego (10) and one requirement `f1() < f2() and f2() > 0` (two atomic propositions) reading two functions (at addresses 1 and 2) whose
    closure cells hold the random values 21 and 22; a parameter (30) and a behavior global (40) -/
def wInput : CompileInput :=
  { instances := [10], params := [30, 31], objects := [10],
    reqs := [{ atoms := [[(1, [21]), (2, [22]), (1, [21])], [(2, [22])]], bindings := [1, 2, 50],
               canSee := false, ego := some 10 }],
    behaviorVals := [40, 41], needs := [10, 21, 22], samplable := [10, 30, 40, 50] }

/-- another layout: the two functions swap their slots in a hash table of size 8 -/
def wReloc : Id → Id := fun i => if i = 1 then 13 else if i = 2 then 3 else i + 100

theorem wReloc_inj : Inj wReloc := by
  have key : ∀ a b : Nat,
      (if a = 1 then 13 else if a = 2 then 3 else a + 100 : Nat)
        = (if b = 1 then 13 else if b = 2 then 3 else b + 100) → a = b := by
    intro a b h
    split at h <;> split at h <;> (try split at h) <;> (try split at h) <;> omega
  intro a b h
  exact key a b h

/-- the tuple of the current source on this input (non-trivial: filtering, de-duplication of the
    function met twice, all four segments non-empty; the ego is an instance and a requirement
    dependency, so it is listed twice — `sampleAll` samples it once) -/
example : depTuple wInput = [10, 30, 21, 22, 10, 40] := by decide

example : depTuple (renInput wReloc wInput) = [110, 130, 121, 122, 110, 140] := by decide

example : Inj wReloc := wReloc_inj

/-- the kinds of the source before 8a78e976: closures collected in a `set()` -/
def kindsClosureSet : Kinds := { detKinds with closures := false }

/-- the object graph of `wInput`: every random value draws from Python's generator -/
def wTbl2 : Table :=
  [(10, ⟨.py, 0, []⟩), (21, ⟨.py, 0, []⟩), (22, ⟨.py, 0, []⟩), (30, ⟨.py, 0, []⟩), (40, ⟨.py, 0, []⟩)]

def wProg2 (order : List Id) : Program :=
  { tbl := wTbl2, fuel := 6, order := order, probs := [], view := [10, 30] }

/-- rejects unless `v21 < v22` -/
def wChk2 : Checker (List Nat) Unit :=
  fun _ _ m rs => (decide (get m 21 ≥ get m 22), (), rs)

/-- **closure_set_layout_dependent_witness.**  With the closures in an address-hashed set the tuple
    built in the relocated process is *not* the relocated tuple (the cell values 21 and 22 swap), and
    generating from the two tuples gives different scenes from the same seed. -/
theorem closure_set_layout_dependent_witness :
    dependencies kindsClosureSet detCompileSources detDependencySegs wInput = [10, 30, 21, 22, 10, 40] ∧
    dependencies kindsClosureSet detCompileSources detDependencySegs (renInput wReloc wInput)
      = [10, 30, 22, 21, 10, 40].map wReloc ∧
    (generateMany listNext wSem (wProg2 [10, 30, 21, 22, 10, 40]) detBracket detActivationLe wChk2 1 10 ()
        { py := [5, 1, 9, 7, 3, 2, 8, 6, 4, 11, 12, 13], np := [] }).scenes
      ≠ (generateMany listNext wSem (wProg2 [10, 30, 22, 21, 10, 40]) detBracket detActivationLe wChk2 1 10 ()
        { py := [5, 1, 9, 7, 3, 2, 8, 6, 4, 11, 12, 13], np := [] }).scenes := by
  refine ⟨by decide, by decide, by decide +kernel⟩

/-! ## the cost-sorted arrangement of the weighted checker -/

section
variable {σ : Type} (nx : σ → Nat × σ) (sem : Nat → Nat → List Val → Option Val)

/-- **sorted_checker_timing_irrelevant.**  `WeightedAcceptanceChecker` sorts the active requirements
    by a cost computed from measured run times.  Two runs whose clocks gave any two cost functions
    (`cost₁`, `cost₂`), with any bookkeeping of the buffers, generate the same scenes with the same
    iteration counts and leave the generators in the same states. -/
theorem sorted_checker_timing_irrelevant {κ₁ κ₂ : Type} (P : Program)
    (reqsOf : List Bool → List (Req σ)) (rs₀ : RS σ) (hok : ReqsOK reqsOf rs₀)
    (cost₁ : κ₁ → Req σ → Nat) (cost₂ : κ₂ → Req σ → Nat)
    (upd₁ : κ₁ → Memo → Bool → κ₁) (upd₂ : κ₂ → Memo → Bool → κ₂)
    (n budget : Nat) (k₁ : κ₁) (k₂ : κ₂) (rs : RS σ) :
    (generateMany nx sem P detBracket detActivationLe
        (weightedChecker reqsOf (sortByCost cost₁) upd₁) n budget k₁ rs).scenes
      = (generateMany nx sem P detBracket detActivationLe
        (weightedChecker reqsOf (sortByCost cost₂) upd₂) n budget k₂ rs).scenes ∧
    (generateMany nx sem P detBracket detActivationLe
        (weightedChecker reqsOf (sortByCost cost₁) upd₁) n budget k₁ rs).rs
      = (generateMany nx sem P detBracket detActivationLe
        (weightedChecker reqsOf (sortByCost cost₂) upd₂) n budget k₂ rs).rs := by
  have hb : detBracket.full = true := by decide
  obtain ⟨a, _, c⟩ := generateMany_indep_of_checker nx sem P detBracket hb detActivationLe _ _
    (weighted_sameVerdicts reqsOf rs₀ hok (sortByCost cost₁) (sortByCost cost₂)
      (fun k l r => mem_sortByCost cost₁ k l r) (fun k l r => mem_sortByCost cost₂ k l r) upd₁ upd₂)
    n budget k₁ k₂ rs
  exact ⟨a, c⟩

end

/-- the sort really rearranges: two requirements swap when their measured costs swap -/
example :
    (sortByCost (σ := List Nat) (fun (k : Nat) r => if r.optional then k else 1 - k) 0
        [⟨false, fun _ rs => (false, rs)⟩, ⟨true, fun _ rs => (false, rs)⟩]).map (·.optional) = [true, false] ∧
    (sortByCost (σ := List Nat) (fun (k : Nat) r => if r.optional then k else 1 - k) 1
        [⟨false, fun _ rs => (false, rs)⟩, ⟨true, fun _ rs => (false, rs)⟩]).map (·.optional) = [false, true] := by
  decide

end Scenic.C15
