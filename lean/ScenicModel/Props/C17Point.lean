import ScenicModel.Props.C17Slab

/-!
C17 (part 2): the point predicate — visible exactly inside the view volume, occlusion is sound and complete,
more occluders never reveal, a common rigid motion changes nothing.
-/
namespace Scenic.Vis

/-! ### unfolding the model for the reference configuration -/

theorem relVec_ref (vw : Viewer) (t : V3) : relVec Cfg.reference vw t = vw.R.applyT (t.sub vw.cam) := rfl

theorem rayDir_ref (vw : Viewer) (hR : vw.R.IsOrtho) (t : V3) :
    rayDir Cfg.reference vw (relVec Cfg.reference vw t) = t.sub vw.cam := by
  show vw.R.apply (vw.R.applyT (t.sub vw.cam)) = _
  exact Mat3.apply_applyT hR _

theorem distOK_ref (D dSq : Rat) : DistOK Cfg.reference D dSq ↔ 0 ≤ D ∧ dSq ≤ D * D := by
  unfold DistOK; simp [Cfg.reference]

/-- the occlusion test of the reference configuration, in words -/
theorem blocks_ref (b : Box) (p dir : V3) (tdSq : Rat) :
    b.Blocks Cfg.reference p dir tdSq = true ↔
      ∃ s, s ∈ b.hitParams p dir ∧ 0 ≤ s ∧ s * s * dir.normSq ≤ tdSq := by
  unfold Box.Blocks
  simp [Cfg.reference, List.any_eq_true]

theorem kept_ref (vw : Viewer) (b : Box) : b.Kept Cfg.reference vw = true ↔ b.distSq vw.cam ≤ vw.D * vw.D := by
  unfold Box.Kept; simp [Cfg.reference]

/-- the model of `canSee` for a point target, as a proposition -/
theorem pointVisible_iff (cfg : Cfg) (vw : Viewer) (t : V3) (occ : List Box) :
    pointVisible cfg vw t occ = true ↔
      DistOK cfg vw.D (t.sub vw.cam).normSq ∧ InWindows cfg vw (relVec cfg vw t) ∧
      ∀ b ∈ occ, b.Kept cfg vw = true →
        b.Blocks cfg vw.cam (rayDir cfg vw (relVec cfg vw t)) (t.sub vw.cam).normSq = false := by
  unfold pointVisible
  simp only [Bool.and_eq_true, decide_eq_true_eq, Bool.not_eq_true', List.any_eq_false, List.mem_filter,
    and_imp, Bool.not_eq_true, and_assoc]

/-! ### T1: with nothing occluding, visible exactly inside the view volume -/

/-- **point_visible_iff_in_view_volume.**  With no occluders, the model of `canSee` reports a point visible exactly
    when its viewer-frame vector `Rᵀ(t - cam)` is within the visible distance and inside both angular windows. -/
theorem point_visible_iff_in_view_volume (vw : Viewer) (hR : vw.R.IsOrtho) (t : V3) :
    pointVisible Cfg.reference vw t [] = true ↔ InViewVolume vw t := by
  rw [pointVisible_iff]
  unfold InViewVolume
  simp only [List.not_mem_nil, false_imp_iff, implies_true, and_true, relVec_ref, distOK_ref,
    Mat3.normSq_applyT hR]

/-- **outside_never_visible** (points): a point outside the view volume is never reported visible, whatever the
    occluders. -/
theorem outside_never_visible (vw : Viewer) (hR : vw.R.IsOrtho) (t : V3) (occ : List Box)
    (hout : ¬ InViewVolume vw t) : pointVisible Cfg.reference vw t occ = false := by
  by_contra h
  rw [Bool.not_eq_false, pointVisible_iff] at h
  apply hout
  rw [← point_visible_iff_in_view_volume vw hR, pointVisible_iff]
  exact ⟨h.1, h.2.1, by simp⟩

/-! ### T2: more occluders never reveal -/

/-- **occluders_monotone** (any configuration): if a point is visible with the occluders `occ'`, it is visible with
    any subset `occ` of them. -/
theorem occluders_monotone (cfg : Cfg) (vw : Viewer) (t : V3) (occ occ' : List Box)
    (hsub : ∀ b ∈ occ, b ∈ occ') (h : pointVisible cfg vw t occ' = true) :
    pointVisible cfg vw t occ = true := by
  rw [pointVisible_iff] at h ⊢
  exact ⟨h.1, h.2.1, fun b hb hk => h.2.2 b (hsub b hb) hk⟩

/-- adding an occluder can only turn visible into not visible -/
theorem add_occluder_antitone (cfg : Cfg) (vw : Viewer) (t : V3) (b : Box) (occ : List Box)
    (h : pointVisible cfg vw t (b :: occ) = true) : pointVisible cfg vw t occ = true :=
  occluders_monotone cfg vw t occ (b :: occ) (fun _ hx => List.mem_cons_of_mem _ hx) h

/-! ### T3: occlusion is sound and complete for boxes -/

/-- the segment from `p` to `t` passes through the (solid, closed) box -/
def SegMeets (b : Box) (p t : V3) : Prop :=
  ∃ s, 0 ≤ s ∧ s ≤ 1 ∧ b.Contains (p.add ((t.sub p).smul s))

/-- the initial filter never removes an occluder that matters: a box whose distance from the camera exceeds the
    visible distance cannot block a ray before a target hit that lies within the visible distance -/
theorem filter_irrelevant (vw : Viewer) (b : Box) (hM : b.M.IsOrtho) (d : V3) (tdSq : Rat)
    (hd : 0 ≤ vw.D ∧ tdSq ≤ vw.D * vw.D) (hk : b.Kept Cfg.reference vw = false) :
    b.Blocks Cfg.reference vw.cam d tdSq = false := by
  by_contra hb
  rw [Bool.not_eq_false, blocks_ref] at hb
  obtain ⟨s, hs, hs0, hsd⟩ := hb
  have hx := b.hitParams_sound _ _ _ hs
  have hle := b.distSq_le hM vw.cam _ hx
  have hk' : ¬ b.distSq vw.cam ≤ vw.D * vw.D := by
    intro hc; rw [← kept_ref] at hc; rw [hc] at hk; exact Bool.noConfusion hk
  apply hk'
  have e : ((vw.cam.add (d.smul s)).sub vw.cam).normSq = s * s * d.normSq := by
    simp only [V3.normSq_def, V3.sub_x, V3.sub_y, V3.sub_z, V3.add_x, V3.add_y, V3.add_z, V3.smul_x, V3.smul_y,
      V3.smul_z]
    ring
  rw [e] at hle
  linarith [hd.2]

/-- if the ray from `p` (outside the box) is inside the box at some parameter `s0 ∈ [0, smax]`, the model reports it
    blocked before the parameter `smax` -/
theorem blocks_of_meets (b : Box) (p dir : V3) (smax s0 : Rat) (h0 : 0 ≤ s0) (hle : s0 ≤ smax)
    (hin : b.Contains (p.add (dir.smul s0))) (hout : ¬ b.Contains p) :
    b.Blocks Cfg.reference p dir (smax * smax * dir.normSq) = true := by
  obtain ⟨s, hs, hpos, hle'⟩ := b.hitParams_complete p dir s0 h0 hin hout
  rw [blocks_ref]
  refine ⟨s, hs, le_of_lt hpos, ?_⟩
  have hn := V3.normSq_nonneg dir
  have : s * s ≤ smax * smax := by nlinarith
  nlinarith

/-- **occlusion_sound**: the model reports a point hidden by a box only if the line of sight really passes through
    the box. -/
theorem occlusion_sound (b : Box) (p t : V3) (hne : t ≠ p)
    (hb : b.Blocks Cfg.reference p (t.sub p) (t.sub p).normSq = true) : SegMeets b p t := by
  rw [blocks_ref] at hb
  obtain ⟨s, hs, hs0, hsd⟩ := hb
  refine ⟨s, hs0, ?_, b.hitParams_sound _ _ _ hs⟩
  have hpos : 0 < (t.sub p).normSq := by
    rcases lt_or_eq_of_le (V3.normSq_nonneg (t.sub p)) with h | h
    · exact h
    · exact absurd (V3.sub_eq_zero.mp (V3.normSq_eq_zero h.symm)) hne
  by_contra hgt
  have : 1 < s := not_le.mp hgt
  nlinarith [mul_pos hpos (by linarith : (0 : Rat) < s - 1), mul_pos (mul_pos hpos (by linarith : (0 : Rat) < s)) (by linarith : (0 : Rat) < s - 1)]

/-- **occlusion_complete**: if the line of sight passes through a box that does not contain the camera, the model
    reports the point blocked by that box. -/
theorem occlusion_complete (b : Box) (p t : V3) (hout : ¬ b.Contains p) (hm : SegMeets b p t) :
    b.Blocks Cfg.reference p (t.sub p) (t.sub p).normSq = true := by
  obtain ⟨s0, h0, h1, hin⟩ := hm
  have := blocks_of_meets b p (t.sub p) 1 s0 h0 h1 hin hout
  simpa using this

/-- **blocked_never_visible** (points): a point whose line of sight passes through one of the occluders (not
    containing the camera) is never reported visible. -/
theorem blocked_never_visible (vw : Viewer) (hR : vw.R.IsOrtho) (t : V3) (occ : List Box) (b : Box)
    (hb : b ∈ occ) (hM : b.M.IsOrtho) (hout : ¬ b.Contains vw.cam) (hm : SegMeets b vw.cam t) :
    pointVisible Cfg.reference vw t occ = false := by
  by_contra h
  rw [Bool.not_eq_false, pointVisible_iff] at h
  obtain ⟨hd, _, hocc⟩ := h
  rw [distOK_ref] at hd
  have hblk := occlusion_complete b vw.cam t hout hm
  rw [rayDir_ref vw hR] at hocc
  by_cases hk : b.Kept Cfg.reference vw = true
  · have := hocc b hb hk
    rw [hblk] at this
    exact Bool.noConfusion this
  · have := filter_irrelevant vw b hM (t.sub vw.cam) _ hd (by simpa using hk)
    rw [hblk] at this
    exact Bool.noConfusion this

/-- **point_visible_iff_clear**: the complete characterisation for box occluders — visible exactly when inside the
    view volume and no occluder's surface is crossed by the line of sight (the filter on entry is immaterial). -/
theorem point_visible_iff_clear (vw : Viewer) (hR : vw.R.IsOrtho) (t : V3) (occ : List Box)
    (hM : ∀ b ∈ occ, b.M.IsOrtho) :
    pointVisible Cfg.reference vw t occ = true ↔
      InViewVolume vw t ∧
        ∀ b ∈ occ, b.Blocks Cfg.reference vw.cam (t.sub vw.cam) (t.sub vw.cam).normSq = false := by
  rw [← point_visible_iff_in_view_volume vw hR, pointVisible_iff, pointVisible_iff, rayDir_ref vw hR]
  constructor
  · rintro ⟨hd, hw, hocc⟩
    refine ⟨⟨hd, hw, by simp⟩, fun b hb => ?_⟩
    by_cases hk : b.Kept Cfg.reference vw = true
    · exact hocc b hb hk
    · exact filter_irrelevant vw b (hM b hb) _ _ ((distOK_ref _ _).mp hd) (by simpa using hk)
  · rintro ⟨⟨hd, hw, _⟩, hocc⟩
    exact ⟨hd, hw, fun b hb _ => hocc b hb⟩

/-! ### T4: rigid invariance -/

/-- move a point by the rigid motion `x ↦ Q x + c` -/
def movePt (Q : Mat3) (c : V3) (p : V3) : V3 := (Q.apply p).add c
/-- move a viewer (camera position and orientation) -/
def Viewer.move (Q : Mat3) (c : V3) (vw : Viewer) : Viewer :=
  ⟨movePt Q c vw.cam, Q.mul vw.R, vw.D, vw.a0, vw.a1⟩
/-- move a box -/
def Box.move (Q : Mat3) (c : V3) (b : Box) : Box := ⟨movePt Q c b.c, Q.mul b.M, b.h⟩

theorem movePt_sub (Q : Mat3) (c a b : V3) : (movePt Q c a).sub (movePt Q c b) = Q.apply (a.sub b) := by
  unfold movePt
  apply V3.ext' <;>
    simp only [Mat3.apply_x, Mat3.apply_y, Mat3.apply_z, V3.add_x, V3.add_y, V3.add_z, V3.sub_x, V3.sub_y,
      V3.sub_z] <;> ring

theorem Box.loc_move (Q : Mat3) (hQ : Q.IsOrtho) (c : V3) (b : Box) (p : V3) :
    (b.move Q c).loc (movePt Q c p) = b.loc p := by
  unfold Box.loc Box.move
  simp only
  rw [movePt_sub, Mat3.mul_applyT, Mat3.applyT_apply hQ]

theorem Box.dir_move (Q : Mat3) (hQ : Q.IsOrtho) (c : V3) (b : Box) (d : V3) :
    (b.move Q c).M.applyT (Q.apply d) = b.M.applyT d := by
  unfold Box.move
  simp only
  rw [Mat3.mul_applyT, Mat3.applyT_apply hQ]

theorem Box.hitParams_move (Q : Mat3) (hQ : Q.IsOrtho) (c : V3) (b : Box) (p d : V3) :
    (b.move Q c).hitParams (movePt Q c p) (Q.apply d) = b.hitParams p d := by
  unfold Box.hitParams
  rw [Box.loc_move Q hQ, Box.dir_move Q hQ]
  rfl

theorem Box.blocks_move (cfg : Cfg) (Q : Mat3) (hQ : Q.IsOrtho) (c : V3) (b : Box) (p d : V3) (k : Rat) :
    (b.move Q c).Blocks cfg (movePt Q c p) (Q.apply d) k = b.Blocks cfg p d k := by
  unfold Box.Blocks
  rw [Box.hitParams_move Q hQ, Mat3.normSq_apply hQ]

theorem Box.kept_move (cfg : Cfg) (Q : Mat3) (hQ : Q.IsOrtho) (c : V3) (vw : Viewer) (b : Box) :
    (b.move Q c).Kept cfg (vw.move Q c) = b.Kept cfg vw := by
  unfold Box.Kept Box.distSq
  have : (vw.move Q c).cam = movePt Q c vw.cam := rfl
  rw [this, Box.loc_move Q hQ]
  rfl

/-- **rigid_invariance**: moving the viewer, the target and all occluders by a common rigid motion
    (`x ↦ Q x + c`, `Q` orthogonal) does not change the answer. -/
theorem rigid_invariance (Q : Mat3) (hQ : Q.IsOrtho) (c : V3) (vw : Viewer) (t : V3) (occ : List Box) :
    pointVisible Cfg.reference (vw.move Q c) (movePt Q c t) (occ.map (Box.move Q c)) =
      pointVisible Cfg.reference vw t occ := by
  have hd : (movePt Q c t).sub (vw.move Q c).cam = Q.apply (t.sub vw.cam) := movePt_sub Q c t vw.cam
  have hrel : relVec Cfg.reference (vw.move Q c) (movePt Q c t) = relVec Cfg.reference vw t := by
    rw [relVec_ref, relVec_ref, hd]
    show (Q.mul vw.R).applyT _ = _
    rw [Mat3.mul_applyT, Mat3.applyT_apply hQ]
  have hray : ∀ v, rayDir Cfg.reference (vw.move Q c) v = Q.apply (rayDir Cfg.reference vw v) := by
    intro v
    show (Q.mul vw.R).apply v = Q.apply (vw.R.apply v)
    exact Mat3.mul_apply Q vw.R v
  unfold pointVisible
  simp only [hrel, hd, Mat3.normSq_apply hQ, hray]
  have hwin : ∀ v, InWindows Cfg.reference (vw.move Q c) v ↔ InWindows Cfg.reference vw v := fun v => Iff.rfl
  have hD : (vw.move Q c).D = vw.D := rfl
  rw [hD, decide_eq_decide.mpr (hwin _)]
  congr 2
  rw [List.filter_map, List.any_map]
  have hfil : (Box.Kept Cfg.reference (vw.move Q c) ∘ Box.move Q c) = Box.Kept Cfg.reference vw := by
    funext b; exact Box.kept_move _ Q hQ c vw b
  rw [hfil]
  congr 1
  funext b
  exact Box.blocks_move _ Q hQ c b vw.cam _ _

/-- the camera position that `Object.canSee` computes moves with the object -/
theorem mkViewer_object_move (Q : Mat3) (c pos off : V3) (R : Mat3) (D : Rat) (a0 a1 : Half) :
    mkViewer WrapCfg.reference .object (movePt Q c pos) (Q.mul R) off D a0 a1 =
      (mkViewer WrapCfg.reference .object pos R off D a0 a1).move Q c := by
  unfold mkViewer Viewer.move
  simp only [WrapCfg.reference, if_true]
  congr 1
  unfold movePt
  rw [Mat3.mul_apply, Mat3.apply_add]
  apply V3.ext' <;> simp only [V3.add_x, V3.add_y, V3.add_z] <;> ring

/-- **rigid_invariance_object_viewer**: the same for an `Object` viewer with a camera offset -/
theorem rigid_invariance_object_viewer (Q : Mat3) (hQ : Q.IsOrtho) (c pos off : V3) (R : Mat3) (D : Rat)
    (a0 a1 : Half) (t : V3) (occ : List Box) :
    pointVisible Cfg.reference (mkViewer WrapCfg.reference .object (movePt Q c pos) (Q.mul R) off D a0 a1)
        (movePt Q c t) (occ.map (Box.move Q c)) =
      pointVisible Cfg.reference (mkViewer WrapCfg.reference .object pos R off D a0 a1) t occ := by
  rw [mkViewer_object_move]
  exact rigid_invariance Q hQ c _ t occ

end Scenic.Vis
