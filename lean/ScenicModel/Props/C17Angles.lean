import ScenicModel.Props.C17Shadow
import Mathlib.Analysis.SpecialFunctions.Complex.Arg
import Mathlib.Analysis.SpecialFunctions.Trigonometric.Inverse

/-!
C17 (part 5): the polynomial comparisons of the model are the angular comparisons of the code.

`visibility.canSee` computes, for the viewer-frame vector `v = (x, y, z)`,
`azimuth = wrap(atan2(y, x) - π/2)` — the argument of the complex number `y - x·i`, i.e. the angle of the horizontal
projection measured counter-clockwise from the viewer's forward (+y) axis — and `altitude = asin(z / |v|)`, and
tests `|azimuth| ≤ viewAngles[0]/2`, `|altitude| ≤ viewAngles[1]/2`, `|v| ≤ visibleDistance`.
The theorems below show that `InViewVolume` (rational, square-root free) states exactly these three comparisons
over the reals when the half-angles are `α ∈ [0, π]`, `β ∈ [0, π/2]` with `cos α`, `sin β` rational.
-/
namespace Scenic.Vis
open Real

/-- `GeMulSqrt f c n` says `f ≥ c·√n` -/
theorem geMulSqrt_iff_real (f c n : ℚ) (hn : 0 ≤ n) :
    GeMulSqrt f c n ↔ (c : ℝ) * Real.sqrt (n : ℝ) ≤ (f : ℝ) := by
  unfold GeMulSqrt
  have hn' : (0 : ℝ) ≤ (n : ℝ) := by exact_mod_cast hn
  have hs := Real.sqrt_nonneg (n : ℝ)
  have hsq : Real.sqrt n * Real.sqrt n = n := Real.mul_self_sqrt hn'
  by_cases hc : 0 ≤ c
  · rw [if_pos hc]
    have hc' : (0 : ℝ) ≤ c := by exact_mod_cast hc
    have hcs : 0 ≤ (c : ℝ) * Real.sqrt n := mul_nonneg hc' hs
    constructor
    · rintro ⟨hf, h⟩
      have hf' : (0 : ℝ) ≤ f := by exact_mod_cast hf
      have h' : (c : ℝ) * c * n ≤ f * f := by exact_mod_cast h
      have : (c * Real.sqrt n) * (c * Real.sqrt n) ≤ (f : ℝ) * f := by nlinarith
      exact (mul_self_le_mul_self_iff hcs hf').mpr this
    · intro h
      have hf' : (0 : ℝ) ≤ f := le_trans hcs h
      have := (mul_self_le_mul_self_iff hcs hf').mp h
      refine ⟨by exact_mod_cast hf', ?_⟩
      have h' : (c : ℝ) * c * n ≤ f * f := by nlinarith
      exact_mod_cast h'
  · rw [if_neg hc]
    have hc' : (c : ℝ) < 0 := by exact_mod_cast not_le.mp hc
    have hcs : (c : ℝ) * Real.sqrt n ≤ 0 := mul_nonpos_of_nonpos_of_nonneg (le_of_lt hc') hs
    constructor
    · rintro (hf | h)
      · have hf' : (0 : ℝ) ≤ f := by exact_mod_cast hf
        linarith
      · have h' : (f : ℝ) * f ≤ c * c * n := by exact_mod_cast h
        by_cases hf : (0 : ℝ) ≤ f
        · linarith
        · have hf' : (0 : ℝ) ≤ -f := by linarith
          have hcs' : (0 : ℝ) ≤ -(c * Real.sqrt n) := by linarith
          have : (-(f : ℝ)) * (-f) ≤ (-(c * Real.sqrt n)) * (-(c * Real.sqrt n)) := by nlinarith
          have := (mul_self_le_mul_self_iff hf' hcs').mpr this
          linarith
    · intro h
      by_cases hf : (0 : ℝ) ≤ f
      · left; exact_mod_cast hf
      · right
        have hf' : (0 : ℝ) ≤ -f := by linarith
        have hcs' : (0 : ℝ) ≤ -(c * Real.sqrt n) := by linarith
        have := (mul_self_le_mul_self_iff hf' hcs').mp (by linarith)
        have h' : (f : ℝ) * f ≤ c * c * n := by nlinarith
        exact_mod_cast h'

/-- the azimuth window: `cos α · √(x² + y²) ≤ y` exactly when the angle of `(x, y)` from the forward axis `+y`
    (the argument of `y - x·i`) is at most `α` in absolute value -/
theorem azimuth_window_iff (x y α : ℝ) (hxy : ¬(x = 0 ∧ y = 0)) (hα : 0 ≤ α) (hα' : α ≤ π) :
    Real.cos α * Real.sqrt (y * y + x * x) ≤ y ↔ |Complex.arg ⟨y, -x⟩| ≤ α := by
  set z : ℂ := ⟨y, -x⟩ with hzdef
  have hz : z ≠ 0 := by
    intro h
    apply hxy
    have h1 := congrArg Complex.re h
    have h2 := congrArg Complex.im h
    simp only [hzdef, Complex.zero_re, Complex.zero_im] at h1 h2
    exact ⟨by linarith, h1⟩
  have hnorm : ‖z‖ = Real.sqrt (y * y + x * x) := by
    rw [Complex.norm_def, Complex.normSq_apply]
    simp only [hzdef]
    congr 1; ring
  have hpos : 0 < ‖z‖ := norm_pos_iff.mpr hz
  rw [← hnorm]
  have hcos : Real.cos (Complex.arg z) = y / ‖z‖ := by rw [Complex.cos_arg hz]
  have habs : |Complex.arg z| ∈ Set.Icc (0 : ℝ) π := ⟨abs_nonneg _, Complex.abs_arg_le_pi z⟩
  have hαm : α ∈ Set.Icc (0 : ℝ) π := ⟨hα, hα'⟩
  constructor
  · intro h
    have h1 : Real.cos α ≤ Real.cos |Complex.arg z| := by
      rw [Real.cos_abs, hcos, le_div_iff₀ hpos]; exact h
    by_contra hlt
    have hlt' : α < |Complex.arg z| := not_le.mp hlt
    have := Real.strictAntiOn_cos hαm habs hlt'
    linarith
  · intro h
    have h1 : Real.cos α ≤ Real.cos |Complex.arg z| := by
      rcases eq_or_lt_of_le h with h | h
      · rw [h]
      · exact le_of_lt (Real.strictAntiOn_cos habs hαm h)
    rw [Real.cos_abs, hcos, le_div_iff₀ hpos] at h1
    exact h1

/-- the altitude window: `z² ≤ sin²β · n` exactly when `|asin(z/√n)| ≤ β` (for `n = |v|² > 0`, `z² ≤ n`) -/
theorem altitude_window_iff (z n β : ℝ) (hn : 0 < n) (hz : z * z ≤ n) (hβ : 0 ≤ β) (hβ' : β ≤ π / 2) :
    z * z ≤ Real.sin β * Real.sin β * n ↔ |Real.arcsin (z / Real.sqrt n)| ≤ β := by
  have hs : 0 < Real.sqrt n := Real.sqrt_pos.mpr hn
  have hsq : Real.sqrt n * Real.sqrt n = n := Real.mul_self_sqrt (le_of_lt hn)
  set u := z / Real.sqrt n with hu
  have hzu : z = u * Real.sqrt n := by rw [hu]; field_simp
  have huu : u * u * n = z * z := by rw [hzu]; nlinarith
  have hu1 : u ∈ Set.Icc (-1 : ℝ) 1 := by
    have : u * u ≤ 1 := by
      by_contra hgt
      have : 1 < u * u := not_le.mp hgt
      nlinarith
    constructor <;> nlinarith
  have hsin : 0 ≤ Real.sin β := Real.sin_nonneg_of_nonneg_of_le_pi hβ (by linarith [Real.pi_pos])
  have hβm : β ∈ Set.Icc (-(π / 2)) (π / 2) := ⟨by linarith, hβ'⟩
  have hβm' : -β ∈ Set.Icc (-(π / 2)) (π / 2) := ⟨by linarith, by linarith⟩
  rw [abs_le, Real.arcsin_le_iff_le_sin hu1 hβm, Real.le_arcsin_iff_sin_le hβm' hu1, Real.sin_neg]
  constructor
  · intro h
    have h2 : u * u ≤ Real.sin β * Real.sin β := by
      by_contra hgt
      have : Real.sin β * Real.sin β < u * u := not_le.mp hgt
      nlinarith
    constructor
    · by_contra hgt
      have : u < -Real.sin β := not_le.mp hgt
      nlinarith
    · by_contra hgt
      have : Real.sin β < u := not_le.mp hgt
      nlinarith
  · rintro ⟨h1, h2⟩
    have : u * u ≤ Real.sin β * Real.sin β := by nlinarith
    nlinarith

/-- **inViewVolume_iff_angles**: membership in the (rational, square-root free) view volume of the model is exactly
    the conjunction of the three comparisons `visibility.canSee` makes on real numbers — distance, azimuth measured
    from the viewer's forward axis in the viewer's own frame, and altitude. -/
theorem inViewVolume_iff_angles (vw : Viewer) (t : V3) (α β : ℝ) (hα : 0 ≤ α ∧ α ≤ π) (hβ : 0 ≤ β ∧ β ≤ π / 2)
    (hc : (vw.a0.c : ℝ) = Real.cos α) (hs : (vw.a1.s : ℝ) = Real.sin β) (hD : 0 ≤ vw.D)
    (hne : ¬((vf vw t).x = 0 ∧ (vf vw t).y = 0)) :
    InViewVolume vw t ↔
      Real.sqrt (((vf vw t).normSq : ℚ) : ℝ) ≤ (vw.D : ℝ) ∧
      |Complex.arg ⟨((vf vw t).y : ℝ), -((vf vw t).x : ℝ)⟩| ≤ α ∧
      |Real.arcsin (((vf vw t).z : ℝ) / Real.sqrt (((vf vw t).normSq : ℚ) : ℝ))| ≤ β := by
  set v := vf vw t with hv
  have hD' : (0 : ℝ) ≤ vw.D := by exact_mod_cast hD
  have hnn : (0 : ℚ) ≤ v.normSq := V3.normSq_nonneg v
  have hnn' : (0 : ℝ) ≤ ((v.normSq : ℚ) : ℝ) := by exact_mod_cast hnn
  have hcast : ((v.normSq : ℚ) : ℝ) = (v.x : ℝ) * v.x + (v.y : ℝ) * v.y + (v.z : ℝ) * v.z := by
    rw [V3.normSq_def]; push_cast; ring
  have hhq : v.y * v.y + v.x * v.x ≠ 0 := by
    intro h0
    obtain ⟨hx, hy⟩ := horiz_zero h0
    exact hne ⟨hx, hy⟩
  have hhpos : (0 : ℚ) ≤ v.y * v.y + v.x * v.x := by nlinarith [mul_self_nonneg v.x, mul_self_nonneg v.y]
  have hvne : v ≠ V3.zero := by
    intro h0; apply hhq; rw [h0]; simp [V3.zero]
  have hnpos : (0 : ℝ) < ((v.normSq : ℚ) : ℝ) := by
    have : (0 : ℚ) < v.normSq := by
      rcases lt_or_eq_of_le hnn with h | h
      · exact h
      · exact absurd (V3.normSq_eq_zero h.symm) hvne
    exact_mod_cast this
  have hne' : ¬((v.x : ℝ) = 0 ∧ (v.y : ℝ) = 0) := by
    rintro ⟨h1, h2⟩
    exact hne ⟨by exact_mod_cast h1, by exact_mod_cast h2⟩
  rw [inViewVolume_iff, ← hv, inWindows_ref, azOK_ref, if_neg hhq, altOK_ref]
  -- distance
  have e1 : (0 ≤ vw.D ∧ v.normSq ≤ vw.D * vw.D) ↔ Real.sqrt ((v.normSq : ℚ) : ℝ) ≤ (vw.D : ℝ) := by
    rw [Real.sqrt_le_iff]
    constructor
    · rintro ⟨_, h⟩
      refine ⟨hD', ?_⟩
      have : ((v.normSq : ℚ) : ℝ) ≤ (vw.D : ℝ) * vw.D := by exact_mod_cast h
      nlinarith
    · rintro ⟨_, h⟩
      refine ⟨hD, ?_⟩
      have : ((v.normSq : ℚ) : ℝ) ≤ (vw.D : ℝ) * vw.D := by nlinarith
      exact_mod_cast this
  -- azimuth
  have e2 : GeMulSqrt v.y vw.a0.c (v.y * v.y + v.x * v.x) ↔
      |Complex.arg ⟨(v.y : ℝ), -(v.x : ℝ)⟩| ≤ α := by
    rw [geMulSqrt_iff_real _ _ _ hhpos, hc, ← azimuth_window_iff (v.x : ℝ) (v.y : ℝ) α hne' hα.1 hα.2]
    push_cast
    rfl
  -- altitude
  have e3 : v.z * v.z ≤ vw.a1.s * vw.a1.s * v.normSq ↔
      |Real.arcsin ((v.z : ℝ) / Real.sqrt ((v.normSq : ℚ) : ℝ))| ≤ β := by
    have hzle : (v.z : ℝ) * v.z ≤ ((v.normSq : ℚ) : ℝ) := by
      rw [hcast]; nlinarith [mul_self_nonneg (v.x : ℝ), mul_self_nonneg (v.y : ℝ)]
    rw [← altitude_window_iff (v.z : ℝ) _ β hnpos hzle hβ.1 hβ.2, ← hs]
    constructor
    · intro h; exact_mod_cast h
    · intro h; exact_mod_cast h
  rw [e1, e2, e3]
  constructor
  · rintro ⟨h1, _, h2, h3⟩; exact ⟨h1, h2, h3⟩
  · rintro ⟨h1, h2, h3⟩; exact ⟨h1, hvne, h2, h3⟩

/-- **grid_ray_in_windows**: the rays the object branch casts — `(-sin az, cos az, tan alt)` (normalised; the windows
    do not depend on the length) for grid angles `az ∈ [-α, α]`, `alt ∈ [-β, β]` — and the boundary vertices
    `vecFromAziAlt` of `ViewSectionRegion` satisfy the two window comparisons of the point predicate (in the
    square-root form of `azimuth_window_iff` / `altitude_window_iff`): every candidate ray points into the view
    volume, which is what `rayShows` demands of a ray through `InWindows`. -/
theorem grid_ray_in_windows (az alt α β : ℝ) (hα' : α ≤ π) (hβ' : β ≤ π / 2)
    (haz : |az| ≤ α) (halt : |alt| ≤ β) (hlt : |alt| < π / 2) :
    Real.cos α * Real.sqrt (Real.cos az * Real.cos az + (-Real.sin az) * (-Real.sin az)) ≤ Real.cos az ∧
      Real.tan alt * Real.tan alt ≤ Real.sin β * Real.sin β *
        ((-Real.sin az) * (-Real.sin az) + Real.cos az * Real.cos az + Real.tan alt * Real.tan alt) := by
  have hsc : Real.sin az ^ 2 + Real.cos az ^ 2 = 1 := Real.sin_sq_add_cos_sq az
  have h1 : Real.cos az * Real.cos az + (-Real.sin az) * (-Real.sin az) = 1 := by nlinarith
  have h1' : (-Real.sin az) * (-Real.sin az) + Real.cos az * Real.cos az = 1 := by nlinarith
  constructor
  · rw [h1, Real.sqrt_one, mul_one, ← Real.cos_abs az]
    exact Real.cos_le_cos_of_nonneg_of_le_pi (abs_nonneg az) hα' haz
  · rw [h1']
    obtain ⟨hl, hu⟩ := abs_lt.mp hlt
    obtain ⟨hl', hu'⟩ := abs_le.mp halt
    have hc : 0 < Real.cos alt := Real.cos_pos_of_mem_Ioo ⟨hl, hu⟩
    have hT : Real.tan alt * Real.cos alt = Real.sin alt := by
      rw [Real.tan_eq_sin_div_cos]; field_simp
    have hs : Real.sin alt ^ 2 + Real.cos alt ^ 2 = 1 := Real.sin_sq_add_cos_sq alt
    have e : Real.tan alt * Real.tan alt = Real.sin alt * Real.sin alt * (1 + Real.tan alt * Real.tan alt) := by
      linear_combination (-(Real.tan alt * Real.tan alt)) * hs
        + (Real.tan alt * Real.cos alt + Real.sin alt) * hT
    have hup : Real.sin alt ≤ Real.sin β :=
      Real.sin_le_sin_of_le_of_le_pi_div_two (by linarith) hβ' hu'
    have hlo : -Real.sin β ≤ Real.sin alt := by
      rw [← Real.sin_neg]
      exact Real.sin_le_sin_of_le_of_le_pi_div_two (by linarith) (by linarith) hl'
    have hsq : Real.sin alt * Real.sin alt ≤ Real.sin β * Real.sin β := by nlinarith
    have hnn : 0 ≤ 1 + Real.tan alt * Real.tan alt := by nlinarith [mul_self_nonneg (Real.tan alt)]
    calc Real.tan alt * Real.tan alt = Real.sin alt * Real.sin alt * (1 + Real.tan alt * Real.tan alt) := e
      _ ≤ Real.sin β * Real.sin β * (1 + Real.tan alt * Real.tan alt) := mul_le_mul_of_nonneg_right hsq hnn

end Scenic.Vis
