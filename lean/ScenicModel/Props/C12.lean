/-! # C12 — property theorems (stub: filled in when the property's model is built) -/
namespace Scenic.C12
end Scenic.C12
