import ScenicModel.Lemmas.SimTop
import ScenicModel.Gen.RunOrder
import ScenicModel.Props.C12Co
import ScenicModel.Props.C12Sub
import ScenicModel.Props.C12Stop
/-! # C12 — simulation steps run in the documented order and stop at the documented step

Property theorems about the executable model `Scenic.SimLoop.simulate`
(`Model/SimCo.lean`, `Model/SimLoop.lean`), for **every** program of the dynamic fragment,
every agent schedule `sched : clock → number of agents → order`, and every value of the two
fuel parameters.  The specification of the documented order is the automaton of
`Model/SimSpec.lean`, which does not mention the model.

Side conditions (`gen_*`) are about the data regenerated from `/repo` on every run
(`Gen/RunOrder.lean`); the `_current` theorems are the instances for that data. -/
namespace Scenic.C12
open Scenic.SimLoop

/-! ## side conditions on the generated data -/

/-- the phases of one iteration of `Simulation._run` are in the documented order -/
theorem gen_run_order : Scenic.Gen.runOrder = Phase.documented := by decide

/-- item of the numbered procedure of `dynamic_scenarios.rst` a phase belongs to -/
def docItem : Phase → String
  | .scen => "scenarios" | .record => "record" | .monitors => "monitors"
  | .retPending | .termSimWhen | .maxSteps => "terminationChecks"
  | .behaviors => "behaviors" | .actions => "actions" | .simStep => "simulatorStep"
  | .clock => "clock" | .update => "update"

def dedupAdj : List String → List String
  | a :: b :: r => if a = b then dedupAdj (b :: r) else a :: dedupAdj (b :: r)
  | l => l

/-- the source order of `_run`, coarsened to the items of the reference page, is the numbered
    procedure of the reference page (items 1–9; item 10 is what happens after the loop) -/
theorem gen_doc_order :
    dedupAdj (Scenic.Gen.runOrder.map docItem) ++ ["finish"] = Scenic.Gen.docOrder := by decide

/-- the checks of `DynamicScenario._step` are in the order the model (and item 1 a–d of the
    reference page) has them -/
theorem gen_step_order :
    Scenic.Gen.stepOrder = ["requirements", "timeLimit", "elapsed", "compose", "composeDone", "terminateWhen"]
    ∧ Scenic.Gen.docStepOrder.filter (fun x => Scenic.Gen.stepOrder.contains x)
      = Scenic.Gen.stepOrder.filter (fun x => Scenic.Gen.docStepOrder.contains x) := by decide

/-- all three time limits are tested with `>=`, and limits in seconds are divided by the time step -/
theorem gen_time_ops :
    Scenic.Gen.opScenarioTimeLimit = "GtE" ∧ Scenic.Gen.opMaxSteps = "GtE" ∧ Scenic.Gen.opDoFor = "GtE"
    ∧ Scenic.Gen.secondsDivide = true := by decide

/-- the two repaired sub-scenario defects stay repaired: `_addDynamicRequirement` files only `require`
    statements under the temporal requirements (the model evaluates a sub-scenario's `terminate when`,
    `terminate simulation when` and `record` like those of the top-level scenario), and the sub-scenario
    loop of `_runMonitors` hands up `terminate simulation` only (`monSubs`) -/
theorem gen_subscenario_flags :
    Scenic.Gen.dynReqAsTemporal = false ∧ Scenic.Gen.monTermPropagates = false := by decide

/-- the walks over the scenario tree have the shape the model has: `_runMonitors` (own monitors,
    sub-scenarios, then the scenario's own stop), `_invokeInner` (start all, then per step: step every
    sub-scenario, keep those that continue, return when none is left, yield, drop those stopped
    meanwhile), `_stop` (monitors, sub-scenarios, compose iterator), `_checkSimulationTerminationConditions`
    (own conditions, then the running sub-scenarios), `_evaluateRecordedExprsAt` (own expressions, then
    every listed sub-scenario), and an ended behavior yields the empty action -/
theorem gen_tree_walks :
    Scenic.Gen.monitorsOrder = ["own", "subs", "stopSelf"]
    ∧ Scenic.Gen.invokeOrder = ["start", "assign", "fresh", "stepAll", "keep", "returnIfNone", "yield", "dropStopped"]
    ∧ Scenic.Gen.stopOrder = ["monitors", "clearMonitors", "subs", "iterator", "endScenario"]
    ∧ Scenic.Gen.termSimRecurses = true ∧ Scenic.Gen.termSimRunningOnly = true
    ∧ Scenic.Gen.recordAllSubs = true ∧ Scenic.Gen.behaviorEndIsEmpty = true := by decide

/-- `Simulation.__init__` (setup, start of the top-level scenario, first update, `_run`, stop of the
    remaining scenarios, final records) and `recordCurrentState` (initial records at step 0, time
    series, trajectory) are in the order of `initSt` / `simulate` / `finish` / `recordState` -/
theorem gen_init_record_order :
    Scenic.Gen.initOrder = ["begin", "setup", "start", "update", "run", "stopRemaining", "recordFinal", "result"]
    ∧ Scenic.Gen.recordOrder = ["initial", "series", "trajectory"] := by decide

/-! ## step order -/

/-- **Step order.**  For every program, schedule and fuel, the event log of a run is accepted by
    the automaton of the documented order (`Model/SimSpec.lean`): in every executed step the
    scenario events (compose blocks with their requirement / time-limit / termination checks)
    come first, then the records and the trajectory entry, then the monitors, then the
    simulation-termination checks, then one turn per scheduled agent in schedule order (every
    behavior event belongs to the agent whose turn it is), then the actions, one simulator step
    and the update with the incremented clock; after the termination only `stop` events and the
    final records follow.  A run that was cut short (rejection, fuel) has a log that is a prefix
    of such a log. -/
theorem step_order (P : Prog) (S : Sem) (cf fuel : Nat) (sched : Nat → Nat → List Nat)
    (hS : S.order = Phase.documented) :
    ∃ s, DS.start.run (simulate P S cf fuel sched).log = some s ∧
      ((simulate P S cf fuel sched).term.isSome = true →
        s.final = true ∧ s.time = (simulate P S cf fuel sched).time) := by
  obtain ⟨s, h1, h2⟩ := simulate_order P S cf fuel sched hS
  refine ⟨s, h1, fun ht => ?_⟩
  cases hterm : (simulate P S cf fuel sched).term with
  | none => simp [hterm] at ht
  | some tt => exact ⟨(h2 tt hterm).1, (h2 tt hterm).2.1⟩

/-- the same for the phase order and flags extracted from the current source -/
theorem step_order_current (P : Prog) (cf fuel : Nat) (sched : Nat → Nat → List Nat) :
    ∃ s, DS.start.run (simulate P Scenic.Gen.sem cf fuel sched).log = some s ∧
      ((simulate P Scenic.Gen.sem cf fuel sched).term.isSome = true →
        s.final = true ∧ s.time = (simulate P Scenic.Gen.sem cf fuel sched).time) :=
  step_order P _ cf fuel sched gen_run_order

/-- terminated runs are `wellOrdered` -/
theorem terminated_wellOrdered (P : Prog) (S : Sem) (cf fuel : Nat) (sched : Nat → Nat → List Nat)
    (hS : S.order = Phase.documented) (ht : (simulate P S cf fuel sched).term.isSome = true) :
    wellOrdered (simulate P S cf fuel sched).log = true := by
  obtain ⟨s, h1, h2⟩ := step_order P S cf fuel sched hS
  unfold wellOrdered
  rw [h1]
  exact (h2 ht).1

/-! ## one state per step, one action-log entry per executed step -/

/-- **Lengths.**  A run that terminated at clock `T` has appended `T + 1` states to the
    trajectory and `T` entries to the action log, and has run the simulator for `T` steps. -/
theorem trajectory_len (P : Prog) (S : Sem) (cf fuel : Nat) (sched : Nat → Nat → List Nat)
    (hS : S.order = Phase.documented) (ht : (simulate P S cf fuel sched).term.isSome = true) :
    (simulate P S cf fuel sched).trajLen = (simulate P S cf fuel sched).time + 1 ∧
    (simulate P S cf fuel sched).actLen = (simulate P S cf fuel sched).time ∧
    (simulate P S cf fuel sched).simSteps = (simulate P S cf fuel sched).time := by
  obtain ⟨s, h1, h2⟩ := step_order P S cf fuel sched hS
  obtain ⟨hf, hT⟩ := h2 ht
  obtain ⟨c1, c2, c3⟩ := DS.run_counts _ _ _ h1
  unfold Result.trajLen Result.actLen Result.simSteps
  rw [← hT]
  cases s <;> simp_all [DS.final, DS.trajs, DS.actsN, DS.sims, DS.time]

theorem trajectory_len_current (P : Prog) (cf fuel : Nat) (sched : Nat → Nat → List Nat)
    (ht : (simulate P Scenic.Gen.sem cf fuel sched).term.isSome = true) :
    (simulate P Scenic.Gen.sem cf fuel sched).trajLen = (simulate P Scenic.Gen.sem cf fuel sched).time + 1 ∧
    (simulate P Scenic.Gen.sem cf fuel sched).actLen = (simulate P Scenic.Gen.sem cf fuel sched).time ∧
    (simulate P Scenic.Gen.sem cf fuel sched).simSteps = (simulate P Scenic.Gen.sem cf fuel sched).time :=
  trajectory_len P _ cf fuel sched gen_run_order ht

/-! ## the step limit and `terminate simulation when` -/

/-- **Step limit.**  With a step limit `maxSteps ≠ 0`, no run goes beyond clock `maxSteps`; a run
    that ends with `timeLimit` ends at exactly `maxSteps`; a run ended by a behavior ended strictly
    before it (the limit is tested before the behaviors run). -/
theorem step_limit_exact (P : Prog) (S : Sem) (cf fuel : Nat) (sched : Nat → Nat → List Nat)
    (hS : S.order = Phase.documented) (hm : P.maxSteps ≠ 0) (tt : Term)
    (ht : (simulate P S cf fuel sched).term = some tt) :
    (simulate P S cf fuel sched).time ≤ P.maxSteps ∧
    (tt = .timeLimit → (simulate P S cf fuel sched).time = P.maxSteps) ∧
    (tt = .terminatedByBehavior → (simulate P S cf fuel sched).time < P.maxSteps) := by
  obtain ⟨s, _, h2⟩ := simulate_order P S cf fuel sched hS
  obtain ⟨_, _, hT, hH⟩ := h2 tt ht
  have hle : (simulate P S cf fuel sched).time ≤ P.maxSteps := by
    by_cases h : (simulate P S cf fuel sched).time ≤ P.maxSteps
    · exact h
    · exact absurd ⟨hm, Nat.le_refl _⟩ (hH P.maxSteps (by omega)).2
  refine ⟨hle, ?_, ?_⟩
  · rintro rfl
    have := hT.2.2
    omega
  · rintro rfl
    have := hT.2
    unfold NotMax at this
    omega

/-- **`terminate simulation when`.**  The run never executes a step at a clock value at which one
    of the top-level scenario's conditions holds; it ends with `simulationTerminationCondition` only
    at a clock value at which a condition of some scenario class holds (a sub-scenario's conditions
    count while it runs; `terminate_simulation_when_last` says that the first true evaluation ends
    the run); and when it ends at step 4/5 for another reason, none of the top-level ones holds. -/
theorem terminate_simulation_when_exact (P : Prog) (S : Sem) (cf fuel : Nat) (sched : Nat → Nat → List Nat)
    (hS : S.order = Phase.documented) (tt : Term) (ht : (simulate P S cf fuel sched).term = some tt) :
    (∀ t' < (simulate P S cf fuel sched).time, ∀ c ∈ P.termSimWhen, P.code.cond c t' = false) ∧
    (tt = .simulationTerminationCondition →
      ∃ k, ∃ c ∈ (P.scens.getD k default).termSimWhen, P.code.cond c (simulate P S cf fuel sched).time = true) ∧
    (tt = .timeLimit ∨ tt = .terminatedByBehavior →
      ∀ c ∈ P.termSimWhen, P.code.cond c (simulate P S cf fuel sched).time = false) := by
  obtain ⟨s, _, h2⟩ := simulate_order P S cf fuel sched hS
  obtain ⟨_, _, hT, hH⟩ := h2 tt ht
  refine ⟨fun t' ht' => (hH t' ht').1, ?_, ?_⟩
  · rintro rfl; exact hT
  · rintro (rfl | rfl) <;> exact hT.1

/-! ## `terminate after` and `terminate when` of the top-level scenario -/

/-- **`terminate after` (top-level scenario).**  With a time limit of `l` steps on the top-level
    scenario (a limit in seconds is `l = ⌈seconds / timestep⌉`, `secToSteps_spec`), no terminated run
    goes beyond clock `l`: the limit is tested at the start of the scenario's step, before its compose
    block, and the simulation then ends in the same iteration (after the records and monitors). -/
theorem terminate_after_top (P : Prog) (S : Sem) (cf fuel : Nat) (sched : Nat → Nat → List Nat)
    (hS : S.order = Phase.documented) (tt : Term) (ht : (simulate P S cf fuel sched).term = some tt)
    (l : Nat) (hl : (P.scens.getD 0 default).limit = some l) :
    (simulate P S cf fuel sched).time ≤ l := by
  have h := simulate_top P S cf fuel sched hS tt ht
  by_cases hle : (simulate P S cf fuel sched).time ≤ l
  · exact hle
  · have := (h l (by omega)).1 l hl
    omega

/-- **`terminate when` (top-level scenario).**  No step is executed after a clock value at which one
    of the top-level scenario's `terminate when` conditions held at the end of the scenario's step. -/
theorem terminate_when_top (P : Prog) (S : Sem) (cf fuel : Nat) (sched : Nat → Nat → List Nat)
    (hS : S.order = Phase.documented) (tt : Term) (ht : (simulate P S cf fuel sched).term = some tt) :
    ∀ t' < (simulate P S cf fuel sched).time, ∀ c ∈ (P.scens.getD 0 default).termWhen,
      P.code.cond c t' = false :=
  fun t' ht' => (simulate_top P S cf fuel sched hS tt ht t' ht').2

/-- a two-agent program with a monitor, a sub-scenario (with its own records and
    `terminate simulation when`) and a `do … for` -/
def demo : Prog where
  code := ⟨[.ge 2, .ge 9], [[.log 0, .take 1, .doSub [1] (.forT 2), .term], [.forever [.take 7]]]⟩
  monCls := [[.wait, .log 5, .doSub [] (.untilC 0), .termSim]]
  scens := [{ agents := [0, 1], mons := [0], compose := some [.wait, .doSub [1] (.forT 2), .log 9, .forever [.wait]],
              limit := none, termWhen := [], reqAlways := true, termSimWhen := [0], recInit := true, recs := [0],
              recFinal := true },
            { agents := [1], mons := [], compose := none, limit := some 5, termWhen := [], reqAlways := false,
              termSimWhen := [1], recs := [7] }]
  maxSteps := 6

def demoNoMon : Prog := { demo with monCls := [[.forever [.wait]]] }
def demoNoTS : Prog :=
  { demoNoMon with scens := demoNoMon.scens.map fun c => { c with termSimWhen := [] } }

-- non-vacuity: the demo terminates (by the monitor's `wait until`, at clock 2, before the
-- `terminate simulation when` of the same clock is looked at), so the hypotheses of the theorems
-- above are satisfiable; a reversed schedule is a schedule
example : (simulate demo Sem.documented 100 100 (fun _ n => (List.range n).reverse)).term
    = some .terminatedByMonitor := by decide +kernel
example : (simulate demo Sem.documented 100 100 (fun _ n => (List.range n).reverse)).time = 2 := by
  decide +kernel
example : (simulate demoNoMon Sem.documented 100 100 (fun _ n => List.range n)).term
    = some .simulationTerminationCondition := by decide +kernel
example : (simulate demoNoTS Sem.documented 100 100 (fun _ n => List.range n)).term = some .terminatedByBehavior := by
  decide +kernel
example : (simulate { demoNoTS with maxSteps := 3 } Sem.documented 100 100 (fun _ n => List.range n)).term
    = some .timeLimit := by decide +kernel
-- a sub-scenario's `terminate simulation when` ends the run while the sub-scenario is running (clock 1: the
-- sub-scenario is started at clock 1 by the compose block, its condition `clock ≥ 1` holds)
example : (simulate { demoNoTS with scens := demoNoTS.scens.modify 1 fun c => { c with termSimWhen := [0] },
                                    code := ⟨[.ge 1], demoNoTS.code.behs⟩ }
    Sem.documented 100 100 (fun _ n => List.range n)).time = 1 := by decide +kernel
-- a top-level `terminate after 2 steps` / `terminate when clock >= 2`
def demoTop (lim : Option Nat) (tw : List Nat) : Prog :=
  let top : ScenCls := { agents := [0, 1], mons := [], compose := none, limit := lim, termWhen := tw, reqAlways := true }
  { demoNoTS with scens := [top] }
example : (simulate (demoTop (some 2) []) Sem.documented 100 100 (fun _ n => List.range n)).time = 2 := by
  decide +kernel
example : (simulate (demoTop none [0]) Sem.documented 100 100 (fun _ n => List.range n)).term
    = some .scenarioComplete := by
  decide +kernel

/-! ## the repaired sub-scenario constructs, on the two programs that exposed the defects

Before the repairs of `/repo` (`fix:` commits b67cb6dd and f31f9b87) the model carried two flags
reproducing the defects and these programs had negation witnesses.  The model now has the repaired
behaviour only; the general statements are `stepScen_cont` / `stepScen_limit` (every scenario
instance) and `monSubs_only_endSim` / `runMonitors_endScen_own` (`Props/C12Sub.lean`); these are their
instances on the two programs, which the check also replays on the real code
(`construct:subscenario-terminate-when`, `construct:subscenario-monitor-terminate`). -/

/-- `Main: compose: do Sub(); log 7; wait; wait` and `Sub: terminate when clock >= 1` -/
def subTerminateWhen : Prog where
  code := ⟨[.ge 1], []⟩
  monCls := []
  scens := [{ agents := [], mons := [], compose := some [.doSub [1] .none, .log 7, .wait, .wait], limit := none,
              termWhen := [], reqAlways := false },
            { agents := [], mons := [], compose := none, limit := none, termWhen := [0], reqAlways := false }]
  maxSteps := 6

/-- the sub-scenario ends at clock 1, the parent goes on (marker, two waits) and completes at clock 3 -/
theorem subscenario_terminate_when :
    (simulate subTerminateWhen Scenic.Gen.sem 50 50 (fun _ n => List.range n)).term = some .scenarioComplete ∧
    (simulate subTerminateWhen Scenic.Gen.sem 50 50 (fun _ n => List.range n)).time = 3 ∧
    Ev.c 0 7 ∈ (simulate subTerminateWhen Scenic.Gen.sem 50 50 (fun _ n => List.range n)).log := by
  decide +kernel

/-- `Main: compose: do Sub(); log 7; wait; wait` and `Sub: require monitor M()`, `M: wait; terminate` -/
def subMonitorTerminate : Prog where
  code := ⟨[], []⟩
  monCls := [[.wait, .term]]
  scens := [{ agents := [], mons := [], compose := some [.doSub [1] .none, .log 7, .wait, .wait], limit := none,
              termWhen := [], reqAlways := false },
            { agents := [], mons := [0], compose := none, limit := none, termWhen := [], reqAlways := false }]
  maxSteps := 6

/-- the monitor stops the sub-scenario at clock 1, the parent continues at clock 2 and completes at clock 4 -/
theorem subscenario_monitor_terminate :
    (simulate subMonitorTerminate Scenic.Gen.sem 50 50 (fun _ n => List.range n)).term = some .scenarioComplete ∧
    (simulate subMonitorTerminate Scenic.Gen.sem 50 50 (fun _ n => List.range n)).time = 4 := by
  decide +kernel

end Scenic.C12
