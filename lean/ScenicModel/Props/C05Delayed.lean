import ScenicModel.Model.Delayed

/-!
# C05 (part 3): delayed arguments see the final values of the properties they depend on
-/
namespace Scenic.Delayed

theorem run_untouched {α} : ∀ (order : List (Spec α)) (ctx : Ctx α) (p : Prop'),
    (∀ t ∈ order, p ∉ t.sets) → run order ctx p = ctx p
  | [], _, _, _ => rfl
  | s :: rest, ctx, p, h => by
    simp only [run]
    rw [run_untouched rest (applySpec s ctx) p (fun t ht => h t (List.mem_cons_of_mem _ ht))]
    have : p ∉ s.sets := h s List.mem_cons_self
    simp [applySpec, this]

/-- **C05, delayed arguments.**  If the evaluation order is well ordered (every specifier assigning a property
    precedes every specifier reading it — what the topological sort of `_resolveSpecifiers` establishes, C06), then
    the value each specifier computed when it was evaluated equals its value in the *final* context: specifier
    arguments and class defaults referring to other properties are evaluated against their final values. -/
theorem delayed_eval_final {α} : ∀ (pre : List (Spec α)) (s : Spec α) (post : List (Spec α)) (ctx0 : Ctx α),
    wellOrdered (s :: post) = true → s.local →
    ∀ q, s.value (run pre ctx0) q = s.value (run (pre ++ s :: post) ctx0) q := by
  intro pre s post ctx0 hwo hloc q
  have hsplit : ∀ (pre : List (Spec α)) (c : Ctx α), run (pre ++ s :: post) c = run post (applySpec s (run pre c)) := by
    intro pre
    induction pre with
    | nil => intro c; rfl
    | cons t pre ih => intro c; simp only [List.cons_append, run]; exact ih _
  rw [hsplit]
  apply hloc
  intro p hp
  simp only [wellOrdered, Bool.and_eq_true, List.all_eq_true, Bool.not_eq_true', decide_eq_false_iff_not] at hwo
  obtain ⟨⟨hpost, hself⟩, _⟩ := hwo
  rw [run_untouched post _ p (fun t ht => hpost t ht p hp)]
  simp [applySpec, hself p hp]

/-- the final context holds, for every property a specifier assigns last, the value that specifier computes in
    the final context -/
theorem final_value_of_last_writer {α} (pre : List (Spec α)) (s : Spec α) (post : List (Spec α)) (ctx0 : Ctx α)
    (hwo : wellOrdered (s :: post) = true) (hloc : s.local) (p : Prop') (hp : p ∈ s.sets)
    (hlast : ∀ t ∈ post, p ∉ t.sets) :
    run (pre ++ s :: post) ctx0 p = some (s.value (run (pre ++ s :: post) ctx0) p) := by
  have hsplit : ∀ (pre : List (Spec α)) (c : Ctx α), run (pre ++ s :: post) c = run post (applySpec s (run pre c)) := by
    intro pre
    induction pre with
    | nil => intro c; rfl
    | cons t pre ih => intro c; simp only [List.cons_append, run]; exact ih _
  have h := delayed_eval_final pre s post ctx0 hwo hloc p
  rw [← h, hsplit, run_untouched post _ p hlast]
  simp [applySpec, hp]

/-- non-vacuity: `b: self.a + 1` evaluated after `a` -/
example : wellOrdered (α := Nat)
    [⟨[], [0], fun _ _ => 5⟩, ⟨[0], [1], fun c _ => (c 0).getD 0 + 1⟩] = true := by decide

/-- an order that evaluates the reader before the writer is rejected -/
example : wellOrdered (α := Nat)
    [⟨[0], [1], fun c _ => (c 0).getD 0 + 1⟩, ⟨[], [0], fun _ _ => 5⟩] = false := by decide

end Scenic.Delayed
