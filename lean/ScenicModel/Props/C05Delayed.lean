import ScenicModel.Model.Delayed

/-!
# C05 (part 3): delayed arguments see the final values of the properties they depend on
-/
namespace Scenic.Delayed

theorem run_untouched {α} : ∀ (order : List (Spec α)) (ctx : Ctx α) (p : Prop'),
    (∀ t ∈ order, p ∉ t.sets) → run order ctx p = ctx p
  | [], _, _, _ => rfl
  | s :: rest, ctx, p, h => by
    simp only [run]
    rw [run_untouched rest (applySpec s ctx) p (fun t ht => h t (List.mem_cons_of_mem _ ht))]
    have : p ∉ s.sets := h s List.mem_cons_self
    simp [applySpec, this]

/-- **C05, delayed arguments.**  If the evaluation order is well ordered (every specifier assigning a property
    precedes every specifier reading it — what the topological sort of `_resolveSpecifiers` establishes, C06), then
    the value each specifier computed when it was evaluated equals its value in the *final* context: specifier
    arguments and class defaults referring to other properties are evaluated against their final values. -/
theorem delayed_eval_final {α} : ∀ (pre : List (Spec α)) (s : Spec α) (post : List (Spec α)) (ctx0 : Ctx α),
    wellOrdered (s :: post) = true → s.local →
    ∀ q, s.value (run pre ctx0) q = s.value (run (pre ++ s :: post) ctx0) q := by
  intro pre s post ctx0 hwo hloc q
  have hsplit : ∀ (pre : List (Spec α)) (c : Ctx α), run (pre ++ s :: post) c = run post (applySpec s (run pre c)) := by
    intro pre
    induction pre with
    | nil => intro c; rfl
    | cons t pre ih => intro c; simp only [List.cons_append, run]; exact ih _
  rw [hsplit]
  apply hloc
  intro p hp
  simp only [wellOrdered, Bool.and_eq_true, List.all_eq_true, Bool.not_eq_true', decide_eq_false_iff_not] at hwo
  obtain ⟨⟨hpost, hself⟩, _⟩ := hwo
  rw [run_untouched post _ p (fun t ht => hpost t ht p hp)]
  simp [applySpec, hself p hp]

/-- the final context holds, for every property a specifier assigns last, the value that specifier computes in
    the final context -/
theorem final_value_of_last_writer {α} (pre : List (Spec α)) (s : Spec α) (post : List (Spec α)) (ctx0 : Ctx α)
    (hwo : wellOrdered (s :: post) = true) (hloc : s.local) (p : Prop') (hp : p ∈ s.sets)
    (hlast : ∀ t ∈ post, p ∉ t.sets) :
    run (pre ++ s :: post) ctx0 p = some (s.value (run (pre ++ s :: post) ctx0) p) := by
  have hsplit : ∀ (pre : List (Spec α)) (c : Ctx α), run (pre ++ s :: post) c = run post (applySpec s (run pre c)) := by
    intro pre
    induction pre with
    | nil => intro c; rfl
    | cons t pre ih => intro c; simp only [List.cons_append, run]; exact ih _
  have h := delayed_eval_final pre s post ctx0 hwo hloc p
  rw [← h, hsplit, run_untouched post _ p hlast]
  simp [applySpec, hp]

/-- non-vacuity: `b: self.a + 1` evaluated after `a` -/
example : wellOrdered (α := Nat)
    [⟨[], [0], fun _ _ => 5⟩, ⟨[0], [1], fun c _ => (c 0).getD 0 + 1⟩] = true := by decide

/-- an order that evaluates the reader before the writer is rejected -/
example : wellOrdered (α := Nat)
    [⟨[0], [1], fun c _ => (c 0).getD 0 + 1⟩, ⟨[], [0], fun _ _ => 5⟩] = false := by decide

/-! ## delayed values built by lifted calls -/

theorem collects_of_WF (S : Shapes) (hS : S.WF = true) (k : Kind) (kw first : Bool) : collects S k kw first = true := by
  simp only [Shapes.WF, Bool.and_eq_true] at hS
  obtain ⟨⟨⟨⟨⟨⟨⟨h1, h2⟩, h3⟩, h4⟩, h5⟩, h6⟩, h7⟩, h8⟩ := hS
  cases k <;> cases kw <;> cases first <;> simp [collects, *]

/-- when every constructor collects all its operands, everything a delayed value reads is declared -/
theorem reads_subset_required (S : Shapes) (hS : S.WF = true) :
    ∀ (d : DVal) (k : Kind) (first : Bool), ∀ p ∈ reads d, p ∈ required S k first d := by
  intro d
  induction d with
  | const v => intro k first p hp; simp [reads] at hp
  | prop q => intro k first p hp; simpa [reads, required] using hp
  | nil => intro k first p hp; simp [reads] at hp
  | arg kw d rest ihd ihr =>
    intro k first p hp
    simp only [reads, List.mem_append] at hp
    simp only [required, collects_of_WF S hS, if_true, List.mem_append]
    rcases hp with hp | hp
    · exact Or.inl (ihd k first p hp)
    · exact Or.inr (ihr k _ p hp)
  | call k' f args ih => intro k first p hp; exact ih k' true p (by simpa [reads] using hp)

/-- the value of a delayed value depends only on the properties it reads -/
theorem evalD_local (I : Nat → List (Bool × Int) → Int) (c1 c2 : Ctx Int) :
    ∀ d : DVal, (∀ p ∈ reads d, c1 p = c2 p) → evalD I c1 d = evalD I c2 d := by
  intro d
  induction d with
  | const v => intro _; rfl
  | prop q => intro h; simp [evalD, h q (by simp [reads])]
  | nil => intro _; rfl
  | arg kw d rest ihd ihr =>
    intro h
    simp only [evalD]
    rw [ihd (fun p hp => h p (by simp [reads, hp])), ihr (fun p hp => h p (by simp [reads, hp]))]
  | call k f args ih => intro h; simp only [evalD]; rw [ih (fun p hp => h p (by simpa [reads] using hp))]

/-- **C05, delayed arguments of lifted calls.**  A specifier whose value is a lifted call over lazily evaluated
    operands — positional or keyword, nested to any depth — depends only on the properties it declares, provided
    every constructor collects all the operands it evaluates (`Shapes.WF`, a side condition on generated data). -/
theorem delayedSpec_local (S : Shapes) (hS : S.WF = true) (I : Nat → List (Bool × Int) → Int) (d : DVal)
    (sets : List Prop') : (delayedSpec S I d sets).local := by
  intro c1 c2 h q
  simp only [delayedSpec]
  rw [evalD_local I c1 c2 d (fun p hp => h p (reads_subset_required S hS d .fnCall true p hp))]

/-- … hence it is evaluated against the final values of the properties it refers to, whatever the order in which
    the specifiers are written and whichever modifying specifiers change those properties, as long as the
    evaluation order respects the *declared* dependencies (`wellOrdered`, established by `_resolveSpecifiers`). -/
theorem lifted_call_eval_final (S : Shapes) (hS : S.WF = true) (I : Nat → List (Bool × Int) → Int) (d : DVal)
    (sets : List Prop') (pre post : List (Spec Int)) (ctx0 : Ctx Int)
    (hwo : wellOrdered (delayedSpec S I d sets :: post) = true) :
    headVal (evalD I (run pre ctx0) d) = headVal (evalD I (run (pre ++ delayedSpec S I d sets :: post) ctx0) d) :=
  delayed_eval_final pre (delayedSpec S I d sets) post ctx0 hwo (delayedSpec_local S hS I d sets) 0

/-- the shape "required properties collected from positional arguments only" (keyword arguments dropped) -/
def kwDropped : Shapes :=
  { fnPos := true, fnKw := false, dcallSelf := true, dcallPos := true, dcallKw := true, opSelf := true, opArgs := true,
    attrSelf := true }

/-- `f(10, delta=<lazy position>)`: with the keyword operands dropped from the declared dependencies the specifier is
    no longer local — its value changes with a property it does not declare, so the order `_resolveSpecifiers`
    derives from the declarations may evaluate it before the final value exists. -/
theorem kwargs_dropped_not_local :
    ¬ (delayedSpec kwDropped (fun _ l => headVal l + 10 * headVal (l.drop 1))
        (.call .fnCall 0 (.arg false (.const 10) (.arg true (.prop 0) .nil))) [1]).local := by
  intro h
  have h' := h (fun _ => some 0) (fun _ => some 1) (by
    intro p hp
    simp [delayedSpec, required, collects, kwDropped] at hp) 0
  simp [delayedSpec, evalD, headVal] at h'

example : required ⟨true, true, true, true, true, true, true, true⟩ .fnCall true
    (.call .fnCall 0 (.arg false (.const 10) (.arg true (.call .fnCall 0 (.arg true (.prop 3) .nil)) .nil))) = [3] := by decide

example : required kwDropped .fnCall true
    (.call .fnCall 0 (.arg false (.const 10) (.arg true (.call .fnCall 0 (.arg true (.prop 3) .nil)) .nil))) = [] := by decide

end Scenic.Delayed
