import ScenicModel.Model.FrontState
/-! # C10 (state part) — compilation always leaves the veneer inactive

`compile_restores_except_leaks`: for every data set `d` extracted from the source, every option set, and every
script of nested module compilations (imports, nested top-level calls, writes, failures injected at any point),
after `scenarioFromString` returns or raises, `activity = 0`, the scenario stack is empty, 2D mode is off and
every dirty global is one that no `deactivate` resets (`leaks d`).  Hypothesis: the `finally` of
`_scenarioFromStream` is guarded by a successful activation, *or* the script contains no nested top-level call
whose activation assertion fails.  `unguarded_witness` shows the hypothesis is needed; `leak_witness` shows that
each leak is real.  No bound on nesting depth or script length. -/
namespace Scenic.FrontState

def actCount (fs : List Frame) : Nat := (fs.filter (fun f => f.activated)).length

structure Good (d : Data) (st : St) (n : Nat) : Prop where
  act : st.activity = n
  stk : st.stack = n
  dirt : ∀ g ∈ st.dirty, g ∈ allWrites d

theorem mem_allWrites_compile {d : Data} {g : Nat} (h : g ∈ d.compileWrites) : g ∈ allWrites d := by
  simp [allWrites, h]

theorem ov_sub (d : Data) (o : Opts) : ∀ g ∈ (if o.overrides = true then d.overrideWrites else []), g ∈ allWrites d := by
  intro g hg
  by_cases h : o.overrides = true
  · simp only [h, if_true] at hg; simp [allWrites, hg]
  · simp [h] at hg

theorem m2_sub (d : Data) (o : Opts) : ∀ g ∈ (if o.mode2D = true then d.mode2DWrites else []), g ∈ allWrites d := by
  intro g hg
  by_cases h : o.mode2D = true
  · simp only [h, if_true] at hg; simp [allWrites, hg]
  · simp [h] at hg

theorem activate_cases (d : Data) (o : Opts) (st : St) (n : Nat) (h : Good d st n) :
    ((activate d o st).2 = true ∧ Good d (activate d o st).1 (n + 1)) ∨
    ((activate d o st).2 = false ∧ Good d (activate d o st).1 n ∧ st.activity ≠ 0 ∧ (o.overrides = true ∨ o.mode2D = true)) := by
  obtain ⟨ha, hs, hd⟩ := h
  cases hb1 : (o.overrides && st.activity != 0)
  · cases hb2 : (o.mode2D && !(st.mode2D || st.activity == 0))
    · left
      have e : activate d o st = ((⟨st.activity + 1, st.stack + 1, st.mode2D || o.mode2D,
          d.activateAlways ++ (if o.mode2D = true then d.mode2DWrites else []) ++
            (if o.overrides = true then d.overrideWrites else []) ++ st.dirty⟩ : St), true) := by
        simp only [activate, hb1, hb2, Bool.false_eq_true, if_false]
      rw [e]
      refine ⟨rfl, ⟨by simp [ha], by simp [hs], ?_⟩⟩
      intro g hg
      simp only [List.mem_append] at hg
      rcases hg with ((hg | hg) | hg) | hg
      · simp [allWrites, hg]
      · exact m2_sub d o g hg
      · exact ov_sub d o g hg
      · exact hd g hg
    · right
      have e : activate d o st = ((⟨st.activity, st.stack, st.mode2D,
          (if o.overrides = true then d.overrideWrites else []) ++ st.dirty⟩ : St), false) := by
        simp only [activate, hb1, hb2, Bool.false_eq_true, if_false, if_true]
      rw [e]
      simp only [Bool.and_eq_true, Bool.not_eq_true', Bool.or_eq_false_iff, beq_eq_false_iff_ne] at hb2
      refine ⟨rfl, ⟨ha, hs, ?_⟩, hb2.2.2, Or.inr hb2.1⟩
      intro g hg
      simp only [List.mem_append] at hg
      rcases hg with hg | hg
      · exact ov_sub d o g hg
      · exact hd g hg
  · right
    have e : activate d o st = (st, false) := by
      simp only [activate, hb1, if_true]
    rw [e]
    simp only [Bool.and_eq_true, bne_iff_ne] at hb1
    exact ⟨rfl, ⟨ha, hs, hd⟩, hb1.2, Or.inl hb1.1⟩

theorem activate_plain_ok (d : Data) (st : St) : (activate d Opts.plain st).2 = true := by
  simp [activate, Opts.plain]

theorem mem_unreset {rs dirty : List Nat} {g : Nat} (h : g ∈ unreset rs dirty) : g ∈ dirty ∧ rs.contains g = false := by
  simp only [unreset, List.mem_filter, Bool.not_eq_true'] at h
  exact h

theorem deactivate_eq_zero (d : Data) (st : St) (ha : st.activity = 1) (hs : st.stack = 1) :
    deactivate d st = ((⟨0, 0, if d.mode2DReset then false else st.mode2D,
      unreset d.resetAtZero (unreset d.resetAlways st.dirty)⟩ : St), true) := by
  simp [deactivate, ha, hs]

theorem deactivate_eq_pos (d : Data) (st : St) (n : Nat) (hn : n ≠ 0) (ha : st.activity = (n : Int) + 1) (hs : st.stack = n + 1) :
    deactivate d st = ((⟨n, n, st.mode2D, d.activateAlways ++ unreset d.resetAlways st.dirty⟩ : St), true) := by
  have h1 : ¬ ((n : Int) < 0) := by omega
  simp [deactivate, ha, hs, h1]
  intro h0; exact absurd h0 hn

theorem deactivate_good (d : Data) (st : St) (n : Nat) (h : Good d st (n + 1)) :
    (deactivate d st).2 = true ∧ Good d (deactivate d st).1 n ∧
    (n = 0 → d.mode2DReset = true →
      (deactivate d st).1.mode2D = false ∧ ∀ g ∈ (deactivate d st).1.dirty, g ∈ leaks d) := by
  obtain ⟨ha, hs, hd⟩ := h
  by_cases hn : n = 0
  · subst hn
    rw [deactivate_eq_zero d st (by simpa using ha) (by simpa using hs)]
    refine ⟨rfl, ⟨rfl, rfl, ?_⟩, ?_⟩
    · intro g hg
      exact hd g (mem_unreset (mem_unreset hg).1).1
    · intro _ hm
      refine ⟨by simp [hm], ?_⟩
      intro g hg
      have hA := mem_unreset hg
      have hB := mem_unreset hA.1
      simp only [leaks, List.mem_filter, Bool.and_eq_true, Bool.not_eq_true']
      exact ⟨hd g hB.1, hB.2, hA.2⟩
  · rw [deactivate_eq_pos d st n hn (by rw [ha]; simp) hs]
    refine ⟨rfl, ⟨rfl, rfl, ?_⟩, fun h0 => absurd h0 hn⟩
    intro g hg
    simp only [List.mem_append] at hg
    rcases hg with hg | hg
    · simp [allWrites, hg]
    · exact hd g (mem_unreset hg).1

/-- activation followed by deactivation restores the counters (for any options that activation accepts) -/
theorem deactivate_activate (d : Data) (o : Opts) (st : St) (n : Nat) (h : Good d st n)
    (hok : (activate d o st).2 = true) :
    (deactivate d (activate d o st).1).2 = true ∧
    (deactivate d (activate d o st).1).1.activity = st.activity ∧
    (deactivate d (activate d o st).1).1.stack = st.stack := by
  rcases activate_cases d o st n h with ⟨_, hg⟩ | ⟨hf, _⟩
  · obtain ⟨h1, h2, _⟩ := deactivate_good d _ n hg
    exact ⟨h1, by rw [h2.act, h.act], by rw [h2.stk, h.stk]⟩
  · rw [hf] at hok; cases hok

structure MInv (d : Data) (m : M) : Prop where
  good : Good d m.st (actCount m.frames)
  clean : m.frames = [] → m.st.mode2D = false ∧ ∀ g ∈ m.st.dirty, g ∈ leaks d
  last : ∀ f, m.frames.getLast? = some f → f.activated = true
  imp : ∀ f ∈ m.frames, f.isTop = false → f.activated = true
  gd : d.sfsGuarded = true ∨ ∀ f ∈ m.frames, f.activated = true

theorem actCount_cons (f : Frame) (fs : List Frame) :
    actCount (f :: fs) = if f.activated then actCount fs + 1 else actCount fs := by
  unfold actCount
  by_cases h : f.activated = true <;> simp [h]

theorem closeFrame_inv (d : Data) (hm2 : d.mode2DReset = true) (m : M) (h : MInv d m) : MInv d (closeFrame d m) := by
  unfold closeFrame
  cases hfr : m.frames with
  | nil => simpa [hfr] using h
  | cons f rest =>
    obtain ⟨hgood, hclean, hlast, himp, hgd⟩ := h
    rw [hfr] at hgood hlast himp hgd
    have hlast' : ∀ g, rest.getLast? = some g → g.activated = true := by
      intro g hg
      cases rest with
      | nil => simp at hg
      | cons r rs => exact hlast g (by simpa [List.getLast?_cons_cons] using hg)
    have himp' : ∀ g ∈ rest, g.isTop = false → g.activated = true :=
      fun g hg => himp g (List.mem_cons_of_mem _ hg)
    have hgd' : d.sfsGuarded = true ∨ ∀ g ∈ rest, g.activated = true := by
      rcases hgd with hgd | hgd
      · exact Or.inl hgd
      · exact Or.inr (fun g hg => hgd g (List.mem_cons_of_mem _ hg))
    by_cases hact : f.activated = true
    · have hruns : (if f.isTop = true then (!d.sfsGuarded || f.activated) else f.activated) = true := by
        simp [hact]
      rw [actCount_cons, if_pos hact] at hgood
      obtain ⟨hok, hg', hcl⟩ := deactivate_good d m.st (actCount rest) hgood
      simp only [hruns, if_true]
      refine ⟨?_, ?_, hlast', himp', hgd'⟩
      · exact hg'
      · intro hr
        simp only at hr
        subst hr
        exact hcl (by simp [actCount]) hm2
    · have hact' : f.activated = false := by simpa using hact
      have htop : f.isTop = true := by
        by_cases ht : f.isTop = true
        · exact ht
        · have := himp f (List.mem_cons_self) (by simpa using ht)
          rw [hact'] at this; cases this
      have hguard : d.sfsGuarded = true := by
        rcases hgd with hgd | hgd
        · exact hgd
        · have := hgd f (List.mem_cons_self)
          rw [hact'] at this; cases this
      have hruns : (if f.isTop = true then (!d.sfsGuarded || f.activated) else f.activated) = false := by
        simp [htop, hguard, hact']
      rw [actCount_cons, if_neg hact] at hgood
      simp only [hruns, Bool.false_eq_true, if_false]
      refine ⟨hgood, ?_, hlast', himp', hgd'⟩
      intro hr
      simp only at hr
      subst hr
      have := hlast f (by simp)
      rw [hact'] at this; cases this

/-- a token is admissible when the `finally` is guarded or it is not a nested top-level call with failing asserts -/
def tokOK (d : Data) : Tok → Prop
  | .openTop o _ => d.sfsGuarded = true ∨ (o.overrides = false ∧ o.mode2D = false)
  | _ => True

theorem push_inv (d : Data) (m : M) (h : MInv d m) (hne : m.frames ≠ []) (st' : St) (f : Frame) (exc : Bool) (sk : Nat)
    (hg : Good d st' (actCount (f :: m.frames)))
    (hf : f.isTop = false → f.activated = true)
    (hgd : d.sfsGuarded = true ∨ f.activated = true) :
    MInv d { m with st := st', frames := f :: m.frames, exc := exc, skip := sk } := by
  obtain ⟨_, _, hlast, himp, hgd0⟩ := h
  refine ⟨hg, ?_, ?_, ?_, ?_⟩
  · intro hc; simp at hc
  · intro g hgl
    cases hfr : m.frames with
    | nil => exact absurd hfr hne
    | cons r rs =>
      simp only [hfr, List.getLast?_cons_cons] at hgl
      exact hlast g (by simpa [hfr] using hgl)
  · intro g hgm
    simp only [List.mem_cons] at hgm
    rcases hgm with rfl | hgm
    · exact hf
    · exact himp g hgm
  · rcases hgd with hgd | hgd
    · exact Or.inl hgd
    · rcases hgd0 with hgd0 | hgd0
      · exact Or.inl hgd0
      · right
        intro g hgm
        simp only [List.mem_cons] at hgm
        rcases hgm with rfl | hgm
        · exact hgd
        · exact hgd0 g hgm

theorem stepExc_inv (d : Data) (hm2 : d.mode2DReset = true) (m : M) (t : Tok) (h : MInv d m) :
    MInv d (stepExc d m t) := by
  cases t with
  | openImp => exact ⟨h.good, h.clean, h.last, h.imp, h.gd⟩
  | openTop o c => exact ⟨h.good, h.clean, h.last, h.imp, h.gd⟩
  | close =>
    simp only [stepExc]
    by_cases hs : m.skip > 0
    · simp only [hs, if_true]; exact ⟨h.good, h.clean, h.last, h.imp, h.gd⟩
    · simp only [hs, if_false]; exact closeFrame_inv d hm2 m h
  | write g => exact h
  | probe => exact h
  | fail => exact h

theorem stepRun_inv (d : Data) (hm2 : d.mode2DReset = true) (m : M) (t : Tok) (h : MInv d m) (hne : m.frames ≠ [])
    (ht : tokOK d t) : MInv d (stepRun d m t) := by
  cases t with
  | write g =>
    simp only [stepRun]
    by_cases hc : d.compileWrites.contains g = true
    · simp only [hc, if_true]
      refine ⟨⟨h.good.act, h.good.stk, ?_⟩, ?_, h.last, h.imp, h.gd⟩
      · intro x hxm
        simp only [List.mem_cons] at hxm
        rcases hxm with rfl | hxm
        · exact mem_allWrites_compile (by simpa using hc)
        · exact h.good.dirt x hxm
      · intro hc2; exact absurd hc2 hne
    · simp only [hc, Bool.false_eq_true, if_false]; exact h
  | probe => exact ⟨h.good, h.clean, h.last, h.imp, h.gd⟩
  | fail => exact ⟨h.good, h.clean, h.last, h.imp, h.gd⟩
  | close => exact closeFrame_inv d hm2 m h
  | openImp =>
    simp only [stepRun]
    have hok := activate_plain_ok d m.st
    rcases activate_cases d Opts.plain m.st _ h.good with ⟨_, hg⟩ | ⟨hf, _⟩
    · simp only [hok, if_true]
      exact push_inv d m h hne (activate d Opts.plain m.st).1 ⟨false, false, true⟩ m.exc m.skip
        (by rw [actCount_cons]; simpa using hg) (by simp) (Or.inr rfl)
    · rw [hok] at hf; cases hf
  | openTop o c =>
    simp only [stepRun, openTop]
    rcases activate_cases d o m.st _ h.good with ⟨hok, hg⟩ | ⟨hf, hg, _, ho⟩
    · simp only [hok]
      exact push_inv d m h hne (activate d o m.st).1 ⟨true, c, true⟩ (!true) m.skip
        (by rw [actCount_cons]; simpa using hg) (by simp) (Or.inr rfl)
    · simp only [hf]
      have hguard : d.sfsGuarded = true := by
        rcases ht with ht | ⟨h1, h2⟩
        · exact ht
        · rcases ho with ho | ho
          · rw [h1] at ho; cases ho
          · rw [h2] at ho; cases ho
      exact push_inv d m h hne (activate d o m.st).1 ⟨true, c, false⟩ (!false) m.skip
        (by rw [actCount_cons]; simpa using hg) (by simp) (Or.inl hguard)

theorem step_inv (d : Data) (hm2 : d.mode2DReset = true) (m : M) (t : Tok) (h : MInv d m) (ht : tokOK d t) :
    MInv d (step d m t) := by
  unfold step
  by_cases he : m.frames.isEmpty = true
  · simp only [he, if_true]; exact h
  · simp only [he, Bool.false_eq_true, if_false]
    have hne : m.frames ≠ [] := by
      intro hc; simp [hc] at he
    by_cases hx : m.exc = true
    · simp only [hx, if_true]; exact stepExc_inv d hm2 m t h
    · simp only [hx, Bool.false_eq_true, if_false]; exact stepRun_inv d hm2 m t h hne ht

def allOK (d : Data) (ts : List Tok) : Prop := ∀ t ∈ ts, tokOK d t

theorem runFrom_inv (d : Data) (hm2 : d.mode2DReset = true) (ts : List Tok) :
    ∀ m, MInv d m → allOK d ts → MInv d (runFrom d m ts) := by
  induction ts with
  | nil => intro m h _; exact h
  | cons t ts ih =>
    intro m h hok
    simp only [runFrom, List.foldl_cons]
    exact ih (step d m t) (step_inv d hm2 m t h (hok t List.mem_cons_self))
      (fun t' ht' => hok t' (List.mem_cons_of_mem _ ht'))

theorem closeFrame_length (d : Data) (m : M) : (closeFrame d m).frames.length = m.frames.length - 1 := by
  unfold closeFrame
  split
  · next h => simp [h]
  · next f rest h => simp [h]

theorem finish_inv (d : Data) (hm2 : d.mode2DReset = true) :
    ∀ n m, MInv d m → m.frames.length ≤ n → MInv d (finish d n m) ∧ (finish d n m).frames = [] := by
  intro n
  induction n with
  | zero =>
    intro m h hl
    have hnil : m.frames = [] := List.length_eq_zero_iff.mp (by omega)
    simp only [finish]
    exact ⟨h, hnil⟩
  | succ n ih =>
    intro m h hl
    unfold finish
    split
    · next hnil => exact ⟨h, hnil⟩
    · next hne =>
      have h' : MInv d { m with skip := 0 } := ⟨h.good, h.clean, h.last, h.imp, h.gd⟩
      have hc := closeFrame_inv d hm2 _ h'
      have hlen := closeFrame_length d { m with skip := 0 }
      apply ih _ hc
      rw [hlen]
      simp only
      omega

theorem plainTops_allOK (d : Data) : ∀ ts, plainTops ts = true → allOK d ts := by
  intro ts
  induction ts with
  | nil => intro _ t ht; simp at ht
  | cons t ts ih =>
    intro h t' ht'
    simp only [List.mem_cons] at ht'
    cases t with
    | openTop o c =>
      simp only [plainTops, Bool.and_eq_true, Bool.not_eq_true'] at h
      rcases ht' with rfl | ht'
      · exact Or.inr ⟨h.1.1, h.1.2⟩
      · exact ih h.2 t' ht'
    | write g => rcases ht' with rfl | ht'; exact trivial; exact ih (by simpa [plainTops] using h) t' ht'
    | probe => rcases ht' with rfl | ht'; exact trivial; exact ih (by simpa [plainTops] using h) t' ht'
    | fail => rcases ht' with rfl | ht'; exact trivial; exact ih (by simpa [plainTops] using h) t' ht'
    | openImp => rcases ht' with rfl | ht'; exact trivial; exact ih (by simpa [plainTops] using h) t' ht'
    | close => rcases ht' with rfl | ht'; exact trivial; exact ih (by simpa [plainTops] using h) t' ht'

theorem guarded_allOK (d : Data) (hg : d.sfsGuarded = true) (ts : List Tok) : allOK d ts := by
  intro t _
  cases t <;> simp [tokOK, hg]

theorem init_inv (d : Data) (o : Opts) : MInv d (openTop d o false ⟨St.inactive, [], false, 0, []⟩) := by
  have hg0 : Good d St.inactive 0 := ⟨rfl, rfl, by intro g hg; simp [St.inactive] at hg⟩
  simp only [openTop]
  rcases activate_cases d o St.inactive 0 hg0 with ⟨hok, hg⟩ | ⟨_, _, hne, _⟩
  · simp only [hok]
    refine ⟨by simpa [actCount] using hg, by intro hc; simp at hc, ?_, ?_, Or.inr ?_⟩
    · intro f hf; simp at hf; rw [← hf]
    · intro f hf; simp at hf; rw [hf]; simp
    · intro f hf; simp at hf; rw [hf]
  · exact absurd rfl hne

/-- **State restoration, all scripts.**  After `scenarioFromString` on a program whose compilation performs any
sequence of events (nested imports and nested top-level calls of any depth, failures anywhere), the veneer is
inactive and every global still dirty is a leak of the data set. -/
theorem compile_restores_except_leaks (d : Data) (o : Opts) (ts : List Tok)
    (hm2 : d.mode2DReset = true) (hg : d.sfsGuarded = true ∨ plainTops ts = true) :
    (runTop d o ts).frames = [] ∧ (runTop d o ts).st.activity = 0 ∧ (runTop d o ts).st.stack = 0 ∧
    (runTop d o ts).st.mode2D = false ∧ ∀ g ∈ (runTop d o ts).st.dirty, g ∈ leaks d := by
  have hok : allOK d ts := by
    rcases hg with hg | hg
    · exact guarded_allOK d hg ts
    · exact plainTops_allOK d ts hg
  have h1 := runFrom_inv d hm2 ts _ (init_inv d o) hok
  obtain ⟨h2, h3⟩ := finish_inv d hm2 _ _ h1 (Nat.le_refl _)
  simp only [runTop]
  refine ⟨h3, ?_, ?_, (h2.clean h3).1, (h2.clean h3).2⟩
  · have := h2.good.act; rw [h3] at this; simpa [actCount] using this
  · have := h2.good.stk; rw [h3] at this; simpa [actCount] using this

/-- Full statement: with no leaks the state afterwards *is* the inactive state. -/
theorem compile_restores_inactive (d : Data) (o : Opts) (ts : List Tok)
    (hm2 : d.mode2DReset = true) (hl : leaks d = []) (hg : d.sfsGuarded = true ∨ plainTops ts = true) :
    (runTop d o ts).st = St.inactive := by
  obtain ⟨_, ha, hs, hm, hd⟩ := compile_restores_except_leaks d o ts hm2 hg
  have hd' : (runTop d o ts).st.dirty = [] := by
    apply List.eq_nil_iff_forall_not_mem.mpr
    intro g hgm
    have := hd g hgm
    rw [hl] at this; simp at this
  cases hst : (runTop d o ts).st with
  | mk a s m dd =>
    rw [hst] at ha hs hm hd'
    simp only at ha hs hm hd'
    simp [St.inactive, ha, hs, hm, hd']

/-- the guarded form needs no restriction on the script at all -/
theorem compile_restores_inactive_guarded (d : Data) (o : Opts) (ts : List Tok)
    (hm2 : d.mode2DReset = true) (hl : leaks d = []) (hg : d.sfsGuarded = true) :
    (runTop d o ts).st = St.inactive :=
  compile_restores_inactive d o ts hm2 hl (Or.inl hg)

/-- the script `scenarioFromString("… scenarioFromString(inner, params=…) …")` -/
def witnessScript : List Tok := [Tok.openTop ⟨true, false⟩ false, Tok.close]

/-- **Negation witness.**  If the `finally` of `_scenarioFromStream` deactivates unconditionally, a nested
top-level call with parameter overrides (whose activation assertion fails) leaves `activity = -1`. -/
theorem unguarded_witness (d : Data) (hg : d.sfsGuarded = false) :
    (runTop d Opts.plain witnessScript).st.activity = -1 := by
  cases d with
  | mk n ow mw aa cw ra rz mi mr sg =>
    simp only at hg
    subst hg
    rfl

/-- **Each leak is real**: a compile-time write to a global that no `deactivate` resets survives compilation. -/
theorem leak_witness (d : Data) (g : Nat) (hw : d.compileWrites.contains g = true)
    (h1 : d.resetAlways.contains g = false) (h2 : d.resetAtZero.contains g = false) :
    g ∈ (runTop d Opts.plain [Tok.write g]).st.dirty := by
  have ea : activate d Opts.plain St.inactive = ((⟨1, 1, false, d.activateAlways ++ [] ++ [] ++ []⟩ : St), true) := rfl
  have e : (runTop d Opts.plain [Tok.write g]).st.dirty =
      unreset d.resetAtZero (unreset d.resetAlways (g :: (d.activateAlways ++ [] ++ [] ++ []))) := by
    simp only [runTop, runFrom, List.foldl, step, stepRun, openTop, ea, hw, if_true, List.isEmpty_cons,
      Bool.false_eq_true, if_false, Bool.not_true, List.length_cons, List.length_nil, finish, closeFrame]
    simp [deactivate]
  rw [e]
  have h1' : ¬ g ∈ d.resetAlways := by simpa using h1
  have h2' : ¬ g ∈ d.resetAtZero := by simpa using h2
  simp [unreset, h1', h2']

-- the hypotheses are satisfiable by a concrete non-trivial data set and script
example : (runTop ⟨3, [0], [1], [2], [0], [], [0, 1, 2], 1, true, true⟩ ⟨true, true⟩
    [Tok.write 0, Tok.openImp, Tok.probe, Tok.openTop ⟨true, false⟩ true, Tok.close, Tok.fail, Tok.close, Tok.write 0]).st
    = St.inactive := by decide
example : leaks ⟨3, [0], [1], [2], [0], [], [0, 1, 2], 1, true, true⟩ = [] := by decide
example : (runTop ⟨3, [0], [1], [2], [0], [], [0, 1, 2], 1, true, false⟩ Opts.plain witnessScript).st.activity = -1 := by decide

end Scenic.FrontState
