import ScenicModel.Lemmas.Frames
/-!
# C07 (part 4) — scalar operators and `apparently facing`

`distance from`, `angle from … to`, `altitude from … to`, `relative heading of`,
`apparent heading of`, `distance past`, and the `apparently facing H [from P]` specifier.

`atan2` / `hypot` are not computable in a field: a heading is carried as its `(cos, sin)` pair and
the square roots `h = hypot(dx, dy)`, `rho = hypot(dx, dy, dz)` enter as *witnesses* with the defining
equation as a hypothesis (`h * h = dx*dx + dy*dy`, `h ≥ 0`), so each theorem characterises the
returned angle completely.
-/
namespace Scenic.C07
open Scenic.Frames

section
variable {α : Type} [Field α]

/-! ## `distance from X to Y` (`vectors.py:515`) -/

/-- the (squared) distance is symmetric, and zero from a point to itself -/
theorem distance_symm (a b : Vec3 α) : distSq a b = distSq b a ∧ distSq a a = 0 := by
  constructor <;> unfold_frames <;> ring

/-- the distance is invariant under a common rigid motion of both points -/
theorem distance_rigid (g : Mat3 α) (hg : g.IsRot) (t a b : Vec3 α) :
    distSq ((g.mulVec a).add t) ((g.mulVec b).add t) = distSq a b := by
  have h : ((g.mulVec b).add t).sub ((g.mulVec a).add t) = g.mulVec (b.sub a) := by frames_ring
  simp only [distSq, Vec3.normSq, h, hg.dot_mulVec_mulVec]
example : (rotZ (⟨3/5, 4/5⟩ : Ang Rat)).IsRot := isRot_rotZ (by unfold Ang.Unit; norm_num)

/-- it is the sum of the squared coordinate differences (so `distance` is the Euclidean one, in 3-D) -/
theorem distance_formula (a b : Vec3 α) :
    distSq a b = (b.x - a.x) * (b.x - a.x) + (b.y - a.y) * (b.y - a.y) + (b.z - a.z) * (b.z - a.z) := by
  unfold_frames

/-! ## `angle from X to Y` (azimuth) and `altitude from X to Y` (`vectors.py:522-533`) -/

variable [DecidableEq α]

/-- **azimuth**: the horizontal part of the displacement from `X` to `Y` is `h` times the forward axis
    of heading `angle from X to Y`; with the convention of `heading_convention` this is the stated
    "heading to Y" (0 = due North = +Y, counter-clockwise positive) -/
theorem angle_spec (a b : Vec3 α) (h : α) (hh : h ≠ 0) :
    ((rotZ (azimuthTo a b h)).mulVec Vec3.ey).smul h = ⟨b.x - a.x, b.y - a.y, 0⟩ := by
  simp only [azimuthTo_eq, azimuthOf_eq, if_neg hh]
  ext <;> unfold_frames <;> field_simp <;> ring

/-- `angle from X to Y` is zero exactly when `Y` is due North of `X` (doc example) -/
theorem angle_zero_iff_north (a b : Vec3 α) (h : α) (hh : h ≠ 0) :
    azimuthTo a b h = Ang.zero ↔ (b.x = a.x ∧ b.y - a.y = h) := by
  simp only [azimuthTo_eq, azimuthOf_eq, if_neg hh, Ang.zero]
  constructor
  · intro e
    have h1 := congrArg Ang.c e
    have h2 := congrArg Ang.s e
    simp only [Vec3.sub] at h1 h2
    rw [div_eq_iff hh] at h1 h2
    constructor
    · have : b.x - a.x = 0 := by linear_combination -h2
      exact sub_eq_zero.mp this
    · linear_combination h1
  · rintro ⟨e1, e2⟩
    ext <;> simp only [Vec3.sub]
    · rw [e2, div_self hh]
    · rw [e1, sub_self, neg_zero, zero_div]

/-- **altitude**: `(cos, sin) = (h / rho, dz / rho)`: the elevation of the displacement above the
    horizontal plane -/
theorem altitude_spec (a b : Vec3 α) (h rho : α) (hr : rho ≠ 0) :
    (altitudeTo a b h rho).c * rho = h ∧ (altitudeTo a b h rho).s * rho = b.z - a.z := by
  simp only [altitudeTo_eq, altitudeOf_eq, if_neg hr, Vec3.sub]
  constructor <;> field_simp

/-- a point directly above has altitude `+90°` (`(cos, sin) = (0, 1)`): NB the reference manual says
    "π" in its example; the code (and geometry) give `π/2` -/
theorem altitude_directly_above (a b : Vec3 α) (rho : α) (hr : rho ≠ 0) (hz : b.z - a.z = rho) :
    altitudeTo a b 0 rho = ⟨0, 1⟩ := by
  simp only [altitudeTo_eq, altitudeOf_eq, if_neg hr, Vec3.sub, hz, zero_div, div_self hr]

/-! ## `relative heading of X from Y`, `apparent heading of P from Q`, `distance past` -/

omit [DecidableEq α] in
/-- `relative heading of X from Y` is the angle that, added to `Y`'s heading, gives `X`'s:
    rotating by `Y` and then by the relative heading is rotating by `X` -/
theorem relative_heading_spec (x y : Ang α) (hy : y.Unit) :
    (rotZ y).mul (rotZ (relativeHeading x y)) = rotZ x ∧ (relativeHeading x y).add y = x := by
  have h2 : (relativeHeading x y).add y = x := Ang.sub_add_cancel' hy
  refine ⟨?_, h2⟩
  rw [← rotZ_add, Ang.add_comm', h2]

/-- `apparent heading of P from Q` = (heading of `P`) − (azimuth from `Q` to `P`): the heading of `P`
    relative to the line of sight from `Q` -/
theorem apparent_heading_spec (point : Vec3 α) (heading : Ang α) (base : Vec3 α) (h : α) (hh : h ≠ 0) :
    apparentHeading point heading base h = heading.sub (azimuthTo base point h) := by
  simp only [apparentHeading_eq, azimuthTo_eq, azimuthOf_eq, if_neg hh, Vec3.sub]
  ext <;> unfold_frames <;> ring

omit [DecidableEq α] in
/-- `distance past V of P` is the component of `P.position − V` along `P`'s heading direction -/
theorem distance_past_spec (pos : Vec3 α) (heading : Ang α) (v : Vec3 α) :
    distancePast pos heading v = (pos.sub v).dot ((rotZ heading).mulVec Vec3.ey) := by
  simp only [distancePast]; unfold_frames; ring

omit [DecidableEq α] in
/-- the global heading (`Orientation.yaw`) of a pure heading rotation is that heading -/
theorem yaw_of_heading (a : Ang α) : yawOf (rotZ a) 1 = a := by
  ext <;> simp only [yawOf, rotZ] <;> ring

/-! ## `apparently facing H [from P]` (`veneer.py ApparentlyFacing`) -/

/-- With a **global parent orientation** the specifier does what the reference says: the new object's
    heading relative to the line of sight from `P` is `H`
    (`apparent heading of <new object> from P = H`). -/
theorem apparently_facing_global_parent (position fromPt : Vec3 α) (hd : Ang α)
    (h : α) (hh : h ≠ 0)
    (hw : h * h = (position.sub fromPt).x * (position.sub fromPt).x + (position.sub fromPt).y * (position.sub fromPt).y) :
    let yaw := apparentlyFacingYaw Mat3.one position fromPt hd h
    -- parent = identity and pitch = roll = 0: the global heading is the yaw
    apparentHeading position yaw fromPt h = hd := by
  intro yaw
  have hy : yaw = (azimuthTo fromPt position h).add hd := by
    simp only [yaw, apparentlyFacingYaw, azimuthTo_eq, Mat3.transpose_one, Mat3.one_mulVec]
  have hunit : (azimuthTo fromPt position h).Unit := by
    simp only [azimuthTo_eq, azimuthOf_eq, if_neg hh, Ang.Unit]
    field_simp; linear_combination -hw
  rw [apparent_heading_spec _ _ _ _ hh, hy, Ang.add_comm', Ang.sub, Ang.add_assoc', Ang.add_neg_cancel hunit,
    Ang.add_zero']

/-- With a **yaw-only parent orientation** `rotZ a` the same holds: the yaw is relative to the parent, the
    global heading is `a + yaw`, and it has apparent heading `H` from `P` — whatever `a`. -/
theorem apparently_facing_parent_frame (a : Ang α) (ha : a.Unit) (position fromPt : Vec3 α) (hd : Ang α)
    (h : α) (hh : h ≠ 0)
    (hw : h * h = (position.sub fromPt).x * (position.sub fromPt).x + (position.sub fromPt).y * (position.sub fromPt).y) :
    let yaw := apparentlyFacingYaw (rotZ a) position fromPt hd h
    apparentHeading position (a.add yaw) fromPt h = hd := by
  intro yaw
  unfold Ang.Unit at ha
  have hw' : (position.x - fromPt.x) * (position.x - fromPt.x) + (position.y - fromPt.y) * (position.y - fromPt.y)
      = h * h := by rw [hw]; simp only [Vec3.sub]
  simp only [yaw, apparentlyFacingYaw, apparentHeading_eq, azimuthOf_eq, if_neg hh]
  ext <;> unfold_frames <;> field_simp
  · linear_combination (hd.c * h * h) * ha + (hd.c * (a.c * a.c + a.s * a.s)) * hw'
  · linear_combination (hd.s * h * h) * ha + (hd.s * (a.c * a.c + a.s * a.s)) * hw'
example : (⟨3/5, 4/5⟩ : Ang Rat).Unit ∧ (5 : Rat) * 5 = 3 * 3 + 4 * 4 := by unfold Ang.Unit; norm_num

/-- the property "the object ends up with apparent heading `H` whatever the (yaw-only) parent
    orientation" -/
def ApparentlyFacingRespectsParent (α : Type) [Field α] [DecidableEq α] : Prop :=
  ∀ (a : Ang α), a.Unit → ∀ (position fromPt : Vec3 α) (hd : Ang α) (h : α), h ≠ 0 →
    h * h = (position.sub fromPt).x * (position.sub fromPt).x + (position.sub fromPt).y * (position.sub fromPt).y →
    apparentHeading position (a.add (apparentlyFacingYaw (rotZ a) position fromPt hd h)) fromPt h = hd

/-- **`apparently facing` takes the parent orientation into account** (for every field): full statement,
    no exception (the code at the earlier pinned commit ignored `parentOrientation` and violated it) -/
theorem apparently_facing_respects_parent : ApparentlyFacingRespectsParent α :=
  fun a ha position fromPt hd h hh hw => apparently_facing_parent_frame a ha position fromPt hd h hh hw

/-- **arbitrary parent orientation** `P` (any rotation, also pitched / rolled): with the specified yaw
    (pitch = roll = 0 in the parent frame) the object's forward axis, *expressed in the parent frame*, is the
    horizontal line of sight from `P` to the object turned by `H` about the parent's up axis —
    `h · (Pᵀ · forward) = rotZ(H) · (dir.x, dir.y, 0)` with `dir = Pᵀ (position − from)`. For `H = 0` this
    is `facing away from P`. -/
theorem apparently_facing_general (p : Mat3 α) (hp : p.IsRot) (position fromPt : Vec3 α) (hd : Ang α) (h : α) (hh : h ≠ 0) :
    let dir := p.transpose.mulVec (position.sub fromPt)
    let o := p.mul (euler (apparentlyFacingYaw p position fromPt hd h) Ang.zero Ang.zero)
    (p.transpose.mulVec (o.mulVec Vec3.ey)).smul h = (rotZ hd).mulVec ⟨dir.x, dir.y, 0⟩ := by
  intro dir o
  have h1 : p.transpose.mulVec (o.mulVec Vec3.ey) =
      (euler (apparentlyFacingYaw p position fromPt hd h) Ang.zero Ang.zero).mulVec Vec3.ey := by
    simp only [o, Mat3.mulVec_mul]; exact hp.transpose_mulVec_mulVec _
  rw [h1]
  simp only [dir, apparentlyFacingYaw, azimuthOf_eq, if_neg hh]
  ext <;> unfold_frames <;> field_simp <;> ring

end

end Scenic.C07
