import ScenicModel.Lemmas.Frames
/-!
# C07 (part 4) — scalar operators and `apparently facing`

`distance from`, `angle from … to`, `altitude from … to`, `relative heading of`,
`apparent heading of`, `distance past`, and the `apparently facing H [from P]` specifier.

`atan2` / `hypot` are not computable in a field: a heading is carried as its `(cos, sin)` pair and
the square roots `h = hypot(dx, dy)`, `rho = hypot(dx, dy, dz)` enter as *witnesses* with the defining
equation as a hypothesis (`h * h = dx*dx + dy*dy`, `h ≥ 0`), so each theorem characterises the
returned angle completely.
-/
namespace Scenic.C07
open Scenic.Frames

section
variable {α : Type} [Field α]

/-! ## `distance from X to Y` (`vectors.py:515`) -/

/-- the (squared) distance is symmetric, and zero from a point to itself -/
theorem distance_symm (a b : Vec3 α) : distSq a b = distSq b a ∧ distSq a a = 0 := by
  constructor <;> unfold_frames <;> ring

/-- the distance is invariant under a common rigid motion of both points -/
theorem distance_rigid (g : Mat3 α) (hg : g.IsRot) (t a b : Vec3 α) :
    distSq ((g.mulVec a).add t) ((g.mulVec b).add t) = distSq a b := by
  have h : ((g.mulVec b).add t).sub ((g.mulVec a).add t) = g.mulVec (b.sub a) := by frames_ring
  simp only [distSq, Vec3.normSq, h, hg.dot_mulVec_mulVec]
example : (rotZ (⟨3/5, 4/5⟩ : Ang Rat)).IsRot := isRot_rotZ (by unfold Ang.Unit; norm_num)

/-- it is the sum of the squared coordinate differences (so `distance` is the Euclidean one, in 3-D) -/
theorem distance_formula (a b : Vec3 α) :
    distSq a b = (b.x - a.x) * (b.x - a.x) + (b.y - a.y) * (b.y - a.y) + (b.z - a.z) * (b.z - a.z) := by
  unfold_frames

/-! ## `angle from X to Y` (azimuth) and `altitude from X to Y` (`vectors.py:522-533`) -/

variable [DecidableEq α]

/-- **azimuth**: the horizontal part of the displacement from `X` to `Y` is `h` times the forward axis
    of heading `angle from X to Y`; with the convention of `heading_convention` this is the stated
    "heading to Y" (0 = due North = +Y, counter-clockwise positive) -/
theorem angle_spec (a b : Vec3 α) (h : α) (hh : h ≠ 0) :
    ((rotZ (azimuthTo a b h)).mulVec Vec3.ey).smul h = ⟨b.x - a.x, b.y - a.y, 0⟩ := by
  simp only [azimuthTo, azimuthOf, if_neg hh]
  ext <;> unfold_frames <;> field_simp <;> ring

/-- `angle from X to Y` is zero exactly when `Y` is due North of `X` (doc example) -/
theorem angle_zero_iff_north (a b : Vec3 α) (h : α) (hh : h ≠ 0) :
    azimuthTo a b h = Ang.zero ↔ (b.x = a.x ∧ b.y - a.y = h) := by
  simp only [azimuthTo, azimuthOf, if_neg hh, Ang.zero]
  constructor
  · intro e
    have h1 := congrArg Ang.c e
    have h2 := congrArg Ang.s e
    simp only [Vec3.sub] at h1 h2
    rw [div_eq_iff hh] at h1 h2
    constructor
    · have : b.x - a.x = 0 := by linear_combination -h2
      exact sub_eq_zero.mp this
    · linear_combination h1
  · rintro ⟨e1, e2⟩
    ext <;> simp only [Vec3.sub]
    · rw [e2, div_self hh]
    · rw [e1, sub_self, neg_zero, zero_div]

/-- **altitude**: `(cos, sin) = (h / rho, dz / rho)`: the elevation of the displacement above the
    horizontal plane -/
theorem altitude_spec (a b : Vec3 α) (h rho : α) (hr : rho ≠ 0) :
    (altitudeTo a b h rho).c * rho = h ∧ (altitudeTo a b h rho).s * rho = b.z - a.z := by
  simp only [altitudeTo, altitudeOf, if_neg hr, Vec3.sub]
  constructor <;> field_simp

/-- a point directly above has altitude `+90°` (`(cos, sin) = (0, 1)`): NB the reference manual says
    "π" in its example; the code (and geometry) give `π/2` -/
theorem altitude_directly_above (a b : Vec3 α) (rho : α) (hr : rho ≠ 0) (hz : b.z - a.z = rho) :
    altitudeTo a b 0 rho = ⟨0, 1⟩ := by
  simp only [altitudeTo, altitudeOf, if_neg hr, Vec3.sub, hz, zero_div, div_self hr]

/-! ## `relative heading of X from Y`, `apparent heading of P from Q`, `distance past` -/

omit [DecidableEq α] in
/-- `relative heading of X from Y` is the angle that, added to `Y`'s heading, gives `X`'s:
    rotating by `Y` and then by the relative heading is rotating by `X` -/
theorem relative_heading_spec (x y : Ang α) (hy : y.Unit) :
    (rotZ y).mul (rotZ (relativeHeading x y)) = rotZ x ∧ (relativeHeading x y).add y = x := by
  have h2 : (relativeHeading x y).add y = x := Ang.sub_add_cancel' hy
  refine ⟨?_, h2⟩
  rw [← rotZ_add, Ang.add_comm', h2]

/-- `apparent heading of P from Q` = (heading of `P`) − (azimuth from `Q` to `P`): the heading of `P`
    relative to the line of sight from `Q` -/
theorem apparent_heading_spec (point : Vec3 α) (heading : Ang α) (base : Vec3 α) (h : α) (hh : h ≠ 0) :
    apparentHeading point heading base h = heading.sub (azimuthTo base point h) := by
  simp only [apparentHeading, azimuthTo, azimuthOf, if_neg hh, Vec3.sub]
  ext <;> unfold_frames <;> ring

omit [DecidableEq α] in
/-- `distance past V of P` is the component of `P.position − V` along `P`'s heading direction -/
theorem distance_past_spec (pos : Vec3 α) (heading : Ang α) (v : Vec3 α) :
    distancePast pos heading v = (pos.sub v).dot ((rotZ heading).mulVec Vec3.ey) := by
  simp only [distancePast]; unfold_frames; ring

omit [DecidableEq α] in
/-- the global heading (`Orientation.yaw`) of a pure heading rotation is that heading -/
theorem yaw_of_heading (a : Ang α) : yawOf (rotZ a) 1 = a := by
  ext <;> simp only [yawOf, rotZ] <;> ring

/-! ## `apparently facing H [from P]` (`veneer.py:2140-2161`) -/

/-- With a **global parent orientation** the specifier does what the reference says: the new object's
    heading relative to the line of sight from `P` is `H`
    (`apparent heading of <new object> from P = H`). Holds for either shape of the helper. -/
theorem apparently_facing_global_parent (usesParent : Bool) (position fromPt : Vec3 α) (hd : Ang α)
    (h : α) (hh : h ≠ 0)
    (hw : h * h = (position.sub fromPt).x * (position.sub fromPt).x + (position.sub fromPt).y * (position.sub fromPt).y) :
    let yaw := apparentlyFacingYaw usesParent Mat3.one position fromPt hd h
    -- parent = identity and pitch = roll = 0: the global heading is the yaw
    apparentHeading position yaw fromPt h = hd := by
  intro yaw
  have hy : yaw = (azimuthTo fromPt position h).add hd := by
    cases usesParent
    · rfl
    · simp only [yaw, apparentlyFacingYaw, if_true, azimuthTo, Mat3.transpose_one, Mat3.one_mulVec]
  have hunit : (azimuthTo fromPt position h).Unit := by
    simp only [azimuthTo, azimuthOf, if_neg hh, Ang.Unit]
    field_simp; linear_combination -hw
  rw [apparent_heading_spec _ _ _ _ hh, hy, Ang.add_comm', Ang.sub, Ang.add_assoc', Ang.add_neg_cancel hunit,
    Ang.add_zero']

/-- With a **yaw-only parent orientation** `rotZ a` and the helper working in the parent frame
    (`usesParent = true`, the repaired code) the same holds: the global heading `a + yaw` has apparent
    heading `H`. -/
theorem apparently_facing_parent_frame (a : Ang α) (ha : a.Unit) (position fromPt : Vec3 α) (hd : Ang α)
    (h : α) (hh : h ≠ 0)
    (hw : h * h = (position.sub fromPt).x * (position.sub fromPt).x + (position.sub fromPt).y * (position.sub fromPt).y) :
    let yaw := apparentlyFacingYaw true (rotZ a) position fromPt hd h
    apparentHeading position (a.add yaw) fromPt h = hd := by
  intro yaw
  unfold Ang.Unit at ha
  have hw' : (position.x - fromPt.x) * (position.x - fromPt.x) + (position.y - fromPt.y) * (position.y - fromPt.y)
      = h * h := by rw [hw]; simp only [Vec3.sub]
  simp only [yaw, apparentlyFacingYaw, if_true, apparentHeading, azimuthOf, if_neg hh]
  ext <;> unfold_frames <;> field_simp
  · linear_combination (hd.c * h * h) * ha + (hd.c * (a.c * a.c + a.s * a.s)) * hw'
  · linear_combination (hd.s * h * h) * ha + (hd.s * (a.c * a.c + a.s * a.s)) * hw'

/-- the property "the object ends up with apparent heading `H` whatever the (yaw-only) parent
    orientation", as a predicate on the helper's shape -/
def ApparentlyFacingRespectsParent (α : Type) [Field α] [DecidableEq α] (usesParent : Bool) : Prop :=
  ∀ (a : Ang α), a.Unit → ∀ (position fromPt : Vec3 α) (hd : Ang α) (h : α), h ≠ 0 →
    h * h = (position.sub fromPt).x * (position.sub fromPt).x + (position.sub fromPt).y * (position.sub fromPt).y →
    apparentHeading position (a.add (apparentlyFacingYaw usesParent (rotZ a) position fromPt hd h)) fromPt h = hd

/-- the repaired helper satisfies it (for every field) -/
theorem apparently_facing_respects_parent : ApparentlyFacingRespectsParent α true :=
  fun a ha position fromPt hd h hh hw => apparently_facing_parent_frame a ha position fromPt hd h hh hw

end

/-- **negation witness** (`§2.3`): a helper that ignores `parentOrientation` (the code at the pinned
    commit) violates the statement: parent yaw 90°, object due North of the viewpoint, `H = 0`
    gives apparent heading 90°, not 0. -/
theorem apparently_facing_ignoring_parent_witness : ¬ ApparentlyFacingRespectsParent Rat false := by
  intro hall
  have := hall ⟨0, 1⟩ (by unfold Ang.Unit; norm_num) ⟨0, 1, 0⟩ ⟨0, 0, 0⟩ Ang.zero 1 (by norm_num)
    (by simp only [Vec3.sub]; norm_num)
  have hc := congrArg Ang.c this
  simp only [apparentlyFacingYaw, apparentHeading, azimuthTo, azimuthOf, Vec3.sub, Ang.add, Ang.zero] at hc
  norm_num at hc

end Scenic.C07
