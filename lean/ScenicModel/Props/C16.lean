import ScenicModel.Props.C16Sem
import ScenicModel.Props.C16Points
import ScenicModel.Props.C16Metric
import ScenicModel.Gen.RegionOps

/-!
# C16 — region operations obey set semantics in 3-D: property theorems on the data regenerated from /repo

`Scenic.Gen.RegionOps.table` (the `isinstance` chains of every class's `intersect / union / difference /
intersects`) and `Scenic.Gen.RegionOps.flags` (which height each point predicate / constructor uses) are
rewritten from `src/scenic/core/regions.py` by `tools/translate/regionops.py` on every check run.  The
`gen_*` theorems are side conditions on that data, re-decided by the kernel on every run over the whole
finite control abstraction (every ordered pair of kinds × lazy/eager × height relation); the other
theorems combine them with the general theorems of `C16Sem` / `C16Points` / `C16Metric`.

Statement wanted by the property, kept visible:

    ∀ A B p,  (A.intersect B).mem p = (A.mem p ∧ B.mem p),   (A.union B).mem p = (A.mem p ∨ B.mem p),
              (A.difference B).mem p = (A.mem p ∧ ¬ B.mem p),  A.intersects B ↔ ∃ p, A.mem p ∧ B.mem p

It does **not** hold of the code at the pinned commit (see `knownFamily`, `knownIsectFamily`, `loopy` and the witness
theorems of `C16Sem` / `C16Points`); what is proved is the statement outside those families, and the check
replays a concrete failing input of each family on the real code (known findings).
-/
namespace Scenic.C16
open Scenic.Region Scenic.Gen.RegionOps

def bools : List Bool := [false, true]

/-- every control state -/
def allCtl : List Ctl :=
  Kind.list.flatMap fun ka => Kind.list.flatMap fun kb => bools.flatMap fun la => bools.flatMap fun lb =>
    bools.flatMap fun zne => bools.flatMap fun ea => bools.map fun eb => ⟨ka, kb, la, lb, zne, ea, eb⟩

theorem mem_kinds (k : Kind) : k ∈ Kind.list := by cases k <;> simp [Kind.list]
theorem mem_bools (b : Bool) : b ∈ bools := by cases b <;> simp [bools]

theorem mem_allCtl (c : Ctl) : c ∈ allCtl := by
  obtain ⟨ka, kb, la, lb, zne, ea, eb⟩ := c
  simp only [allCtl, List.mem_flatMap, List.mem_map]
  exact ⟨ka, mem_kinds ka, kb, mem_kinds kb, la, mem_bools la, lb, mem_bools lb, zne, mem_bools zne, ea, mem_bools ea,
    eb, mem_bools eb, rfl⟩

/-- control states that two regions can produce: heights only exist on planar operands -/
def consistent (c : Ctl) : Bool :=
  (!c.zne || (planarK c.ka && planarK c.kb)) && (!c.ea || planarK c.ka) && (!c.eb || planarK c.kb)

theorem z_none_of_not_planar (A : Reg) (h : planarK A.kind = false) : A.z? = none := by
  induction A with
  | lzy r ih => exact ih (by simpa [Reg.kind] using h)
  | planar => simp [Reg.kind, planarK, Kind.isa] at h
  | disc => simp [Reg.kind, planarK, Kind.isa, Kind.parent] at h
  | _ => rfl

theorem ctlOf_consistent (A B : Reg) : consistent (ctlOf A B) = true := by
  simp only [consistent, ctl_ka, ctl_kb, Bool.and_eq_true, Bool.or_eq_true, Bool.not_eq_true']
  refine ⟨⟨?_, ?_⟩, ?_⟩
  · by_cases ha : planarK A.kind = true
    · by_cases hb : planarK B.kind = true
      · exact Or.inr ⟨ha, hb⟩
      · left; simp [ctlOf, z_none_of_not_planar B (by simpa using hb)]
    · left; simp [ctlOf, z_none_of_not_planar A (by simpa using ha)]
  · by_cases ha : planarK A.kind = true
    · exact Or.inr ha
    · left; simp [ctlOf, z_none_of_not_planar A (by simpa using ha), elevated]
  · by_cases hb : planarK B.kind = true
    · exact Or.inr hb
    · left; simp [ctlOf, z_none_of_not_planar B (by simpa using hb), elevated]

/-- the control states two regions can produce (what the kernel evaluates the side conditions on) -/
def goodCtl : List Ctl := allCtl.filter consistent

theorem mem_goodCtl (A B : Reg) : ctlOf A B ∈ goodCtl :=
  List.mem_filter.mpr ⟨mem_allCtl _, ctlOf_consistent A B⟩

/-- the route ends in a handler or a composite (no `None` result, no unbounded recursion) -/
def finished : Route → Bool
  | .run _ => true
  | .compose => true
  | .swap r => finished r
  | .lift _ r => finished r
  | .viaIntersect r => finished r
  | .crash => false
  | .fuel => false

/-- **finding `crash:union:lazy:poly-poly:RecursionError`**: `PolygonalRegion.union` defers lazy operands with
    `super().union(other)`, dropping `triedReversed`; two polygonal operands then bounce forever.  The family is
    read off the regenerated table: it is empty as soon as the clause passes the flag on. -/
def loopy (T : Table) (op : Op) (c : Ctl) : Bool :=
  op == .union && planarK c.ka && planarK c.kb && (c.la || c.lb) &&
    (match T.cls .poly .union with
     | some cs => cs.any (fun cl => cl.guards == [.lzy] && cl.act == .superFresh)
     | none => false)

/-- families of control states in which the pinned code does not obey set semantics (known findings) -/
def knownFamily (op : Op) (c : Ctl) : Bool :=
  -- a polygon at height ≠ 0 against a polyline (which lives at height 0), in either order
  ((op == .intersect || op == .difference) &&
        ((planarK c.ka && c.kb == .line && c.ea) || (c.ka == .line && planarK c.kb && c.eb)))
  -- a polygon minus a curve is returned unchanged (not representable; by design)
  || (op == .difference && planarK c.ka && c.kb == .line)
  -- unions of a polygon with a polyline or a footprint collapse to a polygon at the polygon's height
  || (op == .union && ((planarK c.ka && (c.kb == .line || c.kb == .foot)) || (planarK c.kb && (c.ka == .line || c.ka == .foot))))

/-- the control states of the known families whose route on the *current* table is indeed not accepted
    (empty for a family once the code is repaired) -/
def knownDefect (T : Table) (F : Flags) (op : Op) (c : Ctl) : Bool :=
  loopy T op c || (knownFamily op c && !routeOK F op c (routeOf T fuelBound op c))

/-- families in which `intersects` does not decide "share a point" at the pinned commit (known findings) -/
def knownIsectFamily (c : Ctl) : Bool :=
  (planarK c.ka && c.kb == .line && c.ea) || (c.ka == .line && planarK c.kb && c.eb)      -- height of the polygon ignored
  || (c.ka == .disc && c.kb == .disc && c.zne)                                         -- CircularRegion override skips the height test
  -- `PointSetRegion.intersects` asks `containsPoint`, which has footprint semantics for polygons and composites
  || (c.ka == .pts && (c.kb == .poly || c.kb == .comp)) || (c.kb == .pts && (c.ka == .poly || c.ka == .comp))

/-- the control states of the known `intersects` families whose route on the current table is indeed not accepted -/
def knownIsectDefect (T : Table) (F : Flags) (c : Ctl) : Bool :=
  knownIsectFamily c && !isectRouteOK' F c (routeOf T fuelBound .intersects c)

/-! ## side conditions on the regenerated data (re-decided on every run) -/

/-- the heights used by the point predicates are the ones the property needs -/
theorem gen_flags_ok :
    flags.pointsOK ∧ flags.fromShapelyPassesZ = true ∧ flags.polyDistZ = .selfZ ∧ flags.discDistPlane = .selfZ ∧
    flags.polyAABBZ = .selfZ ∧ flags.discAABBZ = .selfZ ∧ flags.projectAxis1 = true := by
  unfold Flags.pointsOK; decide

/-- every ordered pair of kinds, lazy or eager, at equal or different heights, reaches a handler or a
    composite within the fuel bound, for all four operations (outside the `loopy` family) -/
theorem gen_routes_terminate :
    (Op.list.all fun op => goodCtl.all fun c =>
      loopy table op c || finished (routeOf table fuelBound op c)) = true := by
  decide +kernel

/-- every route taken by intersect / union / difference is accepted by the judgement `routeOK`
    (outside the `knownDefect` families) -/
theorem gen_routes_sound :
    ([Op.intersect, Op.union, Op.difference].all fun op => goodCtl.all fun c =>
      loopy table op c || knownFamily op c || routeOK flags op c (routeOf table fuelBound op c)) = true := by
  decide +kernel

/-- every route taken by `intersects` is accepted by `isectRouteOK'` (exact handlers, or the generic
    `self.intersect(other)` test on an accepted `intersect` route), outside the known families -/
theorem gen_routes_intersects_sound :
    (goodCtl.all fun c =>
      knownIsectFamily c || isectRouteOK' flags c (routeOf table fuelBound .intersects c)) = true := by
  decide +kernel

/-- polygonal operands at a common height are routed to the handlers that keep that height -/
theorem gen_planar_routes :
    ([Kind.poly, Kind.disc].all fun ka => [Kind.poly, Kind.disc].all fun kb => bools.all fun ea => bools.all fun eb =>
      routeOf table fuelBound .intersect ⟨ka, kb, false, false, false, ea, eb⟩ == .run (.polyAnd true) &&
      routeOf table fuelBound .union ⟨ka, kb, false, false, false, ea, eb⟩ == .run (.polyOr true) &&
      routeOf table fuelBound .difference ⟨ka, kb, false, false, false, ea, eb⟩ == .run (.polySub true)) = true := by
  decide +kernel

/-! ## the property, on the regenerated data -/

section
variable (O : Oracle) (A B : Reg) (hfa : A.kind = .foot → bareFoot A) (hfb : B.kind = .foot → bareFoot B)
include hfa hfb

theorem mem_op (op : Op) (hop : op = .intersect ∨ op = .union ∨ op = .difference)
    (hk : knownDefect table flags op (ctlOf A B) = false) :
    ∃ res, dispatch table O flags op A B = .res res ∧ ∀ p, res.mem p = op.sem (A.mem p) (B.mem p) := by
  have h := gen_routes_sound
  simp only [List.all_eq_true] at h
  have hop' : op ∈ [Op.intersect, Op.union, Op.difference] := by
    rcases hop with rfl | rfl | rfl <;> simp
  have := h op hop' (ctlOf A B) (mem_goodCtl A B)
  simp only [knownDefect, Bool.or_eq_false_iff, Bool.and_eq_false_iff, Bool.not_eq_false'] at hk
  have hr : routeOK flags op (ctlOf A B) (routeOf table fuelBound op (ctlOf A B)) = true := by
    simp only [hk.1, Bool.false_or, Bool.or_eq_true] at this
    rcases this with hf | hr
    · rcases hk.2 with hnf | hr
      · rw [hf] at hnf; exact absurd hnf (by simp)
      · exact hr
    · exact hr
  exact exec_sound O flags op _ A B hfa hfb hr

/-- a point belongs to `A.intersect(B)` exactly when it belongs to both, in three coordinates
    (all regions of the modelled kinds, outside the known-finding families) -/
theorem mem_intersect (hk : knownDefect table flags .intersect (ctlOf A B) = false) :
    ∃ res, dispatch table O flags .intersect A B = .res res ∧ ∀ p, res.mem p = (A.mem p && B.mem p) :=
  mem_op O A B hfa hfb .intersect (Or.inl rfl) hk

theorem mem_union (hk : knownDefect table flags .union (ctlOf A B) = false) :
    ∃ res, dispatch table O flags .union A B = .res res ∧ ∀ p, res.mem p = (A.mem p || B.mem p) :=
  mem_op O A B hfa hfb .union (Or.inr (Or.inl rfl)) hk

theorem mem_difference (hk : knownDefect table flags .difference (ctlOf A B) = false) :
    ∃ res, dispatch table O flags .difference A B = .res res ∧ ∀ p, res.mem p = (A.mem p && !B.mem p) :=
  mem_op O A B hfa hfb .difference (Or.inr (Or.inr rfl)) hk

end

example : knownDefect table flags .intersect (ctlOf (.planar 5 unitDisc) (.vol (Box.aligned ⟨0, 0, 5⟩ ⟨1, 1, 1⟩))) = false := by
  decide +kernel

/-- `A op B` never falls off a method or recurses without bound, for every pair of regions and all four
    operations (outside the lazy-union family, which does: finding `crash:union:lazy:poly-poly:RecursionError`) -/
theorem dispatch_terminates (A B : Reg) (op : Op) (hl : loopy table op (ctlOf A B) = false) :
    finished (routeOf table fuelBound op (ctlOf A B)) = true := by
  have h := gen_routes_terminate
  simp only [List.all_eq_true] at h
  have hop : op ∈ Op.list := by cases op <;> simp [Op.list]
  have := h op hop (ctlOf A B) (mem_goodCtl A B)
  simpa [hl] using this

/-- intersect / union / difference of two eagerly built polygonal regions at the same height is a polygonal
    region **at that height** (the defect repaired by 4fd67d49 made it height 0) -/
theorem result_keeps_height (O : Oracle) (A B : Reg) (ha : planarK A.kind = true) (hb : planarK B.kind = true)
    (hla : A.isLazy = false) (hlb : B.isLazy = false) (hz : A.zz = B.zz) :
    (∃ s, dispatch table O flags .intersect A B = .res (.planar A.zz s)) ∧
    (∃ s, dispatch table O flags .union A B = .res (.planar A.zz s)) ∧
    (∃ s, dispatch table O flags .difference A B = .res (.planar A.zz s)) := by
  have hc : ctlOf A B = ⟨A.kind, B.kind, false, false, false, decide (A.zz ≠ 0), decide (B.zz ≠ 0)⟩ := by
    have h1 := ctl_zne ha hb
    have h2 := @ctl_ea A B ha
    have h3 := @ctl_eb A B hb
    have hzne : (ctlOf A B).zne = false := by rw [h1]; simp [hz]
    cases hcc : ctlOf A B with
    | mk ka kb la lb zne ea eb =>
      have e1 : ka = A.kind := by have := ctl_ka A B; rw [hcc] at this; exact this
      have e2 : kb = B.kind := by have := ctl_kb A B; rw [hcc] at this; exact this
      have e3 : la = false := by have : (ctlOf A B).la = A.isLazy := rfl; rw [hcc] at this; simpa [hla] using this
      have e4 : lb = false := by have : (ctlOf A B).lb = B.isLazy := rfl; rw [hcc] at this; simpa [hlb] using this
      rw [hcc] at hzne h2 h3
      simp only at hzne h2 h3
      subst e1 e2 e3 e4 hzne h2 h3
      rfl
  have hg := gen_planar_routes
  simp only [List.all_eq_true, Bool.and_eq_true, beq_iff_eq] at hg
  have hka : A.kind ∈ [Kind.poly, Kind.disc] := by
    rcases (isa_poly_iff _).mp ha with e | e <;> simp [e]
  have hkb : B.kind ∈ [Kind.poly, Kind.disc] := by
    rcases (isa_poly_iff _).mp hb with e | e <;> simp [e]
  obtain ⟨⟨r1, r2⟩, r3⟩ := hg A.kind hka B.kind hkb (decide (A.zz ≠ 0)) (mem_bools _) (decide (B.zz ≠ 0)) (mem_bools _)
  obtain ⟨k1, k2, k3⟩ := exec_keeps_height O flags A B ha hb hz gen_flags_ok.2.1
  simp only [dispatch, hc, r1, r2, r3, exec]
  exact ⟨k1, k2, k3⟩

example : planarK (Reg.planar 5 unitDisc).kind = true ∧ (Reg.planar 5 unitDisc).isLazy = false := ⟨rfl, rfl⟩

/-- **`A.intersects(B)` is either refused (NotImplementedError) or holds exactly when A and B share a point**,
    for all regions of the modelled kinds (outside `knownIsectDefect`, computed from the current table: discs at
    different heights, an elevated polygon against a polyline, a point set against a polygon or a composite —
    witnesses `disc_intersects_height_witness`, `ptsAny_footprint_witness`), under the contracts of the geometric
    oracles -/
theorem intersects_iff_common_point (O : Oracle) (hO : OracleOK O) (A B : Reg)
    (hrA : 0 ≤ A.radius) (hrB : 0 ≤ B.radius)
    (hiA : A.kind ≠ .empty → ∃ p, A.mem p = true) (hiB : B.kind ≠ .empty → ∃ p, B.mem p = true)
    (hfa : A.kind = .foot → bareFoot A) (hfb : B.kind = .foot → bareFoot B)
    (hk : knownIsectDefect table flags (ctlOf A B) = false) :
    dispatch table O flags .intersects A B = .notImpl ∨
    ∃ b, dispatch table O flags .intersects A B = .bool b ∧ (b = true ↔ ∃ p, A.mem p = true ∧ B.mem p = true) := by
  have h := gen_routes_intersects_sound
  simp only [List.all_eq_true] at h
  have := h (ctlOf A B) (mem_goodCtl A B)
  simp only [knownIsectDefect, Bool.and_eq_false_iff, Bool.not_eq_false'] at hk
  have hr : isectRouteOK' flags (ctlOf A B) (routeOf table fuelBound .intersects (ctlOf A B)) = true := by
    simp only [Bool.or_eq_true] at this
    rcases this with hf | hr
    · rcases hk with hnf | hr
      · rw [hf] at hnf; exact absurd hnf (by simp)
      · exact hr
    · exact hr
  exact intersects_sound' O hO flags _ A B hrA hrB hiA hiB hfa hfb hr

example : knownIsectDefect table flags (ctlOf (.planar 5 unitDisc) (.vol (Box.aligned ⟨0, 0, 5⟩ ⟨1, 1, 1⟩))) = false := by
  decide +kernel

end Scenic.C16
