/-! # C16 — property theorems (stub: filled in when the property's model is built) -/
namespace Scenic.C16
end Scenic.C16
