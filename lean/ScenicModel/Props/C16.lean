import ScenicModel.Props.C16Sem
import ScenicModel.Props.C16Points
import ScenicModel.Props.C16Metric
import ScenicModel.Props.C16Proj
import ScenicModel.Gen.RegionOps

/-!
# C16 — region operations obey set semantics in 3-D: property theorems on the data regenerated from /repo

`Scenic.Gen.RegionOps.table` (the `isinstance` chains of every class's `intersect / union / difference /
intersects`) and `Scenic.Gen.RegionOps.flags` (which height each point predicate / constructor uses) are
rewritten from `src/scenic/core/regions.py` by `tools/translate/regionops.py` on every check run.  The
`gen_*` theorems are side conditions on that data, re-decided by the kernel on every run over the whole
finite control abstraction (every ordered pair of kinds × lazy/eager × height relation); the other
theorems combine them with the general theorems of `C16Sem` / `C16Points` / `C16Metric`.

Statement wanted by the property, kept visible:

    ∀ A B p,  (A.intersect B).mem p = (A.mem p ∧ B.mem p),   (A.union B).mem p = (A.mem p ∨ B.mem p),
              (A.difference B).mem p = (A.mem p ∧ ¬ B.mem p),  A.intersects B ↔ ∃ p, A.mem p ∧ B.mem p

After the repairs 7945c47f, b481834b, 617805a9, 1511e557 the first three hold of the current table for **all**
regions of the modelled kinds and all points, with the single stated exception `curveCut` (a polygon minus a
polyline: proved for the points off the polyline, all of whose points are boundary points), and the dispatch
terminates for every pair.  After 9c3fab32 (the composite regions define `_trueContainsPoint` structurally: flag
`compTrueStructural`, required by `gen_flags_ok`) the fourth holds for **all** pairs as well: no family of
operands is excluded any more (`trueContains_composite_witness` records what the inherited footprint predicate
did to a point set against a composite region).
-/
namespace Scenic.C16
open Scenic.Region Scenic.Gen.RegionOps

def bools : List Bool := [false, true]

/-- every control state -/
def allCtl : List Ctl :=
  Kind.list.flatMap fun ka => Kind.list.flatMap fun kb => bools.flatMap fun la => bools.flatMap fun lb =>
    bools.flatMap fun zne => bools.flatMap fun ea => bools.map fun eb => ⟨ka, kb, la, lb, zne, ea, eb⟩

theorem mem_kinds (k : Kind) : k ∈ Kind.list := by cases k <;> simp [Kind.list]
theorem mem_bools (b : Bool) : b ∈ bools := by cases b <;> simp [bools]

theorem mem_allCtl (c : Ctl) : c ∈ allCtl := by
  obtain ⟨ka, kb, la, lb, zne, ea, eb⟩ := c
  simp only [allCtl, List.mem_flatMap, List.mem_map]
  exact ⟨ka, mem_kinds ka, kb, mem_kinds kb, la, mem_bools la, lb, mem_bools lb, zne, mem_bools zne, ea, mem_bools ea,
    eb, mem_bools eb, rfl⟩

/-- control states that two regions can produce: heights only exist on planar operands -/
def consistent (c : Ctl) : Bool :=
  (!c.zne || (planarK c.ka && planarK c.kb)) && (!c.ea || planarK c.ka) && (!c.eb || planarK c.kb)

theorem z_none_of_not_planar (A : Reg) (h : planarK A.kind = false) : A.z? = none := by
  induction A with
  | lzy r ih => exact ih (by simpa [Reg.kind] using h)
  | planar => simp [Reg.kind, planarK, Kind.isa] at h
  | disc => simp [Reg.kind, planarK, Kind.isa, Kind.parent] at h
  | _ => rfl

theorem ctlOf_consistent (A B : Reg) : consistent (ctlOf A B) = true := by
  simp only [consistent, ctl_ka, ctl_kb, Bool.and_eq_true, Bool.or_eq_true, Bool.not_eq_true']
  refine ⟨⟨?_, ?_⟩, ?_⟩
  · by_cases ha : planarK A.kind = true
    · by_cases hb : planarK B.kind = true
      · exact Or.inr ⟨ha, hb⟩
      · left; simp [ctlOf, z_none_of_not_planar B (by simpa using hb)]
    · left; simp [ctlOf, z_none_of_not_planar A (by simpa using ha)]
  · by_cases ha : planarK A.kind = true
    · exact Or.inr ha
    · left; simp [ctlOf, z_none_of_not_planar A (by simpa using ha), elevated]
  · by_cases hb : planarK B.kind = true
    · exact Or.inr hb
    · left; simp [ctlOf, z_none_of_not_planar B (by simpa using hb), elevated]

/-- the control states two regions can produce (what the kernel evaluates the side conditions on) -/
def goodCtl : List Ctl := allCtl.filter consistent

theorem mem_goodCtl (A B : Reg) : ctlOf A B ∈ goodCtl :=
  List.mem_filter.mpr ⟨mem_allCtl _, ctlOf_consistent A B⟩

/-- the route ends in a handler or a composite (no `None` result, no unbounded recursion) -/
def finished : Route → Bool
  | .run _ => true
  | .compose => true
  | .swap r => finished r
  | .lift _ r => finished r
  | .viaIntersect r => finished r
  | .crash => false
  | .fuel => false

/-! ## side conditions on the regenerated data (re-decided on every run) -/

/-- the heights used by the point predicates are the ones the property needs, and the composite regions define
    `_trueContainsPoint` structurally (9c3fab32) -/
theorem gen_flags_ok :
    flags.pointsOK ∧ flags.fromShapelyPassesZ = true ∧ flags.polyDistZ = .selfZ ∧ flags.discDistPlane = .selfZ ∧
    flags.polyAABBZ = .selfZ ∧ flags.discAABBZ = .selfZ ∧ flags.projectAxis1 = true ∧
    flags.compTrueStructural = true := by
  unfold Flags.pointsOK; decide

/-- every ordered pair of kinds, lazy or eager, at equal or different heights, reaches a handler or a
    composite within the fuel bound, for all four operations -/
theorem gen_routes_terminate :
    (Op.list.all fun op => goodCtl.all fun c => finished (routeOf table fuelBound op c)) = true := by
  decide +kernel

/-- every route taken by intersect / union / difference is accepted by the judgement `routeOK` (or is the
    `curveCut` route of a polygon minus a polyline) -/
theorem gen_routes_sound :
    ([Op.intersect, Op.union, Op.difference].all fun op => goodCtl.all fun c =>
      routeOKc flags op c (routeOf table fuelBound op c)) = true := by
  decide +kernel

/-- the `curveCut` exception is only ever used for `difference` of a flat polygon and a polyline: intersect and
    union routes are accepted by `routeOK` itself -/
theorem gen_routes_sound_strict :
    ([Op.intersect, Op.union].all fun op => goodCtl.all fun c =>
      routeOK flags op c (routeOf table fuelBound op c)) = true := by
  decide +kernel

/-- a `Workspace` hands every region operation and point query on to the region it wraps -/
theorem gen_workspace_delegates : Delegation.allForward workspace = true := by
  decide +kernel

/-- every route taken by `intersects` is accepted by `isectRouteOK'` (exact handlers, or the generic
    `self.intersect(other)` test on an accepted `intersect` route) — every pair, no family excluded -/
theorem gen_routes_intersects_sound :
    (goodCtl.all fun c => isectRouteOK' flags c (routeOf table fuelBound .intersects c)) = true := by
  decide +kernel

/-- polygonal operands at a common height are routed to the handlers that keep that height -/
theorem gen_planar_routes :
    ([Kind.poly, Kind.disc].all fun ka => [Kind.poly, Kind.disc].all fun kb => bools.all fun ea => bools.all fun eb =>
      routeOf table fuelBound .intersect ⟨ka, kb, false, false, false, ea, eb⟩ == .run (.polyAnd true) &&
      routeOf table fuelBound .union ⟨ka, kb, false, false, false, ea, eb⟩ == .run (.polyOr true) &&
      routeOf table fuelBound .difference ⟨ka, kb, false, false, false, ea, eb⟩ == .run (.polySub true)) = true := by
  decide +kernel

/-! ## the property, on the regenerated data -/

section
variable (O : Oracle) (A B : Reg) (hfa : A.kind = .foot → bareFoot A) (hfb : B.kind = .foot → bareFoot B)
include hfa hfb

theorem mem_op (op : Op) (hop : op = .intersect ∨ op = .union ∨ op = .difference) :
    ∃ res, dispatch table O flags op A B = .res res ∧
      ∀ p, ((op = .difference ∧ curveCut (ctlOf A B) = true) → B.mem p = false) →
        res.mem p = op.sem (A.mem p) (B.mem p) := by
  have h := gen_routes_sound
  simp only [List.all_eq_true] at h
  have hop' : op ∈ [Op.intersect, Op.union, Op.difference] := by
    rcases hop with rfl | rfl | rfl <;> simp
  exact exec_sound_c O flags op _ A B hfa hfb (h op hop' (ctlOf A B) (mem_goodCtl A B))

theorem mem_op_strict (op : Op) (hop : op = .intersect ∨ op = .union) :
    ∃ res, dispatch table O flags op A B = .res res ∧ ∀ p, res.mem p = op.sem (A.mem p) (B.mem p) := by
  have h := gen_routes_sound_strict
  simp only [List.all_eq_true] at h
  have hop' : op ∈ [Op.intersect, Op.union] := by
    rcases hop with rfl | rfl <;> simp
  exact exec_sound O flags op _ A B hfa hfb (h op hop' (ctlOf A B) (mem_goodCtl A B))

/-- **a point belongs to `A.intersect(B)` exactly when it belongs to both**, in three coordinates, for all regions
    of the modelled kinds (lazy or eager, any heights) and all points -/
theorem mem_intersect :
    ∃ res, dispatch table O flags .intersect A B = .res res ∧ ∀ p, res.mem p = (A.mem p && B.mem p) :=
  mem_op_strict O A B hfa hfb .intersect (Or.inl rfl)

/-- **a point belongs to `A.union(B)` exactly when it belongs to one of them** -/
theorem mem_union :
    ∃ res, dispatch table O flags .union A B = .res res ∧ ∀ p, res.mem p = (A.mem p || B.mem p) :=
  mem_op_strict O A B hfa hfb .union (Or.inr rfl)

/-- **a point belongs to `A.difference(B)` exactly when it belongs to A and not to B** — for a flat polygon minus a
    polyline (`curveCut`) at the points off the polyline, whose points are all boundary points -/
theorem mem_difference :
    ∃ res, dispatch table O flags .difference A B = .res res ∧
      ∀ p, (curveCut (ctlOf A B) = true → B.mem p = false) → res.mem p = (A.mem p && !B.mem p) := by
  obtain ⟨res, h1, h2⟩ := mem_op O A B hfa hfb .difference (Or.inr (Or.inr rfl))
  exact ⟨res, h1, fun p hp => h2 p (fun h => hp h.2)⟩

end

example : curveCut (ctlOf (.planar 5 unitDisc) (.vol (Box.aligned ⟨0, 0, 5⟩ ⟨1, 1, 1⟩))) = false := by decide
example : curveCut (ctlOf (.planar 0 unitDisc) (.line [⟨-3, 0⟩, ⟨3, 0⟩])) = true := by decide
example : bareFoot (.foot unitDisc) := trivial

/-- `A op B` never falls off a method or recurses without bound, for every pair of regions and all four
    operations -/
theorem dispatch_terminates (A B : Reg) (op : Op) :
    finished (routeOf table fuelBound op (ctlOf A B)) = true := by
  have h := gen_routes_terminate
  simp only [List.all_eq_true] at h
  have hop : op ∈ Op.list := by cases op <;> simp [Op.list]
  exact h op hop (ctlOf A B) (mem_goodCtl A B)

/-- the table with the lazy clause of `PolygonalRegion.union` as it was before 7945c47f (`super().union(other)`,
    the flag dropped) -/
def tableBefore7945c47f : Table :=
  ⟨fun k op => if k == .poly && op == .union then
      some [⟨[.lzy], .superFresh⟩, ⟨[.hasPoly], .run (.polyOr true)⟩, ⟨[], .super⟩]
    else clsTable k op, genericTable⟩

/-- the defect repaired by 7945c47f: with the flag dropped, the union of two polygonal regions one of which is
    lazy bounces between the two operands until the fuel (Python: the recursion limit) is exhausted -/
theorem lazy_union_loop_witness :
    finished (routeOf tableBefore7945c47f fuelBound .union ⟨.poly, .poly, true, false, false, false, false⟩) = false ∧
    finished (routeOf table fuelBound .union ⟨.poly, .poly, true, false, false, false, false⟩) = true := by
  decide +kernel

/-- intersect / union / difference of two eagerly built polygonal regions at the same height is a polygonal
    region **at that height** (the defect repaired by 4fd67d49 made it height 0) -/
theorem result_keeps_height (O : Oracle) (A B : Reg) (ha : planarK A.kind = true) (hb : planarK B.kind = true)
    (hla : A.isLazy = false) (hlb : B.isLazy = false) (hz : A.zz = B.zz) :
    (∃ s, dispatch table O flags .intersect A B = .res (.planar A.zz s)) ∧
    (∃ s, dispatch table O flags .union A B = .res (.planar A.zz s)) ∧
    (∃ s, dispatch table O flags .difference A B = .res (.planar A.zz s)) := by
  have hc : ctlOf A B = ⟨A.kind, B.kind, false, false, false, decide (A.zz ≠ 0), decide (B.zz ≠ 0)⟩ := by
    have h1 := ctl_zne ha hb
    have h2 := @ctl_ea A B ha
    have h3 := @ctl_eb A B hb
    have hzne : (ctlOf A B).zne = false := by rw [h1]; simp [hz]
    cases hcc : ctlOf A B with
    | mk ka kb la lb zne ea eb =>
      have e1 : ka = A.kind := by have := ctl_ka A B; rw [hcc] at this; exact this
      have e2 : kb = B.kind := by have := ctl_kb A B; rw [hcc] at this; exact this
      have e3 : la = false := by have : (ctlOf A B).la = A.isLazy := rfl; rw [hcc] at this; simpa [hla] using this
      have e4 : lb = false := by have : (ctlOf A B).lb = B.isLazy := rfl; rw [hcc] at this; simpa [hlb] using this
      rw [hcc] at hzne h2 h3
      simp only at hzne h2 h3
      subst e1 e2 e3 e4 hzne h2 h3
      rfl
  have hg := gen_planar_routes
  simp only [List.all_eq_true, Bool.and_eq_true, beq_iff_eq] at hg
  have hka : A.kind ∈ [Kind.poly, Kind.disc] := by
    rcases (isa_poly_iff _).mp ha with e | e <;> simp [e]
  have hkb : B.kind ∈ [Kind.poly, Kind.disc] := by
    rcases (isa_poly_iff _).mp hb with e | e <;> simp [e]
  obtain ⟨⟨r1, r2⟩, r3⟩ := hg A.kind hka B.kind hkb (decide (A.zz ≠ 0)) (mem_bools _) (decide (B.zz ≠ 0)) (mem_bools _)
  obtain ⟨k1, k2, k3⟩ := exec_keeps_height O flags A B ha hb hz gen_flags_ok.2.1
  simp only [dispatch, hc, r1, r2, r3, exec]
  exact ⟨k1, k2, k3⟩

example : planarK (Reg.planar 5 unitDisc).kind = true ∧ (Reg.planar 5 unitDisc).isLazy = false := ⟨rfl, rfl⟩

/-- **`A.intersects(B)` is either refused (NotImplementedError) or holds exactly when A and B share a point**,
    for **all** regions of the modelled kinds (no excluded family: a point set against a composite region is
    covered since 9c3fab32), under the contracts of the geometric oracles -/
theorem intersects_iff_common_point (O : Oracle) (hO : OracleOK O) (A B : Reg)
    (hrA : 0 ≤ A.radius) (hrB : 0 ≤ B.radius)
    (hiA : A.kind ≠ .empty → ∃ p, A.mem p = true) (hiB : B.kind ≠ .empty → ∃ p, B.mem p = true)
    (hfa : A.kind = .foot → bareFoot A) (hfb : B.kind = .foot → bareFoot B) :
    dispatch table O flags .intersects A B = .notImpl ∨
    ∃ b, dispatch table O flags .intersects A B = .bool b ∧ (b = true ↔ ∃ p, A.mem p = true ∧ B.mem p = true) := by
  have h := gen_routes_intersects_sound
  simp only [List.all_eq_true] at h
  exact intersects_sound' O hO flags _ A B hrA hrB hiA hiB hfa hfb (h (ctlOf A B) (mem_goodCtl A B))

/-- the hypotheses are satisfiable by the pair that used to be excluded: a point set against a composite (the box
    minus a disc at height 1 of `trueContains_composite_witness`) — both have members, no footprint operand -/
example : (∃ p, (Reg.pts [⟨0, 0, 0⟩]).mem p = true) ∧
    (∃ p, (Reg.diff (.vol (Box.aligned ⟨0, 0, 0⟩ ⟨2, 2, 2⟩)) (.planar 1 unitDisc)).mem p = true) ∧
    (Reg.diff (.vol (Box.aligned ⟨0, 0, 0⟩ ⟨2, 2, 2⟩)) (.planar 1 unitDisc)).kind = .comp :=
  ⟨⟨⟨0, 0, 0⟩, by simp [Reg.mem]⟩, ⟨⟨0, 0, 0⟩, (trueContains_composite_witness
    ⟨true, .selfZ, .selfZ, true, true, .selfZ, .selfZ, true, true, true, false⟩ rfl).2⟩, rfl⟩

/-- the table / flags as they were before 9c3fab32 do not pass the side condition: a point set against a composite
    was decided with the composite's inherited footprint predicate -/
theorem intersects_composite_witness :
    isectRouteOK' { flags with compTrueStructural := false } ⟨.pts, .comp, false, false, false, false, false⟩
      (routeOf table fuelBound .intersects ⟨.pts, .comp, false, false, false, false, false⟩) = false ∧
    isectRouteOK' flags ⟨.pts, .comp, false, false, false, false, false⟩
      (routeOf table fuelBound .intersects ⟨.pts, .comp, false, false, false, false, false⟩) = true := by
  decide +kernel

/-- **projection `onto` a box returns the nearest member along the given direction**, on the flags read off the
    current source (`numpy.linalg.norm(…, axis=1)`): the result is a member on the line `p + t·d`, no member of the
    line is nearer in either direction, and `None` is returned only when the line misses the box -/
theorem project_nearest (b : Box) (hb : b.proper) (p d : Pt) :
    (∀ q, projectVector flags b p d = some q →
      b.mem q = true ∧ ∃ t, q = p.along d t ∧ ∀ s, b.mem (p.along d s) = true → t * t ≤ s * s) ∧
    (projectVector flags b p d = none → ∀ s, b.mem (p.along d s) = false) :=
  projectVector_nearest flags gen_flags_ok.2.2.2.2.2.2.1 b hb p d

/-- the membership realised by the generic samplers of `A op B` is 3-coordinate membership on the current flags,
    for **every** region — arbitrarily nested composites included (since 9c3fab32; before: composites of
    primitives only, `memCode_eq_mem`) -/
theorem sampler_membership (R : Reg) (p : Pt) : memCode flags R p = R.mem p :=
  memCode_eq_mem_all flags gen_flags_ok.1 gen_flags_ok.2.2.2.2.2.2.2 R p

/-- `_trueContainsPoint` is 3-coordinate membership for every region, nested composites included -/
theorem true_membership (R : Reg) (p : Pt) : trueContains flags R p = R.mem p :=
  trueContains_eq_mem_all flags gen_flags_ok.1 gen_flags_ok.2.2.2.2.2.2.2 R p

/-- the specialised sampler of `PointSetRegion.intersect(B)` chooses among exactly the common points, whatever `B` is
    (composites included) -/
theorem pointset_sampler_support (A B : Reg) (ha : A.kind = .pts) (p : Pt) :
    p ∈ ptsSamplerSupport flags A B ↔ (A.mem p = true ∧ B.mem p = true) :=
  ptsSampler_support flags gen_flags_ok.1 A B ha (Or.inr gen_flags_ok.2.2.2.2.2.2.2) p

example : (Reg.pts [⟨0, 0, 0⟩]).kind = .pts := rfl

end Scenic.C16
