import ScenicModel.Model.BoxOracle
import Mathlib.Tactic.Linarith
import Mathlib.Tactic.Ring

/-! # C02 (part 4): the certificates of the scene re-verification are sound

The oracle that re-verifies accepted scenes answers `separated` / `outside` only with a certificate; these theorems
say what the certificates prove, for all vertex sets (no convexity or box assumption is needed for this direction):

* a separating axis: no point is a convex combination of the vertices of both sets;
* a vertex beyond a plane: that vertex is not in the half-space, hence not in the container;
* all vertices behind a plane ⇒ every convex combination is (so testing the vertices of an object suffices).

Convex combinations are written with natural-number weights: the point `(Σ wᵢ vᵢ) / (Σ wᵢ)`. -/
namespace Scenic.C02
open Scenic.Oracle

def V3.smul (k : Int) (v : V3) : V3 := (k * v.1, k * v.2.1, k * v.2.2)
def V3.add (a b : V3) : V3 := (a.1 + b.1, a.2.1 + b.2.1, a.2.2 + b.2.2)

/-- `Σ wᵢ vᵢ` and `Σ wᵢ` of a weighted vertex list -/
def wsum : List (Nat × V3) → V3
  | [] => (0, 0, 0)
  | (w, v) :: l => V3.add (V3.smul w v) (wsum l)

def wtot : List (Nat × V3) → Int
  | [] => 0
  | (w, _) :: l => w + wtot l

theorem dot_add (n a b : V3) : n.dot (V3.add a b) = n.dot a + n.dot b := by
  simp only [V3.dot, V3.add]; ring

theorem dot_smul (n : V3) (k : Int) (v : V3) : n.dot (V3.smul k v) = k * n.dot v := by
  simp only [V3.dot, V3.smul]; ring

theorem dot_sub (n a b : V3) : n.dot (a.sub b) = n.dot a - n.dot b := by
  simp only [V3.dot, V3.sub]; ring

theorem wtot_nonneg : ∀ l : List (Nat × V3), 0 ≤ wtot l
  | [] => le_refl _
  | (w, _) :: l => by
    have := wtot_nonneg l
    simp only [wtot]; positivity

/-- `extent` really bounds the projections -/
theorem extent_bounds (n : V3) : ∀ (vs : List V3) (lo hi : Int), extent n vs = some (lo, hi) →
    ∀ v ∈ vs, lo ≤ n.dot v ∧ n.dot v ≤ hi
  | [], _, _, h, _, _ => by simp [extent] at h
  | x :: xs, lo, hi, h, v, hv => by
    unfold extent at h
    cases hrec : extent n xs with
    | none =>
      rw [hrec] at h
      simp only [Option.some.injEq, Prod.mk.injEq] at h
      obtain ⟨h1, h2⟩ := h
      cases xs with
      | nil =>
        simp only [List.mem_cons, List.not_mem_nil, or_false] at hv
        subst hv; omega
      | cons y ys => simp only [extent] at hrec; split at hrec <;> simp at hrec
    | some p =>
      obtain ⟨lo', hi'⟩ := p
      rw [hrec] at h
      simp only [Option.some.injEq, Prod.mk.injEq] at h
      obtain ⟨h1, h2⟩ := h
      rcases List.mem_cons.mp hv with rfl | hv'
      · omega
      · have := extent_bounds n xs lo' hi' hrec v hv'
        omega

/-- a weighted sum of vertices projects between `W * lo` and `W * hi` -/
theorem wsum_bounds (n : V3) (lo hi : Int) : ∀ (c : List (Nat × V3)),
    (∀ p ∈ c, lo ≤ n.dot p.2 ∧ n.dot p.2 ≤ hi) →
    wtot c * lo ≤ n.dot (wsum c) ∧ n.dot (wsum c) ≤ wtot c * hi
  | [], _ => by simp [wsum, wtot, V3.dot]
  | (w, v) :: l, h => by
    obtain ⟨h1, h2⟩ := wsum_bounds n lo hi l (fun p hp => h p (List.mem_cons_of_mem _ hp))
    obtain ⟨h3, h4⟩ := h (w, v) List.mem_cons_self
    simp only [wsum, wtot, dot_add, dot_smul]
    have hw : (0 : Int) ≤ (w : Int) := Int.natCast_nonneg w
    constructor
    · have := mul_le_mul_of_nonneg_left h3 hw
      linarith
    · have := mul_le_mul_of_nonneg_left h4 hw
      linarith

/-- **separating_axis_sound**: if the projections of two vertex sets on an axis are disjoint, no point is a convex
    combination of both sets: for all weights, `(Σ wa A)/Wa ≠ (Σ wb B)/Wb`. -/
theorem separating_axis_sound (n : V3) (A B : List V3) (a0 a1 b0 b1 : Int)
    (hA : extent n A = some (a0, a1)) (hB : extent n B = some (b0, b1)) (hsep : a1 < b0 ∨ b1 < a0)
    (ca cb : List (Nat × V3)) (hca : ∀ p ∈ ca, p.2 ∈ A) (hcb : ∀ p ∈ cb, p.2 ∈ B)
    (ha : 0 < wtot ca) (hb : 0 < wtot cb) :
    V3.smul (wtot cb) (wsum ca) ≠ V3.smul (wtot ca) (wsum cb) := by
  intro heq
  have hdot : wtot cb * n.dot (wsum ca) = wtot ca * n.dot (wsum cb) := by
    rw [← dot_smul, ← dot_smul, heq]
  obtain ⟨la, ua⟩ := wsum_bounds n a0 a1 ca (fun p hp => extent_bounds n A a0 a1 hA p.2 (hca p hp))
  obtain ⟨lb, ub⟩ := wsum_bounds n b0 b1 cb (fun p hp => extent_bounds n B b0 b1 hB p.2 (hcb p hp))
  have hpos : 0 < wtot ca * wtot cb := mul_pos ha hb
  rcases hsep with hs | hs
  · -- Wb * SA ≤ Wb * Wa * a1 < Wa * Wb * b0 ≤ Wa * SB
    have h1 := mul_le_mul_of_nonneg_left ua (le_of_lt hb)
    have h2 := mul_le_mul_of_nonneg_left lb (le_of_lt ha)
    have h3 : wtot ca * wtot cb * a1 < wtot ca * wtot cb * b0 := mul_lt_mul_of_pos_left hs hpos
    nlinarith
  · have h1 := mul_le_mul_of_nonneg_left la (le_of_lt hb)
    have h2 := mul_le_mul_of_nonneg_left ub (le_of_lt ha)
    have h3 : wtot ca * wtot cb * b1 < wtot ca * wtot cb * a0 := mul_lt_mul_of_pos_left hs hpos
    nlinarith

/-- what the per-axis verdict "separates" of the oracle certifies -/
theorem axisVerdict_separates (m : Int) (hm : 0 ≤ m) (A B : List V3) (n : V3)
    (h : axisVerdict m A B n = some true) :
    ∃ a0 a1 b0 b1, extent n A = some (a0, a1) ∧ extent n B = some (b0, b1) ∧ (a1 < b0 ∨ b1 < a0) := by
  unfold axisVerdict at h
  cases hA : extent n A with
  | none => rw [hA] at h; simp at h
  | some pa =>
    cases hB : extent n B with
    | none => rw [hA, hB] at h; simp at h
    | some pb =>
      obtain ⟨a0, a1⟩ := pa
      obtain ⟨b0, b1⟩ := pb
      rw [hA, hB] at h
      simp only at h
      refine ⟨a0, a1, b0, b1, rfl, rfl, ?_⟩
      have hn : 0 ≤ m * n.norm1 := by
        apply mul_nonneg hm
        simp only [V3.norm1]; positivity
      by_cases hg : max (b0 - a1) (a0 - b1) > m * n.norm1
      · have : 0 < max (b0 - a1) (a0 - b1) := lt_of_le_of_lt hn hg
        rcases lt_max_iff.mp this with h1 | h1
        · left; linarith
        · right; linarith
      · simp only [hg, if_false] at h
        split at h <;> simp at h

/-- **the verdict `separated` of the oracle is sound**: the two vertex sets have no common convex combination -/
theorem sat_separated_sound (m : Int) (hm : 0 ≤ m) (a b : Mesh) (h : sat m a b = .separated)
    (ca cb : List (Nat × V3)) (hca : ∀ p ∈ ca, p.2 ∈ a.verts) (hcb : ∀ p ∈ cb, p.2 ∈ b.verts)
    (ha : 0 < wtot ca) (hb : 0 < wtot cb) :
    V3.smul (wtot cb) (wsum ca) ≠ V3.smul (wtot ca) (wsum cb) := by
  have key : ∃ n, axisVerdict m a.verts b.verts n = some true := by
    unfold sat at h
    by_cases h1 : coordAxes.any (fun n => axisVerdict m a.verts b.verts n == some true) = true
    · obtain ⟨n, _, hn⟩ := List.any_eq_true.mp h1
      exact ⟨n, by simpa using hn⟩
    · simp only [h1] at h
      by_cases h2 : (satAxes a b).any (fun n => axisVerdict m a.verts b.verts n == some true) = true
      · obtain ⟨n, _, hn⟩ := List.any_eq_true.mp h2
        exact ⟨n, by simpa using hn⟩
      · simp only [h2] at h
        by_cases h3 : ((satAxes a b).all fun n => axisVerdict m a.verts b.verts n == some false) = true
        · simp [h3] at h
        · simp [h3] at h
  obtain ⟨n, hn⟩ := key
  obtain ⟨a0, a1, b0, b1, hA, hB, hsep⟩ := axisVerdict_separates m hm _ _ n hn
  exact separating_axis_sound n _ _ a0 a1 b0 b1 hA hB hsep ca cb hca hcb ha hb

/-- **outside_halfspace_sound**: the verdict `outside` exhibits a vertex of the object strictly beyond one of the
    planes bounding the container, i.e. a point of the object that is not in the container -/
theorem outside_halfspace_sound (m : Int) (hm : 0 ≤ m) (hs : List (V3 × V3)) (pts : List V3)
    (h : halfspaces m hs pts = .outside) :
    ∃ v ∈ pts, ∃ p ∈ hs, 0 < p.2.dot (v.sub p.1) := by
  unfold halfspaces at h
  simp only at h
  by_cases h1 : pts.any (fun v => (hs.filter fun h => !h.2.isZero).any fun h => h.2.dot (v.sub h.1) > m * h.2.norm1) = true
  · obtain ⟨v, hv, hv2⟩ := List.any_eq_true.mp h1
    obtain ⟨p, hp, hp2⟩ := List.any_eq_true.mp hv2
    refine ⟨v, hv, p, (List.mem_filter.mp hp).1, ?_⟩
    have hn : 0 ≤ m * p.2.norm1 := by
      apply mul_nonneg hm
      simp only [V3.norm1]; positivity
    have : p.2.dot (v.sub p.1) > m * p.2.norm1 := by simpa using hp2
    linarith
  · simp only [h1] at h
    by_cases h3 : (pts.all fun v => (hs.filter fun h => !h.2.isZero).all fun h =>
        decide (h.2.dot (v.sub h.1) < -(m * h.2.norm1))) = true
    · rw [if_pos h3] at h; exact absurd h (by decide)
    · rw [if_neg h3] at h; exact absurd h (by decide)

/-- **inside_halfspaces_convex**: if every vertex is behind a plane (`n · (v - p) ≤ c`), so is every convex
    combination of the vertices — checking the vertices of a convex object is enough -/
theorem inside_halfspaces_convex (n p : V3) (c : Int) (vs : List V3) (hall : ∀ v ∈ vs, n.dot (v.sub p) ≤ c)
    (cw : List (Nat × V3)) (hcw : ∀ q ∈ cw, q.2 ∈ vs) :
    n.dot ((wsum cw).sub (V3.smul (wtot cw) p)) ≤ wtot cw * c := by
  have hb : ∀ q ∈ cw, n.dot q.2 ≤ c + n.dot p := by
    intro q hq
    have := hall q.2 (hcw q hq)
    rw [dot_sub] at this
    linarith
  have hub : ∀ (l : List (Nat × V3)), (∀ q ∈ l, n.dot q.2 ≤ c + n.dot p) → n.dot (wsum l) ≤ wtot l * (c + n.dot p) := by
    intro l
    induction l with
    | nil => intro _; simp [wsum, wtot, V3.dot]
    | cons x xs ih =>
      intro hx
      obtain ⟨w, v⟩ := x
      have h1 := ih (fun q hq => hx q (List.mem_cons_of_mem _ hq))
      have h2 := hx (w, v) List.mem_cons_self
      simp only [wsum, wtot, dot_add, dot_smul]
      have hw : (0 : Int) ≤ (w : Int) := Int.natCast_nonneg w
      have := mul_le_mul_of_nonneg_left h2 hw
      linarith
  have := hub cw hb
  rw [dot_sub, dot_smul]
  linarith

/-! ### the certificates exist on concrete boxes (non-vacuity) -/

def unitCube (x : Int) : Mesh :=
  ⟨[(x, 0, 0), (x + 2, 0, 0), (x, 2, 0), (x + 2, 2, 0), (x, 0, 2), (x + 2, 0, 2), (x, 2, 2), (x + 2, 2, 2)],
   [(0, 2, 1), (1, 2, 3), (4, 5, 6), (5, 7, 6), (0, 1, 4), (1, 5, 4), (2, 6, 3), (3, 6, 7), (0, 4, 2), (2, 4, 6), (1, 3, 5), (3, 7, 5)]⟩

example : sat 0 (unitCube 0) (unitCube 5) = .separated := by decide +kernel
example : sat 0 (unitCube 0) (unitCube 1) = .penetrating := by decide +kernel
example : sat 1 (unitCube 0) (unitCube 2) = .undecided := by decide +kernel
example : halfspaces 0 (unitCube 0).planes [(1, 1, 1)] = .inside := by decide +kernel
example : halfspaces 0 (unitCube 0).planes [(1, 1, 3)] = .outside := by decide +kernel

end Scenic.C02
