import ScenicModel.Props.C16Metric
import Mathlib.Algebra.Order.Field.Basic

/-!
# C16 (part 4): projection along a direction (`MeshRegion.projectVector` on boxes)

"projection `onto` a region returns the nearest member along the given direction": the model
(`Box.rayHit` = exact slab ray casting, `selectHit` = the `argmin(norm(…, axis=1))` selection,
`projectVector` = the point itself for members, otherwise the nearer of the first hits along `+d` and `−d`)
is proved, for every box with non-negative half extents (any rational frame, orthonormal or not), every start
point and every direction, to return a member of the box on the line `p + t·d` such that no member on that line
is nearer to `p` (in either direction), and to return nothing only when the line misses the box.
-/
namespace Scenic.Region

/-- the point at parameter `t` on the line through `p` along `d` -/
def Pt.along (p d : Pt) (t : Rat) : Pt := p.add (Pt.smul t d)

theorem Box.local_along (b : Box) (p d : Pt) (t : Rat) :
    b.local (p.along d t) =
      ⟨(b.local p).x + t * b.u.dot d, (b.local p).y + t * b.v.dot d, (b.local p).z + t * b.w.dot d⟩ := by
  simp only [Box.local, Pt.along, Pt.add, Pt.smul, Pt.sub, Pt.dot, Pt.mk.injEq]
  refine ⟨?_, ?_, ?_⟩ <;> ring

/-- the slab `|l + t·d| ≤ h` (`d ≠ 0`, `0 ≤ h`) is the parameter interval computed by `slab` -/
theorem slab_iff (l d h t : Rat) (hd : d ≠ 0) (hh : 0 ≤ h) :
    absR (l + t * d) ≤ h ↔ minR ((-h - l) / d) ((h - l) / d) ≤ t ∧ t ≤ maxR ((-h - l) / d) ((h - l) / d) := by
  rw [absR_eq, abs_le, minR_eq, maxR_eq]
  rcases lt_or_gt_of_ne hd with hneg | hpos
  · have h21 : (h - l) / d ≤ (-h - l) / d := div_le_div_of_nonpos_of_le hneg.le (by linarith)
    rw [min_eq_right h21, max_eq_left h21, div_le_iff_of_neg hneg, le_div_iff_of_neg hneg]
    constructor <;> rintro ⟨a, c⟩ <;> constructor <;> linarith
  · have h12 : (-h - l) / d ≤ (h - l) / d := div_le_div_of_nonneg_right (by linarith) hpos.le
    rw [min_eq_left h12, max_eq_right h12, div_le_iff₀ hpos, le_div_iff₀ hpos]
    constructor <;> rintro ⟨a, c⟩ <;> constructor <;> linarith

/-- one axis of the box along the ray: `slab` describes exactly the parameters inside the slab -/
theorem slab_spec (l d h : Rat) (hh : 0 ≤ h) :
    (slab l d h = none → ∀ t, ¬ absR (l + t * d) ≤ h) ∧
    (∀ s, slab l d h = some s → d = 0 → ∀ t, absR (l + t * d) ≤ h) ∧
    (∀ s, slab l d h = some s → d ≠ 0 → ∀ t, absR (l + t * d) ≤ h ↔ s.1 ≤ t ∧ t ≤ s.2) := by
  unfold slab
  by_cases hd : d = 0
  · subst hd
    by_cases hl : absR l ≤ h
    · simp [hl]
    · simp [hl]
  · simp only [hd, if_false]
    refine ⟨by simp, fun s _ h0 => by first | exact absurd h0 hd | exact h0.elim, fun s hs _ t => ?_⟩
    simp only [Option.some.injEq] at hs
    subst hs
    exact slab_iff l d h t hd hh

/-- `foldl max` / `foldl min` over the entry / exit parameters -/
theorem foldl_max_spec (rest : List (Rat × Rat)) : ∀ (a : Rat),
    (a ≤ rest.foldl (fun a s => maxR a s.1) a ∧ ∀ s ∈ rest, s.1 ≤ rest.foldl (fun a s => maxR a s.1) a) ∧
    (rest.foldl (fun a s => maxR a s.1) a = a ∨ ∃ s ∈ rest, rest.foldl (fun a s => maxR a s.1) a = s.1) := by
  induction rest with
  | nil => intro a; simp
  | cons x xs ih =>
    intro a
    obtain ⟨⟨h1, h2⟩, h3⟩ := ih (maxR a x.1)
    simp only [List.foldl_cons, List.mem_cons, forall_eq_or_imp, exists_eq_or_imp]
    rw [maxR_eq] at h1 h3 ⊢
    refine ⟨⟨le_trans (le_max_left _ _) h1, le_trans (le_max_right _ _) h1, h2⟩, ?_⟩
    rcases h3 with h3 | ⟨s, hs, h3⟩
    · rcases max_choice a x.1 with hm | hm
      · left; rw [h3, hm]
      · right; left; rw [h3, hm]
    · right; right; exact ⟨s, hs, h3⟩

theorem foldl_min_spec (rest : List (Rat × Rat)) : ∀ (a : Rat),
    (rest.foldl (fun a s => minR a s.2) a ≤ a ∧ ∀ s ∈ rest, rest.foldl (fun a s => minR a s.2) a ≤ s.2) ∧
    (rest.foldl (fun a s => minR a s.2) a = a ∨ ∃ s ∈ rest, rest.foldl (fun a s => minR a s.2) a = s.2) := by
  induction rest with
  | nil => intro a; simp
  | cons x xs ih =>
    intro a
    obtain ⟨⟨h1, h2⟩, h3⟩ := ih (minR a x.2)
    simp only [List.foldl_cons, List.mem_cons, forall_eq_or_imp, exists_eq_or_imp]
    rw [minR_eq] at h1 h3 ⊢
    refine ⟨⟨le_trans h1 (min_le_left _ _), le_trans h1 (min_le_right _ _), h2⟩, ?_⟩
    rcases h3 with h3 | ⟨s, hs, h3⟩
    · rcases min_choice a x.2 with hm | hm
      · left; rw [h3, hm]
      · right; left; rw [h3, hm]
    · right; right; exact ⟨s, hs, h3⟩

/-- a parameter lies in every interval of a non-empty list exactly when it lies between the largest entry and
    the smallest exit -/
theorem inter_intervals (s0 : Rat × Rat) (rest : List (Rat × Rat)) (t : Rat) :
    (∀ s ∈ s0 :: rest, s.1 ≤ t ∧ t ≤ s.2) ↔
      rest.foldl (fun a s => maxR a s.1) s0.1 ≤ t ∧ t ≤ rest.foldl (fun a s => minR a s.2) s0.2 := by
  obtain ⟨⟨a1, a2⟩, a3⟩ := foldl_max_spec rest s0.1
  obtain ⟨⟨b1, b2⟩, b3⟩ := foldl_min_spec rest s0.2
  constructor
  · intro h
    constructor
    · rcases a3 with e | ⟨s, hs, e⟩
      · rw [e]; exact (h s0 List.mem_cons_self).1
      · rw [e]; exact (h s (List.mem_cons_of_mem _ hs)).1
    · rcases b3 with e | ⟨s, hs, e⟩
      · rw [e]; exact (h s0 List.mem_cons_self).2
      · rw [e]; exact (h s (List.mem_cons_of_mem _ hs)).2
  · rintro ⟨h1, h2⟩ s hs
    rcases List.mem_cons.mp hs with rfl | hs'
    · exact ⟨le_trans a1 h1, le_trans h2 b1⟩
    · exact ⟨le_trans (a2 s hs') h1, le_trans h2 (b2 s hs')⟩

/-- membership of the point at parameter `t`, axis by axis -/
theorem Box.mem_along (b : Box) (p d : Pt) (t : Rat) :
    b.mem (p.along d t) = true ↔
      absR ((b.local p).x + t * b.u.dot d) ≤ b.h.x ∧ absR ((b.local p).y + t * b.v.dot d) ≤ b.h.y ∧
      absR ((b.local p).z + t * b.w.dot d) ≤ b.h.z := by
  unfold Box.mem
  rw [Box.local_along]
  simp only [Bool.and_eq_true, decide_eq_true_eq, and_assoc]

/-- non-negative half extents -/
def Box.proper (b : Box) : Prop := 0 ≤ b.h.x ∧ 0 ≤ b.h.y ∧ 0 ≤ b.h.z

/-- what `Box.rayHit` computes: `none` when a direction-free axis already excludes the line or the direction is
    null in the box frame; otherwise the interval `[tin, tout]` of parameters inside the box -/
theorem Box.ray_interval (b : Box) (hb : b.proper) (p d : Pt) :
    (b.rayHit p d = none ∧ ∀ t, b.mem (p.along d t) = false) ∨
    (b.u.dot d = 0 ∧ b.v.dot d = 0 ∧ b.w.dot d = 0 ∧ b.rayHit p d = none ∧ ∀ t, b.mem (p.along d t) = b.mem p) ∨
    (∃ tin tout, (∀ t, b.mem (p.along d t) = true ↔ tin ≤ t ∧ t ≤ tout) ∧
      b.rayHit p d = if tin ≤ tout ∧ 0 < tin then some (p.along d tin) else none) := by
  obtain ⟨hx, hy, hz⟩ := hb
  have sx := slab_spec (b.local p).x (b.u.dot d) b.h.x hx
  have sy := slab_spec (b.local p).y (b.v.dot d) b.h.y hy
  have sz := slab_spec (b.local p).z (b.w.dot d) b.h.z hz
  have notmem : ∀ t, ¬ (b.mem (p.along d t) = true) → b.mem (p.along d t) = false := fun t h => by simpa using h
  cases ex : slab (b.local p).x (b.u.dot d) b.h.x with
  | none =>
    left
    exact ⟨by unfold Box.rayHit; simp only [ex], fun t => notmem t (fun h => sx.1 ex t ((b.mem_along p d t).mp h).1)⟩
  | some ix =>
  cases ey : slab (b.local p).y (b.v.dot d) b.h.y with
  | none =>
    left
    exact ⟨by unfold Box.rayHit; simp only [ex, ey], fun t => notmem t (fun h => sy.1 ey t ((b.mem_along p d t).mp h).2.1)⟩
  | some iy =>
  cases ez : slab (b.local p).z (b.w.dot d) b.h.z with
  | none =>
    left
    exact ⟨by unfold Box.rayHit; simp only [ex, ey, ez], fun t => notmem t (fun h => sz.1 ez t ((b.mem_along p d t).mp h).2.2)⟩
  | some iz =>
  right
  have hray : b.rayHit p d =
      (match ((if b.u.dot d = 0 then [] else [ix]) ++ (if b.v.dot d = 0 then [] else [iy]) ++
          (if b.w.dot d = 0 then [] else [iz]) : List (Rat × Rat)) with
       | [] => none
       | s0 :: rest =>
         if rest.foldl (fun a s => maxR a s.1) s0.1 ≤ rest.foldl (fun a s => minR a s.2) s0.2 ∧
            0 < rest.foldl (fun a s => maxR a s.1) s0.1
         then some (p.along d (rest.foldl (fun a s => maxR a s.1) s0.1)) else none) := by
    unfold Box.rayHit
    simp only [ex, ey, ez]
    rfl
  -- membership at parameter t in terms of the intervals of the axes with a non-zero direction
  have hmem : ∀ t, b.mem (p.along d t) = true ↔
      ∀ s ∈ ((if b.u.dot d = 0 then [] else [ix]) ++ (if b.v.dot d = 0 then [] else [iy]) ++
          (if b.w.dot d = 0 then [] else [iz]) : List (Rat × Rat)), s.1 ≤ t ∧ t ≤ s.2 := by
    intro t
    rw [b.mem_along p d t]
    have ax : absR ((b.local p).x + t * b.u.dot d) ≤ b.h.x ↔ (b.u.dot d = 0 ∨ (ix.1 ≤ t ∧ t ≤ ix.2)) := by
      by_cases h0 : b.u.dot d = 0
      · simp only [h0, true_or, iff_true]; have := sx.2.1 ix ex h0 t; rwa [h0] at this
      · simp only [h0, false_or]; exact sx.2.2 ix ex h0 t
    have ay : absR ((b.local p).y + t * b.v.dot d) ≤ b.h.y ↔ (b.v.dot d = 0 ∨ (iy.1 ≤ t ∧ t ≤ iy.2)) := by
      by_cases h0 : b.v.dot d = 0
      · simp only [h0, true_or, iff_true]; have := sy.2.1 iy ey h0 t; rwa [h0] at this
      · simp only [h0, false_or]; exact sy.2.2 iy ey h0 t
    have az : absR ((b.local p).z + t * b.w.dot d) ≤ b.h.z ↔ (b.w.dot d = 0 ∨ (iz.1 ≤ t ∧ t ≤ iz.2)) := by
      by_cases h0 : b.w.dot d = 0
      · simp only [h0, true_or, iff_true]; have := sz.2.1 iz ez h0 t; rwa [h0] at this
      · simp only [h0, false_or]; exact sz.2.2 iz ez h0 t
    rw [ax, ay, az]
    by_cases h1 : b.u.dot d = 0 <;> by_cases h2 : b.v.dot d = 0 <;> by_cases h3 : b.w.dot d = 0 <;>
      simp [h1, h2, h3]
  cases hins : ((if b.u.dot d = 0 then [] else [ix]) ++ (if b.v.dot d = 0 then [] else [iy]) ++
          (if b.w.dot d = 0 then [] else [iz]) : List (Rat × Rat)) with
  | nil =>
    left
    have h1 : b.u.dot d = 0 := by by_contra h; simp [h] at hins
    have h2 : b.v.dot d = 0 := by by_contra h; simp [h] at hins
    have h3 : b.w.dot d = 0 := by by_contra h; simp [h] at hins
    refine ⟨h1, h2, h3, by rw [hray, hins], fun t => ?_⟩
    have e : b.local (p.along d t) = b.local p := by
      rw [Box.local_along, h1, h2, h3]; simp
    unfold Box.mem; rw [e]
  | cons s0 rest =>
    right
    refine ⟨rest.foldl (fun a s => maxR a s.1) s0.1, rest.foldl (fun a s => minR a s.2) s0.2, fun t => ?_, ?_⟩
    · rw [hmem t, hins]; exact inter_intervals s0 rest t
    · rw [hray, hins]

/-- **first hit**: a hit returned by `rayHit` lies at a positive parameter, belongs to the box, and no point of
    the line before it does -/
theorem rayHit_first (b : Box) (hb : b.proper) (p d q : Pt) (h : b.rayHit p d = some q) :
    ∃ t, 0 < t ∧ q = p.along d t ∧ b.mem q = true ∧ ∀ s, s < t → b.mem (p.along d s) = false := by
  rcases b.ray_interval hb p d with ⟨hn, _⟩ | ⟨_, _, _, hn, _⟩ | ⟨tin, tout, hm, hr⟩
  · rw [hn] at h; cases h
  · rw [hn] at h; cases h
  · rw [hr] at h
    by_cases hc : tin ≤ tout ∧ 0 < tin
    · simp only [hc, and_self, if_true, Option.some.injEq] at h
      refine ⟨tin, hc.2, h.symm, ?_, fun s hs => ?_⟩
      · rw [← h]; exact (hm tin).mpr ⟨le_refl _, hc.1⟩
      · have : ¬ (b.mem (p.along d s) = true) := fun hh => absurd ((hm s).mp hh).1 (not_le.mpr hs)
        simpa using this
    · simp only [hc, if_false] at h; cases h

/-- **no hit**: from a point outside the box, `rayHit` returns nothing only when no point of the ray
    (`t ≥ 0`) belongs to the box -/
theorem rayHit_none (b : Box) (hb : b.proper) (p d : Pt) (hp : b.mem p = false) (h : b.rayHit p d = none) :
    ∀ s, 0 ≤ s → b.mem (p.along d s) = false := by
  have h0 : p.along d 0 = p := by cases p; simp [Pt.along, Pt.add, Pt.smul]
  rcases b.ray_interval hb p d with ⟨_, hno⟩ | ⟨_, _, _, _, hc⟩ | ⟨tin, tout, hm, hr⟩
  · exact fun s _ => hno s
  · exact fun s _ => by rw [hc s, hp]
  · intro s hs
    rw [hr] at h
    have hnot : ¬ (tin ≤ tout ∧ 0 < tin) := by
      intro hc; simp only [hc, and_self, if_true] at h; cases h
    have hp0 : ¬ (tin ≤ 0 ∧ 0 ≤ tout) := by
      intro hc
      have := (hm 0).mpr hc
      rw [h0, hp] at this; cases this
    have : ¬ (b.mem (p.along d s) = true) := by
      intro hh
      obtain ⟨h1, h2⟩ := (hm s).mp hh
      by_cases hpos : 0 < tin
      · exact hnot ⟨le_trans h1 h2, hpos⟩
      · exact hp0 ⟨not_lt.mp hpos, le_trans hs h2⟩
    simpa using this

theorem Pt.dsq_along (p d : Pt) (t : Rat) : Pt.dsq p (p.along d t) = (t * t) * d.dot d := by
  simp only [Pt.dsq, Pt.along, Pt.add, Pt.smul, Pt.dot, sq]; ring

theorem Pt.along_neg (p d : Pt) (t : Rat) : p.along ⟨-d.x, -d.y, -d.z⟩ t = p.along d (-t) := by
  simp only [Pt.along, Pt.add, Pt.smul, Pt.mk.injEq]; refine ⟨?_, ?_, ?_⟩ <;> ring

/-- **`projectVector` returns the nearest member along the given direction** (`axis=1` present): the result is a
    member of the box on the line `p + t·d`, no member of that line is nearer to `p` — in either direction —, and
    there is no result only if the line misses the box altogether -/
theorem projectVector_nearest (F : Flags) (hF : F.projectAxis1 = true) (b : Box) (hb : b.proper) (p d : Pt) :
    (∀ q, projectVector F b p d = some q →
      b.mem q = true ∧ ∃ t, q = p.along d t ∧ ∀ s, b.mem (p.along d s) = true → t * t ≤ s * s) ∧
    (projectVector F b p d = none → ∀ s, b.mem (p.along d s) = false) := by
  have h0 : p.along d 0 = p := by cases p; simp [Pt.along, Pt.add, Pt.smul]
  unfold projectVector
  by_cases hp : b.mem p = true
  · rw [if_pos hp]
    refine ⟨fun q hq => ?_, fun h => by cases h⟩
    have e : p = q := by simpa using hq
    subst e
    exact ⟨hp, 0, h0.symm, fun s _ => by nlinarith [mul_self_nonneg s]⟩
  · have hp' : b.mem p = false := by simpa using hp
    simp only [hp', Bool.false_eq_true, if_false, hF]
    -- the two rays
    have fwd := rayHit_first b hb p d
    have bwd := rayHit_first b hb p ⟨-d.x, -d.y, -d.z⟩
    have nfwd := rayHit_none b hb p d hp'
    have nbwd := rayHit_none b hb p ⟨-d.x, -d.y, -d.z⟩ hp'
    -- every member of the line is at least as far as the first hit of its ray
    have key : ∀ s, b.mem (p.along d s) = true →
        (∃ q t, b.rayHit p d = some q ∧ q = p.along d t ∧ 0 < t ∧ t ≤ s) ∨
        (∃ q t, b.rayHit p ⟨-d.x, -d.y, -d.z⟩ = some q ∧ q = p.along d (-t) ∧ 0 < t ∧ t ≤ -s) := by
      intro s hs
      rcases le_total 0 s with hs0 | hs0
      · left
        cases hr : b.rayHit p d with
        | none => have := nfwd hr s hs0; rw [hs] at this; cases this
        | some q =>
          obtain ⟨t, ht, hq, _, hbefore⟩ := fwd q hr
          refine ⟨q, t, rfl, hq, ht, ?_⟩
          by_contra hc
          have := hbefore s (not_le.mp hc); rw [hs] at this; cases this
      · right
        have hs' : b.mem (Pt.along p ⟨-d.x, -d.y, -d.z⟩ (-s)) = true := by rw [Pt.along_neg]; simpa using hs
        cases hr : b.rayHit p ⟨-d.x, -d.y, -d.z⟩ with
        | none => have := nbwd hr (-s) (by linarith); rw [hs'] at this; cases this
        | some q =>
          obtain ⟨t, ht, hq, _, hbefore⟩ := bwd q hr
          refine ⟨q, t, rfl, by rw [hq, Pt.along_neg], ht, ?_⟩
          by_contra hc
          have := hbefore (-s) (not_le.mp hc); rw [hs'] at this; cases this
    constructor
    · intro q hq
      obtain ⟨hmemq, hmin⟩ := selectHit_nearest p _ q hq
      -- q is one of the two first hits
      have hq' : b.rayHit p d = some q ∨ b.rayHit p ⟨-d.x, -d.y, -d.z⟩ = some q := by
        simp only [List.mem_filterMap, List.mem_cons, List.not_mem_nil, or_false, id] at hmemq
        obtain ⟨a, ha | ha, haq⟩ := hmemq
        · left; rw [← ha]; exact haq
        · right; rw [← ha]; exact haq
      -- its parameter
      have hqt : ∃ t, q = p.along d t ∧ b.mem q = true := by
        rcases hq' with hr | hr
        · obtain ⟨t, _, e, m, _⟩ := fwd q hr; exact ⟨t, e, m⟩
        · obtain ⟨t, _, e, m, _⟩ := bwd q hr; exact ⟨-t, by rw [e, Pt.along_neg], m⟩
      obtain ⟨t, et, mq⟩ := hqt
      refine ⟨mq, t, et, fun s hs => ?_⟩
      -- compare with the first hit of the ray that contains the member
      have hdd : 0 < d.dot d := by
        have hnn : 0 ≤ d.dot d := by
          simp only [Pt.dot]; nlinarith [mul_self_nonneg d.x, mul_self_nonneg d.y, mul_self_nonneg d.z]
        rcases lt_or_eq_of_le hnn with h | h
        · exact h
        · exfalso
          have hx : d.x = 0 := by simp only [Pt.dot] at h; nlinarith [mul_self_nonneg d.x, mul_self_nonneg d.y, mul_self_nonneg d.z]
          have hy : d.y = 0 := by simp only [Pt.dot] at h; nlinarith [mul_self_nonneg d.x, mul_self_nonneg d.y, mul_self_nonneg d.z]
          have hz : d.z = 0 := by simp only [Pt.dot] at h; nlinarith [mul_self_nonneg d.x, mul_self_nonneg d.y, mul_self_nonneg d.z]
          have : p.along d s = p := by cases p; simp [Pt.along, Pt.add, Pt.smul, hx, hy, hz]
          rw [this, hp'] at hs; cases hs
      have cmp : ∀ q' t', q' = p.along d t' → q' ∈ ([b.rayHit p d, b.rayHit p ⟨-d.x, -d.y, -d.z⟩].filterMap id) →
          t * t ≤ t' * t' := by
        intro q' t' e hm'
        have := hmin q' hm'
        rw [et, e, Pt.dsq_along, Pt.dsq_along] at this
        exact le_of_mul_le_mul_right this hdd
      rcases key s hs with ⟨q', t', hr, e, ht', hle⟩ | ⟨q', t', hr, e, ht', hle⟩
      · have := cmp q' t' e (by simp [List.mem_filterMap, hr])
        nlinarith
      · have := cmp q' (-t') e (by simp [List.mem_filterMap, hr])
        nlinarith
    · intro hnone
      have hnil := (selectHit_nil_iff p _).mp hnone
      intro s
      by_contra hc
      have hs : b.mem (p.along d s) = true := by simpa using hc
      rcases key s hs with ⟨q', _, hr, _⟩ | ⟨q', _, hr, _⟩
      · simp [hr] at hnil
      · simp [hr] at hnil

example : projectVector ⟨true, .selfZ, .selfZ, true, true, .selfZ, .selfZ, true, true, true, false⟩
    (Box.aligned ⟨0, 0, 0⟩ ⟨1, 1, 1⟩) ⟨0, 0, 5⟩ ⟨0, 0, 1⟩ = some ⟨0, 0, 1⟩ := by
  decide +kernel

example : (Box.aligned ⟨0, 0, 0⟩ ⟨1, 1, 1⟩).proper := by
  simp [Box.proper, Box.aligned]

end Scenic.Region
