import ScenicModel.Props.C14Overrides

/-!
# C14 (part 2): nothing is carried over from one simulation to the next

The top-level `DynamicScenario` object is shared by all simulations of a compiled scenario.  If `_stop`
forgets the overrides it has reverted (`stopClears`), its `_overrides` are empty again after every
simulation, however that simulation ended; hence a whole history of simulations (of the same or of
different scenes) leaves all scenes untouched.
-/
namespace Scenic.C14
open Scenic.Overrides

/-- invariant of the top-level frame: it keeps remembered overrides only while running -/
def TopOK (f : Frame) (r : Bool) : Prop :=
  f.id = 0 ∧ f.anc = [] ∧ (r = true → f.status = .running) ∧ (f.status = .running ∨ f.saved = [])

def TopInv (st : St) (r : Bool) : Prop := ∃ f rest, st.frames = f :: rest ∧ TopOK f r

theorem TopOK.weaken {f : Frame} {r : Bool} (h : TopOK f r) : TopOK f false :=
  ⟨h.1, h.2.1, by simp, h.2.2.2⟩

theorem TopInv.weaken {st : St} {r : Bool} (h : TopInv st r) : TopInv st false := by
  obtain ⟨f, rest, h1, h2⟩ := h
  exact ⟨f, rest, h1, h2.weaken⟩

theorem inSub_top (s : Nat) (f : Frame) (h1 : f.id = 0) (h2 : f.anc = []) : inSub s f = true ↔ s = 0 := by
  unfold inSub; rw [h1, h2]
  simp only [List.contains_nil, Bool.or_false, beq_iff_eq]
  exact eq_comm

theorem stopFrame_top (cfg : Cfg) (hc : cfg.stopClears = true) (s : Nat) (f : Frame) (r : Bool)
    (h : TopOK f r) : TopOK (stopFrame cfg s f) (if s = 0 then false else r) := by
  obtain ⟨h1, h2, h3, h4⟩ := h
  unfold stopFrame
  split
  · rename_i hv
    simp only [Bool.and_eq_true] at hv
    have hs : s = 0 := (inSub_top s f h1 h2).mp hv.2
    exact ⟨h1, h2, by simp [hs], Or.inr rfl⟩
  · refine ⟨h1, h2, ?_, h4⟩
    intro hr
    by_cases e : s = 0
    · simp [e] at hr
    · simp only [e, if_false] at hr; exact h3 hr

theorem stopScen_top (cfg : Cfg) (hc : cfg.stopClears = true) (st : St) (s : Nat) (r : Bool)
    (h : TopInv st r) : TopInv (stopScen cfg st s) (if s = 0 then false else r) := by
  obtain ⟨f, rest, h1, h2⟩ := h
  unfold stopScen
  split
  · exact ⟨stopFrame cfg s f, rest.map (stopFrame cfg s), by simp [h1], stopFrame_top cfg hc s f r h2⟩
  · refine ⟨f, rest, h1, h2.1, h2.2.1, ?_, h2.2.2.2⟩
    intro hr
    by_cases e : s = 0
    · simp [e] at hr
    · simp only [e, if_false] at hr; exact h2.2.2.1 hr

theorem stopFrame_running_mono (cfg : Cfg) (s : Nat) (f : Frame)
    (h : isRunning (stopFrame cfg s f) = true) : isRunning f = true := by
  unfold stopFrame at h
  split at h
  · simp [isRunning] at h
  · exact h

theorem stopScen_topRunning_mono (cfg : Cfg) (st : St) (s : Nat)
    (h : topRunning (stopScen cfg st s) = true) : topRunning st = true := by
  unfold stopScen at h
  split at h
  · cases hf : st.frames with
    | nil => simp [topRunning, hf] at h
    | cons f rest =>
      simp only [topRunning, hf, List.map_cons] at h ⊢
      exact stopFrame_running_mono cfg s f h
  · exact h

theorem stopScen_zero_topRunning (cfg : Cfg) (st : St) (h : TopInv st false) :
    topRunning (stopScen cfg st 0) = false := by
  obtain ⟨f, rest, h1, h2, h3, _, _⟩ := h
  unfold stopScen
  split
  · simp only [topRunning, h1, List.map_cons]
    unfold stopFrame
    split
    · simp [isRunning]
    · rename_i hv
      have : inSub 0 f = true := (inSub_top 0 f h2 h3).mpr rfl
      simp only [this, Bool.and_true] at hv
      simpa using hv
  · rename_i hany
    simp only [h1, List.any_cons, Bool.or_eq_true, not_or, Bool.and_eq_true, not_and] at hany
    have := hany.1
    simp only [topRunning, h1]
    cases hr : isRunning f with
    | false => rfl
    | true => exact absurd hr (this (by simp [h2]))

theorem stopList_top (cfg : Cfg) (hc : cfg.stopClears = true) (l : List Nat) : ∀ (st : St),
    TopInv st false → (topRunning st = true → 0 ∈ l) →
    TopInv (l.foldl (stopScen cfg) st) false ∧ topRunning (l.foldl (stopScen cfg) st) = false := by
  induction l with
  | nil =>
    intro st h hr
    refine ⟨h, ?_⟩
    cases ht : topRunning st with
    | false => exact ht
    | true => exact absurd (hr ht) (by simp)
  | cons s rest ih =>
    intro st h hr
    simp only [List.foldl_cons]
    have h1 : TopInv (stopScen cfg st s) false := (stopScen_top cfg hc st s false h).weaken
    apply ih _ h1
    intro ht
    by_cases e : s = 0
    · subst e
      rw [stopScen_zero_topRunning cfg st h] at ht
      exact absurd ht (by simp)
    · have := hr (stopScen_topRunning_mono cfg st s ht)
      simp only [List.mem_cons] at this
      rcases this with h0 | h0
      · exact absurd h0.symm e
      · exact h0

theorem stopAllRunning_top (cfg : Cfg) (hc : cfg.stopClears = true) (st : St) (h : TopInv st false) :
    TopInv (stopAllRunning cfg st) false ∧ topRunning (stopAllRunning cfg st) = false := by
  unfold stopAllRunning
  apply stopList_top cfg hc _ st h
  intro ht
  obtain ⟨f, rest, h1, h2, _⟩ := h
  simp only [topRunning, h1] at ht
  simp only [List.mem_map, List.mem_filter, List.mem_reverse]
  exact ⟨f, ⟨by simp [h1], ht⟩, h2⟩

theorem overrideFrame_top (cfg : Cfg) (s : Nat) (o : ObjId) (olds : List (PropId × Val)) (f : Frame) (r : Bool)
    (h : TopOK f r) (hr : ¬ s = 0 ∨ r = true) : TopOK (overrideFrame cfg s o olds f) r := by
  obtain ⟨h1, h2, h3, h4⟩ := h
  unfold overrideFrame
  split
  · rename_i e
    have hs : s = 0 := by simp only [beq_iff_eq] at e; omega
    have hr' : r = true := by
      rcases hr with h0 | h0
      · exact absurd hs h0
      · exact h0
    exact ⟨h1, h2, fun _ => h3 hr', Or.inl (h3 hr')⟩
  · exact ⟨h1, h2, h3, h4⟩

theorem startFrame_top (s : Nat) (f : Frame) (r : Bool) (h : TopOK f r) :
    TopOK (startFrame s f) (if s = 0 then true else r) := by
  obtain ⟨h1, h2, h3, h4⟩ := h
  unfold startFrame
  split
  · exact ⟨h1, h2, fun _ => rfl, Or.inl rfl⟩
  · rename_i e
    have hs : ¬ s = 0 := by
      intro hs; apply e; simp [h1, hs]
    refine ⟨h1, h2, ?_, h4⟩
    intro hr; simp only [hs, if_false] at hr; exact h3 hr

theorem step_top (cfg : Cfg) (hc : cfg.stopClears = true) (st : St) (ev : Ev) (rest : List Ev) (r : Bool)
    (h : TopInv st r) (hd : topDiscipline r (ev :: rest) = true) :
    ∃ r', TopInv (step cfg st ev) r' ∧ topDiscipline r' rest = true := by
  cases ev with
  | create o =>
    refine ⟨r, ?_, by simpa [topDiscipline] using hd⟩
    obtain ⟨f, fr, h1, h2⟩ := h; exact ⟨f, fr, h1, h2⟩
  | write o p v =>
    refine ⟨r, ?_, by simpa [topDiscipline] using hd⟩
    obtain ⟨f, fr, h1, h2⟩ := h; exact ⟨f, fr, h1, h2⟩
  | override s o ps =>
    simp only [topDiscipline, Bool.and_eq_true, Bool.or_eq_true, bne_iff_ne, ne_eq] at hd
    refine ⟨r, ?_, hd.2⟩
    obtain ⟨f, fr, h1, h2⟩ := h
    have hfr : (step cfg st (.override s o ps)).frames =
        overrideFrame cfg s o (ps.map (fun pv => (pv.1, st.w.read o pv.1))) f ::
          fr.map (overrideFrame cfg s o (ps.map (fun pv => (pv.1, st.w.read o pv.1)))) := by
      simp only [step, doOverride, h1, List.map_cons]
    exact ⟨_, _, hfr, overrideFrame_top cfg s o _ f r h2 hd.1⟩
  | prepare s par =>
    refine ⟨r, ?_, by simpa [topDiscipline] using hd⟩
    obtain ⟨f, fr, h1, h2⟩ := h
    have hfr : (step cfg st (.prepare s par)).frames = f :: (step cfg st (.prepare s par)).frames.tail := by
      simp [step, doPrepare, h1]
    exact ⟨f, _, hfr, h2⟩
  | start s =>
    simp only [topDiscipline] at hd
    refine ⟨_, ?_, hd⟩
    obtain ⟨f, fr, h1, h2⟩ := h
    have hfr : (step cfg st (.start s)).frames = startFrame s f :: fr.map (startFrame s) := by
      simp only [step, doStart, h1, List.map_cons]
    exact ⟨_, _, hfr, startFrame_top s f r h2⟩
  | stop s =>
    simp only [topDiscipline] at hd
    exact ⟨_, stopScen_top cfg hc st s r h, hd⟩

theorem run_top (cfg : Cfg) (hc : cfg.stopClears = true) : ∀ (evs : List Ev) (st : St) (r : Bool),
    TopInv st r → topDiscipline r evs = true → TopInv (run cfg st evs) false := by
  intro evs
  induction evs with
  | nil => intro st r h _; exact h.weaken
  | cons ev rest ih =>
    intro st r h hd
    obtain ⟨r', h1, h2⟩ := step_top cfg hc st ev rest r h hd
    exact ih _ r' h1 h2

theorem cleanup_top (cfg : Cfg) (hc : cfg.stopClears = true) (a : Bool) (hab : (a || cfg.agentsEarly) = true) :
    ∀ (steps : List Step) (st : St) (e : Bool), TopInv st false →
    (.stopScenarios ∈ steps ∨ topRunning st = false) →
    TopInv (cleanup cfg a steps st e).1 false ∧ topRunning (cleanup cfg a steps st e).1 = false := by
  intro steps
  induction steps with
  | nil =>
    intro st e h hm
    rcases hm with hm | hm
    · simp at hm
    · exact ⟨h, hm⟩
  | cons s rest ih =>
    intro st e h hm
    cases s with
    | destroy => simp only [cleanup, cleanupStep]; exact ih _ _ h (by simpa using hm)
    | disableProxies =>
      simp only [cleanup, cleanupStep]
      apply ih
      · obtain ⟨f, fr, h1, h2⟩ := h; exact ⟨f, fr, h1, h2⟩
      · rcases hm with hm | hm
        · left; simpa using hm
        · right; exact hm
    | stopBehaviors =>
      simp only [cleanup, hab, if_true]; exact ih _ _ h (by simpa using hm)
    | stopScenarios =>
      simp only [cleanup, cleanupStep]
      have := stopAllRunning_top cfg hc st h
      exact ih _ _ this.1 (Or.inr this.2)
    | endSimulation => simp only [cleanup]; exact ih _ _ h (by simpa using hm)

/-- **`_overrides` of the shared top-level scenario is empty again after every simulation**, however it
    ended, provided `_stop` forgets what it has reverted. -/
theorem sim_forgets_overrides (cfg : Cfg) (w : World) (agentsSet : Bool) (evs : List Ev)
    (hc : cfg.stopClears = true) (hab : (agentsSet || cfg.agentsEarly) = true)
    (hstop : .stopScenarios ∈ cfg.order) (hd : topDiscipline false evs = true) :
    (runSim cfg w [] agentsSet evs).stale = [] := by
  have h0 : TopInv (initSt w []) false := ⟨_, _, rfl, rfl, rfl, by simp, Or.inr rfl⟩
  have h1 := run_top cfg hc evs _ false h0 hd
  have h2 := cleanup_top cfg hc agentsSet hab cfg.order _ false h1 (Or.inl hstop)
  obtain ⟨f, fr, e1, _, _, _, e5⟩ := h2.1
  have hr := h2.2
  simp only [runSim, topSaved, e1]
  simp only [topRunning, e1, isRunning] at hr
  rcases e5 with e5 | e5
  · simp [e5] at hr
  · exact e5

/-- A history of simulations: each is scoped (it only touches objects it created) and disciplined. -/
def goodHist : List (Bool × List Ev) → Bool
  | [] => true
  | (_, evs) :: rest => scopedEvs [] evs && topDiscipline false evs && goodHist rest

/-- **every later use**: any number of simulations, of the same or of different scenes of one compiled
    scenario, each ending in any way, leaves every scene's objects untouched and nothing remembered. -/
theorem hist_scene_untouched (cfg : Cfg) (hord : safeOrder cfg.order = true) (hc : cfg.stopClears = true)
    (hae : cfg.agentsEarly = true) (hstop : .stopScenarios ∈ cfg.order) :
    ∀ (sims : List (Bool × List Ev)) (w : World), goodHist sims = true →
    (runHist cfg w [] sims).1.orig = w.orig ∧ (runHist cfg w [] sims).2 = [] := by
  intro sims
  induction sims with
  | nil => intro w _; exact ⟨rfl, rfl⟩
  | cons sim rest ih =>
    intro w hg
    obtain ⟨a, evs⟩ := sim
    simp only [goodHist, Bool.and_eq_true] at hg
    have hab : (a || cfg.agentsEarly) = true := by simp [hae]
    have h1 := sim_scene_untouched cfg w a evs hord hg.1.1
    have h2 := sim_forgets_overrides cfg w a evs hc hab hstop hg.1.2
    simp only [runHist]
    rw [h2]
    have := ih (runSim cfg w [] a evs).w hg.2
    exact ⟨this.1.trans h1, this.2⟩

/-- … and afterwards no object is proxied, so **every property of every object of every scene reads as
    before the whole history**. -/
theorem hist_reads_unchanged (cfg : Cfg) (hord : safeOrder cfg.order = true) (hc : cfg.stopClears = true)
    (hae : cfg.agentsEarly = true) (hstop : .stopScenarios ∈ cfg.order) (hdis : .disableProxies ∈ cfg.order) :
    ∀ (sims : List (Bool × List Ev)) (w : World), NoneProxied w → goodHist sims = true →
    NoneProxied (runHist cfg w [] sims).1 ∧ ∀ o p, (runHist cfg w [] sims).1.read o p = w.read o p := by
  intro sims
  induction sims with
  | nil => intro w hw _; exact ⟨hw, fun _ _ => rfl⟩
  | cons sim rest ih =>
    intro w hw hg
    obtain ⟨a, evs⟩ := sim
    simp only [goodHist, Bool.and_eq_true] at hg
    have hab : (a || cfg.agentsEarly) = true := by simp [hae]
    have h1 := sim_reads_unchanged cfg w a evs hw hab hdis hord hg.1.1
    have h2 := sim_forgets_overrides cfg w a evs hc hab hstop hg.1.2
    have h3 := sim_proxies_disabled cfg w [] a evs hw hab hdis
    simp only [runHist]
    rw [h2]
    have := ih (runSim cfg w [] a evs).w h3 hg.2
    exact ⟨this.1, fun o p => (this.2 o p).trans (h1 o p)⟩

example : goodHist [(true, [.create 0, .start 0, .write 0 0 5, .override 0 0 [(0, 7)]]),
                    (true, [.create 1, .start 0, .write 1 0 5])] = true := by decide

end Scenic.C14
