/-! # C05 — property theorems (stub: filled in when the property's model is built) -/
namespace Scenic.C05
end Scenic.C05
