import ScenicModel.Props.C05Expr
import ScenicModel.Props.C05Support
import ScenicModel.Props.C05Delayed
import ScenicModel.Gen.ExprTables
import ScenicModel.Gen.SupportFormulas

/-!
# C05 — property theorems, instantiated on the data regenerated from /repo

`Scenic.Gen.exprTables` (identity simplifications of `makeOperatorHandler`, the vector operators installed by
`vectorOperator`, the dispatch form of `OperatorDistribution.sampleGiven`, the zero test of
`makeVectorOperatorHandler`), `Scenic.Gen.supportFormulas` (the interval formulas of
`OperatorDistribution.supportInterval`) and `Scenic.Gen.monotoneDeclared` are rewritten from the source on every check
run; the side conditions below are re-checked by the kernel on that data.
-/
namespace Scenic.C05
open Scenic.Expr Scenic.Support Scenic.Gen

/-! ## side conditions on generated data -/

/-- every identity simplification in the code is a sound identity on numbers, and the zero-identity flags of the
    vector operators are the ones the model of `Vector.__add__ / __radd__ / __sub__` assumes -/
theorem gen_tables_wf : exprTables.WF = true := by decide

/-- `supportInterval` pairs each operator with its own formula -/
theorem gen_support_table_ok : supportFormulas.tableOK = true := by decide

/-- the interval formulas extracted from `OperatorDistribution.supportInterval` are sound (the scripts only use the
    general interval lemmas, so an equivalent rewrite of a formula usually still proves; a swapped bound does not) -/
theorem gen_formulas_sound : supportFormulas.Sound where
  add := by
    intro l1 r1 l2 r2 x y h1 h2 h3 h4
    constructor <;> intro b hb <;> simp [supportFormulas] at hb <;> subst hb <;> linarith
  sub := by
    intro l1 r1 l2 r2 x y h1 h2 h3 h4
    constructor <;> intro b hb <;> simp [supportFormulas] at hb <;> subst hb <;> linarith
  rsub := by
    intro l1 r1 l2 r2 x y h1 h2 h3 h4
    constructor <;> intro b hb <;> simp [supportFormulas] at hb <;> subst hb <;> linarith
  mul := by
    intro l1 r1 l2 r2 x y h1 h2 h3 h4
    have hb := mul_bounds l1 r1 l2 r2 x y h1 h2 h3 h4
    constructor <;> intro b hb' <;> simp [supportFormulas] at hb' <;> subst hb'
    · exact hb.1
    · exact hb.2
  truediv := by
    intro l1 r1 l2 r2 x y h1 h2 h3 h4 _
    constructor <;> intro b hb <;> simp only [supportFormulas] at hb <;> split at hb <;> simp at hb <;> subst hb
    · rename_i hl2; exact div_lower l1 l2 r2 x y hl2 h1 h3 h4
    · rename_i hl2; exact div_upper r1 l2 r2 x y hl2 h2 h3 h4
  rtruediv := by
    intro l1 r1 l2 r2 x y h1 h2 h3 h4 _
    constructor <;> intro b hb <;> simp only [supportFormulas] at hb <;> split at hb <;> simp at hb <;> subst hb
    · rename_i hl1; exact div_lower l2 l1 r1 y x hl1 h3 h1 h2
    · rename_i hl1; exact div_upper r2 l1 r1 y x hl1 h4 h1 h2
  neg := by
    intro l r x h1 h2
    constructor <;> intro b hb <;> simp [supportFormulas] at hb <;> subst hb <;> linarith
  abs := by
    intro l r x h1 h2
    constructor <;> intro b hb <;> simp only [supportFormulas, Option.some.injEq] at hb <;> subst hb <;>
      split_ifs <;> (try unfold rmax) <;> (try split_ifs) <;> linarith

/-- every function declared `monotonicDistributionFunction` is one the model has classified: `max`, `min` (monotone,
    `support_sound` covers them) or `hypot` (**not** monotone: `hypot_not_monotone`; finding
    support:hypot-declared-monotonic, replayed on the real code by the check while it is still declared) -/
theorem gen_monotone_classified : monotoneDeclared.all (fun f => f ∈ ["max", "min", "hypot"]) = true := by decide

/-- the operators that capture expressions are the ones modelled (`__divmod__`, `__round__`, `__call__` are exercised
    by the direct oracle only) -/
theorem gen_operators_known :
    reversibleOperators.all (fun f => f ∈ ["__add__", "__radd__", "__sub__", "__rsub__", "__mul__", "__rmul__",
      "__truediv__", "__rtruediv__", "__floordiv__", "__rfloordiv__", "__mod__", "__rmod__", "__divmod__",
      "__rdivmod__", "__pow__", "__rpow__"]) = true ∧
    allowedOperators.all (fun f => f ∈ ["__neg__", "__pos__", "__abs__", "__round__", "__getitem__", "__len__"]) = true ∧
    vectorPlainDunders.all (fun f => f ∈ ["__rmul__"]) = true := by decide

/-! ## the property theorems on the generated data -/

/-- On the supported fragment, the value an expression over random values takes in a scene (the forest Scenic builds,
    sampled) equals what ordinary Python computes from the sampled leaves.

    Full statement: `∀ env e, evalNode exprTables env (build exprTables e) = evalPy env e`.  It is false of the
    unchanged code (`Expr.reflected_concat_witness`; findings operator-dispatch:*, vector-handler-sequence-operand);
    `supportedB` (Model/ExprSupported.lean) spells out what is excluded: the places where the model itself shows a
    difference (reflected `+`/`-` on sampled sequences with the getattr emulation of `sampleGiven`, sequence operands
    of the VectorDistribution handler, a constant container indexed by a random value, `*` applied to a Vector with
    random coordinates, `str % x`), the lazily discarded parts of raw tuples (Scenic evaluates only what is used),
    and arithmetic on raw tuples (`(x, 1) + (2,)`, not attempted). -/
theorem forest_eval_eq_python_partial (env : Env) (e : Expr) (h : supportedB exprTables env e = true) :
    evalNode exprTables env (build exprTables e) = evalPy env e :=
  Expr.forest_eval_eq_python exprTables gen_tables_wf env e h

/-- non-vacuity: a nested expression with identity-shaped constants, a reflected operator, a literal, indexing and a
    starred call is inside the fragment, and is not constant -/
example :
    let e : Expr :=
      .call .max [.star (.mkseq false [.bin .add (.leaf 0 .number) (.const (.num 0)),
                                        .bin .sub (.const (.num 1)) (.leaf 1 .number)]),
                  .pos (.getitem (.leaf 2 .other) (.bin .mul (.const (.num 1)) (.leaf 3 .number)))]
    let env : Env := fun i => if i = 2 then .seq false [.num 7, .num 8] else if i = 3 then .num 1 else .num (1 / 2)
    supportedB exprTables env e = true ∧
      (match evalPy env e with | some (.num q) => q == 8 | _ => false) = true := by
  constructor <;> decide +kernel

/-- every simplification `X op c → X` performed by `makeOperatorHandler` leaves the value unchanged, for all numbers -/
theorem simp_table_sound (e : SimpEntry) (he : e ∈ exprTables.simp) (x : Rat) :
    (if e.refl then pyBin e.op (.num e.const) (.num x) else pyBin e.op (.num x) (.num e.const)) = some (.num x) :=
  Expr.simp_table_sound exprTables gen_tables_wf e he x

example : (⟨.mul, true, 1⟩ : SimpEntry) ∈ exprTables.simp := by decide

/-- whenever `supportInterval` reports bounds, every value the distribution can take lies inside them
    (operators + − × ÷ and their reflected forms, neg, abs, Range, DiscreteRange, Options / attribute-of-Options,
    max / min, TruncatedNormal).

    Full statement: the same for every function declared `monotonicDistributionFunction` in geometry.py.  Missing:
    `hypot`, for which it is false (`hypot_declared_monotone_witness`; finding support:hypot-declared-monotonic). -/
theorem support_sound_partial (ivs : Nat → Supp) (leafSem : Nat → Rat → Prop)
    (hleaf : ∀ i v, leafSem i v → within (ivs i) v) (e : SExpr) (s : Supp) (v : Rat)
    (hs : support supportFormulas ivs e = some s) (hv : Sem leafSem e v) : within s v :=
  Support.support_sound supportFormulas gen_formulas_sound gen_support_table_ok ivs leafSem hleaf e s v hs hv

/-- non-vacuity: `abs(Range(-3, 1)) * Range(2, 4)` reports the bounds [0, 12] -/
example : support supportFormulas (fun _ => (none, none))
    (.bin .mul false (.un .abs (.range (.const (-3)) (.const 1))) (.range (.const 2) (.const 4))) =
      some (some 0, some 12) := by decide +kernel

/-- `hypot` is declared monotone in geometry.py although it is not: with bounds [-3, 1] the reported support is
    [hypot(-3), hypot(1)] = [3, 1], which does not contain hypot(0) = 0 (squares compared) -/
theorem hypot_declared_monotone_witness : ¬ ∀ x y : Rat, x ≤ y → hypotSq [x] ≤ hypotSq [y] :=
  hypot_not_monotone

/-- delayed arguments and `self.`-dependent defaults are evaluated against the final property values -/
theorem delayed_eval_final {α} (pre : List (Delayed.Spec α)) (s : Delayed.Spec α) (post : List (Delayed.Spec α))
    (ctx0 : Delayed.Ctx α) (hwo : Delayed.wellOrdered (s :: post) = true) (hloc : s.local) (q : Nat) :
    s.value (Delayed.run pre ctx0) q = s.value (Delayed.run (pre ++ s :: post) ctx0) q :=
  Delayed.delayed_eval_final pre s post ctx0 hwo hloc q

end Scenic.C05
