import ScenicModel.Props.C05Expr
import ScenicModel.Props.C05Support
import ScenicModel.Props.C05Delayed
import ScenicModel.Gen.ExprTables
import ScenicModel.Gen.SupportFormulas
import ScenicModel.Gen.DelayedShapes

/-!
# C05 — property theorems, instantiated on the data regenerated from /repo

`Scenic.Gen.exprTables` (identity simplifications of `makeOperatorHandler`, the vector operators installed by
`vectorOperator`, the dispatch form of `OperatorDistribution.sampleGiven`, the zero test of
`makeVectorOperatorHandler`), `Scenic.Gen.supportFormulas` (the interval formulas of
`OperatorDistribution.supportInterval`) and `Scenic.Gen.monotoneDeclared` are rewritten from the source on every check
run; the side conditions below are re-checked by the kernel on that data.
-/
namespace Scenic.C05
open Scenic.Expr Scenic.Support Scenic.Gen

/-! ## side conditions on generated data -/

/-- every identity simplification in the code is a sound identity on numbers, the zero-identity flags of the
    vector operators are the ones the model of `Vector.__add__ / __radd__ / __sub__` assumes, and the code has the
    three repaired shapes the model is a model of (3236edde Python's own operator dispatch in `sampleGiven`,
    2964538d the VectorDistribution handler accepts tuples/lists, e4f79cbd the vector operators wrap their operands) -/
theorem gen_tables_wf : exprTables.WF = true := by decide

/-- `supportInterval` pairs each operator with its own formula -/
theorem gen_support_table_ok : supportFormulas.tableOK = true := by decide

/-- the interval formulas extracted from `OperatorDistribution.supportInterval` are sound (the scripts only use the
    general interval lemmas, so an equivalent rewrite of a formula usually still proves; a swapped bound does not) -/
theorem gen_formulas_sound : supportFormulas.Sound where
  add := by
    intro l1 r1 l2 r2 x y h1 h2 h3 h4
    constructor <;> intro b hb <;> simp [supportFormulas] at hb <;> subst hb <;> linarith
  sub := by
    intro l1 r1 l2 r2 x y h1 h2 h3 h4
    constructor <;> intro b hb <;> simp [supportFormulas] at hb <;> subst hb <;> linarith
  rsub := by
    intro l1 r1 l2 r2 x y h1 h2 h3 h4
    constructor <;> intro b hb <;> simp [supportFormulas] at hb <;> subst hb <;> linarith
  mul := by
    intro l1 r1 l2 r2 x y h1 h2 h3 h4
    have hb := mul_bounds l1 r1 l2 r2 x y h1 h2 h3 h4
    constructor <;> intro b hb' <;> simp [supportFormulas] at hb' <;> subst hb'
    · exact hb.1
    · exact hb.2
  truediv := by
    intro l1 r1 l2 r2 x y h1 h2 h3 h4 _
    constructor <;> intro b hb <;> simp only [supportFormulas] at hb <;> split at hb <;> simp at hb <;> subst hb
    · rename_i hl2; exact div_lower l1 l2 r2 x y hl2 h1 h3 h4
    · rename_i hl2; exact div_upper r1 l2 r2 x y hl2 h2 h3 h4
  rtruediv := by
    intro l1 r1 l2 r2 x y h1 h2 h3 h4 _
    constructor <;> intro b hb <;> simp only [supportFormulas] at hb <;> split at hb <;> simp at hb <;> subst hb
    · rename_i hl1; exact div_lower l2 l1 r1 y x hl1 h3 h1 h2
    · rename_i hl1; exact div_upper r2 l1 r1 y x hl1 h4 h1 h2
  neg := by
    intro l r x h1 h2
    constructor <;> intro b hb <;> simp [supportFormulas] at hb <;> subst hb <;> linarith
  abs := by
    intro l r x h1 h2
    constructor <;> intro b hb <;> simp only [supportFormulas, Option.some.injEq] at hb <;> subst hb <;>
      split_ifs <;> (try unfold rmax) <;> (try split_ifs) <;> linarith
  hypAbs := by
    intro l r x h1 h2
    simp only [supportFormulas, absR]
    refine ⟨?_, ?_, ?_⟩ <;> split_ifs <;> linarith

/-- every function declared `monotonicDistributionFunction` is monotone: only `max` and `min` may be (`hypot` is
    not: `hypot_not_monotone`; it has its own support function, whose per-argument transform is `hypAbs`) -/
theorem gen_monotone_classified : monotoneDeclared.all (fun f => f ∈ ["max", "min"]) = true := by decide

/-- two repaired shapes of code outside the Lean model (checked on the real code by the direct oracle only):
    `scalarOperator` samples a Vector with random coordinates it is applied to (3b90c565), and the selector of a
    MultiplexerDistribution is not stored in an attribute that shadows a method of the sampled values (e1aeac6d) -/
theorem gen_unmodelled_repairs_in_place :
    scalarOperatorSamplesSelf = true ∧ multiplexerSelectorPrivate = true := by decide

/-- the operators that capture expressions are the ones modelled (`__divmod__`, `__round__`, `__call__` are exercised
    by the direct oracle only) -/
theorem gen_operators_known :
    reversibleOperators.all (fun f => f ∈ ["__add__", "__radd__", "__sub__", "__rsub__", "__mul__", "__rmul__",
      "__truediv__", "__rtruediv__", "__floordiv__", "__rfloordiv__", "__mod__", "__rmod__", "__divmod__",
      "__rdivmod__", "__pow__", "__rpow__"]) = true ∧
    allowedOperators.all (fun f => f ∈ ["__neg__", "__pos__", "__abs__", "__round__", "__getitem__", "__len__"]) = true ∧
    vectorPlainDunders.all (fun f => f ∈ ["__rmul__"]) = true := by decide

/-! ## the property theorems on the generated data -/

/-- The value an expression over random values takes in a scene (the forest Scenic builds, sampled) equals what
    ordinary Python computes from the sampled leaves.

    `supportedB` (Model/ExprSupported.lean, evaluated by the driver for every explored case) excludes only the places
    where the model itself shows that Scenic and plain Python differ — no shape is excluded because its proof was not
    attempted: a short all-zero sequence added to a constant Vector (`Expr.short_zero_sequence_witness`; finding
    vector-zero-identity-short-sequence), `str % x`, a constant container indexed by a random value (rejected with
    TypeError while compiling), the lazily discarded parts of raw tuples (Scenic evaluates only what is used), and
    `*v` for a Vector with random coordinates (rejected while compiling).  The unconditional statement
    `∀ env e, evalNode exprTables env (build exprTables e) = evalPy env e` is false for exactly these reasons, hence
    the name. -/
theorem forest_eval_eq_python_partial (env : Env) (e : Expr) (h : supportedB exprTables env e = true) :
    evalNode exprTables env (build exprTables e) = evalPy env e :=
  Expr.forest_eval_eq_python exprTables gen_tables_wf env e h

/-- a VectorOperatorDistribution is only ever built on an object whose static type is Vector (so that its
    `getattr(first, op)(*rest)` finds the Vector method) -/
theorem build_vecWF (e : Expr) : vecWF (build exprTables e) = true := Expr.build_vecWF exprTables e

/-- non-vacuity: a nested expression with identity-shaped constants, a reflected operator, a literal, indexing and a
    starred call is inside the fragment, and is not constant -/
example :
    let e : Expr :=
      .call .max [.star (.mkseq false [.bin .add (.leaf 0 .number) (.const (.num 0)),
                                        .bin .sub (.const (.num 1)) (.leaf 1 .number)]),
                  .pos (.getitem (.leaf 2 .other) (.bin .mul (.const (.num 1)) (.leaf 3 .number)))]
    let env : Env := fun i => if i = 2 then .seq false [.num 7, .num 8] else if i = 3 then .num 1 else .num (1 / 2)
    supportedB exprTables env e = true ∧
      (match evalPy env e with | some (.num q) => q == 8 | _ => false) = true := by
  constructor <;> decide +kernel

/-- every simplification `X op c → X` performed by `makeOperatorHandler` leaves the value unchanged, for all numbers -/
theorem simp_table_sound (e : SimpEntry) (he : e ∈ exprTables.simp) (x : Rat) :
    (if e.refl then pyBin e.op (.num e.const) (.num x) else pyBin e.op (.num x) (.num e.const)) = some (.num x) :=
  Expr.simp_table_sound exprTables gen_tables_wf e he x

example : (⟨.mul, true, 1⟩ : SimpEntry) ∈ exprTables.simp := by decide

/-- whenever `supportInterval` reports bounds, every value the distribution can take lies inside them:
    operators + − × ÷ and their reflected forms, neg, abs, Range, DiscreteRange, Options / attribute-of-Options,
    TruncatedNormal, and every function of geometry.py that has a support function — `max` / `min`
    (`monotonicDistributionFunction`) and `hypot` (`_hypotSupport`).  `hyp` stands for `math.hypot` on floats, of
    which only monotonicity in the absolute values of the arguments is assumed. -/
theorem support_sound (hyp : List Rat → Rat) (hH : HypMono hyp) (ivs : Nat → Supp) (leafSem : Nat → Rat → Prop)
    (hleaf : ∀ i v, leafSem i v → within (ivs i) v) (e : SExpr) (s : Supp) (v : Rat)
    (hs : support supportFormulas hyp ivs e = some s) (hv : Sem hyp leafSem e v) : within s v :=
  Support.support_sound supportFormulas gen_formulas_sound gen_support_table_ok hyp hH ivs leafSem hleaf e s v hs hv

/-- non-vacuity: `abs(Range(-3, 1)) * Range(2, 4)` reports the bounds [0, 12] -/
example : support supportFormulas (fun _ => 0) (fun _ => (none, none))
    (.bin .mul false (.un .abs (.range (.const (-3)) (.const 1))) (.range (.const 2) (.const 4))) =
      some (some 0, some 12) := by decide +kernel

/-- non-vacuity for `hypot` (regression 57b1c90f): the bounds of `hypot(Range(-3, 1), 2)` are
    `(hyp [0, 2], hyp [3, 2])` — computed from the absolute values — and not `(hyp [-3, 2], hyp [1, 2])` -/
example (hyp : List Rat → Rat) : support supportFormulas hyp (fun _ => (none, none))
    (.hypot [.range (.const (-3)) (.const 1), .const 2]) = some (some (hyp [0, 2]), some (hyp [3, 2])) := by
  simp [support, supportList, unionOfSupports, supFold, hypSupport, hypBounds, supportFormulas, rmin, rmax]
  norm_num

/-- delayed arguments and `self.`-dependent defaults are evaluated against the final property values -/
theorem delayed_eval_final {α} (pre : List (Delayed.Spec α)) (s : Delayed.Spec α) (post : List (Delayed.Spec α))
    (ctx0 : Delayed.Ctx α) (hwo : Delayed.wellOrdered (s :: post) = true) (hloc : s.local) (q : Nat) :
    s.value (Delayed.run pre ctx0) q = s.value (Delayed.run (pre ++ s :: post) ctx0) q :=
  Delayed.delayed_eval_final pre s post ctx0 hwo hloc q

/-- side condition on generated data: every constructor of derived DelayedArguments in lazy_eval.py
    (`makeDelayedFunctionCall` for positional **and keyword** arguments, `DelayedArgument.__call__`, the operator
    handlers, `__getattr__`) unions the required properties of every operand it evaluates -/
theorem gen_delayed_shapes_wf : delayedShapes.WF = true := by decide

/-- a lifted call over lazily evaluated operands (positional or keyword, nested) used as a specifier value is
    evaluated against the final values of the properties it refers to, on the shapes extracted from the source -/
theorem lifted_call_eval_final (I : Nat → List (Bool × Int) → Int) (d : Delayed.DVal) (sets : List Nat)
    (pre post : List (Delayed.Spec Int)) (ctx0 : Delayed.Ctx Int)
    (hwo : Delayed.wellOrdered (Delayed.delayedSpec delayedShapes I d sets :: post) = true) :
    Delayed.headVal (Delayed.evalD I (Delayed.run pre ctx0) d) =
      Delayed.headVal (Delayed.evalD I (Delayed.run (pre ++ Delayed.delayedSpec delayedShapes I d sets :: post) ctx0) d) :=
  Delayed.lifted_call_eval_final delayedShapes gen_delayed_shapes_wf I d sets pre post ctx0 hwo

/-- non-vacuity: `with foo f(10, k=<lazy p0>)` evaluated after the provider of `p0` and after the specifier
    modifying `p0` is well ordered; listed between them it is not -/
example : Delayed.wellOrdered
    [⟨[], [0], fun _ _ => 5⟩, ⟨[], [0], fun _ _ => 6⟩,
     Delayed.delayedSpec delayedShapes (fun _ l => Delayed.headVal l)
       (.call .fnCall 0 (.arg false (.const 10) (.arg true (.prop 0) .nil))) [1]] = true := by decide

example : Delayed.wellOrdered
    [⟨[], [0], fun _ _ => 5⟩,
     Delayed.delayedSpec delayedShapes (fun _ l => Delayed.headVal l)
       (.call .fnCall 0 (.arg false (.const 10) (.arg true (.prop 0) .nil))) [1],
     ⟨[], [0], fun _ _ => 6⟩] = false := by decide

end Scenic.C05
