import ScenicModel.Lemmas.SimTop
/-! # C12 (part 3) — every scenario instance, monitors of sub-scenarios, `terminate simulation when`

Theorems that hold for **every** scenario instance `i` (the top-level scenario and every
sub-scenario started by `do`, at any nesting depth), every state and every fuel:

* `terminate after`: a scenario whose elapsed time has reached its limit is stopped at the start of
  its step — its compose block, its sub-scenarios and its `terminate when` conditions do not run —
  and it returns to its parent (`stepScen_limit`, `stepScen_limit_log`);
* a scenario only continues past a step if its limit was not reached at the start of the step and
  none of its `terminate when` conditions held at the end of it (`stepScen_cont`);
* `terminate` executed by a monitor of a sub-scenario stops that sub-scenario only: nothing but
  `terminate simulation` is handed up by the loop over the sub-scenarios (`monSubs_only_endSim`,
  `runMonitors_endScen_own`);
* `terminate` executed by a behavior whose scenario has already ended is an empty turn
  (`terminate_after_scenario_ended`);
* `do … for/until` in a compose block stops the running sub-scenarios and continues after the
  statement (`do_modifier_fires_compose`, `compose_stopSubs`);
* a `terminate simulation when` condition that evaluates to true — in whichever running scenario
  — is the last thing the run does before stopping the scenarios (`terminate_simulation_when_last`). -/
namespace Scenic.C12
open Scenic.SimLoop

theorem checkReqs_inst (P : Prog) (i : Nat) (st : St) (k : Nat) : (checkReqs P i st).inst k = st.inst k := by
  simp [St.inst, (checkReqs_insts P i st).1]

/-- **`terminate after` (every scenario instance).**  If the scenario's elapsed time has reached its
    limit when its step begins, the step consists of the requirement check and `_stop`: the
    scenario does not run its compose block, and reports to its caller that it has stopped. -/
theorem stepScen_limit (P : Prog) (cf n i : Nat) (st : St)
    (h : limitReached (P.scens.getD (st.inst i).cls default) (st.inst i) = true) :
    stepScen P cf (n + 1) i st = (stopScen n i (checkReqs P i st), .stopped) := by
  simp only [stepScen, checkReqs_inst, h, if_true]

/-- … and the only events of such a step are the logged requirement and `stop` events: no compose
    block, no condition, no object creation. -/
theorem stepScen_limit_log (P : Prog) (cf n i : Nat) (st : St)
    (h : limitReached (P.scens.getD (st.inst i).cls default) (st.inst i) = true) :
    ∃ l, (stepScen P cf (n + 1) i st).1.log = st.log ++ l ∧ (stepScen P cf (n + 1) i st).1.time = st.time ∧
      ∀ e ∈ l, e = .q i ∨ e.isStop = true := by
  rw [stepScen_limit P cf n i st h]
  obtain ⟨ht, l, hl, hC⟩ := (stop_ext n).1 i (checkReqs P i st)
  have ht0 := (checkReqs_insts P i st).2.1
  have hq : (checkReqs P i st).log = st.log ∨ (checkReqs P i st).log = st.log ++ [.q i] := by
    unfold checkReqs; split <;> simp [St.emit]
  rcases hq with hq | hq
  · exact ⟨l, by rw [hl, hq], ht.trans ht0, fun e he => Or.inr (hC e he)⟩
  · refine ⟨.q i :: l, by rw [hl, hq]; simp, ht.trans ht0, ?_⟩
    intro e he
    simp only [List.mem_cons] at he
    rcases he with rfl | he
    · exact Or.inl rfl
    · exact Or.inr (hC e he)

/-- **`terminate after` / `terminate when` (every scenario instance).**  A scenario's step returns
    "continue" only if its time limit had not been reached when the step began and none of its
    `terminate when` conditions holds at the clock of the step. -/
theorem stepScen_cont (P : Prog) (cf n i : Nat) (st : St) (h : (stepScen P cf n i st).2 = .cont) :
    limitReached (P.scens.getD (st.inst i).cls default) (st.inst i) = false ∧
    ∀ c ∈ (P.scens.getD (st.inst i).cls default).termWhen, P.code.cond c st.time = false := by
  cases n with
  | zero => simp [stepScen] at h
  | succ n =>
    simp only [stepScen, checkReqs_inst] at h
    have t1 := (checkReqs_insts P i st).2.1
    generalize checkReqs P i st = st1 at h t1
    split at h
    · simp at h
    · rename_i hlim
      refine ⟨by simpa using hlim, ?_⟩
      have t2 : (st1.modInst i fun x => { x with elapsed := x.elapsed + 1 }).time = st.time := t1
      generalize (st1.modInst i fun x => { x with elapsed := x.elapsed + 1 }) = st2 at h t2
      split at h
      · have := afterCompose_cont P cf n i _ true st2 h
        rwa [t2] at this
      · rename_i s _
        have hext := (scen_ext P cf n).2.2.1 i (resume P.code (.comp i) st2.time cf s) st2 (by
          intro e he
          obtain ⟨l', hl', hC⟩ := resume_log P.code (.comp i) st2.time cf s
          rw [hl'] at he
          exact isScen_of_comp i e (hC e (by simpa using he)))
        generalize composeHandle P cf n i (resume P.code (.comp i) st2.time cf s) st2 = r at h hext
        obtain ⟨st3, cr⟩ := r
        have t3 : st3.time = st.time := hext.1.trans t2
        cases cr with
        | aborted => simp at h
        | done =>
          have := afterCompose_cont P cf n i _ true _ h
          rwa [show (st3.modInst i fun x => { x with co := none }).time = st.time from t3] at this
        | yielded y s' =>
          cases y with
          | endScen => simp at h
          | endSim => simp at h
          | acts a =>
            have := afterCompose_cont P cf n i _ false _ h
            rwa [show (st3.modInst i fun x => { x with co := some s' }).time = st.time from t3] at this

-- non-vacuity: a sub-scenario instance (number 1, class 1) with `terminate after 2 steps` that has run 2 steps
example :
    let P : Prog := ⟨⟨[], []⟩, [], [{ agents := [], mons := [], compose := none, limit := none, termWhen := [], reqAlways := false },
      { agents := [], mons := [], compose := some [.forever [.log 1, .wait]], limit := some 2, termWhen := [], reqAlways := true }], 9⟩
    let st : St := ⟨2, [⟨0, true, 2, none, [], [1]⟩, ⟨1, true, 2, some [.forever [.log 1, .wait]], [], []⟩], [], [], none⟩
    (stepScen P 50 5 1 st).2 = .stopped ∧ (stepScen P 50 5 1 st).1.log = [.q 1, .stop 1] := by
  decide +kernel

/-! ## monitors of sub-scenarios -/

/-- **`terminate` in a monitor of a sub-scenario.**  The loop of `_runMonitors` over the
    sub-scenarios hands up nothing but `terminate simulation`: whatever the sub-scenarios' monitors
    did, the answer is the one accumulated so far or `endSim`. -/
theorem monSubs_only_endSim (P : Prog) (cf : Nat) : ∀ (n : Nat) (l : List Nat) (r : MRet) (st : St),
    (monSubs P cf n l r st).2 = r ∨ (monSubs P cf n l r st).2 = .endSim := by
  intro n
  induction n with
  | zero => intro l r st; left; simp [monSubs]
  | succ n ih =>
    intro l r st
    cases l with
    | nil => left; simp [monSubs]
    | cons j rest =>
      simp only [monSubs]
      generalize runMonitors P cf n j st = q
      obtain ⟨st1, rj⟩ := q
      simp only
      split
      · left; rfl
      · split
        · rcases ih rest .endSim st1 with h | h <;> exact Or.inr h
        · exact ih rest r st1

/-- Consequently `_runMonitors` of a scenario reports `terminate` (which, for the top-level scenario,
    ends the simulation with `terminatedByMonitor`) only if one of the scenario's **own** monitors
    executed `terminate` in this step — never because a monitor of a sub-scenario did. -/
theorem runMonitors_endScen_own (P : Prog) (cf n i : Nat) (st : St)
    (h : (runMonitors P cf (n + 1) i st).2 = .endScen) :
    (stepMons P cf i 0 (st.inst i).mons st).2.2.2 = true := by
  simp only [runMonitors] at h
  generalize stepMons P cf i 0 (st.inst i).mons st = q at h ⊢
  obtain ⟨st1, mons', es, et⟩ := q
  simp only at h ⊢
  split at h
  · simp at h
  · have hm := monSubs_only_endSim P cf n ((st1.modInst i fun x => { x with mons := mons' }).inst i).subs
      (if es = true then MRet.endSim else MRet.none) (st1.modInst i fun x => { x with mons := mons' })
    generalize monSubs P cf n ((st1.modInst i fun x => { x with mons := mons' }).inst i).subs
      (if es = true then MRet.endSim else MRet.none) (st1.modInst i fun x => { x with mons := mons' }) = q2 at h hm
    obtain ⟨st3, sub⟩ := q2
    simp only at h hm
    split at h
    · simp at h
    · cases et with
      | true => rfl
      | false =>
        exfalso
        have hsub : sub ≠ .endScen := by
          rcases hm with hm | hm
          · rw [hm]; split <;> simp
          · rw [hm]; simp
        cases sub <;> simp_all

/-! ## `terminate` in a behavior whose scenario has ended -/

/-- **`terminate` after the defining scenario has ended.**  If an agent's behavior executes
    `terminate` and the scenario that defined the agent is no longer running (and is not the
    top-level scenario), the turn is an empty action: no scenario is stopped and the simulation
    goes on. -/
theorem terminate_after_scenario_ended (P : Prog) (cf fuel a : Nat) (st : St) (s : Stack)
    (hres : (resume P.code (.beh a) st.time cf (st.agents.getD a default).co).res = .yield .endScen s)
    (hnr : (st.inst (st.agents.getD a default).parent).running = false)
    (hp : (st.agents.getD a default).parent ≠ 0) (hab0 : st.abort = none) :
    (behTurn P cf fuel a st).2 = .acts none ∧
    (behTurn P cf fuel a st).1.log = st.log ++ [.bstep a] ++
      (resume P.code (.beh a) st.time cf (st.agents.getD a default).co).log := by
  unfold behTurn
  simp only [show (st.emit (.bstep a)).time = st.time from rfl, hres]
  have hi : ∀ k, (((st.emit (.bstep a)).emits (resume P.code (.beh a) st.time cf (st.agents.getD a default).co).log).setAgentCo a s).inst k
      = st.inst k := fun k => rfl
  have hab : (((st.emit (.bstep a)).emits (resume P.code (.beh a) st.time cf (st.agents.getD a default).co).log).setAgentCo a s).abort.isSome
      = false := by simp [St.setAgentCo, St.emits, St.emit, hab0]
  simp only [hi, hnr, Bool.false_eq_true, if_false, hab, hp]
  exact ⟨trivial, rfl⟩

/-! ## `do … for/until` in a compose block -/

/-- what the scenario does with the coroutine's `stopSubs` request (`handler` of
    `_invokeSubBehavior`): the sub-scenarios that are still running are stopped, then the compose
    block continues, in the same step, with the statement after the `do` -/
theorem compose_stopSubs (P : Prog) (cf n i : Nat) (l : List Ev) (s : Stack) (st : St) :
    composeHandle P cf (n + 1) i ⟨l, .stopSubs s⟩ st =
      (let st' := stopList n ((st.emits l).inst i).subs (st.emits l)
       if st'.abort.isSome then (st', .aborted)
       else composeHandle P cf n i (exec P.code (.comp i) st'.time cf s []) st') := by
  simp only [composeHandle]

/-! ## `terminate simulation when`: nothing else runs -/

theorem DS.fin2_run (t : Nat) : ∀ (l : List Ev) (s' : DS), (DS.fin2 t).run l = some s' → ∀ e ∈ l, e = .recFinal := by
  intro l
  induction l with
  | nil => intro _ _ e he; simp at he
  | cons e rest ih =>
    intro s' h e' he'
    simp only [DS.run] at h
    cases e
    all_goals try (simp [DS.step] at h; done)
    simp only [DS.step] at h
    simp only [List.mem_cons] at he'
    rcases he' with rfl | he'
    · rfl
    · exact ih s' h e' he'

theorem DS.fin_run (t : Nat) : ∀ (l : List Ev) (s' : DS), (DS.fin t).run l = some s' →
    ∀ e ∈ l, e.isStop = true ∨ e = .recFinal := by
  intro l
  induction l with
  | nil => intro _ _ e he; simp at he
  | cons e rest ih =>
    intro s' h e' he'
    simp only [DS.run] at h
    cases e
    all_goals try (simp [DS.step] at h; done)
    · -- stop
      simp only [DS.step] at h
      simp only [List.mem_cons] at he'
      rcases he' with rfl | he'
      · exact Or.inl rfl
      · exact ih s' h e' he'
    · -- recFinal
      simp only [DS.step] at h
      simp only [List.mem_cons] at he'
      rcases he' with rfl | he'
      · exact Or.inr rfl
      · exact Or.inr (DS.fin2_run t rest s' h e' he')

theorem DS.ts_true_step (s s' : DS) (c : Nat) (h : s.step (.cond .termSim c true) = some s') : ∃ t, s' = .fin t := by
  cases s <;> simp [DS.step, Ev.isScen, Ev.isMon] at h
  all_goals first | exact ⟨_, h.symm⟩ | (obtain ⟨_, h⟩ := h; exact ⟨_, h.symm⟩)

/-- **`terminate simulation when`, in whichever running scenario.**  Once one of the conditions has
    evaluated to true, the only things that still happen in the run are the `stop` of the scenarios
    that are still running and the final records: no other condition is evaluated, no behavior
    runs, no action is executed, the simulator does not step. -/
theorem terminate_simulation_when_last (P : Prog) (S : Sem) (cf fuel : Nat) (sched : Nat → Nat → List Nat)
    (hS : S.order = Phase.documented) (l1 l2 : List Ev) (c : Nat)
    (hlog : (simulate P S cf fuel sched).log = l1 ++ .cond .termSim c true :: l2) :
    ∀ e ∈ l2, e.isStop = true ∨ e = .recFinal := by
  obtain ⟨s, h1, _⟩ := simulate_order P S cf fuel sched hS
  rw [hlog, DS.run_append] at h1
  cases hs1 : DS.start.run l1 with
  | none => simp [hs1] at h1
  | some s1 =>
    simp only [hs1, Option.bind_some, DS.run] at h1
    cases hs2 : s1.step (.cond .termSim c true) with
    | none => simp [hs2] at h1
    | some s2 =>
      simp only [hs2] at h1
      obtain ⟨t, rfl⟩ := DS.ts_true_step s1 s2 c hs2
      exact DS.fin_run t l2 s h1

end Scenic.C12
