import ScenicModel.Lemmas.SpecPerm
import ScenicModel.Gen.SpecTable

/-!
# C06 (part 3): class-level merging of defaults, 2-D rewriting, side conditions on the generated table
-/
namespace Scenic.C06
open Scenic.Spec

/-! ### class-level merging of defaults -/

/-- the definitions of property `p` along the MRO, most derived first -/
def defsFor (mro : List ClassDecl) (p : String) : List (String × PropDefault) :=
  mro.flatMap (fun c => (c.props.filter (fun pd => pd.1 = p)).map (fun pd => (c.name, pd.2)))

theorem collect_fold (name : String) (p : String) (props : List (String × PropDefault)) :
    ∀ (acc : List (String × List (String × PropDefault))),
    (get (props.foldl (fun a pd => put a pd.1 ((get a pd.1).getD [] ++ [(name, pd.2)])) acc) p).getD [] =
      (get acc p).getD [] ++ (props.filter (fun pd => pd.1 = p)).map (fun pd => (name, pd.2)) := by
  induction props with
  | nil => intro acc; simp
  | cons pd rest ih =>
    intro acc
    simp only [List.foldl_cons]
    rw [ih]
    by_cases hp : pd.1 = p
    · subst hp
      simp [get_put_self]
    · rw [get_put_ne _ _ hp]
      simp [hp]

theorem collectDefs_getD (mro : List ClassDecl) (p : String) :
    ∀ (acc : List (String × List (String × PropDefault))),
    (get (collectDefs mro acc) p).getD [] = (get acc p).getD [] ++ defsFor mro p := by
  induction mro with
  | nil => intro acc; simp [collectDefs, defsFor]
  | cons c rest ih =>
    intro acc
    simp only [collectDefs]
    rw [ih, collect_fold]
    simp [defsFor, List.append_assoc]

theorem collectDefs_keys_nodup (mro : List ClassDecl) :
    ∀ (acc : List (String × List (String × PropDefault))), (acc.map (·.1)).Nodup →
      ((collectDefs mro acc).map (·.1)).Nodup := by
  induction mro with
  | nil => intro acc h; exact h
  | cons c rest ih =>
    intro acc h
    simp only [collectDefs]
    apply ih
    generalize c.props = props
    induction props generalizing acc with
    | nil => exact h
    | cons pd ps ihp => simp only [List.foldl_cons]; exact ihp _ (put_keys_nodup _ _ _ h)

/-- what `mergeLoop` computes, entry by entry -/
theorem mergeLoop_spec (L : List (String × List (String × PropDefault))) :
    ∀ (m0 m : Merged), mergeLoop L m0 = some m →
      (∀ e ∈ L, ∃ r, resolveFor e.2 = some r) ∧
      m.defaults = m0.defaults ++ L.filterMap (fun e => (resolveFor e.2).map (fun r => (e.1, r))) ∧
      m.finals = m0.finals ++ (L.filter (fun e => (e.2.head?.map (fun d => d.2.final)).getD false)).map (·.1) ∧
      m.dynamics = m0.dynamics ++ (L.filter (fun e => e.2.any (fun d => d.2.dynamic))).map (·.1) := by
  induction L with
  | nil => intro m0 m h; simp only [mergeLoop, Option.some.injEq] at h; subst h; simp
  | cons e rest ih =>
    intro m0 m h
    obtain ⟨p, defs⟩ := e
    simp only [mergeLoop] at h
    cases hr : resolveFor defs with
    | none => rw [hr] at h; cases h
    | some r =>
      rw [hr] at h
      simp only at h
      obtain ⟨h1, h2, h3, h4⟩ := ih _ m h
      refine ⟨?_, ?_, ?_, ?_⟩
      · intro e he
        rcases List.mem_cons.mp he with rfl | he
        · exact ⟨r, hr⟩
        · exact h1 e he
      · rw [h2]; simp [hr, List.append_assoc]
      · rw [h3]
        by_cases hf : (defs.head?.map (fun d => d.2.final)).getD false = true
        · simp [hf, List.append_assoc]
        · simp [hf]
      · rw [h4]
        by_cases hd : defs.any (fun d => d.2.dynamic) = true
        · simp [hd, List.append_assoc]
        · simp [hd]

/-- `resolveFor` on a non-empty list of definitions -/
theorem resolveFor_cons (c : String) (d : PropDefault) (rest : List (String × PropDefault)) :
    resolveFor ((c, d) :: rest) =
      if rest.any (fun x => x.2.final) then none
      else if d.additive then some ⟨sortDedup (d.deps ++ rest.flatMap (fun x => x.2.deps)), c :: rest.map (·.1)⟩
      else some ⟨sortDedup d.deps, [c]⟩ := rfl

/-- **Final properties cannot be overridden.** If some class of the MRO other than the most derived one
defining `p` declares `p` final, the class definition is refused. -/
theorem merge_final_not_overridable (mro : List ClassDecl) (p c : String) (d : PropDefault)
    (rest : List (String × PropDefault)) (hdefs : defsFor mro p = (c, d) :: rest)
    (x : String × PropDefault) (hx : x ∈ rest) (hfin : x.2.final = true) : mergeDefaults mro = none := by
  cases h : mergeDefaults mro with
  | none => rfl
  | some m =>
    exfalso
    unfold mergeDefaults at h
    obtain ⟨hall, _, _, _⟩ := mergeLoop_spec _ _ _ h
    have hg := collectDefs_getD mro p []
    simp only [Spec.get, Option.getD_none, List.nil_append] at hg
    rw [hdefs] at hg
    cases hgp : get (collectDefs mro []) p with
    | none => rw [hgp] at hg; simp at hg
    | some defs =>
      rw [hgp] at hg
      simp only [Option.getD_some] at hg
      obtain ⟨r, hr⟩ := hall (p, defs) (mem_of_get hgp)
      simp only at hr
      rw [hg, resolveFor_cons] at hr
      have : rest.any (fun x => x.2.final) = true := List.any_eq_true.mpr ⟨x, hx, hfin⟩
      rw [if_pos this] at hr; cases hr

theorem get_filterMap_keys {β γ} (L : List (String × β)) (f : β → Option γ) (p : String)
    (hall : ∀ e ∈ L, ∃ r, f e.2 = some r) :
    get (L.filterMap (fun e => (f e.2).map (fun r => (e.1, r)))) p = (get L p).bind f := by
  induction L with
  | nil => simp [Spec.get]
  | cons e rest ih =>
    obtain ⟨k, v⟩ := e
    obtain ⟨r, hr⟩ := hall (k, v) (by simp)
    simp only at hr
    simp only [List.filterMap_cons, hr, Option.map_some, Spec.get]
    by_cases hk : k = p
    · simp [hk, hr]
    · simp only [hk, if_false]
      exact ih (fun e he => hall e (List.mem_cons_of_mem _ he))

/-- the merged default of `p`, in terms of the definitions along the MRO -/
theorem merge_default (mro : List ClassDecl) (m : Merged) (h : mergeDefaults mro = some m) (p : String) :
    get m.defaults p = (if defsFor mro p = [] then none else resolveFor (defsFor mro p)) := by
  unfold mergeDefaults at h
  obtain ⟨hall, hdef, _, _⟩ := mergeLoop_spec _ _ _ h
  rw [hdef]
  simp only [List.nil_append]
  rw [get_filterMap_keys _ _ _ hall]
  have hg := collectDefs_getD mro p []
  simp only [Spec.get, Option.getD_none, List.nil_append] at hg
  cases hgp : get (collectDefs mro []) p with
  | none =>
    rw [hgp] at hg
    simp only [Option.getD_none] at hg
    rw [← hg]; simp
  | some defs =>
    rw [hgp] at hg
    simp only [Option.getD_some] at hg
    rw [← hg]
    simp only [Option.bind_some]
    obtain ⟨r, hr⟩ := hall (p, defs) (mem_of_get hgp)
    simp only at hr
    split
    · rename_i h0; rw [h0] at hr; simp [resolveFor] at hr
    · rfl

/-- **The most derived default wins.** For a non-additive property the merged default evaluates the
expression of the first class of the MRO that defines it, and depends on exactly its dependencies. -/
theorem merge_most_derived (mro : List ClassDecl) (m : Merged) (h : mergeDefaults mro = some m)
    (p c : String) (d : PropDefault) (rest : List (String × PropDefault))
    (hdefs : defsFor mro p = (c, d) :: rest) (hadd : d.additive = false) :
    get m.defaults p = some ⟨sortDedup d.deps, [c]⟩ := by
  rw [merge_default mro m h p, hdefs]
  simp only [reduceCtorEq, if_false, resolveFor_cons, hadd, Bool.false_eq_true]
  split
  · rename_i hfin
    obtain ⟨x, hx, hxf⟩ := List.any_eq_true.mp hfin
    rw [merge_final_not_overridable mro p c d rest hdefs x hx hxf] at h; cases h
  · rfl

/-- **Additive properties collect every definition** of the MRO, most derived first, and depend on the
union of their dependencies. -/
theorem merge_additive_collects (mro : List ClassDecl) (m : Merged) (h : mergeDefaults mro = some m)
    (p c : String) (d : PropDefault) (rest : List (String × PropDefault))
    (hdefs : defsFor mro p = (c, d) :: rest) (hadd : d.additive = true) :
    get m.defaults p = some ⟨sortDedup (d.deps ++ rest.flatMap (fun x => x.2.deps)), c :: rest.map (·.1)⟩ := by
  rw [merge_default mro m h p, hdefs]
  simp only [reduceCtorEq, if_false, resolveFor_cons, hadd, if_true]
  split
  · rename_i hfin
    obtain ⟨x, hx, hxf⟩ := List.any_eq_true.mp hfin
    rw [merge_final_not_overridable mro p c d rest hdefs x hx hxf] at h; cases h
  · rfl

/-- The final properties of a class are those whose most derived definition says `final`. -/
theorem merge_finals (mro : List ClassDecl) (m : Merged) (h : mergeDefaults mro = some m) (p : String) :
    p ∈ m.finals ↔ ∃ c d rest, defsFor mro p = (c, d) :: rest ∧ d.final = true := by
  unfold mergeDefaults at h
  obtain ⟨_, _, hfin, _⟩ := mergeLoop_spec _ _ _ h
  rw [hfin]
  simp only [List.nil_append, List.mem_map, List.mem_filter]
  have hk : ((collectDefs mro []).map (·.1)).Nodup := collectDefs_keys_nodup mro [] (by simp)
  have hg := collectDefs_getD mro p []
  simp only [Spec.get, Option.getD_none, List.nil_append] at hg
  constructor
  · rintro ⟨⟨q, defs⟩, ⟨hmem, hf⟩, rfl⟩
    simp only at hf ⊢
    have hgq := get_of_mem_nodup hk hmem
    rw [hgq] at hg
    simp only [Option.getD_some] at hg
    rw [← hg]
    match defs, hf with
    | (c, d) :: rest, hf => exact ⟨c, d, rest, rfl, by simpa using hf⟩
  · rintro ⟨c, d, rest, hdefs, hf⟩
    rw [hdefs] at hg
    cases hgp : Spec.get (collectDefs mro []) p with
    | none => rw [hgp] at hg; simp at hg
    | some defs =>
      rw [hgp] at hg
      simp only [Option.getD_some] at hg
      refine ⟨(p, defs), ⟨mem_of_get hgp, ?_⟩, rfl⟩
      simp [hg, hf]

theorem get_filter_ne {β} (m : List (String × β)) (h q : String) :
    Spec.get (m.filter (fun e => e.1 ≠ h)) q = if q = h then none else Spec.get m q := by
  induction m with
  | nil => simp [Spec.get]
  | cons e rest ih =>
    obtain ⟨k, v⟩ := e
    by_cases hk : k = h
    · subst hk
      simp only [List.filter_cons, ne_eq, not_true_eq_false, decide_false, Bool.false_eq_true, if_false, ih, Spec.get]
      by_cases hq : q = k
      · simp [hq]
      · simp [hq, Ne.symm hq]
    · simp only [List.filter_cons, ne_eq, hk, not_false_eq_true, decide_true, if_true, Spec.get, ih]
      by_cases hkq : k = q
      · subst hkq; simp [hk]
      · simp [hkq]

theorem get_append_single {β} (m : List (String × β)) (k q : String) (v : β) :
    Spec.get (m ++ [(k, v)]) q = match Spec.get m q with
      | some x => some x
      | none => if k = q then some v else none := by
  induction m with
  | nil => simp [Spec.get]
  | cons e rest ih =>
    obtain ⟨a, b⟩ := e
    simp only [List.cons_append, Spec.get]
    split
    · rfl
    · exact ih

/-- **2-D mode, class level.** After the rewriting no `heading` default is left; a `heading` default has
become the `parentOrientation` default and nothing else changed; defining both is refused. -/
theorem transform2D_no_heading {β} (props : List (String × β)) :
    match transform2D props with
    | none => (Spec.get props "heading").isSome ∧ (Spec.get props "parentOrientation").isSome
    | some r => Spec.get r "heading" = none ∧
        (Spec.get props "heading" = none → r = props) ∧
        (∀ v, Spec.get props "heading" = some v → Spec.get r "parentOrientation" = some v ∧
          ∀ q, q ≠ "heading" → q ≠ "parentOrientation" → Spec.get r q = Spec.get props q) := by
  unfold transform2D
  cases hh : Spec.get props "heading" with
  | none => simp [hh]
  | some v =>
    cases hp : Spec.get props "parentOrientation" with
    | some w => simp
    | none =>
      simp only
      refine ⟨?_, by simp, ?_⟩
      · rw [get_append_single, get_filter_ne]; simp
      · intro v' hv'
        cases hv'
        constructor
        · rw [get_append_single, get_filter_ne]
          simp [hp]
        · intro q h1 h2
          rw [get_append_single, get_filter_ne]
          simp only [h1, if_false]
          cases Spec.get props q with
          | some x => rfl
          | none => simp [Ne.symm h2]

/-! ### side conditions on the generated table -/

/-- every specifier function of veneer.py specifies, with the priorities, dependencies and modifiable
set listed in its section of docs/reference/specifiers.rst (internal `_...` properties aside) -/
theorem gen_code_matches_docs :
    Scenic.Gen.specTable.all (fun e => e.matchesDoc Scenic.Gen.docTable) = true := by decide +kernel

/-- every section of the reference documents some specifier function -/
theorem gen_docs_covered :
    Scenic.Gen.docTable.all (fun d => Scenic.Gen.specTable.any (fun e => e.doc = d.title)) = true := by
  decide +kernel

/-- well-formedness of an entry: priorities form a dictionary with positive values, a specifier does not
depend on a property it specifies (checked by `Specifier.__init__`), only modifying specifiers may modify,
and only properties they specify -/
def entryWF (e : BuiltinEntry) : Bool :=
  decide (e.spec.prios.map (·.1)).Nodup && e.spec.prios.all (fun pk => decide (1 ≤ pk.2)) &&
  e.spec.deps.all (fun d => !(e.spec.prios.map (·.1)).contains d) &&
  e.spec.modifiable.all (fun p => (e.spec.prios.map (·.1)).contains p) &&
  (e.spec.modifying || e.spec.modifiable.isEmpty) && decide (e.spec.modifiable.length ≤ 1)

theorem gen_table_wf : Scenic.Gen.specTable.all entryWF = true := by decide +kernel

/-- shape fact of `_resolveSpecifiers` extracted from the source: `modifying_inv` maps a modifying specifier to
the list of *all* the properties it modifies and `dfs` visits the specifier of each of them -- which is what
`Scenic.Spec.modProps` / `Scenic.Spec.steps` model (the shape before /repo commit fe083d88 kept one property only) -/
theorem gen_modifier_orders_all : Scenic.Gen.modifierOrdersAllProps = true := by decide


end Scenic.C06
