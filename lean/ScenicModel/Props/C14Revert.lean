import ScenicModel.Lemmas.Overrides

/-!
# C14 (part 3): every `override` is undone when its scenario ends

`overrides_reverted`: a scenario that executes any number of `override` statements on any properties of
any objects (in its setup block, before it is running, and in its compose block), interleaved with
arbitrary attribute writes, and then stops: every property that was not written directly reads exactly as
it did before the scenario was created — provided old values are merged with `setdefault`
(`MergeMode.keepOldest`).  `first_dict_only_loses_second_override` is the negation witness for the
bookkeeping used before commit c4c953c9 (probe_t3).
-/
namespace Scenic.C14
open Scenic.Overrides

/-- at most one remembered value per (object, property) -/
def NodupPairs (s : Saved) : Prop := s.Pairwise (fun a b => ¬(a.1 = b.1 ∧ a.2.1 = b.2.1))

theorem hasPair_false_iff (s : Saved) (o : ObjId) (p : PropId) :
    hasPair s o p = false ↔ ∀ e ∈ s, ¬(e.1 = o ∧ e.2.1 = p) := by
  unfold hasPair
  rw [List.any_eq_false]
  constructor
  · intro h e he hc
    have := h e he
    simp [hc.1, hc.2] at this
  · intro h e he
    have := h e he
    simp only [Bool.and_eq_true, beq_iff_eq]
    exact this

theorem hasPair_true_iff (s : Saved) (o : ObjId) (p : PropId) :
    hasPair s o p = true ↔ ∃ e ∈ s, e.1 = o ∧ e.2.1 = p := by
  unfold hasPair
  rw [List.any_eq_true]
  constructor
  · rintro ⟨e, he, hc⟩
    simp only [Bool.and_eq_true, beq_iff_eq] at hc
    exact ⟨e, he, hc⟩
  · rintro ⟨e, he, hc⟩
    exact ⟨e, he, by simp [hc.1, hc.2]⟩

theorem revertAll_read_absent (s : Saved) (o : ObjId) (p : PropId) : ∀ (w : World),
    hasPair s o p = false → (revertAll w s).read o p = w.read o p := by
  induction s with
  | nil => intro w _; rfl
  | cons e rest ih =>
    intro w h
    rw [hasPair_false_iff] at h
    have he := h e (List.mem_cons_self ..)
    have hr : hasPair rest o p = false := by
      rw [hasPair_false_iff]; intro x hx; exact h x (List.mem_cons_of_mem _ hx)
    simp only [revertAll, List.foldl_cons] at ih ⊢
    rw [ih _ hr]
    apply World.read_write_other
    intro hc; exact he ⟨hc.1.symm, hc.2.symm⟩

theorem revertAll_read_present (s : Saved) (o : ObjId) (p : PropId) (v : Val) : ∀ (w : World),
    NodupPairs s → (o, p, v) ∈ s → (revertAll w s).read o p = v := by
  induction s with
  | nil => intro w _ h; simp at h
  | cons e rest ih =>
    intro w hn hm
    have hn' := List.pairwise_cons.mp hn
    simp only [revertAll, List.foldl_cons] at ih ⊢
    rcases List.mem_cons.mp hm with h1 | h1
    · have hr : hasPair rest o p = false := by
        rw [hasPair_false_iff]
        intro x hx hc
        have := hn'.1 x hx
        rw [← h1] at this
        exact this ⟨hc.1.symm, hc.2.symm⟩
      have := revertAll_read_absent rest o p (w.write e.1 e.2.1 e.2.2) hr
      simp only [revertAll] at this
      rw [this, ← h1]
      exact World.read_write_same _ _ _ _
    · exact ih _ hn'.2 h1

/-! ### `addSaved` with `setdefault` semantics -/

def addOne (o : ObjId) (acc : Saved) (pv : PropId × Val) : Saved :=
  if hasPair acc o pv.1 then acc else acc ++ [(o, pv.1, pv.2)]

theorem addSaved_keepOldest (s : Saved) (o : ObjId) (olds : List (PropId × Val)) :
    addSaved .keepOldest s o olds = olds.foldl (addOne o) s := rfl

theorem addOne_nodup (o : ObjId) (acc : Saved) (pv : PropId × Val) (h : NodupPairs acc) :
    NodupPairs (addOne o acc pv) := by
  unfold addOne
  split
  · exact h
  · rename_i hp
    simp only [Bool.not_eq_true] at hp
    rw [hasPair_false_iff] at hp
    unfold NodupPairs
    rw [List.pairwise_append]
    refine ⟨h, by simp, ?_⟩
    intro a ha b hb
    simp only [List.mem_singleton] at hb
    subst hb
    exact hp a ha

theorem addOne_mem (o : ObjId) (acc : Saved) (pv : PropId × Val) (e : ObjId × PropId × Val)
    (h : e ∈ addOne o acc pv) : e ∈ acc ∨ (e = (o, pv.1, pv.2) ∧ hasPair acc o pv.1 = false) := by
  unfold addOne at h
  split at h
  · exact Or.inl h
  · rename_i hp
    rcases List.mem_append.mp h with h1 | h1
    · exact Or.inl h1
    · simp only [List.mem_singleton] at h1
      exact Or.inr ⟨h1, by simpa using hp⟩

theorem addOne_mono (o : ObjId) (acc : Saved) (pv : PropId × Val) (e : ObjId × PropId × Val)
    (h : e ∈ acc) : e ∈ addOne o acc pv := by
  unfold addOne
  split
  · exact h
  · exact List.mem_append_left _ h

/-- the state of the tracked pair `(o,p)` relative to its value `v0` before the scenario existed -/
structure PairInv (saved : Saved) (w : World) (o : ObjId) (p : PropId) (v0 : Val) : Prop where
  nodup : NodupPairs saved
  absent : hasPair saved o p = false → w.read o p = v0
  present : ∀ v, (o, p, v) ∈ saved → v = v0

theorem writes_read_other (o' : ObjId) (o : ObjId) (p : PropId) :
    ∀ (ps : List (PropId × Val)) (w : World), (o' ≠ o ∨ ∀ pv ∈ ps, pv.1 ≠ p) →
    (ps.foldl (fun w pv => w.write o' pv.1 pv.2) w).read o p = w.read o p := by
  intro ps
  induction ps with
  | nil => intro w _; rfl
  | cons pv rest ih =>
    intro w h
    simp only [List.foldl_cons]
    rw [ih]
    · apply World.read_write_other
      intro hc
      rcases h with h | h
      · exact h hc.1.symm
      · exact h pv (List.mem_cons_self ..) hc.2.symm
    · rcases h with h | h
      · exact Or.inl h
      · exact Or.inr (fun x hx => h x (List.mem_cons_of_mem _ hx))

/-- folding `addOne` over the old values read before the override keeps the pair invariant, as far as the
    *remembered values* are concerned (w0 is the world before the writes of the override) -/
theorem addSaved_pairInv (o' : ObjId) (o : ObjId) (p : PropId) (v0 : Val) (w0 : World) :
    ∀ (olds : List (PropId × Val)) (saved : Saved),
    (∀ pv ∈ olds, pv.2 = w0.read o' pv.1) →
    NodupPairs saved → (hasPair saved o p = false → w0.read o p = v0) → (∀ v, (o, p, v) ∈ saved → v = v0) →
    NodupPairs (olds.foldl (addOne o') saved) ∧
    (∀ v, (o, p, v) ∈ olds.foldl (addOne o') saved → v = v0) ∧
    (hasPair (olds.foldl (addOne o') saved) o p = false →
      hasPair saved o p = false ∧ (o' ≠ o ∨ ∀ pv ∈ olds, pv.1 ≠ p)) := by
  intro olds
  induction olds with
  | nil =>
    intro saved _ hn _ hp
    exact ⟨hn, hp, fun h => ⟨h, Or.inr (by simp)⟩⟩
  | cons pv rest ih =>
    intro saved hold hn ha hp
    simp only [List.foldl_cons]
    have hold' : ∀ x ∈ rest, x.2 = w0.read o' x.1 := fun x hx => hold x (List.mem_cons_of_mem _ hx)
    have hn1 := addOne_nodup o' saved pv hn
    have ha1 : hasPair (addOne o' saved pv) o p = false → w0.read o p = v0 := by
      intro h
      apply ha
      rw [hasPair_false_iff] at h ⊢
      intro e he; exact h e (addOne_mono _ _ _ _ he)
    have hp1 : ∀ v, (o, p, v) ∈ addOne o' saved pv → v = v0 := by
      intro v hv
      rcases addOne_mem _ _ _ _ hv with h1 | ⟨h1, h2⟩
      · exact hp v h1
      · simp only [Prod.mk.injEq] at h1
        obtain ⟨e1, e2, e3⟩ := h1
        have := hold pv (List.mem_cons_self ..)
        rw [e3, this, ← e1, ← e2]
        apply ha
        rw [e1, e2]; exact h2
    have := ih (addOne o' saved pv) hold' hn1 ha1 hp1
    refine ⟨this.1, this.2.1, ?_⟩
    intro h
    have h3 := this.2.2 h
    have hs : hasPair saved o p = false := by
      rw [hasPair_false_iff] at h3 ⊢
      intro e he; exact h3.1 e (addOne_mono _ _ _ _ he)
    refine ⟨hs, ?_⟩
    rcases h3.2 with h4 | h4
    · exact Or.inl h4
    · by_cases eo : o' = o
      · right
        intro x hx
        rcases List.mem_cons.mp hx with hx | hx
        · -- pv itself: had its property been p, (o,p,_) would now be present
          intro hc
          have hpv : pv.1 = p := by rw [← hx]; exact hc
          have h31 := h3.1
          rw [hasPair_false_iff] at h31
          by_cases hq : hasPair saved o' pv.1 = true
          · rw [eo, hpv, hs] at hq; exact absurd hq (by simp)
          · have hmem : (o', pv.1, pv.2) ∈ addOne o' saved pv := by
              unfold addOne; rw [if_neg hq]; simp
            exact h31 _ hmem ⟨eo, hpv⟩
        · exact h4 x hx
      · exact Or.inl eo

/-- events a scenario `s` performs itself, plus arbitrary attribute writes -/
def ownEv (s : Nat) : Ev → Bool
  | .write _ _ _ => true
  | .override s' _ _ => s' == s
  | _ => false

def writesTo (o : ObjId) (p : PropId) : List Ev → Bool
  | [] => false
  | .write o' p' _ :: rest => (o' == o && p' == p) || writesTo o p rest
  | _ :: rest => writesTo o p rest

/-- shape of the state while scenario `s` (the last frame) is alive -/
def Alive (_cfg : Cfg) (base : List Frame) (s : Nat) (o : ObjId) (p : PropId) (v0 : Val) (st : St) : Prop :=
  ∃ fs, st.frames = base ++ [fs] ∧ fs.id = s ∧ PairInv fs.saved st.w o p v0

theorem map_base (g : Frame → Frame) (base : List Frame) (h : ∀ f ∈ base, g f = f) : base.map g = base := by
  induction base with
  | nil => rfl
  | cons f rest ih =>
    simp only [List.map_cons]
    rw [h f (List.mem_cons_self ..), ih (fun x hx => h x (List.mem_cons_of_mem _ hx))]

theorem fresh_id (s : Nat) (f : Frame) (h : inSub s f = false) : (f.id == s) = false := by
  simp only [inSub, Bool.or_eq_false_iff] at h; exact h.1

theorem body_alive (cfg : Cfg) (hm : cfg.merge = .keepOldest) (base : List Frame) (s : Nat)
    (hfresh : ∀ f ∈ base, inSub s f = false) (o : ObjId) (p : PropId) (v0 : Val) :
    ∀ (body : List Ev) (st : St), body.all (ownEv s) = true → writesTo o p body = false →
    Alive cfg base s o p v0 st → Alive cfg base s o p v0 (run cfg st body) := by
  intro body
  induction body with
  | nil => intro st _ _ h; exact h
  | cons ev rest ih =>
    intro st hown hclean h
    simp only [List.all_cons, Bool.and_eq_true] at hown
    simp only [run, List.foldl_cons]
    apply ih _ hown.2
    · cases ev <;> simp_all [writesTo]
    · obtain ⟨fs, hf, hid, hinv⟩ := h
      cases ev with
      | write o' p' v =>
        have hne : ¬(o = o' ∧ p = p') := by
          intro hc
          simp only [writesTo, Bool.or_eq_false_iff, Bool.and_eq_false_imp, beq_iff_eq] at hclean
          have := hclean.1 hc.1.symm
          simp [hc.2] at this
        refine ⟨fs, hf, hid, hinv.nodup, ?_, hinv.present⟩
        intro ha
        simp only [step]
        rw [World.read_write_other _ _ _ _ _ _ hne]
        exact hinv.absent ha
      | override s' o' ps =>
        have hs' : s' = s := by simpa [ownEv] using hown.1
        subst hs'
        have hbase : base.map (overrideFrame cfg s' o' (ps.map (fun pv => (pv.1, st.w.read o' pv.1)))) = base := by
          apply map_base
          intro f hfm
          unfold overrideFrame
          rw [fresh_id s' f (hfresh f hfm)]; rfl
        have hfs : overrideFrame cfg s' o' (ps.map (fun pv => (pv.1, st.w.read o' pv.1))) fs =
            { fs with saved := (ps.map (fun pv => (pv.1, st.w.read o' pv.1))).foldl (addOne o') fs.saved } := by
          unfold overrideFrame
          simp only [hid, beq_self_eq_true, if_true, hm, addSaved_keepOldest]
        have key := addSaved_pairInv o' o p v0 st.w (ps.map (fun pv => (pv.1, st.w.read o' pv.1))) fs.saved
          (by intro pv hpv; simp only [List.mem_map] at hpv; obtain ⟨x, _, rfl⟩ := hpv; rfl)
          hinv.nodup hinv.absent hinv.present
        refine ⟨{ fs with saved := (ps.map (fun pv => (pv.1, st.w.read o' pv.1))).foldl (addOne o') fs.saved }, ?_, ?_, ?_⟩
        · simp only [step, doOverride, hf, List.map_append, List.map_cons, List.map_nil, hbase, hfs]
        · exact hid
        · refine ⟨key.1, ?_, key.2.1⟩
          intro ha
          have h3 := key.2.2 ha
          simp only [step, doOverride]
          rw [writes_read_other o' o p ps st.w]
          · exact hinv.absent h3.1
          · rcases h3.2 with h4 | h4
            · exact Or.inl h4
            · right
              intro pv hpv
              exact h4 (pv.1, st.w.read o' pv.1) (List.mem_map.mpr ⟨pv, hpv, rfl⟩)
      | create _ => simp [ownEv] at hown
      | prepare _ _ => simp [ownEv] at hown
      | start _ => simp [ownEv] at hown
      | stop _ => simp [ownEv] at hown

/-- **every `override` is undone when its scenario ends.**  Scenario `s` is created (`prepare`), executes
    any events `pre` of its own (overrides in its setup block, interleaved with arbitrary writes), starts,
    executes any events `post` (overrides in its compose block, writes by behaviours and the simulator) and
    stops: every property `(o,p)` that was not written directly reads as before `s` was created –
    for any number of overrides of any properties of the same or of different objects. -/
theorem overrides_reverted (cfg : Cfg) (hm : cfg.merge = .keepOldest) (st : St) (s par : Nat)
    (hfresh : ∀ f ∈ st.frames, inSub s f = false)
    (pre post : List Ev) (hpre : pre.all (ownEv s) = true) (hpost : post.all (ownEv s) = true)
    (o : ObjId) (p : PropId) (hc1 : writesTo o p pre = false) (hc2 : writesTo o p post = false) :
    (run cfg st ([.prepare s par] ++ pre ++ [.start s] ++ post ++ [.stop s])).w.read o p = st.w.read o p := by
  have hrun : ∀ (a b : List Ev) (x : St), run cfg x (a ++ b) = run cfg (run cfg x a) b := by
    intro a b x; simp [run, List.foldl_append]
  rw [hrun, hrun, hrun, hrun]
  -- after prepare
  have h0 : Alive cfg st.frames s o p (st.w.read o p) (run cfg st [.prepare s par]) := by
    refine ⟨_, rfl, rfl, ?_⟩
    exact ⟨List.Pairwise.nil, fun _ => rfl, by intro v hv; simp at hv⟩
  have h1 := body_alive cfg hm st.frames s hfresh o p _ pre _ hpre hc1 h0
  -- start
  have h2 : Alive cfg st.frames s o p (st.w.read o p) (run cfg (run cfg (run cfg st [.prepare s par]) pre) [.start s])
      ∧ ∃ fs, (run cfg (run cfg (run cfg st [.prepare s par]) pre) [.start s]).frames = st.frames ++ [fs] ∧
          fs.id = s ∧ fs.status = .running := by
    obtain ⟨fs, hf, hid, hinv⟩ := h1
    have hbase : st.frames.map (startFrame s) = st.frames := by
      apply map_base
      intro f hfm
      unfold startFrame
      rw [fresh_id s f (hfresh f hfm)]; rfl
    have hfs : startFrame s fs = { fs with status := .running } := by
      unfold startFrame; simp [hid]
    have hfr : (run cfg (run cfg (run cfg st [.prepare s par]) pre) [.start s]).frames =
        st.frames ++ [{ fs with status := .running }] := by
      simp only [run, List.foldl_cons, List.foldl_nil, step, doStart] at hf ⊢
      rw [hf]
      simp only [List.map_append, List.map_cons, List.map_nil, hbase, hfs]
    exact ⟨⟨_, hfr, hid, hinv⟩, ⟨_, hfr, hid, rfl⟩⟩
  have h3 := body_alive cfg hm st.frames s hfresh o p _ post _ hpost hc2 h2.1
  -- the frame is still running after `post`
  have hrunning : ∀ (body : List Ev) (x : St), body.all (ownEv s) = true →
      (∃ fs, x.frames = st.frames ++ [fs] ∧ fs.id = s ∧ fs.status = .running) →
      ∃ fs, (run cfg x body).frames = st.frames ++ [fs] ∧ fs.id = s ∧ fs.status = .running := by
    intro body
    induction body with
    | nil => intro x _ h; exact h
    | cons ev rest ih =>
      intro x hown h
      simp only [List.all_cons, Bool.and_eq_true] at hown
      simp only [run, List.foldl_cons]
      apply ih _ hown.2
      obtain ⟨fs, hf, hid, hst⟩ := h
      cases ev with
      | write o' p' v => exact ⟨fs, hf, hid, hst⟩
      | override s' o' ps =>
        have hbase : st.frames.map (overrideFrame cfg s' o' (ps.map (fun pv => (pv.1, x.w.read o' pv.1)))) = st.frames := by
          have hs' : s' = s := by simpa [ownEv] using hown.1
          apply map_base
          intro f hfm
          unfold overrideFrame
          rw [hs', fresh_id s f (hfresh f hfm)]; rfl
        refine ⟨overrideFrame cfg s' o' (ps.map (fun pv => (pv.1, x.w.read o' pv.1))) fs, ?_, ?_, ?_⟩
        · simp only [step, doOverride, hf, List.map_append, List.map_cons, List.map_nil, hbase]
        · unfold overrideFrame; split <;> exact hid
        · unfold overrideFrame; split <;> exact hst
      | create _ => simp [ownEv] at hown
      | prepare _ _ => simp [ownEv] at hown
      | start _ => simp [ownEv] at hown
      | stop _ => simp [ownEv] at hown
  obtain ⟨fs, hf, hid, hst⟩ := hrunning post _ hpost h2.2
  obtain ⟨fs', hf', _, hinv⟩ := h3
  have hfe : fs' = fs := by
    rw [hf] at hf'
    have := List.append_cancel_left hf'
    simpa using this.symm
  subst hfe
  -- stop
  generalize run cfg (run cfg (run cfg (run cfg st [.prepare s par]) pre) [.start s]) post = x at hf hinv
  simp only [run, List.foldl_cons, List.foldl_nil, step]
  unfold stopScen
  have hany : (x.frames.any fun f => f.id == s && isRunning f) = true := by
    rw [hf, List.any_append]
    simp [hid, isRunning, hst]
  rw [if_pos hany]
  have hvict : (x.frames.reverse.filter (fun f => isRunning f && inSub s f)) = [fs'] := by
    rw [hf, List.reverse_append]
    simp only [List.reverse_cons, List.reverse_nil, List.nil_append, List.cons_append]
    rw [List.filter_cons]
    have : (isRunning fs' && inSub s fs') = true := by simp [isRunning, hst, inSub, hid]
    rw [if_pos this]
    congr
    rw [List.filter_eq_nil_iff]
    intro f hfm
    have := hfresh f (List.mem_reverse.mp hfm)
    simp [this]
  simp only [hvict, List.foldl_cons, List.foldl_nil]
  by_cases hp : hasPair fs'.saved o p = true
  · obtain ⟨e, he, heo, hep⟩ := (hasPair_true_iff _ _ _).mp hp
    have hmem : (o, p, e.2.2) ∈ fs'.saved := by
      have : e = (o, p, e.2.2) := by
        rcases e with ⟨a, b, c⟩; simp only at heo hep; simp [heo, hep]
      rw [← this]; exact he
    rw [revertAll_read_present _ o p _ _ hinv.nodup hmem]
    exact hinv.present _ hmem
  · simp only [Bool.not_eq_true] at hp
    rw [revertAll_read_absent _ o p _ hp]
    exact hinv.absent hp

/-- the hypotheses of `overrides_reverted` are satisfiable: two overrides of two properties of the same
    object plus a third of another object (the program of probe_t3, extended) -/
example : ([Ev.override 1 0 [(0, 1)], Ev.override 1 0 [(1, 2)]].all (ownEv 1) = true) ∧
    ([Ev.write 0 2 9, Ev.override 1 3 [(0, 4), (1, 5)]].all (ownEv 1) = true) ∧
    writesTo 0 0 [Ev.override 1 0 [(0, 1)], Ev.override 1 0 [(1, 2)]] = false := by decide

end Scenic.C14
