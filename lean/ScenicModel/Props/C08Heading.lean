import ScenicModel.Lemmas.Pruning
import Mathlib.Tactic.FieldSimp

/-!
C08 (part 2): relative-heading pruning (`pruning.relativeHeadingRange`, the overlap test of
`feasibleRHPolygon`).  Angles are rationals in a unit where a half turn is `P > 0` (arbitrary).

`rh_range_sound`: for all cell headings, all disturbance intervals narrower than a full turn, all
actual disturbances inside them, and every normalised value `rh ∈ [-P, P]` of the actual relative
heading, a normalised representative of `rh` (`rh` itself unless `rh = ±P`) lies in the returned
range; hence (`cell_pair_kept`) a pair of cells that can satisfy the requirement is never dropped,
up to the null set `rh = ±P`.
-/
namespace Scenic.Pruning

/-! ### normalizeAngle -/

theorem normalizeAngle_spec {P : Rat} (hP : 0 < P) (x : Rat) :
    ∃ k : Int, normalizeAngle P x = x + 2 * P * (k : Rat) ∧
      -P ≤ normalizeAngle P x ∧ normalizeAngle P x ≤ P := by
  have h2P : 0 < 2 * P := by linarith
  unfold normalizeAngle
  split
  · next hx =>
    have h1 : (x - P) / (2 * P) ≤ (((x - P) / (2 * P)).ceil : Rat) := Rat.le_ceil
    have h2 : ((((x - P) / (2 * P)).ceil : Int) : Rat) < (x - P) / (2 * P) + 1 := Rat.ceil_lt
    have h3 : (x - P) / (2 * P) * (2 * P) = x - P := by field_simp
    refine ⟨-((x - P) / (2 * P)).ceil, by push_cast; ring, ?_, ?_⟩
    · have := mul_lt_mul_of_pos_right h2 h2P
      rw [add_mul, h3] at this
      linarith
    · have := mul_le_mul_of_nonneg_right h1 (le_of_lt h2P)
      rw [h3] at this
      linarith
  · split
    · next hx1 hx2 =>
      have h1 : (-P - x) / (2 * P) ≤ (((-P - x) / (2 * P)).ceil : Rat) := Rat.le_ceil
      have h2 : ((((-P - x) / (2 * P)).ceil : Int) : Rat) < (-P - x) / (2 * P) + 1 := Rat.ceil_lt
      have h3 : (-P - x) / (2 * P) * (2 * P) = -P - x := by field_simp
      refine ⟨((-P - x) / (2 * P)).ceil, rfl, ?_, ?_⟩
      · have := mul_le_mul_of_nonneg_right h1 (le_of_lt h2P)
        rw [h3] at this
        linarith
      · have := mul_lt_mul_of_pos_right h2 h2P
        rw [add_mul, h3] at this
        linarith
    · next hx1 hx2 =>
      refine ⟨0, by simp, ?_, ?_⟩ <;> linarith

theorem normalizeAngle_id {P x : Rat} (h1 : -P ≤ x) (h2 : x ≤ P) : normalizeAngle P x = x := by
  unfold normalizeAngle
  rw [if_neg (by linarith), if_neg (by linarith)]

/-- an integer multiple of the full turn that fits in a window shorter than two turns -/
theorem int_window {P : Rat} (hP : 0 < P) (n : Int) (h1 : -(2 * P) < 2 * P * (n : Rat))
    (h2 : 2 * P * (n : Rat) ≤ 2 * P) : n = 0 ∨ n = 1 := by
  have h2P : 0 < 2 * P := by linarith
  have a : (-1 : Rat) < (n : Rat) := by
    by_contra hc
    have hc : (n : Rat) ≤ -1 := not_lt.mp hc
    have := mul_le_mul_of_nonneg_left hc (le_of_lt h2P)
    linarith
  have b : (n : Rat) ≤ 1 := by
    by_contra hc
    have hc : (1 : Rat) < (n : Rat) := not_le.mp hc
    have := mul_lt_mul_of_pos_left hc h2P
    linarith
  have a' : (-1 : Int) < n := by exact_mod_cast a
  have b' : n ≤ 1 := by exact_mod_cast b
  omega

theorem int_window3 {P : Rat} (hP : 0 < P) (n : Int) (h1 : -(2 * P) ≤ 2 * P * (n : Rat))
    (h2 : 2 * P * (n : Rat) ≤ 2 * P) : n = -1 ∨ n = 0 ∨ n = 1 := by
  have h2P : 0 < 2 * P := by linarith
  have a : (-1 : Rat) ≤ (n : Rat) := by
    by_contra hc
    have hc : (n : Rat) < -1 := not_le.mp hc
    have := mul_lt_mul_of_pos_left hc h2P
    linarith
  have b : (n : Rat) ≤ 1 := by
    by_contra hc
    have hc : (1 : Rat) < (n : Rat) := not_le.mp hc
    have := mul_lt_mul_of_pos_left hc h2P
    linarith
  have a' : (-1 : Int) ≤ n := by exact_mod_cast a
  have b' : n ≤ 1 := by exact_mod_cast b
  omega

/-! ### min / max of a list -/

theorem foldl_min_le (xs : List Rat) (a : Rat) :
    xs.foldl (fun a b => if b < a then b else a) a ≤ a ∧
      ∀ x ∈ xs, xs.foldl (fun a b => if b < a then b else a) a ≤ x := by
  induction xs generalizing a with
  | nil => simp
  | cons y ys ih =>
    simp only [List.foldl_cons]
    by_cases hya : y < a
    · simp only [hya, if_true]
      have := ih y
      exact ⟨by linarith [this.1], fun x hx => by
        rcases List.mem_cons.mp hx with rfl | hx
        · exact this.1
        · exact this.2 x hx⟩
    · simp only [hya, if_false]
      have := ih a
      exact ⟨this.1, fun x hx => by
        rcases List.mem_cons.mp hx with rfl | hx
        · linarith [this.1, not_lt.mp hya]
        · exact this.2 x hx⟩

theorem listMin_le {d : Rat} {xs : List Rat} {x : Rat} (hx : x ∈ xs) : listMin d xs ≤ x := by
  cases xs with
  | nil => simp at hx
  | cons y ys =>
    simp only [listMin]
    rcases List.mem_cons.mp hx with rfl | hx
    · exact (foldl_min_le ys _).1
    · exact (foldl_min_le ys y).2 x hx

theorem foldl_max_ge (xs : List Rat) (a : Rat) :
    a ≤ xs.foldl (fun a b => if b > a then b else a) a ∧
      ∀ x ∈ xs, x ≤ xs.foldl (fun a b => if b > a then b else a) a := by
  induction xs generalizing a with
  | nil => simp
  | cons y ys ih =>
    simp only [List.foldl_cons]
    by_cases hya : y > a
    · simp only [hya, if_true]
      have := ih y
      exact ⟨by linarith [this.1], fun x hx => by
        rcases List.mem_cons.mp hx with rfl | hx
        · exact this.1
        · exact this.2 x hx⟩
    · simp only [hya, if_false]
      have := ih a
      exact ⟨this.1, fun x hx => by
        rcases List.mem_cons.mp hx with rfl | hx
        · linarith [this.1, not_lt.mp hya]
        · exact this.2 x hx⟩

theorem le_listMax {d : Rat} {xs : List Rat} {x : Rat} (hx : x ∈ xs) : x ≤ listMax d xs := by
  cases xs with
  | nil => simp at hx
  | cons y ys =>
    simp only [listMax]
    rcases List.mem_cons.mp hx with rfl | hx
    · exact (foldl_max_ge ys _).1
    · exact (foldl_max_ge ys y).2 x hx

/-! ### the arc of possible headings of one object -/

/-- some representative of the heading `h + d` lies between two of the listed `points` -/
theorem arc_cover {P : Rat} (hP : 0 < P) (h oL oR d : Rat) (hd1 : oL ≤ d) (hd2 : d ≤ oR)
    (hw : oR - oL < 2 * P) :
    ∃ β : Rat, (∃ c : Int, β = h + d + 2 * P * (c : Rat)) ∧
      ∃ plo ∈ arcPoints P (normalizeAngle P (h + oL)) (normalizeAngle P (h + oR)),
      ∃ phi ∈ arcPoints P (normalizeAngle P (h + oL)) (normalizeAngle P (h + oR)),
        plo ≤ β ∧ β ≤ phi := by
  obtain ⟨a, hL, hL1, hL2⟩ := normalizeAngle_spec hP (h + oL)
  obtain ⟨a', hU, hU1, hU2⟩ := normalizeAngle_spec hP (h + oR)
  unfold arcPoints
  split
  · -- the arc wraps: ±P are listed
    obtain ⟨c, hB, hB1, hB2⟩ := normalizeAngle_spec hP (h + d)
    exact ⟨normalizeAngle P (h + d), ⟨c, hB⟩, -P, by simp, P, by simp, hB1, hB2⟩
  · next hnw =>
    have hnw : normalizeAngle P (h + oL) ≤ normalizeAngle P (h + oR) := not_lt.mp hnw
    have hdiff : normalizeAngle P (h + oR) - normalizeAngle P (h + oL)
        = (oR - oL) + 2 * P * ((a' - a : Int) : Rat) := by rw [hL, hU]; push_cast; ring
    have hn := int_window hP (a' - a) (by linarith) (by linarith)
    refine ⟨h + d + 2 * P * (a : Rat), ⟨a, rfl⟩, normalizeAngle P (h + oL), by simp,
      normalizeAngle P (h + oR), by simp, by rw [hL]; linarith, ?_⟩
    rcases hn with hn | hn
    · have : a' = a := by omega
      subst this
      rw [hU]; linarith
    · -- a' = a + 1 forces oR = oL
      rw [hn] at hdiff
      push_cast at hdiff
      have : oR - oL ≤ 0 := by linarith
      have hdo : d = oL := by linarith
      rw [hdo, ← hL]; exact hnw

/-- all three safeguards of the current source -/
def RHConfig.Sound (cfg : RHConfig) : Bool := cfg.normalizeResult && cfg.wideFallback && cfg.wrapFallback

/-- **rh_range_sound** -/
theorem rh_range_sound {cfg : RHConfig} (hcfg : cfg.Sound = true) {P : Rat} (hP : 0 < P)
    (bh oL oR th tL tR d e : Rat)
    (hd1 : oL ≤ d) (hd2 : d ≤ oR) (he1 : tL ≤ e) (he2 : e ≤ tR)
    (hw : oR - oL < 2 * P) (htw : tR - tL < 2 * P)
    (rh : Rat) (hr1 : -P ≤ rh) (hr2 : rh ≤ P)
    (hrh : ∃ k : Int, rh = (th + e) - (bh + d) + 2 * P * (k : Rat)) :
    ∃ rh' : Rat, (rh' = rh ∨ rh' = rh - 2 * P ∨ rh' = rh + 2 * P) ∧
      (relativeHeadingRange cfg P (some bh) oL oR (some th) tL tR).1 ≤ rh' ∧
      rh' ≤ (relativeHeadingRange cfg P (some bh) oL oR (some th) tL tR).2 := by
  simp only [RHConfig.Sound, Bool.and_eq_true] at hcfg
  obtain ⟨⟨hc1, hc2⟩, hc3⟩ := hcfg
  obtain ⟨β, ⟨cb, hβ⟩, plo, hplo, phi, hphi, hb1, hb2⟩ := arc_cover hP bh oL oR d hd1 hd2 hw
  obtain ⟨τ, ⟨ct, hτ⟩, tlo, htlo, thi, hthi, ht1, ht2⟩ := arc_cover hP th tL tR e he1 he2 htw
  obtain ⟨k, hk⟩ := hrh
  -- the raw differences
  have hmem_lo : tlo - phi ∈ (arcPoints P (normalizeAngle P (th + tL)) (normalizeAngle P (th + tR))).flatMap
      (fun tp => (arcPoints P (normalizeAngle P (bh + oL)) (normalizeAngle P (bh + oR))).map (fun p => tp - p)) :=
    List.mem_flatMap.mpr ⟨tlo, htlo, List.mem_map.mpr ⟨phi, hphi, rfl⟩⟩
  have hmem_hi : thi - plo ∈ (arcPoints P (normalizeAngle P (th + tL)) (normalizeAngle P (th + tR))).flatMap
      (fun tp => (arcPoints P (normalizeAngle P (bh + oL)) (normalizeAngle P (bh + oR))).map (fun p => tp - p)) :=
    List.mem_flatMap.mpr ⟨thi, hthi, List.mem_map.mpr ⟨plo, hplo, rfl⟩⟩
  have hlo := listMin_le (d := 0) hmem_lo
  have hhi := le_listMax (d := 0) hmem_hi
  simp only [relativeHeadingRange, hc1, hc2, hc3, Bool.not_true, Bool.false_eq_true, if_false,
    Bool.true_and]
  generalize listMin 0 _ = lower0 at hlo ⊢
  generalize listMax 0 _ = upper0 at hhi ⊢
  have hδ1 : lower0 ≤ τ - β := by linarith
  have hδ2 : τ - β ≤ upper0 := by linarith
  split
  · -- wide: full range
    exact ⟨rh, Or.inl rfl, hr1, hr2⟩
  · next hwide =>
    simp only [decide_eq_true_eq, ge_iff_le, not_le] at hwide
    obtain ⟨a1, hn1, hn1a, hn1b⟩ := normalizeAngle_spec hP lower0
    obtain ⟨a2, hn2, hn2a, hn2b⟩ := normalizeAngle_spec hP upper0
    split
    · exact ⟨rh, Or.inl rfl, hr1, hr2⟩
    · next hwrap =>
      simp only [decide_eq_true_eq, gt_iff_lt, not_lt] at hwrap
      have hdiff : normalizeAngle P upper0 - normalizeAngle P lower0
          = (upper0 - lower0) + 2 * P * ((a2 - a1 : Int) : Rat) := by rw [hn1, hn2]; push_cast; ring
      have hn := int_window hP (a2 - a1) (by linarith) (by linarith)
      -- candidate representative
      have hrep : τ - β + 2 * P * (a1 : Rat) = rh + 2 * P * ((ct - cb + a1 - k : Int) : Rat) := by
        rw [hτ, hβ, hk]; push_cast; ring
      have hin1 : normalizeAngle P lower0 ≤ τ - β + 2 * P * (a1 : Rat) := by rw [hn1]; linarith
      have hin2 : τ - β + 2 * P * (a1 : Rat) ≤ normalizeAngle P upper0 := by
        rcases hn with hn | hn
        · have : a2 = a1 := by omega
          subst this
          rw [hn2]; linarith
        · rw [hn] at hdiff
          push_cast at hdiff
          have : upper0 = lower0 := by linarith
          have : τ - β = lower0 := by linarith
          rw [this, ← hn1]; exact hwrap
      have hj := int_window3 hP (ct - cb + a1 - k) (by linarith) (by linarith)
      refine ⟨τ - β + 2 * P * (a1 : Rat), ?_, hin1, hin2⟩
      rcases hj with hj | hj | hj
      · rw [hj] at hrep; push_cast at hrep
        right; left; linarith
      · rw [hj] at hrep; push_cast at hrep
        left; linarith
      · rw [hj] at hrep; push_cast at hrep
        right; right; linarith

/-- away from the half-turn boundary the normalised relative heading itself lies in the range -/
theorem rh_range_sound_interior {cfg : RHConfig} (hcfg : cfg.Sound = true) {P : Rat} (hP : 0 < P)
    (bh oL oR th tL tR d e : Rat)
    (hd1 : oL ≤ d) (hd2 : d ≤ oR) (he1 : tL ≤ e) (he2 : e ≤ tR)
    (hw : oR - oL < 2 * P) (htw : tR - tL < 2 * P)
    (rh : Rat) (hr1 : -P < rh) (hr2 : rh < P)
    (hrh : ∃ k : Int, rh = (th + e) - (bh + d) + 2 * P * (k : Rat)) :
    (relativeHeadingRange cfg P (some bh) oL oR (some th) tL tR).1 ≤ rh ∧
      rh ≤ (relativeHeadingRange cfg P (some bh) oL oR (some th) tL tR).2 := by
  obtain ⟨rh', hcase, h1, h2⟩ := rh_range_sound hcfg hP bh oL oR th tL tR d e hd1 hd2 he1 he2 hw htw
    rh (le_of_lt hr1) (le_of_lt hr2) hrh
  -- the range is always inside [-P, P]
  have hin : -P ≤ (relativeHeadingRange cfg P (some bh) oL oR (some th) tL tR).1 ∧
      (relativeHeadingRange cfg P (some bh) oL oR (some th) tL tR).2 ≤ P := by
    simp only [RHConfig.Sound, Bool.and_eq_true] at hcfg
    obtain ⟨⟨hc1, hc2⟩, hc3⟩ := hcfg
    simp only [relativeHeadingRange, hc1, hc2, hc3, Bool.not_true, Bool.false_eq_true, if_false,
      Bool.true_and]
    split
    · exact ⟨le_refl _, le_refl _⟩
    · split
      · exact ⟨le_refl _, le_refl _⟩
      · obtain ⟨_, _, ha, _⟩ := normalizeAngle_spec hP (listMin 0 ((arcPoints P (normalizeAngle P (th + tL))
          (normalizeAngle P (th + tR))).flatMap fun tp => (arcPoints P (normalizeAngle P (bh + oL))
          (normalizeAngle P (bh + oR))).map fun p => tp - p))
        obtain ⟨_, _, _, hb⟩ := normalizeAngle_spec hP (listMax 0 ((arcPoints P (normalizeAngle P (th + tL))
          (normalizeAngle P (th + tR))).flatMap fun tp => (arcPoints P (normalizeAngle P (bh + oL))
          (normalizeAngle P (bh + oR))).map fun p => tp - p))
        exact ⟨ha, hb⟩
  rcases hcase with rfl | rfl | rfl
  · exact ⟨h1, h2⟩
  · exfalso; linarith [hin.1]
  · exfalso; linarith [hin.2]

/-- **cell_pair_kept**: if actual headings of the two objects (cell heading plus a disturbance inside
    the matched interval) have a relative heading that satisfies the requirement's bounds, the
    overlap test of `feasibleRHPolygon` keeps this pair of cells. -/
theorem cell_pair_kept {cfg : RHConfig} (hcfg : cfg.Sound = true) {ops : CmpOp × CmpOp} (conj : Bool)
    (hops : overlapSound ops = true) {P : Rat} (hP : 0 < P)
    (bh oL oR th tL tR d e lowerBound upperBound : Rat)
    (hguard : rhGuardTrips true P oL oR tL tR lowerBound upperBound = false)
    (hd1 : oL ≤ d) (hd2 : d ≤ oR) (he1 : tL ≤ e) (he2 : e ≤ tR)
    (rh : Rat) (hr1 : -P < rh) (hr2 : rh < P)
    (hrh : ∃ k : Int, rh = (th + e) - (bh + d) + 2 * P * (k : Rat))
    (hreq1 : lowerBound ≤ rh) (hreq2 : rh ≤ upperBound) :
    cellPairKept cfg ops conj P (some bh) oL oR (some th) tL tR lowerBound upperBound = true := by
  simp only [rhGuardTrips, if_true, Bool.or_eq_false_iff, decide_eq_false_iff_not, not_le] at hguard
  have := rh_range_sound_interior hcfg hP bh oL oR th tL tR d e hd1 hd2 he1 he2 hguard.1.1 hguard.1.2
    rh hr1 hr2 hrh
  simp only [overlapSound, Bool.and_eq_true, beq_iff_eq] at hops
  obtain ⟨ops1, ops2⟩ := ops
  simp only at hops
  obtain ⟨rfl, rfl⟩ := hops
  have ha : CmpOp.evalB .gtE (relativeHeadingRange cfg P (some bh) oL oR (some th) tL tR).2 lowerBound = true := by
    simp only [CmpOp.evalB, decide_eq_true_eq]; linarith [this.2]
  have hb : CmpOp.evalB .ltE (relativeHeadingRange cfg P (some bh) oL oR (some th) tL tR).1 upperBound = true := by
    simp only [CmpOp.evalB, decide_eq_true_eq]; linarith [this.1]
  simp only [cellPairKept, ha, hb]
  cases conj <;> rfl

/-- a cell without a constant heading never restricts anything -/
theorem rh_none_heading (cfg : RHConfig) (P oL oR tL tR : Rat) (th : Option Rat) :
    relativeHeadingRange cfg P none oL oR th tL tR = (-P, P) ∧
      relativeHeadingRange cfg P th oL oR none tL tR = (-P, P) := by
  constructor
  · simp [relativeHeadingRange]
  · cases th <;> simp [relativeHeadingRange]

/-- **regression for 3faece04** (half turn = 1): without normalising the result, cell headings 0.95 and
    −0.95 half-turns give the range (−1.9, −1.9) while the true normalised relative heading is 0.1 -/
theorem rh_unnormalised_unsound :
    let cfg : RHConfig := ⟨false, true, true⟩
    let r := relativeHeadingRange cfg 1 (some (19/20)) 0 0 (some (-19/20)) 0 0
    normalizeAngle 1 ((-19/20 : Rat) - 19/20) = 1/10 ∧ ¬ (r.1 ≤ 1/10 ∧ 1/10 ≤ r.2) := by
  decide +kernel

end Scenic.Pruning
