import ScenicModel.Lemmas.Frames
import Mathlib.Algebra.Order.Field.Rat
import Mathlib.Tactic.Push
/-!
# C07 (part 2) — specifiers and operators that compose positions and orientations in a frame

`offset by`, `offset along`, `relative to`, the `facing` family, `beyond` (frame and position),
`following`. Nothing here depends on generated data; the directional specifiers, `on`, and the side /
corner operators (which are instantiated on formulas and tables regenerated from `/repo`) are in
`Props/C07Dir.lean`.
-/
namespace Scenic.C07
open Scenic.Frames


/-! ## frames -/

section field
variable {α : Type} [Field α]

/-- the orientation of an object that inherits `parentOrientation = M` and keeps the default
    `yaw = pitch = roll = 0` is `M` itself -/
theorem inherited_orientation (p : Vec3 α) (m : Mat3 α) :
    (OPoint.mk p m Ang.zero Ang.zero Ang.zero).orientation = m := by
  rw [OPoint.orientation, euler_zero, Mat3.mul_one']

/-- local coordinates undo `relativePosition` -/
theorem localCoords_relativePosition (p : Vec3 α) (m : Mat3 α) (hm : m.IsRot) (v : Vec3 α) :
    localCoords p m (relativePosition p m v) = v := by
  simp only [localCoords, relativePosition, offsetLocally, Vec3.add_sub_cancel']
  exact hm.transpose_mulVec_mulVec v

/-- … and `relativePosition` undoes local coordinates -/
theorem relativePosition_localCoords (p : Vec3 α) (m : Mat3 α) (hm : m.IsRot) (q : Vec3 α) :
    relativePosition p m (localCoords p m q) = q := by
  simp only [localCoords, relativePosition, offsetLocally, hm.mulVec_transpose_mulVec, Vec3.sub_add_cancel']

/-- a point given relative to `q` in the same orientation: local coordinates add -/
theorem localCoords_offset (p q : Vec3 α) (m : Mat3 α) (hm : m.IsRot) (v : Vec3 α) :
    localCoords p m (relativePosition q m v) = (localCoords p m q).add v := by
  have h : (q.add (m.mulVec v)).sub p = (q.sub p).add (m.mulVec v) := by frames_ring
  simp only [localCoords, relativePosition, offsetLocally, h, Mat3.mulVec_add, hm.transpose_mulVec_mulVec]

/-- rigid motions commute with `relativePosition`: moving the frame by `(g, t)` moves the point -/
theorem relativePosition_rigid (g : Mat3 α) (t p : Vec3 α) (m : Mat3 α) (v : Vec3 α) :
    relativePosition ((g.mulVec p).add t) (g.mul m) v = (g.mulVec (relativePosition p m v)).add t := by
  simp only [relativePosition, offsetLocally, Mat3.mulVec_mul, Mat3.mulVec_add]
  frames_ring

/-- in the object's own frame, the point `sideVec d t` is at `(±w/2, ±l/2, ±h/2)` as named by `t` -/
theorem side_local (p : Vec3 α) (m : Mat3 α) (hm : m.IsRot) (d : Dims α) (t : Int × Int × Int) :
    localCoords p m (relativePosition p m (sideVec d t)) = sideVec d t :=
  localCoords_relativePosition p m hm _

/-! ## `offset by`, `offset along`, `relative to` (`veneer.py:1619-1648, 1154-1269`) -/

/-- `offset by v`: the new position has coordinates `v` in ego's frame; ego's orientation is inherited -/
theorem offsetBy_spec (egoPos : Vec3 α) (egoOri : Mat3 α) (h : egoOri.IsRot) (v : Vec3 α) :
    localCoords egoPos egoOri (offsetBy egoPos egoOri v).1 = v ∧ (offsetBy egoPos egoOri v).2 = egoOri :=
  ⟨localCoords_relativePosition egoPos egoOri h v, rfl⟩

/-- `offset along H by v`: coordinates `v` in the frame centred at ego and oriented along `H`
    (not along ego); the inherited orientation is nevertheless ego's -/
theorem offsetAlong_spec (egoPos : Vec3 α) (egoOri hdir : Mat3 α) (h : hdir.IsRot) (v : Vec3 α) :
    localCoords egoPos hdir (offsetAlong egoPos egoOri hdir v).1 = v ∧ (offsetAlong egoPos egoOri hdir v).2 = egoOri :=
  ⟨localCoords_relativePosition egoPos hdir h v, rfl⟩

/-- `v relative to P` / `P offset by v` (either order): an oriented point at local coordinates `v`
    of `P`, inheriting `P`'s orientation -/
theorem relativeTo_vec_opoint (p : Vec3 α) (o : Mat3 α) (hd : Ang α) (ho : o.IsRot) (v : Vec3 α) :
    relativeTo (.vec v) (.opoint p o hd) = .opoint (relativePosition p o v) o ∧
    relativeTo (.opoint p o hd) (.vec v) = .opoint (relativePosition p o v) o ∧
    localCoords p o (relativePosition p o v) = v :=
  ⟨rfl, rfl, localCoords_relativePosition p o ho v⟩

/-- `a relative to b` on vectors is the sum (commutative) -/
theorem relativeTo_vec_vec (a b : Vec3 α) :
    relativeTo (.vec a) (.vec b) = .vec (a.add b) ∧ relativeTo (.vec a) (.vec b) = relativeTo (.vec b) (.vec a) := by
  refine ⟨rfl, ?_⟩
  simp only [relativeTo, Vec3.add_comm']

/-- `X relative to Y` on orientations: start in `Y`, then rotate according to `X` (intrinsically),
    i.e. `Y * X`; not commutative in general -/
theorem relativeTo_orient (x y : Mat3 α) (v : Vec3 α) :
    relativeTo (.orient x) (.orient y) = .orient (y.mul x) ∧ (y.mul x).mulVec v = y.mulVec (x.mulVec v) :=
  ⟨rfl, Mat3.mulVec_mul y x v⟩

/-- `a relative to b` on headings: the heading `a + b` (e.g. `-5 deg relative to 90 deg` is 85°) -/
theorem relativeTo_heading (a b : Ang α) :
    relativeTo (.heading a) (.heading b) = .orient (rotZ (a.add b)) := by
  simp only [relativeTo, ← rotZ_add, Ang.add_comm' a b]

/-- mixed orientation / heading / oriented point cases compose in the same order `Y * X` -/
theorem relativeTo_mixed (a : Ang α) (m p_ori : Mat3 α) (p : Vec3 α) (hd : Ang α) :
    relativeTo (.heading a) (.orient m) = .orient (m.mul (rotZ a)) ∧
    relativeTo (.orient m) (.heading a) = .orient ((rotZ a).mul m) ∧
    relativeTo (.opoint p p_ori hd) (.orient m) = .orient (m.mul p_ori) ∧
    relativeTo (.orient m) (.opoint p p_ori hd) = .orient (p_ori.mul m) ∧
    relativeTo (.opoint p p_ori hd) (.heading a) = .heading (hd.add a) ∧
    relativeTo (.heading a) (.opoint p p_ori hd) = .heading (hd.add a) :=
  ⟨rfl, rfl, rfl, rfl, rfl, rfl⟩

/-! ## the `facing` family (`veneer.py:2006-2161`) -/

/-- `facing T`: whatever the parent orientation `P`, composing `P` with the local orientation
    `P⁻¹ * T` gives back the requested *global* orientation `T` -/
theorem facing_global (p t : Mat3 α) (hp : p.IsRot) : p.mul (facingLocal p t) = t := by
  rw [facingLocal, ← Mat3.mul_assoc', hp.1, Mat3.one_mul']

/-- … in terms of the yaw/pitch/roll that are actually specified: if `(y, pt, r)` are Euler angles of
    the local orientation `P⁻¹ * T` then the object's `orientation` property is `T` -/
theorem facing_global_euler (pos : Vec3 α) (p t : Mat3 α) (hp : p.IsRot) (y pt r : Ang α)
    (he : euler y pt r = facingLocal p t) : (OPoint.mk pos p y pt r).orientation = t := by
  rw [OPoint.orientation, he, facing_global p t hp]
example : facingLocal (rotZ (⟨0, 1⟩ : Ang Rat)) (rotZ ⟨0, 1⟩) = euler Ang.zero Ang.zero Ang.zero := by
  ext <;> simp only [facingLocal] <;> unfold_frames <;> norm_num

end field

section beyondFacing
variable {α : Type} [Field α]

/-! ## `beyond` (`veneer.py:1651-1698`) -/

variable [DecidableEq α]

/-- the spherical angles computed from witnessed square roots (`h = hypot(x, y)`, `rho = hypot(x, y, z)`)
    are unit angles, i.e. genuine `(cos, sin)` pairs; the identities below that do not need this are
    stated for arbitrary non-zero `h`, `rho` -/
theorem azimuthOf_unit (d : Vec3 α) (h : α) (hh : h * h = d.x * d.x + d.y * d.y) : (azimuthOf d h).Unit := by
  rw [azimuthOf_eq]; unfold Ang.Unit
  split_ifs with h0
  · norm_num
  · simp only; field_simp; linear_combination -hh

theorem altitudeOf_unit (d : Vec3 α) (h rho : α) (hr : rho * rho = h * h + d.z * d.z) : (altitudeOf d h rho).Unit := by
  rw [altitudeOf_eq]; unfold Ang.Unit
  split_ifs with h0
  · norm_num
  · simp only; field_simp; linear_combination -hr

/-- the frame used by `beyond X by v from Y`: its forward axis (`+Y`, orientation `(0,0,0)`) points
    from `Y` to `X` (the line of sight, "directly away from" Y), and its right axis is horizontal
    and to the right of the line of sight -/
theorem beyond_frame (pos fromPt : Vec3 α) (h rho : α) (hh : h ≠ 0) (hrho : rho ≠ 0) :
    let d := pos.sub fromPt
    let r := euler (azimuthOf d h) (altitudeOf d h rho) Ang.zero
    (r.mulVec Vec3.ey).smul rho = d ∧ r.mulVec Vec3.ex = ⟨d.y / h, -d.x / h, 0⟩ := by
  intro d r
  simp only [r, azimuthOf_eq, altitudeOf_eq, if_neg hh, if_neg hrho]
  constructor
  · ext <;> unfold_frames <;> field_simp <;> ring
  · ext <;> unfold_frames <;> ring

/-- `beyond X by v from Y`: the new position has coordinates `v` in that line-of-sight frame at X -/
theorem beyond_local (pos off fromPt : Vec3 α) (h rho : α)
    (hw : h * h = (pos.sub fromPt).x * (pos.sub fromPt).x + (pos.sub fromPt).y * (pos.sub fromPt).y)
    (hr : rho * rho = h * h + (pos.sub fromPt).z * (pos.sub fromPt).z) :
    localCoords pos (euler (azimuthOf (pos.sub fromPt) h) (altitudeOf (pos.sub fromPt) h rho) Ang.zero)
      (beyond pos off fromPt h rho) = off :=
  localCoords_relativePosition pos _
    (isRot_euler (azimuthOf_unit _ _ hw) (altitudeOf_unit _ _ _ hr) Ang.Unit.zero) off

omit [DecidableEq α] in
/-- `beyond … from P`: **which orientation is inherited**: the new object's `parentOrientation` is
    `P`'s orientation when `P` is an `OrientedPoint` / `Object` (so, with the default yaw = pitch = roll = 0,
    its orientation *is* `P`'s), and the global one for a plain vector, as the reference says. -/
theorem beyond_parent_inherited (pos : Vec3 α) (o : Mat3 α) :
    beyondParent (some o) = o ∧ beyondParent (none : Option (Mat3 α)) = Mat3.one ∧
    (OPoint.mk pos (beyondParent (some o)) Ang.zero Ang.zero Ang.zero).orientation = o :=
  ⟨rfl, rfl, inherited_orientation pos o⟩
example : beyondParent (some (rotZ (⟨0, 1⟩ : Ang Rat))) ≠ Mat3.one := by
  intro e
  have := congrArg (fun m => m.r0.x) e
  simp [beyondParent, Mat3.one, rotZ] at this

/-! ## `facing toward / away from`, `facing directly toward / away from` -/

/-- `facing toward T` (`away = false`) / `facing away from T` (`away = true`): with the specified
    yaw (pitch = roll = 0 in the parent frame), the horizontal part — *in the parent frame* — of the
    direction to (from) the target is along the object's forward axis:
    `±(T − position) = h · forward + z · parentUp` with `h ≥ 0` the horizontal distance -/
theorem facing_toward (away : Bool) (p : Mat3 α) (hp : p.IsRot) (position target : Vec3 α) (h : α) (hh : h ≠ 0) :
    let dir := facingDirection away p position target
    let o := p.mul (euler (azimuthOf dir h) Ang.zero Ang.zero)
    ((o.mulVec Vec3.ey).smul h).add ((p.mulVec Vec3.ez).smul dir.z) =
      (if away then position.sub target else target.sub position) := by
  intro dir o
  have hrec : p.mulVec dir = (if away then position.sub target else target.sub position) :=
    hp.mulVec_transpose_mulVec _
  have hdir : ((euler (azimuthOf dir h) Ang.zero Ang.zero).mulVec Vec3.ey).smul h = ⟨dir.x, dir.y, 0⟩ := by
    simp only [azimuthOf_eq, if_neg hh]
    ext <;> unfold_frames <;> field_simp <;> ring
  rw [← hrec]
  simp only [o, Mat3.mulVec_mul, ← Mat3.mulVec_smul, ← Mat3.mulVec_add, hdir]
  congr 1
  ext <;> unfold_frames <;> ring

/-- `facing directly toward / away from T`: with the specified yaw *and* pitch the forward axis points
    exactly at (away from) the target: `±(T − position) = rho · forward` -/
theorem facing_directly_toward (away : Bool) (p : Mat3 α) (hp : p.IsRot) (position target : Vec3 α) (h rho : α)
    (hh : h ≠ 0) (hrho : rho ≠ 0) :
    let dir := facingDirection away p position target
    let o := p.mul (euler (azimuthOf dir h) (altitudeOf dir h rho) Ang.zero)
    (o.mulVec Vec3.ey).smul rho = (if away then position.sub target else target.sub position) := by
  intro dir o
  have hrec : p.mulVec dir = (if away then position.sub target else target.sub position) :=
    hp.mulVec_transpose_mulVec _
  have hdir : ((euler (azimuthOf dir h) (altitudeOf dir h rho) Ang.zero).mulVec Vec3.ey).smul rho = dir := by
    simp only [azimuthOf_eq, altitudeOf_eq, if_neg hh, if_neg hrho]
    ext <;> unfold_frames <;> field_simp <;> ring
  rw [← hrec]
  simp only [o, Mat3.mulVec_mul, ← Mat3.mulVec_smul, hdir]

end beyondFacing

/-! ## `following F [from P] for D`: forward Euler (`vectors.py:706-733`) -/

section follow
variable {α : Type} [Field α]

/-- in a uniform field the forward-Euler walk is exact: `n` steps of length `s` along the field's
    forward axis, whatever `n` — so `following F from P for D` ends at `P + D · forward`, and the new
    object inherits the field's orientation there -/
theorem following_uniform (m : Mat3 α) (s : α) (n : Nat) (p : Vec3 α) :
    following (fun _ => m) s n p = (p.add ((m.mulVec Vec3.ey).smul ((n : α) * s)), m) := by
  have h : ∀ n p, followSteps (fun _ => m) s n p = p.add ((m.mulVec Vec3.ey).smul ((n : α) * s)) := by
    intro n
    induction n with
    | zero => intro p; simp only [followSteps, Nat.cast_zero]; frames_ring
    | succ k ih => intro p; rw [followSteps, ih]; push_cast; frames_ring
  simp only [following, h]

/-- each step moves by exactly `s` along the local forward axis of the field *at the current point* -/
theorem following_step (f : Vec3 α → Mat3 α) (s : α) (n : Nat) (p : Vec3 α) :
    followSteps f s (n + 1) p = followSteps f s n (p.add (((f p).mulVec Vec3.ey).smul s)) := by
  rw [followSteps]; congr 1; frames_ring

/-- with the step the code uses (`dist / n` for `n ≠ 0` steps) the walk through a uniform field covers
    exactly the requested distance: `following F from P for D` is `P + D · forward` -/
theorem following_uniform_total (m : Mat3 α) (dist : α) (n : Nat) (hn : (n : α) ≠ 0) (p : Vec3 α) :
    following (fun _ => m) (dist / (n : α)) n p = (p.add ((m.mulVec Vec3.ey).smul dist), m) := by
  rw [following_uniform]; congr 2; field_simp

end follow

/-- **the step rule of `followFrom`** (formula regenerated from the source): the number of steps `n` is at
    least `minSteps`; no step (`dist / n`) is longer than the step size; and `n` is the least such number
    (one step fewer would make the steps too long). -/
theorem follow_step_rule (ms : Nat) (dist ss : Rat) (hss : 0 < ss) :
    let n := followNumSteps ms dist ss
    ms ≤ n ∧ dist ≤ (n : Rat) * ss ∧ (ms < n → ((n : Rat) - 1) * ss < dist) := by
  intro n
  have hn : n = max ms (Rat.ceil (dist / ss)).toNat := rfl
  refine ⟨by omega, ?_, ?_⟩
  · have h1 : dist / ss ≤ ((Rat.ceil (dist / ss) : Int) : Rat) := Rat.le_ceil
    have h2 : (Rat.ceil (dist / ss) : Int) ≤ ((Rat.ceil (dist / ss)).toNat : Int) := Int.self_le_toNat _
    have h3 : ((Rat.ceil (dist / ss)).toNat : Int) ≤ (n : Int) := by omega
    have h4 : dist / ss ≤ (n : Rat) := by
      calc dist / ss ≤ ((Rat.ceil (dist / ss) : Int) : Rat) := h1
        _ ≤ ((n : Int) : Rat) := by exact_mod_cast le_trans h2 h3
        _ = (n : Rat) := by norm_cast
    exact (div_le_iff₀ hss).mp h4
  · intro hlt
    have hmax : n = (Rat.ceil (dist / ss)).toNat := by omega
    have hc : ((Rat.ceil (dist / ss)).toNat : Int) = Rat.ceil (dist / ss) := Int.toNat_of_nonneg (by
      by_contra hneg; push Not at hneg
      have : (Rat.ceil (dist / ss)).toNat = 0 := Int.toNat_of_nonpos (le_of_lt hneg)
      omega)
    have h5 : ((Rat.ceil (dist / ss) : Int) : Rat) < dist / ss + 1 := Rat.ceil_lt
    have h6 : (n : Rat) = ((Rat.ceil (dist / ss) : Int) : Rat) := by
      rw [← hc, hmax]; norm_cast
    have h7 : (n : Rat) - 1 < dist / ss := by rw [h6]; linarith
    exact (lt_div_iff₀ hss).mp h7
example : followNumSteps 4 (21/2) 5 = 4 ∧ followNumSteps 1 (21/2) 5 = 3 ∧ followNumSteps 2 25 (5/2) = 10 := by decide +kernel

end Scenic.C07
