import ScenicModel.Lemmas.Frames
/-!
# C07 (part 1) — orientation algebra: composition, inversion, Euler conversion, heading convention

All statements are over an arbitrary field `α` (so in particular over `ℝ`, with
`Ang.c = cos θ`, `Ang.s = sin θ`), for *all* orientations / angles / vectors.
-/
namespace Scenic.C07
open Scenic.Frames

variable {α : Type} [Field α]

/-! ## group laws of `Orientation` (`vectors.py:321 __mul__`, `:313 inverse`) -/

/-- composition of orientations is associative -/
theorem compose_assoc (a b c : Mat3 α) : (a.mul b).mul c = a.mul (b.mul c) := Mat3.mul_assoc' a b c

/-- the global orientation is a two-sided identity -/
theorem compose_identity (a : Mat3 α) : Mat3.one.mul a = a ∧ a.mul Mat3.one = a :=
  ⟨Mat3.one_mul' a, Mat3.mul_one' a⟩

/-- *intrinsic order*: "rotation `A` followed by rotation `B`" (B expressed in the frame produced
    by A) is the product `A * B`: a vector with local coordinates `v` in the final frame has
    coordinates `B v` in A's frame and `A (B v)` globally  (docstring of `Orientation.__mul__`). -/
theorem compose_intrinsic (a b : Mat3 α) (v : Vec3 α) : (a.mul b).mulVec v = a.mulVec (b.mulVec v) :=
  Mat3.mulVec_mul a b v
example : ((rotZ (⟨0, 1⟩ : Ang Rat)).mul (rotX ⟨0, 1⟩)).mulVec Vec3.ey = ⟨0, 0, 1⟩ := by
  ext <;> unfold_frames <;> norm_num

/-- the inverse (transpose) of a rotation is a two-sided inverse -/
theorem inverse_two_sided (m : Mat3 α) (h : m.IsRot) :
    m.mul m.transpose = Mat3.one ∧ m.transpose.mul m = Mat3.one := ⟨h.1, h.2.1⟩
example : (rotZ (⟨3/5, 4/5⟩ : Ang Rat)).IsRot := isRot_rotZ (by unfold Ang.Unit; norm_num)

/-- rotations are closed under composition and inversion -/
theorem rotations_closed (a b : Mat3 α) (ha : a.IsRot) (hb : b.IsRot) :
    (a.mul b).IsRot ∧ a.transpose.IsRot := ⟨ha.mul hb, ha.transpose⟩

/-- `(A * B)⁻¹ = B⁻¹ * A⁻¹` -/
theorem inverse_compose (a b : Mat3 α) : (a.mul b).transpose = b.transpose.mul a.transpose :=
  Mat3.transpose_mul a b

/-! ### the same laws at the level of the quaternions SciPy stores -/

/-- the quaternion product is associative -/
theorem quat_compose_assoc (a b c : Quat α) : (a.mul b).mul c = a.mul (b.mul c) := Quat.mul_assoc' a b c

/-- the rotation matrix of a quaternion product is the product of the rotation matrices
    (for every pair of quaternions, unit or not) -/
theorem quat_compose_matrix (a b : Quat α) : (a.mul b).toMat = a.toMat.mul b.toMat := Quat.toMat_mul a b
example : ((⟨1, 0, 0, 1⟩ : Quat Rat).mul ⟨1, 1, 0, 0⟩).toMat = (rotZ ⟨0, 1⟩).mul (rotX ⟨0, 1⟩) := by
  ext <;> simp only [Quat.toMat] <;> unfold_frames <;> norm_num

/-- the matrix of the conjugate (SciPy `inv`) is the transpose -/
theorem quat_inverse_matrix (a : Quat α) : a.conj.toMat = a.toMat.transpose := Quat.toMat_conj a

/-- every non-zero quaternion gives a proper rotation -/
theorem quat_matrix_isRot (a : Quat α) (ha : a.normSq ≠ 0) : a.toMat.IsRot := Quat.toMat_isRot a ha
example : (⟨1, 2, 3, 4⟩ : Quat Rat).normSq ≠ 0 := by unfold_frames; norm_num

/-- `q * q⁻¹` and `q⁻¹ * q` act as the identity -/
theorem quat_inverse_two_sided (a : Quat α) (ha : a.normSq ≠ 0) :
    (a.mul a.conj).toMat = Mat3.one ∧ (a.conj.mul a).toMat = Mat3.one := by
  rw [Quat.mul_conj, Quat.conj_mul]
  exact ⟨Quat.toMat_scalar _ ha, Quat.toMat_scalar _ ha⟩

/-- a quaternion and its negation / any non-zero multiple describe the same orientation
    (`Orientation.__eq__` compares `q` with `±q`) -/
theorem quat_scale_invariant (a : Quat α) (k : α) (hk : k ≠ 0) :
    (⟨k * a.w, k * a.x, k * a.y, k * a.z⟩ : Quat α).toMat = a.toMat := by
  have h1 : (⟨k * a.w, k * a.x, k * a.y, k * a.z⟩ : Quat α) = (⟨k, 0, 0, 0⟩ : Quat α).mul a := by frames_ring
  rw [h1, Quat.toMat_mul, Quat.toMat_scalar k hk, Mat3.one_mul']

/-! ## heading convention (`vectors.py:238 _fromHeading`, `:488 rotatedBy`) -/

/-- heading `h` maps the forward axis `+Y` to `(-sin h, cos h, 0)`: heading `0` is `+Y` (North)
    and positive headings turn counter-clockwise (towards `-X`, West). -/
theorem heading_convention (a : Ang α) :
    (rotZ a).mulVec Vec3.ey = ⟨-a.s, a.c, 0⟩ ∧ (rotZ a).mulVec Vec3.ex = ⟨a.c, a.s, 0⟩
      ∧ (rotZ a).mulVec Vec3.ez = Vec3.ez := by
  refine ⟨?_, ?_, ?_⟩ <;> frames_ring

/-- heading 0 faces `+Y`; heading `+90°` faces `-X` -/
theorem heading_zero_and_quarter :
    (rotZ (Ang.zero : Ang α)).mulVec Vec3.ey = Vec3.ey ∧
    (rotZ (Ang.zero.quarter : Ang α)).mulVec Vec3.ey = Vec3.ex.neg := by
  constructor <;> frames_ring

/-- headings add: rotating by `a` then by `b` is rotating by `a + b` (and yaw rotations commute) -/
theorem heading_add (a b : Ang α) :
    (rotZ a).mul (rotZ b) = rotZ (a.add b) ∧ (rotZ a).mul (rotZ b) = (rotZ b).mul (rotZ a) := by
  constructor <;> frames_ring

/-- `Vector.rotatedBy(angle)` is the rotation by that heading -/
theorem rotatedBy_eq_rotZ (v : Vec3 α) (a : Ang α) : rotatedBy v a = (rotZ a).mulVec v := by frames_ring

/-- the quaternion `(cos h/2, 0, 0, sin h/2)` used by `_fromHeading` is the rotation by heading `h` -/
theorem heading_quaternion (a b : α) (h : a * a + b * b ≠ 0) :
    (Quat.aboutZ a b).toMat = rotZ (Ang.ofHalf a b) := by
  have hn : (Quat.aboutZ a b).normSq = a * a + b * b := by unfold_frames; ring
  unfold Quat.toMat; rw [hn]
  ext <;> simp only [Mat3.sdiv, rotZ, Ang.ofHalf, Quat.aboutZ, Quat.rawMat] <;>
    (generalize hd : a * a + b * b = n at h ⊢) <;> field_simp <;> (subst hd) <;> ring

/-! ## Euler angles (`vectors.py:227 fromEuler`, `:302 eulerAngles`) -/

/-- the forward axis of `fromEuler(yaw, pitch, roll)`: its azimuth is the yaw and its altitude is the
    pitch, whatever the roll -/
theorem euler_forward (y p r : Ang α) : (euler y p r).mulVec Vec3.ey = ⟨-y.s * p.c, y.c * p.c, p.s⟩ := by
  frames_ring

/-- `fromEuler(yaw, 0, 0)` is the heading rotation -/
theorem euler_yaw_only (y : Ang α) : euler y Ang.zero Ang.zero = rotZ y := by frames_ring

/-- Euler angles compose intrinsically: yaw about global Z, then pitch about the new X, then roll
    about the newest Y -/
theorem euler_intrinsic (y p r : Ang α) (v : Vec3 α) :
    (euler y p r).mulVec v = (rotZ y).mulVec ((rotX p).mulVec ((rotY r).mulVec v)) := by
  rw [euler_eq, Mat3.mulVec_mul, Mat3.mulVec_mul]

/-- `fromEuler` of unit angles is a proper rotation -/
theorem euler_isRot (y p r : Ang α) (hy : y.Unit) (hp : p.Unit) (hr : r.Unit) : (euler y p r).IsRot :=
  isRot_euler hy hp hr

/-- Euler extraction inverts Euler construction away from gimbal lock (`cos pitch ≠ 0`):
    `eulerAngles(fromEuler(y, p, r)) = (y, p, r)` -/
theorem euler_extract_construct (y p r : Ang α) (hp : p.c ≠ 0) :
    yawOf (euler y p r) p.c = y ∧ pitchOf (euler y p r) p.c = p ∧ rollOf (euler y p r) p.c = r := by
  refine ⟨?_, ?_, ?_⟩ <;> ext <;> simp only [yawOf, pitchOf, rollOf] <;> unfold_frames <;> field_simp <;> ring
example : (⟨3/5, 4/5⟩ : Ang Rat).Unit ∧ (⟨3/5, 4/5⟩ : Ang Rat).c ≠ 0 := by unfold Ang.Unit; norm_num

/-- the cosine of the pitch recovered from the matrix: `cp² = m01² + m11²` -/
theorem euler_cos_pitch (y p r : Ang α) (hy : y.Unit) :
    (euler y p r).r0.y * (euler y p r).r0.y + (euler y p r).r1.y * (euler y p r).r1.y = p.c * p.c := by
  unfold Ang.Unit at hy; unfold_frames; linear_combination (p.c * p.c) * hy

/-- Euler construction inverts Euler extraction: every proper rotation away from gimbal lock is
    `fromEuler` of its extracted angles (`cp` is the witnessed `hypot(m01, m11)`). -/
theorem euler_construct_extract (m : Mat3 α) (hm : m.IsRot) (cp : α) (hcp : cp ≠ 0)
    (hw : cp * cp = m.r0.y * m.r0.y + m.r1.y * m.r1.y) :
    euler (yawOf m cp) (pitchOf m cp) (rollOf m cp) = m := by
  obtain ⟨h1, h2, h3⟩ := hm
  obtain ⟨⟨a, b, c⟩, ⟨d, e, f⟩, ⟨g, h, i⟩⟩ := m
  simp only at hw
  have r00 := congrArg (fun m => m.r0.x) h1
  have r01 := congrArg (fun m => m.r0.y) h1
  have r02 := congrArg (fun m => m.r0.z) h1
  have r11 := congrArg (fun m => m.r1.y) h1
  have r12 := congrArg (fun m => m.r1.z) h1
  have r22 := congrArg (fun m => m.r2.z) h1
  have c00 := congrArg (fun m => m.r0.x) h2
  have c01 := congrArg (fun m => m.r0.y) h2
  have c02 := congrArg (fun m => m.r0.z) h2
  have c11 := congrArg (fun m => m.r1.y) h2
  have c12 := congrArg (fun m => m.r1.z) h2
  have c22 := congrArg (fun m => m.r2.z) h2
  unfold_frames_at r00; unfold_frames_at r01; unfold_frames_at r02; unfold_frames_at r11
  unfold_frames_at r12; unfold_frames_at r22
  unfold_frames_at c00; unfold_frames_at c01; unfold_frames_at c02; unfold_frames_at c11
  unfold_frames_at c12; unfold_frames_at c22
  unfold_frames_at h3
  ext <;> simp only [yawOf, pitchOf, rollOf] <;> unfold_frames <;> field_simp <;> grind

end Scenic.C07
