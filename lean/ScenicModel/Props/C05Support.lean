import ScenicModel.Lemmas.Support

/-!
# C05 (part 2): the static bounds reported for a random value contain every value it can take

`support F hyp ivs e` is `supportInterval` of the distribution forest abstracted as `e` (`Model/Support.lean`), with the
per-operator formulas `F` regenerated from `OperatorDistribution.supportInterval`.  `Sem hyp leafSem e v` says that `v`
is a value the forest can take.  `support_sound`: whenever bounds are reported, every possible value lies inside.
-/
namespace Scenic.Support
open Scenic.Expr

mutual
  /-- the values a distribution forest can take (numbers as exact rationals) -/
  def Sem (hyp : List Rat → Rat) (leafSem : Nat → Rat → Prop) : SExpr → Rat → Prop
    | .const q => fun v => v = q
    | .opaque => fun _ => True
    | .leaf i => fun v => leafSem i v
    | .bin op refl obj arg => fun v =>
      ∃ x y, Sem hyp leafSem obj x ∧ Sem hyp leafSem arg y ∧ numBin op (if refl then y else x) (if refl then x else y) = some v
    | .un op obj => fun v => ∃ x, Sem hyp leafSem obj x ∧ v = numUn op x
    | .range lo hi => fun v => ∃ a b, Sem hyp leafSem lo a ∧ Sem hyp leafSem hi b ∧ rmin a b ≤ v ∧ v ≤ rmax a b
    | .drange lo hi => fun v => ∃ a b, Sem hyp leafSem lo a ∧ Sem hyp leafSem hi b ∧ a ≤ v ∧ v ≤ b
    | .mux opts => fun v => SemAny hyp leafSem opts v
    | .mono f args => fun v => ∃ vs, SemAll hyp leafSem args vs ∧ monoApply f vs = some v
    | .hypot args => fun v => ∃ vs, SemAll hyp leafSem args vs ∧ v = hyp vs
    | .truncnormal lo hi => fun v => lo ≤ v ∧ v ≤ hi
  def SemAny (hyp : List Rat → Rat) (leafSem : Nat → Rat → Prop) : List SExpr → Rat → Prop
    | [] => fun _ => False
    | e :: rest => fun v => Sem hyp leafSem e v ∨ SemAny hyp leafSem rest v
  def SemAll (hyp : List Rat → Rat) (leafSem : Nat → Rat → Prop) : List SExpr → List Rat → Prop
    | [] => fun vs => vs = []
    | e :: rest => fun vs => ∃ v vs', vs = v :: vs' ∧ Sem hyp leafSem e v ∧ SemAll hyp leafSem rest vs'
end

def withinAll : List Supp → List Rat → Prop
  | [], [] => True
  | s :: ss, v :: vs => within s v ∧ withinAll ss vs
  | _, _ => False

theorem withinAll_forall₂ : ∀ (ss : List Supp) (vs : List Rat), withinAll ss vs →
    List.Forall₂ (fun s v => within s v) ss vs
  | [], [], _ => List.Forall₂.nil
  | [], _ :: _, h => by simp [withinAll] at h
  | _ :: _, [], h => by simp [withinAll] at h
  | s :: ss, v :: vs, h => by
    simp only [withinAll] at h
    exact List.Forall₂.cons h.1 (withinAll_forall₂ ss vs h.2)

theorem lowers_le (ss : List Supp) : ∀ (vs qs : List Rat), withinAll ss vs → allSome (ss.map (·.1)) = some qs →
    List.Forall₂ (· ≤ ·) qs vs := by
  induction ss with
  | nil =>
    intro vs qs hw hq
    cases vs with
    | nil => simp [allSome] at hq; subst hq; exact List.Forall₂.nil
    | cons => simp [withinAll] at hw
  | cons s ss ih =>
    intro vs qs hw hq
    cases vs with
    | nil => simp [withinAll] at hw
    | cons v vs =>
      simp only [withinAll] at hw
      simp only [List.map_cons] at hq
      cases hs : s.1 with
      | none => simp [hs, allSome] at hq
      | some l =>
        simp only [hs, allSome] at hq
        cases hr : allSome (ss.map (·.1)) with
        | none => simp [hr] at hq
        | some qs' =>
          simp [hr] at hq; subst hq
          exact List.Forall₂.cons (hw.1.1 l hs) (ih vs qs' hw.2 hr)

theorem uppers_ge (ss : List Supp) : ∀ (vs qs : List Rat), withinAll ss vs → allSome (ss.map (·.2)) = some qs →
    List.Forall₂ (· ≤ ·) vs qs := by
  induction ss with
  | nil =>
    intro vs qs hw hq
    cases vs with
    | nil => simp [allSome] at hq; subst hq; exact List.Forall₂.nil
    | cons => simp [withinAll] at hw
  | cons s ss ih =>
    intro vs qs hw hq
    cases vs with
    | nil => simp [withinAll] at hw
    | cons v vs =>
      simp only [withinAll] at hw
      simp only [List.map_cons] at hq
      cases hs : s.2 with
      | none => simp [hs, allSome] at hq
      | some h =>
        simp only [hs, allSome] at hq
        cases hr : allSome (ss.map (·.2)) with
        | none => simp [hr] at hq
        | some qs' =>
          simp [hr] at hq; subst hq
          exact List.Forall₂.cons (hw.1.2 h hs) (ih vs qs' hw.2 hr)

theorem monoBound_some (f : Fn) (os : List (Option Rat)) (L : Rat) (h : monoBound f os = some (some L)) :
    ∃ qs, allSome os = some qs ∧ monoApply f qs = some L := by
  unfold monoBound at h
  cases hq : allSome os with
  | none => simp [hq] at h
  | some qs =>
    simp only [hq] at h
    cases hm : monoApply f qs with
    | none => simp [hm] at h
    | some L' => simp [hm] at h; subst h; exact ⟨qs, rfl, hm⟩

mutual
  /-- **C05, support soundness.**  If `supportInterval` reports bounds for a forest, every value the forest can
      take lies within them (for sound formulas `F`, a dispatch table that pairs each operator with its own formula,
      and leaves whose values respect their own bounds). -/
  theorem support_sound (F : Formulas) (hF : F.Sound) (hT : F.tableOK = true) (hyp : List Rat → Rat) (hH : HypMono hyp) (ivs : Nat → Supp)
      (leafSem : Nat → Rat → Prop) (hleaf : ∀ i v, leafSem i v → within (ivs i) v) :
      ∀ (e : SExpr) (s : Supp) (v : Rat), support F hyp ivs e = some s → Sem hyp leafSem e v → within s v
    | .const q, s, v, hs, hv => by
      simp only [support, Option.some.injEq] at hs; subst hs
      simp only [Sem] at hv; subst hv
      constructor <;> intro _ h <;> simp at h <;> subst h <;> exact le_refl _
    | .opaque, s, v, hs, _ => by
      simp only [support, Option.some.injEq] at hs; subst hs; exact within_none v
    | .leaf i, s, v, hs, hv => by
      simp only [support, Option.some.injEq] at hs; subst hs
      exact hleaf i v hv
    | .truncnormal lo hi, s, v, hs, hv => by
      simp only [support, Option.some.injEq] at hs; subst hs
      simp only [Sem] at hv
      constructor <;> intro _ h <;> simp at h <;> subst h
      · exact hv.1
      · exact hv.2
    | .bin op refl obj arg, s, v, hs, hv => by
      simp only [support] at hs
      simp only [Sem] at hv
      obtain ⟨x, y, hx, hy, hxy⟩ := hv
      cases hf : F.binF op refl with
      | none => simp [hf] at hs; subst hs; exact within_none v
      | some f =>
        simp only [hf] at hs
        cases h1 : support F hyp ivs obj with
        | none => simp [h1] at hs
        | some s1 =>
          cases h2 : support F hyp ivs arg with
          | none => simp [h1, h2] at hs
          | some s2 =>
            simp only [h1, h2, Option.bind_some] at hs
            have w1 := support_sound F hF hT hyp hH ivs leafSem hleaf obj s1 x h1 hx
            have w2 := support_sound F hF hT hyp hH ivs leafSem hleaf arg s2 y h2 hy
            obtain ⟨a1, b1⟩ := s1
            obtain ⟨a2, b2⟩ := s2
            cases a1 <;> cases b1 <;> cases a2 <;> cases b2 <;> simp at hs <;> subst hs <;>
              first
              | exact within_none v
              | exact bin_sound F hF hT op refl f hf _ _ _ _ x y v (w1.1 _ rfl) (w1.2 _ rfl) (w2.1 _ rfl) (w2.2 _ rfl) hxy
    | .un op obj, s, v, hs, hv => by
      simp only [support] at hs
      simp only [Sem] at hv
      obtain ⟨x, hx, rfl⟩ := hv
      cases hf : F.unF op with
      | none => simp [hf] at hs; subst hs; exact within_none _
      | some f =>
        simp only [hf] at hs
        cases h1 : support F hyp ivs obj with
        | none => simp [h1] at hs
        | some s1 =>
          simp only [h1, Option.bind_some] at hs
          have w1 := support_sound F hF hT hyp hH ivs leafSem hleaf obj s1 x h1 hx
          obtain ⟨a1, b1⟩ := s1
          cases a1 <;> cases b1 <;> simp at hs
          subst hs
          obtain ⟨k, rfl, hk⟩ := unF_spec F hT op f hf
          simp only [expectedUnOps, List.mem_cons, Prod.mk.injEq, List.mem_nil_iff, or_false] at hk
          rcases hk with ⟨rfl, rfl⟩ | ⟨rfl, rfl⟩
          · exact hF.neg _ _ x (w1.1 _ rfl) (w1.2 _ rfl)
          · exact hF.abs _ _ x (w1.1 _ rfl) (w1.2 _ rfl)
    | .range lo hi, s, v, hs, hv => by
      simp only [support] at hs
      simp only [Sem] at hv
      obtain ⟨a, b, ha, hb, hl, hu⟩ := hv
      cases h1 : support F hyp ivs lo with
      | none => simp [h1] at hs
      | some s1 =>
        cases h2 : support F hyp ivs hi with
        | none => simp [h1, h2] at hs
        | some s2 =>
          simp only [h1, h2, Option.bind_some, Option.some.injEq] at hs
          subst hs
          have w1 := support_sound F hF hT hyp hH ivs leafSem hleaf lo s1 a h1 ha
          have w2 := support_sound F hF hT hyp hH ivs leafSem hleaf hi s2 b h2 hb
          obtain ⟨a1, b1⟩ := s1
          obtain ⟨a2, b2⟩ := s2
          unfold unionOfSupports
          constructor
          · intro L hL
            cases a1 <;> cases a2 <;> simp [supFold] at hL
            subst hL
            exact le_trans (rmin_mono (w1.1 _ rfl) (w2.1 _ rfl)) hl
          · intro H hH
            cases b1 <;> cases b2 <;> simp [supFold] at hH
            subst hH
            exact le_trans hu (rmax_mono (w1.2 _ rfl) (w2.2 _ rfl))
    | .drange lo hi, s, v, hs, hv => by
      simp only [support] at hs
      simp only [Sem] at hv
      obtain ⟨a, b, ha, hb, hl, hu⟩ := hv
      cases h1 : support F hyp ivs lo with
      | none => simp [h1] at hs
      | some s1 =>
        cases h2 : support F hyp ivs hi with
        | none => simp [h1, h2] at hs
        | some s2 =>
          simp only [h1, h2, Option.bind_some, Option.some.injEq] at hs
          subst hs
          have w1 := support_sound F hF hT hyp hH ivs leafSem hleaf lo s1 a h1 ha
          have w2 := support_sound F hF hT hyp hH ivs leafSem hleaf hi s2 b h2 hb
          constructor
          · intro L hL; exact le_trans (w1.1 L hL) hl
          · intro H hH; exact le_trans hu (w2.2 H hH)
    | .mux opts, s, v, hs, hv => by
      simp only [support] at hs
      simp only [Sem] at hv
      cases h1 : supportList F hyp ivs opts with
      | none => simp [h1] at hs
      | some ss =>
        simp [h1] at hs; subst hs
        obtain ⟨s', hmem, hw⟩ := support_any F hF hT hyp hH ivs leafSem hleaf opts ss v h1 hv
        exact within_union ss s' hmem v hw
    | .mono f args, s, v, hs, hv => by
      simp only [support] at hs
      simp only [Sem] at hv
      obtain ⟨vs, hall, hval⟩ := hv
      cases h1 : supportList F hyp ivs args with
      | none => simp [h1] at hs
      | some ss =>
        simp only [h1, Option.bind_some] at hs
        have hw := support_all F hF hT hyp hH ivs leafSem hleaf args ss vs h1 hall
        cases hl : monoBound f (ss.map (·.1)) with
        | none => simp [hl] at hs
        | some lo' =>
          cases hh : monoBound f (ss.map (·.2)) with
          | none => simp [hl, hh] at hs
          | some hi' =>
            simp [hl, hh] at hs; subst hs
            constructor
            · intro L hL
              simp only at hL; subst hL
              obtain ⟨qs, hq, hm⟩ := monoBound_some f _ L hl
              exact monoApply_mono f qs vs (lowers_le ss vs qs hw hq) _ _ hm hval
            · intro H hH
              simp only at hH; subst hH
              obtain ⟨qs, hq, hm⟩ := monoBound_some f _ H hh
              exact monoApply_mono f vs qs (uppers_ge ss vs qs hw hq) _ _ hval hm
    | .hypot args, s, v, hs, hv => by
      simp only [support] at hs
      simp only [Sem] at hv
      obtain ⟨vs, hall, rfl⟩ := hv
      cases h1 : supportList F hyp ivs args with
      | none => simp [h1] at hs
      | some ss =>
        simp only [h1, Option.map_some, Option.some.injEq] at hs
        subst hs
        have hw := withinAll_forall₂ ss vs (support_all F hF hT hyp hH ivs leafSem hleaf args ss vs h1 hall)
        unfold hypSupport
        cases hb : hypBounds F ss with
        | none => exact within_none _
        | some p =>
          obtain ⟨ls, hs'⟩ := p
          obtain ⟨hlo, hhi⟩ := hypBounds_sound F hF ss vs ls hs' hw hb
          constructor
          · intro L hL
            simp only [Option.some.injEq] at hL; subst hL
            exact hH ls vs hlo
          · intro H hH'
            simp only [Option.some.injEq] at hH'; subst hH'
            exact hH vs hs' hhi
  theorem support_any (F : Formulas) (hF : F.Sound) (hT : F.tableOK = true) (hyp : List Rat → Rat) (hH : HypMono hyp) (ivs : Nat → Supp)
      (leafSem : Nat → Rat → Prop) (hleaf : ∀ i v, leafSem i v → within (ivs i) v) :
      ∀ (es : List SExpr) (ss : List Supp) (v : Rat), supportList F hyp ivs es = some ss → SemAny hyp leafSem es v →
        ∃ s ∈ ss, within s v
    | [], ss, v, _, hv => by simp [SemAny] at hv
    | e :: rest, ss, v, hs, hv => by
      simp only [supportList] at hs
      cases h1 : support F hyp ivs e with
      | none => simp [h1] at hs
      | some s1 =>
        cases h2 : supportList F hyp ivs rest with
        | none => simp [h1, h2] at hs
        | some ss' =>
          simp [h1, h2] at hs; subst hs
          simp only [SemAny] at hv
          rcases hv with hv | hv
          · exact ⟨s1, List.mem_cons_self, support_sound F hF hT hyp hH ivs leafSem hleaf e s1 v h1 hv⟩
          · obtain ⟨s', hm, hw⟩ := support_any F hF hT hyp hH ivs leafSem hleaf rest ss' v h2 hv
            exact ⟨s', List.mem_cons_of_mem _ hm, hw⟩
  theorem support_all (F : Formulas) (hF : F.Sound) (hT : F.tableOK = true) (hyp : List Rat → Rat) (hH : HypMono hyp) (ivs : Nat → Supp)
      (leafSem : Nat → Rat → Prop) (hleaf : ∀ i v, leafSem i v → within (ivs i) v) :
      ∀ (es : List SExpr) (ss : List Supp) (vs : List Rat), supportList F hyp ivs es = some ss → SemAll hyp leafSem es vs →
        withinAll ss vs
    | [], ss, vs, hs, hv => by
      simp only [supportList, Option.some.injEq] at hs; subst hs
      simp only [SemAll] at hv; subst hv
      trivial
    | e :: rest, ss, vs, hs, hv => by
      simp only [supportList] at hs
      cases h1 : support F hyp ivs e with
      | none => simp [h1] at hs
      | some s1 =>
        cases h2 : supportList F hyp ivs rest with
        | none => simp [h1, h2] at hs
        | some ss' =>
          simp [h1, h2] at hs; subst hs
          simp only [SemAll] at hv
          obtain ⟨v, vs', rfl, hv1, hv2⟩ := hv
          exact ⟨support_sound F hF hT hyp hH ivs leafSem hleaf e s1 v h1 hv1,
            support_all F hF hT hyp hH ivs leafSem hleaf rest ss' vs' h2 hv2⟩
end

/-! ## `hypot` is not monotone in its arguments, only in their absolute values -/

/-- the squared `hypot` of one coordinate: `hypot(x)² = x²` -/
def hypotSq (xs : List Rat) : Rat := (xs.map fun x => x * x).sum

/-- `hypot` is not monotone: `-3 ≤ 0` but `hypot(-3) = 3 > 0 = hypot(0)` (squares compared, `sqrt` being monotone);
    this is why `geometry.hypot` must not be declared a `monotonicDistributionFunction` (57b1c90f) -/
theorem hypot_not_monotone : ¬ ∀ x y : Rat, x ≤ y → hypotSq [x] ≤ hypotSq [y] := by
  intro h
  have := h (-3) 0 (by norm_num)
  norm_num [hypotSq] at this

/-- the data extracted from code that declares `hypot` monotone (`hypAbs` = identity) does not satisfy the side
    condition `Formulas.Sound.hypAbs`: reverting 57b1c90f makes `gen_formulas_sound` fail -/
theorem identity_hypAbs_unsound :
    ¬ ∀ l r x : Rat, l ≤ x → x ≤ r → 0 ≤ l ∧ l ≤ absR x ∧ absR x ≤ r := by
  intro h
  have := (h (-3) 1 0 (by norm_num) (by norm_num)).1
  norm_num at this

end Scenic.Support
