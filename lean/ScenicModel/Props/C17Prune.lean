import ScenicModel.Model.VisibilityPrune
import Mathlib.Tactic.Linarith
import Mathlib.Tactic.Ring
import Mathlib.Tactic.FieldSimp
import Mathlib.Tactic.Positivity

/-!
C17 (part 8, round 4): the angular pruning of the object branch of `visibility.canSee` is sound w.r.t. the windows.

A *direction* is a pair `(a, e)` = (azimuth from the forward axis, altitude).  It is "in the angular hull of the
vertices" when `a` lies between two vertex azimuths and `e` between two vertex altitudes (in the frame the code uses:
centred on the front, or — for a target crossing behind the viewer only — centred on the back).
The theorems: whenever such a direction lies inside the view windows, the pruning does **not** return `False`, and one
of the windows in which rays are cast contains the direction (`prune_front_sound`, `prune_behind_sound`,
`prune_both_sound`); every window in which rays are cast lies inside the view windows (`prune_windows_within_view`), and so
does every grid angle (`linspace_in_window`) — with `grid_ray_in_windows` (C17Angles) every ray cast lies in the view volume's
angular windows.  Not proved here (geometric assumption of the code): every direction to a point of the target lies in
the angular hull of the mesh vertices and interpolated edge points.
-/
namespace Scenic.Vis.Prune

theorem minL_le_init (m : Rat) (xs : List Rat) : minL m xs ≤ m := by
  induction xs generalizing m with
  | nil => exact le_refl _
  | cons x xs ih =>
    simp only [minL]
    split
    · exact le_trans (ih x) (le_of_lt ‹_›)
    · exact ih m

theorem minL_mono (m m' : Rat) (xs : List Rat) (h : m ≤ m') : minL m xs ≤ minL m' xs := by
  induction xs generalizing m m' with
  | nil => exact h
  | cons x xs ih =>
    simp only [minL]
    apply ih
    split <;> split <;> linarith

theorem minL_le_mem (m : Rat) (xs : List Rat) (x : Rat) (hx : x ∈ m :: xs) : minL m xs ≤ x := by
  induction xs generalizing m with
  | nil =>
    simp only [List.mem_singleton] at hx
    subst hx; exact le_refl _
  | cons y ys ih =>
    simp only [minL]
    rcases List.mem_cons.mp hx with rfl | hx
    · exact le_trans (minL_le_init _ _) (by split <;> linarith)
    · rcases List.mem_cons.mp hx with rfl | hx
      · exact le_trans (minL_le_init _ _) (by split <;> linarith)
      · exact ih _ (List.mem_cons_of_mem _ hx)

theorem le_maxL_init (m : Rat) (xs : List Rat) : m ≤ maxL m xs := by
  induction xs generalizing m with
  | nil => exact le_refl _
  | cons x xs ih =>
    simp only [maxL]
    split
    · exact le_trans (le_of_lt ‹_›) (ih x)
    · exact ih m

theorem mem_le_maxL (m : Rat) (xs : List Rat) (x : Rat) (hx : x ∈ m :: xs) : x ≤ maxL m xs := by
  induction xs generalizing m with
  | nil =>
    simp only [List.mem_singleton] at hx
    subst hx; exact le_refl _
  | cons y ys ih =>
    simp only [maxL]
    rcases List.mem_cons.mp hx with rfl | hx
    · exact le_trans (by split <;> linarith) (le_maxL_init _ _)
    · rcases List.mem_cons.mp hx with rfl | hx
      · exact le_trans (by split <;> linarith) (le_maxL_init _ _)
      · exact ih _ (List.mem_cons_of_mem _ hx)

/-- the minimum is one of the elements (so a bound on all elements bounds it) -/
theorem minL_mem (m : Rat) (xs : List Rat) : minL m xs ∈ m :: xs := by
  induction xs generalizing m with
  | nil => simp [minL]
  | cons y ys ih =>
    simp only [minL]
    split
    · have := ih y
      rcases List.mem_cons.mp this with h | h
      · rw [h]; simp
      · exact List.mem_cons_of_mem _ (List.mem_cons_of_mem _ h)
    · have := ih m
      rcases List.mem_cons.mp this with h | h
      · rw [h]; simp
      · exact List.mem_cons_of_mem _ (List.mem_cons_of_mem _ h)

theorem maxL_mem (m : Rat) (xs : List Rat) : maxL m xs ∈ m :: xs := by
  induction xs generalizing m with
  | nil => simp [maxL]
  | cons y ys ih =>
    simp only [maxL]
    split
    · have := ih y
      rcases List.mem_cons.mp this with h | h
      · rw [h]; simp
      · exact List.mem_cons_of_mem _ (List.mem_cons_of_mem _ h)
    · have := ih m
      rcases List.mem_cons.mp this with h | h
      · rw [h]; simp
      · exact List.mem_cons_of_mem _ (List.mem_cons_of_mem _ h)

theorem clip_bounds (x lo hi : Rat) (h : lo ≤ hi) : lo ≤ clip x lo hi ∧ clip x lo hi ≤ hi := by
  unfold clip
  constructor <;> (split <;> split <;> linarith)

/-- a value between `lo` and `hi` that lies between `x` and `y` lies between their clipped values -/
theorem clip_between (x y lo hi e : Rat) (h1 : x ≤ e) (h2 : e ≤ y) (h3 : lo ≤ e) (h4 : e ≤ hi) :
    clip x lo hi ≤ e ∧ e ≤ clip y lo hi := by
  unfold clip
  constructor <;> (split <;> split <;> linarith)

theorem le_absR (x : Rat) : x ≤ absR x ∧ -x ≤ absR x := by
  unfold absR; split <;> constructor <;> linarith

theorem absR_of_nonneg (x : Rat) (h : 0 ≤ x) : absR x = x := by
  unfold absR; split
  · linarith
  · rfl

/-- a direction: `a` between two vertex azimuths, `e` between two vertex altitudes -/
def InHull (h : Rat) (hs : List Rat) (v : Rat) (vs : List Rat) (a e : Rat) : Prop :=
  (∃ x ∈ h :: hs, x ≤ a) ∧ (∃ x ∈ h :: hs, a ≤ x) ∧ (∃ y ∈ v :: vs, y ≤ e) ∧ (∃ y ∈ v :: vs, e ≤ y)

def Win.Has (w : Win) (a e : Rat) : Prop := w.h0 ≤ a ∧ a ≤ w.h1 ∧ w.v0 ≤ e ∧ e ≤ w.v1

theorem hull_bounds {h hs v vs a e} (H : InHull h hs v vs a e) :
    minL h hs ≤ a ∧ a ≤ maxL h hs ∧ minL v vs ≤ e ∧ e ≤ maxL v vs := by
  obtain ⟨⟨x1, m1, l1⟩, ⟨x2, m2, l2⟩, ⟨y1, n1, k1⟩, ⟨y2, n2, k2⟩⟩ := H
  exact ⟨le_trans (minL_le_mem _ _ _ m1) l1, le_trans l2 (mem_le_maxL _ _ _ m2),
    le_trans (minL_le_mem _ _ _ n1) k1, le_trans k2 (mem_le_maxL _ _ _ n2)⟩

/-- **front-centred case** (the target does not cross behind the viewer): a direction of the vertices' angular hull that
    lies inside the view windows is never pruned — rays are cast in a window containing it -/
theorem prune_front_sound (pi A B : Rat) (ahead : Bool) (h : Rat) (hs : List Rat) (v : Rat) (vs : List Rat) (a e : Rat)
    (H : InHull h hs v vs a e) (ha : -A ≤ a ∧ a ≤ A) (he : -B ≤ e ∧ e ≤ B) :
    ∃ ws, pruneCore pi A B ahead false h hs v vs = some ws ∧ ∃ w ∈ ws, w.Has a e := by
  obtain ⟨b1, b2, b3, b4⟩ := hull_bounds H
  have hv : ¬ (B < minL v vs ∨ maxL v vs < -B) := by
    rintro (c | c) <;> linarith
  have hh : ¬ (maxL h hs < -A ∨ A < minL h hs) := by
    rintro (c | c) <;> linarith
  refine ⟨[⟨clip (minL h hs) (-A) A, clip (maxL h hs) (-A) A, clip (minL v vs) (-B) B, clip (maxL v vs) (-B) B⟩], ?_, ?_⟩
  · simp only [pruneCore, hv, hh, if_false, Bool.and_false, Bool.false_eq_true]
  · refine ⟨_, List.mem_singleton.mpr rfl, ?_⟩
    have c1 := clip_between (minL h hs) (maxL h hs) (-A) A a b1 b2 ha.1 ha.2
    have c2 := clip_between (minL v vs) (maxL v vs) (-B) B e b3 b4 he.1 he.2
    exact ⟨c1.1, c1.2, c2.1, c2.2⟩

/-- **both** (the target crosses the forward axis ahead of and behind the viewer): the full windows are used -/
theorem prune_both_sound (pi A B : Rat) (h : Rat) (hs : List Rat) (v : Rat) (vs : List Rat) (a e : Rat)
    (hv : ¬ (B < minL v vs ∨ maxL v vs < -B)) (ha : -A ≤ a ∧ a ≤ A) (he : -B ≤ e ∧ e ≤ B) :
    ∃ ws, pruneCore pi A B true true h hs v vs = some ws ∧ ∃ w ∈ ws, w.Has a e := by
  refine ⟨[⟨-A, A, -B, B⟩], ?_, _, List.mem_singleton.mpr rfl, ha.1, ha.2, he.1, he.2⟩
  simp only [pruneCore, hv, if_false, Bool.and_self, if_true]

/-- **back-centred case** (the target crosses behind the viewer only): a direction strictly inside the horizontal window
    whose back-centred azimuth lies in the vertices' back-centred hull is never pruned -/
theorem prune_behind_sound (pi A B : Rat) (h : Rat) (hs : List Rat) (v : Rat) (vs : List Rat) (a e : Rat)
    (H : InHull (backShift pi h) (hs.map (backShift pi)) v vs (backShift pi a) e)
    (ha : -A < a ∧ a < A) (he : -B ≤ e ∧ e ≤ B) :
    ∃ ws, pruneCore pi A B false true h hs v vs = some ws ∧ ∃ w ∈ ws, w.Has a e := by
  obtain ⟨b1, b2, b3, b4⟩ := hull_bounds H
  have hv : ¬ (B < minL v vs ∨ maxL v vs < -B) := by
    rintro (c | c) <;> linarith
  have hA : 0 ≤ A := by linarith
  have c2 := clip_between (minL v vs) (maxL v vs) (-B) B e b3 b4 he.1 he.2
  have eA : absR A = A := absR_of_nonneg A hA
  have eA' : absR (-A) = A := by
    unfold absR; split
    · ring
    · have : A = 0 := by linarith
      rw [this]; ring
  by_cases h0 : 0 ≤ a
  · -- left half: the second window
    have hb : backShift pi a = a - pi := by unfold backShift; rw [if_pos h0]
    rw [hb] at b1
    have hs2 : pi < absR A + absR (minL (backShift pi h) (hs.map (backShift pi))) := by
      have := (le_absR (minL (backShift pi h) (hs.map (backShift pi)))).2
      rw [eA]; linarith
    have key : ∀ w1 : List Win, ∃ ws, (match w1 ++ [Win.mk (pi + minL (backShift pi h) (hs.map (backShift pi))) A
          (clip (minL v vs) (-B) B) (clip (maxL v vs) (-B) B)] with
        | [] => none
        | ws => some ws) = some ws ∧ ∃ w ∈ ws, w.Has a e := by
      intro w1
      refine ⟨w1 ++ [Win.mk (pi + minL (backShift pi h) (hs.map (backShift pi))) A
          (clip (minL v vs) (-B) B) (clip (maxL v vs) (-B) B)], ?_, Win.mk (pi + minL (backShift pi h) (hs.map (backShift pi))) A
          (clip (minL v vs) (-B) B) (clip (maxL v vs) (-B) B), List.mem_append_right _ (List.mem_singleton.mpr rfl), ?_⟩
      · cases w1 <;> rfl
      · exact ⟨by show pi + _ ≤ a; linarith, le_of_lt ha.2, c2.1, c2.2⟩
    simp only [pruneCore, hv, if_false, Bool.false_and, Bool.false_eq_true, if_true, hs2]
    exact key _
  · -- right half: the first window
    have h0' : a < 0 := lt_of_not_ge h0
    have hb : backShift pi a = a + pi := by unfold backShift; rw [if_neg h0]
    rw [hb] at b2
    have hs1 : pi < absR (-A) + absR (maxL (backShift pi h) (hs.map (backShift pi))) := by
      have := (le_absR (maxL (backShift pi h) (hs.map (backShift pi)))).1
      rw [eA']; linarith
    have key : ∀ w2 : List Win, ∃ ws, (match [Win.mk (-A) (-pi + maxL (backShift pi h) (hs.map (backShift pi)))
          (clip (minL v vs) (-B) B) (clip (maxL v vs) (-B) B)] ++ w2 with
        | [] => none
        | ws => some ws) = some ws ∧ ∃ w ∈ ws, w.Has a e := by
      intro w2
      refine ⟨Win.mk (-A) (-pi + maxL (backShift pi h) (hs.map (backShift pi)))
          (clip (minL v vs) (-B) B) (clip (maxL v vs) (-B) B) :: w2, rfl, Win.mk (-A) (-pi + maxL (backShift pi h) (hs.map (backShift pi)))
          (clip (minL v vs) (-B) B) (clip (maxL v vs) (-B) B), List.mem_cons_self, ?_⟩
      exact ⟨le_of_lt ha.1, by show a ≤ -pi + _; linarith, c2.1, c2.2⟩
    simp only [pruneCore, hv, if_false, Bool.false_and, Bool.false_eq_true, if_true, hs1]
    exact key _

/-- every window in which rays are cast lies inside the view windows (normalised azimuths in `[-π, π)`) -/
theorem prune_windows_within_view (pi A B : Rat) (ahead behind : Bool) (h : Rat) (hs : List Rat) (v : Rat)
    (vs : List Rat) (ws : List Win) (hA : 0 ≤ A) (hB : 0 ≤ B)
    (hr : ∀ x ∈ h :: hs, -pi ≤ x ∧ x < pi)
    (hw : pruneCore pi A B ahead behind h hs v vs = some ws) :
    ∀ w ∈ ws, -A ≤ w.h0 ∧ w.h1 ≤ A ∧ -B ≤ w.v0 ∧ w.v1 ≤ B := by
  have cB := fun x => clip_bounds x (-B) B (by linarith)
  have cA := fun x => clip_bounds x (-A) A (by linarith)
  -- back-shifted azimuths lie in [-π, π)
  have hsh : ∀ y ∈ backShift pi h :: hs.map (backShift pi), -pi ≤ y ∧ y < pi := by
    intro y hy
    have : ∃ x ∈ h :: hs, y = backShift pi x := by
      rcases List.mem_cons.mp hy with rfl | hy
      · exact ⟨h, List.mem_cons_self, rfl⟩
      · obtain ⟨x, hx, rfl⟩ := List.mem_map.mp hy
        exact ⟨x, List.mem_cons_of_mem _ hx, rfl⟩
    obtain ⟨x, hx, rfl⟩ := this
    have := hr x hx
    unfold backShift; split <;> constructor <;> linarith
  have smin := hsh _ (minL_mem _ _)
  have smax := hsh _ (maxL_mem _ _)
  unfold pruneCore at hw
  simp only at hw
  split at hw
  · exact absurd hw (by simp)
  · split at hw
    · cases hw
      intro w hwm
      rw [List.mem_singleton.mp hwm]
      exact ⟨le_refl _, le_refl _, le_refl _, le_refl _⟩
    · split at hw
      · split at hw
        · exact absurd hw (by simp)
        · rename_i ws' _
          cases hw
          intro w hwm
          rcases List.mem_append.mp hwm with hm | hm
          · split at hm
            · rw [List.mem_singleton.mp hm]
              exact ⟨le_refl _, by show -pi + _ ≤ A; linarith, (cB _).1, (cB _).2⟩
            · exact absurd hm (by simp)
          · split at hm
            · rw [List.mem_singleton.mp hm]
              exact ⟨by show -A ≤ pi + _; linarith, le_refl _, (cB _).1, (cB _).2⟩
            · exact absurd hm (by simp)
      · split at hw
        · exact absurd hw (by simp)
        · cases hw
          intro w hwm
          rw [List.mem_singleton.mp hwm]
          exact ⟨(cA _).1, (cA _).2, (cB _).1, (cB _).2⟩

/-- the azimuth normalisation maps `[-π, π]` into `[-π, π)` and only adds a multiple of `2π` to `r - π/2` -/
theorem normAz_range (pi r : Rat) (hp : 0 < pi) (hr : -pi ≤ r ∧ r ≤ pi) :
    -pi ≤ normAz pi r ∧ normAz pi r < pi ∧ (normAz pi r = r - pi / 2 ∨ normAz pi r = r - pi / 2 + 2 * pi) := by
  unfold normAz
  split
  · exact ⟨by linarith, by linarith, Or.inr rfl⟩
  · exact ⟨by linarith, by linarith, Or.inl rfl⟩

/-- every grid angle `np.linspace(a, b, n)[i]` lies in the window `[a, b]` -/
theorem linspace_in_window (a b : Rat) (n i : Nat) (hab : a ≤ b) (hn : 2 ≤ n) (hi : i ≤ n - 1) :
    a ≤ linspace a b n i ∧ linspace a b n i ≤ b := by
  unfold linspace
  have hpos : (0 : Rat) < ((n - 1 : Nat) : Rat) := by
    have : 0 < n - 1 := by omega
    exact_mod_cast this
  have hi' : (i : Rat) ≤ ((n - 1 : Nat) : Rat) := by exact_mod_cast hi
  have hi0 : (0 : Rat) ≤ (i : Rat) := by positivity
  have hq0 : 0 ≤ (b - a) * i / ((n - 1 : Nat) : Rat) := by
    apply div_nonneg _ (le_of_lt hpos)
    exact mul_nonneg (by linarith) hi0
  have hq1 : (b - a) * i / ((n - 1 : Nat) : Rat) ≤ b - a := by
    rw [div_le_iff₀ hpos]
    exact mul_le_mul_of_nonneg_left hi' (by linarith)
  constructor <;> linarith

-- non-vacuity: concrete vertices (π ≈ 22/7), a direction in the hull and inside the windows, in each of the three cases
example : ∃ ws, pruneCore (22/7) 1 (1/2) true false (1/4) [3/2, -1/8] (1/10) [-1/5, 2/5] = some ws ∧
    ∃ w ∈ ws, w.Has (1/2) (1/4) :=
  prune_front_sound (22/7) 1 (1/2) true (1/4) [3/2, -1/8] (1/10) [-1/5, 2/5] (1/2) (1/4)
    ⟨⟨1/4, by simp, by norm_num⟩, ⟨3/2, by simp, by norm_num⟩, ⟨1/10, by simp, by norm_num⟩, ⟨2/5, by simp, by norm_num⟩⟩
    (by norm_num) (by norm_num)
example : pruneCore (22/7) 1 (1/2) true false (1/4) [3/2, -1/8] (1/10) [-1/5, 2/5]
    = some [⟨-1/8, 1, -1/5, 2/5⟩] := by decide +kernel
example : pruneCore (22/7) 1 (1/2) true false (5/4) [3/2] (1/10) [-1/5] = none := by decide +kernel
example : ∃ ws, pruneCore (22/7) (22/7) (1/2) false true (3) [-3, 5/2] (1/10) [-1/5] = some ws ∧
    ∃ w ∈ ws, w.Has (-43/14) 0 :=
  prune_behind_sound (22/7) (22/7) (1/2) 3 [-3, 5/2] (1/10) [-1/5] (-43/14) 0
    ⟨⟨backShift (22/7) 3, by simp, by unfold backShift; norm_num⟩, ⟨backShift (22/7) (-3), by simp, by unfold backShift; norm_num⟩,
      ⟨-1/5, by simp, by norm_num⟩, ⟨1/10, by simp, by norm_num⟩⟩
    (by norm_num) (by norm_num)
example : ∃ ws, pruneCore (22/7) 2 (1/2) true true 3 [-3] (1/10) [-1/5] = some ws ∧ ∃ w ∈ ws, w.Has (-3/2) 0 :=
  prune_both_sound (22/7) 2 (1/2) 3 [-3] (1/10) [-1/5] (-3/2) 0 (by decide +kernel) (by norm_num) (by norm_num)
example : ∀ w ∈ [Win.mk (-1/8) 1 (-1/5) (2/5)],
    -(1 : Rat) ≤ w.h0 ∧ w.h1 ≤ 1 ∧ -(1/2 : Rat) ≤ w.v0 ∧ w.v1 ≤ 1/2 :=
  prune_windows_within_view (22/7) 1 (1/2) true false (1/4) [3/2, -1/8] (1/10) [-1/5, 2/5] _ (by norm_num) (by norm_num)
    (by intro x hx; simp at hx; rcases hx with rfl | rfl | rfl <;> norm_num) (by decide +kernel)
example : normAz (22/7) (-3) = 12/7 := by decide +kernel
example : (1 : Rat) ≤ linspace 1 3 5 2 ∧ linspace 1 3 5 2 ≤ 3 := linspace_in_window 1 3 5 2 (by norm_num) (by norm_num) (by norm_num)
example : linspace 1 3 5 2 = 2 := by decide +kernel

end Scenic.Vis.Prune
