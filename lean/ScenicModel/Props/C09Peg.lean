import ScenicModel.Lemmas.PegSim
import ScenicModel.Gen.Grammar
/-!
# C09, grammar part: Scenic's additions to the Python grammar are conservative

`Scenic.Peg.eval` is the parsing machine of pegen's generated parsers (ordered choice, cut, look-ahead, forced items,
`invalid_` guards, seed-growing left recursion), actions abstracted to labels. `erase` replaces by `fail` every alternative
that *must consume a word of `R` (or go through a rule of `F`) before it can succeed*, where the check also demands that
nothing evaluated before that word can raise (`noErr`) or cut (`spineNoCut`).

Full statement wanted by the property (kept visible): *for every Python module that does not use a reserved word as an
identifier, Scenic's parser produces the tree CPython produces*. What is proved here is the grammar-level half, for all
token streams, all fuels and both passes of the parser:

  `front_insertion_conservative` — on a stream containing none of the words `R`, the grammar and its erasure compute the
  same result (position, cut flag and the whole derivation: which alternative of which rule consumed which token).

It is instantiated on the grammar regenerated from `scenic.gram` with `R` = every keyword of the grammar that is not
a Python keyword (hard and soft), and the kernel re-checks on that data: the sets `F`/`S` are closed (`gen_F_ok`,
`gen_S_ok`), the Scenic-specific alternatives that survive the erasure are exactly the allow-list below (`gen_residue*`),
and the hard keywords added by Scenic are exactly the documented ones (`gen_scenic_hard`).
What is *not* proved: that the erased grammar is CPython's grammar and that the actions build CPython's nodes
(checked on the corpus by the differential run), and streams that use a Scenic *soft* keyword as an identifier
(outside the hypothesis `wordFree`; also covered by the corpus only).
-/
namespace Scenic.C09
open Scenic.Peg

/-- **Conservativity of guarded alternatives.** If every rule of `F` can only succeed through a word of `R`
(`fOK`) and no rule of `S` can reach a forced item (`sOK`), then on every token stream without a word of `R`
the grammar `g` and the grammar in which all guarded alternatives are erased give the same result, for every
amount of fuel for which `g` terminates. -/
theorem front_insertion_conservative (g : Grammar) (F S R : Mask) (ci : Bool)
    (hF : fOK g F S R ci = true) (hS : sOK g S = true)
    (toks : Array Tok) (hW : wordFree R toks) (fuel start : Nat)
    (h : parse g toks ci fuel start ≠ .oof) :
    parse (eraseGrammar F S R ci g) toks ci fuel start = parse g toks ci fuel start := by
  have := (sim_all g toks ci F S R hW (fOK_get hF) (sOK_get hS) fuel).1 [] (.ref start) 0 (SeedsF_nil F) h
  simpa [parse, erase] using this

/-- the same for any expression and position (e.g. the `eval`/`fstring` entry points) -/
theorem front_insertion_conservative_expr (g : Grammar) (F S R : Mask) (ci : Bool)
    (hF : fOK g F S R ci = true) (hS : sOK g S = true)
    (toks : Array Tok) (hW : wordFree R toks) (fuel : Nat) (e : Expr) (p : Nat)
    (h : eval g toks ci fuel [] e p ≠ .oof) :
    eval (eraseGrammar F S R ci g) toks ci fuel [] (erase F S R ci e) p = eval g toks ci fuel [] e p :=
  (sim_all g toks ci F S R hW (fOK_get hF) (sOK_get hS) fuel).1 [] e p (SeedsF_nil F) h

/-- conversely, whatever the erased grammar computes is what the full grammar computes, unless the full grammar
needs more fuel (it also explores the guarded alternatives) -/
theorem erased_result_is_full_result (g : Grammar) (F S R : Mask) (ci : Bool)
    (hF : fOK g F S R ci = true) (hS : sOK g S = true)
    (toks : Array Tok) (hW : wordFree R toks) (fuel start : Nat) :
    parse g toks ci fuel start = parse (eraseGrammar F S R ci g) toks ci fuel start ∨
    parse g toks ci fuel start = .oof := by
  by_cases h : parse g toks ci fuel start = .oof
  · exact Or.inr h
  · exact Or.inl (front_insertion_conservative g F S R ci hF hS toks hW fuel start h).symm

/-- a guarded alternative never succeeds, never raises and never cuts on such a stream -/
theorem guarded_alternative_fails (g : Grammar) (F S R : Mask) (ci : Bool)
    (hF : fOK g F S R ci = true) (hS : sOK g S = true)
    (toks : Array Tok) (hW : wordFree R toks) (fuel : Nat) (e : Expr) (p : Nat)
    (he : mustFail F S R ci e = true) :
    eval g toks ci fuel [] e p = .fail ∨ eval g toks ci fuel [] e p = .oof :=
  (mustFail_all g toks ci F S R hW (fOK_get hF) (sOK_get hS) fuel).1 [] e p (SeedsF_nil F) he

/-! ### non-vacuity: a small grammar with a guarded alternative, a cut, a forced item and left recursion -/
namespace Example
/-- literal ids: 0 `new` (the guard word), 1 `+`, 2 `(`, 3 `)`;
    rule 0 `start: 'new' NAME | sum`; rule 1 (leader) `sum: sum '+' atom | atom`;
    rule 2 `atom: '(' ~ sum &&')' | NAME` -/
def g : Grammar where
  rules := #[
    ⟨.alt (.act 0 (.seq (.lit 0) (.seq .name .eps))) (.alt (.act 1 (.seq (.ref 1) .eps)) .fail), false⟩,
    ⟨.alt (.act 2 (.seq (.ref 1) (.seq (.lit 1) (.seq (.ref 2) .eps)))) (.alt (.act 3 (.seq (.ref 2) .eps)) .fail), true⟩,
    ⟨.alt (.act 4 (.seq (.lit 2) (.seq .cut (.seq (.ref 1) (.seq (.forced (.lit 3)) .eps)))))
        (.alt (.act 5 (.seq .name .eps)) .fail), false⟩]
  keywords := Mask.ofList [0]
def noLit : Nat := 99
/-- `a + ( b + c )` -/
def toks : Array Tok := #[⟨1, noLit⟩, ⟨54, 1⟩, ⟨54, 2⟩, ⟨1, noLit⟩, ⟨54, 1⟩, ⟨1, noLit⟩, ⟨54, 3⟩]
def R : Mask := Mask.ofList [0]
def F : Mask := 0
def S : Mask := 0

def endOf : Res → Option (Nat × Bool)
  | .ok p c _ => some (p, c)
  | _ => none

example : fOK g F S R false = true := by decide +kernel
example : sOK g S = true := by decide +kernel
example : ∀ t ∈ toks.toList, R.has t.lit = false := by decide +kernel
example : mustFail F S R false (.act 0 (.seq (.lit 0) (.seq .name .eps))) = true := by decide +kernel
/-- the whole stream is consumed, through the left-recursive rule, the cut and the forced item -/
example : endOf (parse g toks false 40 0) = some (7, false) := by decide +kernel
example : parse (eraseGrammar F S R false g) toks false 40 0 = parse g toks false 40 0 := by decide +kernel
/-- with the guard word in the stream the two grammars differ: the hypothesis `wordFree` is needed -/
example : parse (eraseGrammar F S R false g) #[⟨1, 0⟩, ⟨1, noLit⟩] false 40 0
    ≠ parse g #[⟨1, 0⟩, ⟨1, noLit⟩] false 40 0 := by decide +kernel
end Example

/-! ### the grammar regenerated from `scenic.gram` -/
open Scenic.Gen.Grammar

/-- Python as Scenic parses it: the generated grammar with every guarded Scenic alternative erased -/
def pythonCore : Grammar := eraseGrammar mustFailMask noForcedMask scenicWordMask false grammar

/-- side condition: every rule listed in `mustFailRules` can only succeed through a Scenic-only word -/
theorem gen_F_ok : fOK grammar mustFailMask noForcedMask scenicWordMask false = true := by decide +kernel

/-- side condition: no rule listed in `noForcedRules` can reach a forced item -/
theorem gen_S_ok : sOK grammar noForcedMask = true := by decide +kernel

/-- side condition: the Scenic-specific alternatives still present in `pythonCore` (reachable from `file`) are the
generated list … -/
theorem gen_residue :
    residue pythonCore scenicRuleMask scenicWordMask start 100000 = residueIdx := by decide +kernel

/-- … whose names are as generated … -/
theorem gen_residue_named :
    residueNames = residueIdx.map fun (r, l) => (ruleNames.getD r "?", (residueAlt.lookup l).getD 0) := by decide

/-- … and equal to the allow-list kept here. Each entry is a deliberate, unguarded part of Scenic:
* `statement`/0 → `scenic_compound_stmt` → its alternative 6 `scenic_try_interrupt_stmt`
  (`'try' &&':' block interrupt_when_block+ …`: reads a Python `try` block first, then needs the word `interrupt`);
* `class_def_raw`/1 → `scenic_class_def_block` → `scenic_class_statements` → `scenic_class_statement`/0
  → `scenic_class_property_stmt` (`NAME ['[' attributes ']'] ':' expression NEWLINE`: Scenic's property definitions;
  this is why `x: int` in a class body becomes a property and `NAME[…]` at the start of a class statement is refused);
* `shift_expr`/3 → `scenic_prefix_operators` (after the erasure: just `sum`);
* `term`/0 → `scenic_vector` (`term '@' factor`, tried before Python's matrix multiplication);
* `power`/1 → `scenic_new` (after the erasure: just `await_primary`).
A new unguarded Scenic alternative in a Python rule, or a guard that no longer guards, changes this list. -/
theorem gen_residue_allowed :
    residueNames = [("statement", 0), ("scenic_compound_stmt", 6), ("class_def_raw", 1), ("scenic_class_def_block", 0),
      ("scenic_class_statements", 0), ("scenic_class_statement", 0), ("scenic_class_property_stmt", 0),
      ("shift_expr", 3), ("term", 0), ("power", 1)] := by decide

/-- side condition: the hard keywords Scenic adds to Python are exactly the documented reserved words -/
theorem gen_scenic_hard :
    scenicHard = ["at", "by", "do", "new", "of", "on", "require", "to", "until"] := by decide

/-- **C09 (grammar part), on the current grammar.** For every token stream that contains no Scenic-only word,
Scenic's grammar parses it exactly as `pythonCore` does — same accept/reject, same end position, same derivation. -/
theorem scenic_grammar_conservative (toks : Array Tok) (hW : wordFree scenicWordMask toks) (fuel : Nat)
    (h : parse grammar toks false fuel start ≠ .oof) :
    parse pythonCore toks false fuel start = parse grammar toks false fuel start :=
  front_insertion_conservative grammar mustFailMask noForcedMask scenicWordMask false gen_F_ok gen_S_ok
    toks hW fuel start h

/-- every Scenic statement rule is unreachable on such streams: e.g. `scenic_stmts` (rule tried before `simple_stmts`) -/
theorem scenic_rules_fail (toks : Array Tok) (hW : wordFree scenicWordMask toks) (fuel r p : Nat)
    (hr : mustFailMask.has r = true) :
    eval grammar toks false fuel [] (.ref r) p = .fail ∨ eval grammar toks false fuel [] (.ref r) p = .oof :=
  guarded_alternative_fails grammar mustFailMask noForcedMask scenicWordMask false gen_F_ok gen_S_ok toks hW fuel
    (.ref r) p (by simpa [mustFail] using hr)

end Scenic.C09
